import FranzVerif.Proof.C20
/-! C20 — property theorems: what `RecordFormatter` wrote is read back by `RecordReader` with the same layout.

The model (`Model/C20.lean`) is the code as it is; it is tied to /repo by the differential run of `./check C20`.
The Spec (`Spec/C20.lean`) is `specStream`: the reader returns the written records restricted to the fields the
layout mentions, in order, then `io.EOF`.

FULL STATEMENT (the property as given), for every layout `L` of the size-prefixed / fixed-width fragment
(`WF L`), unambiguous (`Unambiguous L`: an `{ascii}` number is followed by a literal that does not start with a
digit or sign), every record `r` that is a `kgo.Record` (`RecOK r`) whose numeric fields are within the widths
the layout gives them (`Fits L r`), and every continuation `rest`:

    FullRoundTrip :  ∃ sz, readRecord L (format L r ++ rest) = ok ⟨restrict L r, sz, rest, false⟩
    FullStream    :  readAll L (|rs|+1+k) (formatAll L rs) false = (rs.map (restrict L), eof)

This is FALSE of the code as it is, in exactly two classes (each refuted below by a `decide`d witness that the
harness replays on the real code, corpus/C20):
  (g) a sized text verb with `{hex}` / `{base64}` and a non-empty field: the formatter's size verb prints the raw
      length, the reader consumes that many *encoded* bytes            → `roundtrip_false_encoded_text`
  (h) a negative number printed with `{ascii}`: the formatter prints `-1`, the reader's `{ascii}` accepts digits
      only and parses unsigned                                         → `roundtrip_false_negative_ascii`
What is proved for all inputs is the statement with the two classes excluded by the decidable hypotheses
`PlainText L` and `NonNegAscii L r`: `roundtrip_partial`, `stream_partial`, `spec_stream_partial`. -/
namespace Props.C20
open Model.C20 Spec.C20 Proof.C20

/-- One record: the reader, started on the formatter's bytes followed by anything, returns the record
restricted to the layout's fields, has consumed exactly the formatter's bytes, and has not seen EOF.
(Full statement: without `hpl`, `hnn`; see the header. Missing: classes (g) and (h).) -/
theorem roundtrip_partial (L : Layout) (r : Rec) (rest : Bytes)
    (hwf : WF L = true) (hun : Unambiguous L = true) (hr : RecOK r = true) (hfit : Fits L r = true)
    (hpl : PlainText L = true) (hnn : NonNegAscii L r = true) :
    ∃ sz, readRecord L (format L r ++ rest) = .ok ⟨restrict L r, sz, rest, false⟩ := by
  simp only [WF, Bool.and_eq_true] at hwf
  exact next_ok r L {} false false {} {} rest true hwf.2 hun
    (itemOK_of_hyps L r {} false false hwf.2 hr hfit hpl hnn) (cons_init _ _)

example :
    let L : Layout := [.flat (.num .keyLen .ascii), .flat (.lit [58]), .flat (.text .key .plain),
      .flat (.num .offset .hex64), .flat (.num .hdrCount .byte),
      .hdrs [.num .keyLen .big16, .text .key .plain, .num .valueLen .ascii, .lit [61], .text .value .plain],
      .flat (.num .timestamp .little64), .flat (.num .partition .big32), .flat (.lit [10])]
    let r : Rec := { key := [1, 2, 3], offset := 255, partition := -1, ts := some (-1500000), headers := [⟨[104], [0, 255]⟩, ⟨[], []⟩] }
    WF L = true ∧ Unambiguous L = true ∧ RecOK r = true ∧ Fits L r = true ∧ PlainText L = true
      ∧ NonNegAscii L r = true := by decide

/-- The stream: `ReadRecord` called until it fails returns the written records in order and then `io.EOF`,
exactly at the end of the stream (`k` spare calls change nothing).
(Full statement: without `hpl` and the `NonNegAscii` conjunct. Missing: classes (g) and (h).) -/
theorem stream_partial (L : Layout) (rs : List Rec) (k : Nat)
    (hwf : WF L = true) (hun : Unambiguous L = true) (hpl : PlainText L = true)
    (hrs : ∀ r ∈ rs, RecOK r = true ∧ Fits L r = true ∧ NonNegAscii L r = true) :
    readAll L (rs.length + 1 + k) (formatAll L rs) false = (rs.map (restrict L), Term.eof) := by
  induction rs with
  | nil =>
    simp only [List.length_nil, formatAll, List.flatMap_nil, List.map_nil]
    rw [show 0 + 1 + k = k + 1 by omega]
    simp [readAll, readRecord_nil L hwf]
  | cons r rs ih =>
    obtain ⟨hr, hfit, hnn⟩ := hrs r (by simp)
    obtain ⟨sz, h⟩ := roundtrip_partial L r (formatAll L rs) hwf hun hr hfit hpl hnn
    have ih' := ih (fun r' h' => hrs r' (by simp [h']))
    have hf : formatAll L (r :: rs) = format L r ++ formatAll L rs := by simp [formatAll]
    rw [hf, show (r :: rs).length + 1 + k = (rs.length + 1 + k) + 1 by simp; omega]
    simp only [readAll, h, Bool.false_eq_true, if_false, ih', List.map_cons]

/-- The Spec holds of the model on every stream of the fragment outside the two classes. -/
theorem spec_stream_partial (L : Layout) (rs : List Rec) (k : Nat)
    (hwf : WF L = true) (hun : Unambiguous L = true) (hpl : PlainText L = true)
    (hrs : ∀ r ∈ rs, RecOK r = true ∧ Fits L r = true ∧ NonNegAscii L r = true) :
    specStream L rs (readAll L (rs.length + 1 + k) (formatAll L rs) false) = true := by
  rw [stream_partial L rs k hwf hun hpl hrs]
  simp [specStream]

/-- `io.EOF`, and only that, on an empty stream (every layout of the fragment starts with a fn that reads). -/
theorem eof_on_empty (L : Layout) (hwf : WF L = true) : readRecord L [] = .error .eof :=
  readRecord_nil L hwf

/-- The millisecond truncation of the Spec is Go's `/` as the model spells it. -/
theorem goDiv_is_tdiv (a b : Int) : goDiv a b = Int.tdiv a b := goDiv_eq_tdiv a b

/-! ## The full statement is false of the code as it is -/

/-- the property as given, for one record -/
def FullRoundTrip : Prop :=
  ∀ (L : Layout) (r : Rec) (rest : Bytes), WF L = true → Unambiguous L = true → RecOK r = true → Fits L r = true →
    ∃ sz, readRecord L (format L r ++ rest) = .ok ⟨restrict L r, sz, rest, false⟩

/-- witness (g): `%K{byte}%k{hex}\n`, key `ab` -/
def witG_L : Layout := [.flat (.num .keyLen .byte), .flat (.text .key .hex), .flat (.lit [10])]
def witG_r : Rec := { key := [171], ts := some 0 }

/-- witness (h): `%o\n`, offset −1 -/
def witH_L : Layout := [.flat (.num .offset .ascii), .flat (.lit [10])]
def witH_r : Rec := { offset := -1, ts := some 0 }

/-- (g) Even with every `{ascii}` number non-negative the statement fails for `{hex}` text: the formatter writes
`01 'a' 'b' '\n'`, the reader takes one byte `a` for the key and `hex.Decode` fails. -/
theorem roundtrip_false_encoded_text :
    ¬ (∀ (L : Layout) (r : Rec) (rest : Bytes), WF L = true → Unambiguous L = true → RecOK r = true → Fits L r = true →
        NonNegAscii L r = true →
        ∃ sz, readRecord L (format L r ++ rest) = .ok ⟨restrict L r, sz, rest, false⟩) := by
  intro h
  obtain ⟨sz, hsz⟩ := h witG_L witG_r [] (by decide) (by decide) (by decide) (by decide) (by decide)
  have hm : readRecord witG_L (format witG_L witG_r ++ []) = .error .other := by rfl
  rw [hm] at hsz
  cases hsz

/-- (h) Even with plain text only the statement fails for a negative `{ascii}` number: the formatter writes
`-1\n`, the reader's digit run is empty and `ParseUint("")` fails. -/
theorem roundtrip_false_negative_ascii :
    ¬ (∀ (L : Layout) (r : Rec) (rest : Bytes), WF L = true → Unambiguous L = true → RecOK r = true → Fits L r = true →
        PlainText L = true →
        ∃ sz, readRecord L (format L r ++ rest) = .ok ⟨restrict L r, sz, rest, false⟩) := by
  intro h
  obtain ⟨sz, hsz⟩ := h witH_L witH_r [] (by decide) (by decide) (by decide) (by decide) (by decide)
  have hm : readRecord witH_L (format witH_L witH_r ++ []) = .error .other := by rfl
  rw [hm] at hsz
  cases hsz

/-- hence the property as given does not hold of the code as it is -/
theorem full_roundtrip_false : ¬ FullRoundTrip := by
  intro h
  exact roundtrip_false_negative_ascii (fun L r rest a b c d _ => h L r rest a b c d)

/-- the same on streams: the reader does not return the record and `io.EOF` -/
theorem full_stream_false :
    ¬ (∀ (L : Layout) (rs : List Rec), WF L = true → Unambiguous L = true →
        (∀ r ∈ rs, RecOK r = true ∧ Fits L r = true) →
        specStream L rs (readAll L (rs.length + 1) (formatAll L rs) false) = true) := by
  intro h
  have := h witG_L [witG_r] (by decide) (by decide) (by decide)
  revert this
  decide

end Props.C20
