import FranzVerif.Proof.C25A
/-! C27 — cooperative rebalances hand off safely and converge.

Model: `adjust` (AdjustCooperative, exact, shared with C25) and one rebalance round
`round sticky ms g = (sticky ms, adjust ms (sticky ms), nextMembers …)` in which `sticky` — the sticky
engine, not modelled — is an arbitrary function; after a round every member owns exactly what the adjusted
plan gave it (it revoked the rest) and rejoins at generation `g`.

Specs (executable, evaluated by the driver on the implementation's plans):
* `safeHandoff ms plan`: whenever a member is assigned a partition that ANOTHER member owns with a current
  claim (lists it as owned, and nobody lists it at a higher generation), the assignee is itself a current owner
  — nothing is handed to a new owner while a current owner still holds it.
* `settled`: in the next round nothing is withheld, the plan is valid and nobody loses what it owns. -/
namespace Props.C27
open Model.C25 Proof.C25

/-- each partition is planned for at most one member. -/
def Exclusive (plan : List Triple) : Prop := (plan.map Triple.tp).Nodup
/-- the plan only names members of the group. -/
def PlanMembers (ms : List Member) (plan : List Triple) : Prop := ∀ x ∈ plan, ∃ m ∈ ms, m.id = x.1

/-- Safety, for every group (any ownership claims, generations, conflicting and stale claims, duplicate owned
entries) and every plan the sticky engine may return as long as it plans each partition at most once and only
for members: after AdjustCooperative no member is handed a partition another member currently owns. -/
theorem cooperative_handoff_safe (ms : List Member) (plan : List Triple)
    (hex : Exclusive plan) (hmem : PlanMembers ms plan) : safeHandoff ms (adjust ms plan) = true :=
  adjust_safe ms plan hex hmem

/-- non-vacuity: a stale claimant (generation 2) is re-given partition 0 that the current owner (generation 5)
still holds; the plan is exclusive, and the adjusted plan withholds the partition from the stale member. -/
example :
    let ms : List Member := [{ id := "stale", gen := 2, topics := ["t"], owned := [("t", [0])] },
                             { id := "cur", gen := 5, topics := ["u"], owned := [("t", [0])] }]
    Exclusive [("stale", "t", 0)] ∧ PlanMembers ms [("stale", "t", 0)]
    ∧ adjust ms [("stale", "t", 0)] = [] ∧ safeHandoff ms [("stale", "t", 0)] = false := by
  refine ⟨by unfold Exclusive; decide, ?_, by decide, by decide⟩
  intro x hx; simp at hx; subst hx; exact ⟨_, List.mem_cons_self, rfl⟩

/-- Hypothesis on the (unmodelled) sticky engine, checked on the real engine by the differential run for every
generated history: re-run on the group as it stands after a round, it keeps every partition where it is. -/
def StickyKeepsOwned (sticky : List Member → List Triple) (ms : List Member) (g : Int) : Prop :=
  ∀ x ∈ adjust ms (sticky ms), x ∈ sticky (nextMembers ms (adjust ms (sticky ms)) g)

/-- Stronger hypothesis: the engine is stable on its own adjusted output (the second plan is the first one). -/
def StickyStable (sticky : List Member → List Triple) (ms : List Member) (g : Int) : Prop :=
  (sticky (nextMembers ms (adjust ms (sticky ms)) g)).Perm (sticky ms)

/- Convergence, full statement: for every sticky engine that returns valid plans, every group `ms` and
generation `g`, with (p1, a1, ms1) = round sticky ms g and (p2, a2, _) = round sticky ms1 (g+1):
     a2.Perm p1      — the second rebalance hands out exactly the intended assignment.
   This is not provable from validity of the engine alone (`convergence_needs_engine_hypothesis`), and the
   differential run shows the real engine violating `StickyKeepsOwned` on some histories (finding
   coop-sticky-moves-owned-in-round2). Proved: the statement under `StickyStable`, and the settling part
   (nothing withheld, nothing moved) under the weaker `StickyKeepsOwned`. -/

/-- Under `StickyKeepsOwned` the second round withholds nothing and moves nothing: its adjusted plan IS the
sticky plan and contains everything every member owned, so no member revokes and the group is settled. -/
theorem second_round_settles_partial (sticky : List Member → List Triple) (ms : List Member) (g : Int)
    (h : StickyKeepsOwned sticky ms g) :
    let r1 := round sticky ms g
    let r2 := round sticky r1.2.2 (g + 1)
    r2.2.1 = r2.1 ∧ ∀ x ∈ r1.2.1, x ∈ r2.2.1 := by
  have he := adjust_next_eq ms (adjust ms (sticky ms)) g (sticky (nextMembers ms (adjust ms (sticky ms)) g)) h
  simp only [round]
  exact ⟨he, fun x hx => by rw [he]; exact h x hx⟩

/-- Under `StickyStable` the second rebalance hands out exactly the intended assignment of the first. -/
theorem two_round_convergence_partial (sticky : List Member → List Triple) (ms : List Member) (g : Int)
    (h : StickyStable sticky ms g) :
    let r1 := round sticky ms g
    let r2 := round sticky r1.2.2 (g + 1)
    r2.2.1.Perm r1.1 := by
  have hk : StickyKeepsOwned sticky ms g := fun x hx => h.symm.subset ((adjust_sublist ms (sticky ms)).subset hx)
  have := (second_round_settles_partial sticky ms g hk).1
  simp only [round] at this ⊢
  rw [this]; exact h

/-- a sticky engine for the examples: two members on one partition; gives it to whoever does not own it. -/
def flipSticky (ms : List Member) : List Triple :=
  if ms.any (fun m => m.id == "a" && claims m ("t", 0)) then [("b", "t", 0)] else [("a", "t", 0)]

/-- The hypotheses are satisfiable by a non-trivial state: the constant engine moving a partition from its
owner `a` to `b` is stable; round 1 withholds the partition, round 2 completes the move. -/
example :
    let ms : List Member := [{ id := "a", gen := 1, topics := ["t"], owned := [("t", [0])] }, { id := "b", gen := 1, topics := ["t"] }]
    let st : List Member → List Triple := fun _ => [("b", "t", 0)]
    StickyStable st ms 2 ∧ (round st ms 2).2.1 = [] ∧ (round st (round st ms 2).2.2 3).2.1 = [("b", "t", 0)] := by
  refine ⟨List.Perm.refl _, by decide, by decide⟩

/-- Validity of the engine's plans alone does not give convergence: `flipSticky` returns a valid plan in both
rounds for the two-member group below, yet its second round plans the partition for the other member again instead of completing the first plan. -/
theorem convergence_needs_engine_hypothesis :
    ¬ ∀ (sticky : List Member → List Triple) (ms : List Member) (g : Int) (n : String → Nat),
        validPlan (subsOf ms) n (sticky ms) = true →
        validPlan (subsOf (round sticky ms g).2.2) n (sticky (round sticky ms g).2.2) = true →
        (round sticky (round sticky ms g).2.2 (g + 1)).2.1.Perm (round sticky ms g).1 := by
  intro h
  have := h flipSticky
    [{ id := "a", gen := 1, topics := ["t"], owned := [("t", [0])] }, { id := "b", gen := 1, topics := ["t"] }] 2
    (cnt [("t", 1)]) (by decide) (by decide)
  have hm : (("a", "t", 0) : Triple) ∈ (round flipSticky
      [{ id := "a", gen := 1, topics := ["t"], owned := [("t", [0])] }, { id := "b", gen := 1, topics := ["t"] }] 2).1 :=
    this.subset (by decide)
  revert hm
  decide

end Props.C27
