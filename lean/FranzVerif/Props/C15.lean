import FranzVerif.Proof.C15f
import FranzVerif.Gen.Schema
/-! C15 — the generated codec matches the protocol definitions.

`Gen.Schema` is regenerated on every run from `/repo/generate/definitions/*` by the independent parser `tools/krammar`.
`Model.C15.enc` / `dec` is the independent interpreter of that schema; `canon` is the Spec-level statement of what a decoder has
to recover: the fields present at the version, every absent field at its default, tagged fields and unknown tags on flexible
versions, `nil`/empty exactly as the wire can express them at that version.

The driver evaluates on every op: bytes of `AppendTo` = `encTop`, tree recovered by `ReadFrom` = `canonTop` (that is the Spec
on the implementation's output); the theorems below say the interpreter itself has the property for EVERY schema, version and value. -/
namespace Props.C15
open Model.C15

/-- **Round trip, generic.** For every schema type `t` that is well formed at the version (every array element occupies ≥ 1
byte, defined tags pairwise distinct: decidable, `schema_ok` below proves it of the regenerated definitions), every version `≥ 0`, every
value `v` in the domain of the encoder and every suffix `rest`: decoding `enc v ++ rest` succeeds, returns the normal form of `v`
at that version and leaves `rest` untouched. (`c.cap` is the allocation cap of the model's `make`.) -/
theorem roundtrip (t : Ty) (c : Cfg) (flex : Bool) (v : Val) (bs rest : Bytes)
    (hv : 0 ≤ c.ver) (hs : schemaOK c.ver t = true) (h : enc c.ver flex t v = some bs) (hcap : bs.length + rest.length ≤ c.cap) :
    dec c flex t (bs ++ rest) = .ok (canon c.ver t v) rest :=
  Proof.C15.decEnc t c flex v bs rest hv hs h hcap

/-- Unknown tags are preserved: on a flexible version the decoded struct carries exactly the unknown tags of the encoded value. -/
theorem unknown_tags_preserved (nullable : Bool) (ff : Option Int) (fs : Fields) (c : Cfg) (flex : Bool) (vals : Vals)
    (unk : List (Nat × Bytes)) (bs rest : Bytes) (hv : 0 ≤ c.ver) (hfl : flexAt ff c.ver = true)
    (hs : schemaOK c.ver (.struct nullable ff fs) = true) (h : enc c.ver flex (.struct nullable ff fs) (.stru vals unk) = some bs)
    (hcap : bs.length + rest.length ≤ c.cap) :
    ∃ vals', dec c flex (.struct nullable ff fs) (bs ++ rest) = .ok (.stru vals' unk) rest := by
  refine ⟨canonFields c.ver true fs vals, ?_⟩
  rw [roundtrip _ c flex _ bs rest hv hs h hcap]
  simp [canon, hfl]

/-- Below its flexible version a struct has no tag section: the unknown tags of the value are not written and the decoder leaves none. -/
theorem no_tags_below_flexible (nullable : Bool) (ff : Option Int) (fs : Fields) (ver : Int) (vals : Vals)
    (unk : List (Nat × Bytes)) (hfl : flexAt ff ver = false) :
    canon ver (.struct nullable ff fs) (.stru vals unk) = .stru (canonFields ver false fs vals) [] := by
  simp [canon, hfl]

/-- What the normal form does field by field: an untagged field that is absent at the version is at its default … -/
theorem canon_absent_field (ver : Int) (flex : Bool) (name : String) (minV : Int) (maxV : Option Int) (d : Dflt) (t : Ty)
    (rest : Fields) (v : Val) (r : Vals) (h : present minV maxV ver = false) :
    canonFields ver flex (.cons name minV maxV none d t rest) (.cons v r) = .cons (dfltVal t d) (canonFields ver flex rest r) := by
  simp [canonFields, h]

/-- … a present one is recovered (in its own normal form) … -/
theorem canon_present_field (ver : Int) (flex : Bool) (name : String) (minV : Int) (maxV : Option Int) (d : Dflt) (t : Ty)
    (rest : Fields) (v : Val) (r : Vals) (h : present minV maxV ver = true) :
    canonFields ver flex (.cons name minV maxV none d t rest) (.cons v r) = .cons (canon ver t v) (canonFields ver flex rest r) := by
  simp [canonFields, h]

/-- … and a tagged field is recovered on flexible versions, and is at its default otherwise. -/
theorem canon_tagged_field (ver : Int) (flex : Bool) (name : String) (minV : Int) (maxV : Option Int) (k : Nat) (d : Dflt) (t : Ty)
    (rest : Fields) (v : Val) (r : Vals) :
    canonFields ver flex (.cons name minV maxV (some k) d t rest) (.cons v r) =
      .cons (if flex && !tagIsDefault ver t d v then canon ver t v else dfltVal t d) (canonFields ver flex rest r) := by
  simp [canonFields]

/-- two field-value lists agree on every field that is written at `ver` (absent untagged fields are unconstrained). -/
def SameAt (ver : Int) : Fields → Vals → Vals → Prop
  | .cons _ minV maxV tag _ _ rest, .cons v r, .cons v' r' =>
    ((tag = none ∧ present minV maxV ver = false) ∨ v = v') ∧ SameAt ver rest r r'
  | .nil, .nil, .nil => True
  | _, _, _ => False

/-- **The encoding depends only on the fields present at the version**: changing the value of fields that are absent at `ver`
does not change a single byte. -/
theorem enc_depends_only_on_present (ver : Int) (flex nullable : Bool) (ff : Option Int) (fs : Fields) (vals vals' : Vals)
    (unk : List (Nat × Bytes)) (h : SameAt ver fs vals vals') :
    enc ver flex (.struct nullable ff fs) (.stru vals unk) = enc ver flex (.struct nullable ff fs) (.stru vals' unk) := by
  have key : ∀ (fl : Bool) (fs : Fields) (vals vals' : Vals), SameAt ver fs vals vals' →
      encFields ver fl fs vals = encFields ver fl fs vals' ∧ encTags ver fl fs vals = encTags ver fl fs vals' := by
    intro fl fs
    induction fs using Proof.C15.Fields.ind with
    | h0 => intro vals vals' h; cases vals <;> cases vals' <;> simp [SameAt] at h ⊢
    | h1 name minV maxV tag d t rest ih =>
      intro vals vals' h
      cases vals with
      | nil => cases vals' <;> simp [SameAt] at h
      | cons v r =>
        cases vals' with
        | nil => simp [SameAt] at h
        | cons v' r' =>
          simp only [SameAt] at h
          obtain ⟨hv, hr⟩ := h
          obtain ⟨i1, i2⟩ := ih r r' hr
          cases hv with
          | inr e => subst e; simp [encFields, encTags, i1, i2]
          | inl e => obtain ⟨e1, e2⟩ := e; subst e1; simp [encFields, encTags, i1, i2, e2]
  obtain ⟨k1, k2⟩ := key (flexAt ff ver) fs vals vals' h
  simp [enc, k1, k2]

/-! ### The regenerated schema -/

def versionsOf (top : Top) : List Int := (List.range (top.maxVersion.toNat + 1)).map fun (n : Nat) => (n : Int)

def checkAll : Bool := Gen.Schema.all.all fun top => (versionsOf top).all fun ver => schemaOK ver top.ty

set_option maxRecDepth 100000 in
theorem checkAll_true : checkAll = true := by decide +kernel

/-- **Tie T obligation.** Every definition of the current `generate/definitions`, at every version `0..max` it supports, is well
formed in the sense `roundtrip` needs: every array element that is written occupies at least one byte (so `Reader.ArrayLen`'s
"length ≤ remaining bytes" check never refuses a genuine encoding) and the defined tags of every struct are distinct. -/
theorem schema_ok (top : Top) (htop : top ∈ Gen.Schema.all) (ver : Int) (h0 : 0 ≤ ver) (h1 : ver ≤ top.maxVersion) :
    schemaOK ver top.ty = true := by
  have h := checkAll_true
  simp only [checkAll, List.all_eq_true] at h
  have hv : ver ∈ versionsOf top := by
    simp only [versionsOf, List.mem_map, List.mem_range]
    exact ⟨ver.toNat, by omega, by omega⟩
  exact h top htop ver hv

/-- The round trip for every request / response / `not top level` definition of the current tree at every supported version
(definitions read with the version as a parameter; `RecordBatch`'s trailing `length-field-minus` bytes and the types that carry
their own `Version` field go through `decTop`'s extra plumbing and the hand-written `StickyMemberMetadata` through `decSticky`;
those are exercised differentially). -/
theorem roundtrip_generated (top : Top) (htop : top ∈ Gen.Schema.all) (hraw : top.raw = none) (hwv : top.withVersion = false)
    (hname : (top.name == "StickyMemberMetadata") = false) (ver : Int) (h0 : 0 ≤ ver) (h1 : ver ≤ top.maxVersion) (v : Val) (bs rest : Bytes)
    (h : enc ver false top.ty v = some bs) :
    decTop top ver (bs ++ rest) = .ok (canon ver top.ty v) rest := by
  simp only [decTop, hname, hwv, hraw, Bool.false_eq_true, if_false]
  exact roundtrip top.ty { ver := ver, cap := (bs ++ rest).length } false v bs rest h0 (schema_ok top htop ver h0 h1) h
    (by simp)

/-! ### Non-vacuity: a struct with a version-gated field, a string that becomes nullable at v2, a tagged field away from its
default, a versioned-nullable array and an unknown tag, at a flexible version and at a non-flexible one -/

def exTy : Ty := .struct false (some 2) (.cons "A" 0 none none .none (.prim .int32)
  (.cons "B" 1 none none (.int (-1)) (.prim .int64)
  (.cons "S" (-32768) none none .none (.str (.nstr 2))
  (.cons "T" (-32768) none (some 0) (.int 7) (.prim .int16)
  (.cons "L" (-32768) none none .none (.arr (.nullable 1) (.prim .int8)) .nil)))))

def exVal : Val :=
  .stru (.cons (.int 5) (.cons (.int 9) (.cons (.blob none) (.cons (.int 8) (.cons (.list (.cons (.int 1) .nil)) .nil)))))
    [(100, [1, 2])]

example : schemaOK 2 exTy = true ∧
    enc 2 false exTy exVal = some [0, 0, 0, 5, 0, 0, 0, 0, 0, 0, 0, 9, 0, 2, 1, 2, 0, 2, 0, 8, 100, 2, 1, 2] ∧
    Val.beq (canon 2 exTy exVal) exVal = true := by decide

example : schemaOK 0 exTy = true ∧ enc 0 false exTy exVal = some [0, 0, 0, 5, 0, 0, 0, 0, 0, 1, 1] ∧
    Val.beq (canon 0 exTy exVal)
      (.stru (.cons (.int 5) (.cons (.int (-1)) (.cons (.blob (some [])) (.cons (.int 7) (.cons (.list (.cons (.int 1) .nil)) .nil))))) [])
      = true := by
  decide

example : SameAt 0 (.cons "A" 0 none none .none (.prim .int32) (.cons "B" 1 none none (.int (-1)) (.prim .int64) .nil))
    (.cons (.int 5) (.cons (.int 9) .nil)) (.cons (.int 5) (.cons (.int 1234) .nil)) := by
  simp [SameAt, present]

example : ∃ top ∈ Gen.Schema.all, top.name = "ApiVersionsResponse" ∧ top.maxVersion = 4 := by decide

end Props.C15
