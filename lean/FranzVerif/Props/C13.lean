import FranzVerif.Model.Close
/-! C13 — Close always finishes and leaves nothing running (PARTIAL: the wall-clock bound and the absence of
leftover goroutines are runtime behaviour; they are observed by the harness inside synctest bubbles — virtual
time, the bubble's refusal to end with blocked goroutines, and a count of the goroutines that still have a frame
of the client package once Close has returned — and enter the monitor as events). Theorems
over ALL accepted histories of `Model.Close`. -/
namespace Props.C13
open Model.Close

/-- what an accepted history guarantees about the state it reaches -/
def Good (c : Cfg) (h : List Ev) (s : St) : Prop :=
  s.promised.Nodup ∧ (∀ i ∈ s.promised, i ∈ s.produced) ∧
  (∀ i, i ∈ s.produced ↔ Ev.produce i ∈ h) ∧ (∀ i, i ∈ s.promised ↔ ∃ ok, Ev.promise i ok ∈ h) ∧
  (s.closed = true ↔ ∃ ms, Ev.closeEnd ms ∈ h) ∧ (∀ ms, Ev.closeEnd ms ∈ h → ms ≤ c.boundMs) ∧ Ev.leaked ∉ h ∧
  (∀ n, Ev.leftover n ∈ h → n = 0) ∧ (s.leftChecked = true ↔ Ev.leftover 0 ∈ h)

theorem good_step (c : Cfg) (h : List Ev) (s₀ s : St) (e : Ev) (hg : Good c h s₀) (hs : step c s₀ e = some s) :
    Good c (h ++ [e]) s := by
  obtain ⟨ih1, ih2, ih3, ih4, ih5, ih6, ih7, ih8, ih9⟩ := hg
  unfold step at hs
  cases hc : check c s₀ e with
  | some r => simp [hc] at hs
  | none =>
    simp only [hc, Option.some.injEq] at hs
    subst hs
    cases e with
    | produce id =>
      simp only [check] at hc
      refine ⟨ih1, ?_, ?_, ?_, ?_, ?_, ?_, ?_, ?_⟩ <;> simp_all [apply] <;> grind
    | promise id ok =>
      simp only [check] at hc
      have h1 : s₀.produced.contains id = true := by
        cases hh : s₀.produced.contains id <;> simp_all
      have h2 : s₀.promised.contains id = false := by
        cases hh : s₀.promised.contains id <;> simp_all
      refine ⟨?_, ?_, ?_, ?_, ?_, ?_, ?_, ?_, ?_⟩ <;> simp_all [apply] <;> grind
    | closeStart => refine ⟨ih1, ih2, ?_, ?_, ?_, ?_, ?_, ?_, ?_⟩ <;> simp_all [apply] <;> grind
    | closeEnd ms =>
      simp only [check] at hc
      have hb : ms ≤ c.boundMs := by
        by_cases hcl : s₀.closing = true <;> simp_all
      refine ⟨ih1, ih2, ?_, ?_, ?_, ?_, ?_, ?_, ?_⟩ <;> simp_all [apply] <;> grind
    | pollAfterClose cl => refine ⟨ih1, ih2, ?_, ?_, ?_, ?_, ?_, ?_, ?_⟩ <;> simp_all [apply] <;> grind
    | leaked => simp [check] at hc
    | leftover n =>
      simp only [check] at hc
      have hn : n = 0 := by
        by_cases hcl : s₀.closed = true <;> simp_all
      subst hn
      refine ⟨ih1, ih2, ?_, ?_, ?_, ?_, ?_, ?_, ?_⟩ <;> simp_all [apply] <;> grind
    | quiesce => refine ⟨ih1, ih2, ?_, ?_, ?_, ?_, ?_, ?_, ?_⟩ <;> simp_all [apply] <;> grind

theorem good_run (c : Cfg) (h pre : List Ev) (s₁ s : St) (hg : Good c pre s₁) (hr : run c s₁ h = some s) :
    Good c (pre ++ h) s := by
  induction h generalizing pre s₁ with
  | nil => simp [run] at hr; subst hr; simpa using hg
  | cons e es ih =>
    simp only [run] at hr
    cases hs : step c s₁ e with
    | none => simp [hs] at hr
    | some s' =>
      simp only [hs] at hr
      have := ih (pre ++ [e]) s' (good_step c pre s₁ s' e hg hs) hr
      simpa using this

theorem promised_sound (c : Cfg) (h : List Ev) (s : St) (hacc : run c {} h = some s) : Good c h s := by
  have h0 : Good c [] ({} : St) := by simp [Good]
  simpa using good_run c h [] {} s h0 hacc

theorem run_snoc (c : Cfg) (h : List Ev) (e : Ev) (s : St) :
    run c {} (h ++ [e]) = some s ↔ ∃ s₀, run c {} h = some s₀ ∧ step c s₀ e = some s := by
  suffices hgen : ∀ (s₁ : St), run c s₁ (h ++ [e]) = some s ↔ ∃ s₀, run c s₁ h = some s₀ ∧ step c s₀ e = some s from hgen {}
  induction h with
  | nil =>
    intro s₁
    simp only [List.nil_append, run]
    cases hs : step c s₁ e with
    | none => simp [hs]
    | some s' => simp [run, hs]
  | cons x xs ih =>
    intro s₁
    simp only [List.cons_append, run]
    cases hx : step c s₁ x with
    | none => simp
    | some s' => simpa using ih s'

/-- In every accepted history Close returned within the bound whenever it returned, no promise ran twice or
for something not produced, no goroutine leak was observed, and every count of the client's goroutines taken
after Close was zero. -/
theorem close_bounded_and_clean (c : Cfg) (h : List Ev) (s : St) (hacc : run c {} h = some s) :
    (∀ ms, Ev.closeEnd ms ∈ h → ms ≤ c.boundMs) ∧ Ev.leaked ∉ h ∧ (∀ n, Ev.leftover n ∈ h → n = 0) ∧
    (∀ i ok, Ev.promise i ok ∈ h → Ev.produce i ∈ h) := by
  obtain ⟨_, h2, h3, h4, _, h6, h7, h8, _⟩ := promised_sound c h s hacc
  refine ⟨h6, h7, h8, ?_⟩
  intro i ok hi
  exact (h3 i).1 (h2 i ((h4 i).2 ⟨ok, hi⟩))

/-- A history accepted up to its quiescent point: Close returned, every produce promise was called, a
poll after Close reported ErrClientClosed, and the client's goroutines were counted after Close: none remained. -/
theorem after_close_everything_finished (c : Cfg) (h : List Ev) (s : St) (hacc : run c {} (h ++ [Ev.quiesce]) = some s) :
    (∃ ms, Ev.closeEnd ms ∈ h ∧ ms ≤ c.boundMs) ∧ (∀ i, Ev.produce i ∈ h → ∃ ok, Ev.promise i ok ∈ h) ∧
    Ev.leftover 0 ∈ h ∧ (∀ n, Ev.leftover n ∈ h → n = 0) ∧ Ev.leaked ∉ h := by
  obtain ⟨s₀, h₀, hs⟩ := (run_snoc c h Ev.quiesce s).1 hacc
  obtain ⟨_, _, h3, h4, h5, h6, h7, h8, h9⟩ := promised_sound c h s₀ h₀
  unfold step at hs
  cases hc : check c s₀ Ev.quiesce with
  | some r => simp [hc] at hs
  | none =>
    simp only [check] at hc
    have hclosed : s₀.closed = true := by
      cases hh : s₀.closed <;> simp_all
    have hpolled : s₀.polled = true := by
      cases hh : s₀.polled <;> simp_all
    have hleft : s₀.leftChecked = true := by
      cases hh : s₀.leftChecked <;> simp_all
    have hall : ∀ i ∈ s₀.produced, s₀.promised.contains i = true := by
      intro i hi
      simp [hclosed, hpolled, hleft] at hc
      have := hc i hi
      simpa using this
    obtain ⟨ms, hms⟩ := h5.1 hclosed
    refine ⟨⟨ms, hms, h6 ms hms⟩, ?_, h9.1 hleft, h8, h7⟩
    intro i hi
    have := hall i ((h3 i).2 hi)
    exact (h4 i).1 (by simpa using this)

/-- Non-vacuity: a client closed mid-produce whose outstanding promises are failed by Close. -/
example : accepts { boundMs := 60000 }
    [.produce 1, .promise 1 true, .produce 2, .produce 3, .closeStart, .promise 2 false, .closeEnd 2651,
     .promise 3 false, .pollAfterClose true, .leftover 0, .quiesce] = true := by decide
example : accepts { boundMs := 60000 } [.produce 1, .closeStart, .closeEnd 10, .pollAfterClose true, .leftover 0, .quiesce] = false := by decide
/-- a consumer whose fetch-concurrency manager is still blocked in its select after Close is refused -/
example : accepts { boundMs := 60000 } [.closeStart, .closeEnd 1, .pollAfterClose true, .leftover 1, .quiesce] = false := by decide
example : accepts { boundMs := 60000 } [.closeStart, .closeEnd 1, .pollAfterClose true, .quiesce] = false := by decide
example : accepts { boundMs := 60000 } [.closeStart, .closeEnd 1, .pollAfterClose true, .leftover 0, .quiesce] = true := by decide
example : accepts { boundMs := 60000 } [.closeStart, .closeEnd 70000] = false := by decide

end Props.C13
