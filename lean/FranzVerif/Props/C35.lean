import FranzVerif.Model.C35
import FranzVerif.Spec.C35
import FranzVerif.Proof.C35
/-! C35 — property theorems: kadm group lag is computed exactly.

`runOut inp` is the model of `CalculateGroupLagWithStartOffsets(group, commit, start, end)` followed by
reading every `GroupMemberLag`, `TotalByTopic()` and `Total()`; `CalculateGroupLag` is `start = []`.
The model is tied to /repo by the differential run of `./check C35` (tie D).  All theorems quantify
over every input: any number of members (none: an empty group), consumer and non-consumer
assignments, duplicates inside and across members, any commit set, any listed start/end offsets with
arbitrary missing entries and errors, any offsets (unbounded integers).

The property, sentence by sentence (`Spec/C35.lean` has the words ↦ definitions dictionary):
  S1  each partition that is assigned to a member or committed by the group is reported exactly once;
  S2  its lag is end − committed, or end − start (else end) when nothing is committed, floored at 0;
  S3  the lag is −1 with a non-nil error exactly when the end offset is missing or errored or the commit errored;
  S4  totals equal the sum of the non-negative lags.
S1–S4 are proved at full strength for the partitions S1 speaks of (`…_in_scope`, `spec_scope_holds`).
`GroupMemberLag`'s doc comment promises S2/S3 of *every* reported lag, including partitions that are
only known from the listed end offsets (third pass). Read that way S3 is FALSE of the current code
(`lag_law_every_row_false`); what holds is `lag_law_every_row_partial`. -/
namespace Props.C35
open Model.C35 Spec.C35 Proof.C35

/-- S1 (coverage): every partition some consumer-type member is assigned, and every partition the
commit responses have an entry for, is reported. -/
theorem reports_every_assigned_or_committed (inp : Input) (t : Nat) (p : Int)
    (h : assignedIn inp t p = true ∨ committedIn inp t p = true) :
    ∃ r ∈ (runOut inp).rows, r.topic = t ∧ r.part = p := by
  have hs : inScope inp t p = true := by simpa [inScope] using h
  have := hasRow_of_has inp t p ((run_good_cov inp).2 t p hs)
  simpa [hasRow] using this

/-- S1 (exactly once): no two reported rows are for the same topic and partition. -/
theorem reports_exactly_once (inp : Input) : ((runOut inp).rows.map (fun r => (r.topic, r.part))).Nodup := by
  rw [row_keys_eq]; exact (run_good_cov inp).1.nodup

/-- S2+S3 in executable form, for every reported partition that is assigned or committed. -/
theorem lag_law_in_scope (inp : Input) (r : Row) (hr : r ∈ (runOut inp).rows)
    (hs : inScope inp r.topic r.part = true) : rowLaw inp r = true := by
  obtain ⟨kr, hkr, e⟩ := mem_rows inp r hr
  subst e
  exact run_law_scope inp kr hkr hs

/-- S2: when the end offset is listed without error and the commit (if any) has no error, the lag is
end − committed offset if something is committed, else end − start if a start offset is listed
without error, else the end offset; negative values are reported as 0; and the error is nil. -/
theorem lag_formula_in_scope (inp : Input) (r : Row) (hr : r ∈ (runOut inp).rows)
    (hs : inScope inp r.topic r.part = true) (hb : bad inp r.topic r.part = false) :
    r.lag = expectLag inp r.topic r.part ∧ 0 ≤ r.lag ∧ r.err = 0 := by
  have h := lag_law_in_scope inp r hr hs
  simp only [rowLaw, hb, Bool.false_eq_true, if_false, Bool.and_eq_true, beq_iff_eq] at h
  refine ⟨h.1, ?_, h.2⟩
  rw [h.1]; unfold expectLag; simp only; split <;> omega

/-- S3: the lag is −1 with a non-nil error exactly when the end offset is missing or errored or the
commit errored. -/
theorem minus_one_with_error_iff_in_scope (inp : Input) (r : Row) (hr : r ∈ (runOut inp).rows)
    (hs : inScope inp r.topic r.part = true) :
    (r.lag = -1 ∧ r.err ≠ 0) ↔ bad inp r.topic r.part = true := by
  have h := lag_law_in_scope inp r hr hs
  cases hb : bad inp r.topic r.part with
  | true => simpa [rowLaw, hb] using h
  | false =>
    have := lag_formula_in_scope inp r hr hs hb
    simp; intro h1; omega

/-- S4: `Total()` is the sum of the non-negative lags of all reported partitions, every entry of
`TotalByTopic()` is that sum over the topic's partitions, every topic with a reported partition has
exactly one entry. -/
theorem totals_are_sums_of_nonneg_lags (inp : Input) :
    (runOut inp).total = sumBy nonneg (runOut inp).rows ∧
    (∀ tv ∈ (runOut inp).byTopic, tv.2 = sumBy (fun r => if r.topic = tv.1 then nonneg r else 0) (runOut inp).rows) ∧
    (∀ r ∈ (runOut inp).rows, r.topic ∈ keys (runOut inp).byTopic) ∧
    (keys (runOut inp).byTopic).Nodup := by
  have hg := (run_good_cov inp).1
  have hk : keys (runOut inp).byTopic = (run inp).topics := by
    simp only [runOut, totalByTopic, keys, List.map_map]
    exact (List.map_congr_left (fun _ _ => rfl)).trans (List.map_id _)
  refine ⟨total_eq _ hg, ?_, ?_, ?_⟩
  · intro tv htv
    simp only [runOut, totalByTopic, List.mem_map] at htv
    obtain ⟨t, _, e⟩ := htv
    subst e
    exact topicLag_eq _ hg t
  · intro r hr
    obtain ⟨kr, hkr, e⟩ := mem_rows inp r hr
    subst e
    rw [hk, (hg.keyok kr hkr).1]
    exact hg.tcover kr hkr
  · rw [hk]; exact hg.tnodup

/-- The executable Spec the driver evaluates on the implementation's output holds of the model for
every input (S1–S4 as written in the property). -/
theorem spec_scope_holds (inp : Input) : specScope inp (runOut inp) = true := by
  have hcov := (run_good_cov inp).2
  have ht := totals_are_sums_of_nonneg_lags inp
  simp only [specScope, Bool.and_eq_true]
  refine ⟨⟨⟨?_, ?_⟩, ?_⟩, ?_⟩
  · simp only [covers, Bool.and_eq_true, List.all_eq_true, Bool.or_eq_true, Bool.not_eq_true']
    refine ⟨?_, ?_⟩
    · intro m hm
      cases hac : m.assignedConsumer with
      | false => exact Or.inl rfl
      | true =>
        refine Or.inr (fun tp htp p hp => hasRow_of_has inp tp.1 p (hcov tp.1 p ?_))
        simp only [inScope, Bool.or_eq_true]
        refine Or.inl ?_
        simp only [assignedIn, List.any_eq_true, Bool.and_eq_true, beq_iff_eq, List.contains_eq_mem, decide_eq_true_eq]
        exact ⟨m, hm, hac, tp, htp, rfl, hp⟩
    · intro tps _ pc _
      cases hc : committedIn inp tps.1 pc.1 with
      | false => exact Or.inl rfl
      | true => exact Or.inr (hasRow_of_has inp _ _ (hcov _ _ (by simp [inScope, hc])))
  · simp only [once]; rw [nodupB_iff]; exact reports_exactly_once inp
  · simp only [List.all_eq_true, Bool.or_eq_true, Bool.not_eq_true']
    intro r hr
    cases hs : inScope inp r.topic r.part with
    | false => exact Or.inl rfl
    | true => exact Or.inr (lag_law_in_scope inp r hr hs)
  · simp only [totalsOK, Bool.and_eq_true, List.all_eq_true, beq_iff_eq, List.contains_eq_mem, decide_eq_true_eq]
    exact ⟨⟨⟨ht.1, ht.2.1⟩, ht.2.2.1⟩, (nodupB_iff _).2 ht.2.2.2⟩

/-! ### S2/S3 read for every reported `GroupMemberLag`

Full statement (what the doc comment of `GroupMemberLag` promises):
  `∀ inp, endsNonNeg inp → ∀ r ∈ (runOut inp).rows, rowLaw inp r = true`.
It is false (`lag_law_every_row_false`). Proved: the same with the class `thirdPassErrStart` excluded.
`endsNonNeg` (an end offset listed without error is ≥ 0) is needed because the third pass does not
floor a bare end offset; the harness runs that excluded point too and reports it in the evidence. -/

theorem lag_law_every_row_partial (inp : Input) (hnn : endsNonNeg inp = true) (r : Row)
    (hr : r ∈ (runOut inp).rows) (hx : thirdPassErrStart inp r.topic r.part = false) : rowLaw inp r = true := by
  obtain ⟨kr, hkr, e⟩ := mem_rows inp r hr
  subst e
  exact run_law_all inp hnn kr hkr hx

theorem spec_all_partial (inp : Input) (hnn : endsNonNeg inp = true)
    (hx : ∀ t p, thirdPassErrStart inp t p = false) : specAll inp (runOut inp) = true := by
  simp only [specAll, List.all_eq_true]
  exact fun r hr => lag_law_every_row_partial inp hnn r hr (hx _ _)

/-- What the code does on the excluded class, for every input: the reported row carries the error
and a lag ≥ 0 (so the driver's key `lag-nonneg-with-err-third-pass` names exactly this class). -/
theorem excluded_class_reports_nonneg_lag_with_error (inp : Input) (r : Row) (hr : r ∈ (runOut inp).rows)
    (hx : thirdPassErrStart inp r.topic r.part = true) : r.err ≠ 0 ∧ 0 ≤ r.lag ∧ rowLaw inp r = false := by
  obtain ⟨kr, hkr, e⟩ := mem_rows inp r hr
  subst e
  have h := run_excluded_class inp kr hkr hx
  refine ⟨h.1, h.2, ?_⟩
  have hb : bad inp kr.2.topic kr.2.part = true := by
    simp only [thirdPassErrStart, Bool.and_eq_true] at hx
    unfold bad
    cases he : get2 inp.end_ kr.2.topic kr.2.part with
    | none => simp
    | some e => rw [he] at hx; simp [hx.1.2]
  simp only [rowLaw, hb, if_true]
  have : kr.2.lag ≠ -1 := by omega
  simp [this]

/-- One member that only *joined* topic 0 (nothing assigned), nothing committed, start offset of 0/0
listed as 2 without error, end offset of 0/0 listed as 10 *with* an error. -/
def witness : Input :=
  ⟨[⟨true, [], true, [0]⟩], [], [(0, [(0, ⟨2, 0⟩)])], [(0, [(0, ⟨10, 4⟩)])]⟩

/-- What the code reports there: lag 8 with the error set (and 8 goes into the totals). -/
theorem witness_result :
    runOut witness = ⟨[⟨-1, 0, 0, -1, -1, ⟨2, 0⟩, ⟨10, 4⟩, 8, 4⟩], [(0, 8)], 8⟩ := by decide

/-- The full clause is false of the code as it is. -/
theorem lag_law_every_row_false :
    ¬ ∀ inp : Input, endsNonNeg inp = true → specAll inp (runOut inp) = true := by
  intro h
  have h1 := h witness (by decide)
  revert h1
  decide

/-! ### non-vacuity -/

/-- Two members assigned the same partition 0/0 (commit 3, end 10 → lag 7, the later member wins),
0/1 assigned with commit 20 beyond end 10 (→ 0), 0/2 committed with an error and not assigned
(→ −1), 1/0 assigned with a missing end (→ −1), 1/1 assigned, uncommitted, start 4 end 9 (→ 5). -/
def sample : Input :=
  ⟨[⟨true, [(0, [0, 1])], true, [0]⟩, ⟨true, [(0, [0]), (1, [0, 1])], true, [0, 1]⟩],
   [(0, [(0, ⟨3, 1, 0⟩), (1, ⟨20, 1, 0⟩), (2, ⟨5, 1, 2⟩)])],
   [(1, [(1, ⟨4, 0⟩)])],
   [(0, [(0, ⟨10, 0⟩), (1, ⟨10, 0⟩), (2, ⟨10, 0⟩)]), (1, [(1, ⟨9, 0⟩)])]⟩

example : (runOut sample).rows.map (fun r => (r.topic, r.part, r.member, r.lag, r.err))
    = [(0, 0, 1, 7, 0), (0, 1, 0, 0, 0), (1, 0, 1, -1, 1), (1, 1, 1, 5, 0), (0, 2, -1, -1, 2)] := by decide
example : (runOut sample).total = 12 ∧ (runOut sample).byTopic = [(0, 7), (1, 5)] := by decide
example : inScope sample 0 2 = true ∧ bad sample 0 2 = true ∧ bad sample 1 1 = false ∧ endsNonNeg sample = true
    ∧ (∀ t ∈ [0, 1], ∀ p ∈ [0, 1, 2], thirdPassErrStart sample t p = false) := by decide
example : thirdPassErrStart witness 0 0 = true ∧ endsNonNeg witness = true ∧ specScope witness (runOut witness) = true := by decide

end Props.C35
