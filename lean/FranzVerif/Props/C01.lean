import FranzVerif.Model.Producer
import FranzVerif.Proof.Producer
import FranzVerif.Proof.ProducerFacts
/-! C01 — every produced record's promise runs exactly once (theorems over *all* accepted histories
of the producer monitor `Model.Producer`; the tie to the code is the history correspondence of
`harness/cmd/sim01`: every history of the real client must be accepted). -/
namespace Props.C01
open Model.Producer Proof.Producer

/-- (a) No promise is ever called twice: in every accepted history (any length, any interleaving)
each record id has at most one promise event. -/
theorem promise_at_most_once (c : Cfg) (h : List Ev) (s : St) (hacc : run c {} h = some s) (id : Id) :
    (promisesOf id h).length ≤ 1 := by
  have hi := inv_of_run hacc
  cases hfd : find s.recs id with
  | none => simp [(hi.recNone id hfd).promisesOf]
  | some r =>
    rw [(hi.recSome id r hfd).hprom]
    cases r.promised <;> simp

/-- (b) No promise is called for anything else: a promise event for `id` is always preceded by the
call that produced `id`. -/
theorem promise_only_for_produced (c : Cfg) (h₁ h₂ : List Ev) (id : Id) (e : Err)
    (hacc : (run c {} (h₁ ++ Ev.promise id e :: h₂)).isSome) : called id h₁ = true := by
  obtain ⟨s₁, h1, hchk, _⟩ := run_split hacc
  have hi := inv_of_run h1
  cases hfd : find s₁.recs id with
  | none => simp [check, hfd] at hchk
  | some r => exact (hi.recSome id r hfd).hcalled

/-- (c)+(d) Exactly once, eventually: if a history is accepted up to and including a quiescent
point (nothing can run any more — with Close or without), then every produced record has had its
promise called exactly once, the buffered gauges are zero, and every Flush that began has returned. -/
theorem quiescent_exactly_once (c : Cfg) (h : List Ev) (n b : Nat) (s : St)
    (hacc : run c {} (h ++ [Ev.quiesce n b]) = some s) :
    (∀ id, called id h = true → (promisesOf id h).length = 1) ∧ n = 0 ∧ b = 0 ∧
    (∀ k, Ev.flushStart k ∈ h → ∃ ok, Ev.flushEnd k ok ∈ h) := by
  obtain ⟨s₁, h1, hchk⟩ := run_snoc hacc
  have hi := inv_of_run h1
  obtain ⟨hrecs, hfl, hn, hb, _, _⟩ := quiesce_check hchk
  refine ⟨?_, hn, hb, ?_⟩
  · intro id hc
    cases hfd : find s₁.recs id with
    | none => rw [(hi.recNone id hfd).called] at hc; cases hc
    | some r =>
      rw [(hi.recSome id r hfd).hprom]
      have := (hrecs r (find_some hfd).1).1
      obtain ⟨e, he⟩ := Option.isSome_iff_exists.1 this
      simp [he]
  · intro k hk
    obtain ⟨f, hf, hfk⟩ := hi.flStart k hk
    obtain ⟨ok, hok⟩ := hi.flDone f hf (hfl f hf)
    exact ⟨ok, hfk ▸ hok⟩

/-- Non-vacuity: a small concurrent history with a blocked producer, a failed TryProduce and a Flush is accepted. -/
example : accepts { maxRecs := 1, maxBytes := 0, manual := false }
    [.call 1 .produce 3, .hookB 1, .admit 1 1 3 3, .ret 1,
     .call 2 .produce 2, .hookB 2, .block 2,
     .call 3 .try_ 1, .hookB 3, .ret 3, .hookU 3 ⟨.maxBuffered, 7⟩, .promise 3 ⟨.maxBuffered, 7⟩,
     .flushStart 1,
     .hookU 1 .ok, .promise 1 .ok, .release 1 0 0,
     .unblock 2, .admit 2 1 2 2, .ret 2, .hookU 2 .ok, .promise 2 .ok, .release 2 0 0,
     .flushEnd 1 true, .closeStart, .closeEnd, .quiesce 0 0] = true := by decide

end Props.C01
