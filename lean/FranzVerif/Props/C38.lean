import FranzVerif.Model.C38
import FranzVerif.Proof.C38
/-! C38 — property theorems: the `Fetches` accessors agree with each other.

Every statement is for all `Fetches` values (any number of fetches, topics, partitions and records: empty
fetches, topics without partitions, partitions without records, a topic name repeated across and inside
fetches, errors mixed with records). The model is tied to pkg/kgo/record_and_fetch.go by the differential
run; `flatten`, `inputParts`, `errParts`, `partsOf` are the Spec-level reference views of the input. -/
namespace Props.C38
open Model.C38 Proof.C38

/-- `prepareNext` terminates from EVERY iterator state (also ones no run reaches): the fuel `fuelOf` = total
structural size + 1 is never exhausted, and the state it stops in is settled (no fetch left, or the
indexes point at a record). -/
theorem prepareNext_terminates (s : It) :
    ∃ s', prepareNext (fuelOf s) s = some s' ∧ prepStep s' = none ∧
      (s'.fetches = [] ∨ ∃ f0 rest t p, s'.fetches = f0 :: rest ∧ f0[s'.ti]? = some t ∧
        t.parts[s'.pi]? = some p ∧ s'.ri < p.recs.length) := by
  obtain ⟨s', h1, h2, _⟩ := prepareNext_spec (fuelOf s) s (fuel_ok s)
  exact ⟨s', h1, h2, settled s' h2⟩

/-- The `RecordIter` `Done/Next` loop never panics (the unguarded `fetches[0].Topics[ti].Partitions[pi].Records[ri]`
is always in range), never exhausts the model's fuel, and visits exactly the input's records in fetch /
topic / partition / record order. -/
theorem recordIter_visits_all (fs : Fetches) : iterRecords fs = .ok (flatten fs) := by
  have := recordsAll_spec fs 0
  simpa [recordsAll, iterRecords] using this

/-- `RecordsAll` yields the same sequence; a consumer that breaks after `k+1` records gets the first `k+1`. -/
theorem recordsAll_visits_all (fs : Fetches) (lim : Nat) :
    recordsAll fs 0 = .ok (flatten fs) ∧
    recordsAll fs (lim + 1) = .ok ((flatten fs).take (lim + 1)) := by
  constructor
  · simpa using recordsAll_spec fs 0
  · simpa using recordsAll_spec fs (lim + 1)

/-- `EachRecord` and `Records` visit the same records in the same order as `RecordIter`. -/
theorem eachRecord_records_agree (fs : Fetches) :
    eachRecord fs = iterRecords fs ∧ iterRecords fs = .ok (records fs) := by
  refine ⟨rfl, ?_⟩
  rw [recordIter_visits_all, records_eq]

/-- `NumRecords` is the number of records the iterators visit, and `Empty` is true exactly when it is zero. -/
theorem numRecords_empty (fs : Fetches) :
    numRecords fs = (flatten fs).length ∧ (empty fs = true ↔ numRecords fs = 0) := by
  refine ⟨numRecords_eq fs, ?_⟩
  rw [empty_eq]; simp

/-- `EachPartition` visits every partition of the input exactly once, in order, under its topic name. -/
theorem eachPartition_covers (fs : Fetches) : eachPartition fs = inputParts fs :=
  eachPartition_eq fs

/-- `EachTopic` satisfies the executable Spec: under every topic name it reports exactly that topic's input
partitions in order (so every partition exactly once, grouped by topic); one fetch passes through unchanged;
with several fetches every topic name is reported once (merged), every input topic is reported, and the
reported topic ID is non-zero whenever some fetch carried a non-zero ID for that name (and is one of them). -/
theorem eachTopic_satisfies_spec (fs : Fetches) : specEachTopic fs (eachTopic fs) = true := by
  unfold specEachTopic
  simp only [Bool.and_eq_true]
  constructor
  · rw [List.all_eq_true]; intro n _; simp [eachTopic_parts]
  · match fs with
    | [] => simp [eachTopic]
    | [f] => simp [eachTopic]
    | f1 :: f2 :: rest =>
      simp only [Bool.and_eq_true]
      refine ⟨⟨⟨?_, ?_⟩, ?_⟩, ?_⟩
      · rw [nodupB_iff, eachTopic_names]
        exact mergeParts_nodup _ [] (by simp)
      · rw [List.all_eq_true, eachTopic_multi]
        intro t ht
        obtain ⟨kv, _, rfl⟩ := List.mem_map.mp ht
        obtain ⟨h1, h2⟩ := mergeIds_lookup (allTopics (f1 :: f2 :: rest)) [] kv.1
        simp only [idOK, mkT]
        by_cases hc : cands (allTopics (f1 :: f2 :: rest)) kv.1 = []
        · simp [hc, h1 hc, lookupId]
        · have hne : (cands (allTopics (f1 :: f2 :: rest)) kv.1).isEmpty = false := by
            cases hh : cands (allTopics (f1 :: f2 :: rest)) kv.1 with
            | nil => exact absurd hh hc
            | cons a b => rfl
          simp only [hne, Bool.false_eq_true, if_false, List.contains_iff_mem]
          exact h2 hc
      · rw [List.all_eq_true]
        intro t ht
        rw [List.contains_iff_mem, eachTopic_names, name_mem_merge]
        exact List.mem_map.mpr ⟨t, ht, rfl⟩
      · rw [List.all_eq_true]
        intro t ht
        rw [List.contains_iff_mem, ← name_mem_merge, ← eachTopic_names]
        exact List.mem_map.mpr ⟨t, ht, rfl⟩

/-- `EachTopic` covers every partition exactly once: the (topic, partition) pairs it reports are a
permutation of the pairs `EachPartition` reports. -/
theorem eachTopic_covers_exactly_once (fs : Fetches) :
    (tparts (eachTopic fs)).Perm (eachPartition fs) := by
  rw [eachPartition_eq]
  have hin : inputParts fs = tparts (allTopics fs) := by
    induction fs with
    | nil => rfl
    | cons f fs ih => rw [inputParts, ih, allTopics_cons, tparts_append]
  rw [hin, List.perm_iff_count]
  intro ⟨n, p⟩
  rw [count_tparts, count_tparts, eachTopic_parts]

/-- `Errors` and `EachError` list exactly the partitions that carry an error, in order. -/
theorem errors_exact (fs : Fetches) : errors fs = errParts fs ∧ eachError fs = errParts fs :=
  ⟨errors_eq fs, eachError_eq fs⟩

/-- All together: the run of every accessor (as the harness performs it) succeeds and satisfies the
executable Spec that the driver evaluates on the implementation's outputs. -/
theorem accessors_satisfy_spec (fs : Fetches) (lim : Nat) :
    ∃ o, run fs lim = .ok o ∧ spec fs lim o = true := by
  have h1 := recordIter_visits_all fs
  have h2 := recordsAll_spec fs 0
  have h3 := recordsAll_spec fs lim
  refine ⟨⟨flatten fs, flatten fs, (if lim = 0 then flatten fs else (flatten fs).take lim), flatten fs,
    records fs, numRecords fs, empty fs, eachPartition fs, eachTopic fs, errors fs, eachError fs⟩, ?_, ?_⟩
  · simp only [run, eachRecord, h1, h2, h3, if_true]
    rfl
  · simp [spec, records_eq, numRecords_eq, eachPartition_eq, eachTopic_satisfies_spec, errors_eq,
      eachError_eq, empty_eq]

/-! Non-vacuity: an empty fetch, a topic without partitions, partitions without records, topic "a" spread
over two fetches (zero ID first, non-zero ID later), errors mixed with records. -/
def sample : Fetches :=
  [ [],
    [⟨"a", 0, [⟨0, 0, []⟩, ⟨1, 3, [10, 11]⟩]⟩, ⟨"b", 7, []⟩],
    [⟨"c", 0, [⟨0, 4, []⟩]⟩, ⟨"a", 5, [⟨2, 0, [12]⟩]⟩] ]

example : flatten sample = [10, 11, 12] ∧ numRecords sample = 3 ∧ empty sample = false := by
  simp [sample, flatten, frecs, trecs, precs, numRecords, eachPartition, empty]

example : (eachTopic sample).map (fun t => (t.name, t.id, t.parts.map (·.num))) =
    [("a", 5, [0, 1, 2]), ("b", 7, []), ("c", 0, [0])] := by
  simp [sample, eachTopic, allTopics, mergeParts, mergeIds, upsert, setId, lookupId]

example : errParts sample = [("a", 1, 3), ("c", 0, 4)] := by
  simp [sample, errParts, inputParts, tparts]

end Props.C38
