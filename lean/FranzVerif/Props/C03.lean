import FranzVerif.Model.Producer
import FranzVerif.Proof.Producer
import FranzVerif.Proof.ProducerWake
import FranzVerif.Proof.ProducerFacts
import FranzVerif.Proof.ProducerFull
/-! C03 — producer buffering limits and Flush completion, over all accepted histories. -/
namespace Props.C03
open Model.Producer Proof.Producer

/-- Records admitted and not yet released, as a function of the history alone. -/
def inBuffer (h : List Ev) : List Id :=
  (admittedIds h).filter (fun id => !(releasedIds h).contains id)

/-- Records accepted by Produce whose promise has not run (for ProduceSync the unbuffered hook, which
runs immediately before the promise, stands for it because the harness can log that promise only at return). -/
def acceptedNotPromised (h : List Ev) : List Id :=
  (admittedIds h).filter (fun id => !(promiseRanIds h).contains id)

/-- (a) The limit is never exceeded: at every point of every accepted history the records Produce has
accepted and whose promise has not run number at most `MaxBufferedRecords`, and their bytes at most
`MaxBufferedBytes` when set. -/
theorem buffered_never_exceeds_limits (c : Cfg) (h : List Ev) (s : St) (hacc : run c {} h = some s) :
    (acceptedNotPromised h).length ≤ (inBuffer h).length ∧ (inBuffer h).length = s.occ ∧ s.occ ≤ c.maxRecs ∧
    (c.maxBytes > 0 → s.occBytes ≤ c.maxBytes) ∧ s.occBytes = ((inBuffer h).map (sizeOfId h)).sum := by
  have hi := inv_of_run hacc
  refine ⟨?_, hi.occ, hi.occLe, hi.bytesLe, hi.bytes⟩
  apply length_filter_le_of_imp
  intro id _ hnp
  simp only [Bool.not_eq_true', List.contains_eq_mem, decide_eq_false_iff_not] at hnp ⊢
  exact fun hrel => hnp (hi.released_promiseRan hrel)

/-- (b) At the limit: TryProduce never blocks, nothing blocks under ManualFlushing, and a record is
blocked or failed with ErrMaxBuffered only if the buffer was full at some point during its call. -/
theorem blocking_discipline (c : Cfg) (h₁ h₂ : List Ev) (id : Id)
    (hacc : (run c {} (h₁ ++ Ev.block id :: h₂)).isSome) :
    c.manual = false ∧ kindOf id h₁ ≠ some Kind.try_ ∧ sawFullDuringCall c id h₁ = true := by
  obtain ⟨s₁, h1, hchk, _⟩ := run_split hacc
  have hi := inv_of_run h1
  cases hfd : find s₁.recs id with
  | none => simp [check, hfd] at hchk
  | some r =>
    simp [check, hfd, ite_some_eq_none] at hchk
    obtain ⟨c1, c2, _, c4⟩ := hchk
    refine ⟨c2, ?_, ?_⟩
    · rw [(hi.recSome id r hfd).hkind]; simpa using c1
    · simp [sawFullDuringCall, h1, hfd, c4]

/-- (b, second half) A record's unbuffered hook / promise gets ErrMaxBuffered only if the record was never
admitted and the buffer was full at some point during its call. -/
theorem maxbuffered_discipline (c : Cfg) (h₁ h₂ : List Ev) (id : Id) (e : Err)
    (hacc : (run c {} (h₁ ++ Ev.hookU id e :: h₂)).isSome) (he : e.cls = ErrClass.maxBuffered) :
    id ∉ admittedIds h₁ ∧ sawFullDuringCall c id h₁ = true := by
  obtain ⟨s₁, h1, hchk, _⟩ := run_split hacc
  have hi := inv_of_run h1
  cases hfd : find s₁.recs id with
  | none => simp [check, hfd] at hchk
  | some r =>
    simp [check, hfd, ite_some_eq_none] at hchk
    obtain ⟨ha, hsf⟩ := hchk.2.2.2 (by simp [isMaxBuf, he])
    refine ⟨?_, by simp [sawFullDuringCall, h1, hfd, hsf]⟩
    have := (hi.recSome id r hfd).hadm
    rw [ha] at this
    exact List.count_eq_zero.1 (by simpa using this)

/-- (b) in history terms: what `sawFullDuringCall` (read off the monitor state in (b) above) means.  At some
prefix `p` of the history the record had been passed to Produce, was neither admitted nor finished, and
the buffer as a function of `p` alone — `inBuffer p` and the sizes of its records — was at its limit for a
record of this size. -/
theorem sawFull_means_buffer_was_full (c : Cfg) (h : List Ev) (id : Id) (hs : sawFullDuringCall c id h = true) :
    ∃ p q, h = p ++ q ∧ called id p = true ∧ id ∉ admittedIds p ∧ promisesOf id p = [] ∧
      full c (inBuffer p).length ((inBuffer p).map (sizeOfId p)).sum (sizeOfId h id) = true :=
  sawFullDuringCall_sound hs

/-- (c) Flush returns nil only after every record that was admitted or blocked before it began has
been finished: promise called and accounting released (or, if it never got admitted, no longer blocked). -/
theorem flush_nil_after_promises (c : Cfg) (h₁ h₂ h₃ : List Ev) (k : Nat)
    (hacc : (run c {} (h₁ ++ Ev.flushStart k :: h₂ ++ Ev.flushEnd k true :: h₃)).isSome)
    (id : Id) (hin : id ∈ inBuffer h₁) :
    id ∈ releasedIds (h₁ ++ Ev.flushStart k :: h₂) ∧ id ∈ promiseRanIds (h₁ ++ Ev.flushStart k :: h₂) := by
  -- the state `s₂` at the `flushEnd`, and the state `s₁` at the `flushStart`
  obtain ⟨s₂, h2, hchkE, _⟩ := run_split hacc
  obtain ⟨s₁, h1, hchkS, h12⟩ := run_split' h2
  have hi₁ := inv_of_run h1
  have hi₂ := inv_of_run h2
  -- `id` is in the wait set recorded at the `flushStart`
  have hadm₁ : id ∈ admittedIds h₁ := (List.mem_filter.1 hin).1
  have hnrel₁ : id ∉ releasedIds h₁ := by simpa using (List.mem_filter.1 hin).2
  obtain ⟨r₁, hfd₁, hr₁, ha₁⟩ := hi₁.rec_of_admitted hadm₁
  have hnr₁ : r₁.released = false := by
    cases hh : r₁.released with
    | false => rfl
    | true => exact absurd (hr₁.mem_released.2 hh) hnrel₁
  have hw : id ∈ ((s₁.recs.filter (fun r => (r.admitted || r.blocked) && !r.released)).map (·.id)) := by
    refine List.mem_map.2 ⟨r₁, List.mem_filter.2 ⟨(find_some hfd₁).1, by simp [ha₁, hnr₁]⟩, (find_some hfd₁).2⟩
  -- the pending flush keeps that wait set until the `flushEnd`
  obtain ⟨f, hf, hfw⟩ := flush_waitFor_run h12 k
    { k := k, waitFor := (s₁.recs.filter (fun r => (r.admitted || r.blocked) && !r.released)).map (·.id) }
    (by simp [Model.Producer.apply])
  simp [check, hf, ite_some_eq_none] at hchkE
  have hcond := hchkE.2 id (by rw [hfw]; exact hw)
  -- so at the `flushEnd` the record is finished
  obtain ⟨r₂, hfd₂, hr₂, ha₂⟩ := hi₂.rec_of_admitted (mem_admittedIds_append_left hadm₁)
  simp [hfd₂, ha₂] at hcond
  obtain ⟨_, ⟨hu, hrel⟩, hp⟩ := hcond
  exact ⟨hr₂.mem_released.2 hrel, hr₂.promiseRan hu hp⟩

/-- (d) Nothing stays blocked: at a quiescent point no Produce is blocked and every Flush has returned. -/
theorem nothing_blocked_at_quiescence (c : Cfg) (h : List Ev) (n b : Nat) (s : St)
    (hacc : run c {} (h ++ [Ev.quiesce n b]) = some s) :
    (∀ id, Ev.block id ∈ h → Ev.unblock id ∈ h) ∧ (∀ k, Ev.flushStart k ∈ h → ∃ ok, Ev.flushEnd k ok ∈ h) ∧
    inBuffer h = [] := by
  obtain ⟨s₁, h1, hchk⟩ := run_snoc hacc
  have hi := inv_of_run h1
  obtain ⟨hrecs, hfl, _⟩ := quiesce_check hchk
  refine ⟨?_, ?_, ?_⟩
  · intro id hb
    cases hfd : find s₁.recs id with
    | none => exact absurd hb (hi.recNone id hfd).not_block
    | some r =>
      rcases (hi.recSome id r hfd).hblk hb with hbl | hu
      · have := (hrecs r (find_some hfd).1).2.2.1
        rw [hbl] at this; cases this
      · exact hu
  · intro k hk
    obtain ⟨f, hf, hfk⟩ := hi.flStart k hk
    obtain ⟨ok, hok⟩ := hi.flDone f hf (hfl f hf)
    exact ⟨ok, hfk ▸ hok⟩
  · apply List.filter_eq_nil_iff.2
    intro id hm
    obtain ⟨r, hfd, hr, ha⟩ := hi.rec_of_admitted hm
    have := (hrecs r (find_some hfd).1).2.2.2.2 ha
    simpa using hr.mem_released.2 this

/-- Non-vacuity: an accepted history with a Produce blocked at the limit (`block 2` while record 1
occupies the only slot), a TryProduce failed with ErrMaxBuffered, and a Flush that returns nil after
the promises of records 1 and 2 ran; it ends at a quiescent point. -/
example : accepts { maxRecs := 1, maxBytes := 0, manual := false }
    [.call 1 .produce 3, .hookB 1, .admit 1 1 3 3, .ret 1,
     .call 2 .produce 2, .hookB 2, .block 2,
     .call 3 .try_ 1, .hookB 3, .ret 3, .hookU 3 ⟨.maxBuffered, 7⟩, .promise 3 ⟨.maxBuffered, 7⟩,
     .flushStart 1,
     .hookU 1 .ok, .promise 1 .ok, .release 1 0 0,
     .unblock 2, .admit 2 1 2 2, .ret 2, .hookU 2 .ok, .promise 2 .ok, .release 2 0 0,
     .flushEnd 1 true, .closeStart, .closeEnd, .quiesce 0 0] = true := by decide

/-- Non-vacuity of (c): the same history in the shape `h₁ ++ flushStart k :: h₂ ++ flushEnd k true :: h₃`,
with record 1 in the buffer when the Flush begins (and record 2 blocked). -/
example :
    (run { maxRecs := 1, maxBytes := 0, manual := false } {}
      ([.call 1 .produce 3, .hookB 1, .admit 1 1 3 3, .ret 1,
        .call 2 .produce 2, .hookB 2, .block 2,
        .call 3 .try_ 1, .hookB 3, .ret 3, .hookU 3 ⟨.maxBuffered, 7⟩, .promise 3 ⟨.maxBuffered, 7⟩]
       ++ Ev.flushStart 1 ::
       [.hookU 1 .ok, .promise 1 .ok, .release 1 0 0,
        .unblock 2, .admit 2 1 2 2, .ret 2, .hookU 2 .ok, .promise 2 .ok, .release 2 0 0]
       ++ Ev.flushEnd 1 true :: [.closeStart, .closeEnd, .quiesce 0 0])).isSome = true ∧
    1 ∈ inBuffer [.call 1 .produce 3, .hookB 1, .admit 1 1 3 3, .ret 1,
        .call 2 .produce 2, .hookB 2, .block 2,
        .call 3 .try_ 1, .hookB 3, .ret 3, .hookU 3 ⟨.maxBuffered, 7⟩, .promise 3 ⟨.maxBuffered, 7⟩] := by decide

/-! ### No lost wake-up (monitor `Model.ProducerWake`) -/

open Model.ProducerWake in
/-- Every release of a record's accounting while a producer is blocked (space freed for a parked producer; the
blocked count is exact, it only changes under the producer mutex) is followed by a Broadcast of the producer's
condition variable, in every history accepted up to its quiescent point. -/
theorem wake_release_is_broadcast (h₁ h₂ : List Model.ProducerWake.Ev) (s : Model.ProducerWake.St)
    (id : Nat) (n bl fl : Nat)
    (hacc : Model.ProducerWake.run {} (h₁ ++ Model.ProducerWake.Ev.released id n bl fl :: h₂ ++ [Model.ProducerWake.Ev.quiesce]) = some s)
    (hneed : bl > 0) :
    ∃ site, Model.ProducerWake.Ev.bcast site ∈ h₂ := by
  refine Classical.byContradiction fun hno => ?_
  have hnb : ∀ site, Model.ProducerWake.Ev.bcast site ∉ h₂ := fun site hm => hno ⟨site, hm⟩
  have hsplit : h₁ ++ Model.ProducerWake.Ev.released id n bl fl :: h₂ ++ [Model.ProducerWake.Ev.quiesce]
      = h₁ ++ ([Model.ProducerWake.Ev.released id n bl fl] ++ (h₂ ++ [Model.ProducerWake.Ev.quiesce])) := by simp
  rw [hsplit, Proof.ProducerWake.run_append] at hacc
  cases h1 : Model.ProducerWake.run {} h₁ with
  | none => simp [h1] at hacc
  | some s₁ =>
    simp only [h1, Option.bind_some] at hacc
    rw [Proof.ProducerWake.run_append] at hacc
    have ht1 : s₁.need ≥ Proof.ProducerWake.tent s₁ := Proof.ProducerWake.need_ge_tent {} s₁ h₁ (by simp [Proof.ProducerWake.tent]) h1
    simp only [Model.ProducerWake.run, Model.ProducerWake.step, Model.ProducerWake.check, Option.bind_some] at hacc
    rw [Proof.ProducerWake.run_append] at hacc
    cases h2 : Model.ProducerWake.run (Model.ProducerWake.apply s₁ (Model.ProducerWake.Ev.released id n bl fl)) h₂ with
    | none => simp [h2] at hacc
    | some s₂ =>
      have h0 : (Model.ProducerWake.apply s₁ (Model.ProducerWake.Ev.released id n bl fl)).need
          ≥ Proof.ProducerWake.tent (Model.ProducerWake.apply s₁ (Model.ProducerWake.Ev.released id n bl fl)) + 1 := by
        simp only [Model.ProducerWake.apply, hneed, if_true]
        split <;> simp [Proof.ProducerWake.tent] at ht1 ⊢ <;> omega
      have hge : s₂.need ≥ Proof.ProducerWake.tent s₂ + 1 := Proof.ProducerWake.need_stays _ s₂ h₂ h0 hnb h2
      simp only [h2, Option.bind_some, Model.ProducerWake.run, Model.ProducerWake.step, Model.ProducerWake.check] at hacc
      have : s₂.need > 0 := by omega
      simp [this] at hacc

open Model.ProducerWake in
/-- A release that leaves nothing buffered or blocked while a Flush is reported in progress is followed by a
Broadcast or by the return of a flusher (a flusher that had not parked yet re-checks its predicate under the
mutex and returns without needing a wake-up), in every history accepted up to its quiescent point. -/
theorem wake_release_wakes_flusher (h₁ h₂ : List Model.ProducerWake.Ev) (s : Model.ProducerWake.St)
    (id : Nat) (n bl fl : Nat)
    (hacc : Model.ProducerWake.run {} (h₁ ++ Model.ProducerWake.Ev.released id n bl fl :: h₂ ++ [Model.ProducerWake.Ev.quiesce]) = some s)
    (hzero : n + bl = 0) (hfl : fl > 0) :
    (∃ site, Model.ProducerWake.Ev.bcast site ∈ h₂) ∨ Model.ProducerWake.Ev.flushReturned ∈ h₂ := by
  refine Classical.byContradiction fun hno => ?_
  have hnb : ∀ site, Model.ProducerWake.Ev.bcast site ∉ h₂ := fun site hm => hno (Or.inl ⟨site, hm⟩)
  have hnf : Model.ProducerWake.Ev.flushReturned ∉ h₂ := fun hm => hno (Or.inr hm)
  have hsplit : h₁ ++ Model.ProducerWake.Ev.released id n bl fl :: h₂ ++ [Model.ProducerWake.Ev.quiesce]
      = h₁ ++ ([Model.ProducerWake.Ev.released id n bl fl] ++ (h₂ ++ [Model.ProducerWake.Ev.quiesce])) := by simp
  rw [hsplit, Proof.ProducerWake.run_append] at hacc
  cases h1 : Model.ProducerWake.run {} h₁ with
  | none => simp [h1] at hacc
  | some s₁ =>
    simp only [h1, Option.bind_some] at hacc
    rw [Proof.ProducerWake.run_append] at hacc
    simp only [Model.ProducerWake.run, Model.ProducerWake.step, Model.ProducerWake.check, Option.bind_some] at hacc
    rw [Proof.ProducerWake.run_append] at hacc
    cases h2 : Model.ProducerWake.run (Model.ProducerWake.apply s₁ (Model.ProducerWake.Ev.released id n bl fl)) h₂ with
    | none => simp [h2] at hacc
    | some s₂ =>
      have hbl : bl = 0 := by omega
      have h0 : (Model.ProducerWake.apply s₁ (Model.ProducerWake.Ev.released id n bl fl)).flushNeed = true := by
        have hn : n = 0 := by omega
        subst hbl; subst hn
        simp [Model.ProducerWake.apply, hfl]
      have hf : s₂.flushNeed = true := Proof.ProducerWake.flushNeed_stays _ s₂ h₂ h0 hnb hnf h2
      have hc : Model.ProducerWake.check s₂ Model.ProducerWake.Ev.quiesce ≠ none := by
        simp only [Model.ProducerWake.check, hf, if_true]
        split <;> simp
      cases hcq : Model.ProducerWake.check s₂ Model.ProducerWake.Ev.quiesce with
      | none => exact hc hcq
      | some r => simp [Model.ProducerWake.run, Model.ProducerWake.step, h2, hcq] at hacc

open Model.ProducerWake in
/-- A produce call that stopped blocking without being admitted (cancelled) at a moment when that made a
flusher's predicate true has broadcast before it returns: the accepted history has a Broadcast (or the record's
admission in the same critical section) between the two events. -/
theorem wake_cancelled_produce_broadcasts (h₁ h₂ h₃ : List Model.ProducerWake.Ev) (id bl n fl : Nat)
    (hacc : (Model.ProducerWake.run {} (h₁ ++ Model.ProducerWake.Ev.unblocked id bl n fl :: h₂ ++ Model.ProducerWake.Ev.returned id :: h₃)).isSome)
    (hneed : wakeNeeded n bl fl false = true)
    (hquiet : ∀ e ∈ h₂, match e with | .unblocked _ _ _ _ => False | _ => True) :
    (∃ site, Model.ProducerWake.Ev.bcast site ∈ h₂) ∨ Model.ProducerWake.Ev.admitted id ∈ h₂ := by
  refine Classical.byContradiction fun hno => ?_
  have hnb : ∀ site, Model.ProducerWake.Ev.bcast site ∉ h₂ := fun site hm => hno (Or.inl ⟨site, hm⟩)
  have hna : Model.ProducerWake.Ev.admitted id ∉ h₂ := fun hm => hno (Or.inr hm)
  have hsplit : h₁ ++ Model.ProducerWake.Ev.unblocked id bl n fl :: h₂ ++ Model.ProducerWake.Ev.returned id :: h₃
      = h₁ ++ ([Model.ProducerWake.Ev.unblocked id bl n fl] ++ (h₂ ++ (Model.ProducerWake.Ev.returned id :: h₃))) := by simp
  rw [hsplit, Proof.ProducerWake.run_append] at hacc
  cases h1 : Model.ProducerWake.run {} h₁ with
  | none => simp [h1] at hacc
  | some s₁ =>
    simp only [h1, Option.bind_some] at hacc
    rw [Proof.ProducerWake.run_append] at hacc
    simp only [Model.ProducerWake.run, Model.ProducerWake.step, Model.ProducerWake.check, Model.ProducerWake.apply, hneed, if_true,
      Option.bind_some] at hacc
    rw [Proof.ProducerWake.run_append] at hacc
    -- the tentative obligation for `id` survives `h₂`
    have keep : ∀ (l : List Model.ProducerWake.Ev) (sa sb : Model.ProducerWake.St), sa.tentative = some id →
        (∀ site, Model.ProducerWake.Ev.bcast site ∉ l) → Model.ProducerWake.Ev.admitted id ∉ l →
        (∀ e ∈ l, match e with | .unblocked _ _ _ _ => False | _ => True) →
        Model.ProducerWake.run sa l = some sb → sb.tentative = some id := by
      intro l
      induction l with
      | nil => intro sa sb ht _ _ _ hr; simp [Model.ProducerWake.run] at hr; subst hr; exact ht
      | cons e es ih =>
        intro sa sb ht hb ha hq hr
        simp only [Model.ProducerWake.run] at hr
        cases hs : Model.ProducerWake.step sa e with
        | none => simp [hs] at hr
        | some sc =>
          simp only [hs] at hr
          refine ih sc sb ?_ (fun site hm => hb site (by simp [hm])) (fun hm => ha (by simp [hm]))
            (fun e' he' => hq e' (by simp [he'])) hr
          unfold Model.ProducerWake.step at hs
          cases hc : Model.ProducerWake.check sa e with
          | some r => simp [hc] at hs
          | none =>
            simp only [hc, Option.some.injEq] at hs
            subst hs
            cases e with
            | unblocked i b n f =>
              have hx := hq (Model.ProducerWake.Ev.unblocked i b n f) (by simp)
              simp at hx
            | admitted i =>
              have hne : ¬ id = i := fun h => ha (by simp [h])
              simp [Model.ProducerWake.apply, ht, hne]
            | released i n b f => simp only [Model.ProducerWake.apply]; split <;> split <;> simp [ht]
            | bcast site => exact absurd (List.mem_cons_self) (hb site)
            | flushReturned => simp [Model.ProducerWake.apply, ht]
            | returned i =>
              simp only [Model.ProducerWake.check, ht] at hc
              have hne : i ≠ id := by
                intro h; subst h; simp at hc
              have : (some id == some i) = false := by simp; exact fun h => hne h.symm
              simp [Model.ProducerWake.apply, ht, this]
            | quiesce => simp [Model.ProducerWake.apply, ht]
    cases h2 : Model.ProducerWake.run { s₁ with need := s₁.need + 1, tentative := some id } h₂ with
    | none => simp [h2] at hacc
    | some s₂ =>
      have ht2 := keep h₂ _ s₂ rfl hnb hna hquiet h2
      simp only [h2, Option.bind_some, Model.ProducerWake.run, Model.ProducerWake.step, Model.ProducerWake.check, ht2] at hacc
      simp at hacc

/-- Non-vacuity: the cancel path with a flusher waiting (broadcast before return), and the refused variant without it. -/
example : Model.ProducerWake.accepts [.released 1 1 1 1, .bcast 3, .unblocked 2 0 0 1, .bcast 1, .bcast 2, .returned 2, .quiesce] = true := by decide
example : Model.ProducerWake.accepts [.released 1 1 1 1, .bcast 3, .unblocked 2 0 0 1, .bcast 1, .returned 2] = true := by decide
example : Model.ProducerWake.accepts [.unblocked 2 0 0 1, .returned 2, .quiesce] = false := by decide
example : Model.ProducerWake.accepts [.released 1 0 0 1, .quiesce] = false := by decide

end Props.C03

/-- Non-vacuity of `wake_release_wakes_flusher`: a flusher that returns without a Broadcast covers the obligation, and
a history in which neither happens is refused at its quiescent point. -/
example : Model.ProducerWake.accepts [.released 1 0 0 1, .flushReturned, .quiesce] = true := by decide
example : Model.ProducerWake.accepts [.released 1 0 0 1, .quiesce] = false := by decide
example : Model.ProducerWake.accepts [.released 1 3 1 0, .quiesce] = false := by decide
