import FranzVerif.Model.Producer
import FranzVerif.Proof.Producer
/-! C03 — producer buffering limits and Flush completion, over all accepted histories. -/
namespace Props.C03
open Model.Producer Proof.Producer

/-- Records admitted and not yet released, as a function of the history alone. -/
def inBuffer (h : List Ev) : List Id :=
  (admittedIds h).filter (fun id => !(releasedIds h).contains id)

/-- Records accepted by Produce whose promise has not run (for ProduceSync the unbuffered hook, which
runs immediately before the promise, stands for it because the harness can log that promise only at return). -/
def acceptedNotPromised (h : List Ev) : List Id :=
  (admittedIds h).filter (fun id => !(promiseRanIds h).contains id)

/-- (a) The limit is never exceeded: at every point of every accepted history the records Produce has
accepted and whose promise has not run number at most `MaxBufferedRecords`, and their bytes at most
`MaxBufferedBytes` when set. -/
theorem buffered_never_exceeds_limits (c : Cfg) (h : List Ev) (s : St) (hacc : run c {} h = some s) :
    (acceptedNotPromised h).length ≤ (inBuffer h).length ∧ (inBuffer h).length = s.occ ∧ s.occ ≤ c.maxRecs ∧
    (c.maxBytes > 0 → s.occBytes ≤ c.maxBytes) ∧ s.occBytes = ((inBuffer h).map (sizeOfId h)).sum := by
  sorry

/-- (b) At the limit: TryProduce never blocks, nothing blocks under ManualFlushing, and a record is
blocked or failed with ErrMaxBuffered only if the buffer was full at some point during its call. -/
theorem blocking_discipline (c : Cfg) (h₁ h₂ : List Ev) (id : Id)
    (hacc : (run c {} (h₁ ++ Ev.block id :: h₂)).isSome) :
    c.manual = false ∧ kindOf id h₁ ≠ some Kind.try_ ∧ sawFullDuringCall c id h₁ = true := by
  sorry

/-- (c) Flush returns nil only after every record that was admitted or blocked before it began has
been finished: promise called and accounting released (or, if it never got admitted, no longer blocked). -/
theorem flush_nil_after_promises (c : Cfg) (h₁ h₂ h₃ : List Ev) (k : Nat)
    (hacc : (run c {} (h₁ ++ Ev.flushStart k :: h₂ ++ Ev.flushEnd k true :: h₃)).isSome)
    (id : Id) (hin : id ∈ inBuffer h₁) :
    id ∈ releasedIds (h₁ ++ Ev.flushStart k :: h₂) ∧ id ∈ promiseRanIds (h₁ ++ Ev.flushStart k :: h₂) := by
  sorry

/-- (d) Nothing stays blocked: at a quiescent point no Produce is blocked and every Flush has returned. -/
theorem nothing_blocked_at_quiescence (c : Cfg) (h : List Ev) (n b : Nat) (s : St)
    (hacc : run c {} (h ++ [Ev.quiesce n b]) = some s) :
    (∀ id, Ev.block id ∈ h → Ev.unblock id ∈ h) ∧ (∀ k, Ev.flushStart k ∈ h → ∃ ok, Ev.flushEnd k ok ∈ h) ∧
    inBuffer h = [] := by
  sorry

end Props.C03
