import FranzVerif.Model.Conn
import FranzVerif.Proof.C22Frame
import FranzVerif.Proof.Conn
import FranzVerif.Proof.ConnInv
import FranzVerif.Proof.ConnSasl
/-! C22 — responses are matched to their requests; hostile bytes are safe.

Two layers. (1) Theorems over ALL histories the connection monitor `Model.Conn` accepts (every interleaving of
issue / wire / frame / outcome events, every byte stream, every disconnect point); the tie is the history
correspondence of the `conn` scenarios (real kgo client × scripted peer in synctest bubbles). (2) Theorems about
`Model.C22Frame.parseFrame`, the Lean model of `readConn` / `parseReadSize` / `readResponse` / `SkipTags`, tied to
the code by the error-class comparison of the same scenarios.

The vocabulary includes KIP-368 re-authentication (SASL scenarios: requests in flight across the session expiry,
requests PARKED behind them, then a disconnect / read timeout / cancellation / clean drain): `exactly_one_outcome`
holds over all of it, and `failed_request_never_written_later`, `parked_request_written_only_after_reauthentication`,
`written_at_most_once`, `delivered_request_written_exactly_once` say what may happen to a parked request: failed by
the disconnect and never replayed, or replayed exactly once after the re-authentication.

The last clause of the property, "never … waits beyond the configured timeouts", as a parser statement: the work
per response is linear in the bytes received, `parseFrame_steps_linear` (every header kind). It was FALSE before the
repair of C22.tag-count-unbounded-loop (/repo 994d56c): `unrepaired_tag_loop_not_linear` keeps the 13-byte witness
that needed 4294967308 steps against the loop as it was (`parseFrameUnrepaired`). -/
namespace Props.C22
open Model.Conn Model.C22Frame Proof.Conn Proof.C22Frame

/-! ### histories -/

/-- Every issued request has exactly one outcome (a response or an error) once the scenario is quiescent: never
zero, never two. -/
theorem exactly_one_outcome (h : List Ev) (s : St) (hacc : run {} (h ++ [Ev.quiesce]) = some s)
    (i t : Nat) (hi : Ev.issue i t ∈ h) : (outIds h).count i = 1 := by
  obtain ⟨s₁, hr₁, hchk⟩ := run_split hacc
  have inv := inv_of_run hr₁
  have hq := quiesce_check hchk
  have hmem : i ∈ s₁.issued.map (·.1) := by
    rw [inv.issued, List.mem_reverse]
    exact List.mem_filterMap.2 ⟨_, hi, rfl⟩
  obtain ⟨x, hx, hxi⟩ := List.mem_map.1 hmem
  have hout : hasOut s₁ i = true := by
    have := List.any_eq_false.1 hq x hx
    simpa [hxi] using this
  have hin : i ∈ (outIds h).reverse := by
    have := hasOut_true_mem hout
    rwa [inv.outs] at this
  have hnd : ((outIds h).reverse).Nodup := by
    have := inv.outsNodup
    rwa [inv.outs] at this
  have := hnd.count (a := i)
  rw [if_pos hin, List.count_reverse] at this
  exact this

/-- A payload is delivered only to a request that was written on a connection, whose correlation id the accepted
frame carries, and only if every older request on that connection was itself answered by a frame that passed all
checks (it is the oldest outstanding request and the connection has not died). -/
theorem delivery_matches_correlation_id (h₁ h₂ : List Ev) (i : Nat) (f : Int) (t : Nat)
    (hacc : (run {} (h₁ ++ Ev.ok i f t :: h₂)).isSome) :
    ∃ s w before after rest body, run {} h₁ = some s ∧ w ∈ s.waiters ∧ w.id = i ∧
      fifoOf s w.c = before ++ w :: after ∧
      DeliversAll s.maxRead (closedOf s w.c) before (streamOf s w.c) rest ∧
      (parseFrame s.maxRead w.corr w.flex (closedOf s w.c) rest).res = .deliver body ∧
      u32? (rest.drop 4) = some w.corr := by
  obtain ⟨sf, hs⟩ := Option.isSome_iff_exists.1 hacc
  obtain ⟨s, hr, hchk⟩ := run_split hs
  obtain ⟨_, body, hexp⟩ := ok_check hchk
  unfold expectOf at hexp
  split at hexp
  · simp at hexp
  · rename_i w0 _
    obtain ⟨before, w, after, rest, hf, hw, hd, hp⟩ := lookup_simulate_deliver _ _ hexp
    have hwm : w ∈ fifoOf s w0.c := by rw [hf]; simp
    unfold fifoOf at hwm
    obtain ⟨hwmem, hwc⟩ := List.mem_filter.1 hwm
    have hc : w.c = w0.c := by simpa using hwc
    rw [← hc] at hf hd hp
    exact ⟨s, w, before, after, rest, body, hr, hwmem, hw, hf, hd, hp, deliver_carries_corr hp⟩

/-- After the connection died nothing is delivered: once a frame is refused for (or the stream ends before) the
oldest outstanding request, no request written behind it on that connection ever gets a response. -/
theorem nothing_delivered_behind_a_refused_frame (h₁ h₂ : List Ev) (i : Nat) (f : Int) (t : Nat)
    (hacc : (run {} (h₁ ++ Ev.ok i f t :: h₂)).isSome) :
    ∃ s, run {} h₁ = some s ∧
      ∀ c before w' after rest, fifoOf s c = before ++ w' :: after →
        DeliversAll s.maxRead (closedOf s c) before (streamOf s c) rest →
        (∀ b, (parseFrame s.maxRead w'.corr w'.flex (closedOf s c) rest).res ≠ .deliver b) →
        ∀ x ∈ after, x.id ≠ i := by
  obtain ⟨sf, hs⟩ := Option.isSome_iff_exists.1 hacc
  obtain ⟨s, hr, hchk⟩ := run_split hs
  refine ⟨s, hr, ?_⟩
  intro c before w' after rest hf hd hfail x hx hxi
  have inv := inv_of_run hr
  obtain ⟨_, body, hexp⟩ := ok_check hchk
  have hxf : x ∈ fifoOf s c := by rw [hf]; simp [hx]
  obtain ⟨hxw, hxc⟩ := List.mem_filter.1 hxf
  have hxc : x.c = c := by simpa using hxc
  have hfind : s.waiters.find? (·.id == i) = some x := by
    rw [← hxi]; exact find?_of_nodup_ids inv.waitersNodup hxw
  have hnd : ((fifoOf s c).map (·.id)).Nodup :=
    inv.waitersNodup.sublist (List.Sublist.map _ List.filter_sublist)
  rw [hf] at hnd
  simp only [List.map_append, List.map_cons] at hnd
  have hxa : i ∈ after.map (·.id) := List.mem_map.2 ⟨x, hx, hxi⟩
  obtain ⟨_, hnd2, hdisj⟩ := List.nodup_append.1 hnd
  have hnb : i ∉ before.map (·.id) := fun hb => hdisj i hb i (List.mem_cons_of_mem _ hxa) rfl
  have hnw : w'.id ≠ i := fun he => (List.nodup_cons.1 hnd2).1 (he ▸ hxa)
  have := lookup_simulate_behind before w' after (streamOf s c) rest hd hfail hnb hnw hxa
  unfold expectOf at hexp
  rw [hfind] at hexp
  simp only [hxc, hf, this] at hexp
  simp at hexp


/-! ### parked requests (SASL re-authentication) -/

/-- A request that was failed (or answered) is never replayed: no request reaches the wire at a later time than its
outcome. In particular a request parked for a pending re-authentication and failed by the death of its connection
(`die` → `failParked`) is not written afterwards (the replay of `handleReauthDrain` must not see it). -/
theorem failed_request_never_written_later (h₁ h₂ : List Ev) (w : Waiter)
    (hacc : (run {} (h₁ ++ Ev.written w :: h₂)).isSome) (t : Nat)
    (hout : (∃ cls, Ev.err w.id cls t ∈ h₁) ∨ (∃ f, Ev.ok w.id f t ∈ h₁)) : w.tw ≤ t := by
  obtain ⟨sf, hs⟩ := Option.isSome_iff_exists.1 hacc
  obtain ⟨s, hr, hchk⟩ := run_split hs
  have inv := inv_of_run hr
  have sinv := sinv_of_run hr
  have hmem : ∃ b, (w.id, b, t) ∈ s.outs := by
    rcases hout with ⟨cls, he⟩ | ⟨f, he⟩
    · exact sinv.outsMem _ he w.id t rfl
    · exact sinv.outsMem _ he w.id t rfl
  obtain ⟨b, hb⟩ := hmem
  have hfind := find?_out_of_nodup inv.outsNodup hb
  have hno := written_check_time hchk
  have h1 : hasOut s w.id = true := by
    unfold hasOut; exact List.any_eq_true.2 ⟨_, hb, by simp⟩
  have h2 : outTime s w.id = t := by
    unfold outTime; rw [hfind]
  rw [h2] at hno
  exact Nat.le_of_not_lt (fun hlt => hno ⟨h1, hlt⟩)

/-- A parked request reaches the wire only on a connection that completed an authentication after the request was
(last) parked: the history before the write contains the parking, then the peer's successful SASLAuthenticate answer
on that very connection, and no parking of the request in between. -/
theorem parked_request_written_only_after_reauthentication (h₁ h₂ : List Ev) (w : Waiter) (tp : Nat)
    (hacc : (run {} (h₁ ++ Ev.written w :: h₂)).isSome) (hp : Ev.park w.id tp ∈ h₁) :
    ∃ a b c tp' n l t, h₁ = a ++ Ev.park w.id tp' :: b ++ Ev.authEnd w.c n l t :: c ∧ c.any (isPark w.id) = false := by
  obtain ⟨sf, hs⟩ := Option.isSome_iff_exists.1 hacc
  obtain ⟨s, hr, hchk⟩ := run_split hs
  have sinv := sinv_of_run hr
  exact sinv.ready _ _ (written_check_ready hchk (sinv.parkedMem _ _ hp))

/-- No request is written twice (a parked request is replayed at most once). -/
theorem written_at_most_once (h : List Ev) (hacc : (run {} h).isSome) (i : Nat) : (writtenIds h).count i ≤ 1 := by
  obtain ⟨s, hr⟩ := Option.isSome_iff_exists.1 hacc
  have inv := inv_of_run hr
  have sinv := sinv_of_run hr
  have hnd := inv.waitersNodup
  rw [sinv.waiters] at hnd
  exact List.nodup_iff_count.1 hnd i

/-- A request that gets a response (so it was not failed: e.g. a parked request after a clean drain) was written
exactly once. -/
theorem delivered_request_written_exactly_once (h : List Ev) (hacc : (run {} h).isSome) (i : Nat) (f : Int) (t : Nat)
    (hok : Ev.ok i f t ∈ h) : (writtenIds h).count i = 1 := by
  obtain ⟨s, hr⟩ := Option.isSome_iff_exists.1 hacc
  have hle := written_at_most_once h hacc i
  obtain ⟨h₁, h₂, rfl⟩ := List.append_of_mem hok
  obtain ⟨s₁, hr₁, hchk⟩ := run_split hr
  obtain ⟨_, body, hexp⟩ := ok_check hchk
  have hm := expectOf_deliver_mem hexp
  rw [(sinv_of_run hr₁).waiters] at hm
  have : 0 < (writtenIds (h₁ ++ Ev.ok i f t :: h₂)).count i := by
    rw [writtenIds_append, List.count_append]
    exact Nat.lt_of_lt_of_le (List.count_pos_iff.2 hm) (Nat.le_add_right _ _)
  omega

/-! ### the frame parser -/

/-- `parseFrame` never panics, for arbitrary bytes, limits, correlation ids and header kinds: the negative-size,
size-limit and length checks guard `make`, `buf[4:]` and `Uint32(buf)`. -/
theorem parseFrame_never_panics (maxRead corr : Nat) (flex closed : Bool) (stream : Bytes) :
    (parseFrame maxRead corr flex closed stream).res ≠ .panic := by
  unfold parseFrame parseFrameWith
  split
  · split <;> simp
  · rename_i sz hsz
    dsimp only
    split
    · simp
    · split
      · simp
      · rename_i hneg _
        obtain ⟨k, hk⟩ := mkBuf?_isSome hneg
        rw [hk]
        dsimp only
        split
        · split <;> simp
        · split
          · simp
          · rename_i hlen
            obtain ⟨g, hg⟩ := u32?_isSome (Nat.le_of_not_lt hlen)
            obtain ⟨b, hb⟩ := from4?_isSome hlen
            rw [hg, hb]
            dsimp only
            split
            · simp
            · split
              · split <;> simp
              · simp

/-- A response is accepted for the request with correlation id `corr` only if the frame carries exactly that id. -/
theorem accepted_frame_carries_correlation_id (maxRead corr : Nat) (flex closed : Bool) (stream body : Bytes)
    (h : (parseFrame maxRead corr flex closed stream).res = .deliver body) : u32? (stream.drop 4) = some corr :=
  deliver_carries_corr h

/-- Linear work for every header kind: at most two steps per byte of the stream (bytes read plus tag-loop
iterations; an iteration that leaves the reader valid consumes at least two bytes, the first failing one is the last). -/
theorem parseFrame_steps_linear (maxRead corr : Nat) (flex closed : Bool) (stream : Bytes) :
    (parseFrame maxRead corr flex closed stream).steps ≤ 2 * stream.length + 1 := by
  unfold parseFrame parseFrameWith
  split
  · simp only; omega
  · rename_i sz hsz
    have h4 := u32?_some_length hsz
    dsimp only
    split
    · simp only; omega
    · split
      · simp only; omega
      · split
        · simp only; omega
        · rename_i n hn
          split
          · simp only [List.length_drop]; omega
          · rename_i hav
            simp only [List.length_drop] at hav
            split
            · simp only; omega
            · split
              · simp only; omega
              · split
                · simp only; omega
                · split
                  · simp only; omega
                  · rename_i body hbody
                    have hbuflen : (List.take n (List.drop 4 stream)).length = n := by
                      rw [List.length_take, List.length_drop]; omega
                    have hbl : body.length + 4 ≤ n := by
                      unfold from4? at hbody
                      split at hbody
                      · simp at hbody
                      · rename_i h4'
                        injection hbody with hbody
                        rw [← hbody, List.length_drop, hbuflen]
                        rw [hbuflen] at h4'
                        omega
                    split
                    · have hit := skipLoop_iters (rdUvarint ⟨body, false⟩).1 (rdUvarint ⟨body, false⟩).2
                      have hlen : (rdUvarint ⟨body, false⟩).2.src.length ≤ body.length := by
                        unfold rdUvarint
                        split
                        · simp
                        · simp only [List.length_drop]; omega
                      simp only
                      omega
                    · simp only; omega

/-- a 9-byte response (13 bytes with the size prefix): correlation id 1 and a flexible-header tag count of 2³²−1 -/
def tagWitness : Bytes := [0, 0, 0, 9, 0, 0, 0, 1, 0xff, 0xff, 0xff, 0xff, 0x0f]

/-- the repaired loop gives up after the first iteration (14 steps: 13 bytes and one iteration) and refuses the frame -/
theorem tagWitness_steps : (parseFrame 4096 1 true true tagWitness).steps = 14 := by decide
theorem tagWitness_refused : (parseFrame 4096 1 true true tagWitness).res = .short := by decide

/-- Record of the repaired defect: with the loop as it was (`num > 0` only) the step count was NOT linear in the
input, the tag loop ran as often as the input said: 4294967308 steps for the 13-byte witness. -/
theorem tagWitness_steps_with (loop : Nat → Rd → Rd × Nat) :
    (parseFrameWith loop 4096 1 true true tagWitness).steps = 4 + 9 + (loop 4294967295 ⟨[], false⟩).2 := by rfl

theorem unrepaired_tag_loop_not_linear :
    ¬ ∀ stream : Bytes, (parseFrameUnrepaired 4096 1 true true stream).steps ≤ 16 * stream.length + 16 := by
  intro h
  have h1 := h tagWitness
  unfold parseFrameUnrepaired at h1
  rw [tagWitness_steps_with, skipLoopUnbounded_iters] at h1
  simp [tagWitness] at h1

/-! ### non-vacuity -/

/-- Two pipelined requests on connection 0 (correlation ids 1 and 2 after the handshake's 0), answered in order;
request 7's payload is frame 1, request 8's is frame 2. -/
example : accepts
    [.cfg 4096 1000 true false false false, .issue 7 0, .issue 8 0, .hsReq 0 0, .hsFrame 0 [0, 0, 0, 5, 0, 0, 0, 0, 9],
     .written ⟨0, 1, 7, false, 0⟩, .written ⟨0, 2, 8, false, 0⟩,
     .frame ⟨0, 1, [0, 0, 0, 5, 0, 0, 0, 1, 42], [0, 0, 0, 5, 0, 0, 0, 1, 42]⟩,
     .frame ⟨0, 2, [0, 0, 0, 5, 0, 0, 0, 2, 43], [0, 0, 0, 5, 0, 0, 0, 2, 43]⟩,
     .ok 8 2 1, .ok 7 1 1, .cpu 20, .quiesce] = true := by decide

/-- Swapped correlation ids: the first frame carries id 2; a delivery to either request is refused, errors are accepted. -/
example : accepts
    [.issue 7 0, .issue 8 0, .hsReq 0 0, .hsFrame 0 [0, 0, 0, 5, 0, 0, 0, 0, 9],
     .written ⟨0, 1, 7, false, 0⟩, .written ⟨0, 2, 8, false, 0⟩,
     .frame ⟨0, 1, [0, 0, 0, 5, 0, 0, 0, 2, 42], [0, 0, 0, 5, 0, 0, 0, 2, 42]⟩,
     .ok 8 1 1] = false := by decide
example : accepts
    [.issue 7 0, .issue 8 0, .hsReq 0 0, .hsFrame 0 [0, 0, 0, 5, 0, 0, 0, 0, 9],
     .written ⟨0, 1, 7, false, 0⟩, .written ⟨0, 2, 8, false, 0⟩,
     .frame ⟨0, 1, [0, 0, 0, 5, 0, 0, 0, 2, 42], [0, 0, 0, 5, 0, 0, 0, 2, 42]⟩,
     .ok 7 1 1] = false := by decide
example : accepts
    [.cfg 4096 1000 false false false false, .issue 7 0, .issue 8 0, .hsReq 0 0, .hsFrame 0 [0, 0, 0, 5, 0, 0, 0, 0, 9],
     .written ⟨0, 1, 7, false, 0⟩, .written ⟨0, 2, 8, false, 0⟩,
     .frame ⟨0, 1, [0, 0, 0, 5, 0, 0, 0, 2, 42], [0, 0, 0, 5, 0, 0, 0, 2, 42]⟩,
     .err 7 .mismatch 1, .err 8 .dead 1, .quiesce] = true := by decide

/-- A second outcome, a missing outcome, a delivery behind a negative size prefix, a wait beyond the timeout: refused. -/
example : accepts [.issue 7 0, .err 7 .dial 1, .err 7 .dial 1] = false := by decide
example : accepts [.issue 7 0, .quiesce] = false := by decide
example : accepts
    [.issue 7 0, .issue 8 0, .hsReq 0 0, .hsFrame 0 [0, 0, 0, 5, 0, 0, 0, 0, 9],
     .written ⟨0, 1, 7, false, 0⟩, .written ⟨0, 2, 8, false, 0⟩,
     .frame ⟨0, 1, [128, 0, 0, 5, 0, 0, 0, 1, 42], [128, 0, 0, 5, 0, 0, 0, 1, 42]⟩,
     .frame ⟨0, 2, [0, 0, 0, 5, 0, 0, 0, 2, 43], [0, 0, 0, 5, 0, 0, 0, 2, 43]⟩,
     .err 7 .negsize 1, .ok 8 2 1] = false := by decide
example : accepts
    [.cfg 4096 1000 false false false false, .issue 7 0, .hsReq 0 0, .hsFrame 0 [0, 0, 0, 5, 0, 0, 0, 0, 9],
     .written ⟨0, 1, 7, false, 0⟩, .err 7 .timeout 1006, .quiesce] = false := by decide
example : accepts
    [.cfg 4096 1000 false false false false, .issue 7 0, .hsReq 0 0, .hsFrame 0 [0, 0, 0, 5, 0, 0, 0, 0, 9],
     .written ⟨0, 1, 7, false, 0⟩, .err 7 .timeout 1000, .quiesce] = true := by decide

/-- SASL, clean drain: request 7 is in flight across the session expiry, request 8 is parked behind it; 7 is answered,
the client re-authenticates on connection 0 and replays 8, which is answered too. -/
example : accepts
    [.cfg 4096 3000 true false false true, .issue 7 800, .hsReq 0 0, .hsFrame 0 [0, 0, 0, 5, 0, 0, 0, 0, 9],
     .authBegin 0 1 800, .authEnd 0 1 2000 800, .written ⟨0, 3, 7, false, 800⟩, .issue 8 1900, .park 8 1900,
     .frame ⟨0, 1, [0, 0, 0, 5, 0, 0, 0, 3, 42], [0, 0, 0, 5, 0, 0, 0, 3, 42]⟩, .ok 7 1 2300,
     .authBegin 0 2 2300, .authEnd 0 2 2000 2300, .written ⟨0, 6, 8, false, 2300⟩,
     .frame ⟨0, 2, [0, 0, 0, 5, 0, 0, 0, 6, 43], [0, 0, 0, 5, 0, 0, 0, 6, 43]⟩, .ok 8 2 2300, .cpu 5, .quiesce] = true := by decide

/-- SASL, the connection is cut while 8 is parked: both fail once (accepted); a replay of the failed request 8 on a new
connection one millisecond later is refused, and so is a replay without re-authentication, a write inside the
authentication exchange, and a re-authentication that begins while the response to 7 is still outstanding. -/
example : accepts
    [.cfg 4096 3000 false false false true, .issue 7 800, .hsReq 0 0, .hsFrame 0 [0, 0, 0, 5, 0, 0, 0, 0, 9],
     .authBegin 0 1 800, .authEnd 0 1 2000 800, .written ⟨0, 3, 7, false, 800⟩, .issue 8 1900, .park 8 1900,
     .peerClose 0, .err 7 .eof 2300, .err 8 .dead 2300, .cpu 5, .quiesce] = true := by decide
example : accepts
    [.cfg 4096 3000 false false false true, .issue 7 800, .hsReq 0 0, .hsFrame 0 [0, 0, 0, 5, 0, 0, 0, 0, 9],
     .authBegin 0 1 800, .authEnd 0 1 2000 800, .written ⟨0, 3, 7, false, 800⟩, .issue 8 1900, .park 8 1900,
     .peerClose 0, .err 7 .eof 2300, .err 8 .dead 2300,
     .hsReq 1 0, .hsFrame 1 [0, 0, 0, 5, 0, 0, 0, 0, 9], .authBegin 1 1 2301, .authEnd 1 1 2000 2301,
     .written ⟨1, 3, 8, false, 2301⟩] = false := by decide
example : accepts
    [.cfg 4096 3000 false false false true, .issue 7 800, .hsReq 0 0, .hsFrame 0 [0, 0, 0, 5, 0, 0, 0, 0, 9],
     .authBegin 0 1 800, .authEnd 0 1 2000 800, .written ⟨0, 3, 7, false, 800⟩, .issue 8 1900, .park 8 1900,
     .frame ⟨0, 1, [0, 0, 0, 5, 0, 0, 0, 3, 42], [0, 0, 0, 5, 0, 0, 0, 3, 42]⟩, .ok 7 1 2300,
     .written ⟨0, 4, 8, false, 2300⟩] = false := by decide
example : accepts
    [.cfg 4096 3000 false false false true, .issue 7 800, .hsReq 0 0, .hsFrame 0 [0, 0, 0, 5, 0, 0, 0, 0, 9],
     .authBegin 0 1 800, .authEnd 0 1 2000 800, .written ⟨0, 3, 7, false, 800⟩, .issue 8 1900, .park 8 1900,
     .frame ⟨0, 1, [0, 0, 0, 5, 0, 0, 0, 3, 42], [0, 0, 0, 5, 0, 0, 0, 3, 42]⟩, .ok 7 1 2300,
     .authBegin 0 2 2300, .written ⟨0, 5, 8, false, 2300⟩] = false := by decide
example : accepts
    [.cfg 4096 3000 false false false true, .issue 7 800, .hsReq 0 0, .hsFrame 0 [0, 0, 0, 5, 0, 0, 0, 0, 9],
     .authBegin 0 1 800, .authEnd 0 1 2000 800, .written ⟨0, 3, 7, false, 800⟩, .issue 8 1900, .park 8 1900,
     .authBegin 0 2 2300] = false := by decide

end Props.C22
