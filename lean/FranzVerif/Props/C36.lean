import FranzVerif.Model.C36
import FranzVerif.Spec.C36
import FranzVerif.Proof.C36
/-! C36 — property theorems: schema-registry serde header (pkg/sr ConfluentHeader) and Serde registry.

Property text: "For any registered schema ID and protobuf index path, Serde.Encode writes the Confluent wire header
(magic byte 0, big-endian ID, then the index with the single-zero shortcut) followed by the payload, and Serde.Decode or
DecodeNew of that output recovers the value through the registered decoder. Decoding arbitrary bytes with Serde or
ConfluentHeader returns an error for malformed headers or unregistered IDs and never panics."

`Model.C36` is the model of the Go code (tied to /repo by the differential run), `Spec.C36` the wire format written
independently. History: before /repo a468db8 `DecodeIndex` ran `make([]int, l)` on the count read from the input and the
clause "never panics, for any maxLength" was false for `maxLength ≤ 0` (found by this check, key
`decodeindex-panic-nonpositive-maxlength`); the code now caps the allocation by the remaining input and the clause is
proved at full strength (`decodeIndex_no_panic`); the old witnesses are kept as regression examples. -/
namespace Props.C36
open Model.C36 Proof.C36

/-! ### ConfluentHeader -/

/-- `AppendEncode` writes exactly the Confluent header: magic 0, big-endian id, index with the single-zero shortcut. -/
theorem header_encode_wire (pre : Bytes) (id : Int) (index : List Int) (h0 : 0 ≤ id) (h1 : id < 4294967296) :
    appendEncode pre id index = pre ++ Spec.C36.wireHeader id index :=
  wire_of_appendEncode pre id h0 h1 index

/-- Header round trip for every id < 2^32, every index path (any depth, any Go-int entries) and payload: `DecodeID`
recovers the id; for a non-empty path `DecodeIndex` recovers the path and leaves the payload, for every `maxLength` that
is non-positive (no bound) or at least the depth. -/
theorem header_roundtrip (id : Int) (index : List Int) (payload : Bytes) (maxLength : Int)
    (h0 : 0 ≤ id) (h1 : id < 4294967296) (hI : ∀ v ∈ index, I64 v)
    (hL : index.length < 9223372036854775808)
    (hm : maxLength ≤ 0 ∨ (index.length : Int) ≤ maxLength) :
    decodeID (appendEncode [] id index ++ payload) = .ok (id, encodeIndex index ++ payload) ∧
    (index = [] → encodeIndex index ++ payload = payload) ∧
    (index ≠ [] → decodeIndex (encodeIndex index ++ payload) maxLength = .ok (index, payload)) := by
  refine ⟨decodeID_appendEncode id h0 h1 index payload, ?_, ?_⟩
  · intro h; subst h; simp [encodeIndex]
  · intro hne; exact decodeIndex_encoded index maxLength payload hne hI hL hm

/-- Non-vacuity: id 2^32-1, path [0] (shortcut), a six-deep path with extreme entries. -/
example : decodeID ([0, 255, 255, 255, 255, 0, 7] : Bytes) = .ok (4294967295, [0, 7]) ∧
    decodeIndex ([0, 7] : Bytes) 1 = .ok ([0], [7]) ∧
    decodeIndex ([12, 0, 1, 126, 127, 128, 1, 255, 255, 255, 255, 255, 255, 255, 255, 255, 1, 9] : Bytes) 6
      = .ok ([0, -1, 63, -64, 64, -9223372036854775808], [9]) := by decide

/-- On every byte string `DecodeID` answers as the wire format says: never a panic, a value only for magic 0 · that id
big-endian · rest, an error only for fewer than five bytes or a wrong magic byte. -/
theorem decodeID_meets_spec (b : Bytes) : Spec.C36.decodeIDAllowed b (decodeID b) = true :=
  decodeID_spec b

/-- **Never panics**: for every byte string and every `maxLength` (negative, zero, positive). -/
theorem decodeIndex_no_panic (b : Bytes) (maxLength : Int) : decodeIndex b maxLength ≠ .panic :=
  Proof.C36.decodeIndex_no_panic b maxLength

/-- On every byte string and every `maxLength`, `DecodeIndex` answers as the wire format says: never a panic; the path at
the front of the input and the rest (within a positive `maxLength`); an error exactly for malformed input (truncated,
overlong varint, negative count) or a path longer than a positive `maxLength`. -/
theorem decodeIndex_meets_spec (b : Bytes) (maxLength : Int) :
    Spec.C36.decodeIndexAllowed b maxLength (decodeIndex b maxLength) = true :=
  decodeIndex_spec b maxLength

example : decodeIndex ([4, 2, 4, 9] : Bytes) 3 = .ok ([1, 2], [9]) ∧ decodeIndex ([4, 2, 4, 9] : Bytes) 0 = .ok ([1, 2], [9]) ∧
    decodeIndex ([4, 2, 4, 9] : Bytes) (-7) = .ok ([1, 2], [9]) ∧ decodeIndex ([4, 2, 4, 9] : Bytes) 1 = .err .notRegistered := by decide

/-- Regression: the witnesses of the repaired defect (varint 2^62 = `80×9 01`, varint 2^40 = `80 80 80 80 80 80 10`, with
`maxLength` 0 / negative / positive, with and without following entries) are malformed input and now give errors. -/
example :
    decodeIndex [128, 128, 128, 128, 128, 128, 128, 128, 128, 1] 0 = .err .eof ∧
    decodeIndex [128, 128, 128, 128, 128, 128, 128, 128, 128, 1] (-1) = .err .eof ∧
    decodeIndex [128, 128, 128, 128, 128, 128, 128, 128, 128, 1] 3 = .err .notRegistered ∧
    decodeIndex [128, 128, 128, 128, 128, 128, 16] (-9223372036854775808) = .err .eof ∧
    decodeIndex [128, 128, 128, 128, 128, 128, 16, 2, 129] 0 = .err .unexpectedEOF := by decide

/-! ### Serde -/

/-- `Serde.Encode`/`AppendEncode`: for every history of valid registrations, a successful encode writes
prefix · Confluent header of the type's current registration · payload. -/
theorem serde_encode_wire (ops : List RegOp) (hv : ∀ o ∈ ops, ValidOp o) (pre : Bytes) (ty : Nat) (payload out : Bytes)
    (he : encode (build ops) pre ty payload = .ok out) :
    ∃ t, (build ops).types.lookup ty = some t ∧ t.ty = ty ∧ t.enc = true ∧
      out = pre ++ Spec.C36.wireHeader t.id32 t.index ++ payload := by
  have hs := inv_build ops hv
  unfold encode at he
  cases hl : (build ops).types.lookup ty with
  | none => simp [hl] at he
  | some t =>
    simp only [hl] at he
    obtain ⟨_, e2, _, e4, e5, _⟩ := hs.types ty t hl
    by_cases henc : t.enc = true
    · simp only [henc, Bool.not_true, Bool.false_eq_true, if_false, Out.ok.injEq] at he
      exact ⟨t, rfl, e2, henc, by rw [← he, wire_of_appendEncode pre _ e4 e5]⟩
    · simp [henc] at he

/-- **Serde round trip.** For every history of registrations (any length, any re-registrations; schema ids < 2^32,
Go-int index entries) whose resulting registry is `Consistent` (no id registered both with and without index), whatever
`Encode` produces for a value of a registered type is decoded by `Decode`/`DecodeNew` through the decoder of the very
registration that encoded it, which is handed exactly the payload (`ErrNotRegistered` if that registration has no decoder). -/
theorem serde_roundtrip (ops : List RegOp) (hv : ∀ o ∈ ops, ValidOp o) (hc : Consistent (build ops) = true)
    (ty : Nat) (payload out : Bytes) (he : encode (build ops) [] ty payload = .ok out) :
    ∃ t, (build ops).types.lookup ty = some t ∧ t.ty = ty ∧ out = Spec.C36.wireHeader t.id32 t.index ++ payload ∧
      decodeFind (build ops) out = if t.dec then .ok (t, payload) else .err .notRegistered :=
  roundtrip (build ops) (inv_build ops hv) hc ty payload out he

/-- Non-vacuity: a consistent registry with a plain id, a protobuf id with nested paths [1] and [1,2], and a re-registration;
type 2 (registered at id 7, path [1,2]; its header is 00 00000007 04 02 04) round-trips through decoder tag 12; type 0 was
displaced at id 1 by type 4 and can no longer be encoded. -/
def exOps : List RegOp :=
  [⟨1, 0, 10, [], true, true⟩, ⟨7, 1, 11, [1], true, true⟩, ⟨7, 2, 12, [1, 2], true, true⟩, ⟨7, 3, 13, [0], true, true⟩,
   ⟨1, 4, 14, [], true, true⟩]
example : Consistent (build exOps) = true ∧
    (build exOps).types.lookup 2 = some { exists_ := true, id32 := 7, enc := true, dec := true, ty := 2, tag := 12, index := [1, 2] } ∧
    (decodeFind (build exOps) [0, 0, 0, 0, 7, 4, 2, 4, 9, 9]) =
      .ok ({ exists_ := true, id32 := 7, enc := true, dec := true, ty := 2, tag := 12, index := [1, 2] }, [9, 9]) ∧
    (build exOps).types.lookup 0 = none := by decide

/-- The excluded mixed case is a real loss: id 1 registered without index (type 0) and with index [0] (type 1) —
the plain value's payload is read as an index. (Executed on the real code by the harness and reported.) -/
example : Consistent (build [⟨1, 0, 10, [], true, true⟩, ⟨1, 1, 11, [0], true, true⟩]) = false ∧
    decodeFind (build [⟨1, 0, 10, [], true, true⟩, ⟨1, 1, 11, [0], true, true⟩]) [0, 0, 0, 0, 1, 0, 5]
      = .ok ({ exists_ := true, id32 := 1, enc := true, dec := true, ty := 1, tag := 11, index := [0] }, [5]) := by decide

/-- `Serde.Decode`/`DecodeNew` never panic, on any bytes, for every registry. -/
theorem serde_decode_no_panic (s : Reg) (b : Bytes) : decodeFind s b ≠ .panic :=
  decodeFind_no_panic s b

/-- Malformed header (fewer than five bytes or wrong magic byte) ⇒ `ErrBadHeader`, for every registry. -/
theorem serde_malformed_header_error (s : Reg) (b : Bytes) (h : b.length < 5 ∨ b.head? ≠ some 0) :
    decodeFind s b = .err .badHeader :=
  decodeFind_malformed s b h

/-- An id nobody registered ⇒ `ErrNotRegistered`, whatever follows the id. -/
theorem serde_unregistered_id_error (ops : List RegOp) (b b1 : Bytes) (id : Int)
    (hid : decodeID b = .ok (id, b1)) (hun : ∀ o ∈ ops, o.id ≠ id) :
    decodeFind (build ops) b = .err .notRegistered :=
  decodeFind_unregistered ops b b1 id hid hun

example : decodeFind (build exOps) [0, 0, 0, 0, 9, 1, 2] = .err .notRegistered ∧
    decodeFind (build exOps) [1, 0, 0, 0, 7, 0] = .err .badHeader ∧
    decodeFind (build exOps) [0, 0, 0, 0, 7, 128] = .err .unexpectedEOF := by decide

end Props.C36
