import FranzVerif.Model.C36
import FranzVerif.Spec.C36
import FranzVerif.Proof.C36
/-! C36 — property theorems: schema-registry serde header (pkg/sr ConfluentHeader) and Serde registry.

Property text: "For any registered schema ID and protobuf index path, Serde.Encode writes the Confluent wire header
(magic byte 0, big-endian ID, then the index with the single-zero shortcut) followed by the payload, and Serde.Decode or
DecodeNew of that output recovers the value through the registered decoder. Decoding arbitrary bytes with Serde or
ConfluentHeader returns an error for malformed headers or unregistered IDs and never panics."

`Model.C36` is the model of the Go code (tied to /repo by the differential run), `Spec.C36` the wire format written
independently. `A` is the allocation bound of `make([]int, l)` (any value). The clause "ConfluentHeader.DecodeIndex never
panics, for any maxLength" is FALSE of the code: see `decodeIndex_can_panic`; what holds is `decodeIndex_no_panic_partial`. -/
namespace Props.C36
open Model.C36 Proof.C36

/-! ### ConfluentHeader -/

/-- `AppendEncode` writes exactly the Confluent header: magic 0, big-endian id, index with the single-zero shortcut. -/
theorem header_encode_wire (pre : Bytes) (id : Int) (index : List Int) (h0 : 0 ≤ id) (h1 : id < 4294967296) :
    appendEncode pre id index = pre ++ Spec.C36.wireHeader id index :=
  wire_of_appendEncode pre id h0 h1 index

/-- Header round trip for every id < 2^32, every index path (any depth, any Go-int entries) and payload: `DecodeID`
recovers the id; for a non-empty path `DecodeIndex` recovers the path and leaves the payload, for every `maxLength` that
is non-positive (no bound) or at least the depth. -/
theorem header_roundtrip (A : Nat) (id : Int) (index : List Int) (payload : Bytes) (maxLength : Int)
    (h0 : 0 ≤ id) (h1 : id < 4294967296) (hI : ∀ v ∈ index, I64 v)
    (hA : index.length ≤ A) (hL : index.length < 9223372036854775808)
    (hm : maxLength ≤ 0 ∨ (index.length : Int) ≤ maxLength) :
    decodeID (appendEncode [] id index ++ payload) = .ok (id, encodeIndex index ++ payload) ∧
    (index = [] → encodeIndex index ++ payload = payload) ∧
    (index ≠ [] → decodeIndex A (encodeIndex index ++ payload) maxLength = .ok (index, payload)) := by
  refine ⟨decodeID_appendEncode id h0 h1 index payload, ?_, ?_⟩
  · intro h; subst h; simp [encodeIndex]
  · intro hne; exact decodeIndex_encoded A index maxLength payload hne hI hA hL hm

/-- Non-vacuity: id 2^32-1, path [0] (shortcut), a six-deep path with extreme entries. -/
example : decodeID ([0, 255, 255, 255, 255, 0, 7] : Bytes) = .ok (4294967295, [0, 7]) ∧
    decodeIndex 100 ([0, 7] : Bytes) 1 = .ok ([0], [7]) ∧
    decodeIndex 100 ([12, 0, 1, 126, 127, 128, 1, 255, 255, 255, 255, 255, 255, 255, 255, 255, 1, 9] : Bytes) 6
      = .ok ([0, -1, 63, -64, 64, -9223372036854775808], [9]) := by decide

/-- On every byte string `DecodeID` answers as the wire format says: never a panic, a value only for magic 0 · that id
big-endian · rest, an error only for fewer than five bytes or a wrong magic byte. -/
theorem decodeID_meets_spec (b : Bytes) : Spec.C36.decodeIDAllowed b (decodeID b) = true :=
  decodeID_spec b

/-- On every byte string and every `maxLength`, whenever `DecodeIndex` does not panic it answers as the wire format
says: the path at the front of the input and the rest (within a positive `maxLength`), an error exactly for malformed
input (truncated, overlong varint, negative count) or a path longer than a positive `maxLength`. -/
theorem decodeIndex_meets_spec_unless_panic (A : Nat) (b : Bytes) (maxLength : Int)
    (h : decodeIndex A b maxLength ≠ .panic) : Spec.C36.decodeIndexAllowed b maxLength (decodeIndex A b maxLength) = true :=
  decodeIndex_spec A b maxLength h

/-- `DecodeIndex` panics exactly when the count read from the input cannot be allocated and `maxLength` does not exclude it. -/
theorem decodeIndex_panic_iff (A : Nat) (b : Bytes) (maxLength : Int) :
    decodeIndex A b maxLength = .panic ↔
      ∃ l r, readVarint b = .ok (l, r) ∧ (A : Int) < l ∧ (maxLength ≤ 0 ∨ l ≤ maxLength) :=
  Proof.C36.decodeIndex_panic_iff A b maxLength

/-- FULL STATEMENT (false): `∀ A b maxLength, decodeIndex A b maxLength ≠ .panic`.
Proved part: no panic when `maxLength` is positive and itself allocatable. Missing: `maxLength ≤ 0`
(`make([]int, l)` runs on the unchecked count) — refuted by `decodeIndex_can_panic`. -/
theorem decodeIndex_no_panic_partial (A : Nat) (b : Bytes) (maxLength : Int) (h0 : 0 < maxLength) (h1 : maxLength ≤ A) :
    decodeIndex A b maxLength ≠ .panic := by
  intro hp
  obtain ⟨l, r, _, h2, h3⟩ := (Proof.C36.decodeIndex_panic_iff A b maxLength).mp hp
  omega

/-- … and then the answer meets the Spec (the `never panics / error iff malformed` clause for `0 < maxLength ≤ A`). -/
theorem decodeIndex_meets_spec_partial (A : Nat) (b : Bytes) (maxLength : Int) (h0 : 0 < maxLength) (h1 : maxLength ≤ A) :
    Spec.C36.decodeIndexAllowed b maxLength (decodeIndex A b maxLength) = true :=
  decodeIndex_spec A b maxLength (decodeIndex_no_panic_partial A b maxLength h0 h1)

example : (0 : Int) < 3 ∧ (3 : Int) ≤ (100 : Nat) ∧ decodeIndex 100 ([4, 2, 4, 9] : Bytes) 3 = .ok ([1, 2], [9]) := by decide

/-- The negation of the full statement, with a concrete witness: the ten bytes `80 80 80 80 80 80 80 80 80 01` are the
varint 2^62; with `maxLength = 0` (documented as "no bound") the code reaches `make([]int, 4611686018427387904)`.
`A = 2^45` is the largest `[]int` length the Go runtime accepts on any 64-bit platform (`makeslice: len out of range` above). -/
theorem decodeIndex_can_panic :
    ¬ ∀ (b : Bytes) (maxLength : Int), decodeIndex 35184372088832 b maxLength ≠ .panic := by
  intro h
  exact h [128, 128, 128, 128, 128, 128, 128, 128, 128, 1] 0 (by decide)

/-- The same for every allocation bound: the varint of `A + 1` with `maxLength ≤ 0` panics. -/
theorem decodeIndex_can_panic_any_bound (A : Nat) (hA : A < 9223372036854775807) (maxLength : Int) (hm : maxLength ≤ 0) :
    decodeIndex A (appendVarint (A + 1 : Nat)) maxLength = .panic := by
  rw [Proof.C36.decodeIndex_panic_iff]
  refine ⟨(A + 1 : Nat), [], ?_, by omega, Or.inl hm⟩
  have := readVarint_appendVarint ((A + 1 : Nat) : Int) (by unfold I64; omega) []
  simpa using this

/-! ### Serde -/

/-- `Serde.Encode`/`AppendEncode`: for every history of valid registrations, a successful encode writes
prefix · Confluent header of the type's current registration · payload. -/
theorem serde_encode_wire (A : Nat) (ops : List RegOp) (hv : ∀ o ∈ ops, ValidOp A o) (pre : Bytes) (ty : Nat) (payload out : Bytes)
    (he : encode (build ops) pre ty payload = .ok out) :
    ∃ t, (build ops).types.lookup ty = some t ∧ t.ty = ty ∧ t.enc = true ∧
      out = pre ++ Spec.C36.wireHeader t.id32 t.index ++ payload := by
  have hs := inv_build A ops hv
  unfold encode at he
  cases hl : (build ops).types.lookup ty with
  | none => simp [hl] at he
  | some t =>
    simp only [hl] at he
    obtain ⟨_, e2, _, e4, e5, _⟩ := hs.types ty t hl
    by_cases henc : t.enc = true
    · simp only [henc, Bool.not_true, Bool.false_eq_true, if_false, Out.ok.injEq] at he
      exact ⟨t, rfl, e2, henc, by rw [← he, wire_of_appendEncode pre _ e4 e5]⟩
    · simp [henc] at he

/-- **Serde round trip.** For every history of registrations (any length, any re-registrations; schema ids < 2^32,
Go-int index entries) whose resulting registry is `Consistent` (no id registered both with and without index), whatever
`Encode` produces for a value of a registered type is decoded by `Decode`/`DecodeNew` through the decoder of the very
registration that encoded it, which is handed exactly the payload (`ErrNotRegistered` if that registration has no decoder). -/
theorem serde_roundtrip (A : Nat) (ops : List RegOp) (hv : ∀ o ∈ ops, ValidOp A o) (hc : Consistent (build ops) = true)
    (ty : Nat) (payload out : Bytes) (he : encode (build ops) [] ty payload = .ok out) :
    ∃ t, (build ops).types.lookup ty = some t ∧ t.ty = ty ∧ out = Spec.C36.wireHeader t.id32 t.index ++ payload ∧
      decodeFind A (build ops) out = if t.dec then .ok (t, payload) else .err .notRegistered :=
  roundtrip A (build ops) (inv_build A ops hv) hc ty payload out he

/-- Non-vacuity: a consistent registry with a plain id, a protobuf id with nested paths [1] and [1,2], and a re-registration;
type 2 (registered at id 7, path [1,2]; its header is 00 00000007 04 02 04) round-trips through decoder tag 12; type 0 was
displaced at id 1 by type 4 and can no longer be encoded. -/
def exOps : List RegOp :=
  [⟨1, 0, 10, [], true, true⟩, ⟨7, 1, 11, [1], true, true⟩, ⟨7, 2, 12, [1, 2], true, true⟩, ⟨7, 3, 13, [0], true, true⟩,
   ⟨1, 4, 14, [], true, true⟩]
example : Consistent (build exOps) = true ∧
    (build exOps).types.lookup 2 = some { exists_ := true, id32 := 7, enc := true, dec := true, ty := 2, tag := 12, index := [1, 2] } ∧
    (decodeFind 100 (build exOps) [0, 0, 0, 0, 7, 4, 2, 4, 9, 9]) =
      .ok ({ exists_ := true, id32 := 7, enc := true, dec := true, ty := 2, tag := 12, index := [1, 2] }, [9, 9]) ∧
    (build exOps).types.lookup 0 = none := by decide

/-- The excluded mixed case is a real loss: id 1 registered without index (type 0) and with index [0] (type 1) —
the plain value's payload is read as an index. (Executed on the real code by the harness and reported.) -/
example : Consistent (build [⟨1, 0, 10, [], true, true⟩, ⟨1, 1, 11, [0], true, true⟩]) = false ∧
    decodeFind 100 (build [⟨1, 0, 10, [], true, true⟩, ⟨1, 1, 11, [0], true, true⟩]) [0, 0, 0, 0, 1, 0, 5]
      = .ok ({ exists_ := true, id32 := 1, enc := true, dec := true, ty := 1, tag := 11, index := [0] }, [5]) := by decide

/-- `Serde.Decode`/`DecodeNew` never panic, on any bytes, for every history of valid registrations (the `maxLength` they
pass to `DecodeIndex` is a positive registered depth). -/
theorem serde_decode_no_panic (A : Nat) (ops : List RegOp) (hv : ∀ o ∈ ops, ValidOp A o) (b : Bytes) :
    decodeFind A (build ops) b ≠ .panic :=
  decodeFind_no_panic A (build ops) (inv_build A ops hv) b

/-- Malformed header (fewer than five bytes or wrong magic byte) ⇒ `ErrBadHeader`, for every registry. -/
theorem serde_malformed_header_error (A : Nat) (s : Reg) (b : Bytes) (h : b.length < 5 ∨ b.head? ≠ some 0) :
    decodeFind A s b = .err .badHeader :=
  decodeFind_malformed A s b h

/-- An id nobody registered ⇒ `ErrNotRegistered`, whatever follows the id. -/
theorem serde_unregistered_id_error (A : Nat) (ops : List RegOp) (b b1 : Bytes) (id : Int)
    (hid : decodeID b = .ok (id, b1)) (hun : ∀ o ∈ ops, o.id ≠ id) :
    decodeFind A (build ops) b = .err .notRegistered :=
  decodeFind_unregistered A ops b b1 id hid hun

example : decodeFind 100 (build exOps) [0, 0, 0, 0, 9, 1, 2] = .err .notRegistered ∧
    decodeFind 100 (build exOps) [1, 0, 0, 0, 7, 0] = .err .badHeader ∧
    decodeFind 100 (build exOps) [0, 0, 0, 0, 7, 128] = .err .unexpectedEOF := by decide

end Props.C36
