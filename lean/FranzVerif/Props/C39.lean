import FranzVerif.Model.Select
import FranzVerif.Proof.Select
/-! C39 — a direct consumer consumes exactly the partitions it selects. Theorems over ALL accepted histories of the
`sel` monitor `Model.Select` (any interleaving of topic creation / growth / deletion / RE-CREATION, AddConsumeTopics,
AddConsumePartitions, RemoveConsumePartitions, purges, producer rounds, polls and metadata refreshes); the tie is the
history correspondence of the `sel` scenarios (real kgo direct consumer × real kfake). "Selected at that moment" is
`selected c (replay c h₁)`: the selection rule evaluated on the configuration and the calls of the history so far.
A topic deleted and created again under the same name is a new INCARNATION (`created t g n …`); acknowledged and returned
records carry the incarnation they were produced to. -/
namespace Props.C39
open Model.Select Proof.Select

/-- Every returned record belongs to a partition that is selected at that moment. -/
theorem returned_only_from_selected (c : Cfg) (h₁ h₂ : List Ev) (s : St) (t g p off id : Nat)
    (hacc : run c {} (h₁ ++ Ev.returned t g p off id :: h₂) = some s) : selected c (replay c h₁) t g p = true := by
  have hchk := check_of_run hacc
  simp only [check] at hchk
  split at hchk
  · cases hchk
  · rename_i hsel
    have hsel' : selected c (List.foldl (apply c) {} h₁) t g p = true := by simpa using hsel
    exact hsel'

/-- Internal topics only when named explicitly (likewise excluded and non-matching topics): under regex selection every
returned record is of a topic that was created non-internal, matches an include pattern and no exclude pattern. -/
theorem regex_returns_only_wanted_topics (c : Cfg) (hc : c.regex = true) (h₁ h₂ : List Ev) (s : St) (t g p off id : Nat)
    (hacc : run c {} (h₁ ++ Ev.returned t g p off id :: h₂) = some s) :
    ∃ tp, topicOf (replay c h₁) t = some tp ∧ tp.incl = true ∧ tp.excluded = false ∧ tp.internal = false :=
  ((selected_regex hc _ t g p).1 (returned_only_from_selected c h₁ h₂ s t g p off id hacc)).1

/-- After RemoveConsumePartitions returned, no further record of the removed partition is returned unless the
partition is selected again by a later AddConsumePartitions of it or AddConsumeTopics of its topic (named selection;
under regex selection the call is a documented no-op). -/
theorem nothing_after_remove (c : Cfg) (hc : c.regex = false) (h₁ h₂ h₃ : List Ev) (s : St) (t g p off id : Nat)
    (hacc : run c {} (h₁ ++ Ev.removePart t p :: (h₂ ++ Ev.returned t g p off id :: h₃)) = some s) :
    ∃ e ∈ h₂, Reselects t p e := by
  apply Classical.byContradiction
  intro hno
  have hall : ∀ e ∈ h₂, ¬ Reselects t p e := fun e he hr => hno ⟨e, he, hr⟩
  have hacc' : run c {} ((h₁ ++ Ev.removePart t p :: h₂) ++ Ev.returned t g p off id :: h₃) = some s := by
    simpa [List.append_assoc] using hacc
  have hsel := (selected_named hc _ t g p).1 (returned_only_from_selected c _ h₃ s t g p off id hacc')
  have hrep : replay c (h₁ ++ Ev.removePart t p :: h₂) = h₂.foldl (apply c) (apply c (replay c h₁) (.removePart t p)) := by
    simp [replay, List.foldl_append]
  rw [hrep] at hsel
  exact unselected_preserved_list hc h₂ (unselected_after_remove hc _ t p) hall hsel

/-- After PurgeTopicsFromConsuming returned, no further record of any partition of the purged topic is returned unless
it is selected again by a later call (named selection). -/
theorem nothing_after_purge_named (c : Cfg) (hc : c.regex = false) (h₁ h₂ h₃ : List Ev) (s : St) (t g p off id : Nat)
    (hacc : run c {} (h₁ ++ Ev.purged t :: (h₂ ++ Ev.returned t g p off id :: h₃)) = some s) :
    ∃ e ∈ h₂, Reselects t p e := by
  apply Classical.byContradiction
  intro hno
  have hall : ∀ e ∈ h₂, ¬ Reselects t p e := fun e he hr => hno ⟨e, he, hr⟩
  have hacc' : run c {} ((h₁ ++ Ev.purged t :: h₂) ++ Ev.returned t g p off id :: h₃) = some s := by
    simpa [List.append_assoc] using hacc
  have hsel := (selected_named hc _ t g p).1 (returned_only_from_selected c _ h₃ s t g p off id hacc')
  have hrep : replay c (h₁ ++ Ev.purged t :: h₂) = h₂.foldl (apply c) (apply c (replay c h₁) (.purged t)) := by
    simp [replay, List.foldl_append]
  rw [hrep] at hsel
  exact unselected_preserved_list hc h₂ (unselected_after_purge hc _ t p) hall hsel

/-- Regex selection, the documented exception stated precisely: after PurgeTopicsFromConsuming of a topic the client
knows, a record of that topic — of any incarnation while the topic is alive at the purge, of the deleted incarnation
otherwise — is returned again only after a metadata refresh (the re-discovery) … -/
theorem regex_purge_needs_refresh (c : Cfg) (hc : c.regex = true) (h₁ h₂ h₃ : List Ev) (s : St) (t g p off id : Nat)
    (tp : Topic) (hknown : topicOf (replay c h₁) t = some tp) (hg : tp.alive = true ∨ g = tp.gen)
    (hacc : run c {} (h₁ ++ Ev.purged t :: (h₂ ++ Ev.returned t g p off id :: h₃)) = some s) :
    Ev.refresh ∈ h₂ := by
  apply Classical.byContradiction
  intro hno
  have hall : ∀ e ∈ h₂, e ≠ Ev.refresh := fun e he heq => hno (heq ▸ he)
  have hacc' : run c {} ((h₁ ++ Ev.purged t :: h₂) ++ Ev.returned t g p off id :: h₃) = some s := by
    simpa [List.append_assoc] using hacc
  have hsel := (selected_regex hc _ t g p).1 (returned_only_from_selected c _ h₃ s t g p off id hacc')
  have hrep : replay c (h₁ ++ Ev.purged t :: h₂) = h₂.foldl (apply c) (apply c (replay c h₁) (.purged t)) := by
    simp [replay, List.foldl_append]
  rw [hrep] at hsel
  have hout : t ∈ (apply c (replay c h₁) (.purged t)).waiting ∨ (t, g) ∈ (apply c (replay c h₁) (.purged t)).gone := by
    simp only [apply, hc, ↓reduceIte, hknown]
    cases ha : tp.alive with
    | true => exact Or.inl (by simp)
    | false =>
      rcases hg with hg | hg
      · simp [ha] at hg
      · subst hg; exact Or.inr (by simp)
  rcases out_preserved_list hc h₂ hout hall with h | h
  · exact hsel.2.1 h
  · exact hsel.2.2 h

/-- … and never again when the topic had been deleted before the purge: nothing of the deleted incarnation comes back,
whatever happens afterwards — also when the topic is created again (the new incarnation is another topic). -/
theorem regex_purge_of_deleted_topic_is_final (c : Cfg) (hc : c.regex = true) (h₁ h₂ h₃ : List Ev) (s : St) (t p off id : Nat)
    (tp : Topic) (hknown : topicOf (replay c h₁) t = some tp) (hdead : tp.alive = false)
    (hacc : run c {} (h₁ ++ Ev.purged t :: (h₂ ++ Ev.returned t tp.gen p off id :: h₃)) = some s) : False := by
  have hacc' : run c {} ((h₁ ++ Ev.purged t :: h₂) ++ Ev.returned t tp.gen p off id :: h₃) = some s := by
    simpa [List.append_assoc] using hacc
  have hsel := (selected_regex hc _ t tp.gen p).1 (returned_only_from_selected c _ h₃ s t tp.gen p off id hacc')
  have hrep : replay c (h₁ ++ Ev.purged t :: h₂) = h₂.foldl (apply c) (apply c (replay c h₁) (.purged t)) := by
    simp [replay, List.foldl_append]
  rw [hrep] at hsel
  have hg : (t, tp.gen) ∈ (apply c (replay c h₁) (.purged t)).gone := by
    simp only [apply, hc, ↓reduceIte, hknown, hdead, Bool.false_eq_true]
    exact List.mem_cons_self
  exact hsel.2.2 (gone_preserved_list hc h₂ hg)

/-- Topic re-creation, safety: once the client has returned a record of incarnation `g'` of a topic, no record of an
older incarnation of that topic (a deleted one) is returned any more. -/
theorem nothing_of_a_deleted_incarnation_after_the_new_one (c : Cfg) (h₁ h₂ h₃ : List Ev) (s : St)
    (t g' p' off' id' g p off id : Nat)
    (hacc : run c {} (h₁ ++ Ev.returned t g' p' off' id' :: (h₂ ++ Ev.returned t g p off id :: h₃)) = some s) :
    g' ≤ g := by
  have hacc' : run c {} ((h₁ ++ Ev.returned t g' p' off' id' :: h₂) ++ Ev.returned t g p off id :: h₃) = some s := by
    simpa [List.append_assoc] using hacc
  have hchk := check_of_run hacc'
  change check c (replay c (h₁ ++ Ev.returned t g' p' off' id' :: h₂)) (Ev.returned t g p off id) = none at hchk
  simp only [check] at hchk
  split at hchk
  · cases hchk
  · split at hchk
    · cases hchk
    · rename_i hnew
      have hnew' := Bool.eq_false_iff.2 hnew
      simp only [newerReturned, replay_ret] at hnew'
      rw [List.any_eq_false] at hnew'
      have hm : (t, g', p', off', id') ∈ returnedOf (h₁ ++ Ev.returned t g' p' off' id' :: h₂) :=
        mem_returnedOf.2 (by simp)
      have := hnew' _ hm
      simp only [BEq.rfl, Bool.true_and, decide_eq_true_eq] at this
      omega

/-- Eventual coverage, judged at the quiescent end of a complete scenario: every acknowledged record of a partition
that exists and is selected at the end — of the CURRENT incarnation of its topic — was returned; including partitions of
matching topics created later, partitions added to existing topics and topics that were deleted and created again
(they exist and are selected at the end like any other; a record acknowledged by a deleted incarnation is not owed). -/
theorem selected_partitions_covered_at_quiescence (c : Cfg) (h : List Ev) (s : St)
    (hacc : run c {} (h ++ [Ev.quiesce]) = some s) (hcomplete : isIncomplete h = false)
    (id t g p off : Nat) (hp : Ev.produced id t g p off ∈ h) (hcur : g = genOf (replay c h) t)
    (hexists : p < aliveParts (replay c h) t) (hsel : selected c (replay c h) t g p = true) :
    ∃ off', Ev.returned t g p off' id ∈ h := by
  have hchk := check_of_run (h₂ := []) hacc
  change check c (replay c h) Ev.quiesce = none at hchk
  simp only [check, replay_incomplete, hcomplete, Bool.false_eq_true, ↓reduceIte] at hchk
  have hunc : uncovered c (replay c h) = [] := by
    split at hchk
    · assumption
    · split at hchk <;> cases hchk
  have hm : (id, t, g, p, off) ∈ (replay c h).prod := by rw [replay_prod]; exact mem_producedOf.2 hp
  have hnot : (id, t, g, p, off) ∉ uncovered c (replay c h) := by rw [hunc]; simp
  have hany : ((replay c h).ret.any (fun r => r.2.2.2.2 == id && r.1 == t && r.2.1 == g && r.2.2.1 == p)) = true := by
    apply Classical.byContradiction
    intro hn
    apply hnot
    simp only [uncovered, List.mem_filter, hm, true_and]
    have hn' := Bool.eq_false_iff.2 hn
    simp only [hsel, hexists, ← hcur, hn', BEq.rfl, decide_true, Bool.and_self, Bool.not_false]
  rw [List.any_eq_true] at hany
  obtain ⟨r, hr, hrr⟩ := hany
  obtain ⟨t', g', p', o', i'⟩ := r
  simp only [Bool.and_eq_true, beq_iff_eq] at hrr
  obtain ⟨⟨⟨h1, h2⟩, h3⟩, h4⟩ := hrr
  subst h1; subst h2; subst h3; subst h4
  rw [replay_ret] at hr
  exact ⟨o', mem_returnedOf.1 hr⟩

/-! ### non-vacuity -/

/-- named selection: ConsumeTopics(0); topic 0 with 2 partitions, a record of each is returned; partition 1 is removed —
a record produced afterwards to partition 1 is not returned, one to partition 0 is; the topic grows to 3 partitions and
the record of the new partition 2 is returned; complete and accepted to the quiescent end. -/
def exNamed : List Ev :=
  [.selTopic 0, .created 0 0 2 false false false, .refresh, .produced 1 0 0 0 0, .produced 2 0 0 1 0,
   .returned 0 0 0 0 1, .returned 0 0 1 0 2, .removePart 0 1, .produced 3 0 0 0 1, .produced 4 0 0 1 1, .returned 0 0 0 1 3,
   .grown 0 3, .refresh, .produced 5 0 0 2 0, .returned 0 0 2 0 5]

example : accepts { regex := false } (exNamed ++ [.quiesce]) = true := by decide
example : isIncomplete exNamed = false := by decide
example : selected { regex := false } (replay { regex := false } exNamed) 0 0 2 = true ∧
    aliveParts (replay { regex := false } exNamed) 0 = 3 ∧ genOf (replay { regex := false } exNamed) 0 = 0 := by decide
/-- the monitor refuses a record of the removed partition, … -/
example : accepts { regex := false } (exNamed ++ [.returned 0 0 1 1 4]) = false := by decide
/-- … accepts it once the partition is added again, … -/
example : accepts { regex := false } (exNamed ++ [.addPart 0 1, .returned 0 0 1 1 4]) = true := by decide
/-- … and refuses the quiescent end when the grown partition was never consumed. -/
example : accepts { regex := false } (exNamed.dropLast ++ [.quiesce]) = false := by decide

/-- regex selection: topic 1 matches, topic 6 is internal and matches, topic 2 matches but is excluded; topic 1 is purged
and re-discovered at the next refresh. -/
def exRegex : List Ev :=
  [.created 1 0 1 false true false, .created 6 0 1 true true false, .created 2 0 1 false true true, .refresh,
   .produced 1 1 0 0 0, .produced 2 6 0 0 0, .produced 3 2 0 0 0, .returned 1 0 0 0 1, .purged 1, .refresh, .returned 1 0 0 0 1]

example : accepts { regex := true } (exRegex ++ [.quiesce]) = true := by decide
example : (topicOf (replay { regex := true } (exRegex.take 8)) 1).isSome = true := by decide
/-- refused: a record of the purged topic before the refresh, of the internal topic, of the excluded topic -/
example : accepts { regex := true } (exRegex.take 9 ++ [.returned 1 0 0 0 1]) = false := by decide
example : accepts { regex := true } (exRegex ++ [.returned 6 0 0 0 2]) = false := by decide
example : accepts { regex := true } (exRegex ++ [.returned 2 0 0 0 3]) = false := by decide
/-- a topic deleted before its purge never comes back -/
example : accepts { regex := true } (exRegex ++ [.deleted 1, .purged 1, .refresh, .returned 1 0 0 0 1]) = false := by decide

/-! #### deletion and re-creation -/

/-- regex selection, re-creation OUTSIDE the window: topic 1 (2 partitions) is consumed, deleted, the client sees it
missing in two metadata responses (and purges it by itself: not an event), it is created again with 3 partitions
(incarnation 1), re-discovered, and a record of every partition of the new incarnation is returned. Record 2 of the old
incarnation was acknowledged but never returned: not owed. -/
def exRecreate : List Ev :=
  [.created 1 0 2 false true false, .refresh, .produced 1 1 0 0 0, .produced 2 1 0 1 0, .returned 1 0 0 0 1,
   .deleted 1, .refresh, .refresh, .created 1 1 3 false true false, .refresh,
   .produced 3 1 1 0 0, .produced 4 1 1 1 0, .produced 5 1 1 2 0,
   .returned 1 1 0 0 3, .returned 1 1 1 0 4, .returned 1 1 2 0 5]

example : accepts { regex := true } (exRecreate ++ [.quiesce]) = true := by decide
example : isIncomplete exRecreate = false := by decide
/-- the hypotheses of the coverage theorem hold for the new incarnation (and not for the deleted one) -/
example : genOf (replay { regex := true } exRecreate) 1 = 1 ∧ aliveParts (replay { regex := true } exRecreate) 1 = 3 ∧
    selected { regex := true } (replay { regex := true } exRecreate) 1 1 2 = true := by decide
/-- the recreated topic never consumed (what a client does that keeps the cursors of the old topic ID): refused, … -/
example : check { regex := true } (replay { regex := true } (exRecreate.take 13)) .quiesce
    = some "C39.recreated-topic-never-consumed" := by decide
/-- … also when only the new third partition is missing; -/
example : accepts { regex := true } (exRecreate.dropLast ++ [.quiesce]) = false := by decide
/-- a record of the deleted incarnation may still come out before the first record of the new one, not after it -/
example : accepts { regex := true } (exRecreate.take 13 ++ [.returned 1 0 1 0 2, .returned 1 1 0 0 3]) = true := by decide
example : check { regex := true } (replay { regex := true } exRecreate) (.returned 1 0 1 0 2)
    = some "C39.record-of-deleted-incarnation-returned" := by decide

/-- regex selection, re-creation INSIDE the window: the topic is created again before the client considers it deleted
(one refresh without it, or none at all); the monitor owes the same coverage. The topic is purged by the user while it
is deleted (that incarnation is gone for good) — the new incarnation is selected all the same. -/
def exRecreateInside : List Ev :=
  [.created 1 0 1 false true false, .refresh, .produced 1 1 0 0 0, .returned 1 0 0 0 1,
   .deleted 1, .purged 1, .refresh, .created 1 1 2 false true false, .refresh, .produced 2 1 1 0 0, .produced 3 1 1 1 0,
   .returned 1 1 0 0 2, .returned 1 1 1 0 3]

example : accepts { regex := true } (exRecreateInside ++ [.quiesce]) = true := by decide
example : accepts { regex := true } (exRecreateInside.take 11 ++ [.quiesce]) = false := by decide
/-- the purged deleted incarnation never comes back, the new one does -/
example : accepts { regex := true } (exRecreateInside.take 11 ++ [.returned 1 0 0 0 1]) = false := by decide
/-- no refresh at all between deletion and re-creation -/
example : accepts { regex := true }
    [.created 1 0 1 false true false, .refresh, .deleted 1, .created 1 1 1 false true false, .produced 1 1 1 0 0, .refresh, .quiesce] = false := by decide

/-- named selection: ConsumeTopics(0); the topic is deleted and created again; the user purges it and adds it again (the
documented recovery for the UNKNOWN_TOPIC_ID stall) and the new incarnation is consumed. -/
def exRecreateNamed : List Ev :=
  [.selTopic 0, .created 0 0 1 false false false, .refresh, .produced 1 0 0 0 0, .returned 0 0 0 0 1,
   .deleted 0, .refresh, .created 0 1 2 false false false, .purged 0, .addTopic 0, .refresh,
   .produced 2 0 1 0 0, .produced 3 0 1 1 0, .returned 0 1 0 0 2, .returned 0 1 1 0 3]

example : accepts { regex := false } (exRecreateNamed ++ [.quiesce]) = true := by decide
example : accepts { regex := false } (exRecreateNamed.dropLast ++ [.quiesce]) = false := by decide
/-- an incarnation is created only after the previous one was deleted, and numbered consecutively -/
example : accepts { regex := false } [.created 0 0 1 false false false, .created 0 1 1 false false false] = false := by decide
example : accepts { regex := false } [.created 0 0 1 false false false, .deleted 0, .created 0 2 1 false false false] = false := by decide

end Props.C39
