import FranzVerif.Model.Select
import FranzVerif.Proof.Select
/-! C39 — a direct consumer consumes exactly the partitions it selects. Theorems over ALL accepted histories of the
`sel` monitor `Model.Select` (any interleaving of topic creation / growth / deletion, AddConsumeTopics,
AddConsumePartitions, RemoveConsumePartitions, purges, producer rounds, polls and metadata refreshes); the tie is the
history correspondence of the `sel` scenarios (real kgo direct consumer × real kfake). "Selected at that moment" is
`selected c (replay c h₁)`: the selection rule evaluated on the configuration and the calls of the history so far. -/
namespace Props.C39
open Model.Select Proof.Select

/-- Every returned record belongs to a partition that is selected at that moment. -/
theorem returned_only_from_selected (c : Cfg) (h₁ h₂ : List Ev) (s : St) (t p off id : Nat)
    (hacc : run c {} (h₁ ++ Ev.returned t p off id :: h₂) = some s) : selected c (replay c h₁) t p = true := by
  have hchk := check_of_run hacc
  simp only [check] at hchk
  split at hchk
  · assumption
  · cases hchk

/-- Internal topics only when named explicitly (likewise excluded and non-matching topics): under regex selection every
returned record is of a topic that was created non-internal, matches an include pattern and no exclude pattern. -/
theorem regex_returns_only_wanted_topics (c : Cfg) (hc : c.regex = true) (h₁ h₂ : List Ev) (s : St) (t p off id : Nat)
    (hacc : run c {} (h₁ ++ Ev.returned t p off id :: h₂) = some s) :
    ∃ tp, topicOf (replay c h₁) t = some tp ∧ tp.incl = true ∧ tp.excluded = false ∧ tp.internal = false :=
  ((selected_regex hc _ t p).1 (returned_only_from_selected c h₁ h₂ s t p off id hacc)).1

/-- After RemoveConsumePartitions returned, no further record of the removed partition is returned unless the
partition is selected again by a later AddConsumePartitions of it or AddConsumeTopics of its topic (named selection;
under regex selection the call is a documented no-op). -/
theorem nothing_after_remove (c : Cfg) (hc : c.regex = false) (h₁ h₂ h₃ : List Ev) (s : St) (t p off id : Nat)
    (hacc : run c {} (h₁ ++ Ev.removePart t p :: (h₂ ++ Ev.returned t p off id :: h₃)) = some s) :
    ∃ e ∈ h₂, Reselects t p e := by
  apply Classical.byContradiction
  intro hno
  have hall : ∀ e ∈ h₂, ¬ Reselects t p e := fun e he hr => hno ⟨e, he, hr⟩
  have hacc' : run c {} ((h₁ ++ Ev.removePart t p :: h₂) ++ Ev.returned t p off id :: h₃) = some s := by
    simpa [List.append_assoc] using hacc
  have hsel := (selected_named hc _ t p).1 (returned_only_from_selected c _ h₃ s t p off id hacc')
  have hrep : replay c (h₁ ++ Ev.removePart t p :: h₂) = h₂.foldl (apply c) (apply c (replay c h₁) (.removePart t p)) := by
    simp [replay, List.foldl_append]
  rw [hrep] at hsel
  exact unselected_preserved_list hc h₂ (unselected_after_remove hc _ t p) hall hsel

/-- After PurgeTopicsFromConsuming returned, no further record of any partition of the purged topic is returned unless
it is selected again by a later call (named selection). -/
theorem nothing_after_purge_named (c : Cfg) (hc : c.regex = false) (h₁ h₂ h₃ : List Ev) (s : St) (t p off id : Nat)
    (hacc : run c {} (h₁ ++ Ev.purged t :: (h₂ ++ Ev.returned t p off id :: h₃)) = some s) :
    ∃ e ∈ h₂, Reselects t p e := by
  apply Classical.byContradiction
  intro hno
  have hall : ∀ e ∈ h₂, ¬ Reselects t p e := fun e he hr => hno ⟨e, he, hr⟩
  have hacc' : run c {} ((h₁ ++ Ev.purged t :: h₂) ++ Ev.returned t p off id :: h₃) = some s := by
    simpa [List.append_assoc] using hacc
  have hsel := (selected_named hc _ t p).1 (returned_only_from_selected c _ h₃ s t p off id hacc')
  have hrep : replay c (h₁ ++ Ev.purged t :: h₂) = h₂.foldl (apply c) (apply c (replay c h₁) (.purged t)) := by
    simp [replay, List.foldl_append]
  rw [hrep] at hsel
  exact unselected_preserved_list hc h₂ (unselected_after_purge hc _ t p) hall hsel

/-- Regex selection, the documented exception stated precisely: after PurgeTopicsFromConsuming of a topic the client
knows, a record of that topic is returned again only after a metadata refresh (the re-discovery) … -/
theorem regex_purge_needs_refresh (c : Cfg) (hc : c.regex = true) (h₁ h₂ h₃ : List Ev) (s : St) (t p off id : Nat)
    (hknown : (topicOf (replay c h₁) t).isSome = true)
    (hacc : run c {} (h₁ ++ Ev.purged t :: (h₂ ++ Ev.returned t p off id :: h₃)) = some s) :
    Ev.refresh ∈ h₂ := by
  apply Classical.byContradiction
  intro hno
  have hall : ∀ e ∈ h₂, e ≠ Ev.refresh := fun e he heq => hno (heq ▸ he)
  have hacc' : run c {} ((h₁ ++ Ev.purged t :: h₂) ++ Ev.returned t p off id :: h₃) = some s := by
    simpa [List.append_assoc] using hacc
  have hsel := (selected_regex hc _ t p).1 (returned_only_from_selected c _ h₃ s t p off id hacc')
  have hrep : replay c (h₁ ++ Ev.purged t :: h₂) = h₂.foldl (apply c) (apply c (replay c h₁) (.purged t)) := by
    simp [replay, List.foldl_append]
  rw [hrep] at hsel
  have hout : t ∈ (apply c (replay c h₁) (.purged t)).waiting ∨ t ∈ (apply c (replay c h₁) (.purged t)).gone := by
    simp only [apply, hc, ↓reduceIte]
    cases htp : topicOf (replay c h₁) t with
    | none => simp [htp] at hknown
    | some tp =>
      simp only
      split
      · exact Or.inl List.mem_cons_self
      · exact Or.inr List.mem_cons_self
  rcases out_preserved_list hc h₂ hout hall with h | h
  · exact hsel.2.1 h
  · exact hsel.2.2 h

/-- … and never again when the topic had been deleted before the purge (there is nothing left to re-discover). -/
theorem regex_purge_of_deleted_topic_is_final (c : Cfg) (hc : c.regex = true) (h₁ h₂ h₃ : List Ev) (s : St) (t p off id : Nat)
    (tp : Topic) (hknown : topicOf (replay c h₁) t = some tp) (hdead : tp.alive = false)
    (hacc : run c {} (h₁ ++ Ev.purged t :: (h₂ ++ Ev.returned t p off id :: h₃)) = some s) : False := by
  have hacc' : run c {} ((h₁ ++ Ev.purged t :: h₂) ++ Ev.returned t p off id :: h₃) = some s := by
    simpa [List.append_assoc] using hacc
  have hsel := (selected_regex hc _ t p).1 (returned_only_from_selected c _ h₃ s t p off id hacc')
  have hrep : replay c (h₁ ++ Ev.purged t :: h₂) = h₂.foldl (apply c) (apply c (replay c h₁) (.purged t)) := by
    simp [replay, List.foldl_append]
  rw [hrep] at hsel
  have hg : t ∈ (apply c (replay c h₁) (.purged t)).gone := by
    simp only [apply, hc, ↓reduceIte, hknown, hdead, Bool.false_eq_true]
    exact List.mem_cons_self
  exact hsel.2.2 (gone_preserved_list hc h₂ hg)

/-- Eventual coverage, judged at the quiescent end of a complete scenario: every acknowledged record of a partition
that exists and is selected at the end was returned — including partitions of matching topics created later and
partitions added to existing topics (they exist and are selected at the end like any other). -/
theorem selected_partitions_covered_at_quiescence (c : Cfg) (h : List Ev) (s : St)
    (hacc : run c {} (h ++ [Ev.quiesce]) = some s) (hcomplete : isIncomplete h = false)
    (id t p off : Nat) (hp : Ev.produced id t p off ∈ h)
    (hexists : p < aliveParts (replay c h) t) (hsel : selected c (replay c h) t p = true) :
    ∃ off', Ev.returned t p off' id ∈ h := by
  have hchk := check_of_run (h₂ := []) hacc
  change check c (replay c h) Ev.quiesce = none at hchk
  simp only [check, replay_incomplete, hcomplete, Bool.false_eq_true, ↓reduceIte] at hchk
  split at hchk
  · cases hchk
  · rename_i hany
    have hany' := Bool.eq_false_iff.2 hany
    rw [List.any_eq_false] at hany'
    have hm : (id, t, p, off) ∈ (replay c h).prod := by rw [replay_prod]; exact mem_producedOf.2 hp
    have := hany' _ hm
    simp only [hexists, hsel, decide_true, Bool.true_and, Bool.not_eq_true, Bool.not_eq_false', List.any_eq_true] at this
    obtain ⟨r, hr, hrr⟩ := this
    obtain ⟨t', p', o', i'⟩ := r
    simp only [Bool.and_eq_true, beq_iff_eq] at hrr
    obtain ⟨⟨h1, h2⟩, h3⟩ := hrr
    subst h1; subst h2; subst h3
    rw [replay_ret] at hr
    exact ⟨o', mem_returnedOf.1 hr⟩

/-! ### non-vacuity -/

/-- named selection: ConsumeTopics(0); topic 0 with 2 partitions, a record of each is returned; partition 1 is removed —
a record produced afterwards to partition 1 is not returned, one to partition 0 is; the topic grows to 3 partitions and
the record of the new partition 2 is returned; complete and accepted to the quiescent end. -/
def exNamed : List Ev :=
  [.selTopic 0, .created 0 2 false false false, .refresh, .produced 1 0 0 0, .produced 2 0 1 0,
   .returned 0 0 0 1, .returned 0 1 0 2, .removePart 0 1, .produced 3 0 0 1, .produced 4 0 1 1, .returned 0 0 1 3,
   .grown 0 3, .refresh, .produced 5 0 2 0, .returned 0 2 0 5]

example : accepts { regex := false } (exNamed ++ [.quiesce]) = true := by decide
example : isIncomplete exNamed = false := by decide
example : selected { regex := false } (replay { regex := false } exNamed) 0 2 = true ∧
    aliveParts (replay { regex := false } exNamed) 0 = 3 := by decide
/-- the monitor refuses a record of the removed partition, … -/
example : accepts { regex := false } (exNamed ++ [.returned 0 1 1 4]) = false := by decide
/-- … accepts it once the partition is added again, … -/
example : accepts { regex := false } (exNamed ++ [.addPart 0 1, .returned 0 1 1 4]) = true := by decide
/-- … and refuses the quiescent end when the grown partition was never consumed. -/
example : accepts { regex := false } (exNamed.dropLast ++ [.quiesce]) = false := by decide

/-- regex selection: topic 1 matches, topic 6 is internal and matches, topic 2 matches but is excluded; topic 1 is purged
and re-discovered at the next refresh. -/
def exRegex : List Ev :=
  [.created 1 1 false true false, .created 6 1 true true false, .created 2 1 false true true, .refresh,
   .produced 1 1 0 0, .produced 2 6 0 0, .produced 3 2 0 0, .returned 1 0 0 1, .purged 1, .refresh, .returned 1 0 0 1]

example : accepts { regex := true } (exRegex ++ [.quiesce]) = true := by decide
example : (topicOf (replay { regex := true } (exRegex.take 8)) 1).isSome = true := by decide
/-- refused: a record of the purged topic before the refresh, of the internal topic, of the excluded topic -/
example : accepts { regex := true } (exRegex.take 9 ++ [.returned 1 0 0 1]) = false := by decide
example : accepts { regex := true } (exRegex ++ [.returned 6 0 0 2]) = false := by decide
example : accepts { regex := true } (exRegex ++ [.returned 2 0 0 3]) = false := by decide
/-- a topic deleted before its purge never comes back -/
example : accepts { regex := true } (exRegex ++ [.deleted 1, .purged 1, .refresh, .returned 1 0 0 1]) = false := by decide

end Props.C39
