import FranzVerif.Model.C23
import FranzVerif.Proof.C23
/-! C23 — Sharded requests account for every requested item once.

Property text: "For every request type the client splits across brokers, each requested topic-partition, group or
transactional ID appears in exactly one returned shard, either in a broker's response or in an error shard. The merged
response from Request contains each requested item exactly once, for any cluster layout, leader and coordinator
placement, and retriable errors during the request."

The theorems are about `Model.C23.issue` (the recursion of `handleShardedReq`) instantiated by a `Kind` (the per-sharder
placement). They hold for every kind, every layout, every list of requested items, every retry budget and every
`oracle` (= which attempts fail retriably, which layout the client believes in afterwards, which renewed shardings
fail wholesale). The tie to the Go code is the `shard` scenario correspondence (real kgo × real kfake), where the same
statements are evaluated as the executable Spec (`Model.C23.spec*`) on the real shards.

Readings fixed here, as the code behaves (and as the driver checks on the real code):
* "exactly once" for a requested item that the caller listed n times means n times: the sharders keep duplicates
  (`leaves_are_a_permutation_of_the_request`, `each_item_as_often_as_requested`), all copies in one shard
  (`no_item_in_two_shards`, needs that no destination is of the one-shard-per-occurrence kind, or no duplicates).
  FindCoordinator alone collapses duplicated keys before sharding (`findCoordinator_each_key_once`).
* the merged-response clause is stated under the explicit hypothesis that every item is mappable
  (`merged_is_the_request_when_all_mappable`); without it `Request` returns the merge of the successful shards together
  with the first shard error (`merge_preserves_the_multiset`, `merge_reports_an_error_iff_some_error_shard`); the
  excluded case is executed by the harness and reported in the evidence distribution. -/
namespace Props.C23
open Model.C23 Proof.C23 List

set_option linter.unusedSectionVars false
variable {ι δ Λ : Type} [DecidableEq δ]

/-- Per-sharder obligation (the partition lemma), for every placement function: the buckets built by `shard` hold
exactly the requested items (as a multiset), every bucket is non-empty and holds only items whose destination it is —
in particular unmappable items (those whose destination is an error) are in error buckets and nothing else is —
and two buckets have different destinations unless the destination is of the one-bucket-per-occurrence kind. -/
theorem sharder_partition_lemma (solo : δ → Bool) (place : ι → δ) (items : List ι) :
    allItems (shardBy solo place items) ~ items ∧
    (∀ s ∈ shardBy solo place items, s.items ≠ [] ∧ ∀ y ∈ s.items, place y = s.dest) ∧
    (shardBy solo place items).Pairwise (fun a b => a.dest ≠ b.dest ∨ solo a.dest = true) :=
  ⟨shardBy_perm solo place items, shardBy_consistent solo place items, shardBy_distinct solo place items⟩

/-- Unmappable items go to error shards, mappable ones never: a bucket is an error bucket iff all (iff some) of its
items are unmappable under the layout used. -/
theorem error_buckets_hold_exactly_the_unmappable_items (solo : δ → Bool) (place : ι → δ) (isErr : δ → Bool) (items : List ι) :
    ∀ s ∈ shardBy solo place items, ∀ y ∈ s.items, isErr (place y) = isErr s.dest := by
  intro s hs y hy
  rw [(shardBy_consistent solo place items s hs).2 y hy]

/-- Clause 1, main theorem: the items of the returned shards (leaves of the split / issue / re-split recursion) are a
permutation of the requested items: nothing dropped, nothing duplicated, nothing invented — for any layout, item list,
retry budget and sequence of retriable failures / layout changes. -/
theorem leaves_are_a_permutation_of_the_request (k : Kind ι δ Λ) (oracle : Nat → δ → List ι → Choice Λ δ)
    (fuel tries : Nat) (lay : Λ) (items : List ι) :
    allItems (issue k oracle fuel tries lay items) ~ items :=
  issue_perm k oracle fuel tries lay items

/-- The same as counts: every item occurs in the returned shards exactly as often as it was requested. -/
theorem each_item_as_often_as_requested [BEq ι] [LawfulBEq ι] (k : Kind ι δ Λ) (oracle : Nat → δ → List ι → Choice Λ δ)
    (fuel tries : Nat) (lay : Λ) (items : List ι) (x : ι) :
    (allItems (issue k oracle fuel tries lay items)).count x = items.count x :=
  (issue_perm k oracle fuel tries lay items).count_eq x

/-- No item is in two returned shards (all copies of a duplicated item stay together), provided the request has no
duplicates or no destination is of the one-shard-per-occurrence kind (`unkerrs`: coordinator load errors that are not
Kafka error codes get one error shard per requested occurrence, so a duplicated group is then in two error shards). -/
theorem no_item_in_two_shards (k : Kind ι δ Λ) (oracle : Nat → δ → List ι → Choice Λ δ)
    (fuel tries : Nat) (lay : Λ) (items : List ι) (h : items.Nodup ∨ ∀ d, k.solo d = false) :
    (issue k oracle fuel tries lay items).Pairwise (fun a b => ∀ x, x ∈ a.items → x ∉ b.items) := by
  rcases h with h | h
  · exact issue_disj_aux k oracle (fun l => l.Nodup) (fun lay items hp => shardBy_disj_nodup _ _ _ hp) fuel tries lay items h
  · exact issue_disj_aux k oracle (fun _ => True)
      (fun lay items _ => ⟨shardBy_disj_nosolo _ _ _ h, fun _ _ => trivial⟩) fuel tries lay items trivial

/-- Every returned shard is consistent with a layout the client believed in when it built that shard: all its items
have the shard's destination under that layout (or the shard is the error shard of a renewed sharding that failed
wholesale). -/
theorem shard_items_belong_to_the_shard_destination (k : Kind ι δ Λ) (oracle : Nat → δ → List ι → Choice Λ δ)
    (fuel tries : Nat) (lay : Λ) (items : List ι) :
    ∀ l ∈ issue k oracle fuel tries lay items,
      (∃ lay', ∀ y ∈ l.items, k.place lay' y = l.dest) ∨ (∃ t d is, oracle t d is = .reshardFails l.dest) :=
  issue_leafOk k oracle fuel tries lay items

/-- Clause 2 in general: `merge` loses and invents nothing — merged items plus the items of the error shards are a
permutation of the requested items. -/
theorem merge_preserves_the_multiset (k : Kind ι δ Λ) (oracle : Nat → δ → List ι → Choice Λ δ)
    (fuel tries : Nat) (lay : Λ) (items : List ι) :
    mergedItems k.isErr (issue k oracle fuel tries lay items) ++ errItems k.isErr (issue k oracle fuel tries lay items) ~ items :=
  (merged_err_perm k.isErr _).trans (issue_perm k oracle fuel tries lay items)

/-- `Request` returns an error beside the merged response exactly when some returned shard is an error shard. -/
theorem merge_reports_an_error_iff_some_error_shard (isErr : δ → Bool) (ss : List (Shard ι δ)) :
    (firstErr isErr ss).isSome = ss.any (fun s => isErr s.dest) := by
  unfold firstErr
  induction ss with
  | nil => simp
  | cons s rest ih =>
    simp only [List.find?_cons, List.any_cons]
    cases h : isErr s.dest with
    | true => simp
    | false => simpa using ih

/-- Clause 2 under `AllMappable` (no item is unmappable under any layout the client may believe in, and no renewed
sharding fails wholesale): the merged response holds exactly the requested items, each as often as requested, and
`Request` returns no error. -/
theorem merged_is_the_request_when_all_mappable (k : Kind ι δ Λ) (oracle : Nat → δ → List ι → Choice Λ δ)
    (fuel tries : Nat) (lay : Λ) (items : List ι)
    (hmap : ∀ lay', AllMappable k.isErr (k.place lay') items = true)
    (hany : k.isErr k.anyDest = false) (hor : ∀ t d is e, oracle t d is ≠ .reshardFails e) :
    mergedItems k.isErr (issue k oracle fuel tries lay items) ~ items ∧
    firstErr k.isErr (issue k oracle fuel tries lay items) = none := by
  have hmap' : ∀ lay' x, x ∈ items → k.isErr (k.place lay' x) = false := by
    intro lay' x hx
    have := hmap lay'
    unfold AllMappable at this
    rw [List.all_eq_true] at this
    simpa using this x hx
  have hno := issue_no_err k oracle hany hor fuel tries lay items hmap'
  have herr : errItems k.isErr (issue k oracle fuel tries lay items) = [] := by
    unfold errItems
    have : (issue k oracle fuel tries lay items).filter (fun s => k.isErr s.dest) = [] := by
      rw [List.filter_eq_nil_iff]
      intro a ha
      simp [hno a ha]
    rw [this]; rfl
  refine ⟨?_, ?_⟩
  · have := merge_preserves_the_multiset k oracle fuel tries lay items
    rwa [herr, List.append_nil] at this
  · unfold firstErr
    have : (issue k oracle fuel tries lay items).find? (fun s => k.isErr s.dest) = none := by
      rw [List.find?_eq_none]
      intro a ha
      simp [hno a ha]
    rw [this]; rfl

/-- FindCoordinator collapses duplicated keys before sharding (`uniq`): every requested key is then in the returned
shards exactly once. -/
theorem findCoordinator_each_key_once [BEq ι] [LawfulBEq ι] (k : Kind ι δ Λ) (oracle : Nat → δ → List ι → Choice Λ δ)
    (fuel tries : Nat) (lay : Λ) (items : List ι) (x : ι) (hx : x ∈ items) :
    (allItems (issue k oracle fuel tries lay items.eraseDups)).count x = 1 := by
  rw [(issue_perm k oracle fuel tries lay items.eraseDups).count_eq x]
  have hn : items.eraseDups.Nodup := nodup_eraseDups items.length items (Nat.le_refl _)
  have hm : x ∈ items.eraseDups := List.mem_eraseDups.2 hx
  rw [hn.count, if_pos hm]

/-! ## Non-vacuity: a concrete kind (partitions are numbers, destinations are broker ids, negative = error class) -/

def exKind : Kind Nat Int (Nat → Int) := { place := fun lay p => lay p, solo := fun _ => false, isErr := fun d => d < 0, anyDest := 1000 }

/-- three brokers; partition 9 does not exist (error class -3) -/
def lay0 : Nat → Int := fun p => if p = 9 then -3 else (p % 3 : Nat)
/-- after a leader election: partitions 0 and 1 swapped brokers, 3 moved to broker 2 -/
def lay1 : Nat → Int := fun p => if p = 9 then -3 else if p = 0 then 1 else if p = 1 then 0 else if p = 3 then 2 else (p % 3 : Nat)

/-- the first attempt to broker 0 fails retriably and the client then sees `lay1`; everything else is final -/
def exOracle : Nat → Int → List Nat → Choice (Nat → Int) Int := fun tries d _ => if tries = 0 ∧ d = 0 then .reshard lay1 else .final

/-- The request of DESIGN.md's probe (`a/0 a/1 a/1 a/3 a/9 … a/2`): duplicates kept, the unknown partition in an error shard,
broker 0's shard `[0,3]` re-split into `[0]→1` and `[3]→2` after the retriable failure. -/
example : issue exKind exOracle 3 0 lay0 [0, 1, 1, 3, 9, 2] =
    [⟨1, [0]⟩, ⟨2, [3]⟩, ⟨1, [1, 1]⟩, ⟨-3, [9]⟩, ⟨2, [2]⟩] := by decide
example : allItems (issue exKind exOracle 3 0 lay0 [0, 1, 1, 3, 9, 2]) ~ [0, 1, 1, 3, 9, 2] :=
  leaves_are_a_permutation_of_the_request _ _ _ _ _ _
example : mergedItems exKind.isErr (issue exKind exOracle 3 0 lay0 [0, 1, 1, 3, 9, 2]) = [0, 3, 1, 1, 2] ∧
    firstErr exKind.isErr (issue exKind exOracle 3 0 lay0 [0, 1, 1, 3, 9, 2]) = some (-3) := by decide
/-- hypotheses of `merged_is_the_request_when_all_mappable` are satisfiable (layouts without errors) -/
example : AllMappable exKind.isErr (exKind.place (fun p => (p % 3 : Nat))) [0, 1, 1, 3, 2] = true := by decide
/-- without budget the first sharding is final -/
example : issue exKind exOracle 0 0 lay0 [0, 1, 1, 3, 9, 2] = [⟨0, [0, 3]⟩, ⟨1, [1, 1]⟩, ⟨-3, [9]⟩, ⟨2, [2]⟩] := by decide
/-- an empty request still yields one (any-broker) shard -/
example : issue exKind exOracle 3 0 lay0 [] = [⟨1000, []⟩] := by decide

end Props.C23
