import FranzVerif.Gen.C17
import FranzVerif.Model.C17
import FranzVerif.Spec.C17
import FranzVerif.Proof.C17
import FranzVerif.Proof.C17Dec
import FranzVerif.Proof.C17Zig
import FranzVerif.Proof.C17Fixed
import FranzVerif.Proof.C17Reader
import FranzVerif.Proof.C17Refine
import FranzVerif.Proof.C17RoundTrip
/-! C17 — property theorems: wire primitives encode and decode exactly.

`Gen.C17.uvarintLens` and `Gen.C17.privateCopyIdentical` are regenerated from /repo on every run, so
the table theorems and `private_copy_identical` are re-checked against what the source says now. -/
namespace Props.C17
open Model.C17
set_option maxRecDepth 8000

/-- "The protocol package's private copy of these primitives is identical": the two files have the
same Go token stream (comments and the package name aside). -/
theorem private_copy_identical : Gen.C17.privateCopyIdentical = true := by decide

/-- The table has 256 entries, so `uvarintLens[byte(…)]` can never be out of range (no panic). -/
theorem lens_index_in_range : Gen.C17.uvarintLens.length = 256 := by decide

/-- Every live entry of the table (`bits.Len` returns 0..64) is `max 1 ⌈L/7⌉`. -/
theorem lens_table_correct : ∀ L : Fin 65, lensAt L.val = max 1 ((L.val + 6) / 7) := by decide

/-- Decoder exactness, 32 bit: on *every* byte string `Uvarint` returns exactly the reference result
(`n>0`: value and number of bytes consumed; `(0,0)`: input ran out; `(0,-5)`: more than five bytes or
the value does not fit 32 bits), and it never indexes past the input (`some` = no panic). -/
theorem uvarint_exact (inp : Bytes) :
    uvarint inp = some (BitVec.ofNat 32 (Spec.C17.decU 32 5 inp).1, (Spec.C17.decU 32 5 inp).2) :=
  Proof.C17.uvarint_exact inp

example : uvarint [0xff#8, 0xff#8, 0xff#8, 0xff#8, 0x0f#8, 0x01#8] = some (4294967295#32, 5) := by decide
example : uvarint [0xff#8, 0xff#8, 0xff#8, 0xff#8, 0x10#8] = some (0#32, -5) := by decide
example : uvarint [0xff#8, 0xff#8] = some (0#32, 0) := by decide


theorem uvarint_no_panic (inp : Bytes) : (uvarint inp).isSome = true := by rw [uvarint_exact]; rfl

/-- The reference reader inverts the reference writer (pure `Nat` statement about the Spec, all `n`,
any trailing bytes): this is what makes `decU`/`encU` a specification of "the same value". -/
theorem spec_leb128_roundtrip (bits maxB n : Nat) (r : Spec.C17.Bytes) (hn : n < 2 ^ bits)
    (hl : Spec.C17.lenU n ≤ maxB) :
    Spec.C17.decU bits maxB (Spec.C17.encU n ++ r) = (n, (Spec.C17.lenU n : Int)) :=
  Proof.C17.decU_encU bits maxB n r hn hl

/-- Encoder exactness, 32 bit: for every `u` and every `dst`, `AppendUvarint` appends exactly the
LEB128 bytes of `u`, and `UvarintLen u` (through the regenerated table) is their number. -/
theorem appendUvarint_exact (dst : Bytes) (u : BitVec 32) :
    appendUvarint dst u = dst ++ Spec.C17.encU u.toNat ∧ uvarintLen u = Spec.C17.lenU u.toNat :=
  Proof.C17.appendUvarint_exact lens_table_correct dst u

/-- Encoder exactness, 64 bit (`appendUvarlong`, `uvarlongLen`; all ten switch cases). -/
theorem appendUvarlong_exact (dst : Bytes) (u : BitVec 64) :
    appendUvarlong dst u = dst ++ Spec.C17.encU u.toNat ∧ uvarlongLen u = Spec.C17.lenU u.toNat :=
  Proof.C17.appendUvarlong_exact lens_table_correct dst u

/-- The length functions equal the encoded lengths (all 32-bit / 64-bit values). -/
theorem uvarintLen_is_encoded_length (u : BitVec 32) : (appendUvarint [] u).length = uvarintLen u := by
  rw [(appendUvarint_exact [] u).1, (appendUvarint_exact [] u).2, List.nil_append, Proof.C17.encU_length]
theorem uvarlongLen_is_encoded_length (u : BitVec 64) : (appendUvarlong [] u).length = uvarlongLen u := by
  rw [(appendUvarlong_exact [] u).1, (appendUvarlong_exact [] u).2, List.nil_append, Proof.C17.encU_length]
/-- `VarintLen`/`VarlongLen` are the length functions of the zig-zag image, which is what `AppendVarint` writes. -/
theorem varintLen_is_encoded_length (i : BitVec 32) : (appendVarint [] i).length = varintLen i :=
  uvarintLen_is_encoded_length (zigzag32 i)
theorem varlongLen_is_encoded_length (i : BitVec 64) : (appendVarlong [] i).length = varlongLen i :=
  uvarlongLen_is_encoded_length (zigzag64 i)

/-- Round trip, every 32-bit value, any trailing bytes: `Uvarint(AppendUvarint(nil,u) ++ r) = (u, UvarintLen(u))`. -/
theorem uvarint_roundtrip (u : BitVec 32) (r : Bytes) :
    uvarint (appendUvarint [] u ++ r) = some (u, (uvarintLen u : Int)) := by
  have hl5 : Spec.C17.lenU u.toNat ≤ 5 := Proof.C17.lenU_le 5 u.toNat (by have := u.isLt; omega) (by decide)
  rw [uvarint_exact, (appendUvarint_exact [] u).1, (appendUvarint_exact [] u).2, List.nil_append,
    Proof.C17.decU_encU 32 5 u.toNat r u.isLt hl5]
  simp

example : appendUvarint [] 300#32 = [0xac#8, 0x02#8] ∧ uvarintLen 300#32 = 2 := by decide

/-! ## the 10-byte decoder -/

/-- Decoder exactness, 64 bit: on *every* byte string `uvarlong` returns exactly the reference LEB128
result (`n>0`: value and bytes consumed; `(0,0)`: the input ran out; `(0,-10)`: more than ten bytes or
the value does not fit 64 bits) and never indexes past the input. Proof: the transcription is
definitionally the generic unrolled loop `Proof.C17.ulGo` at fuel 9, and `ulGo_spec` is an induction. -/
theorem uvarlong_exact (inp : Bytes) :
    uvarlong inp = some (BitVec.ofNat 64 (Spec.C17.decU 64 10 inp).1, (Spec.C17.decU 64 10 inp).2) :=
  Proof.C17.uvarlong_exact inp

theorem uvarlong_no_panic (inp : Bytes) : (uvarlong inp).isSome = true := by rw [uvarlong_exact]; rfl

example : uvarlong [0xff#8, 0xff#8, 0xff#8, 0xff#8, 0xff#8, 0xff#8, 0xff#8, 0xff#8, 0xff#8, 0x01#8, 0x55#8]
    = some (18446744073709551615#64, 10) := by decide
example : uvarlong [0xff#8, 0xff#8, 0xff#8, 0xff#8, 0xff#8, 0xff#8, 0xff#8, 0xff#8, 0xff#8, 0x02#8] = some (0#64, -10) := by decide
example : uvarlong [0xff#8, 0xff#8, 0xff#8] = some (0#64, 0) := by decide

/-- Round trip, every 64-bit value, any trailing bytes. -/
theorem uvarlong_roundtrip (u : BitVec 64) (r : Bytes) :
    uvarlong (appendUvarlong [] u ++ r) = some (u, (uvarlongLen u : Int)) := by
  rw [(Proof.C17.uvarlong_model_rt lens_table_correct u r).1, uvarlongLen_is_encoded_length]

/-! ## zig-zag -/

/-- The Go expressions `uint32(i)<<1 ^ uint32(i>>31)` / `(x>>1) ^ -(x&1)` (and the 64-bit ones) compute
the integer zig-zag maps of the Kafka protocol on every value. -/
theorem zigzag32_is_spec (i : BitVec 32) : (zigzag32 i).toNat = Spec.C17.zz i.toInt := Proof.C17.zigzag32_spec i
theorem zigzag64_is_spec (i : BitVec 64) : (zigzag64 i).toNat = Spec.C17.zz i.toInt := Proof.C17.zigzag64_spec i
theorem unzigzag32_is_spec (u : BitVec 32) : (unzigzag32 u).toInt = Spec.C17.unzz u.toNat := Proof.C17.unzigzag32_spec u
theorem unzigzag64_is_spec (u : BitVec 64) : (unzigzag64 u).toInt = Spec.C17.unzz u.toNat := Proof.C17.unzigzag64_spec u

/-- encode and decode are inverse bijections on all of `BitVec 32` / `BitVec 64`. -/
theorem zigzag32_bijection (i u : BitVec 32) : unzigzag32 (zigzag32 i) = i ∧ zigzag32 (unzigzag32 u) = u :=
  ⟨Proof.C17.unzigzag32_zigzag32 i, Proof.C17.zigzag32_unzigzag32 u⟩
theorem zigzag64_bijection (i u : BitVec 64) : unzigzag64 (zigzag64 i) = i ∧ zigzag64 (unzigzag64 u) = u :=
  ⟨Proof.C17.unzigzag64_zigzag64 i, Proof.C17.zigzag64_unzigzag64 u⟩

example : zigzag32 (-1#32) = 1#32 ∧ zigzag32 (2147483648#32) = 4294967295#32 ∧ unzigzag32 3#32 = -2#32 := by decide

/-- `AppendVarint`/`AppendVarlong` append the LEB128 bytes of the zig-zag image of the signed value. -/
theorem appendVarint_exact (dst : Bytes) (i : BitVec 32) :
    appendVarint dst i = dst ++ Spec.C17.encU (Spec.C17.zz i.toInt) ∧ varintLen i = Spec.C17.lenU (Spec.C17.zz i.toInt) := by
  rw [← zigzag32_is_spec]; exact appendUvarint_exact dst (zigzag32 i)
theorem appendVarlong_exact (dst : Bytes) (i : BitVec 64) :
    appendVarlong dst i = dst ++ Spec.C17.encU (Spec.C17.zz i.toInt) ∧ varlongLen i = Spec.C17.lenU (Spec.C17.zz i.toInt) := by
  rw [← zigzag64_is_spec]; exact appendUvarlong_exact dst (zigzag64 i)

/-- `Varint`/`Varlong` return exactly the Spec's signed decoder result on every byte string. -/
theorem varint_exact (inp : Bytes) :
    varint inp = some (BitVec.ofInt 32 (Spec.C17.decS 32 5 inp).1, (Spec.C17.decS 32 5 inp).2) :=
  Proof.C17.varint_exact inp
theorem varlong_exact (inp : Bytes) :
    varlong inp = some (BitVec.ofInt 64 (Spec.C17.decS 64 10 inp).1, (Spec.C17.decS 64 10 inp).2) :=
  Proof.C17.varlong_exact inp

/-- Round trips `decode (encode v ++ rest) = (v, length)` for every signed 32/64-bit value. -/
theorem varint_roundtrip (i : BitVec 32) (r : Bytes) :
    varint (appendVarint [] i ++ r) = some (i, (varintLen i : Int)) := by
  rw [varint, appendVarint, uvarint_roundtrip, Option.map_some]
  simp only [(zigzag32_bijection i 0).1]; rfl
theorem varlong_roundtrip (i : BitVec 64) (r : Bytes) :
    varlong (appendVarlong [] i ++ r) = some (i, (varlongLen i : Int)) := by
  rw [varlong, appendVarlong, uvarlong_roundtrip, Option.map_some]
  simp only [(zigzag64_bijection i 0).1]; rfl

example : varint (appendVarint [] (-300#32) ++ [0xff#8]) = some (-300#32, 2) := by decide

/-! ## fixed-width big-endian -/

/-- The fixed-width encoders append the big-endian bytes of the value (`Spec.C17.be`); signed values
are written as their two's complement pattern; a float64 as its 64 bits. -/
theorem appendInt8_exact (dst : Bytes) (i : BitVec 8) : appendInt8 dst i = dst ++ Spec.C17.be 1 (Spec.C17.pattern 8 i.toInt) := by
  rw [Proof.C17.pattern_toInt]; exact Proof.C17.appendInt8_be dst i
theorem appendUint16_exact (dst : Bytes) (u : BitVec 16) : appendUint16 dst u = dst ++ Spec.C17.be 2 u.toNat :=
  Proof.C17.appendUint16_be dst u
theorem appendInt16_exact (dst : Bytes) (i : BitVec 16) : appendInt16 dst i = dst ++ Spec.C17.be 2 (Spec.C17.pattern 16 i.toInt) := by
  rw [Proof.C17.pattern_toInt]; exact Proof.C17.appendUint16_be dst i
theorem appendUint32_exact (dst : Bytes) (u : BitVec 32) : appendUint32 dst u = dst ++ Spec.C17.be 4 u.toNat :=
  Proof.C17.appendUint32_be dst u
theorem appendInt32_exact (dst : Bytes) (i : BitVec 32) : appendInt32 dst i = dst ++ Spec.C17.be 4 (Spec.C17.pattern 32 i.toInt) := by
  rw [Proof.C17.pattern_toInt]; exact Proof.C17.appendUint32_be dst i
theorem appendInt64_exact (dst : Bytes) (i : BitVec 64) : appendInt64 dst i = dst ++ Spec.C17.be 8 (Spec.C17.pattern 64 i.toInt) := by
  rw [Proof.C17.pattern_toInt]; exact Proof.C17.appendUint64_be dst i
theorem appendFloat64_exact (dst : Bytes) (bits : BitVec 64) : appendFloat64 dst bits = dst ++ Spec.C17.be 8 bits.toNat :=
  Proof.C17.appendUint64_be dst bits

/-- the reference big-endian reader inverts the reference writer (all widths, all values) -/
theorem spec_bigendian_roundtrip (k n : Nat) : Spec.C17.unbe (Spec.C17.be k n) = n % 256 ^ k := Proof.C17.unbe_be k n

/-- Fixed-width round trips through the `Reader`: whatever reader state (`r`) whose source starts with
the encoding, the read returns exactly the value and leaves exactly the bytes that followed. -/
theorem bool_roundtrip (r : Reader) (v : Bool) (tail : Bytes) (h : r.src = appendBool [] v ++ tail) :
    r.bool = some (v, { r with src := tail }) := Proof.C17.bool_rt r v tail h
theorem int8_roundtrip (r : Reader) (v : BitVec 8) (tail : Bytes) (h : r.src = appendInt8 [] v ++ tail) :
    r.int8 = some (v, { r with src := tail }) := Proof.C17.int8_rt r v tail h
theorem int16_roundtrip (r : Reader) (v : BitVec 16) (tail : Bytes) (h : r.src = appendInt16 [] v ++ tail) :
    r.int16 = some (v, { r with src := tail }) := Proof.C17.uint16_rt r v tail h
theorem uint16_roundtrip (r : Reader) (v : BitVec 16) (tail : Bytes) (h : r.src = appendUint16 [] v ++ tail) :
    r.uint16 = some (v, { r with src := tail }) := Proof.C17.uint16_rt r v tail h
theorem int32_roundtrip (r : Reader) (v : BitVec 32) (tail : Bytes) (h : r.src = appendInt32 [] v ++ tail) :
    r.int32 = some (v, { r with src := tail }) := Proof.C17.uint32_rt r v tail h
theorem uint32_roundtrip (r : Reader) (v : BitVec 32) (tail : Bytes) (h : r.src = appendUint32 [] v ++ tail) :
    r.uint32 = some (v, { r with src := tail }) := Proof.C17.uint32_rt r v tail h
theorem int64_roundtrip (r : Reader) (v : BitVec 64) (tail : Bytes) (h : r.src = appendInt64 [] v ++ tail) :
    r.int64 = some (v, { r with src := tail }) := Proof.C17.readUint64_rt r v tail h
theorem float64_roundtrip (r : Reader) (bits : BitVec 64) (tail : Bytes) (h : r.src = appendFloat64 [] bits ++ tail) :
    r.float64 = some (bits, { r with src := tail }) := Proof.C17.readUint64_rt r bits tail h
theorem uuid_roundtrip (r : Reader) (hnil : r.srcNil = false) (u tail : Bytes) (hu : u.length = 16)
    (h : r.src = appendUuid [] u ++ tail) : r.uuid = some (u, { r with src := tail }) := Proof.C17.uuid_rt r hnil u tail hu h

example : (Reader.int32 { src := appendInt32 [] (-2#32) ++ [0x07#8] }) = some (-2#32, { src := [0x07#8] }) := by decide

/-- Short input is rejected: the reader is invalidated (`bad`, `Src = nil`) and the zero value returned. -/
theorem fixed_short_rejected (r : Reader) :
    (r.src.length < 1 → r.bool = some (false, Reader.invalid) ∧ r.int8 = some (0, Reader.invalid)) ∧
    (r.src.length < 2 → r.int16 = some (0, Reader.invalid) ∧ r.uint16 = some (0, Reader.invalid)) ∧
    (r.src.length < 4 → r.int32 = some (0, Reader.invalid) ∧ r.uint32 = some (0, Reader.invalid)) ∧
    (r.src.length < 8 → r.int64 = some (0, Reader.invalid) ∧ r.float64 = some (0, Reader.invalid)) ∧
    (r.src.length < 16 → r.uuid = some (List.replicate 16 0#8, Reader.invalid)) := by
  refine ⟨fun h => ?_, fun h => ?_, fun h => ?_, fun h => ?_, fun h => ?_⟩
  · simp [Reader.bool, Reader.int8, h]
  · simp [Reader.int16, Reader.uint16, h]
  · simp [Reader.int32, Reader.uint32, h]
  · simp [Reader.int64, Reader.float64, Reader.readUint64, h]
  · rw [Reader.uuid, Proof.C17.span_eq, if_pos (by omega)]; rfl

/-! ## Reader laws -/

/-- Every `Reader` method refines one step of the Spec's reader contract (`Spec.C17.step`, written from
the protocol description), on every reader satisfying the invariant `WF` (which the constructor state
satisfies and every method preserves): the method does not panic (never reads past the input); the
observable state afterwards (`Src`, `Ok()`) is the Spec's — a well-formed prefix is consumed exactly,
anything else (short input, overlong/overflowing varint, negative or oversized length) invalidates the
reader; the value is the Spec's value; and the new source is a suffix of the old one. All 26 kinds. -/
theorem reader_refines_spec (k : Spec.C17.Kind) (r : Reader) (hwf : Proof.C17.WF r) :
    ∃ res r', Proof.C17.run k r = some (res, r') ∧ Proof.C17.WF r' ∧
      Proof.C17.absR r' = (Spec.C17.step k (Proof.C17.absR r)).2 ∧
      (∀ v, (Spec.C17.step k (Proof.C17.absR r)).1 = some v → Proof.C17.matchesVal v res = true) ∧
      (r' = Reader.invalid ∨ ∃ n, n ≤ r.src.length ∧ r' = Proof.C17.adv r n) :=
  Proof.C17.run_refines k r hwf

/-- the initial states satisfy the invariant: any non-nil source, or the nil source -/
theorem reader_initial_wf (src : Bytes) : Proof.C17.WF { src := src } ∧ Proof.C17.WF { src := [], srcNil := true } := by
  refine ⟨⟨fun h => ?_, fun h => ?_⟩, ⟨fun h => ?_, fun _ => rfl⟩⟩ <;> simp at h

example : Proof.C17.run .string { src := [0x00#8, 0x02#8, 0x61#8, 0x62#8, 0xff#8] }
    = some (.o (some [0x61#8, 0x62#8]), { src := [0xff#8] }) := by decide
example : Proof.C17.run .compactString { src := [0x05#8, 0x61#8] } = some (.o (some []), Reader.invalid) := by decide

/-- Any sequence of reads: no panic, and the final `Src`/`Ok()` are the Spec's. In particular `Ok()`
(hence `Complete() == nil`) holds at the end iff every read of the sequence found a well-formed
encoding (`Spec.C17.stepAll` fails from the first malformed read on). -/
theorem reader_sequence_refines (ks : List Spec.C17.Kind) (r : Reader) (hwf : Proof.C17.WF r) :
    ∃ out r', Proof.C17.runAll ks r = some (out, r') ∧ Proof.C17.WF r' ∧
      Proof.C17.absR r' = Proof.C17.stepAll ks (Proof.C17.absR r) ∧ out.length = ks.length :=
  Proof.C17.runAll_refines ks r hwf

theorem reader_ok_iff_spec_ok (ks : List Spec.C17.Kind) (r r' : Reader) (out : List Proof.C17.MR) (hwf : Proof.C17.WF r)
    (h : Proof.C17.runAll ks r = some (out, r')) : r'.ok = (Proof.C17.stepAll ks (Proof.C17.absR r)).ok := by
  obtain ⟨out2, r2, h2, _, habs, _⟩ := Proof.C17.runAll_refines ks r hwf
  rw [h] at h2
  simp only [Option.some.injEq, Prod.mk.injEq] at h2
  obtain ⟨_, rfl⟩ := h2
  rw [← habs]; rfl

/-- After a failed read the reader stays failed: every method on an invalidated reader returns its zero
value (`Proof.C17.zeroRes`: false / 0 / nil / "" — with the quirks that `CompactBytes` returns the empty
non-nil slice and `CompactArrayLen` returns -1), consumes nothing and leaves the reader invalidated. -/
theorem reader_failure_is_sticky (k : Spec.C17.Kind) (r : Reader) (hwf : Proof.C17.WF r) (hbad : r.ok = false) :
    Proof.C17.run k r = some (Proof.C17.zeroRes k, r) ∧ r.src = [] := by
  have hb : r.bad = true := by simpa [Reader.ok] using hbad
  have := hwf.1 hb
  subst this
  exact ⟨Proof.C17.run_invalid_zero k, rfl⟩

theorem spec_failure_is_sticky (ks : List Spec.C17.Kind) (s : Spec.C17.RState) (h : s.ok = false) :
    (Proof.C17.stepAll ks s).ok = false := Proof.C17.stepAll_failed ks s h

example : ∃ out r', Proof.C17.runAll [.int16, .int32, .bool] { src := [0x00#8, 0x01#8, 0x02#8] } = some (out, r') ∧ r'.ok = false :=
  ⟨[.i 1, .i 0, .b false], Reader.invalid, by decide, rfl⟩

/-! ## length-prefixed reads return exactly what the corresponding Append wrote -/

theorem string_roundtrip (r : Reader) (hnil : r.srcNil = false) (s tail : Bytes) (hs : s.length < 32768)
    (h : r.src = appendString [] s ++ tail) : r.string = some (s, { r with src := tail }) :=
  Proof.C17.string_rt r hnil s tail hs h
theorem nullableString_roundtrip (r : Reader) (hnil : r.srcNil = false) (s : Option Bytes) (tail : Bytes)
    (hs : ∀ x, s = some x → x.length < 32768) (h : r.src = appendNullableString [] s ++ tail) :
    r.nullableString = some (s, { r with src := tail }) := Proof.C17.nullableString_rt r hnil s tail hs h
theorem compactString_roundtrip (r : Reader) (hnil : r.srcNil = false) (s tail : Bytes) (hs : s.length < 4294967295)
    (h : r.src = appendCompactString [] s ++ tail) : r.compactString = some (s, { r with src := tail }) :=
  Proof.C17.compactString_rt lens_table_correct r hnil s tail hs h
theorem compactNullableString_roundtrip (r : Reader) (hnil : r.srcNil = false) (s : Option Bytes) (tail : Bytes)
    (hs : ∀ x, s = some x → x.length < 4294967295) (h : r.src = appendCompactNullableString [] s ++ tail) :
    r.compactNullableString = some (s, { r with src := tail }) :=
  Proof.C17.compactNullableString_rt lens_table_correct r hnil s tail hs h
theorem bytes_roundtrip (r : Reader) (hnil : r.srcNil = false) (b tail : Bytes) (hb : b.length < 2147483648)
    (h : r.src = appendBytes [] b ++ tail) : r.bytes = some (some b, { r with src := tail }) :=
  Proof.C17.bytes_rt r hnil b tail hb h
theorem nullableBytes_roundtrip (r : Reader) (hnil : r.srcNil = false) (b : Option Bytes) (tail : Bytes)
    (hb : ∀ x, b = some x → x.length < 2147483648) (h : r.src = appendNullableBytes [] b ++ tail) :
    r.nullableBytes = some (b, { r with src := tail }) := Proof.C17.nullableBytes_rt r hnil b tail hb h
theorem compactBytes_roundtrip (r : Reader) (hnil : r.srcNil = false) (b tail : Bytes) (hb : b.length < 4294967295)
    (h : r.src = appendCompactBytes [] b ++ tail) : r.compactBytes = some (some b, { r with src := tail }) :=
  Proof.C17.compactBytes_rt lens_table_correct r hnil b tail hb h
theorem compactNullableBytes_roundtrip (r : Reader) (hnil : r.srcNil = false) (b : Option Bytes) (tail : Bytes)
    (hb : ∀ x, b = some x → x.length < 4294967295) (h : r.src = appendCompactNullableBytes [] b ++ tail) :
    r.compactNullableBytes = some (b, { r with src := tail }) :=
  Proof.C17.compactNullableBytes_rt lens_table_correct r hnil b tail hb h
theorem varintBytes_roundtrip (r : Reader) (hnil : r.srcNil = false) (b : Option Bytes) (tail : Bytes)
    (hb : ∀ x, b = some x → x.length < 2147483648) (h : r.src = appendVarintBytes [] b ++ tail) :
    r.varintBytes = some (b, { r with src := tail }) := Proof.C17.varintBytes_rt lens_table_correct r hnil b tail hb h
theorem varintString_roundtrip (r : Reader) (hnil : r.srcNil = false) (s tail : Bytes) (hs : s.length < 2147483648)
    (h : r.src = appendVarintString [] s ++ tail) : r.varintString = some (s, { r with src := tail }) :=
  Proof.C17.varintString_rt lens_table_correct r hnil s tail hs h
/-- array lengths come back when at least that many bytes follow (every element takes at least a byte) -/
theorem arrayLen_roundtrip (r : Reader) (l : Nat) (tail : Bytes) (hl : l < 2147483648) (ht : l ≤ tail.length)
    (h : r.src = appendArrayLen [] l ++ tail) : r.arrayLen = some (BitVec.ofNat 32 l, { r with src := tail }) :=
  Proof.C17.arrayLen_rt r l tail hl ht h
theorem compactArrayLen_roundtrip (r : Reader) (l : Nat) (tail : Bytes) (hl : l < 2147483648) (ht : l ≤ tail.length)
    (h : r.src = appendCompactArrayLen [] l ++ tail) : r.compactArrayLen = some (BitVec.ofNat 32 l, { r with src := tail }) :=
  Proof.C17.compactArrayLen_rt lens_table_correct r l tail hl ht h
/-- varints through the reader -/
theorem reader_varint_roundtrips (r : Reader) (tail : Bytes) :
    (∀ u, r.src = appendUvarint [] u ++ tail → r.uvarint = some (u, { r with src := tail })) ∧
    (∀ i, r.src = appendVarint [] i ++ tail → r.varint = some (i, { r with src := tail })) ∧
    (∀ i, r.src = appendVarlong [] i ++ tail → r.varlong = some (i, { r with src := tail })) :=
  ⟨fun u h => Proof.C17.uvarint_rt lens_table_correct r u tail h, fun i h => Proof.C17.varint_rt lens_table_correct r i tail h,
   fun i h => Proof.C17.varlong_rt lens_table_correct r i tail h⟩

/-- negative and oversized lengths are rejected by `Span` (no panic, reader invalidated) -/
theorem span_rejects (r : Reader) (l : Int) (h : l < 0 ∨ (r.src.length : Int) < l) : r.span l = some (none, Reader.invalid) := by
  rw [Proof.C17.span_eq, if_pos (by omega)]

example : Reader.compactString { src := appendCompactString [] [0x61#8, 0x62#8, 0x63#8] ++ [0x00#8] }
    = some ([0x61#8, 0x62#8, 0x63#8], { src := [0x00#8] }) := by decide
example : Reader.bytes { src := [0x80#8, 0x00#8, 0x00#8, 0x00#8, 0x01#8] } = some (none, Reader.invalid) := by decide

end Props.C17
