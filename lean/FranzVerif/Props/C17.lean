import FranzVerif.Gen.C17
import FranzVerif.Model.C17
import FranzVerif.Spec.C17
import FranzVerif.Proof.C17
/-! C17 — property theorems: wire primitives encode and decode exactly.

`Gen.C17.uvarintLens` and `Gen.C17.privateCopyIdentical` are regenerated from /repo on every run, so
the table theorems and `private_copy_identical` are re-checked against what the source says now. -/
namespace Props.C17
open Model.C17
set_option maxRecDepth 8000

/-- "The protocol package's private copy of these primitives is identical": the two files have the
same Go token stream (comments and the package name aside). -/
theorem private_copy_identical : Gen.C17.privateCopyIdentical = true := by decide

/-- The table has 256 entries, so `uvarintLens[byte(…)]` can never be out of range (no panic). -/
theorem lens_index_in_range : Gen.C17.uvarintLens.length = 256 := by decide

/-- Every live entry of the table (`bits.Len` returns 0..64) is `max 1 ⌈L/7⌉`. -/
theorem lens_table_correct : ∀ L : Fin 65, lensAt L.val = max 1 ((L.val + 6) / 7) := by decide

/-- Decoder exactness, 32 bit: on *every* byte string `Uvarint` returns exactly the reference result
(`n>0`: value and number of bytes consumed; `(0,0)`: input ran out; `(0,-5)`: more than five bytes or
the value does not fit 32 bits), and it never indexes past the input (`some` = no panic). -/
theorem uvarint_exact (inp : Bytes) :
    uvarint inp = some (BitVec.ofNat 32 (Spec.C17.decU 32 5 inp).1, (Spec.C17.decU 32 5 inp).2) :=
  Proof.C17.uvarint_exact inp

example : uvarint [0xff#8, 0xff#8, 0xff#8, 0xff#8, 0x0f#8, 0x01#8] = some (4294967295#32, 5) := by decide
example : uvarint [0xff#8, 0xff#8, 0xff#8, 0xff#8, 0x10#8] = some (0#32, -5) := by decide
example : uvarint [0xff#8, 0xff#8] = some (0#32, 0) := by decide


theorem uvarint_no_panic (inp : Bytes) : (uvarint inp).isSome = true := by rw [uvarint_exact]; rfl

/-- The reference reader inverts the reference writer (pure `Nat` statement about the Spec, all `n`,
any trailing bytes): this is what makes `decU`/`encU` a specification of "the same value". -/
theorem spec_leb128_roundtrip (bits maxB n : Nat) (r : Spec.C17.Bytes) (hn : n < 2 ^ bits)
    (hl : Spec.C17.lenU n ≤ maxB) :
    Spec.C17.decU bits maxB (Spec.C17.encU n ++ r) = (n, (Spec.C17.lenU n : Int)) :=
  Proof.C17.decU_encU bits maxB n r hn hl

/-- Encoder exactness, 32 bit: for every `u` and every `dst`, `AppendUvarint` appends exactly the
LEB128 bytes of `u`, and `UvarintLen u` (through the regenerated table) is their number. -/
theorem appendUvarint_exact (dst : Bytes) (u : BitVec 32) :
    appendUvarint dst u = dst ++ Spec.C17.encU u.toNat ∧ uvarintLen u = Spec.C17.lenU u.toNat :=
  Proof.C17.appendUvarint_exact lens_table_correct dst u

/-- Encoder exactness, 64 bit (`appendUvarlong`, `uvarlongLen`; all ten switch cases). -/
theorem appendUvarlong_exact (dst : Bytes) (u : BitVec 64) :
    appendUvarlong dst u = dst ++ Spec.C17.encU u.toNat ∧ uvarlongLen u = Spec.C17.lenU u.toNat :=
  Proof.C17.appendUvarlong_exact lens_table_correct dst u

/-- The length functions equal the encoded lengths (all 32-bit / 64-bit values). -/
theorem uvarintLen_is_encoded_length (u : BitVec 32) : (appendUvarint [] u).length = uvarintLen u := by
  rw [(appendUvarint_exact [] u).1, (appendUvarint_exact [] u).2, List.nil_append, Proof.C17.encU_length]
theorem uvarlongLen_is_encoded_length (u : BitVec 64) : (appendUvarlong [] u).length = uvarlongLen u := by
  rw [(appendUvarlong_exact [] u).1, (appendUvarlong_exact [] u).2, List.nil_append, Proof.C17.encU_length]
/-- `VarintLen`/`VarlongLen` are the length functions of the zig-zag image, which is what `AppendVarint` writes. -/
theorem varintLen_is_encoded_length (i : BitVec 32) : (appendVarint [] i).length = varintLen i :=
  uvarintLen_is_encoded_length (zigzag32 i)
theorem varlongLen_is_encoded_length (i : BitVec 64) : (appendVarlong [] i).length = varlongLen i :=
  uvarlongLen_is_encoded_length (zigzag64 i)

/-- Round trip, every 32-bit value, any trailing bytes: `Uvarint(AppendUvarint(nil,u) ++ r) = (u, UvarintLen(u))`. -/
theorem uvarint_roundtrip (u : BitVec 32) (r : Bytes) :
    uvarint (appendUvarint [] u ++ r) = some (u, (uvarintLen u : Int)) := by
  have hl5 : Spec.C17.lenU u.toNat ≤ 5 := Proof.C17.lenU_le 5 u.toNat (by have := u.isLt; omega) (by decide)
  rw [uvarint_exact, (appendUvarint_exact [] u).1, (appendUvarint_exact [] u).2, List.nil_append,
    Proof.C17.decU_encU 32 5 u.toNat r u.isLt hl5]
  simp

example : appendUvarint [] 300#32 = [0xac#8, 0x02#8] ∧ uvarintLen 300#32 = 2 := by decide

end Props.C17
