import FranzVerif.Gen.C17
import FranzVerif.Model.C17
import FranzVerif.Spec.C17
import FranzVerif.Proof.C17
/-! C17 — property theorems: wire primitives encode and decode exactly.

`Gen.C17.uvarintLens` and `Gen.C17.privateCopyIdentical` are regenerated from /repo on every run, so
the table theorems and `private_copy_identical` are re-checked against what the source says now. -/
namespace Props.C17
open Model.C17
set_option maxRecDepth 8000

/-- "The protocol package's private copy of these primitives is identical": the two files have the
same Go token stream (comments and the package name aside). -/
theorem private_copy_identical : Gen.C17.privateCopyIdentical = true := by decide

/-- The table has 256 entries, so `uvarintLens[byte(…)]` can never be out of range (no panic). -/
theorem lens_index_in_range : Gen.C17.uvarintLens.length = 256 := by decide

/-- Every live entry of the table (`bits.Len` returns 0..64) is `max 1 ⌈L/7⌉`. -/
theorem lens_table_correct : ∀ L : Fin 65, lensAt L.val = max 1 ((L.val + 6) / 7) := by decide

/-- Decoder exactness, 32 bit: on *every* byte string `Uvarint` returns exactly the reference result
(`n>0`: value and number of bytes consumed; `(0,0)`: input ran out; `(0,-5)`: more than five bytes or
the value does not fit 32 bits), and it never indexes past the input (`some` = no panic). -/
theorem uvarint_exact (inp : Bytes) :
    uvarint inp = some (BitVec.ofNat 32 (Spec.C17.decU 32 5 inp).1, (Spec.C17.decU 32 5 inp).2) :=
  Proof.C17.uvarint_exact inp

example : uvarint [0xff#8, 0xff#8, 0xff#8, 0xff#8, 0x0f#8, 0x01#8] = some (4294967295#32, 5) := by decide
example : uvarint [0xff#8, 0xff#8, 0xff#8, 0xff#8, 0x10#8] = some (0#32, -5) := by decide
example : uvarint [0xff#8, 0xff#8] = some (0#32, 0) := by decide

end Props.C17
