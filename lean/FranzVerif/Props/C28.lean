import FranzVerif.Model.C28
import FranzVerif.Spec.C28
import FranzVerif.Proof.C28
/-! C28 — property theorems: "Partitioners pick valid, Kafka-compatible partitions".

`Model.C28` is the transcription of pkg/kgo/partitioner.go (tied to the code by the differential run),
`Spec.C28` is the independent statement (Java `Utils.murmur2` / `toPositive` / `% numPartitions` over
`Nat` with explicit `mod 2^32`, Sarama's signed formula, index range, key consistency).
Every `rand` draw is universally quantified (`raw`, `draws`); `Intn(n)` is `raw % n`. -/
namespace Props.C28
open Model.C28 Spec.C28 Proof.C28

/-! ### murmur2 is the Java client's murmur2, for every key (no bound on the length) -/

/-- Go `murmur2` (BitVec 32, slice-consuming loop, unsigned bytes) = Java `Utils.murmur2` (index loop,
signed bytes masked with 0xff, int arithmetic as explicit `mod 2^32`), as 32-bit residues. -/
theorem murmur2_eq_java (key : List UInt8) : (murmur2 key).toNat = murmur2U key :=
  murmur2_toNat key

/-- … and as the signed Java `int`. -/
theorem murmur2_eq_java_int (key : List UInt8) : (murmur2 key).toInt = murmur2Java key := by
  have hlt := (murmur2 key).isLt
  rw [BitVec.toInt_eq_toNat_cond, murmur2Java, ← murmur2_toNat, toInt32]
  split <;> split <;> omega

example : murmur2 [] ≠ murmur2 [0] := by decide

/-- The Spec's Java transcription reproduces the vectors of Kafka's `UtilsTest.testMurmur2`
("21", "foobar", "a-little-bit-long-string", "a-little-bit-longer-string",
"lkjh234lh9fiuh90y23oiuhsafujhadof229phr9h19h89h8", "abc"), as remembered; checked by the kernel. -/
example : murmur2Java [0x32, 0x31] = -973932308 := by decide
example : murmur2Java [0x66, 0x6f, 0x6f, 0x62, 0x61, 0x72] = -790332482 := by decide
example : murmur2Java [0x61, 0x2d, 0x6c, 0x69, 0x74, 0x74, 0x6c, 0x65, 0x2d, 0x62, 0x69, 0x74, 0x2d, 0x6c, 0x6f, 0x6e, 0x67, 0x2d, 0x73, 0x74, 0x72, 0x69, 0x6e, 0x67] = -985981536 := by decide
example : murmur2Java [0x61, 0x2d, 0x6c, 0x69, 0x74, 0x74, 0x6c, 0x65, 0x2d, 0x62, 0x69, 0x74, 0x2d, 0x6c, 0x6f, 0x6e, 0x67, 0x65, 0x72, 0x2d, 0x73, 0x74, 0x72, 0x69, 0x6e, 0x67] = -1486304829 := by decide
example : murmur2Java [0x6c, 0x6b, 0x6a, 0x68, 0x32, 0x33, 0x34, 0x6c, 0x68, 0x39, 0x66, 0x69, 0x75, 0x68, 0x39, 0x30, 0x79, 0x32, 0x33, 0x6f, 0x69, 0x75, 0x68, 0x73, 0x61, 0x66, 0x75, 0x6a, 0x68, 0x61, 0x64, 0x6f, 0x66, 0x32, 0x32, 0x39, 0x70, 0x68, 0x72, 0x39, 0x68, 0x31, 0x39, 0x68, 0x38, 0x39, 0x68, 0x38] = -58897971 := by decide
example : murmur2Java [0x61, 0x62, 0x63] = 479470107 := by decide

/-! ### hashers: formulas, for every hash value / key and every n ≥ 1 -/

/-- `KafkaHasher(f)(key, n) = toPositive(int32 f(key)) % n` (sign bit masked, then modulo), never panics. -/
theorem kafkaHasher_formula (h : BitVec 32) (n : Int) (hn : 1 ≤ n) :
    kafkaHasher h n = some (kafkaOfHash h.toNat n) :=
  kafkaHasher_eq h n hn

/-- The default key hasher picks exactly the Java client's partition:
`toPositive(Utils.murmur2(key)) % numPartitions`. -/
theorem default_hasher_is_java (key : List UInt8) (n : Int) (hn : 1 ≤ n) :
    defaultHasher key n = some (kafkaPartition key n) := by
  unfold defaultHasher
  rw [kafkaHasher_eq _ _ hn, murmur2_toNat]
  unfold kafkaOfHash kafkaPartition murmur2Java
  rfl

example : (1 : Int) ≤ 2147483647 := by decide

/-- `SaramaCompatHasher(f)(key, n) = |int32 f(key)| mod n` (Sarama's signed remainder then negate),
for every partition count an int32 can hold. -/
theorem saramaCompat_formula (h : BitVec 32) (n : Int) (hn : 1 ≤ n) (hn2 : n ≤ 2147483647) :
    saramaCompatHasher h n = some (saramaPartition h.toNat n) :=
  saramaCompatHasher_eq h n hn hn2

/-- The int32 boundary is where Sarama differs from Kafka: hash 0x80000000, n = 3. -/
example : saramaCompatHasher 0x80000000#32 3 = some 2 ∧ kafkaHasher 0x80000000#32 3 = some 0 := by decide

/-- `SaramaHasher(f)(key, n)` on a 64-bit platform is the unsigned hash modulo n. -/
theorem sarama_formula (h : BitVec 32) (n : Int) (hn : 1 ≤ n) :
    saramaHasher h n = some (unsignedPartition h.toNat n) :=
  saramaHasher_eq h n hn

theorem emod_range (x n : Int) (hn : 1 ≤ n) : 0 ≤ x % n ∧ x % n < n :=
  ⟨Int.emod_nonneg _ (by omega), Int.emod_lt_of_pos _ (by omega)⟩

/-- Every built-in hasher, over any hash function, never panics and returns an index in `[0,n)`. -/
theorem kafka_hasher_ok (f : List UInt8 → BitVec 32) : HasherOk (fun k n => kafkaHasher (f k) n) := by
  intro k n hn _
  exact ⟨_, kafkaHasher_eq _ _ hn, emod_range _ _ hn⟩

theorem default_hasher_ok : HasherOk defaultHasher := kafka_hasher_ok murmur2

theorem sarama_hasher_ok (f : List UInt8 → BitVec 32) : HasherOk (fun k n => saramaHasher (f k) n) := by
  intro k n hn _
  exact ⟨_, saramaHasher_eq _ _ hn, emod_range _ _ hn⟩

theorem saramaCompat_hasher_ok (f : List UInt8 → BitVec 32) : HasherOk (fun k n => saramaCompatHasher (f k) n) := by
  intro k n hn hn2
  exact ⟨_, saramaCompatHasher_eq _ _ hn hn2, emod_range _ _ hn⟩

/-! ### every partitioner, every op sequence: every pick is in `[0, n)` -/

/-- One call from any state satisfying the invariant (pinned index is −1 or ≥ 0, possibly ≥ the new `n`:
the count may have shrunk): no panic, the pick is in `[0,n)`, the invariant is kept. -/
theorem each_call_in_range (k : PKind) (s : PState) (r : Rec) (n : Int) (mapping : List Int) (draws : List Nat)
    (hk : KindOk k) (hs : Inv k s) (hv : OpValid k (.part r n mapping draws)) :
    ∃ s' p, k.partitionN s r n (Iter.ofMapping mapping) draws = .ok s' p ∧ Inv k s' ∧ 0 ≤ p ∧ p < n :=
  part_ok k s r n mapping draws hk hs hv

/-- For every built-in partitioner (with a built-in hasher), every sequence of partition calls and
`OnNewBatch` events — any records, any `n_i ∈ [1, 2^31−1]` growing or shrinking arbitrarily, any
buffered-record counts, any random draws — the run never panics and every pick lies in `[0, n_i)`. -/
theorem every_pick_in_range (k : PKind) (hk : KindOk k) (ops : List Op) (hv : ∀ op ∈ ops, OpValid k op) :
    ∃ picks, k.run k.init ops = some picks ∧ ∀ t ∈ picks, 0 ≤ t.2.2 ∧ t.2.2 < t.2.1 := by
  obtain ⟨picks, e, h, _⟩ := run_ok k hk .consistentOnly (ruleOk_consistentOnly k) ops k.init [] (init_inv k) hv (by simp)
  exact ⟨picks, e, h⟩

/-- Model ⇒ Spec on whole traces: the observations of every such run satisfy the executable Spec the
driver evaluates on the implementation (`traceOk`: range, equal key and n ⇒ equal pick, and the key
rule's formula whenever the configured hasher computes it). -/
theorem run_meets_spec (k : PKind) (hk : KindOk k) (rule : KeyRule) (hr : RuleOk k rule) (ops : List Op)
    (hv : ∀ op ∈ ops, OpValid k op) :
    ∃ picks, k.run k.init ops = some picks ∧ traceOk rule [] (picks.map toObs) = true := by
  obtain ⟨picks, e, _, h⟩ := run_ok k hk rule hr ops k.init [] (init_inv k) hv (by simp)
  exact ⟨picks, e, h⟩

/-- The rules the driver uses are the ones the configured hashers compute. -/
theorem rule_default_stickyKey : RuleOk (.stickyKey defaultHasher) .kafkaDefault := by
  intro key n f hn _ h
  simp only [ruleFormula, Option.some.injEq] at h
  subst h
  exact default_hasher_is_java key n hn

theorem rule_default_uniformBytes (c : UBCfg) (hh : c.hasher = defaultHasher) : RuleOk (.uniformBytes c) .kafkaDefault := by
  intro key n f hn _ h
  simp only [ruleFormula, Option.some.injEq] at h
  subst h
  simp only [kindHasher, hh]
  exact default_hasher_is_java key n hn

theorem rule_saramaCompat_stickyKey :
    RuleOk (.stickyKey (fun k n => saramaCompatHasher (fnv32a k) n)) .saramaFnv := by
  intro key n f hn hn2 h
  simp only [ruleFormula, Option.some.injEq] at h
  subst h
  simp only [kindHasher]
  rw [saramaCompatHasher_eq _ _ hn hn2, fnv_eq]

theorem rule_sarama_stickyKey :
    RuleOk (.stickyKey (fun k n => saramaHasher (fnv32a k) n)) .unsignedFnv := by
  intro key n f hn _ h
  simp only [ruleFormula, Option.some.injEq] at h
  subst h
  simp only [kindHasher]
  rw [saramaHasher_eq _ _ hn, fnv_eq]

/-- non-vacuity: a least-backup sequence whose `n` shrinks from 3 to 2 below the pinned index. -/
example : OpValid .leastBackup (.part ⟨none, 0, []⟩ 3 [5, 5, 0] [1]) ∧
    OpValid .leastBackup (.part ⟨none, 0, []⟩ 2 [5, 5] []) ∧
    PKind.run .leastBackup (PKind.init .leastBackup)
      [.part ⟨none, 0, []⟩ 3 [5, 5, 0] [1], .part ⟨none, 0, []⟩ 2 [5, 5] [1]] = some [(none, 3, 2), (none, 2, 1)] := by
  refine ⟨⟨by decide, by decide, fun _ => ⟨by decide, by decide⟩⟩, ⟨by decide, by decide, fun _ => ⟨by decide, by decide⟩⟩, by decide⟩

example : KindOk (.stickyKey defaultHasher) := default_hasher_ok

/-! ### equal keys ⇒ equal partition (for equal n), whatever happened before -/

/-- Sticky-key: a keyed record's pick depends only on (key, n): not on the state, not on the draws. -/
theorem stickyKey_keyed_ignores_state (h : Hasher) (s₁ s₂ : Sticky) (key : List UInt8) (n : Int) (raw₁ raw₂ : Nat) :
    (stickyKeyPartition h s₁ (some key) n raw₁).pick? = (stickyKeyPartition h s₂ (some key) n raw₂).pick? := by
  unfold stickyKeyPartition
  dsimp only
  cases h key n <;> rfl

/-- Uniform-bytes with `keys = true`: the same. -/
theorem uniformBytes_keyed_ignores_state (c : UBCfg) (hkeys : c.keys = true) (s₁ s₂ : UB) (r₁ r₂ : Rec)
    (key : List UInt8) (h₁ : r₁.key = some key) (h₂ : r₂.key = some key) (n : Int) (it₁ it₂ : Iter) (raw₁ raw₂ : Nat) :
    (s₁.partitionByBackup c r₁ n it₁ raw₁).pick? = (s₂.partitionByBackup c r₂ n it₂ raw₂).pick? := by
  unfold UB.partitionByBackup
  rw [hkeys, h₁, h₂]
  simp only [↓reduceIte]
  cases c.hasher key n <;> rfl

/-- With the default hasher a keyed record goes where the Java client sends it. -/
theorem stickyKey_default_is_java (s : Sticky) (key : List UInt8) (n : Int) (raw : Nat) (hn : 1 ≤ n) :
    (stickyKeyPartition defaultHasher s (some key) n raw).pick? = some (kafkaPartition key n) := by
  unfold stickyKeyPartition
  simp only [default_hasher_is_java key n hn, Outcome.pick?]

theorem uniformBytes_default_is_java (c : UBCfg) (hkeys : c.keys = true) (hh : c.hasher = defaultHasher) (s : UB)
    (r : Rec) (key : List UInt8) (h₁ : r.key = some key) (n : Int) (it : Iter) (raw : Nat) (hn : 1 ≤ n) :
    (s.partitionByBackup c r n it raw).pick? = some (kafkaPartition key n) := by
  unfold UB.partitionByBackup
  rw [hkeys, h₁, hh]
  simp only [↓reduceIte, default_hasher_is_java key n hn, Outcome.pick?]

/-! ### the producer rejects any out-of-range pick -/

/-- `doPartition` fails the record exactly when the pick is outside `[0, len(mapping))`. -/
theorem doPartition_rejects_iff (pick : Int) (len : Nat) :
    doPartitionRejects pick len = false ↔ (0 ≤ pick ∧ pick < (len : Int)) := by
  unfold doPartitionRejects
  simp only [Bool.or_eq_false_iff, decide_eq_false_iff_not]
  omega

/-- … which is the Spec's `rejectOk`. -/
theorem doPartition_meets_spec (pick : Int) (len : Nat) : rejectOk len pick (doPartitionRejects pick len) = true := by
  unfold rejectOk doPartitionRejects inRange
  by_cases h1 : pick < 0 <;> by_cases h2 : pick ≥ (len : Int) <;> simp [h1, h2] <;> omega

end Props.C28
