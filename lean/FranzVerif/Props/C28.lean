import FranzVerif.Model.C28
import FranzVerif.Spec.C28
import FranzVerif.Proof.C28
import FranzVerif.Proof.C28Sel
/-! C28 — property theorems: "Partitioners pick valid, Kafka-compatible partitions".

`Model.C28` is the transcription of pkg/kgo/partitioner.go (tied to the code by the differential run),
`Spec.C28` is the independent statement (Java `Utils.murmur2` / `toPositive` / `% numPartitions` over
`Nat` with explicit `mod 2^32`, Sarama's signed formula, index range, key consistency).
Every `rand` draw is universally quantified (`raw`, `draws`); `Intn(n)` is `raw % n`. -/
namespace Props.C28
open Model.C28 Spec.C28 Proof.C28

/-! ### murmur2 is the Java client's murmur2, for every key (no bound on the length) -/

/-- Go `murmur2` (BitVec 32, slice-consuming loop, unsigned bytes) = Java `Utils.murmur2` (index loop,
signed bytes masked with 0xff, int arithmetic as explicit `mod 2^32`), as 32-bit residues. -/
theorem murmur2_eq_java (key : List UInt8) : (murmur2 key).toNat = murmur2U key :=
  murmur2_toNat key

/-- … and as the signed Java `int`. -/
theorem murmur2_eq_java_int (key : List UInt8) : (murmur2 key).toInt = murmur2Java key := by
  have hlt := (murmur2 key).isLt
  rw [BitVec.toInt_eq_toNat_cond, murmur2Java, ← murmur2_toNat, toInt32]
  split <;> split <;> omega

example : murmur2 [] ≠ murmur2 [0] := by decide

/-- The Spec's Java transcription reproduces the vectors of Kafka's `UtilsTest.testMurmur2`
("21", "foobar", "a-little-bit-long-string", "a-little-bit-longer-string",
"lkjh234lh9fiuh90y23oiuhsafujhadof229phr9h19h89h8", "abc"), as remembered; checked by the kernel. -/
example : murmur2Java [0x32, 0x31] = -973932308 := by decide
example : murmur2Java [0x66, 0x6f, 0x6f, 0x62, 0x61, 0x72] = -790332482 := by decide
example : murmur2Java [0x61, 0x2d, 0x6c, 0x69, 0x74, 0x74, 0x6c, 0x65, 0x2d, 0x62, 0x69, 0x74, 0x2d, 0x6c, 0x6f, 0x6e, 0x67, 0x2d, 0x73, 0x74, 0x72, 0x69, 0x6e, 0x67] = -985981536 := by decide
example : murmur2Java [0x61, 0x2d, 0x6c, 0x69, 0x74, 0x74, 0x6c, 0x65, 0x2d, 0x62, 0x69, 0x74, 0x2d, 0x6c, 0x6f, 0x6e, 0x67, 0x65, 0x72, 0x2d, 0x73, 0x74, 0x72, 0x69, 0x6e, 0x67] = -1486304829 := by decide
example : murmur2Java [0x6c, 0x6b, 0x6a, 0x68, 0x32, 0x33, 0x34, 0x6c, 0x68, 0x39, 0x66, 0x69, 0x75, 0x68, 0x39, 0x30, 0x79, 0x32, 0x33, 0x6f, 0x69, 0x75, 0x68, 0x73, 0x61, 0x66, 0x75, 0x6a, 0x68, 0x61, 0x64, 0x6f, 0x66, 0x32, 0x32, 0x39, 0x70, 0x68, 0x72, 0x39, 0x68, 0x31, 0x39, 0x68, 0x38, 0x39, 0x68, 0x38] = -58897971 := by decide
example : murmur2Java [0x61, 0x62, 0x63] = 479470107 := by decide

/-! ### hashers: formulas, for every hash value / key and every n ≥ 1 -/

/-- `KafkaHasher(f)(key, n) = toPositive(int32 f(key)) % n` (sign bit masked, then modulo), never panics. -/
theorem kafkaHasher_formula (h : BitVec 32) (n : Int) (hn : 1 ≤ n) :
    kafkaHasher h n = some (kafkaOfHash h.toNat n) :=
  kafkaHasher_eq h n hn

/-- The default key hasher picks exactly the Java client's partition:
`toPositive(Utils.murmur2(key)) % numPartitions`. -/
theorem default_hasher_is_java (key : List UInt8) (n : Int) (hn : 1 ≤ n) :
    defaultHasher key n = some (kafkaPartition key n) := by
  unfold defaultHasher
  rw [kafkaHasher_eq _ _ hn, murmur2_toNat]
  unfold kafkaOfHash kafkaPartition murmur2Java
  rfl

example : (1 : Int) ≤ 2147483647 := by decide

/-- `SaramaCompatHasher(f)(key, n) = |int32 f(key)| mod n` (Sarama's signed remainder then negate),
for every partition count an int32 can hold. -/
theorem saramaCompat_formula (h : BitVec 32) (n : Int) (hn : 1 ≤ n) (hn2 : n ≤ 2147483647) :
    saramaCompatHasher h n = some (saramaPartition h.toNat n) :=
  saramaCompatHasher_eq h n hn hn2

/-- The int32 boundary is where Sarama differs from Kafka: hash 0x80000000, n = 3. -/
example : saramaCompatHasher 0x80000000#32 3 = some 2 ∧ kafkaHasher 0x80000000#32 3 = some 0 := by decide

/-- `SaramaHasher(f)(key, n)` on a 64-bit platform is the unsigned hash modulo n. -/
theorem sarama_formula (h : BitVec 32) (n : Int) (hn : 1 ≤ n) :
    saramaHasher h n = some (unsignedPartition h.toNat n) :=
  saramaHasher_eq h n hn

theorem emod_range (x n : Int) (hn : 1 ≤ n) : 0 ≤ x % n ∧ x % n < n :=
  ⟨Int.emod_nonneg _ (by omega), Int.emod_lt_of_pos _ (by omega)⟩

/-- Every built-in hasher, over any hash function, never panics and returns an index in `[0,n)`. -/
theorem kafka_hasher_ok (f : List UInt8 → BitVec 32) : HasherOk (fun k n => kafkaHasher (f k) n) := by
  intro k n hn _
  exact ⟨_, kafkaHasher_eq _ _ hn, emod_range _ _ hn⟩

theorem default_hasher_ok : HasherOk defaultHasher := kafka_hasher_ok murmur2

theorem sarama_hasher_ok (f : List UInt8 → BitVec 32) : HasherOk (fun k n => saramaHasher (f k) n) := by
  intro k n hn _
  exact ⟨_, saramaHasher_eq _ _ hn, emod_range _ _ hn⟩

theorem saramaCompat_hasher_ok (f : List UInt8 → BitVec 32) : HasherOk (fun k n => saramaCompatHasher (f k) n) := by
  intro k n hn hn2
  exact ⟨_, saramaCompatHasher_eq _ _ hn hn2, emod_range _ _ hn⟩

/-! ### every partitioner, every op sequence: every pick is in `[0, n)` -/

/-- One call from any state satisfying the invariant (pinned index is −1 or ≥ 0, possibly ≥ the new `n`:
the count may have shrunk): no panic, the pick is in `[0,n)`, the invariant is kept. -/
theorem each_call_in_range (k : PKind) (s : PState) (r : Rec) (n : Int) (mapping : List Int) (draws : List Nat)
    (hk : KindOk k) (hs : Inv k s) (hv : OpValid k (.part r n mapping draws)) :
    ∃ s' p, k.partitionN s r n (Iter.ofMapping mapping) draws = .ok s' p ∧ Inv k s' ∧ 0 ≤ p ∧ p < n :=
  part_ok k s r n mapping draws hk hs hv

/-- For every built-in partitioner (with a built-in hasher), every sequence of partition calls and
`OnNewBatch` events — any records, any `n_i ∈ [1, 2^31−1]` growing or shrinking arbitrarily, any
buffered-record counts, any random draws — the run never panics and every pick lies in `[0, n_i)`. -/
theorem every_pick_in_range (k : PKind) (hk : KindOk k) (ops : List Op) (hv : ∀ op ∈ ops, OpValid k op) :
    ∃ picks, k.run k.init ops = some picks ∧ ∀ t ∈ picks, 0 ≤ t.2.2 ∧ t.2.2 < t.2.1 := by
  obtain ⟨picks, e, h, _⟩ := run_ok k hk .consistentOnly (ruleOk_consistentOnly k) ops k.init [] (init_inv k) hv (by simp)
  exact ⟨picks, e, h⟩

/-- Model ⇒ Spec on whole traces: the observations of every such run satisfy the executable Spec the
driver evaluates on the implementation (`traceOk`: range, equal key and n ⇒ equal pick, and the key
rule's formula whenever the configured hasher computes it). -/
theorem run_meets_spec (k : PKind) (hk : KindOk k) (rule : KeyRule) (hr : RuleOk k rule) (ops : List Op)
    (hv : ∀ op ∈ ops, OpValid k op) :
    ∃ picks, k.run k.init ops = some picks ∧ traceOk rule [] (picks.map toObs) = true := by
  obtain ⟨picks, e, _, h⟩ := run_ok k hk rule hr ops k.init [] (init_inv k) hv (by simp)
  exact ⟨picks, e, h⟩

/-- The rules the driver uses are the ones the configured hashers compute. -/
theorem rule_default_stickyKey : RuleOk (.stickyKey defaultHasher) .kafkaDefault := by
  intro key n f hn _ h
  simp only [ruleFormula, Option.some.injEq] at h
  subst h
  exact default_hasher_is_java key n hn

theorem rule_default_uniformBytes (c : UBCfg) (hh : c.hasher = defaultHasher) : RuleOk (.uniformBytes c) .kafkaDefault := by
  intro key n f hn _ h
  simp only [ruleFormula, Option.some.injEq] at h
  subst h
  simp only [kindHasher, hh]
  exact default_hasher_is_java key n hn

theorem rule_saramaCompat_stickyKey :
    RuleOk (.stickyKey (fun k n => saramaCompatHasher (fnv32a k) n)) .saramaFnv := by
  intro key n f hn hn2 h
  simp only [ruleFormula, Option.some.injEq] at h
  subst h
  simp only [kindHasher]
  rw [saramaCompatHasher_eq _ _ hn hn2, fnv_eq]

theorem rule_sarama_stickyKey :
    RuleOk (.stickyKey (fun k n => saramaHasher (fnv32a k) n)) .unsignedFnv := by
  intro key n f hn _ h
  simp only [ruleFormula, Option.some.injEq] at h
  subst h
  simp only [kindHasher]
  rw [saramaHasher_eq _ _ hn, fnv_eq]

/-- non-vacuity: a least-backup sequence whose `n` shrinks from 3 to 2 below the pinned index. -/
example : OpValid .leastBackup (.part ⟨none, 0, [], 0⟩ 3 [5, 5, 0] [1]) ∧
    OpValid .leastBackup (.part ⟨none, 0, [], 0⟩ 2 [5, 5] []) ∧
    PKind.run .leastBackup (PKind.init .leastBackup)
      [.part ⟨none, 0, [], 0⟩ 3 [5, 5, 0] [1], .part ⟨none, 0, [], 0⟩ 2 [5, 5] [1]] = some [(none, 3, 2), (none, 2, 1)] := by
  refine ⟨⟨by decide, by decide, fun _ => ⟨by decide, by decide⟩⟩, ⟨by decide, by decide, fun _ => ⟨by decide, by decide⟩⟩, by decide⟩

example : KindOk (.stickyKey defaultHasher) := default_hasher_ok

/-! ### equal keys ⇒ equal partition (for equal n), whatever happened before -/

/-- Sticky-key: a keyed record's pick depends only on (key, n): not on the state, not on the draws. -/
theorem stickyKey_keyed_ignores_state (h : Hasher) (s₁ s₂ : Sticky) (key : List UInt8) (n : Int) (raw₁ raw₂ : Nat) :
    (stickyKeyPartition h s₁ (some key) n raw₁).pick? = (stickyKeyPartition h s₂ (some key) n raw₂).pick? := by
  unfold stickyKeyPartition
  dsimp only
  cases h key n <;> rfl

/-- Uniform-bytes with `keys = true`: the same. -/
theorem uniformBytes_keyed_ignores_state (c : UBCfg) (hkeys : c.keys = true) (s₁ s₂ : UB) (r₁ r₂ : Rec)
    (key : List UInt8) (h₁ : r₁.key = some key) (h₂ : r₂.key = some key) (n : Int) (it₁ it₂ : Iter) (raw₁ raw₂ : Nat) :
    (s₁.partitionByBackup c r₁ n it₁ raw₁).pick? = (s₂.partitionByBackup c r₂ n it₂ raw₂).pick? := by
  unfold UB.partitionByBackup
  rw [hkeys, h₁, h₂]
  simp only [↓reduceIte]
  cases c.hasher key n <;> rfl

/-- With the default hasher a keyed record goes where the Java client sends it. -/
theorem stickyKey_default_is_java (s : Sticky) (key : List UInt8) (n : Int) (raw : Nat) (hn : 1 ≤ n) :
    (stickyKeyPartition defaultHasher s (some key) n raw).pick? = some (kafkaPartition key n) := by
  unfold stickyKeyPartition
  simp only [default_hasher_is_java key n hn, Outcome.pick?]

theorem uniformBytes_default_is_java (c : UBCfg) (hkeys : c.keys = true) (hh : c.hasher = defaultHasher) (s : UB)
    (r : Rec) (key : List UInt8) (h₁ : r.key = some key) (n : Int) (it : Iter) (raw : Nat) (hn : 1 ≤ n) :
    (s.partitionByBackup c r n it raw).pick? = some (kafkaPartition key n) := by
  unfold UB.partitionByBackup
  rw [hkeys, h₁, hh]
  simp only [↓reduceIte, default_hasher_is_java key n hn, Outcome.pick?]

/-! ### `RequiresConsistency` is true exactly for the records the partitioner hashes

`PKind.obsKey` is the key the key logic of `Partition` / `PartitionByBackup` sees (the scrutinee of their
`if r.Key != nil` / `if p.u.keys && r.Key != nil` branch).  For the five partitioners with state,
`RequiresConsistency(r)` holds iff that branch is taken; when it is taken the pick is the hasher's answer
from every state, when it is not the hasher is never consulted.  `BasicConsistentPartitioner` /
`ManualPartitioner` always require consistency (their pick is a function of the record and `n` alone). -/

theorem requiresConsistency_iff_hashed (k : PKind) (hb : k.isBasic = false) (r : Rec) :
    k.requiresConsistency r = true ↔ ∃ key, k.obsKey r = some key := by
  rw [requiresConsistency_eq, hb, Bool.or_false, Option.isSome_iff_exists]

theorem basic_requires_consistency (f : Rec → Int → Option Int) (r : Rec) :
    (PKind.basic f).requiresConsistency r = true := rfl

/-- a record that requires consistency under a stateful partitioner is mapped by the hasher alone:
every state, every backup iterator, every random draw give `hasher(key, n)`, and the state is not touched. -/
theorem consistent_record_is_hashed (k : PKind) (hk : KindOk k) (hb : k.isBasic = false) (r : Rec)
    (hrc : k.requiresConsistency r = true) :
    ∃ key, r.key = some key ∧ ∀ (s : PState), Inv k s → ∀ (n : Int), 1 ≤ n → n ≤ 2147483647 →
      ∀ (it : Iter) (draws : List Nat),
        ∃ p, kindHasher k key n = some p ∧ 0 ≤ p ∧ p < n ∧ k.partitionN s r n it draws = .ok s p := by
  obtain ⟨key, hkey⟩ := (requiresConsistency_iff_hashed k hb r).mp hrc
  refine ⟨key, ?_, fun s hs n hn hn2 it draws => keyed_partitionN k hk s hs r key hkey n hn hn2 it draws⟩
  cases k with
  | stickyKey h => exact hkey
  | uniformBytes c =>
    simp only [PKind.obsKey] at hkey
    cases hc : c.keys <;> simp [hc] at hkey
    exact hkey
  | _ => simp [PKind.obsKey] at hkey

/-- a record that does not require consistency is partitioned without the hasher: any other hasher gives
the same outcome (pick and successor state). -/
theorem inconsistent_record_is_not_hashed (k : PKind) (r : Rec) (hrc : k.requiresConsistency r = false)
    (h' : Hasher) (s : PState) (n : Int) (it : Iter) (draws : List Nat) :
    (k.withHasher h').partitionN s r n it draws = k.partitionN s r n it draws := by
  apply unhashed_ignores_hasher
  rw [requiresConsistency_eq] at hrc
  cases ho : k.obsKey r with
  | none => rfl
  | some key => simp [ho] at hrc

/-- an empty, non-nil key is a key: sticky-key and uniform-bytes (keys on) require consistency for it. -/
example : (PKind.stickyKey defaultHasher).requiresConsistency ⟨some [], 0, [], 0⟩ = true ∧
    (PKind.uniformBytes ⟨65536, true, true, defaultHasher⟩).requiresConsistency ⟨some [], 0, [], 0⟩ = true ∧
    (PKind.uniformBytes ⟨65536, true, false, defaultHasher⟩).requiresConsistency ⟨some [], 0, [], 0⟩ = false ∧
    (PKind.uniformBytes ⟨65536, true, true, defaultHasher⟩).requiresConsistency ⟨none, 0, [], 0⟩ = false := by
  decide

/-! ### the client around the partitioner (`doPartition`): key consistency across leader outages -/

/-- For a record that requires consistency `doPartition` never reads `writablePartitions`: replacing the
writable subset by any other list leaves the whole outcome unchanged (every partitioner, every state). -/
theorem consistent_record_ignores_writable (k : PKind) (s : PState) (t : TopicData) (w : List Part) (r : Rec)
    (d₁ d₂ : List Nat) (h : k.requiresConsistency r = true) :
    k.doPartition s { t with writable := w } r d₁ d₂ = k.doPartition s t r d₁ d₂ :=
  doPartition_consistent_writable k s t w r d₁ d₂ h

/-- **Keyed records.**  Every partitioner with key logic and a well-behaved hasher, every state, every record
whose key is non-nil (the empty key included) and seen by the key logic, every topic with
`1 ≤ len(partitions) ≤ 2^31-1` numbered `0 … len-1`, **every** `writablePartitions` (no hypothesis on it),
every buffered count, batch state and random draw: the record is handed to the partition whose *number* is
`hasher(key, len(partitions))`, looked up in *all* partitions. -/
theorem keyed_record_partition (k : PKind) (hk : KindOk k) (s : PState) (hs : Inv k s) (r : Rec) (key : List UInt8)
    (hkey : k.obsKey r = some key) (t : TopicData) (hf : t.fatalLoadErr = false)
    (h1 : 1 ≤ t.partitions.length) (h2 : t.partitions.length ≤ 2147483647) (hnum : Numbered t.partitions)
    (d₁ d₂ : List Nat) :
    ∃ s' part b, k.doPartition s t r d₁ d₂ = .placed s' part b ∧ Inv k s' ∧
      kindHasher k key t.partitions.length = some (part.num : Int) ∧ t.partitions[part.num]? = some part := by
  obtain ⟨s', part, b, e, hi, _, hh, hg⟩ := doPartition_keyed k hk s hs r key hkey t hf h1 h2 hnum d₁ d₂
  exact ⟨s', part, b, e, hi, hh, hg⟩

/-- … which for the default hasher is the partition the Java client picks over the topic's partition count:
`toPositive(murmur2(key)) % len(allPartitions)`, whatever subset is writable. -/
theorem keyed_record_goes_to_java_partition (k : PKind) (hk : KindOk k) (hr : RuleOk k .kafkaDefault)
    (s : PState) (hs : Inv k s) (r : Rec) (key : List UInt8) (hkey : k.obsKey r = some key) (t : TopicData)
    (hf : t.fatalLoadErr = false) (h1 : 1 ≤ t.partitions.length) (h2 : t.partitions.length ≤ 2147483647)
    (hnum : Numbered t.partitions) (d₁ d₂ : List Nat) :
    ∃ s' part b, k.doPartition s t r d₁ d₂ = .placed s' part b ∧
      (part.num : Int) = toPositive (murmur2Java key) % (t.partitions.length : Int) := by
  obtain ⟨s', part, b, e, _, hh, _⟩ := keyed_record_partition k hk s hs r key hkey t hf h1 h2 hnum d₁ d₂
  refine ⟨s', part, b, e, ?_⟩
  have := hr key t.partitions.length _ (by omega) (by omega) rfl
  rw [hh] at this
  exact Option.some.inj this

/-- **Equal keys map to the same partition across leader outages** (Model ⇒ Spec): two records with the
same key, produced at two moments of the same topic (same partition count; *different* writable subsets,
buffered counts, batch states, partitioner states and random draws), are placed on the same partition
number, and the second observation satisfies the Spec `selOk` the driver evaluates, given the first. -/
theorem equal_keys_same_partition_across_outage (k : PKind) (hk : KindOk k) (rule : KeyRule) (hr : RuleOk k rule)
    (key : List UInt8) (s₁ s₂ : PState) (hs₁ : Inv k s₁) (hs₂ : Inv k s₂) (r₁ r₂ : Rec)
    (hk₁ : k.obsKey r₁ = some key) (hk₂ : k.obsKey r₂ = some key) (t₁ t₂ : TopicData)
    (hf₁ : t₁.fatalLoadErr = false) (hf₂ : t₂.fatalLoadErr = false)
    (hlen : t₂.partitions.length = t₁.partitions.length)
    (h1 : 1 ≤ t₁.partitions.length) (h2 : t₁.partitions.length ≤ 2147483647)
    (hn₁ : Numbered t₁.partitions) (hn₂ : Numbered t₂.partitions) (d₁ d₂ e₁ e₂ : List Nat) :
    ∃ s₁' p₁ b₁ s₂' p₂ b₂,
      k.doPartition s₁ t₁ r₁ d₁ d₂ = .placed s₁' p₁ b₁ ∧ k.doPartition s₂ t₂ r₂ e₁ e₂ = .placed s₂' p₂ b₂ ∧
      p₁.num = p₂.num ∧
      selOk rule [⟨some key, t₁.partitions.length, t₁.writable.map (fun p => (p.num : Int)), p₁.num⟩]
        ⟨some key, t₂.partitions.length, t₂.writable.map (fun p => (p.num : Int)), p₂.num⟩ = true := by
  obtain ⟨s₁', p₁, b₁, e₁', _, hh₁, _⟩ := keyed_record_partition k hk s₁ hs₁ r₁ key hk₁ t₁ hf₁ h1 h2 hn₁ d₁ d₂
  obtain ⟨s₂', p₂, b₂, e₂', _, hh₂, hg₂⟩ :=
    keyed_record_partition k hk s₂ hs₂ r₂ key hk₂ t₂ hf₂ (by omega) (by omega) hn₂ e₁ e₂
  have hsame : p₁.num = p₂.num := by
    rw [hlen, hh₁] at hh₂
    have := Option.some.inj hh₂
    omega
  have hlt : p₂.num < t₂.partitions.length := by
    have := List.getElem?_eq_some_iff.mp hg₂
    exact this.1
  refine ⟨s₁', p₁, b₁, s₂', p₂, b₂, e₁', e₂', hsame, ?_⟩
  simp only [selOk, selKeyedOk, inRange, Bool.and_eq_true, decide_eq_true_eq, List.all_cons, List.all_nil,
    Bool.and_true]
  refine ⟨⟨by omega, by omega⟩, ?_, ?_⟩
  · simp [hsame]
  · cases rule with
    | consistentOnly => rfl
    | kafkaDefault =>
      have := hr key t₂.partitions.length _ (by omega) (by omega) rfl
      rw [hh₂] at this
      simp [ruleHolds, Option.some.inj this]
    | saramaFnv =>
      have := hr key t₂.partitions.length _ (by omega) (by omega) rfl
      rw [hh₂] at this
      simp [ruleHolds, Option.some.inj this]
    | unsignedFnv =>
      have := hr key t₂.partitions.length _ (by omega) (by omega) rfl
      rw [hh₂] at this
      simp [ruleHolds, Option.some.inj this]

/-- **Every record.**  Every built-in partitioner (well-behaved hasher), every state, every record, every
topic whose writable partitions are a sub-list of its `1 … 2^31-1` partitions: `doPartition` never panics,
never fails the record, and hands it to a partition of the topic — a *writable* one whenever the record
does not require consistency and some partition is writable. -/
theorem every_record_is_placed (k : PKind) (hk : KindOk k) (s : PState) (hs : Inv k s) (r : Rec) (t : TopicData)
    (hf : t.fatalLoadErr = false) (hm : MappingOk t.partitions) (hsub : t.writable.Sublist t.partitions)
    (d₁ d₂ : List Nat) :
    ∃ s' part b, k.doPartition s t r d₁ d₂ = .placed s' part b ∧ Inv k s' ∧ part ∈ t.partitions ∧
      (k.requiresConsistency r = false → t.writable ≠ [] → part ∈ t.writable) := by
  have hmw : t.writable ≠ [] → MappingOk t.writable := by
    intro hne
    refine ⟨?_, ?_, fun p hp => hm.2.2 p (hsub.subset hp)⟩
    · cases hw : t.writable with
      | nil => exact absurd hw hne
      | cons a l => simp
    · have := hsub.length_le; have := hm.2.1; omega
  have hmap : MappingOk (k.mappingOf r t) ∧ (∀ p ∈ k.mappingOf r t, p ∈ t.partitions) ∧
      (k.requiresConsistency r = false → t.writable ≠ [] → k.mappingOf r t = t.writable) := by
    unfold PKind.mappingOf
    by_cases hrc : k.requiresConsistency r = true
    · rw [if_pos hrc]; exact ⟨hm, fun _ h => h, fun h => by rw [hrc] at h; cases h⟩
    · rw [if_neg hrc]
      by_cases hw : t.writable = []
      · rw [if_pos ⟨by simp [hw], by have := hm.1; omega⟩]
        exact ⟨hm, fun _ h => h, fun _ h => absurd hw h⟩
      · have hl : ¬ (t.writable.length = 0 ∧ t.partitions.length > 0) := by
          intro h; exact hw (List.eq_nil_of_length_eq_zero h.1)
        rw [if_neg hl]
        exact ⟨hmw hw, fun p hp => hsub.subset hp, fun _ _ => rfl⟩
  obtain ⟨s', part, b, e, hi, hmem⟩ := doPartition_ok k hk s hs r t hf hmap.1 d₁ d₂
  refine ⟨s', part, b, e, hi, hmap.2.1 part hmem, fun h1 h2 => ?_⟩
  rw [hmap.2.2 h1 h2] at hmem
  exact hmem

/-- `ManualPartitioner` / `BasicConsistentPartitioner`: the function's answer indexes all partitions (or the
record is failed as an invalid choice); `writablePartitions` is never read. -/
theorem basic_record_partition (f : Rec → Int → Option Int) (t : TopicData) (hf : t.fatalLoadErr = false)
    (h1 : 1 ≤ t.partitions.length) (r : Rec) (p : Int) (hp : f r t.partitions.length = some p) (d₁ d₂ : List Nat) :
    (PKind.basic f).doPartition .unit t r d₁ d₂ =
      if doPartitionRejects p t.partitions.length then .failInvalid p t.partitions.length
      else match t.partitions[p.toNat]? with
        | none => .panic
        | some part => .placed .unit part false :=
  doPartition_basic f t hf h1 r p hp d₁ d₂

/-- Non-vacuity, and the case the text singles out ("all keys, including nil and empty"): the default
partitioner (uniform bytes, keys on, default hasher), a record with an **empty non-nil key**, a topic of four
partitions.  With every partition writable and with partition 3 leaderless the record goes to partition 1
(`murmur2("") = 275646681`, `275646681 % 4 = 1`, the Java client's pick); hashing over the three writable
partitions instead would have sent it to partition 0. -/
example :
    let k := PKind.uniformBytes ⟨65536, true, true, defaultHasher⟩
    let r : Rec := ⟨some [], 1, [], 0⟩
    let p0 : Part := ⟨0, 0, .newBatch⟩
    let p1 : Part := ⟨1, 2, .fits⟩
    let p2 : Part := ⟨2, 0, .newBatch⟩
    let p3 : Part := ⟨3, 7, .fits⟩
    (k.doPartition k.init ⟨false, [p0, p1, p2, p3], [p0, p1, p2, p3]⟩ r [] []).part? = some p1 ∧
    (k.doPartition k.init ⟨false, [p0, p1, p2, p3], [p0, p1, p2]⟩ r [] []).part? = some p1 ∧
    (k.doPartition k.init ⟨false, [p0, p1, p2, p3], []⟩ r [] []).part? = some p1 ∧
    k.requiresConsistency r = true ∧ k.obsKey r = some [] ∧
    kafkaPartition [] 4 = 1 ∧ defaultHasher [] 3 = some 0 ∧
    Numbered [p0, p1, p2, p3] := by
  refine ⟨by decide, by decide, by decide, by decide, by decide, by decide, by decide, by unfold Numbered; decide⟩

/-- the same topic, a nil key: the record avoids the leaderless partition. -/
example :
    let k := PKind.uniformBytes ⟨65536, false, true, defaultHasher⟩
    let p0 : Part := ⟨0, 0, .fits⟩
    let p1 : Part := ⟨1, 0, .fits⟩
    let p3 : Part := ⟨3, 0, .fits⟩
    (k.doPartition k.init ⟨false, [p0, p1, ⟨2, 0, .fits⟩, p3], [p0, p1, p3]⟩ ⟨none, 1, [], 0⟩ [2] []).part? = some p3 := by
  decide

example : KindOk (.uniformBytes ⟨65536, true, true, defaultHasher⟩) := default_hasher_ok
example : KindOk PKind.manual → False := by
  intro h
  obtain ⟨p, e, _, h1⟩ := h ⟨none, 0, [], 5⟩ 1 (by decide) (by decide)
  simp at e; omega

/-! ### the producer rejects any out-of-range pick -/

/-- `doPartition` fails the record exactly when the pick is outside `[0, len(mapping))`. -/
theorem doPartition_rejects_iff (pick : Int) (len : Nat) :
    doPartitionRejects pick len = false ↔ (0 ≤ pick ∧ pick < (len : Int)) := by
  unfold doPartitionRejects
  simp only [Bool.or_eq_false_iff, decide_eq_false_iff_not]
  omega

/-- … which is the Spec's `rejectOk`. -/
theorem doPartition_meets_spec (pick : Int) (len : Nat) : rejectOk len pick (doPartitionRejects pick len) = true := by
  unfold rejectOk doPartitionRejects inRange
  by_cases h1 : pick < 0 <;> by_cases h2 : pick ≥ (len : Int) <;> simp [h1, h2] <;> omega

end Props.C28
