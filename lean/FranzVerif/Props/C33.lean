import FranzVerif.Model.C33
import FranzVerif.Proof.C33
/-! C33 — property theorems (kfake persistence survives crashes at any write).

Crash model (the property's): a file is `synced ++ tail`; create / truncate / rename / remove are atomic and durable;
a crash is any prefix of the operation sequence followed by the loss, per file, of any suffix of its unsynced tail.
`crc` is a parameter (CRC-32C is not modelled); the only assumption on it, where one is needed, is stated explicitly.
JSON and OS semantics beyond this crash model are not modelled (level: proof, partial).

History: two statements of the property were false of the code when this check was built (segment/index k ↔ k
pairing after a torn append; replay of groups.log / pids.log after an untruncated torn tail). Both were repaired in
/repo (fc48882, a250036); the model follows the repaired code and the statements are now proved at full strength
(`pairing_all_histories`, `stateLog_all_histories`). One statement is still false (`crash_abort_not_durable`,
known finding `crash-aborted-txn-has-no-marker`). -/
namespace Props.C33
open Model.C33 Proof.C33

/-! ## Framing: `writeEntry` / `readEntries` -/

/-- Replay of complete frames followed by arbitrary bytes: exactly the framed entries, then whatever replay makes of
the rest. (All entries, all trailing bytes; the CRC only needs to fit its 4-byte field.) -/
theorem readEntries_frames_then_rest (crc : Bytes → Nat) (hc : CrcRange crc) (es : List Entry) (hes : ∀ e ∈ es, Entry.WF e)
    (rest : Bytes) :
    readEntries crc (frames crc es ++ rest) =
      (es ++ (readEntries crc rest).1, (frames crc es).length + (readEntries crc rest).2) :=
  readEntries_frames_append crc hc es hes rest

/-- A torn tail — any proper prefix of a frame — is invisible: replay returns exactly the complete entries and the
valid byte count is where the torn frame starts. No assumption on the CRC is needed. -/
theorem readEntries_torn_tail (crc : Bytes → Nat) (hc : CrcRange crc) (es : List Entry) (hes : ∀ e ∈ es, Entry.WF e)
    (e : Entry) (he : Entry.WF e) (n : Nat) (hn : n < (frame crc e).length) :
    readEntries crc (frames crc es ++ (frame crc e).take n) = (es, (frames crc es).length) := by
  rw [readEntries_frames_append crc hc es hes, readEntries_partial_frame crc e he n hn]
  simp

example : ∃ (es : List Entry) (e : Entry) (n : Nat), es ≠ [] ∧ (∀ x ∈ es, Entry.WF x) ∧ Entry.WF e ∧ 10 < n ∧ n < (frame (fun _ => 7) e).length :=
  ⟨[⟨1, [1, 2, 3]⟩], ⟨1, [4, 5, 6]⟩, 11, by decide, by decide, by decide, by decide, by decide⟩

/-- Clean stop (nothing lost): replay returns every entry. -/
theorem readEntries_clean (crc : Bytes → Nat) (hc : CrcRange crc) (es : List Entry) (hes : ∀ e ∈ es, Entry.WF e) :
    readEntries crc (frames crc es) = (es, (frames crc es).length) := by
  have := readEntries_frames_append crc hc es hes []
  simpa [readEntries, readEntriesAux] using this

/-- Arbitrary trailing junk: the complete entries are always a prefix of what replay returns, and they are exactly
what it returns under the CRC assumption that the junk does not start with a verifying frame. -/
theorem readEntries_arbitrary_junk (crc : Bytes → Nat) (hc : CrcRange crc) (es : List Entry) (hes : ∀ e ∈ es, Entry.WF e)
    (junk : Bytes) :
    es <+: (readEntries crc (frames crc es ++ junk)).1 ∧
    ((readEntries crc junk).1 = [] → (readEntries crc (frames crc es ++ junk)).1 = es) := by
  rw [readEntries_frames_append crc hc es hes]
  exact ⟨List.prefix_append _ _, fun h => by simp [h]⟩

/-! ## Crash at any operation of the append protocol (state logs under SyncWrites: write, sync per entry) -/

/-- After ANY prefix of `write f₀, sync, write f₁, sync, …` (k operations) and ANY loss of the unsynced tail, replay
returns a prefix `es.take m` of the issued entries with `k/2 ≤ m ≤ k/2+1`: every entry whose sync completed
(the only ones that can have been acknowledged) is recovered, at most the one in flight may or may not be, and
nothing else — no partial entry — is visible. -/
theorem stateLog_crash_recovery (crc : Bytes → Nat) (hc : CrcRange crc) (es : List Entry) (hes : ∀ e ∈ es, Entry.WF e)
    (k n : Nat) :
    ∃ m, k / 2 ≤ m ∧ m ≤ k / 2 + 1 ∧
      (readEntries crc ((runF {} ((appendHist (es.map (frame crc))).take k)).crash n).all).1 = es.take m := by
  have hc0 := crash_appendHist (es.map (frame crc)) [] k n
  have hf : ∀ j, ((es.map (frame crc)).take j).flatten = frames crc (es.take j) := by
    intro j; simp [frames, List.map_take]
  have hwf : ∀ j, ∀ e ∈ es.take j, Entry.WF e := fun j e he => hes e (List.mem_of_mem_take he)
  have hdef : (({} : FileSt)) = ⟨[], []⟩ := rfl
  rw [hdef, hc0, hf]
  by_cases hodd : k % 2 = 1
  · simp only [hodd, if_true, List.nil_append]
    by_cases hlt : k / 2 < es.length
    · have hget : (es.map (frame crc)).getD (k / 2) [] = frame crc es[k / 2] := by
        simp [List.getD_eq_getElem?_getD, hlt]
      rw [hget]
      by_cases hn : n < (frame crc es[k / 2]).length
      · refine ⟨k / 2, Nat.le_refl _, by omega, ?_⟩
        rw [readEntries_torn_tail crc hc _ (hwf _) _ (hes _ (List.getElem_mem hlt)) n hn]
      · refine ⟨k / 2 + 1, by omega, Nat.le_refl _, ?_⟩
        have : (frame crc es[k / 2]).take n = frame crc es[k / 2] := List.take_of_length_le (by omega)
        rw [this]
        have h2 : frames crc (es.take (k / 2)) ++ frame crc es[k / 2] = frames crc (es.take (k / 2 + 1)) := by
          rw [List.take_succ_eq_append_getElem hlt]; unfold frames; rw [List.map_append, List.flatten_append]; simp
        rw [h2, readEntries_clean crc hc _ (hwf _)]
    · refine ⟨k / 2, Nat.le_refl _, by omega, ?_⟩
      have hge : (es.map (frame crc)).length ≤ k / 2 := by simp; omega
      have : (es.map (frame crc)).getD (k / 2) [] = [] := by
        rw [List.getD_eq_getElem?_getD, List.getElem?_eq_none hge]; rfl
      rw [this]
      simp only [List.take_nil, List.append_nil]
      rw [readEntries_clean crc hc _ (hwf _)]
  · refine ⟨k / 2, Nat.le_refl _, by omega, ?_⟩
    simp only [hodd, if_false, List.append_nil, List.nil_append]
    rw [readEntries_clean crc hc _ (hwf _)]

example : ∃ (es : List Entry) (k : Nat), 2 ≤ es.length ∧ k % 2 = 1 ∧ k / 2 < es.length :=
  ⟨[⟨1, [1]⟩, ⟨1, [2]⟩], 3, by decide, by decide, by decide⟩

/-- Clean Close (every operation done, nothing lost) + restart: identical entries. -/
theorem stateLog_clean_close (crc : Bytes → Nat) (hc : CrcRange crc) (es : List Entry) (hes : ∀ e ∈ es, Entry.WF e) :
    (readEntries crc (runF {} (appendHist (es.map (frame crc)))).all).1 = es := by
  obtain ⟨m, h1, _, h3⟩ := stateLog_crash_recovery crc hc es hes (2 * es.length) 0
  have hk : (appendHist (es.map (frame crc))).take (2 * es.length) = appendHist (es.map (frame crc)) := by
    apply List.take_of_length_le
    have : ∀ (l : List Bytes), (appendHist l).length = 2 * l.length := by
      intro l; induction l with
      | nil => rfl
      | cons b r ih => rw [appendHist_cons]; simp [ih]; omega
    rw [this]; simp
  rw [hk] at h3
  have hs : ∀ (f : FileSt), f.tail = [] → (f.crash 0).all = f.all := by
    intro f h; simp [FileSt.crash, FileSt.all, h]
  have htail : (runF {} (appendHist (es.map (frame crc)))).tail = [] := by
    have : ∀ (l : List Bytes) (s0 : Bytes), (runF ⟨s0, []⟩ (appendHist l)).tail = [] := by
      intro l; induction l with
      | nil => intro s0; rfl
      | cons b r ih => intro s0; rw [appendHist_cons]; simp only [runF, List.foldl_cons, FileSt.step, FileSt.write, FileSt.sync, FileSt.all]; exact ih _
    exact this _ []
  rw [hs _ htail] at h3
  rw [h3]
  exact List.take_of_length_le (by omega)

/-- STATE LOGS, ALL HISTORIES. Any number of generations; each one starts by cutting the log at its last valid entry
(`loadGroupsLog` / `loadPIDsLog` after fix a250036), appends entries (write, sync each; an entry can only have been
acknowledged after its sync), and stops after ANY number `k` of file operations with ANY `n` bytes of the unsynced
tail surviving. The final replay returns, generation by generation and in order, a prefix `es.take m` of that
generation's entries with `k/2 ≤ m ≤ k/2 + 1`: every synced entry of every generation, at most the in-flight one
more, nothing partial and nothing out of order. -/
theorem stateLog_all_histories (crc : Bytes → Nat) (hc : CrcRange crc) (gs : List LogGen) (hgs : ∀ g ∈ gs, LogGenWF g) :
    ∃ ms, LogBounds gs ms ∧ (readEntries crc (runLog crc gs)).1 = pickLog gs ms := by
  obtain ⟨ms, hb, t', ht', hr⟩ := runLog_spec crc hc gs hgs [] [] (by simp) (Or.inl rfl)
  refine ⟨ms, hb, ?_⟩
  have h0 : frames crc ([] : List Entry) ++ [] = [] := by simp [frames]
  rw [h0] at hr
  have hwf : ∀ e ∈ pickLog gs ms, Entry.WF e := by
    have : ∀ (gs : List LogGen) (ms : List Nat), (∀ g ∈ gs, LogGenWF g) → ∀ e ∈ pickLog gs ms, Entry.WF e := by
      intro gs
      induction gs with
      | nil => intro ms _ e he; simp [pickLog] at he
      | cons g gs ih =>
        intro ms h e he
        cases ms with
        | nil => simp [pickLog] at he
        | cons m ms =>
          simp only [pickLog, List.mem_append] at he
          rcases he with he | he
          · exact h g (by simp) e (List.mem_of_mem_take he)
          · exact ih ms (fun x hx => h x (by simp [hx])) e he
    exact this gs ms hgs
  unfold runLog
  rw [hr, List.nil_append, readEntries_frames_append crc hc _ hwf, tornOK_read crc t' ht']
  simp

example : ∃ gs : List LogGen, (∀ g ∈ gs, LogGenWF g) ∧ gs.length = 3 ∧ ∀ g ∈ gs, g.k % 2 = 1 ∧ g.k / 2 < g.es.length :=
  ⟨[⟨[⟨1, [1]⟩, ⟨1, [2]⟩], 3, 5⟩, ⟨[⟨1, [3]⟩], 1, 11⟩, ⟨[⟨1, [4]⟩, ⟨1, [5]⟩], 1, 0⟩], by decide, by decide, by decide⟩

/-- The history that lost an acknowledged entry before the repair (an 11-byte torn frame, restart, one entry written and
synced, restart): the entry is recovered. (`sumCrc`: a checksum small enough for the kernel.) -/
def sumCrc (bs : Bytes) : Nat := (bs.foldl (fun a b => a + b.toNat) 0) % 4294967296

theorem stateLog_regression :
    (readEntries sumCrc (runLog sumCrc [⟨[⟨1, [170, 187]⟩], 1, 11⟩, ⟨[⟨1, [1]⟩], 2, 0⟩])).1 = [⟨1, [1]⟩] := by decide

/-! ## Snapshots: temp file + sync + rename -/

/-- After any prefix of `writeJSONFile`'s operations and any crash, the path holds the old file (as the crash leaves
it) or exactly the new content — never a mixture or a partial file. -/
theorem snapshot_old_or_new (fs : FS) (path : String) (data : Bytes) (k : Nat) (keep : String → FileSt → Nat)
    (hne : path ++ ".tmp" ≠ path) :
    (crashImage fs (writeJSONOps path data) k keep).get path = (fs.crash keep).get path ∨
    ((crashImage fs (writeJSONOps path data) k keep).get path).map FileSt.all = some data :=
  writeJSON_old_or_new fs path data k keep hne

example : ("/d/topics.json" ++ ".tmp" ≠ "/d/topics.json") := by decide

/-! ## Segment + index: acknowledged ⇒ durable, contiguity, and the k ↔ k pairing -/

/-- File level, any codec: after any prefix of `write b₀, sync, write b₁, sync, …` and any loss of the unsynced
tail the file is the first `k/2` records complete plus a prefix of the next one: acknowledged (synced) batches
and index entries are on disk in full, in order. (Segment and index file each follow this protocol.) -/
theorem segment_crash_content (encs : List Bytes) (k n : Nat) :
    ((runF {} ((appendHist encs).take k)).crash n).all =
      (encs.take (k / 2)).flatten ++ (if k % 2 = 1 then (encs.getD (k / 2) []).take n else []) := by
  have := crash_appendHist encs [] k n
  simpa using this

/-- Segment replay at byte level (`loadSegmentBatches` after fix fc48882, index file present): complete valid batches
followed by a torn batch — any proper prefix of a valid batch, no CRC assumption — replay to the complete batches that
have a complete index entry (`idx.length / 15` of them), batch k carrying index entry k; a batch without an entry and
everything behind it is dropped. -/
theorem segment_torn_tail (crc : Bytes → Nat) (idx : Bytes) (raws : List Bytes) (bs : List Batch) (h : AllOK crc raws bs)
    (raw0 : Bytes) (b0 : Batch) (h0 : BatchOK crc raw0 b0) (n : Nat) (hn : n < raw0.length) :
    loadSegment crc (raws.flatten ++ raw0.take n) (some idx) = pairIdx crc idx 0 (bs.take (idx.length / 15)) := by
  unfold loadSegment
  have := seg_load crc idx raws bs h raw0 b0 h0 n hn (raws.flatten ++ raw0.take n).length 0 (by
    have := flatten_length_ge crc raws bs h
    simp only [List.length_append]; omega)
  simpa using this

example : ∃ raw b, BatchOK (fun _ => 0) raw b :=
  have h : (decodeBatch (fun _ => 0) (List.replicate 11 0 ++ [49] ++ List.replicate 49 0)).isSome := by decide
  ⟨List.replicate 11 0 ++ [49] ++ List.replicate 49 0, (decodeBatch (fun _ => 0) _).get h, by decide, by decide,
   (Option.some_get h).symm⟩

/-- offsets: (first, count) batches are contiguous from `start`. -/
def Contig : Nat → List (Nat × Nat) → Prop
  | _, [] => True
  | s, (f, c) :: r => f = s ∧ Contig (s + c) r

/-- A recovered prefix of a contiguous log is contiguous. -/
theorem contiguous_prefix (bs : List (Nat × Nat)) : ∀ (s j : Nat), Contig s bs → Contig s (bs.take j) := by
  induction bs with
  | nil => intro s j _; simp [Contig]
  | cons x r ih =>
    intro s j h
    cases j with
    | zero => simp [Contig]
    | succ j => obtain ⟨f, c⟩ := x; exact ⟨h.1, ih _ j h.2⟩

/-- PAIRING, ALL HISTORIES. Over any multi-generation history — complete appends, a crash inside an append that keeps
none, both, only the segment record or only the index record, restart (`loadSegmentBatches` after fix fc48882: surplus
index entries and entry-less batches are both cut), more appends, … — every acknowledged batch is replayed with the
index metadata (epoch, maxEarlierTimestamp, inTx) it was appended with, and every replayed batch has an index entry. -/
theorem pairing_all_histories {β μ} (gs : List (Generation β μ)) :
    (∀ bm ∈ ackedOf gs, (bm.1, some bm.2) ∈ (SegIdx.runGens ⟨[], []⟩ gs).paired) ∧
    (∀ p ∈ (SegIdx.runGens ⟨[], []⟩ gs).paired, p.2.isSome = true) := by
  have h0 : Aligned (⟨[], []⟩ : SegIdx β μ) [] := ⟨rfl, fun _ h => by simp at h⟩
  have := aligned_runGens gs _ _ h0
  refine ⟨?_, pairFrom_all_some _ _ this.1⟩
  intro bm hbm
  obtain ⟨b, m⟩ := bm
  exact mem_pairFrom_of_mem_zip _ _ b m (this.2 (b, m) (by simpa using hbm))

example : ∃ gs : List (Generation Nat Nat), (ackedOf gs).length = 2 ∧ gs.any (fun g => g.inflight.isSome) :=
  ⟨[⟨[(0, 100)], some (1, 101, .segOnly)⟩, ⟨[(2, 102)], none⟩], by decide, by decide⟩

/-- The history that skewed the pairing before the repair (generation 1 crashes after the segment write of batch 0,
before its index write; generation 2 appends and acknowledges batch 1 with metadata 101): batch 0 is dropped and batch 1
replays with its own entry. -/
theorem pairing_regression :
    (SegIdx.runGens (⟨[], []⟩ : SegIdx Nat Nat) [⟨[], some (0, 100, .segOnly)⟩, ⟨[(1, 101)], none⟩]).paired
      = [(1, some 101)] := by decide

/-! ## Partition snapshots: a stale snapshot.json never hides acknowledged records -/

/-- byte-level model of `loadPartition`: the snapshot path is taken only when a snapshot is present and lists exactly
the current segment files with their current sizes -/
theorem loadPartition_snapshot_only_if_sizes_equal (crc : Bytes → Nat) (segs : List (Nat × Bytes × Option Bytes)) (sp : Bool)
    (snap : Option Snap) (h : (loadPartition crc segs sp snap).viaSnapshot = true) :
    ∃ s, snap = some s ∧ s.segs.length = segs.length ∧
      (s.segs.zip segs).all (fun (ss, sg) => ss.1 = sg.1 && ss.2 = sg.2.1.length) = true := by
  unfold loadPartition at h
  cases snap with
  | none =>
    simp only [Bool.and_eq_true, ite_self] at h
    split at h <;> (try split at h) <;> simp_all
  | some s =>
    refine ⟨s, rfl, ?_⟩
    by_cases c1 : (sp && decide (segs.length > 0)) = true
    · by_cases c2 : (decide (s.segs.length = segs.length) && (s.segs.zip segs).all (fun (ss, sg) => ss.1 = sg.1 && ss.2 = sg.2.1.length)) = true
      · simp only [Bool.and_eq_true, decide_eq_true_eq] at c2
        exact c2
      · simp only [c1, c2] at h
        split at h <;> (try split at h) <;> simp_all
    · simp only [c1] at h
      split at h <;> (try split at h) <;> simp_all


/-- SNAPSHOTS, ALL LINEAGES. `snapshot.json` is written only by a clean Close. Over every lineage — acknowledged appends
in any segment layout (same file or after rolls), crashes leaving any torn bytes and any layout of the same complete
batches, restarts (start-up truncation), clean Closes, in any order and number — start-up recovers a high watermark
equal to the end of ALL complete durable batches, i.e. every acknowledged record, whether the snapshot path or the full
replay is taken: a stale snapshot from an earlier clean Close never lowers it. -/
theorem snapshot_all_lineages (d : PDisk) (h : PReach d) : d.recoverHwm = d.count :=
  recoverHwm_eq_count (pinv_reach h)

/-- The key lemma behind it: on a reachable disk a snapshot whose recorded sizes equal the current file sizes (the
only case in which `loadPartition` uses it) describes exactly the current log — same high watermark, no torn bytes;
any append since the Close changes a size (every batch has bytes), so a stale snapshot forces a full replay. -/
theorem snapshot_used_only_if_current (d : PDisk) (h : PReach d) (sz : List Nat) (hw : Nat) (hs : d.snap = some (sz, hw))
    (hm : sz = d.sizes) : hw = d.count ∧ d.junk = 0 :=
  snapshot_matches_only_if_current (pinv_reach h) sz hw hs hm

/-- the lineage close → produce → crash: two batches before the Close, one acknowledged after it, then a crash -/
def staleDisk : PDisk := { segs := [[⟨3, 94⟩, ⟨1, 72⟩, ⟨2, 83⟩]], junk := 0, snap := some ([166], 4) }

theorem staleDisk_reachable : PReach staleDisk := by
  have h0 : PReach {} := PReach.init
  have h1 := PReach.step h0 (PStep.append {} ⟨3, 94⟩ [[⟨3, 94⟩]] rfl (by decide) rfl)
  have h2 := PReach.step h1 (PStep.append _ ⟨1, 72⟩ [[⟨3, 94⟩, ⟨1, 72⟩]] rfl (by decide) rfl)
  have h3 := PReach.step h2 (PStep.close _ rfl)
  have h4 := PReach.step h3 (PStep.restart _)
  have h5 := PReach.step h4 (PStep.append _ ⟨2, 83⟩ [[⟨3, 94⟩, ⟨1, 72⟩, ⟨2, 83⟩]] rfl (by decide) rfl)
  have h6 := PReach.step h5 (PStep.crash _ [[⟨3, 94⟩, ⟨1, 72⟩, ⟨2, 83⟩]] 0 rfl)
  exact h6

/-- non-vacuity: the stale snapshot is on disk, does not match (166 ≠ 249), and the full replay recovers all 6 records -/
example : staleDisk.snap = some ([166], 4) ∧ staleDisk.sizes = [249] ∧ staleDisk.recoverHwm = 6 ∧ staleDisk.count = 6 := by decide

/-- the comparison of the seeded change C33b (`info.Size() < ss.Size` rejects, i.e. recorded ≤ current accepts) -/
def acceptNotShorter (sz cur : List Nat) : Bool := sz.length = cur.length && (sz.zip cur).all (fun (a, b) => decide (a ≤ b))

/-- with that comparison the statement is false: the stale snapshot is accepted and records 4 and 5, acknowledged before
the crash, lie above the recovered high watermark -/
theorem snapshot_all_lineages_needs_equality :
    ¬ ∀ d, PReach d → d.recoverHwmWith acceptNotShorter = d.count := by
  intro h
  have := h staleDisk staleDisk_reachable
  revert this
  decide

/-! ## Transactions open at a crash -/

/-- CRASH-ABORT DURABILITY (false):
  `∀ bs later a, a ∈ fullReplayAborted bs → ∃ a' ∈ fullReplayAborted (bs ++ later), a'.pid = a.pid ∧ a'.first = a.first`
i.e. a transaction that one recovery (`loadPartitionFullReplay`) implicitly aborts — it was open at the crash — stays
aborted in every later recovery of the extended log. The implicit abort lives only in memory (and in the snapshot of a
clean Close): no abort marker is appended, so a later full replay closes the old transaction with the producer's next
COMMIT marker. What holds trivially (`_partial`): as long as nothing is appended. -/
theorem crash_abort_durable_partial (bs : List (Batch × IdxMeta)) (a : Aborted) (h : a ∈ fullReplayAborted bs) :
    ∃ a' ∈ fullReplayAborted (bs ++ []), a'.pid = a.pid ∧ a'.first = a.first :=
  ⟨a, by simpa using h, rfl, rfl⟩

def wT (pid first : Nat) : Batch × IdxMeta :=
  (⟨first, 1, pid, 0, 0, 16, 0, 70, false, false⟩, { inTx := true })
def wCommit (pid first : Nat) : Batch × IdxMeta :=
  (⟨first, 1, pid, 0, -1, 48, 0, 70, true, false⟩, {})

/-- Negation (key `crash-aborted-txn-has-no-marker`): producer 7 has a transaction open at offset 0 when the crash
happens; after restart it produces offset 1 in a new transaction and commits (marker at 2). The first recovery lists
(7, 0) as aborted, the next full replay lists nothing: the records at offset 0 have become committed. -/
theorem crash_abort_not_durable :
    ¬ ∀ (bs later : List (Batch × IdxMeta)) (a : Aborted), a ∈ fullReplayAborted bs →
        ∃ a' ∈ fullReplayAborted (bs ++ later), a'.pid = a.pid ∧ a'.first = a.first := by
  intro h
  have := h [wT 7 0] [wT 7 1, wCommit 7 2] ⟨7, 0, 0⟩ (by decide)
  revert this
  decide

end Props.C33
