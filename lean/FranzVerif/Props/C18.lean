import FranzVerif.Model.C18
import FranzVerif.Proof.C18
import FranzVerif.Proof.C18RT
/-! C18 — property theorems: produce requests encode the batched records within size limits.

The model (`Model.C18`) transcribes `pkg/kgo/sink.go`; it is tied to the code by the differential run
(`harness/cmd/c18` ↔ `Driver/C18.lean`: byte-for-byte equality of every written request, of every
accounting number, for Produce v0–v13, every compressor). The theorems below hold for *all* record sets,
configurations and compressors (CRCs and the compressor are parameters), under the model's no-overflow
convention (lengths below 2^31).

State of the code: after the repairs /repo e8757ce (`tryAddBatch` accounts the per-partition and per-topic tag
sections of flexible requests, the growth of the compact topics-array length, and a topic id while the version
is unknown) and c322dee (`tryBuffer` sizes a record as a message for the message-set versions). Before them the
request bound was false for v9–v13 (kernel-checked counterexample, now the regression `corpus/C18/001…`) and the
batch bound false for message sets (`corpus/C18/002…`).

What is proved:
* record and batch lengths: the accounted `wireLength` is exactly what `appendTo` writes (uncompressed), an upper
  bound with any compressor (`record_bytes_exact`, `batch_length_exact`, `batch_length_le`, `message_set_length_le`);
* batch bound: record batches (`batch_bound`: buffered with the version unknown or ≥ 3, written at any version ≥ 3)
  and message sets (`message_set_bound`: buffered with the version unknown or equal to the written version 0–2);
  a record is rejected only when it does not fit an empty batch (`reject_only_oversized`), and a record whose
  one-record batch would reach the limit is rejected (`oversized_rejected`, `oversized_with_headers_rejected`);
  records are arbitrary `Rec`s — any key, value and *any list of headers*; no theorem assumes an empty header list,
  and `batch_bound_counts_headers` states the batch bound directly in key + value + header bytes;
* request accounting: `createReq`'s running `wireLength` is `base + reqAcct` and at most the limit (`createReq_accounting`);
* **request bound, every version 0–13**, version known to the sink (`request_bound`, `request_bound_any_order`,
  `request_length_le`), with the exact written length for v3–v13 without compressor (`request_length_exact`);
* request bound while the version is still unknown (`request_bound_version_unknown`), written at any version; for
  flexible written versions under `FlexFit` (every topic fits the estimate `max(2+lt+4, 16+4+1)` of d9ff59f) and
  fewer than 16383 topics or `FlexSpare`;
* decode ∘ encode for Produce v3–v13 without compressor (`decode_encode_request`, `decoded_records_are_buffered`).

What is not proved, and why:
 (a) the round trip with a compressor and for message sets (v0–v2): checked on every differential case by the same
     reference decoder evaluated on the implementation's bytes;
 (b) version unknown, v9–v12 written, a topic whose name and partition count need more than 5 bytes of compact
     lengths (with legal names: 2^21-1 or more partitions of one 127+-byte-named topic in the first request): the
     estimate `2+lt+4` is then one byte short per such topic. Not run on the real code: two such topics (the base
     length has one to three bytes of slack) need 4.2 million partition buffers. The former corner (127+ partitions
     of 2 MiB batches under a short name, v13: accounted 532697885, written 532697886) is repaired by d9ff59f and is
     a regression case of the thorough tier (`reqlen`).
 (c) the sink's known version differing from the written one (a transactional producer whose KIP-890-part-2 flag
     changes after the first response, or a v13 sink that later meets a topic without id, which caps the request at
     v12): outside the model's assumption `sink version ∈ {-1, written version}`; the real code under-accounts there
     (18 bytes per topic accounted, a name of 16+ bytes written). Listed finding
     `request-over-limit-when-written-version-differs-from-sink-version`, replay `corpus/C18/003…`.
 (d) a batch buffered at a known version ≥ 3 and written as a message set is never size-checked as a message set.
     Listed finding `batch-over-max-when-written-version-differs-from-sink-version`, same corpus file. -/
namespace Props.C18
open Model.C18 Proof.C18
open Spec.C17 (lenU zz)

/-- The records of a batch that satisfies the accounting invariant serialise to exactly
`wireLength - recordBatchOverhead` bytes: every record takes `VarintLen(lengthField) + lengthField`. -/
theorem record_bytes_exact (b : Batch) (h : BatchInv b) :
    ((recordsFrom 0 b.records).length : Int) = b.wireLength - recordBatchOverhead := by
  rw [recordsFrom_length 0 b.records h.ok, h.wire]; omega

/-- Every batch that `bufferRecord` builds (any records, any version knowledge, any limit) satisfies the
accounting invariant and holds at least one record; under record-batch accounting it is, without its length
prefix, strictly below the limit it was buffered against. -/
theorem buffered_batches (pv m : Int) (rs : List Rec) :
    ∀ b ∈ (bufferAll pv m [] rs).1, BatchInv b ∧ b.records ≠ [] ∧ (V2Acct pv → batchLength b + 1 ≤ m) :=
  bufferAll_buffered pv m rs [] (by simp)

/-- non-vacuity: the empty batch satisfies the invariant, and `wBatches` below is a buffered one-record batch -/
example : BatchInv newRecordBatch := inv_new

/-- Exact batch length, no compressor, Produce v3+: `appendTo` writes `wireLength` bytes for v3–v8 and
`flexibleWireLength` bytes for v9+ — the number `tryAddBatch` accounts for the batch. -/
theorem batch_length_exact (crc : Bytes → Nat) (b : PartBatch) (v pid ep : Int) (tx : Bool) (hv : 3 ≤ v)
    (h : BatchInv b.batch) :
    ((batchAppendTo crc none b v pid ep tx).length : Int) = bwl v b.batch := by
  rw [batchAppendTo_length crc none b v pid ep tx h]
  unfold bwl wireLengthForProduceVersion
  have h0 : ¬ v < 0 := by omega
  have h1 : ¬ (v = 0 ∨ v = 1) := by omega
  have h2 : ¬ v = 2 := by omega
  simp only [savingsOf_none, h0, h1, h2, if_false, Int.natCast_zero, Int.sub_zero]
  by_cases h9 : v ≥ 9
  · have h8 : ¬ v ≤ 8 := by omega
    simp only [h9, h8, if_true, if_false, flexibleWireLength]
  · have h8 : v ≤ 8 := by omega
    simp only [h9, h8, if_true, if_false]

/-- With any compressor the written batch is at most the accounted length. -/
theorem batch_length_le (crc : Bytes → Nat) (comp : Option Compressor) (b : PartBatch) (v pid ep : Int) (tx : Bool)
    (hv : 3 ≤ v) (h : BatchInv b.batch) :
    ((batchAppendTo crc comp b v pid ep tx).length : Int) ≤ bwl v b.batch := by
  have := partAppendTo_le ⟨crc, crc, comp⟩ v pid ep tx b hv h
  unfold partAppendTo at this
  have hlt : ¬ v < 3 := by omega
  simp only [hlt, if_false, List.length_append, beI_length, Int.natCast_add] at this
  by_cases h9 : v ≥ 9
  · simp only [h9, if_true, List.length_cons, List.length_nil] at this; omega
  · simp only [h9, if_false, List.length_nil] at this; omega

/-- **Batch bound** (record batches): every batch buffered for `topic` while the produce version is unknown or
at least 3, written at any version ≥ 3 with any compressor, is — as a record batch, i.e. without the length
prefix of the partition — strictly smaller than `ProducerBatchMaxBytes` (and than the limit derived from
`BrokerMaxWriteBytes`). -/
theorem batch_bound (c : Cfg) (topic : Bytes) (pv : Int) (rs : List Rec) (hpv : V2Acct pv)
    (crc : Bytes → Nat) (comp : Option Compressor) (part seq v pid ep : Int) (tx : Bool) :
    ∀ b ∈ (bufferAll pv (maxRecordBatchBytesForTopic c topic) [] rs).1,
      ((batchBody crc comp ⟨part, seq, b⟩ v pid ep tx).length : Int) < c.maxRecordBatchBytes := by
  intro b hb
  have hB := buffered_batches pv (maxRecordBatchBytesForTopic c topic) rs b hb
  have hlen := batchBody_length crc comp ⟨part, seq, b⟩ v pid ep tx hB.1
  have hm : maxRecordBatchBytesForTopic c topic ≤ c.maxRecordBatchBytes := by
    unfold maxRecordBatchBytesForTopic; simp only; split <;> omega
  have := hB.2.2 hpv
  simp only at hlen
  omega

/-- What the code does with a record that is too large: `bufferRecord` fails it (MESSAGE_TOO_LARGE) only when
it does not fit a *new, empty* batch under the accounting in force; it is never written. -/
theorem reject_only_oversized (bs : List Batch) (r : Rec) (pv m : Int) (h : (bufferRecord bs r pv m).2 = false) :
    (wireLengthForProduceVersion newRecordBatch pv).1
      + recordWireLengthFor pv r (numsWireLength (calculateRecordNumbers newRecordBatch r).1) > m := by
  have key : tryBuffer newRecordBatch r pv m = none := by
    unfold bufferRecord at h
    simp only at h
    cases bs with
    | nil =>
      simp only at h
      cases hn : tryBuffer newRecordBatch r pv m with
      | none => rfl
      | some nb => rw [hn] at h; simp at h
    | cons last rest =>
      simp only at h
      cases hl : tryBuffer last r pv m with
      | some b' => rw [hl] at h; simp at h
      | none =>
        rw [hl] at h
        simp only at h
        cases hn : tryBuffer newRecordBatch r pv m with
        | none => rfl
        | some nb => rw [hn] at h; simp at h
  unfold tryBuffer at key
  simp only at key
  split at key
  · assumption
  · simp at key

/-- **The batch bound counts header bytes.** `Rec.headers` is an arbitrary list in every theorem of this file; this
corollary spells the dependence out. Every batch buffered while the produce version is unknown or at least 3 holds
strictly less than `ProducerBatchMaxBytes - 61` bytes of user data, where user data is every record's key, value
*and the key and value of each of its headers* (`userSum`), plus 7 bytes of framing per record. A `tryBuffer` that
sized the incoming record as a message (`messageSet1Length`: key + value + 38, no headers) while the version is
unknown would falsify exactly this (and `batch_bound`): the proof needs `recordWireLengthFor ≥` the record's
record-batch length (`rwl_ge`). -/
theorem batch_bound_counts_headers (c : Cfg) (topic : Bytes) (pv : Int) (rs : List Rec) (hpv : V2Acct pv) :
    ∀ b ∈ (bufferAll pv (maxRecordBatchBytesForTopic c topic) [] rs).1,
      (61 : Int) + userSum b.records + 7 * b.records.length < c.maxRecordBatchBytes := by
  intro b hb
  have hB := buffered_batches pv (maxRecordBatchBytesForTopic c topic) rs b hb
  have hu := userSum_le_wireSum 0 b.records hB.1.ok
  have hw := hB.1.wire
  have hm : maxRecordBatchBytesForTopic c topic ≤ c.maxRecordBatchBytes := by
    unfold maxRecordBatchBytesForTopic; simp only; split <;> omega
  have := hB.2.2 hpv
  simp only [batchLength, recordBatchOverhead] at this hw
  omega

/-- **A record that is too large on its own is failed, headers included** (the converse of `reject_only_oversized`
under record-batch accounting): when the one-record batch of `r` — 61 bytes of batch header plus the record with
all its headers — would not be strictly smaller than the limit, `bufferRecord` does not buffer `r` (the code fails
it with MESSAGE_TOO_LARGE), whatever batches the partition already holds. -/
theorem oversized_rejected (bs : List Batch) (r : Rec) (pv m : Int) (hpv : V2Acct pv) (hbs : ∀ b ∈ bs, BatchInv b)
    (h : m < recordBatchOverhead - 4 + numsWireLength (calculateRecordNumbers newRecordBatch r).1 + 1) :
    (bufferRecord bs r pv m).2 = false := by
  have hnew : tryBuffer newRecordBatch r pv m = none := by
    cases hn : tryBuffer newRecordBatch r pv m with
    | none => rfl
    | some nb => have := tryBuffer_fits_new _ _ r pv m hpv inv_new hn; omega
  unfold bufferRecord
  simp only [hnew]
  cases bs with
  | nil => rfl
  | cons last rest =>
    simp only
    cases hl : tryBuffer last r pv m with
    | none => rfl
    | some b' => have := tryBuffer_fits_new _ _ r pv m hpv (hbs last (List.mem_cons_self ..)) hl; omega

/-- the same in user bytes: a record whose key, value and header bytes reach the limit minus 69 is failed -/
theorem oversized_with_headers_rejected (bs : List Batch) (r : Rec) (pv m : Int) (hpv : V2Acct pv)
    (hbs : ∀ b ∈ bs, BatchInv b) (h : m < 69 + (userBytes r : Int)) : (bufferRecord bs r pv m).2 = false := by
  have := numsWireLength_new_ge r
  exact oversized_rejected bs r pv m hpv hbs (by simp only [recordBatchOverhead]; omega)

/-- a record with a one-byte header key and a 100-byte header value, nil key and value -/
def hRec : Rec := { ts := 0, key := none, value := none, headers := [⟨[0x68#8], some (List.replicate 100 0#8)⟩] }

/-- non-vacuity, with headers: while the version is unknown `hRec` is failed against a limit of 150 although as a
message (headers dropped) it would fit an empty batch — the record "that fits only if its headers are ignored" -/
example : (bufferRecord [] hRec (-1) 150).2 = false ∧ recordBatchOverhead + messageSet1Length hRec ≤ 150 := by
  refine ⟨oversized_with_headers_rejected [] hRec (-1) 150 (Or.inl (by omega)) (by simp) ?_, ?_⟩
  · simp [userBytes, headersBytes, hRec, blen]
  · simp [recordBatchOverhead, messageSet1Length, messageSet0Length, hRec, blen]

/-- `createReq`'s size accounting, for every set of partition buffers and every rotation: the request's
`wireLength` is the base length plus the closed form `reqAcct` (per partition: 4 + the batch length at the known
version + 1 tag byte when flexible or unknown; per topic: its name or id, the partition-array length, 1 tag byte
when flexible, a topic id's worth while unknown; the growth of the compact topics-array length), and a request
that holds a batch was admitted, i.e. that number is at most `BrokerMaxWriteBytes`. -/
theorem createReq_accounting (c : Cfg) (pv : Int) (start : Nat) (rbs : List RecBuf) :
    (createReq c pv start rbs).1.wireLength = baseProduceRequestLength c + reqAcct pv (createReq c pv start rbs).1.batches
      ∧ ((createReq c pv start rbs).1.batches ≠ [] → (createReq c pv start rbs).1.wireLength ≤ c.maxBrokerWriteBytes) :=
  createReq_inv c pv start rbs

/-- What is written against what is accounted, every version 0–13 known to the sink, any compressor, any order of
topics and partitions: `written ≤ accounted`, and `written + 1 ≤ accounted` for the flexible versions. -/
theorem request_length_le (e : Env) (c : Cfg) (v corr pid ep : Int) (ts : List TopicBatches)
    (h0 : 0 ≤ v) (htxn : blen c.txnId ≤ 16382) (h : TopicsInv ts) :
    ((appendRequest e c v corr pid ep ts).length : Int) + (if v ≥ 9 then 1 else 0)
      ≤ baseProduceRequestLength c + reqAcct v ts := by
  have hN := topicsAcctN_eq v h0 ts
  unfold reqAcct
  by_cases h9 : v ≥ 9
  · have hl := appendRequest_le_flex e c v corr pid ep ts h9 htxn h
    have hu := uvarlen_eq ts.length
    simp only [h9, if_true] at hN ⊢
    omega
  · simp only [h9, if_false] at hN ⊢
    by_cases h3 : v < 3
    · have hl := appendRequest_le_ms e c v corr pid ep ts h0 h3 h; omega
    · have hl := appendRequest_le_nonflex e c v corr pid ep ts (by omega) (by omega) h; omega

/-- **Request bound, every produce version 0–13** (the sink knows the version it writes at): whatever
`createReq` admits, from any partition buffers whose batches were built by `bufferRecord`, serialises — with any
compressor, any client id, any transactional id the configuration accepts (at most 16382 bytes) — to at most
`BrokerMaxWriteBytes` bytes on the wire, length prefix included. -/
theorem request_bound (e : Env) (c : Cfg) (v : Int) (start : Nat) (rbs : List RecBuf) (corr pid ep : Int)
    (h0 : 0 ≤ v) (htxn : blen c.txnId ≤ 16382) (hr : ∀ rb ∈ rbs, RbInv rb) (hne : (createReq c v start rbs).1.batches ≠ []) :
    ((appendRequest e c v corr pid ep (createReq c v start rbs).1.batches).length : Int) ≤ c.maxBrokerWriteBytes := by
  have ha := createReq_accounting c v start rbs
  have hl := request_length_le e c v corr pid ep _ h0 htxn (createReq_topicsInv c v start rbs hr)
  have := ha.2 hne
  split at hl <;> omega

/-- The same bound for *any* order of topics and partitions (Go map iteration) with the same closed-form
accounting — the accounting is a sum over topics and partitions plus a function of the number of topics. -/
theorem request_bound_any_order (e : Env) (c : Cfg) (v corr pid ep : Int) (ts : List TopicBatches)
    (h0 : 0 ≤ v) (htxn : blen c.txnId ≤ 16382) (h : TopicsInv ts)
    (hadm : baseProduceRequestLength c + reqAcct v ts ≤ c.maxBrokerWriteBytes) :
    ((appendRequest e c v corr pid ep ts).length : Int) ≤ c.maxBrokerWriteBytes := by
  have hl := request_length_le e c v corr pid ep ts h0 htxn h
  split at hl <;> omega

/-- Exact length without compressor: Produce v3–v8 write exactly the accounted length; the flexible versions
(no transactional id) exactly two bytes less (the 4-byte topics-array slot of the base length holds a 1-byte
compact length, the 2-byte transactional-id slot a 1-byte null, and the header's tag byte is not accounted). -/
theorem request_length_exact (e : Env) (c : Cfg) (v corr pid ep : Int) (ts : List TopicBatches)
    (hv : 3 ≤ v) (hc : e.comp = none) (htxn : v ≥ 9 → c.txnId = none) (h : TopicsInv ts) :
    ((appendRequest e c v corr pid ep ts).length : Int) + (if v ≥ 9 then 2 else 0)
      = baseProduceRequestLength c + reqAcct v ts := by
  have hN := topicsAcctN_eq v (by omega) ts
  unfold reqAcct
  by_cases h9 : v ≥ 9
  · have hl := appendRequest_eq_flex e c v corr pid ep ts h9 hc (htxn h9) h
    have hu := uvarlen_eq ts.length
    simp only [h9, if_true] at hN ⊢
    omega
  · have hl := appendRequest_eq_nonflex e c v corr pid ep ts hv (by omega) hc h
    simp only [h9, if_false] at hN ⊢
    omega

/-- **Request bound while the sink does not know the produce version yet** (`produceVersion = -1`, the first
request to a broker), written at any version 0–13, any compressor. For a non-flexible written version there is no
further condition. For a flexible one (9–13): the transactional id is at most 16382 bytes (config validation);
every topic fits its estimate `max(2+lt+4, 16+4+1)` (`FlexFit`: at v13, the compact partition count takes at most
4 bytes, i.e. fewer than 2^28-1 partitions of the topic in the request, which `BrokerMaxWriteBytes ≤ 2^30` makes
unavoidable; at v9–v12, the compact lengths of the topic name and of the partition count take at most 5 bytes
together — e.g. a name below 16383 bytes and fewer than 2^21-1 partitions, or a name of at most 126 bytes and
fewer than 2^28-1 partitions); and the request holds fewer than 16383 topics, or every topic fits with a byte to
spare (`FlexSpare`). With legal Kafka topic names (≤ 249 bytes) the only excluded requests are v9–v12 requests
with 2^21-1 or more partitions of one 127+-byte-named topic — at least 150 MB of a single topic's batches in the
first request to a broker. -/
theorem request_bound_version_unknown (e : Env) (c : Cfg) (v : Int) (start : Nat) (rbs : List RecBuf) (corr pid ep : Int)
    (h0 : 0 ≤ v) (hr : ∀ rb ∈ rbs, RbInv rb) (hne : (createReq c (-1) start rbs).1.batches ≠ [])
    (hs : v ≥ 9 → blen c.txnId ≤ 16382 ∧ FlexFit v (createReq c (-1) start rbs).1.batches
      ∧ ((createReq c (-1) start rbs).1.batches.length < 16383 ∨ FlexSpare v (createReq c (-1) start rbs).1.batches)) :
    ((appendRequest e c v corr pid ep (createReq c (-1) start rbs).1.batches).length : Int) ≤ c.maxBrokerWriteBytes := by
  have ha := createReq_accounting c (-1) start rbs
  have hl := appendRequest_le_unknown e c v corr pid ep _ h0 (createReq_topicsInv c (-1) start rbs hr) hs
  have := ha.2 hne
  omega

/-- the side conditions of `request_bound_version_unknown` are met by ordinary requests: at v13 any topic with at
most 2^21-2 partitions in the request has a byte to spare -/
example (t : TopicBatches) (h : t.parts.length < 2097151) : 1 ≤ flexSlack 13 t := by
  have := Proof.C17.lenU_le 3 (1 + t.parts.length) (by omega) (by omega)
  have hu := uvarlen_eq t.parts.length
  simp only [flexSlack, show (13 : Int) ≥ 13 from by omega, if_true, uvarintLen] at hu ⊢
  omega

/-- A message set (Produce v0–v2) is at most the length `tryAddBatch` accounts for it, with any compressor. -/
theorem message_set_length_le (crc : Bytes → Nat) (comp : Option Compressor) (b : PartBatch) (v : Int)
    (h0 : 0 ≤ v) (h3 : v < 3) (h : BatchInv b.batch) (hne : b.batch.records ≠ []) :
    ((appendToAsMessageSet crc comp b v).length : Int) ≤ bwl v b.batch :=
  appendToAsMessageSet_le crc comp b v h0 h3 h hne

/-- **Batch bound, message sets** (Produce v0–v2): every batch buffered for `topic` while the produce version is
unknown, or known to be the message-set version it is then written at, is written — with any compressor — as a
message set (without the partition's length prefix) strictly smaller than `ProducerBatchMaxBytes`. (A batch
buffered at a known version ≥ 3 and then written as a message set is outside the statement: its message-set size
was never checked; the sink's version does not change once known.) -/
theorem message_set_bound (c : Cfg) (topic : Bytes) (pv v : Int) (rs : List Rec) (h0 : 0 ≤ v) (h3 : v < 3)
    (hpv : pv < 0 ∨ pv = v) (crc : Bytes → Nat) (comp : Option Compressor) (part seq : Int) :
    ∀ b ∈ (bufferAll pv (maxRecordBatchBytesForTopic c topic) [] rs).1,
      ((appendToAsMessageSet crc comp ⟨part, seq, b⟩ v).length : Int) - 4 < c.maxRecordBatchBytes := by
  intro b hb
  have hB := buffered_batches pv (maxRecordBatchBytesForTopic c topic) rs b hb
  have hms := bufferAll_msBound pv (maxRecordBatchBytesForTopic c topic) rs b hb hB.2.1 (by omega)
  have hlen := appendToAsMessageSet_le crc comp ⟨part, seq, b⟩ v h0 h3 hB.1 hB.2.1
  have hm : maxRecordBatchBytesForTopic c topic ≤ c.maxRecordBatchBytes := by
    unfold maxRecordBatchBytesForTopic; simp only; split <;> omega
  have heq : bwl v b = b.v1wireLength - (if 0 ≤ v ∧ v ≤ 1 then 8 else 0) := by
    have hcases : v = 0 ∨ v = 1 ∨ v = 2 := by omega
    rcases hcases with h | h | h <;> subst h <;> simp [bwl, wireLengthForProduceVersion, v0wireLength]
  simp only at hlen
  rcases hpv with hneg | hpv
  · have hc : ¬ (0 ≤ pv ∧ pv ≤ 1) := by omega
    simp only [hc, if_false, Int.sub_zero] at hms
    split at heq <;> omega
  · subst hpv
    omega

/-! ### decode ∘ encode -/

open Proof.C18RT in
/-- **Round trip, Produce v3–v13, no compressor.** For every configuration, version 3–13, correlation id,
producer id/epoch, CRC function (any function into 32 bits) and every list of topics with their partition batches
(in any order) whose numbers fit their wire fields (`ReqWF`: no int16/int32/int64 overflow, 16-byte topic ids,
batches satisfying the accounting invariant), the independent strict reference decoder `Spec.C18.requests`
accepts the frame the client writes and returns exactly: the header fields, ids, acks and timeout, and per topic
and per partition, in the written order, one batch with magic 2, the configured producer id and epoch, the
partition's sequence (0 when not idempotent), the transactional bit iff a transactional id is configured, codec 0,
`firstTimestamp`, `firstTimestamp + maxTimestampDelta`, and the buffered records in order, each with timestamp
`firstTimestamp + tsDelta`, key, value and headers. Acceptance includes the checks of every length field, the CRC
over attributes…end, base offset 0, leader epoch -1, offset deltas 0..n-1, `lastOffsetDelta = n-1`, empty tag
sections and nothing trailing. -/
theorem decode_encode_request (crc crc32 : Model.C18.Bytes → Nat) (hcrc : ∀ x, crc x < 4294967296) (c : Cfg) (v corr pid ep : Int)
    (ts : List TopicBatches) (h : ReqWF c v corr pid ep ts)
    (hlen : (appendRequest (env0 crc crc32) c v corr pid ep ts).length < 2147483648) :
    Spec.C18.requests crc crc32 false [] [appendRequest (env0 crc crc32) c v corr pid ep ts] =
      .ok [dReq crc (appendRequest (env0 crc crc32) c v corr pid ep ts).length c v corr pid ep ts] := by
  have e := fun l => run_of_R (R_request crc crc32 hcrc c v corr pid ep ts [] h hlen) l
  simp only [List.nil_append] at e
  simp [Spec.C18.requests, Spec.C18.requestsP, e]
  rfl

open Proof.C18RT in
/-- The decoded records of a buffered batch are the buffered records themselves: `firstTimestamp + tsDelta` is each
record's own timestamp, `firstTimestamp` is the first record's, and the written `maxTimestamp` is the largest of them. -/
theorem decoded_records_are_buffered (pv m : Int) (rs : List Rec) :
    ∀ b ∈ (bufferAll pv m [] rs).1,
      (b.records.map (dRec b.firstTimestamp) =
        b.records.map (fun pr => (⟨some pr.r.ts, pr.r.key, pr.r.value, pr.r.headers.map dHeader⟩ : Spec.C18.DRec)))
      ∧ (∀ pr ∈ b.records, pr.r.ts ≤ b.firstTimestamp + b.maxTimestampDelta)
      ∧ (∃ pr ∈ b.records, pr.r.ts = b.firstTimestamp + b.maxTimestampDelta) := by
  intro b hb
  have ht := bufferAll_tsInv pv m rs b hb
  have hB := buffered_batches pv m rs b hb
  refine ⟨?_, ?_, ?_⟩
  · apply List.map_congr_left
    intro pr hpr
    simp [dRec, ht.delta pr hpr]
  · intro pr hpr
    have := ht.delta pr hpr; have := ht.le pr hpr; omega
  · obtain ⟨pr, hpr, hq⟩ := ht.attained hB.2.1
    exact ⟨pr, hpr, by have := ht.delta pr hpr; omega⟩

/-! ### a concrete request (the counterexample to the flexible request bound before the repair e8757ce) -/

def wVal : Bytes := List.replicate 413 0#8
private theorem wVal_length : wVal.length = 413 := List.length_replicate ..
def wId : Bytes := List.replicate 16 1#8
private theorem wId_length : wId.length = 16 := List.length_replicate ..
/-- one record: nil key, 413-byte value, no headers -/
def wRec : Rec := { ts := 0, key := none, value := some wVal, headers := [] }
def wBatches : List Batch := (bufferAll 13 1000 [] [wRec]).1
def wCfg : Cfg :=
  { clientId := some [0x6b#8, 0x67#8, 0x6f#8], txnId := none, acks := -1, timeoutMs := 10000,
    maxBrokerWriteBytes := 1024, maxRecordBatchBytes := 1000 }
/-- two partitions of topic "t" (id 01…01), each with that one-record batch -/
def wRbs : List RecBuf :=
  [⟨[0x74#8], wId, 0, 0, wBatches⟩, ⟨[0x74#8], wId, 1, 0, wBatches⟩]
def wEnv : Env := { crc32c := fun _ => 0, crc32 := fun _ => 0, comp := none }

def wBatch : Batch :=
  { wireLength := 487, v1wireLength := 451, firstTimestamp := 0, maxTimestampDelta := 0, records := [⟨wRec, 420, 0⟩] }

private theorem wBatches_eq : wBatches = [wBatch] := by
  simp [wBatches, wBatch, bufferAll, bufferRecord, tryBuffer, newRecordBatch, recordBatchOverhead, calculateRecordNumbers,
    wireLengthForProduceVersion, flexibleWireLength, batchLength, uvar32, uvarintLen, varintLen, numsWireLength, appendRecord,
    messageSet1Length, messageSet0Length, wRec, blen, headersLen, zz, l0, l62, l826, l840, wVal_length, recordWireLengthFor]

open Proof.C18RT in
/-- non-vacuity of `decode_encode_request`: the two-partition v13 request of the counterexample below satisfies
`ReqWF` (so the written 1025-byte frame decodes to its two one-record batches) -/
example : ReqWF wCfg 13 7 5 0 [{ topic := [0x74#8], topicID := wId, parts := [⟨0, 0, wBatch⟩, ⟨1, 0, wBatch⟩] }] := by
  have hB := buffered_batches 13 1000 [wRec] wBatch (by
    have : wBatches = [wBatch] := wBatches_eq
    simp only [wBatches] at this; rw [this]; simp)
  have hok : Proof.C18.RecOK ⟨wRec, 420, 0⟩ 0 := by
    have := hB.1.ok; simp only [wBatch, Proof.C18.AllOK] at this; exact this.1
  have z0 : zz (0 : Int) = 0 := by simp [zz]
  have z420 : zz ((420 : Nat) : Int) = 840 := by simp [zz]
  have z413 : zz ((413 : Nat) : Int) = 826 := by simp [zz]
  have hpr : PRecOK ⟨wRec, 420, 0⟩ 0 :=
    { len := by unfold LenOK; rw [z420, l840]; omega
      tsd := by simp only [z0, l0]; omega
      idx := by unfold LenOK; simp only [Int.natCast_zero, z0, l0]; omega
      key := by unfold LenOK; simp only [wRec, blen, Int.natCast_zero, z0, l0]; omega
      value := by unfold LenOK; simp only [wRec, blen, wVal_length, z413, l826]; omega
      nh := by unfold LenOK; simp only [wRec, List.length_nil, Int.natCast_zero, z0, l0]; omega
      hdrs := by simp [wRec]
      ok := hok }
  have hbw : BatchWF wBatch 5 0 (if (5 : Int) < 0 then 0 else 0) :=
    { inv := hB.1, recs := ⟨hpr, trivial⟩, ft := by unfold I64; simp [wBatch], mt := by unfold I64; simp [wBatch],
      pid := by unfold I64; omega, ep := by unfold I16; omega, seq := by unfold I32; simp,
      ne := by simp [wBatch], wl := by simp [wBatch], n := by simp [wBatch] }
  exact
    { v3 := by omega, v13 := by omega, corr := by unfold I32; omega, cid := by simp [wCfg, blen], txn := by simp [wCfg, blen],
      acks := by unfold I16; simp [wCfg], timeout := by unfold I32; simp [wCfg], nt := by simp,
      topics := by
        intro t ht
        simp only [List.mem_cons, List.not_mem_nil, or_false] at ht
        subst ht
        exact { id := wId_length, name := by simp, np := by simp,
                parts := ⟨⟨by unfold I32; simp, hbw⟩, ⟨by unfold I32; simp, hbw⟩, trivial⟩ } }

end Props.C18
