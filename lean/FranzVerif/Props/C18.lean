import FranzVerif.Model.C18
import FranzVerif.Proof.C18
import FranzVerif.Proof.C18RT
/-! C18 — property theorems: produce requests encode the batched records within size limits.

The model (`Model.C18`) transcribes `pkg/kgo/sink.go`; it is tied to the code by the differential run
(`harness/cmd/c18` ↔ `Driver/C18.lean`: byte-for-byte equality of every written request, of every
accounting number, for Produce v0–v13, every compressor). The theorems below hold for *all* record sets,
configurations and compressors (CRCs and the compressor are parameters), under the model's no-overflow
convention (lengths below 2^31).

What is proved, what is not:
* record and batch lengths: the accounted `wireLength` is exactly what `appendTo` writes (uncompressed), and
  an upper bound with any compressor (`record_bytes_exact`, `batch_length_exact`, `batch_length_le`);
* batch bound for record batches (Produce v3+ or version unknown): `batch_bound`; a record is rejected only
  when it does not fit an empty batch (`reject_only_oversized`);
* request accounting: `createReq`'s running `wireLength` is `base + closed form` and at most the limit
  (`createReq_accounting`);
* **request bound**: true for the non-flexible versions: message sets 0–2 (`request_bound_v0_v2`) and record
  batches 3–8 (`request_bound_v3_v8`);
  for the flexible versions 9–13 only up to `topics + partitions` extra bytes
  (`request_bound_flexible_partial`), and the full statement is FALSE (`request_bound_flexible_false`):
  the per-partition and per-topic tag bytes are not in `tryAddBatch`'s accounting.

Full statement of the property, for reference (the parts marked ✗ are not theorems here):
  ∀ version 0–13, compressor, record set: `decode (encode req)` = one batch per partition with the buffered
  records in order, consistent lengths / CRC position / deltas / attributes / producer id, epoch, sequence ✓ v3+ uncompressed (a);
  `(encode batch).length = accounted` uncompressed, `≤` compressed ✓ (v3+); message sets: `≤` only (b);
  written batch ≤ max batch size ✓ (v3+), FALSE for message sets (c);
  written request ≤ BrokerMaxWriteBytes ✓ v0–v8, FALSE v9–v13.
 (a) the decode∘encode round trip is proved for Produce v3–v13 without compressor (`decode_encode_request`,
     `decoded_records_are_buffered`); with a compressor and for message sets (v0–v2) it is not proved in Lean and is
     checked on every differential case by the same reference decoder evaluated on the implementation's bytes;
 (b) for message sets the accounting is an over-estimate by construction (`messageSet0Length` counts a 4-byte
     array length per record), so only `≤` holds (`message_set_length_le`), with or without compressor;
 (c) for Produce v0–v2 `tryBuffer` adds the *record-batch* size of the new record to the *message-set* size of
     the batch, so a message set can exceed `ProducerBatchMaxBytes` by up to about 27 bytes (found by the run,
     stable key `message-set-exceeds-max-batch-bytes`). -/
namespace Props.C18
open Model.C18 Proof.C18
open Spec.C17 (lenU zz)

/-- The records of a batch that satisfies the accounting invariant serialise to exactly
`wireLength - recordBatchOverhead` bytes: every record takes `VarintLen(lengthField) + lengthField`. -/
theorem record_bytes_exact (b : Batch) (h : BatchInv b) :
    ((recordsFrom 0 b.records).length : Int) = b.wireLength - recordBatchOverhead := by
  rw [recordsFrom_length 0 b.records h.ok, h.wire]; omega

/-- Every batch that `bufferRecord` builds (any records, any version knowledge, any limit) satisfies the
accounting invariant and holds at least one record; under record-batch accounting it is, without its length
prefix, strictly below the limit it was buffered against. -/
theorem buffered_batches (pv m : Int) (rs : List Rec) :
    ∀ b ∈ (bufferAll pv m [] rs).1, BatchInv b ∧ b.records ≠ [] ∧ (V2Acct pv → batchLength b + 1 ≤ m) :=
  bufferAll_buffered pv m rs [] (by simp)

/-- non-vacuity: the empty batch satisfies the invariant, and `wBatches` below is a buffered one-record batch -/
example : BatchInv newRecordBatch := inv_new

/-- Exact batch length, no compressor, Produce v3+: `appendTo` writes `wireLength` bytes for v3–v8 and
`flexibleWireLength` bytes for v9+ — the number `tryAddBatch` accounts for the batch. -/
theorem batch_length_exact (crc : Bytes → Nat) (b : PartBatch) (v pid ep : Int) (tx : Bool) (hv : 3 ≤ v)
    (h : BatchInv b.batch) :
    ((batchAppendTo crc none b v pid ep tx).length : Int) = bwl v b.batch := by
  rw [batchAppendTo_length crc none b v pid ep tx h]
  unfold bwl wireLengthForProduceVersion
  have h0 : ¬ v < 0 := by omega
  have h1 : ¬ (v = 0 ∨ v = 1) := by omega
  have h2 : ¬ v = 2 := by omega
  simp only [savingsOf_none, h0, h1, h2, if_false, Int.natCast_zero, Int.sub_zero]
  by_cases h9 : v ≥ 9
  · have h8 : ¬ v ≤ 8 := by omega
    simp only [h9, h8, if_true, if_false, flexibleWireLength]
  · have h8 : v ≤ 8 := by omega
    simp only [h9, h8, if_true, if_false]

/-- With any compressor the written batch is at most the accounted length. -/
theorem batch_length_le (crc : Bytes → Nat) (comp : Option Compressor) (b : PartBatch) (v pid ep : Int) (tx : Bool)
    (hv : 3 ≤ v) (h : BatchInv b.batch) :
    ((batchAppendTo crc comp b v pid ep tx).length : Int) ≤ bwl v b.batch := by
  have := partAppendTo_le ⟨crc, crc, comp⟩ v pid ep tx b hv h
  unfold partAppendTo at this
  have hlt : ¬ v < 3 := by omega
  simp only [hlt, if_false, List.length_append, beI_length, Int.natCast_add] at this
  by_cases h9 : v ≥ 9
  · simp only [h9, if_true, List.length_cons, List.length_nil] at this; omega
  · simp only [h9, if_false, List.length_nil] at this; omega

/-- **Batch bound** (record batches): every batch buffered for `topic` while the produce version is unknown or
at least 3, written at any version ≥ 3 with any compressor, is — as a record batch, i.e. without the length
prefix of the partition — strictly smaller than `ProducerBatchMaxBytes` (and than the limit derived from
`BrokerMaxWriteBytes`). -/
theorem batch_bound (c : Cfg) (topic : Bytes) (pv : Int) (rs : List Rec) (hpv : V2Acct pv)
    (crc : Bytes → Nat) (comp : Option Compressor) (part seq v pid ep : Int) (tx : Bool) :
    ∀ b ∈ (bufferAll pv (maxRecordBatchBytesForTopic c topic) [] rs).1,
      ((batchBody crc comp ⟨part, seq, b⟩ v pid ep tx).length : Int) < c.maxRecordBatchBytes := by
  intro b hb
  have hB := buffered_batches pv (maxRecordBatchBytesForTopic c topic) rs b hb
  have hlen := batchBody_length crc comp ⟨part, seq, b⟩ v pid ep tx hB.1
  have hm : maxRecordBatchBytesForTopic c topic ≤ c.maxRecordBatchBytes := by
    unfold maxRecordBatchBytesForTopic; simp only; split <;> omega
  have := hB.2.2 hpv
  simp only at hlen
  omega

/-- What the code does with a record that is too large: `bufferRecord` fails it (MESSAGE_TOO_LARGE) only when
it does not fit a *new, empty* batch under the accounting in force; it is never written. -/
theorem reject_only_oversized (bs : List Batch) (r : Rec) (pv m : Int) (h : (bufferRecord bs r pv m).2 = false) :
    (wireLengthForProduceVersion newRecordBatch pv).1 + numsWireLength (calculateRecordNumbers newRecordBatch r).1 > m := by
  have key : tryBuffer newRecordBatch r pv m = none := by
    unfold bufferRecord at h
    simp only at h
    cases bs with
    | nil =>
      simp only at h
      cases hn : tryBuffer newRecordBatch r pv m with
      | none => rfl
      | some nb => rw [hn] at h; simp at h
    | cons last rest =>
      simp only at h
      cases hl : tryBuffer last r pv m with
      | some b' => rw [hl] at h; simp at h
      | none =>
        rw [hl] at h
        simp only at h
        cases hn : tryBuffer newRecordBatch r pv m with
        | none => rfl
        | some nb => rw [hn] at h; simp at h
  unfold tryBuffer at key
  simp only at key
  split at key
  · assumption
  · simp at key

/-- `createReq`'s size accounting, for every set of partition buffers and every rotation: the request's
`wireLength` is the base length plus the closed form `topicsAcct`, and a request that holds a batch was
admitted, i.e. that number is at most `BrokerMaxWriteBytes`. -/
theorem createReq_accounting (c : Cfg) (pv : Int) (start : Nat) (rbs : List RecBuf) :
    (createReq c pv start rbs).1.wireLength = baseProduceRequestLength c + topicsAcct pv (createReq c pv start rbs).1.batches
      ∧ ((createReq c pv start rbs).1.batches ≠ [] → (createReq c pv start rbs).1.wireLength ≤ c.maxBrokerWriteBytes) :=
  createReq_inv c pv start rbs

/-- **Request bound, Produce v3–v8** (the sink knows the version): whatever `createReq` admits, from any
partition buffers whose batches were built by `bufferRecord`, serialises — with any compressor, any ids — to at
most `BrokerMaxWriteBytes` bytes on the wire (length prefix included), in the order the batches were added. -/
theorem request_bound_v3_v8 (e : Env) (c : Cfg) (v : Int) (start : Nat) (rbs : List RecBuf) (corr pid ep : Int)
    (hv : 3 ≤ v) (h8 : v ≤ 8) (hr : ∀ rb ∈ rbs, RbInv rb) (hne : (createReq c v start rbs).1.batches ≠ []) :
    ((appendRequest e c v corr pid ep (createReq c v start rbs).1.batches).length : Int) ≤ c.maxBrokerWriteBytes := by
  have ha := createReq_accounting c v start rbs
  have hl := appendRequest_le_nonflex e c v corr pid ep _ hv h8 (createReq_topicsInv c v start rbs hr)
  have := ha.2 hne
  omega

/-- **Request bound, Produce v0–v2** (message sets; the sink knows the version): the same bound. The
accounting over-estimates message sets (4 bytes per record for v2, 12 for v0/v1, beyond the first). -/
theorem request_bound_v0_v2 (e : Env) (c : Cfg) (v : Int) (start : Nat) (rbs : List RecBuf) (corr pid ep : Int)
    (h0 : 0 ≤ v) (h3 : v < 3) (hr : ∀ rb ∈ rbs, RbInv rb) (hne : (createReq c v start rbs).1.batches ≠ []) :
    ((appendRequest e c v corr pid ep (createReq c v start rbs).1.batches).length : Int) ≤ c.maxBrokerWriteBytes := by
  have ha := createReq_accounting c v start rbs
  have hl := appendRequest_le_ms e c v corr pid ep _ h0 h3 (createReq_topicsInv c v start rbs hr)
  have := ha.2 hne
  omega

/-- A message set (Produce v0–v2) is at most the length `tryAddBatch` accounts for it, with any compressor. -/
theorem message_set_length_le (crc : Bytes → Nat) (comp : Option Compressor) (b : PartBatch) (v : Int)
    (h0 : 0 ≤ v) (h3 : v < 3) (h : BatchInv b.batch) (hne : b.batch.records ≠ []) :
    ((appendToAsMessageSet crc comp b v).length : Int) ≤ bwl v b.batch :=
  appendToAsMessageSet_le crc comp b v h0 h3 h hne

/-- The same bound for *any* order of topics and partitions (Go map iteration) that has the same closed-form
accounting — the accounting is a sum over topics and partitions. -/
theorem request_bound_v3_v8_any_order (e : Env) (c : Cfg) (v corr pid ep : Int) (ts : List TopicBatches)
    (hv : 3 ≤ v) (h8 : v ≤ 8) (h : TopicsInv ts)
    (hadm : baseProduceRequestLength c + topicsAcct v ts ≤ c.maxBrokerWriteBytes) :
    ((appendRequest e c v corr pid ep ts).length : Int) ≤ c.maxBrokerWriteBytes := by
  have := appendRequest_le_nonflex e c v corr pid ep ts hv h8 h; omega

/-- **Request bound, Produce v9–v13 — partial.** The full statement (`… ≤ c.maxBrokerWriteBytes`) is false
(`request_bound_flexible_false`). What holds: an admitted request exceeds the limit by at most
`topics + partitions - 2` bytes plus the growth of the compact topic-array length (1 byte below 127 topics). -/
theorem request_bound_flexible_partial (e : Env) (c : Cfg) (v : Int) (start : Nat) (rbs : List RecBuf) (corr pid ep : Int)
    (hv : 9 ≤ v) (htxn : blen c.txnId ≤ 16382) (hr : ∀ rb ∈ rbs, RbInv rb)
    (hne : (createReq c v start rbs).1.batches ≠ []) :
    ((appendRequest e c v corr pid ep (createReq c v start rbs).1.batches).length : Int) + 2 ≤
      c.maxBrokerWriteBytes + totalParts (createReq c v start rbs).1.batches + (createReq c v start rbs).1.batches.length
        + uvarintLen (1 + (createReq c v start rbs).1.batches.length) := by
  have ha := createReq_accounting c v start rbs
  have hl := appendRequest_le_flex e c v corr pid ep _ hv htxn (createReq_topicsInv c v start rbs hr)
  have := ha.2 hne
  omega

/-- Exact excess for a flexible request without compressor and transactional id:
`written = accounted + topics + partitions - 3 + len(compact topic count)`. -/
theorem request_length_flexible_exact (e : Env) (c : Cfg) (v corr pid ep : Int) (ts : List TopicBatches)
    (hv : 9 ≤ v) (hc : e.comp = none) (htxn : c.txnId = none) (h : TopicsInv ts) :
    ((appendRequest e c v corr pid ep ts).length : Int) + 3 =
      baseProduceRequestLength c + topicsAcct v ts + totalParts ts + ts.length + uvarintLen (1 + ts.length) :=
  appendRequest_eq_flex e c v corr pid ep ts hv hc htxn h

/-! ### decode ∘ encode -/

open Proof.C18RT in
/-- **Round trip, Produce v3–v13, no compressor.** For every configuration, version 3–13, correlation id,
producer id/epoch, CRC function (any function into 32 bits) and every list of topics with their partition batches
(in any order) whose numbers fit their wire fields (`ReqWF`: no int16/int32/int64 overflow, 16-byte topic ids,
batches satisfying the accounting invariant), the independent strict reference decoder `Spec.C18.requests`
accepts the frame the client writes and returns exactly: the header fields, ids, acks and timeout, and per topic
and per partition, in the written order, one batch with magic 2, the configured producer id and epoch, the
partition's sequence (0 when not idempotent), the transactional bit iff a transactional id is configured, codec 0,
`firstTimestamp`, `firstTimestamp + maxTimestampDelta`, and the buffered records in order, each with timestamp
`firstTimestamp + tsDelta`, key, value and headers. Acceptance includes the checks of every length field, the CRC
over attributes…end, base offset 0, leader epoch -1, offset deltas 0..n-1, `lastOffsetDelta = n-1`, empty tag
sections and nothing trailing. -/
theorem decode_encode_request (crc crc32 : Model.C18.Bytes → Nat) (hcrc : ∀ x, crc x < 4294967296) (c : Cfg) (v corr pid ep : Int)
    (ts : List TopicBatches) (h : ReqWF c v corr pid ep ts)
    (hlen : (appendRequest (env0 crc crc32) c v corr pid ep ts).length < 2147483648) :
    Spec.C18.requests crc crc32 false [] [appendRequest (env0 crc crc32) c v corr pid ep ts] =
      .ok [dReq crc (appendRequest (env0 crc crc32) c v corr pid ep ts).length c v corr pid ep ts] := by
  have e := fun l => run_of_R (R_request crc crc32 hcrc c v corr pid ep ts [] h hlen) l
  simp only [List.nil_append] at e
  simp [Spec.C18.requests, Spec.C18.requestsP, e]
  rfl

open Proof.C18RT in
/-- The decoded records of a buffered batch are the buffered records themselves: `firstTimestamp + tsDelta` is each
record's own timestamp, `firstTimestamp` is the first record's, and the written `maxTimestamp` is the largest of them. -/
theorem decoded_records_are_buffered (pv m : Int) (rs : List Rec) :
    ∀ b ∈ (bufferAll pv m [] rs).1,
      (b.records.map (dRec b.firstTimestamp) =
        b.records.map (fun pr => (⟨some pr.r.ts, pr.r.key, pr.r.value, pr.r.headers.map dHeader⟩ : Spec.C18.DRec)))
      ∧ (∀ pr ∈ b.records, pr.r.ts ≤ b.firstTimestamp + b.maxTimestampDelta)
      ∧ (∃ pr ∈ b.records, pr.r.ts = b.firstTimestamp + b.maxTimestampDelta) := by
  intro b hb
  have ht := bufferAll_tsInv pv m rs b hb
  have hB := buffered_batches pv m rs b hb
  refine ⟨?_, ?_, ?_⟩
  · apply List.map_congr_left
    intro pr hpr
    simp [dRec, ht.delta pr hpr]
  · intro pr hpr
    have := ht.delta pr hpr; have := ht.le pr hpr; omega
  · obtain ⟨pr, hpr, hq⟩ := ht.attained hB.2.1
    exact ⟨pr, hpr, by have := ht.delta pr hpr; omega⟩

/-! ### the counterexample to the flexible request bound -/

def wVal : Bytes := List.replicate 413 0#8
private theorem wVal_length : wVal.length = 413 := List.length_replicate ..
def wId : Bytes := List.replicate 16 1#8
private theorem wId_length : wId.length = 16 := List.length_replicate ..
/-- one record: nil key, 413-byte value, no headers -/
def wRec : Rec := { ts := 0, key := none, value := some wVal, headers := [] }
def wBatches : List Batch := (bufferAll 13 1000 [] [wRec]).1
def wCfg : Cfg :=
  { clientId := some [0x6b#8, 0x67#8, 0x6f#8], txnId := none, acks := -1, timeoutMs := 10000,
    maxBrokerWriteBytes := 1024, maxRecordBatchBytes := 1000 }
/-- two partitions of topic "t" (id 01…01), each with that one-record batch -/
def wRbs : List RecBuf :=
  [⟨[0x74#8], wId, 0, 0, wBatches⟩, ⟨[0x74#8], wId, 1, 0, wBatches⟩]
def wEnv : Env := { crc32c := fun _ => 0, crc32 := fun _ => 0, comp := none }

def wBatch : Batch :=
  { wireLength := 487, v1wireLength := 451, firstTimestamp := 0, maxTimestampDelta := 0, records := [⟨wRec, 420, 0⟩] }

private theorem wBatches_eq : wBatches = [wBatch] := by
  simp [wBatches, wBatch, bufferAll, bufferRecord, tryBuffer, newRecordBatch, recordBatchOverhead, calculateRecordNumbers,
    wireLengthForProduceVersion, flexibleWireLength, batchLength, uvar32, uvarintLen, varintLen, numsWireLength, appendRecord,
    messageSet1Length, messageSet0Length, wRec, blen, headersLen, zz, l0, l62, l826, l840, wVal_length]

open Proof.C18RT in
/-- non-vacuity of `decode_encode_request`: the two-partition v13 request of the counterexample below satisfies
`ReqWF` (so the written 1025-byte frame decodes to its two one-record batches) -/
example : ReqWF wCfg 13 7 5 0 [{ topic := [0x74#8], topicID := wId, parts := [⟨0, 0, wBatch⟩, ⟨1, 0, wBatch⟩] }] := by
  have hB := buffered_batches 13 1000 [wRec] wBatch (by
    have : wBatches = [wBatch] := wBatches_eq
    simp only [wBatches] at this; rw [this]; simp)
  have hok : Proof.C18.RecOK ⟨wRec, 420, 0⟩ 0 := by
    have := hB.1.ok; simp only [wBatch, Proof.C18.AllOK] at this; exact this.1
  have z0 : zz (0 : Int) = 0 := by simp [zz]
  have z420 : zz ((420 : Nat) : Int) = 840 := by simp [zz]
  have z413 : zz ((413 : Nat) : Int) = 826 := by simp [zz]
  have hpr : PRecOK ⟨wRec, 420, 0⟩ 0 :=
    { len := by unfold LenOK; rw [z420, l840]; omega
      tsd := by simp only [z0, l0]; omega
      idx := by unfold LenOK; simp only [Int.natCast_zero, z0, l0]; omega
      key := by unfold LenOK; simp only [wRec, blen, Int.natCast_zero, z0, l0]; omega
      value := by unfold LenOK; simp only [wRec, blen, wVal_length, z413, l826]; omega
      nh := by unfold LenOK; simp only [wRec, List.length_nil, Int.natCast_zero, z0, l0]; omega
      hdrs := by simp [wRec]
      ok := hok }
  have hbw : BatchWF wBatch 5 0 (if (5 : Int) < 0 then 0 else 0) :=
    { inv := hB.1, recs := ⟨hpr, trivial⟩, ft := by unfold I64; simp [wBatch], mt := by unfold I64; simp [wBatch],
      pid := by unfold I64; omega, ep := by unfold I16; omega, seq := by unfold I32; simp,
      ne := by simp [wBatch], wl := by simp [wBatch], n := by simp [wBatch] }
  exact
    { v3 := by omega, v13 := by omega, corr := by unfold I32; omega, cid := by simp [wCfg, blen], txn := by simp [wCfg, blen],
      acks := by unfold I16; simp [wCfg], timeout := by unfold I32; simp [wCfg], nt := by simp,
      topics := by
        intro t ht
        simp only [List.mem_cons, List.not_mem_nil, or_false] at ht
        subst ht
        exact { id := wId_length, name := by simp, np := by simp,
                parts := ⟨⟨by unfold I32; simp, hbw⟩, ⟨by unfold I32; simp, hbw⟩, trivial⟩ } }

set_option maxRecDepth 8000 in
/-- **The full request bound is false for flexible versions**: two one-record partitions of one topic at
Produce v13, `BrokerMaxWriteBytes = 1024`. `createReq` admits both batches (accounted length exactly 1024),
the request written is 1025 bytes. -/
theorem request_bound_flexible_false :
    (∀ rb ∈ wRbs, RbInv rb)
    ∧ (createReq wCfg 13 0 wRbs).1.batches ≠ []
    ∧ (createReq wCfg 13 0 wRbs).1.wireLength = 1024
    ∧ ¬ (((appendRequest wEnv wCfg 13 7 5 0 (createReq wCfg 13 0 wRbs).1.batches).length : Int) ≤ wCfg.maxBrokerWriteBytes) := by
  have hB := buffered_batches 13 1000 [wRec]
  have hr : ∀ rb ∈ wRbs, RbInv rb := by
    intro rb h
    simp only [wRbs, List.mem_cons, List.not_mem_nil, or_false] at h
    rcases h with h | h <;> subst h <;> exact ⟨fun b hb => ⟨(hB b hb).1, (hB b hb).2.1⟩, wId_length⟩
  have hacc := createReq_accounting wCfg 13 0 wRbs
  have hinv := createReq_topicsInv wCfg 13 0 wRbs hr
  have hex := request_length_flexible_exact wEnv wCfg 13 7 5 0 _ (by omega) rfl rfl hinv
  -- evaluate `createReq` on the witness
  have hreq : (createReq wCfg 13 0 wRbs).1.batches =
      [{ topic := [0x74#8], topicID := wId,
         parts := [⟨0, 0, wBatch⟩, ⟨1, 0, wBatch⟩] }]
      ∧ (createReq wCfg 13 0 wRbs).1.wireLength = 1024 := by
    simp [createReq, createReqPass, rotate, wRbs, wBatches_eq, wBatch, tryAddBatch, tryAddBatchLength, wireLengthForProduceVersion,
      flexibleWireLength, batchLength, uvar32, uvarintLen, uvarlen, l484, l2, l3, findParts, addBatch, wCfg,
      baseProduceRequestLength, blen, incrementSequence]
  refine ⟨hr, ?_, hreq.2, ?_⟩
  · rw [hreq.1]; simp
  · have hw := hreq.2
    rw [hacc.1, hreq.1] at hw
    rw [hreq.1] at hex ⊢
    have l2' : lenU (1 + (0 + 1)) = 1 := l2
    simp only [totalParts, List.length_cons, List.length_nil, uvarintLen, l2'] at hex
    show ¬ (_ ≤ (1024 : Int))
    omega

end Props.C18
