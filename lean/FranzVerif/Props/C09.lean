import FranzVerif.Model.Commit
import FranzVerif.Proof.Commit
import FranzVerif.Proof.CommitInv
import FranzVerif.Proof.CommitReport
/-! C09 — offset commits take effect in the order issued. Theorems over ALL accepted histories of
`Model.Commit`; the tie is the history correspondence of the `cmt` scenarios.

The observables: `lastApplied`'s scan pairs an answer with the newest request of that number and partition,
exactly what the monitor's `s.wire.find?` does on its newest-first list (`Proof.Commit.lastApplied_go_run`); the
existence of CO/GC events for every judged partition with a successful commit is what the `…-missing` /
`…-unset-…` rules of `quiesce` give.

Partitions are topic+number (`100 * topic + number`, `Model.Commit.topicOf`). One OffsetCommit answer carries
one code per partition and the codes may differ (MIXED answer): `wireResp` is per partition, `lastApplied q`
reads only the answers for `q`, so an error for one partition of an answer leaves every other partition of that
answer held to its own last successful commit (`mixed_response_other_partitions_still_judged`,
`requirement_of_a_partition_ignores_other_partitions`).

Two kinds of partitions are exempt from the final-value clauses (never from the ordering clauses), and only
they:
* TAINTED partitions (`taintedAtEnd`): the fault layer rewrote the partition's successful answer into an error
  code on the wire. The coordinator applied that commit and the client was told it failed, so "its value in the
  last successful commit" has no single meaning for that partition (the coordinator's last success and the
  client's last success differ by construction, and the property text's two sentences would demand both). The
  exemption ends with the next answer for that partition that is a success for both sides.
* partitions of a DELETED topic (`topicDeleted`): the partition does not exist any more, there is no committed
  offset to report. -/
namespace Props.C09
open Model.Commit Proof.Commit

/-- Commits reach the group coordinator in the order issued: the sequence of commit offsets (commit k carries
1000+k) seen at the coordinator never decreases, whatever retries, slow answers and rebalances happen. -/
theorem commits_arrive_in_issue_order (h : List Ev) (s : St) (hacc : run {} h = some s) :
    (wireOffsets h).Pairwise (· ≤ ·) :=
  (wire_sorted hacc).2

/-- Every request at the coordinator belongs to a commit that was issued before, for a partition that commit named. -/
theorem only_issued_commits_arrive (h₁ h₂ : List Ev) (n part off : Nat)
    (hacc : (run {} (h₁ ++ Ev.wireReq n part off :: h₂)).isSome) :
    ∃ k offs, Ev.issue k offs ∈ h₁ ∧ off = 1000 + k ∧ (part, off) ∈ offs := by
  obtain ⟨s, hs⟩ := Option.isSome_iff_exists.1 hacc
  obtain ⟨s₁, hr₁, hchk, _⟩ := run_split hs
  have hi := inv_of_run hr₁
  obtain ⟨_, i, hmem, hoff, o, ho, hpart⟩ := wireReq_check hchk
  refine ⟨i.1, i.2, (hi.issued i).1 hmem, hoff.symm, ?_⟩
  have h2 := hi.enc i hmem o ho
  have : o = (part, off) := by
    obtain ⟨o1, o2⟩ := o
    simp only at hpart h2
    rw [hpart, h2, hoff]
  rwa [this] at ho

/-- After all commits finished, each partition's committed offset equals its value in the last successful
commit, and CommittedOffsets reports the same value. -/
theorem final_offsets_are_last_successful_commit (h : List Ev) (s : St) (hacc : run {} (h ++ [Ev.quiesce]) = some s)
    (hcomplete : isIncomplete h = false) (p off : Nat) (hlast : lastApplied p h = some off)
    -- the partition is not tainted (see the header: for a tainted partition the coordinator's and the client's
    -- "last successful commit" differ by construction of the fault) and its topic was not deleted
    (hnt : taintedAtEnd p h = false) (hnd : topicDeleted (topicOf p) h = false) :
    (∀ k offs, Ev.issue k offs ∈ h → ∃ ok, Ev.finish k ok ∈ h) ∧
    (∃ g, Ev.groupCommitted p g ∈ h) ∧ (∀ g, Ev.groupCommitted p g ∈ h → g = (off : Int)) ∧
    (∃ c, Ev.clientCommitted p c ∈ h) ∧ (∀ c, Ev.clientCommitted p c ∈ h → c = (off : Int)) := by
  obtain ⟨s₁, hr₁, hchk⟩ := run_snoc hacc
  have hi := inv_of_run hr₁
  obtain ⟨q1, q2, q3, q4, q5⟩ := quiesce_check hchk (by rw [hi.incomplete]; exact hcomplete)
  have hcur : curOf s₁ p = some off := by rw [lastApplied_run hr₁]; exact hlast
  obtain ⟨happ, a, ha, hap⟩ := appliedOf_of_curOf hcur
  have hj : judged s₁ p = true := judged_of hr₁ hnt hnd
  have hja : judged s₁ a.1 = true := by rw [hap]; exact hj
  refine ⟨?_, ?_, ?_, ?_, ?_⟩
  · intro k offs hk
    obtain ⟨f, hf, hfk⟩ := q1 (k, offs) ((hi.issued (k, offs)).2 hk)
    refine ⟨f.2, ?_⟩
    have := (hi.finished f).1 hf
    rwa [hfk] at this
  · obtain ⟨g, hg, hgp⟩ := q3 a ha hja
    refine ⟨g.2, ?_⟩
    have := (hi.gc g).1 hg
    rwa [hgp, hap] at this
  · intro g hg
    have := q2 (p, g) ((hi.gc (p, g)).2 hg) hj ⟨a, ha, hap⟩
    simpa only [happ] using this
  · obtain ⟨g, hg, hgp⟩ := q5 a ha hja
    refine ⟨g.2, ?_⟩
    have := (hi.co g).1 hg
    rwa [hgp, hap] at this
  · intro g hg
    have := q4 (p, g) ((hi.co (p, g)).2 hg) hj ⟨a, ha, hap⟩
    simpa only [happ] using this

/-- What is required of a partition does not depend on what the other partitions were answered: an answer for
partition `p` (any code) or a taint of `p` changes neither the last successful commit of another partition `q`
nor whether `q` is judged. -/
theorem requirement_of_a_partition_ignores_other_partitions (h₁ h₂ : List Ev) (e : Ev) (n p q : Nat) (err : Int)
    (he : e = Ev.wireResp n p err ∨ e = Ev.taint p) (hpq : p ≠ q) :
    lastApplied q (h₁ ++ e :: h₂) = lastApplied q (h₁ ++ h₂) ∧
    taintedAtEnd q (h₁ ++ e :: h₂) = taintedAtEnd q (h₁ ++ h₂) := by
  have ha : aboutOnly p e = true := by rcases he with rfl | rfl <;> simp [aboutOnly]
  exact ⟨lastApplied_go_frame q p hpq e ha h₁ h₂ [] none, taintedAtEnd_go_frame q p hpq e ha h₁ h₂ false⟩

/-- A per-partition error in an answer does not affect what is required of the other partitions of that answer.
Take any accepted complete history containing an answer for partition `p` of request `n` (any code: a
per-partition error, a rewritten code) or a taint of `p`. For every other partition `q` — in particular the
other partitions of the same answer `n` — compute the requirement on the history WITHOUT that event (`off` is
`q`'s last successful commit there, `q` is not tainted there): the full history must show exactly `off` as `q`'s
group offset and as its CommittedOffsets value. -/
theorem mixed_response_other_partitions_still_judged (h₁ h₂ : List Ev) (s : St) (e : Ev) (n p q off : Nat) (err : Int)
    (he : e = Ev.wireResp n p err ∨ e = Ev.taint p) (hpq : p ≠ q)
    (hacc : run {} ((h₁ ++ e :: h₂) ++ [Ev.quiesce]) = some s)
    (hcomplete : isIncomplete (h₁ ++ e :: h₂) = false)
    (hlast : lastApplied q (h₁ ++ h₂) = some off)
    (hnt : taintedAtEnd q (h₁ ++ h₂) = false) (hnd : topicDeleted (topicOf q) (h₁ ++ e :: h₂) = false) :
    (∃ g, Ev.groupCommitted q g ∈ h₁ ++ e :: h₂) ∧ (∀ g, Ev.groupCommitted q g ∈ h₁ ++ e :: h₂ → g = (off : Int)) ∧
    (∃ c, Ev.clientCommitted q c ∈ h₁ ++ e :: h₂) ∧ (∀ c, Ev.clientCommitted q c ∈ h₁ ++ e :: h₂ → c = (off : Int)) := by
  obtain ⟨f1, f2⟩ := requirement_of_a_partition_ignores_other_partitions h₁ h₂ e n p q err he hpq
  exact (final_offsets_are_last_successful_commit (h₁ ++ e :: h₂) s hacc hcomplete q off
    (by rw [f1]; exact hlast) (by rw [f2]; exact hnt) hnd).2

/-- Non-vacuity: commits 1..3 over partitions 0 and 1. Commit 1 reaches the coordinator in request 1 and is
answered; commit 2 (request 2) is answered with a retriable error (15) and retried in request 3; commit 3 is
issued asynchronously before commit 2 finished and arrives (request 4) after commit 2's retry; the final
CommittedOffsets / OffsetFetch values are those of commit 3 for both partitions. -/
example : accepts
    [.issue 1 [(0, 1001), (1, 1001)], .wireReq 1 0 1001, .wireReq 1 1 1001, .wireResp 1 0 0, .wireResp 1 1 0, .finish 1 true,
     .issue 2 [(0, 1002), (1, 1002)], .wireReq 2 0 1002, .wireReq 2 1 1002,
     .issue 3 [(0, 1003), (1, 1003)],
     .wireResp 2 0 15, .wireResp 2 1 15, .wireReq 3 0 1002, .wireReq 3 1 1002, .wireResp 3 0 0, .wireResp 3 1 0,
     .finish 2 true,
     .wireReq 4 0 1003, .wireReq 4 1 1003, .wireResp 4 0 0, .wireResp 4 1 0, .finish 3 true,
     .clientCommitted 0 1003, .clientCommitted 1 1003, .groupCommitted 0 1003, .groupCommitted 1 1003,
     .quiesce] = true := by decide

/-- The observables on that history (without the closing `quiesce`). -/
example : wireOffsets
    [.issue 1 [(0, 1001), (1, 1001)], .wireReq 1 0 1001, .wireReq 1 1 1001, .wireResp 1 0 0, .wireResp 1 1 0, .finish 1 true,
     .issue 2 [(0, 1002), (1, 1002)], .wireReq 2 0 1002, .wireReq 2 1 1002,
     .issue 3 [(0, 1003), (1, 1003)],
     .wireResp 2 0 15, .wireResp 2 1 15, .wireReq 3 0 1002, .wireReq 3 1 1002, .wireResp 3 0 0, .wireResp 3 1 0,
     .finish 2 true,
     .wireReq 4 0 1003, .wireReq 4 1 1003, .wireResp 4 0 0, .wireResp 4 1 0, .finish 3 true]
    = [1001, 1001, 1002, 1002, 1002, 1002, 1003, 1003] := by decide
example : lastApplied 1
    [.issue 1 [(0, 1001), (1, 1001)], .wireReq 1 0 1001, .wireReq 1 1 1001, .wireResp 1 0 0, .wireResp 1 1 0, .finish 1 true,
     .issue 2 [(0, 1002), (1, 1002)], .wireReq 2 0 1002, .wireReq 2 1 1002,
     .issue 3 [(0, 1003), (1, 1003)],
     .wireResp 2 0 15, .wireResp 2 1 15, .wireReq 3 0 1002, .wireReq 3 1 1002, .wireResp 3 0 0, .wireResp 3 1 0,
     .finish 2 true,
     .wireReq 4 0 1003, .wireReq 4 1 1003, .wireResp 4 0 0, .wireResp 4 1 0, .finish 3 true] = some 1003 := by decide

/-- Non-vacuity with MIXED answers, two topics (partition 100 is partition 0 of the second topic), a deleted topic
and a rewritten answer. Commit 1 names all three partitions and is applied. The second topic is deleted. Commit 2's
answer (request 2) is mixed: UNKNOWN_TOPIC_ID (100) for partition 100, success for 0 and 1. Commit 3's answer
(request 3) is rewritten on the wire: partition 0 is shown OFFSET_METADATA_TOO_LARGE (12) although the
coordinator applied it (`taint 0`), partition 1 is a success. At the end partition 1 must be at commit 3's value
in both views; partition 0 is tainted (the group has 1003, the client 1002); partition 100 is gone. -/
example : accepts
    [.issue 1 [(0, 1001), (1, 1001), (100, 1001)], .wireReq 1 100 1001, .wireReq 1 0 1001, .wireReq 1 1 1001,
     .wireResp 1 100 0, .wireResp 1 0 0, .wireResp 1 1 0, .finish 1 true,
     .topicDeleted 1,
     .issue 2 [(0, 1002), (1, 1002), (100, 1002)], .wireReq 2 0 1002, .wireReq 2 1 1002, .wireReq 2 100 1002,
     .wireResp 2 0 0, .wireResp 2 1 0, .wireResp 2 100 100, .finish 2 false,
     .issue 3 [(0, 1003), (1, 1003)], .wireReq 3 1 1003, .wireReq 3 0 1003,
     .taint 0, .wireResp 3 1 0, .wireResp 3 0 12, .finish 3 false,
     .clientCommitted 0 1002, .clientCommitted 1 1003, .clientCommitted 100 1001,
     .groupCommitted 0 1003, .groupCommitted 1 1003,
     .quiesce] = true := by decide

/-- The same history with partition 1 — an untainted partition of the rewritten answer — left at commit 2's value
in CommittedOffsets (what a client shows that stops processing an answer at its first per-partition error,
partition 0 sorting before partition 1): refused. -/
example : accepts
    [.issue 1 [(0, 1001), (1, 1001), (100, 1001)], .wireReq 1 100 1001, .wireReq 1 0 1001, .wireReq 1 1 1001,
     .wireResp 1 100 0, .wireResp 1 0 0, .wireResp 1 1 0, .finish 1 true,
     .topicDeleted 1,
     .issue 2 [(0, 1002), (1, 1002), (100, 1002)], .wireReq 2 0 1002, .wireReq 2 1 1002, .wireReq 2 100 1002,
     .wireResp 2 0 0, .wireResp 2 1 0, .wireResp 2 100 100, .finish 2 false,
     .issue 3 [(0, 1003), (1, 1003)], .wireReq 3 1 1003, .wireReq 3 0 1003,
     .taint 0, .wireResp 3 1 0, .wireResp 3 0 12, .finish 3 false,
     .clientCommitted 0 1002, .clientCommitted 1 1002, .clientCommitted 100 1001,
     .groupCommitted 0 1003, .groupCommitted 1 1003,
     .quiesce] = false := by decide

/-- A mixed answer without any rewriting (partition 100 of a deleted topic refused, partition 0 applied in the same
answer) and partition 0 left at the previous commit's value in CommittedOffsets: refused. -/
example : accepts
    [.issue 1 [(0, 1001), (100, 1001)], .wireReq 1 100 1001, .wireReq 1 0 1001, .wireResp 1 100 0, .wireResp 1 0 0, .finish 1 true,
     .topicDeleted 1,
     .issue 2 [(0, 1002), (100, 1002)], .wireReq 2 100 1002, .wireReq 2 0 1002, .wireResp 2 100 3, .wireResp 2 0 0, .finish 2 false,
     .clientCommitted 0 1001, .groupCommitted 0 1002, .quiesce] = false := by decide

/-- The hypotheses of `mixed_response_other_partitions_still_judged` on the first of these histories, with
`e = wireResp 3 0 12` (partition 0's rewritten answer, p = 0) and q = 1: on the history without `e` partition 1's
last successful commit is commit 3's and it is not tainted; partition 0 itself is tainted at the end; the taint
ends with a later success (last line). -/
example : lastApplied 1
    ([.issue 1 [(0, 1001), (1, 1001), (100, 1001)], .wireReq 1 100 1001, .wireReq 1 0 1001, .wireReq 1 1 1001,
     .wireResp 1 100 0, .wireResp 1 0 0, .wireResp 1 1 0, .finish 1 true,
     .topicDeleted 1,
     .issue 2 [(0, 1002), (1, 1002), (100, 1002)], .wireReq 2 0 1002, .wireReq 2 1 1002, .wireReq 2 100 1002,
     .wireResp 2 0 0, .wireResp 2 1 0, .wireResp 2 100 100, .finish 2 false,
     .issue 3 [(0, 1003), (1, 1003)], .wireReq 3 1 1003, .wireReq 3 0 1003,
     .taint 0, .wireResp 3 1 0] ++
     [.finish 3 false,
     .clientCommitted 0 1002, .clientCommitted 1 1003, .clientCommitted 100 1001,
     .groupCommitted 0 1003, .groupCommitted 1 1003]) = some 1003 := by decide
example : taintedAtEnd 1 [.taint 0, .wireResp 3 1 0, .wireResp 3 0 12] = false := by decide
example : taintedAtEnd 0 [.taint 0, .wireResp 3 1 0, .wireResp 3 0 12] = true := by decide
example : topicDeleted (topicOf 1) [.topicDeleted 1, .taint 0] = false ∧ topicDeleted (topicOf 100) [.topicDeleted 1, .taint 0] = true := by decide
example : taintedAtEnd 0 [.taint 0, .wireResp 3 0 12, .wireResp 4 0 0] = false := by decide

/-- Partition 1's last commit (3) fails with a non-retriable error: its final offset is commit 2's, partition 0's
is commit 3's. -/
example : accepts
    [.issue 2 [(0, 1002), (1, 1002)], .wireReq 1 0 1002, .wireReq 1 1 1002, .wireResp 1 0 0, .wireResp 1 1 0, .finish 2 true,
     .issue 3 [(0, 1003), (1, 1003)], .wireReq 2 0 1003, .wireReq 2 1 1003, .wireResp 2 0 0, .wireResp 2 1 25, .finish 3 false,
     .clientCommitted 0 1003, .clientCommitted 1 1002, .groupCommitted 0 1003, .groupCommitted 1 1002,
     .quiesce] = true := by decide

/-- An older commit (2) arriving after a newer one (3): refused. -/
example : accepts
    [.issue 2 [(0, 1002)], .issue 3 [(0, 1003)],
     .wireReq 1 0 1003, .wireResp 1 0 0, .wireReq 2 0 1002, .wireResp 2 0 0, .finish 3 true, .finish 2 true,
     .clientCommitted 0 1002, .groupCommitted 0 1002, .quiesce] = false := by decide

/-- A request for a commit that was never issued, or for a partition the commit did not name: refused. -/
example : accepts [.issue 2 [(0, 1002)], .wireReq 1 0 1003] = false := by decide
example : accepts [.issue 2 [(0, 1002)], .wireReq 1 1 1002] = false := by decide

/-- A final group offset that is not the last successful commit (1002 instead of 1003): refused; so is a
CommittedOffsets value that differs, a missing final value, and a commit that never finished; and a partition
CommittedOffsets lists with the value 0 (unset) after a successful commit. -/
example : accepts
    [.issue 2 [(0, 1002)], .wireReq 1 0 1002, .wireResp 1 0 0, .finish 2 true,
     .issue 3 [(0, 1003)], .wireReq 2 0 1003, .wireResp 2 0 0, .finish 3 true,
     .clientCommitted 0 1003, .groupCommitted 0 1002, .quiesce] = false := by decide
example : accepts
    [.issue 2 [(0, 1002)], .wireReq 1 0 1002, .wireResp 1 0 0, .finish 2 true,
     .issue 3 [(0, 1003)], .wireReq 2 0 1003, .wireResp 2 0 0, .finish 3 true,
     .clientCommitted 0 1002, .groupCommitted 0 1003, .quiesce] = false := by decide
example : accepts
    [.issue 3 [(0, 1003)], .wireReq 2 0 1003, .wireResp 2 0 0, .finish 3 true,
     .clientCommitted 0 1003, .quiesce] = false := by decide
example : accepts
    [.issue 3 [(0, 1003)], .wireReq 2 0 1003, .wireResp 2 0 0,
     .clientCommitted 0 1003, .groupCommitted 0 1003, .quiesce] = false := by decide

example : accepts
    [.issue 3 [(0, 1003)], .wireReq 2 0 1003, .wireResp 2 0 0, .finish 3 true,
     .clientCommitted 0 0, .groupCommitted 0 1003, .quiesce] = false := by decide


/-! ### what a commit reports (second monitor, `Model.CommitReport`) -/

/-- A commit that reports success to the application was answered with success, as the client saw the answer on
the wire, for every partition it named: for each `(partition, offset)` of the commit there is a request that
carried exactly that offset for that partition to the coordinator and whose answer for that partition was shown
to the client without an error. So "the last successful commit" the application knows of is one the coordinator
acknowledged (`final_offsets_are_last_successful_commit` then says the final offsets are those values). -/
theorem reported_success_was_answered_successfully (h₁ h₂ : List Model.CommitReport.Ev) (k : Nat)
    (hacc : Model.CommitReport.accepts (h₁ ++ Model.CommitReport.Ev.finish k true :: h₂) = true) :
    ∃ offs, Model.CommitReport.Ev.issue k offs ∈ h₁ ∧
      ∀ o ∈ offs, ∃ n, Model.CommitReport.Ev.wireReq n o.1 o.2 ∈ h₁ ∧ Model.CommitReport.Ev.wireResp n o.1 0 ∈ h₁ := by
  unfold Model.CommitReport.accepts at hacc
  obtain ⟨s, hs⟩ := Option.isSome_iff_exists.1 hacc
  rw [Proof.CommitReport.run_append] at hs
  cases h1 : Model.CommitReport.run {} h₁ with
  | none => simp [h1] at hs
  | some s₁ =>
    simp only [h1, Option.bind_some, Model.CommitReport.run] at hs
    have hi : Proof.CommitReport.Inv h₁ s₁ := by simpa using Proof.CommitReport.inv_run h₁ Proof.CommitReport.inv_init h1
    unfold Model.CommitReport.step at hs
    cases hc : Model.CommitReport.check s₁ (.finish k true) with
    | some r => simp [hc] at hs
    | none =>
      simp only [Model.CommitReport.check] at hc
      cases ho : Model.CommitReport.offsOf s₁ k with
      | none => simp [ho] at hc
      | some offs =>
        simp only [ho] at hc
        split at hc
        · rename_i hall
          unfold Model.CommitReport.offsOf at ho
          cases hf : s₁.issued.find? (·.1 == k) with
          | none => simp [hf] at ho
          | some i =>
            simp only [hf, Option.map_some, Option.some.injEq] at ho
            have hik : i.1 = k := by simpa using List.find?_some hf
            have hmem := hi.issued i (List.mem_of_find?_eq_some hf)
            refine ⟨offs, by rw [← ho, ← hik]; exact hmem, ?_⟩
            intro o hoo
            rw [List.all_eq_true] at hall
            have := hall o hoo
            exact hi.okd o (by simpa using this)
        · cases hc

/-- Non-vacuity and both directions on concrete histories: commit 1 names partitions 0 and 1; request 7 carries both,
partition 1 is answered with COORDINATOR_LOAD_IN_PROGRESS (14) and answered with success only in the retry
(request 8); reporting success after that is accepted, reporting success before the retry's answer is refused,
reporting an error is always accepted. -/
example : Model.CommitReport.accepts
    [.issue 1 [(0, 1001), (1, 1001)], .wireReq 7 0 1001, .wireReq 7 1 1001, .wireResp 7 0 0, .wireResp 7 1 14,
     .wireReq 8 0 1001, .wireReq 8 1 1001, .wireResp 8 0 0, .wireResp 8 1 0, .finish 1 true] = true := by decide
example : Model.CommitReport.accepts
    [.issue 1 [(0, 1001), (1, 1001)], .wireReq 7 0 1001, .wireReq 7 1 1001, .wireResp 7 0 0, .wireResp 7 1 14,
     .finish 1 true] = false := by decide
example : Model.CommitReport.accepts
    [.issue 1 [(0, 1001), (1, 1001)], .wireReq 7 0 1001, .wireReq 7 1 1001, .wireResp 7 0 14, .wireResp 7 1 14,
     .finish 1 false] = true := by decide

end Props.C09
