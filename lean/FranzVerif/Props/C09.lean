import FranzVerif.Model.Commit
import FranzVerif.Proof.Commit
/-! C09 — offset commits take effect in the order issued. Theorems over ALL accepted histories of
`Model.Commit`; the tie is the history correspondence of the `cmt` scenarios. -/
namespace Props.C09
open Model.Commit Proof.Commit

/-- Commits reach the group coordinator in the order issued: the sequence of commit offsets (commit k carries
1000+k) seen at the coordinator never decreases, whatever retries, slow answers and rebalances happen. -/
theorem commits_arrive_in_issue_order (h : List Ev) (s : St) (hacc : run {} h = some s) :
    (wireOffsets h).Pairwise (· ≤ ·) := by
  sorry

/-- Every request at the coordinator belongs to a commit that was issued before, for a partition that commit named. -/
theorem only_issued_commits_arrive (h₁ h₂ : List Ev) (n part off : Nat)
    (hacc : (run {} (h₁ ++ Ev.wireReq n part off :: h₂)).isSome) :
    ∃ k offs, Ev.issue k offs ∈ h₁ ∧ off = 1000 + k ∧ (part, off) ∈ offs := by
  sorry

/-- After all commits finished, each partition's committed offset equals its value in the last successful
commit, and CommittedOffsets reports the same value. -/
theorem final_offsets_are_last_successful_commit (h : List Ev) (s : St) (hacc : run {} (h ++ [Ev.quiesce]) = some s)
    (hcomplete : isIncomplete h = false) (p off : Nat) (hlast : lastApplied p h = some off) :
    (∀ k offs, Ev.issue k offs ∈ h → ∃ ok, Ev.finish k ok ∈ h) ∧
    (∃ g, Ev.groupCommitted p g ∈ h) ∧ (∀ g, Ev.groupCommitted p g ∈ h → g = (off : Int)) ∧
    (∃ c, Ev.clientCommitted p c ∈ h) ∧ (∀ c, Ev.clientCommitted p c ∈ h → c = (off : Int)) := by
  sorry

end Props.C09
