import FranzVerif.Model.Commit
import FranzVerif.Proof.Commit
import FranzVerif.Proof.CommitInv
/-! C09 — offset commits take effect in the order issued. Theorems over ALL accepted histories of
`Model.Commit`; the tie is the history correspondence of the `cmt` scenarios.

All three statements hold as first written and the observables are unchanged: `lastApplied`'s scan pairs an
answer with the newest request of that number and partition, exactly what the monitor's `s.wire.find?` does on
its newest-first list (`Proof.Commit.lastApplied_go_run`); the existence of CO/GC events for every partition
with a successful commit is what the `…-missing` rules of `quiesce` give. -/
namespace Props.C09
open Model.Commit Proof.Commit

/-- Commits reach the group coordinator in the order issued: the sequence of commit offsets (commit k carries
1000+k) seen at the coordinator never decreases, whatever retries, slow answers and rebalances happen. -/
theorem commits_arrive_in_issue_order (h : List Ev) (s : St) (hacc : run {} h = some s) :
    (wireOffsets h).Pairwise (· ≤ ·) :=
  (wire_sorted hacc).2

/-- Every request at the coordinator belongs to a commit that was issued before, for a partition that commit named. -/
theorem only_issued_commits_arrive (h₁ h₂ : List Ev) (n part off : Nat)
    (hacc : (run {} (h₁ ++ Ev.wireReq n part off :: h₂)).isSome) :
    ∃ k offs, Ev.issue k offs ∈ h₁ ∧ off = 1000 + k ∧ (part, off) ∈ offs := by
  obtain ⟨s, hs⟩ := Option.isSome_iff_exists.1 hacc
  obtain ⟨s₁, hr₁, hchk, _⟩ := run_split hs
  have hi := inv_of_run hr₁
  obtain ⟨_, i, hmem, hoff, o, ho, hpart⟩ := wireReq_check hchk
  refine ⟨i.1, i.2, (hi.issued i).1 hmem, hoff.symm, ?_⟩
  have h2 := hi.enc i hmem o ho
  have : o = (part, off) := by
    obtain ⟨o1, o2⟩ := o
    simp only at hpart h2
    rw [hpart, h2, hoff]
  rwa [this] at ho

/-- After all commits finished, each partition's committed offset equals its value in the last successful
commit, and CommittedOffsets reports the same value. -/
theorem final_offsets_are_last_successful_commit (h : List Ev) (s : St) (hacc : run {} (h ++ [Ev.quiesce]) = some s)
    (hcomplete : isIncomplete h = false) (p off : Nat) (hlast : lastApplied p h = some off) :
    (∀ k offs, Ev.issue k offs ∈ h → ∃ ok, Ev.finish k ok ∈ h) ∧
    (∃ g, Ev.groupCommitted p g ∈ h) ∧ (∀ g, Ev.groupCommitted p g ∈ h → g = (off : Int)) ∧
    (∃ c, Ev.clientCommitted p c ∈ h) ∧ (∀ c, Ev.clientCommitted p c ∈ h → c = (off : Int)) := by
  obtain ⟨s₁, hr₁, hchk⟩ := run_snoc hacc
  have hi := inv_of_run hr₁
  obtain ⟨q1, q2, q3, q4, q5⟩ := quiesce_check hchk (by rw [hi.incomplete]; exact hcomplete)
  have hcur : curOf s₁ p = some off := by rw [lastApplied_run hr₁]; exact hlast
  obtain ⟨happ, a, ha, hap⟩ := appliedOf_of_curOf hcur
  refine ⟨?_, ?_, ?_, ?_, ?_⟩
  · intro k offs hk
    obtain ⟨f, hf, hfk⟩ := q1 (k, offs) ((hi.issued (k, offs)).2 hk)
    refine ⟨f.2, ?_⟩
    have := (hi.finished f).1 hf
    rwa [hfk] at this
  · obtain ⟨g, hg, hgp⟩ := q3 a ha
    refine ⟨g.2, ?_⟩
    have := (hi.gc g).1 hg
    rwa [hgp, hap] at this
  · intro g hg
    have := q2 (p, g) ((hi.gc (p, g)).2 hg) ⟨a, ha, hap⟩
    simpa only [happ] using this
  · obtain ⟨g, hg, hgp⟩ := q5 a ha
    refine ⟨g.2, ?_⟩
    have := (hi.co g).1 hg
    rwa [hgp, hap] at this
  · intro g hg
    have := q4 (p, g) ((hi.co (p, g)).2 hg) ⟨a, ha, hap⟩
    simpa only [happ] using this

/-- Non-vacuity: commits 1..3 over partitions 0 and 1. Commit 1 reaches the coordinator in request 1 and is
answered; commit 2 (request 2) is answered with a retriable error (15) and retried in request 3; commit 3 is
issued asynchronously before commit 2 finished and arrives (request 4) after commit 2's retry; the final
CommittedOffsets / OffsetFetch values are those of commit 3 for both partitions. -/
example : accepts
    [.issue 1 [(0, 1001), (1, 1001)], .wireReq 1 0 1001, .wireReq 1 1 1001, .wireResp 1 0 0, .wireResp 1 1 0, .finish 1 true,
     .issue 2 [(0, 1002), (1, 1002)], .wireReq 2 0 1002, .wireReq 2 1 1002,
     .issue 3 [(0, 1003), (1, 1003)],
     .wireResp 2 0 15, .wireResp 2 1 15, .wireReq 3 0 1002, .wireReq 3 1 1002, .wireResp 3 0 0, .wireResp 3 1 0,
     .finish 2 true,
     .wireReq 4 0 1003, .wireReq 4 1 1003, .wireResp 4 0 0, .wireResp 4 1 0, .finish 3 true,
     .clientCommitted 0 1003, .clientCommitted 1 1003, .groupCommitted 0 1003, .groupCommitted 1 1003,
     .quiesce] = true := by decide

/-- The observables on that history (without the closing `quiesce`). -/
example : wireOffsets
    [.issue 1 [(0, 1001), (1, 1001)], .wireReq 1 0 1001, .wireReq 1 1 1001, .wireResp 1 0 0, .wireResp 1 1 0, .finish 1 true,
     .issue 2 [(0, 1002), (1, 1002)], .wireReq 2 0 1002, .wireReq 2 1 1002,
     .issue 3 [(0, 1003), (1, 1003)],
     .wireResp 2 0 15, .wireResp 2 1 15, .wireReq 3 0 1002, .wireReq 3 1 1002, .wireResp 3 0 0, .wireResp 3 1 0,
     .finish 2 true,
     .wireReq 4 0 1003, .wireReq 4 1 1003, .wireResp 4 0 0, .wireResp 4 1 0, .finish 3 true]
    = [1001, 1001, 1002, 1002, 1002, 1002, 1003, 1003] := by decide
example : lastApplied 1
    [.issue 1 [(0, 1001), (1, 1001)], .wireReq 1 0 1001, .wireReq 1 1 1001, .wireResp 1 0 0, .wireResp 1 1 0, .finish 1 true,
     .issue 2 [(0, 1002), (1, 1002)], .wireReq 2 0 1002, .wireReq 2 1 1002,
     .issue 3 [(0, 1003), (1, 1003)],
     .wireResp 2 0 15, .wireResp 2 1 15, .wireReq 3 0 1002, .wireReq 3 1 1002, .wireResp 3 0 0, .wireResp 3 1 0,
     .finish 2 true,
     .wireReq 4 0 1003, .wireReq 4 1 1003, .wireResp 4 0 0, .wireResp 4 1 0, .finish 3 true] = some 1003 := by decide

/-- Partition 1's last commit (3) fails with a non-retriable error: its final offset is commit 2's, partition 0's
is commit 3's. -/
example : accepts
    [.issue 2 [(0, 1002), (1, 1002)], .wireReq 1 0 1002, .wireReq 1 1 1002, .wireResp 1 0 0, .wireResp 1 1 0, .finish 2 true,
     .issue 3 [(0, 1003), (1, 1003)], .wireReq 2 0 1003, .wireReq 2 1 1003, .wireResp 2 0 0, .wireResp 2 1 25, .finish 3 false,
     .clientCommitted 0 1003, .clientCommitted 1 1002, .groupCommitted 0 1003, .groupCommitted 1 1002,
     .quiesce] = true := by decide

/-- An older commit (2) arriving after a newer one (3): refused. -/
example : accepts
    [.issue 2 [(0, 1002)], .issue 3 [(0, 1003)],
     .wireReq 1 0 1003, .wireResp 1 0 0, .wireReq 2 0 1002, .wireResp 2 0 0, .finish 3 true, .finish 2 true,
     .clientCommitted 0 1002, .groupCommitted 0 1002, .quiesce] = false := by decide

/-- A request for a commit that was never issued, or for a partition the commit did not name: refused. -/
example : accepts [.issue 2 [(0, 1002)], .wireReq 1 0 1003] = false := by decide
example : accepts [.issue 2 [(0, 1002)], .wireReq 1 1 1002] = false := by decide

/-- A final group offset that is not the last successful commit (1002 instead of 1003): refused; so is a
CommittedOffsets value that differs, a missing final value, and a commit that never finished. -/
example : accepts
    [.issue 2 [(0, 1002)], .wireReq 1 0 1002, .wireResp 1 0 0, .finish 2 true,
     .issue 3 [(0, 1003)], .wireReq 2 0 1003, .wireResp 2 0 0, .finish 3 true,
     .clientCommitted 0 1003, .groupCommitted 0 1002, .quiesce] = false := by decide
example : accepts
    [.issue 2 [(0, 1002)], .wireReq 1 0 1002, .wireResp 1 0 0, .finish 2 true,
     .issue 3 [(0, 1003)], .wireReq 2 0 1003, .wireResp 2 0 0, .finish 3 true,
     .clientCommitted 0 1002, .groupCommitted 0 1003, .quiesce] = false := by decide
example : accepts
    [.issue 3 [(0, 1003)], .wireReq 2 0 1003, .wireResp 2 0 0, .finish 3 true,
     .clientCommitted 0 1003, .quiesce] = false := by decide
example : accepts
    [.issue 3 [(0, 1003)], .wireReq 2 0 1003, .wireResp 2 0 0,
     .clientCommitted 0 1003, .groupCommitted 0 1003, .quiesce] = false := by decide

end Props.C09
