import FranzVerif.Model.C21
import FranzVerif.Proof.C21
/-! C21 — property theorems: request versions are negotiated within all bounds.

Property text: *every request the client writes uses the highest version that is at most the client's
supported maximum, the broker's advertised maximum, the user's MaxVersions and any internal pin, and at
least the broker's advertised minimum and the user's MinVersions. When no such version exists, the
request fails with an error and is not written.*

`Spec.ok b o` (Model/C21.lean) is that sentence on one observation `o` (a written header version, or
nothing); `spec_scan_decides` shows its scan decides the quantified sentence over all integers.

FULL STATEMENT, for every input of the clamp and every ApiVersions table:

    Spec.ok (boundsOf i table) (clamp i).written = true

It is FALSE of the code as it is (`clamp_spec_full_false`): `handleReq` recognises "a table was loaded"
by `v.maxVersion(0) >= 0`, so when the broker's table lacks both the Produce key and the request's key
the request is written at the client/user maximum instead of failing. Proved instead:
`clamp_spec_partial` and the two `iff`s under `ProduceKnown`; `clamp_never_outside` unconditionally for
every bound the code does consult. The connection-setup requests (ApiVersions, SASLHandshake,
SASLAuthenticate) do not go through the clamp; `initApi_first_partial`, `saslHandshake_partial`,
`saslAuth_partial` say when they meet the sentence, and `setup_full_false` refutes it for each by a
decided witness. -/
namespace Props.C21
open Model.C21 Model.C21.Spec Proof.C21

/-- Well-formed input: versions are non-negative where the API guarantees it (`req.MaxVersion()`, the
literal pins of client.go, `SetMaxKeyVersion` which deletes on a negative value). -/
structure WF (i : In) : Prop where
  cmax : 0 ≤ i.cmax
  pin : ∀ p, i.pin = some p → p.pinMax = true → 0 ≤ p.max
  umax : ∀ vs, i.umax = some vs → (vs.lookup i.key).2 = true → 0 ≤ (vs.lookup i.key).1

/-- The stored `brokerVersions` is the loaded table, or the empty one when no ApiVersions was exchanged. -/
def Stored (i : In) (table : Option BrokerVersions) : Prop := i.bv = table.getD []

/-- The case the code handles as the property says: no table at all, or a table that has the Produce
key or the request's key (with a non-negative max). -/
def ProduceKnown (i : In) (table : Option BrokerVersions) : Prop :=
  table = none ∨ 0 ≤ i.bv.maxVersion 0 ∨ 0 ≤ i.bv.maxVersion i.key

/-- The executable Spec decides the quantified sentence. -/
theorem spec_scan_decides (b : Bounds) :
    (∀ v, Spec.ok b (some v) = true ↔ (Allowed b v ∧ ∀ w, Allowed b w → w ≤ v)) ∧
    (Spec.ok b none = true ↔ ∀ w, ¬ Allowed b w) :=
  ⟨fun v => isHighest_iff b v, noneAllowed_iff b⟩

theorem lookupShape (u : Option Versions) (k : Int) : LookupShape (u.map (fun vs => vs.lookup k)) := by
  intro x hx hb
  cases u with
  | none => cases hx
  | some vs =>
    simp only [Option.map_some, Option.some.injEq] at hx
    subst hx
    unfold Versions.lookup at hb ⊢
    cases hf : List.find? (fun e => e.1 == k) vs <;> simp [hf] at hb ⊢

theorem brokerRel (i : In) (table : Option BrokerVersions) (hs : Stored i table) :
    BrokerRel (specBroker table i.key) (i.bv.maxVersion 0) (i.bv.maxVersion i.key) (i.bv.minVersion i.key) := by
  unfold Stored at hs
  rw [hs]
  cases table with
  | none => simp [specBroker, BrokerRel, BrokerVersions.maxVersion, BrokerVersions.minVersion, BrokerVersions.find]
  | some tb =>
    simp only [specBroker, Option.getD_some, BrokerVersions.maxVersion, BrokerVersions.minVersion]
    cases tb.find i.key <;> simp [BrokerRel]

theorem clamp_core (i : In) (table : Option BrokerVersions) (wf : WF i) (hs : Stored i table) (hp : ProduceKnown i table) :
    (∀ v, clamp i = .ok v → IsMax (boundsOf i table) v) ∧
    ((clamp i).written = none → ∀ w, ¬ Allowed (boundsOf i table) w) := by
  unfold clamp boundsOf
  refine core_spec i.cmax i.pin _ _ _ _ _ _ wf.cmax ?_ ?_ (lookupShape i.umin i.key) (brokerRel i table hs) ?_
  · intro a ha
    unfold pinMaxO at ha
    cases hpin : i.pin with
    | none => rw [hpin] at ha; cases ha
    | some p =>
      rw [hpin] at ha
      simp only at ha
      split at ha
      · cases ha; exact wf.pin p hpin (by assumption)
      · cases ha
  · intro l hl hb
    cases hu : i.umax with
    | none => rw [hu] at hl; cases hl
    | some vs =>
      rw [hu] at hl
      simp only [Option.map_some, Option.some.injEq] at hl
      subst hl
      exact wf.umax vs hu hb
  · rcases hp with h | h | h
    · left; rw [h]; rfl
    · right; left; exact h
    · right; right; exact h

/-- **`result = ok v ↔ v is that maximum`** (partial: under `ProduceKnown`). -/
theorem clamp_ok_iff_partial (i : In) (table : Option BrokerVersions) (v : Int)
    (wf : WF i) (hs : Stored i table) (hp : ProduceKnown i table) :
    clamp i = .ok v ↔ (Allowed (boundsOf i table) v ∧ ∀ w, Allowed (boundsOf i table) w → w ≤ v) := by
  have hc := clamp_core i table wf hs hp
  constructor
  · exact hc.1 v
  · intro hmax
    cases hcl : clamp i with
    | ok v' => rw [isMax_unique _ v v' hmax (hc.1 v' hcl)]
    | errUnknownRequestKey => exact absurd hmax.1 (hc.2 (by rw [hcl]; rfl) v)
    | errBrokerTooOld => exact absurd hmax.1 (hc.2 (by rw [hcl]; rfl) v)
    | userMinError a b => exact absurd hmax.1 (hc.2 (by rw [hcl]; rfl) v)

/-- **`result is an error ↔ the set is empty`** — which includes a key unknown to the broker's table or
to the user's MaxVersions (partial: under `ProduceKnown`). An error means nothing is written. -/
theorem clamp_err_iff_partial (i : In) (table : Option BrokerVersions)
    (wf : WF i) (hs : Stored i table) (hp : ProduceKnown i table) :
    (clamp i).written = none ↔ ∀ w, ¬ Allowed (boundsOf i table) w := by
  have hc := clamp_core i table wf hs hp
  constructor
  · exact hc.2
  · intro hempty
    cases hcl : clamp i with
    | ok v' => exact absurd (hc.1 v' hcl).1 (hempty v')
    | errUnknownRequestKey => rfl
    | errBrokerTooOld => rfl
    | userMinError a b => rfl

/-- The executable Spec holds on the clamp's observable outcome (partial: under `ProduceKnown`). -/
theorem clamp_spec_partial (i : In) (table : Option BrokerVersions)
    (wf : WF i) (hs : Stored i table) (hp : ProduceKnown i table) :
    Spec.ok (boundsOf i table) (clamp i).written = true := by
  have hc := clamp_core i table wf hs hp
  cases hcl : clamp i with
  | ok v' => exact (isHighest_iff _ v').2 (hc.1 v' hcl)
  | errUnknownRequestKey => exact (noneAllowed_iff _).2 (hc.2 (by rw [hcl]; rfl))
  | errBrokerTooOld => exact (noneAllowed_iff _).2 (hc.2 (by rw [hcl]; rfl))
  | userMinError a b => exact (noneAllowed_iff _).2 (hc.2 (by rw [hcl]; rfl))

/-- Non-vacuity: Metadata (client max 13), pinned max 9, broker [2,7], user max 8, user min 3 → v7;
the hypotheses hold and every bound is live. -/
def exampleIn : In :=
  { key := 3, cmax := 13, pin := some { pinMax := true, max := 9 }, bv := [⟨0, 0, 12⟩, ⟨3, 2, 7⟩],
    umax := some [(3, 8)], umin := some [(3, 3)] }
example : clamp exampleIn = .ok 7 ∧ ProduceKnown exampleIn (some exampleIn.bv)
    ∧ Spec.ok (boundsOf exampleIn (some exampleIn.bv)) (some 7) = true
    ∧ Spec.ok (boundsOf exampleIn (some exampleIn.bv)) (some 6) = false :=
  ⟨by decide, Or.inr (Or.inl (by decide)), by decide, by decide⟩

/-- **The full statement is false of the code**: a table that lacks both the Produce key and the request's
key (a KRaft controller does not advertise Produce) is taken for "no ApiVersions", and the request is
written at the client's maximum although the broker does not know the key. -/
theorem clamp_spec_full_false :
    ∃ (i : In) (table : Option BrokerVersions), WF i ∧ Stored i table ∧
      Spec.ok (boundsOf i table) (clamp i).written = false ∧ clamp i = .ok 13 := by
  refine ⟨{ key := 3, cmax := 13, bv := [⟨18, 0, 4⟩], umax := none, umin := none }, some [⟨18, 0, 4⟩],
    ⟨by decide, fun p h => (by cases h), fun vs h => (by cases h)⟩, rfl, by decide, by decide⟩

/-- **Never a version outside a bound the code consults** (no `ProduceKnown` needed): a version that
goes on to be written is within the client's range, under every pinned / non-negative advertised /
user maximum and over every pinned / non-negative advertised / user minimum, and the user's
MaxVersions has the key. -/
theorem clamp_never_outside (i : In) (v : Int) (wf : WF i) (h : clamp i = .ok v) :
    0 ≤ v ∧ v ≤ i.cmax
    ∧ (∀ a, pinMaxO i.pin = some a → v ≤ a) ∧ (∀ a, pinMinO i.pin = some a → a ≤ v)
    ∧ (∀ e, i.bv.find i.key = some e → 0 ≤ e.max → v ≤ e.max)
    ∧ (∀ e, i.bv.find i.key = some e → 0 ≤ e.min → e.min ≤ v)
    ∧ (∀ vs, i.umax = some vs → (vs.lookup i.key).2 = true ∧ v ≤ (vs.lookup i.key).1)
    ∧ (∀ vs, i.umin = some vs → (vs.lookup i.key).1 ≤ v) := by
  unfold clamp at h
  have hpin : ∀ a, pinMaxO i.pin = some a → 0 ≤ a := by
    intro a ha
    unfold pinMaxO at ha
    cases hp : i.pin with
    | none => rw [hp] at ha; cases ha
    | some p =>
      rw [hp] at ha
      simp only at ha
      split at ha
      · cases ha; exact wf.pin p hp (by assumption)
      · cases ha
  have hum : ∀ l, i.umax.map (fun vs => vs.lookup i.key) = some l → l.2 = true → 0 ≤ l.1 := by
    intro l hl hb
    cases hu : i.umax with
    | none => rw [hu] at hl; cases hl
    | some vs =>
      rw [hu] at hl
      simp only [Option.map_some, Option.some.injEq] at hl
      subst hl
      exact wf.umax vs hu hb
  obtain ⟨h0, h1, h2, h3, h4, h5, h6, h7, h8⟩ := core_never_outside _ _ _ _ _ _ _ v wf.cmax hpin hum h
  refine ⟨h0, h1, h2, h3, ?_, ?_, ?_, ?_⟩
  · intro e he hem
    exact h4 e.max (by simp [BrokerVersions.maxVersion, he, nonNegO, hem])
  · intro e he hem
    exact h5 e.min (by simp [BrokerVersions.minVersion, he, nonNegO, hem])
  · intro vs hvs
    rw [hvs] at h6 h7
    simp only [Option.map_some, unknownKey, Bool.not_eq_eq_eq_not, Bool.not_false] at h6
    exact ⟨h6, h7 _ (by simp)⟩
  · intro vs hvs
    rw [hvs] at h8
    exact h8 _ (by simp)

/-- Which error, in the order of the code's checks: a key the user's MaxVersions does not have is
`errUnknownRequestKey` whatever the broker says. -/
theorem clamp_unknown_key_iff (i : In) :
    clamp i = .errUnknownRequestKey ↔ ∃ vs, i.umax = some vs ∧ vs.hasKey i.key = false := by
  unfold clamp clampCore
  cases hu : i.umax with
  | none =>
    simp only [Option.map_none, unknownKey]
    constructor
    · intro h
      simp only [Bool.false_eq_true, if_false] at h
      repeat' split at h
      all_goals cases h
    · rintro ⟨vs, h, _⟩; cases h
  | some vs =>
    simp only [Option.map_some, unknownKey, Versions.hasKey]
    cases hb : (vs.lookup i.key).2
    · simp [hb]
    · simp only [Bool.not_true, Bool.false_eq_true, if_false, Option.some.injEq, exists_eq_left', hb]
      constructor
      · intro h
        repeat' split at h
        all_goals cases h
      · intro h; cases h

/-! ### ApiVersions loading -/

/-- **Loading picks, per key, the advertised `[min,max]`**: with distinct keys in the response, every
element is found under its key with exactly its range; a key that is not in the response reads −1/−1. -/
theorem load_picks_advertised (resp : List ApiKey) (hnd : (resp.map (·.key)).Nodup) :
    (∀ e ∈ resp, (load resp).maxVersion e.key = e.max ∧ (load resp).minVersion e.key = e.min) ∧
    (∀ k, k ∉ resp.map (·.key) → (load resp).maxVersion k = -1 ∧ (load resp).minVersion k = -1) := by
  constructor
  · intro e he
    have : BrokerVersions.find (load resp) e.key = some e := by
      rw [find_load]
      apply find_of_inj
      · intro x hx hk
        exact inj_of_nodup resp hnd x (List.mem_reverse.1 hx) e he hk
      · exact List.mem_reverse.2 he
    simp [BrokerVersions.maxVersion, BrokerVersions.minVersion, this]
  · intro k hk
    have : BrokerVersions.find (load resp) k = none := by
      rw [find_load, List.find?_eq_none]
      intro x hx
      have hx' := List.mem_reverse.1 hx
      simp only [beq_iff_eq]
      intro hxk
      exact hk (hxk ▸ List.mem_map_of_mem hx')
    simp [BrokerVersions.maxVersion, BrokerVersions.minVersion, this]

/-- In general (repeated keys) the last element with a key wins, as with the Go map writes. -/
theorem load_last_wins (resp : List ApiKey) (k : Int) :
    BrokerVersions.find (load resp) k = resp.reverse.find? (fun e => e.key == k) := find_load resp k

example : (load [⟨3, 0, 9⟩, ⟨0, 3, 11⟩, ⟨3, 1, 12⟩]).maxVersion 3 = 12 ∧ (load [⟨3, 0, 9⟩, ⟨0, 3, 11⟩]).minVersion 0 = 3
    ∧ (load [⟨3, 0, 9⟩]).maxVersion 18 = -1 := by decide

/-! ### connection setup: requests that do not go through the clamp -/

/-- FULL STATEMENT for the first ApiVersions request of a connection (nothing is known of the broker yet):
its version is the highest one within the client's codec (4) and the user's bounds for key 18. FALSE
(`setup_full_false`): the user's max is taken as it is, also above 4, and MinVersions is not read.
Partial: with the user's max for key 18 unset or within `0..4`, and no MinVersions. -/
theorem initApi_first_partial (umax : Option Versions)
    (hiss : issuesApiVersions umax = true)
    (hu : ∀ vs, umax = some vs → 0 ≤ (vs.lookup 18).1 ∧ (vs.lookup 18).1 ≤ 4) :
    IsMax { cmax := 4, broker := .noApi, umax := specUser umax 18, umin := .unset } (initApiFirst umax) := by
  unfold IsMax Allowed allowed specUser specUserL initApiFirst atMost atLeast inBroker overUser
  cases umax with
  | none =>
    simp only [Option.map_none, underUser, Bool.and_true, Bool.and_eq_true, decide_eq_true_eq]
    exact ⟨by omega, fun w hw => hw.2⟩
  | some vs =>
    have h := hu vs rfl
    unfold issuesApiVersions Versions.hasKey at hiss
    simp only at hiss
    rcases hl : vs.lookup 18 with ⟨m, b⟩
    rw [hl] at hiss h
    simp only at hiss h
    subst hiss
    simp only [Option.map_some, hl, if_true, underUser, Bool.and_true, Bool.and_eq_true, decide_eq_true_eq, true_and]
    have hm : m ≥ 0 := h.1
    simp only [hm, if_true]
    exact ⟨⟨⟨trivial, h.2⟩, Int.le_refl _⟩, fun w hw => hw.2⟩

/-- FULL STATEMENT for SASLHandshake: highest version within the client's codec (1), the advertised range
and the user's bounds for key 17. FALSE (`setup_full_false`): the version is the advertised max, whatever
the codec and the user say. Partial: advertised max within the codec, no user bounds on the key. -/
theorem saslHandshake_partial (bv : BrokerVersions) (e : ApiKey) (hf : bv.find 17 = some e)
    (h0 : 0 ≤ e.max) (h1 : e.max ≤ 1) (hmin : e.min ≤ e.max) :
    saslHandshakeVersion bv = some e.max ∧
    IsMax { cmax := 1, broker := .range e.min e.max, umax := .unset, umin := .unset } e.max := by
  constructor
  · simp [saslHandshakeVersion, BrokerVersions.maxVersion, hf, h0]
  · unfold IsMax Allowed allowed atMost atLeast inBroker underUser overUser
    simp only [Bool.and_true, Bool.and_eq_true, decide_eq_true_eq]
    exact ⟨by omega, fun w hw => by omega⟩

/-- Same for SASLAuthenticate (codec max 2), sent when the handshake went out at v1. -/
theorem saslAuth_partial (bv : BrokerVersions) (e17 e : ApiKey) (hf17 : bv.find 17 = some e17) (h17 : e17.max = 1)
    (hf : bv.find 36 = some e) (h0 : 0 ≤ e.max) (h1 : e.max ≤ 2) (hmin : e.min ≤ e.max) :
    saslAuthVersion bv = some e.max ∧
    IsMax { cmax := 2, broker := .range e.min e.max, umax := .unset, umin := .unset } e.max := by
  constructor
  · simp [saslAuthVersion, saslHandshakeVersion, BrokerVersions.maxVersion, hf, hf17, h17]
  · unfold IsMax Allowed allowed atMost atLeast inBroker underUser overUser
    simp only [Bool.and_true, Bool.and_eq_true, decide_eq_true_eq]
    exact ⟨by omega, fun w hw => by omega⟩

/-- **The full statement is false for each connection-setup request** (decided witnesses):
ApiVersions v6 with a user max of 6 for key 18 (codec max 4); SASLHandshake v3 when the broker advertises
0..3 (codec max 1), and v1 although the user's MaxVersions says 0; SASLAuthenticate at version −1 when
the broker advertises the handshake at v1 and no SASLAuthenticate key. -/
theorem setup_full_false :
    (initApiFirst (some [(18, 6)]) = 6 ∧
      Spec.ok { cmax := 4, broker := .noApi, umax := .val 6, umin := .unset } (some 6) = false) ∧
    (saslHandshakeVersion [⟨17, 0, 3⟩] = some 3 ∧
      Spec.ok { cmax := 1, broker := .range 0 3, umax := .unset, umin := .unset } (some 3) = false) ∧
    (saslHandshakeVersion [⟨17, 0, 1⟩] = some 1 ∧
      Spec.ok { cmax := 1, broker := .range 0 1, umax := .val 0, umin := .unset } (some 1) = false) ∧
    (saslAuthVersion [⟨17, 0, 1⟩] = some (-1) ∧
      Spec.ok { cmax := 2, broker := .missing, umax := .unset, umin := .unset } (some (-1)) = false) := by
  decide

/-- The KIP-511 downgrade loop against a broker that refuses versions above its advertised max: the
versions written strictly decrease, so the loop ends. -/
theorem initApiChain_decreasing (adv18 : Option ApiKey) (fuel : Nat) (v : Int) :
    List.Pairwise (fun a b => b < a) (initApiChain adv18 fuel v).1 ∧ ∀ x ∈ (initApiChain adv18 fuel v).1, x ≤ v := by
  induction fuel generalizing v with
  | zero => simp [initApiChain]
  | succ n ih =>
    unfold initApiChain
    cases hr : scriptRefuses adv18 v with
    | none => simp
    | some r =>
      simp only
      by_cases hv : v = 0
      · simp [hv]
      · simp only [hv, if_false]
        by_cases hc : r ≥ 0 ∧ r < v
        · simp only [hc, and_self, if_true]
          have := ih r
          refine ⟨List.pairwise_cons.2 ⟨fun x hx => ?_, this.1⟩, fun x hx => ?_⟩
          · have := this.2 x hx; omega
          · rcases List.mem_cons.1 hx with rfl | hx'
            · omega
            · have := this.2 x hx'; omega
        · simp [hc]

/-! ### one broker object, several connections: the MOST RECENT advertisement governs

The broker's advertised range is re-read on every new connection (`brokerCxn.init` → `requestAPIVersions`
→ `storeVersions`), and the table is kept per broker object, not per connection: a request is negotiated
against the table of the latest completed ApiVersions exchange on ANY connection of its broker object
(`handleReqs` serialises the connects and clamps of one object). `latestTable` (Proof/C21.lean) reads that
table off the events alone.

FULL STATEMENT, for every configuration and every sequence of connects (each answered with an arbitrary key
table) and requests of one broker object: every request is negotiated against the latest successfully
received table — `Spec.traceOk (obsRun umax umin none evs) = true`. Proved: `request_uses_latest_table`
(the outcome of every request, for all sequences), `written_within_latest_advertised` and
`absent_key_fails_on_latest` (unconditional range / missing-key statements), `never_nil_versions`, and
`trace_spec_partial` — the executable Spec on the whole history — under the same `ProduceKnown` restriction
as the single-table theorems (every received table has a usable Produce entry); without it the full
statement is false already for one connection (`clamp_spec_full_false`). -/

/-- **Every request is clamped against the table of the latest successful ApiVersions exchange of its broker
object**, for every sequence of connects and requests, whatever was advertised before: the outcome of a run
splits into the outcomes before the request, the clamp on `load t` for the latest table `t` (the nil
dereference when there never was one), and the outcomes after. -/
theorem request_uses_latest_table (umax umin : Option Versions) (hiss : issuesApiVersions umax = true)
    (pre post : List Ev) (r : Req) :
    runEvs umax umin none (pre ++ .request r :: post) =
      runEvs umax umin none pre ++
        (match latestTable pre.reverse with
          | some t => EvOut.clamped (clamp (r.toIn (load t) umax umin))
          | none => EvOut.nilVersions) ::
        runEvs umax umin (storedAfter umax none pre) post := by
  rw [runEvs_append, storedAfter_latest umax hiss none pre]
  cases latestTable pre.reverse <;> rfl

/-- A client pinned before 0.10 (its MaxVersions has no ApiVersions key) never looks at what a broker would
advertise: every request after the first connect is clamped against the empty table. -/
theorem request_without_apiversions (umax umin : Option Versions) (hiss : issuesApiVersions umax = false)
    (resp : List ApiKey) (mid post : List Ev) (r : Req) :
    runEvs umax umin none (.connect resp :: mid ++ .request r :: post) =
      runEvs umax umin none (.connect resp :: mid) ++
        EvOut.clamped (clamp (r.toIn BrokerVersions.empty umax umin)) ::
        runEvs umax umin (storedAfter umax none (.connect resp :: mid)) post := by
  have hst : ∀ (es : List Ev) (s : StoredV), s = some BrokerVersions.empty → storedAfter umax s es = some BrokerVersions.empty := by
    intro es
    induction es with
    | nil => intro s hs; exact hs
    | cons e es ih =>
      intro s hs
      rw [storedAfter]
      apply ih
      cases e with
      | connect resp' => simp [stepStored, initCxn, hiss, hs]
      | request r' => exact hs
  have h1 : storedAfter umax none (.connect resp :: mid) = some BrokerVersions.empty := by
    rw [storedAfter]
    apply hst
    simp [stepStored, initCxn, hiss, storeVersions]
  show runEvs umax umin none ((Ev.connect resp :: mid) ++ Ev.request r :: post) = _
  rw [runEvs_append, h1]
  rfl

/-- **A written version lies within the range of the MOST RECENT advertisement** (unconditionally, for every
sequence): if the request after `pre` is written with version `v`, there is a latest table, and `v` respects
its (last) entry for the key — at most a non-negative advertised max, at least a non-negative advertised min. -/
theorem written_within_latest_advertised (umax umin : Option Versions) (hiss : issuesApiVersions umax = true)
    (pre post : List Ev) (r : Req) (v : Int) (wf : ∀ bv, WF (r.toIn bv umax umin))
    (h : runEvs umax umin none (pre ++ .request r :: post) =
          runEvs umax umin none pre ++ EvOut.clamped (.ok v) :: runEvs umax umin (storedAfter umax none pre) post) :
    ∃ t, latestTable pre.reverse = some t ∧
      ∀ e, t.reverse.find? (fun e => e.key == r.key) = some e → (0 ≤ e.max → v ≤ e.max) ∧ (0 ≤ e.min → e.min ≤ v) := by
  rw [request_uses_latest_table umax umin hiss] at h
  have h := (List.cons.inj (List.append_cancel_left h)).1
  cases hl : latestTable pre.reverse with
  | none => rw [hl] at h; cases h
  | some t =>
    rw [hl] at h
    simp only [EvOut.clamped.injEq] at h
    refine ⟨t, rfl, fun e he => ?_⟩
    have hn := clamp_never_outside (r.toIn (load t) umax umin) v (wf _) h
    have hf : (r.toIn (load t) umax umin).bv.find (r.toIn (load t) umax umin).key = some e := by
      simp only [Req.toIn, find_load]; exact he
    exact ⟨hn.2.2.2.2.1 e hf, hn.2.2.2.2.2.1 e hf⟩

/-- **A key absent from the most recent advertisement fails and nothing is written** (given that table has a
usable Produce entry — the code's test for "a table was loaded"): `errBrokerTooOld`, or `errUnknownRequestKey`
when the user's MaxVersions lacks the key too. -/
theorem absent_key_fails_on_latest (umax umin : Option Versions) (hiss : issuesApiVersions umax = true)
    (pre : List Ev) (r : Req) (t : List ApiKey) (hl : latestTable pre.reverse = some t)
    (habs : t.reverse.find? (fun e => e.key == r.key) = none)
    (hprod : 0 ≤ (load t).maxVersion 0) :
    stepOut umax umin (storedAfter umax none pre) (.request r) = .clamped .errBrokerTooOld ∨
    stepOut umax umin (storedAfter umax none pre) (.request r) = .clamped .errUnknownRequestKey := by
  rw [storedAfter_latest umax hiss none pre, hl]
  have hf : (load t).maxVersion r.key = -1 := by
    simp [BrokerVersions.maxVersion, find_load, habs]
  simp only [stepOut, clamp, clampCore, Req.toIn, hf]
  split
  · right; rfl
  · left
    have : (0 : Int) ≤ (load t).maxVersion 0 ∧ (-1 : Int) < 0 := ⟨hprod, by decide⟩
    simp [this]

/-- **The clamp never dereferences a nil table**: once some connection's `init` succeeded — which
`loadConnection` guarantees before `handleReq` reaches `b.loadVersions()` — no later request meets an
empty cell, whatever happens in between. -/
theorem never_nil_versions (umax umin : Option Versions) (pre1 pre2 : List Ev) (resp : List ApiKey) (r : Req)
    (hok : (initCxn umax (storedAfter umax none pre1) resp).2 = true) :
    stepOut umax umin (storedAfter umax none (pre1 ++ .connect resp :: pre2)) (.request r) ≠ .nilVersions := by
  have hs : (storedAfter umax none (pre1 ++ .connect resp :: pre2)).isSome = true := by
    rw [storedAfter_append, storedAfter]
    exact storedAfter_isSome umax _ pre2 (initCxn_ok_isSome umax _ resp hok)
  cases hst : storedAfter umax none (pre1 ++ .connect resp :: pre2) with
  | none => rw [hst] at hs; cases hs
  | some bv => simp [stepOut]

/-- The invariant that ties the stored cell to what the broker side has seen (newest first). -/
def CellInv (umax : Option Versions) (s : StoredV) (seenRev : List Obs) : Prop :=
  if issuesApiVersions umax then
    (s = none ∧ latestAdv seenRev = none) ∨
      ∃ t, latestAdv seenRev = some t ∧ s = some (load t) ∧ 0 ≤ (load t).maxVersion 0
  else latestAdv seenRev = none ∧ (s = none ∨ s = some BrokerVersions.empty)

theorem trace_spec_from (umax umin : Option Versions) (evs : List Ev) (s : StoredV) (seenRev : List Obs)
    (hinv : CellInv umax s seenRev)
    (wf : ∀ r, Ev.request r ∈ evs → ∀ bv, WF (r.toIn bv umax umin))
    (hp : ∀ resp, Ev.connect resp ∈ evs → resp.isEmpty = false → 0 ≤ (load resp).maxVersion 0) :
    Spec.traceOkFrom seenRev (obsRun umax umin s evs) = true := by
  induction evs generalizing s seenRev with
  | nil => rfl
  | cons e es ih =>
    have wf' : ∀ r, Ev.request r ∈ es → ∀ bv, WF (r.toIn bv umax umin) := fun r hr => wf r (List.mem_cons_of_mem _ hr)
    have hp' : ∀ resp, Ev.connect resp ∈ es → resp.isEmpty = false → 0 ≤ (load resp).maxVersion 0 :=
      fun resp hr => hp resp (List.mem_cons_of_mem _ hr)
    rw [obsRun, traceOkFrom_append, Bool.and_eq_true]
    cases e with
    | connect resp =>
      by_cases hiss : issuesApiVersions umax = true
      · cases hre : resp.isEmpty with
        | true =>
          have : obsOf umax umin (.connect resp) (stepOut umax umin s (.connect resp)) = [] := by
            simp [obsOf, stepOut, initCxn, hiss, hre]
          rw [this]
          refine ⟨rfl, ih _ _ ?_ wf' hp'⟩
          simpa [stepStored, initCxn, hiss, hre] using hinv
        | false =>
          have : obsOf umax umin (.connect resp) (stepOut umax umin s (.connect resp)) = [.adv resp] := by
            simp [obsOf, stepOut, initCxn, hiss, hre]
          rw [this]
          refine ⟨by simp [traceOkFrom, obsOk], ih _ _ ?_ wf' hp'⟩
          simp only [CellInv, hiss, if_true, stepStored, initCxn, hre, storeVersions, List.reverse_cons, List.reverse_nil,
            List.nil_append, List.cons_append, latestAdv]
          right
          exact ⟨resp, rfl, rfl, hp resp (List.mem_cons_self) hre⟩
      · have hiss' : issuesApiVersions umax = false := by simpa using hiss
        have : obsOf umax umin (.connect resp) (stepOut umax umin s (.connect resp)) = [] := by
          simp [obsOf, stepOut, initCxn, hiss']
        rw [this]
        refine ⟨rfl, ih _ _ ?_ wf' hp'⟩
        simp only [CellInv, hiss', Bool.false_eq_true, if_false, stepStored, initCxn, List.reverse_nil, List.nil_append] at hinv ⊢
        refine ⟨hinv.1, ?_⟩
        rcases hinv.2 with h | h <;> simp [h, storeVersions]
    | request r =>
      cases s with
      | none =>
        have : obsOf umax umin (.request r) (stepOut umax umin none (.request r)) = [] := by simp [obsOf, stepOut]
        rw [this]
        exact ⟨rfl, ih _ _ (by simpa [stepStored] using hinv) wf' hp'⟩
      | some bv =>
        -- the table the Spec is told of, and the single-table theorem on it
        have hkey : ∃ table : Option BrokerVersions, Stored (r.toIn bv umax umin) table ∧ ProduceKnown (r.toIn bv umax umin) table ∧
            specBroker table r.key = Spec.brokerAt seenRev r.key := by
          unfold CellInv at hinv
          split at hinv
          · rcases hinv with ⟨h, _⟩ | ⟨t, hl, hs, hp0⟩
            · cases h
            · cases hs
              refine ⟨some (load t), rfl, Or.inr (Or.inl hp0), ?_⟩
              rw [specBroker_load, Spec.brokerAt, hl]
          · rcases hinv with ⟨hl, h | h⟩
            · cases h
            · cases h
              exact ⟨none, rfl, Or.inl rfl, by simp [specBroker, Spec.brokerAt, hl]⟩
        obtain ⟨table, hst, hpk, hbr⟩ := hkey
        have hspec := clamp_spec_partial (r.toIn bv umax umin) table (wf r (List.mem_cons_self) bv) hst hpk
        have hb : boundsOf (r.toIn bv umax umin) table =
            { cmax := r.cmax, pinMax := pinMaxO r.pin, pinMin := pinMinO r.pin, broker := Spec.brokerAt seenRev r.key,
              umax := specUser umax r.key, umin := specUser umin r.key } := by
          simp only [boundsOf, coreBounds, Req.toIn, specUser, hbr]
        rw [hb] at hspec
        cases hcl : clamp (r.toIn bv umax umin) with
        | ok v =>
          rw [hcl] at hspec
          have : obsOf umax umin (.request r) (stepOut umax umin (some bv) (.request r)) =
              [.wrote r.key r.cmax (pinMaxO r.pin) (pinMinO r.pin) (specUser umax r.key) (specUser umin r.key) v] := by
            simp [obsOf, stepOut, hcl]
          rw [this]
          refine ⟨by simpa [traceOkFrom, obsOk, Out.written] using hspec, ih _ _ ?_ wf' hp'⟩
          simpa [stepStored, CellInv, latestAdv] using hinv
        | errUnknownRequestKey =>
          rw [hcl] at hspec
          have : obsOf umax umin (.request r) (stepOut umax umin (some bv) (.request r)) =
              [.failed r.key r.cmax (pinMaxO r.pin) (pinMinO r.pin) (specUser umax r.key) (specUser umin r.key)] := by
            simp [obsOf, stepOut, hcl]
          rw [this]
          refine ⟨by simpa [traceOkFrom, obsOk, Out.written] using hspec, ih _ _ ?_ wf' hp'⟩
          simpa [stepStored, CellInv, latestAdv] using hinv
        | errBrokerTooOld =>
          rw [hcl] at hspec
          have : obsOf umax umin (.request r) (stepOut umax umin (some bv) (.request r)) =
              [.failed r.key r.cmax (pinMaxO r.pin) (pinMinO r.pin) (specUser umax r.key) (specUser umin r.key)] := by
            simp [obsOf, stepOut, hcl]
          rw [this]
          refine ⟨by simpa [traceOkFrom, obsOk, Out.written] using hspec, ih _ _ ?_ wf' hp'⟩
          simpa [stepStored, CellInv, latestAdv] using hinv
        | userMinError a b =>
          rw [hcl] at hspec
          have : obsOf umax umin (.request r) (stepOut umax umin (some bv) (.request r)) =
              [.failed r.key r.cmax (pinMaxO r.pin) (pinMinO r.pin) (specUser umax r.key) (specUser umin r.key)] := by
            simp [obsOf, stepOut, hcl]
          rw [this]
          refine ⟨by simpa [traceOkFrom, obsOk, Out.written] using hspec, ih _ _ ?_ wf' hp'⟩
          simpa [stepStored, CellInv, latestAdv] using hinv

/-- **The executable Spec holds on the whole history of a broker object** — every written request carries the
highest version within all bounds with the broker's range read from the MOST RECENT ApiVersions response of
the object, every failed request had no such version — for every configuration and every sequence of
connects (arbitrary tables) and requests (partial: every received table has a usable Produce entry, as in
`clamp_spec_partial`). -/
theorem trace_spec_partial (umax umin : Option Versions) (evs : List Ev)
    (wf : ∀ r, Ev.request r ∈ evs → ∀ bv, WF (r.toIn bv umax umin))
    (hp : ∀ resp, Ev.connect resp ∈ evs → resp.isEmpty = false → 0 ≤ (load resp).maxVersion 0) :
    Spec.traceOk (obsRun umax umin none evs) = true := by
  apply trace_spec_from umax umin evs none [] ?_ wf hp
  unfold CellInv
  split
  · exact Or.inl ⟨rfl, rfl⟩
  · exact ⟨rfl, Or.inl rfl⟩

/-- Non-vacuity: a rolling downgrade between two connections of one broker object. Metadata (client max 13):
the first connection advertises 0..9, the request goes out at v9; the broker comes back older, a second
connection (any class) advertises 0..5 and no DescribeCluster; Metadata now goes out at v5 — also on the
old connection — and DescribeCluster fails. The hypotheses of `trace_spec_partial` hold, the Spec accepts
this history and rejects the one in which the first table keeps being used (v9 after the downgrade, or
DescribeCluster still written). -/
def downgradeEvs : List Ev :=
  [.connect [⟨0, 0, 12⟩, ⟨3, 0, 9⟩, ⟨60, 0, 1⟩], .request { key := 3, cmax := 13 }, .request { key := 60, cmax := 2 },
   .connect [⟨0, 0, 7⟩, ⟨3, 0, 5⟩], .request { key := 3, cmax := 13 }, .request { key := 60, cmax := 2 }]
example :
    runEvs none none none downgradeEvs =
      [.connected, .clamped (.ok 9), .clamped (.ok 1), .connected, .clamped (.ok 5), .clamped .errBrokerTooOld]
    ∧ Spec.traceOk (obsRun none none none downgradeEvs) = true
    ∧ Spec.traceOk [.adv [⟨0, 0, 12⟩, ⟨3, 0, 9⟩, ⟨60, 0, 1⟩], .wrote 3 13 none none .unset .unset 9,
        .adv [⟨0, 0, 7⟩, ⟨3, 0, 5⟩], .wrote 3 13 none none .unset .unset 9] = false
    ∧ Spec.traceOk [.adv [⟨0, 0, 12⟩, ⟨3, 0, 9⟩, ⟨60, 0, 1⟩], .adv [⟨0, 0, 7⟩, ⟨3, 0, 5⟩],
        .wrote 60 2 none none .unset .unset 1] = false
    ∧ Spec.traceOk [.adv [⟨0, 0, 7⟩, ⟨3, 0, 5⟩], .failed 3 13 none none .unset .unset,
        .adv [⟨0, 0, 12⟩, ⟨3, 0, 9⟩], .failed 3 13 none none .unset .unset] = false := by
  decide

end Props.C21
