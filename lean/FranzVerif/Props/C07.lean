import FranzVerif.Model.Group
import FranzVerif.Proof.Group
import FranzVerif.Proof.GroupOwn
/-! C07 — group members never own the same partition at once. Theorems over ALL accepted histories of
`Model.Group`; the tie is the history correspondence of the `grp` scenarios (eager, cooperative, KIP-848).

Observables (`Proof/Group.lean`): `released m p h` — a revoked or lost callback of `m` that listed `p` was
entered in `h` and returned in `h` before `m` entered another such callback (the monitor releases what the
*most recent* callback in progress listed, and does not tell a revoked from a lost callback);
`inProgress m h` — the partitions listed by `m`'s callback still in progress at the end of `h`;
`completes m h` — the callback of `m` in progress where `h` begins returns in `h`.

Changes against the first draft of the statements (each with the accepted history that refutes the draft):
* `released` matched `revokeStart m ps` with *any* later `revokeEnd m` (and `lostStart` only with `lostEnd`).
  - `[assignStart 1 [0], lostStart 1 [0], revokeEnd 1, assignStart 2 [0]]` is accepted, the draft `released 1 0`
    of the middle part is `false`: refutes `previous_owner_released_first`;
  - `[assignStart 1 [0,1], revokeStart 1 [0], revokeStart 1 [1], revokeEnd 1, assignStart 2 [1], stable [1,2]]`
    (2 partitions) is accepted — the monitor releases only partition 1 — and the draft `released 1 0` of the part
    after the first event is `true`: refutes `every_partition_owned_at_stability`.
  Repair: the end event is the next callback event of `m` (`completes`), of either kind.
* `previous_owner_released_first`, `left_member_owns_nothing`: the monitor lets a member be handed a partition
  while a revoked/lost callback of that same member listing the partition is still in progress;
  `[assignStart 1 [0], revokeStart 1 [0], assignStart 1 [0], revokeEnd 1, assignStart 2 [0]]` and
  `[assignStart 1 [0], revokeStart 1 [0], assignStart 1 [0], revokeEnd 1, leaveDone 1]` are accepted and, with
  `h₁` the first two events, nothing is released *within* `h₂ = [revokeEnd 1]`. The conclusion gets the second
  disjunct "the callback of the previous owner in progress at the end of `h₁` listed `p` and returns in `h₂`"
  (still: a revoked or lost callback of the previous owner that listed `p` completed in between); the
  `…_serial` corollaries give the draft conclusion for a member whose callbacks do not overlap that way
  (franz-go runs a client's callbacks one at a time).
* `left_member_owns_nothing`: the draft's second disjunct (another member handed `p` in between) never
  happens without a release first (`previous_owner_released_first`); dropped. -/
namespace Props.C07
open Model.Group Proof.Group

/-- If `m'` was handed partition `p` (OnPartitionsAssigned entered) and later another member `m` is handed
`p`, then in between a revoked or lost callback of `m'` that listed `p` completed. -/
theorem previous_owner_released_first (c : Cfg) (h₁ h₂ h₃ : List Ev) (m m' : Mem) (ps ps' : List Nat) (p : Nat)
    (hacc : (run c {} (h₁ ++ Ev.assignStart m' ps' :: h₂ ++ Ev.assignStart m ps :: h₃)).isSome)
    (hne : m ≠ m') (hp' : p ∈ ps') (hp : p ∈ ps) :
    released m' p h₂ = true ∨ ∃ ps₀, inProgress m' h₁ = some ps₀ ∧ p ∈ ps₀ ∧ completes m' h₂ = true := by
  obtain ⟨s, hs⟩ := isSome_run hacc
  obtain ⟨s₂, hr₂, hchk₂, _⟩ := run_split hs
  obtain ⟨s₁, hr₁, _, hr₁₂⟩ := run_split hr₂
  have hf₁ : OwnerFn (apply c s₁ (.assignStart m' ps')) := (OwnerFn.init.run hr₁).apply _
  have ho : (p, m') ∈ (apply c s₁ (.assignStart m' ps')).owner := by
    rw [mem_owner_apply]; exact Or.inl ⟨hp', rfl⟩
  have hno : (p, m') ∉ s₂.owner := fun hin =>
    hne (assign_check (hf₁.run hr₁₂) hchk₂ p hp m' hin).symm
  have := lost_ownership hf₁ hr₁₂ ho hno
  rwa [cur_apply, show cb (.assignStart m' ps') = .assign m' ps' from rfl, cur_of_run hr₁] at this

/-- The draft statement, for a previous owner that is not inside a revoked/lost callback when it is handed `p`. -/
theorem previous_owner_released_first_serial (c : Cfg) (h₁ h₂ h₃ : List Ev) (m m' : Mem) (ps ps' : List Nat) (p : Nat)
    (hacc : (run c {} (h₁ ++ Ev.assignStart m' ps' :: h₂ ++ Ev.assignStart m ps :: h₃)).isSome)
    (hne : m ≠ m') (hp' : p ∈ ps') (hp : p ∈ ps) (hidle : inProgress m' h₁ = none) :
    released m' p h₂ = true := by
  rcases previous_owner_released_first c h₁ h₂ h₃ m m' ps ps' p hacc hne hp' hp with h | ⟨ps₀, h, _⟩
  · exact h
  · rw [hidle] at h; cases h

/-- Once membership and subscriptions have stopped changing, every partition of the subscribed topic is
owned by exactly one live member (the monitor's owner map is a function, so "at most one" is by construction;
this is "at least one, and live"). -/
theorem every_partition_owned_at_stability (c : Cfg) (h₁ h₂ : List Ev) (live : List Mem)
    (hacc : (run c {} (h₁ ++ Ev.stable live :: h₂)).isSome) (p : Nat) (hp : p < c.parts) :
    ∃ m ∈ live, ∃ h₁a h₁b ps, h₁ = h₁a ++ Ev.assignStart m ps :: h₁b ∧ p ∈ ps ∧ released m p h₁b = false ∧
      ∀ m'' ps'', Ev.assignStart m'' ps'' ∈ h₁b → p ∈ ps'' → m'' = m := by
  obtain ⟨s, hs⟩ := isSome_run hacc
  obtain ⟨s₁, hr₁, hchk, _⟩ := run_split hs
  obtain ⟨o, hlive, ho⟩ := stable_check hchk p hp
  -- the last assigned callback that listed `p`
  have hex : ∃ e ∈ h₁, ∃ m ps, cb e = .assign m ps ∧ p ∈ ps := by
    false_or_by_contra
    rename_i hcon
    have hn : NoAssign p h₁ := fun e he m ps hcb hpp => hcon ⟨e, he, m, ps, hcb, hpp⟩
    have := owner_of_no_assign hr₁ hn ho
    simp at this
  obtain ⟨h₁a, e, h₁b, rfl, ⟨m, ps, hcb, hpp⟩, hlast⟩ := exists_last _ h₁ hex
  have he := cb_assign hcb
  subst he
  have hn : NoAssign p h₁b := fun e he m ps hcb hpp => hlast e he ⟨m, ps, hcb, hpp⟩
  obtain ⟨sa, _, _, hrb⟩ := run_split hr₁
  have ho' := owner_of_no_assign hrb hn ho
  rw [mem_owner_apply] at ho'
  have hom : o = m := by
    rcases ho' with ⟨_, h⟩ | ⟨h, _⟩
    · exact h
    · exact absurd hpp h
  subst hom
  refine ⟨o, hlive, h₁a, h₁b, ps, rfl, hpp, ?_, ?_⟩
  · cases hrel : released o p h₁b with
    | false => rfl
    | true => exact absurd ho (released_not_owner hrb hn hrel)
  · intro m'' ps'' hmem hpp''
    exact absurd hpp'' (hn _ hmem m'' ps'' rfl)

/-- A member that left gracefully owns nothing when its Close returns: every partition it was handed it
released, through a revoked or lost callback that listed the partition and completed, before. -/
theorem left_member_owns_nothing (c : Cfg) (h₁ h₂ h₃ : List Ev) (m : Mem) (ps : List Nat) (p : Nat)
    (hacc : (run c {} (h₁ ++ Ev.assignStart m ps :: h₂ ++ Ev.leaveDone m :: h₃)).isSome) (hp : p ∈ ps) :
    released m p h₂ = true ∨ ∃ ps₀, inProgress m h₁ = some ps₀ ∧ p ∈ ps₀ ∧ completes m h₂ = true := by
  obtain ⟨s, hs⟩ := isSome_run hacc
  obtain ⟨s₂, hr₂, hchk₂, _⟩ := run_split hs
  obtain ⟨s₁, hr₁, _, hr₁₂⟩ := run_split hr₂
  have hf₁ : OwnerFn (apply c s₁ (.assignStart m ps)) := (OwnerFn.init.run hr₁).apply _
  have ho : (p, m) ∈ (apply c s₁ (.assignStart m ps)).owner := by
    rw [mem_owner_apply]; exact Or.inl ⟨hp, rfl⟩
  have := lost_ownership hf₁ hr₁₂ ho (leaveDone_check hchk₂ p)
  rwa [cur_apply, show cb (.assignStart m ps) = .assign m ps from rfl, cur_of_run hr₁] at this

/-- The draft statement (without its vacuous second disjunct), for a member that is not inside a revoked/lost
callback when it is handed `p`. -/
theorem left_member_owns_nothing_serial (c : Cfg) (h₁ h₂ h₃ : List Ev) (m : Mem) (ps : List Nat) (p : Nat)
    (hacc : (run c {} (h₁ ++ Ev.assignStart m ps :: h₂ ++ Ev.leaveDone m :: h₃)).isSome) (hp : p ∈ ps)
    (hidle : inProgress m h₁ = none) : released m p h₂ = true := by
  rcases left_member_owns_nothing c h₁ h₂ h₃ m ps p hacc hp with h | ⟨ps₀, h, _⟩
  · exact h
  · rw [hidle] at h; cases h

/-- Non-vacuity: three members, three partitions. Member 1 is handed everything; in a cooperative rebalance
it revokes partition 1 (callback completes), then partition 1 is handed to member 2 (the shape of
`previous_owner_released_first` with `h₁ = [join…]`, `m' = 1`, `m = 2`, `p = 1`); member 3 joins, member 1
loses partition 2 (lost callback), member 3 is handed it; `stable` with every partition owned by a live
member; then member 3 revokes everything and leaves (`left_member_owns_nothing`). -/
example : accepts { parts := 3 }
    [.join 1, .join 2, .assignStart 1 [0, 1, 2], .assignEnd 1,
     .revokeStart 1 [1], .revokeEnd 1, .assignStart 2 [1], .assignEnd 2,
     .join 3, .lostStart 1 [2], .lostEnd 1, .assignStart 3 [2], .assignEnd 3,
     .stable [1, 2, 3],
     .leaveStart 3, .revokeStart 3 [2], .revokeEnd 3, .leaveDone 3] = true := by decide

/-- The instances the theorems speak about in that history. -/
example : released 1 1 [.assignEnd 1, .revokeStart 1 [1], .revokeEnd 1] = true := by decide
example : released 3 2 [.assignEnd 3, .stable [1, 2, 3], .leaveStart 3, .revokeStart 3 [2], .revokeEnd 3] = true := by decide

/-- Partition 1 handed to member 2 while member 1's revoke callback has not completed: refused. -/
example : accepts { parts := 3 }
    [.join 1, .join 2, .assignStart 1 [0, 1, 2], .assignEnd 1,
     .revokeStart 1 [1], .assignStart 2 [1], .revokeEnd 1, .assignEnd 2] = false := by decide

/-- A `stable` mark while partition 2 is unowned (lost by member 1, not yet handed on): refused. -/
example : accepts { parts := 3 }
    [.join 1, .join 2, .assignStart 1 [0, 1, 2], .assignEnd 1,
     .lostStart 1 [2], .lostEnd 1, .stable [1, 2]] = false := by decide

/-- A `stable` mark with a partition owned by a member that is not live: refused. -/
example : accepts { parts := 2 }
    [.join 1, .join 2, .assignStart 1 [0], .assignStart 2 [1], .stable [1]] = false := by decide

/-- Member 2's Close returns while it still owns partition 1: refused. -/
example : accepts { parts := 3 }
    [.join 1, .join 2, .assignStart 1 [0, 2], .assignStart 2 [1],
     .leaveStart 2, .leaveDone 2] = false := by decide

/-- The accepted histories quoted in the header (why the draft statements had to change). -/
example : accepts { parts := 1 } [.assignStart 1 [0], .lostStart 1 [0], .revokeEnd 1, .assignStart 2 [0]] = true := by decide
example : accepts { parts := 2 }
    [.assignStart 1 [0, 1], .revokeStart 1 [0], .revokeStart 1 [1], .revokeEnd 1, .assignStart 2 [1], .stable [1, 2]] = true := by
  decide
example : accepts { parts := 1 }
    [.assignStart 1 [0], .revokeStart 1 [0], .assignStart 1 [0], .revokeEnd 1, .assignStart 2 [0]] = true := by decide
example : accepts { parts := 1 }
    [.assignStart 1 [0], .revokeStart 1 [0], .assignStart 1 [0], .revokeEnd 1, .leaveDone 1] = true := by decide

end Props.C07
