import FranzVerif.Model.Group
import FranzVerif.Proof.Group
/-! C07 — group members never own the same partition at once. Theorems over ALL accepted histories of
`Model.Group`; the tie is the history correspondence of the `grp` scenarios (eager, cooperative, KIP-848). -/
namespace Props.C07
open Model.Group Proof.Group

/-- If `m'` was handed partition `p` (OnPartitionsAssigned entered) and later another member `m` is handed
`p`, then in between a revoked or lost callback of `m'` that listed `p` completed. -/
theorem previous_owner_released_first (c : Cfg) (h₁ h₂ h₃ : List Ev) (m m' : Mem) (ps ps' : List Nat) (p : Nat)
    (hacc : (run c {} (h₁ ++ Ev.assignStart m' ps' :: h₂ ++ Ev.assignStart m ps :: h₃)).isSome)
    (hne : m ≠ m') (hp' : p ∈ ps') (hp : p ∈ ps) :
    released m' p h₂ = true := by
  sorry

/-- Once membership and subscriptions have stopped changing, every partition of the subscribed topic is
owned by exactly one live member (the monitor's owner map is a function, so "at most one" is by construction;
this is "at least one, and live"). -/
theorem every_partition_owned_at_stability (c : Cfg) (h₁ h₂ : List Ev) (live : List Mem)
    (hacc : (run c {} (h₁ ++ Ev.stable live :: h₂)).isSome) (p : Nat) (hp : p < c.parts) :
    ∃ m ∈ live, ∃ h₁a h₁b ps, h₁ = h₁a ++ Ev.assignStart m ps :: h₁b ∧ p ∈ ps ∧ released m p h₁b = false ∧
      ∀ m'' ps'', Ev.assignStart m'' ps'' ∈ h₁b → p ∈ ps'' → m'' = m := by
  sorry

/-- A member that left gracefully owns nothing when its Close returns. -/
theorem left_member_owns_nothing (c : Cfg) (h₁ h₂ h₃ : List Ev) (m : Mem) (ps : List Nat) (p : Nat)
    (hacc : (run c {} (h₁ ++ Ev.assignStart m ps :: h₂ ++ Ev.leaveDone m :: h₃)).isSome) (hp : p ∈ ps) :
    released m p h₂ = true ∨ ∃ m' ps', m' ≠ m ∧ Ev.assignStart m' ps' ∈ h₂ ∧ p ∈ ps' := by
  sorry

end Props.C07
