import FranzVerif.Model.Consumer
import FranzVerif.Proof.Consumer
import FranzVerif.Proof.ConsumerInv
import FranzVerif.Proof.ConsumerFacts
/-! C05 — read_committed never exposes aborted or open transactions. Theorems over ALL accepted
histories of `Model.Consumer` with `c.committed = true`. -/
namespace Props.C05
open Model.Consumer Proof.Consumer

/-- No returned record belongs to an aborted transaction. -/
theorem no_aborted_record_returned (c : Cfg) (h : List Ev) (s : St) (hacc : run c {} (h ++ [Ev.quiesce]) = some s)
    (hc : c.committed = true) (part off : Nat) (id : Id) (txn : Nat)
    (hr : (part, off, id, false) ∈ returnedOf h) (hp : (id, part, off, txn) ∈ producedOf h) (hx : txn ≠ 0) :
    (txn, false) ∉ decisionsOf h := by
  obtain ⟨s₁, h1, hchk⟩ := run_snoc hacc
  have hi := inv_of_run h1
  have hq := quiesce_check hchk
  intro hd
  obtain ⟨n, hn⟩ := hi.mem_ret hr
  obtain ⟨m, hm⟩ := hi.mem_decided hd
  have := hq.noAbort hc _ hn rfl txn (hi.txnOf hp) hx _ hm rfl
  simp at this

/-- No record of a still-open transaction is returned: a returned transactional record was returned
only after its transaction's commit had been decided. -/
theorem no_open_transaction_record_returned (c : Cfg) (h₁ h₂ : List Ev) (s : St) (part off : Nat) (id : Id) (txn : Nat)
    (hacc : run c {} (h₁ ++ Ev.returned part off id false :: h₂ ++ [Ev.quiesce]) = some s)
    (hc : c.committed = true)
    (hp : (id, part, off, txn) ∈ producedOf (h₁ ++ Ev.returned part off id false :: h₂)) (hx : txn ≠ 0) :
    (txn, true) ∈ decisionsOf h₁ := by
  obtain ⟨sq, hrun, hchk⟩ := run_snoc hacc
  have hiq := inv_of_run hrun
  have hq := quiesce_check hchk
  obtain ⟨s₁, h1, _, h2⟩ := run_split hrun
  have hi := inv_of_run h1
  have hmono := Mono.run h2
  -- the monitor's entry for this returned record carries the number of records returned before it
  have hmem : (part, off, id, false, s₁.nret) ∈ sq.ret := hmono.ret _ (by simp [Model.Consumer.apply])
  obtain ⟨d, hd, d1, d2, d3⟩ := hq.noOpen hc _ hmem rfl txn (hiq.txnOf hp) hx
  -- a decision logged after the record was returned has a larger index
  rcases hmono.decided d hd with hd' | hlt
  · have := hi.decided_mem (show d ∈ s₁.decided from hd')
    rwa [d1, d2] at this
  · simp only [Model.Consumer.apply] at hlt d3
    omega

/-- A control record is never returned unless KeepControlRecords is set. -/
theorem no_control_record_unless_kept (c : Cfg) (h : List Ev) (s : St) (hacc : run c {} h = some s) (hk : c.keepCtl = false) :
    ∀ r ∈ returnedOf h, r.2.2.2 = false := by
  exact (inv_of_run hacc).ctl hk

/-- Completeness: at a quiescent point of a complete scenario every record of every committed
transaction and every non-transactional record (at or after the start position) has been returned. -/
theorem every_committed_record_returned (c : Cfg) (h : List Ev) (s : St) (hacc : run c {} (h ++ [Ev.quiesce]) = some s)
    (hc : c.committed = true) (hcomplete : isIncomplete h = false)
    (id : Id) (part off txn : Nat) (hp : (id, part, off, txn) ∈ producedOf h) (hoff : c.start ≤ off)
    (hcommitted : txn = 0 ∨ (txn, true) ∈ decisionsOf h) :
    ∃ ctl, (part, off, id, ctl) ∈ returnedOf h := by
  have _ := hc
  obtain ⟨s₁, h1, hchk⟩ := run_snoc hacc
  have hi := inv_of_run h1
  have hq := quiesce_check hchk
  have hm : (id, part, off, txn) ∈ s₁.prod := by rw [hi.prod]; exact List.mem_reverse.2 hp
  have hel : c.committed = false ∨ txn = 0 ∨ ∃ d ∈ s₁.decided, d.1 = txn ∧ d.2.1 = true := by
    rcases hcommitted with h0 | hd
    · exact Or.inr (Or.inl h0)
    · obtain ⟨n, hn⟩ := hi.mem_decided hd
      exact Or.inr (Or.inr ⟨_, hn, rfl, rfl⟩)
  obtain ⟨r, hr, r1, r2, r3⟩ := hq.complete (by rw [hi.incomplete]; exact hcomplete) _ hm hoff hel
  refine ⟨r.2.2.2.1, ?_⟩
  have := hi.ret_mem hr
  simpa only [retKey, r1, r2, r3] using this

/-- Non-vacuity: an accepted read_committed history ending at a quiescent point. Partition 0 holds a
non-transactional record (id 1, offset 0), a record of transaction 7 (id 2, offset 1; commit marker at
offset 2), a record of transaction 8 (id 3, offset 3; abort marker at offset 4) and another
non-transactional record (id 4, offset 5). The first poll runs while transaction 7 is still open and
returns only record 1; record 2 is returned only after `endDecided 7 true`; record 3 of the aborted
transaction is never returned; hooks pair up, the gauge is 0. -/
example : accepts { committed := true, keepCtl := false, start := 0 }
    [.produced 1 0 0 0, .produced 2 0 1 7,
     .pollStart, .hookBuf 0 0, .returned 0 0 1 false, .hookUnbuf 0 0 true, .pollEnd,
     .endDecided 7 true, .endDone 7 true true,
     .produced 3 0 3 8, .endDecided 8 false, .endDone 8 false true,
     .produced 4 0 5 0,
     .pollStart, .hookBuf 0 1, .hookBuf 0 5, .returned 0 1 2 false, .hookUnbuf 0 1 true,
     .returned 0 5 4 false, .hookUnbuf 0 5 true, .pollEnd,
     .gauge 0, .quiesce] = true := by decide

/-- The same scenario, but the record of the aborted transaction 8 is returned: refused. -/
example : accepts { committed := true, keepCtl := false, start := 0 }
    [.produced 1 0 0 0, .produced 2 0 1 7,
     .pollStart, .hookBuf 0 0, .returned 0 0 1 false, .hookUnbuf 0 0 true, .pollEnd,
     .endDecided 7 true, .endDone 7 true true,
     .produced 3 0 3 8, .endDecided 8 false, .endDone 8 false true,
     .produced 4 0 5 0,
     .pollStart, .hookBuf 0 1, .hookBuf 0 3, .hookBuf 0 5, .returned 0 1 2 false, .hookUnbuf 0 1 true,
     .returned 0 3 3 false, .hookUnbuf 0 3 true,
     .returned 0 5 4 false, .hookUnbuf 0 5 true, .pollEnd,
     .gauge 0, .quiesce] = false := by decide

/-- A record of transaction 7 returned while the transaction is still open (its commit is decided only
afterwards): refused. -/
example : accepts { committed := true, keepCtl := false, start := 0 }
    [.produced 2 0 1 7,
     .pollStart, .returned 0 1 2 false, .pollEnd,
     .endDecided 7 true, .endDone 7 true true,
     .gauge 0, .quiesce] = false := by decide

/-- A committed record never returned: refused; a control record returned without KeepControlRecords: refused. -/
example : accepts { committed := true, keepCtl := false, start := 0 }
    [.produced 2 0 1 7, .endDecided 7 true, .endDone 7 true true,
     .pollStart, .pollEnd, .gauge 0, .quiesce] = false := by decide
example : accepts { committed := true, keepCtl := false, start := 0 }
    [.produced 2 0 1 7, .endDecided 7 true, .endDone 7 true true,
     .pollStart, .returned 0 1 2 false, .returned 0 2 0 true, .pollEnd, .gauge 0, .quiesce] = false := by decide

end Props.C05
