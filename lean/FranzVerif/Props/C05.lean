import FranzVerif.Model.Consumer
/-! C05 — theorems being written (branch prop/CONS). -/
namespace Props.C05
end Props.C05
