import FranzVerif.Model.Consumer
import FranzVerif.Proof.Consumer
/-! C05 — read_committed never exposes aborted or open transactions. Theorems over ALL accepted
histories of `Model.Consumer` with `c.committed = true`. -/
namespace Props.C05
open Model.Consumer Proof.Consumer

/-- No returned record belongs to an aborted transaction. -/
theorem no_aborted_record_returned (c : Cfg) (h : List Ev) (s : St) (hacc : run c {} (h ++ [Ev.quiesce]) = some s)
    (hc : c.committed = true) (part off : Nat) (id : Id) (txn : Nat)
    (hr : (part, off, id, false) ∈ returnedOf h) (hp : (id, part, off, txn) ∈ producedOf h) (hx : txn ≠ 0) :
    (txn, false) ∉ decisionsOf h := by
  sorry

/-- No record of a still-open transaction is returned: a returned transactional record was returned
only after its transaction's commit had been decided. -/
theorem no_open_transaction_record_returned (c : Cfg) (h₁ h₂ : List Ev) (s : St) (part off : Nat) (id : Id) (txn : Nat)
    (hacc : run c {} (h₁ ++ Ev.returned part off id false :: h₂ ++ [Ev.quiesce]) = some s)
    (hc : c.committed = true)
    (hp : (id, part, off, txn) ∈ producedOf (h₁ ++ Ev.returned part off id false :: h₂)) (hx : txn ≠ 0) :
    (txn, true) ∈ decisionsOf h₁ := by
  sorry

/-- A control record is never returned unless KeepControlRecords is set. -/
theorem no_control_record_unless_kept (c : Cfg) (h : List Ev) (s : St) (hacc : run c {} h = some s) (hk : c.keepCtl = false) :
    ∀ r ∈ returnedOf h, r.2.2.2 = false := by
  sorry

/-- Completeness: at a quiescent point of a complete scenario every record of every committed
transaction and every non-transactional record (at or after the start position) has been returned. -/
theorem every_committed_record_returned (c : Cfg) (h : List Ev) (s : St) (hacc : run c {} (h ++ [Ev.quiesce]) = some s)
    (hc : c.committed = true) (hcomplete : isIncomplete h = false)
    (id : Id) (part off txn : Nat) (hp : (id, part, off, txn) ∈ producedOf h) (hoff : c.start ≤ off)
    (hcommitted : txn = 0 ∨ (txn, true) ∈ decisionsOf h) :
    ∃ ctl, (part, off, id, ctl) ∈ returnedOf h := by
  sorry

end Props.C05
