import FranzVerif.Model.C32
namespace Props.C32
open Model.C32

theorem placeholder_partial : (init 1).parts.length = 1 := by simp [init]

end Props.C32
