import FranzVerif.Model.C32
import FranzVerif.Proof.C32
import FranzVerif.Proof.C32RC
import FranzVerif.Props.C29
/-! C32 — kfake behaves like a Kafka partition log: property theorems over ALL operation histories
of the model (`Model.C32.run` from `init np`, any list of operations, any length). -/
namespace Props.C32
open Model.C32 Proof.C32

/-- **Contiguous offsets.** A produce request either leaves every partition log untouched, or appends
exactly its batch to the addressed partition at the high watermark (`pushBatch`: the batch gets
`first = hwm`, the new high watermark is its end) and answers that offset with error 0. -/
theorem produce_appends_at_hwm (s : State) (v12 : Bool) (k epoch seq n nbytes : Int) (p : Nat) (tx : Bool) :
    (produce s v12 k epoch seq n nbytes p tx).1.parts = s.parts ∨
    ∃ pd, s.parts[p]? = some pd ∧
      (produce s v12 k epoch seq n nbytes p tx).1.parts = s.parts.set p (pushBatch pd ⟨0, n, k, epoch, seq, tx, false, false, nbytes⟩ tx) ∧
      (produce s v12 k epoch seq n nbytes p tx).2.1 = 0 ∧ (produce s v12 k epoch seq n nbytes p tx).2.2.1 = pd.hwm ∧
      (pushBatch pd ⟨0, n, k, epoch, seq, tx, false, false, nbytes⟩ tx).batches = pd.batches ++ [⟨pd.hwm, n, k, epoch, seq, tx, false, false, nbytes⟩] ∧
      (pushBatch pd ⟨0, n, k, epoch, seq, tx, false, false, nbytes⟩ tx).hwm = pd.hwm + n := by
  rcases produce_append_aux s v12 k epoch seq n nbytes p tx with h | ⟨pd, h1, h2, h3, h4⟩
  · exact Or.inl h
  · exact Or.inr ⟨pd, h1, h2, h3, h4, rfl, rfl⟩


/-- **Every history**: the partition invariant holds in every state reachable by any operations. -/
theorem all_histories_inv (np : Nat) (ops : List Op) (hv : ∀ o ∈ ops, Op.valid o) :
    ∀ pd ∈ (run (init np) ops).parts, PInv pd :=
  run_inv PInv pres_pinv ops hv _ (init_inv PInv pinv_init np)

/-- LSO ≤ HWM after every history. -/
theorem lso_le_hwm (np : Nat) (ops : List Op) (hv : ∀ o ∈ ops, Op.valid o) :
    ∀ pd ∈ (run (init np) ops).parts, pd.lso ≤ pd.hwm := by
  intro pd hpd
  have h := all_histories_inv np ops hv pd hpd
  rw [h.lso]; exact minUnc_le _ _

/-- no open transaction ⇒ LSO = HWM. -/
theorem lso_eq_hwm_of_no_open (np : Nat) (ops : List Op) (hv : ∀ o ∈ ops, Op.valid o) :
    ∀ pd ∈ (run (init np) ops).parts, pd.unc = [] → pd.lso = pd.hwm := by
  intro pd hpd he
  have h := all_histories_inv np ops hv pd hpd
  rw [h.lso, he]; rfl

/-- open transactions ⇒ LSO is the smallest of their first offsets (this is what makes `pushBatch`'s
"leave the LSO alone while a transaction is open, add n otherwise" correct). -/
theorem lso_eq_min_open (np : Nat) (ops : List Op) (hv : ∀ o ∈ ops, Op.valid o) :
    ∀ pd ∈ (run (init np) ops).parts, pd.unc ≠ [] →
      (∀ e ∈ pd.unc, pd.lso ≤ e.2) ∧ ∃ e ∈ pd.unc, pd.lso = e.2 := by
  intro pd hpd hne
  have h := all_histories_inv np ops hv pd hpd
  rw [h.lso]
  exact ⟨minUnc_le_mem _ _, minUnc_attained _ _ hne h.unc_le⟩

/-- the log is contiguous up to the high watermark after every history. -/
theorem offsets_contiguous (np : Nat) (ops : List Op) (hv : ∀ o ∈ ops, Op.valid o) :
    ∀ pd ∈ (run (init np) ops).parts, Contig pd.batches pd.hwm :=
  fun pd hpd => (all_histories_inv np ops hv pd hpd).contig

/-- Non-vacuity: an open transaction at offset 2 behind plain data, a second one at 5: LSO = 2 < HWM = 8;
after aborting the first the LSO moves to 5, after committing the second to the HWM. -/
example :
    let s := run (init 1) [.initx 0 203, .initx 1 204, .prod true (-1) (-1) (-1) 2 80 0 false, .prod true 0 0 0 3 90 0 true,
                           .prod true 1 0 0 3 90 0 true]
    (s.parts.map (fun pd => (pd.lso, pd.hwm, pd.unc))) = [(2, 8, [(0, 2), (1, 5)])] ∧
    ((run s [.endt true 0 0 false]).parts.map (fun pd => (pd.lso, pd.hwm))) = [(5, 9)] ∧
    ((run s [.endt true 0 0 false, .endt false 1 0 true]).parts.map (fun pd => (pd.lso, pd.hwm, pd.aborted))) = [(10, 10, [⟨0, 2, 8⟩])] := by
  decide

/-! ### read_committed -/

/-- A read_committed walk never returns a batch at or beyond the LSO, for every offset and byte limit. -/
theorem read_committed_below_lso (lso mb pm : Int) (bs : List Batch) (pb nb : Int) (ad : Nat) :
    ∀ m ∈ (walk true lso mb pm bs pb nb ad).1, m.first < lso := walk_below_lso lso mb pm bs pb nb ad

/-- What a fetch returns is a run of consecutive batches of the log that starts at the batch containing the
fetch offset (no batch is skipped, nothing is invented), for every isolation level and byte limit. -/
theorem fetch_returns_log_run (pd : Part) (o : Int) (rc : Bool) (mb pm nb : Int) (ad : Nat) (bs : List Batch)
    (h : searchOffset pd o = .found bs) :
    (∃ pre, pd.batches = pre ++ bs ∧ ∀ m ∈ pre, m.first + m.n ≤ o) ∧
    ∃ rest, bs = (walk rc pd.lso mb pm bs 0 nb ad).1 ++ rest := by
  refine ⟨?_, walk_prefix _ _ _ _ _ _ _ _⟩
  unfold searchOffset at h
  split at h
  · simp at h
  · split at h
    · split at h <;> simp at h
    · split at h
      · simp at h
      · simp only [Search.found.injEq] at h
        refine ⟨pd.batches.takeWhile (fun m => decide (m.first + m.n ≤ o)), ?_, ?_⟩
        · rw [← h]; exact (List.takeWhile_append_dropWhile).symm
        · intro m hm
          have := mem_takeWhile_imp2 _ _ m hm
          simpa using this

/-- The first batch below the bound is always returned to the first partition of a request. -/
theorem fetch_progress (rc : Bool) (lso mb pm : Int) (m : Batch) (r : List Batch) (nb : Int)
    (h : ¬ (rc = true ∧ m.first ≥ lso)) : ∃ t, (walk rc lso mb pm (m :: r) 0 nb 0).1 = m :: t :=
  walk_first rc lso mb pm m r nb h

/-- the partition invariant together with the invariant tying the aborted index to the log's abort markers
(`Proof.C32.RInv`: one entry per abort marker that still has data of its transaction in the log, carrying a
first offset at or below that data and after the producer's previous marker; open transactional data is
tracked in `uncommittedPIDs`) is preserved by every log operation. -/
theorem pres_full : Pres (fun pd => PInv pd ∧ RInv pd) :=
  ⟨fun pd b t hn hc ht h => ⟨pinv_push pd b t (by omega) h.1, rinv_push pd b t hn hc ht h.2⟩,
   fun pd k e c h => ⟨pinv_endTx pd k e c h.1, rinv_endTx pd k e c h.2⟩,
   fun pd off h => ⟨pinv_delete pd off h.1, rinv_delete pd off h.2⟩⟩

theorem all_histories_full (np : Nat) (ops : List Op) (hv : ∀ o ∈ ops, Op.valid o) :
    ∀ pd ∈ (run (init np) ops).parts, PInv pd ∧ RInv pd :=
  run_inv _ pres_full ops hv _ (init_inv _ ⟨pinv_init, rinv_init⟩ np)

/-- **read_committed exactness, every history.** In every reachable state, for every partition, fetch offset and
byte limits (request-level, partition-level, whatever was already added for earlier partitions): what the
consumer keeps of the returned batches after Kafka's aborted-transaction rule (with the `AbortedTransactions`
kfake lists) is exactly the committed data among them — non-transactional batches and batches whose producer's
next marker in the log is a commit; nothing of an aborted or still open transaction, and nothing dropped. -/
theorem read_committed_exact (np : Nat) (ops : List Op) (hv : ∀ o ∈ ops, Op.valid o) :
    ∀ pd ∈ (run (init np) ops).parts, ∀ (o mb pm nb : Int) (ad : Nat) (bs : List Batch), searchOffset pd o = .found bs →
      clientView (abortedFor pd.aborted o (walk true pd.lso mb pm bs 0 nb ad).1) (walk true pd.lso mb pm bs 0 nb ad).1
        = committedData (walk true pd.lso mb pm bs 0 nb ad).1 (bs.drop (walk true pd.lso mb pm bs 0 nb ad).1.length) := by
  intro pd hpd o mb pm nb ad bs h
  obtain ⟨hP, hR⟩ := all_histories_full np ops hv pd hpd
  exact rc_exact_part pd hP hR o mb pm nb ad bs h

/-- … and for the response as `handleFetch` builds it: every partition answered without error by a
read_committed fetch carries a run `r.batches` of that partition's log (`pre ++ r.batches ++ rest`) whose
consumer view is the committed data of the run. -/
theorem fetch_read_committed_exact (parts : List Part) (hinv : ∀ pd ∈ parts, PInv pd ∧ RInv pd) (mb unk : Int) (lead : Nat → Bool) (reqs : List FReq)
    (nb : Int) (ad : Nat) :
    ∀ r ∈ fetchLoop parts true mb unk lead reqs nb ad, r.code = 0 → unk ≠ 0 →
      ∃ pd pre rest, parts[r.p]? = some pd ∧ pd.batches = pre ++ r.batches ++ rest ∧
        clientView r.aborted r.batches = committedData r.batches rest := by
  induction reqs generalizing nb ad with
  | nil => simp [fetchLoop]
  | cons fp rs ih =>
    intro r hr hc hunk
    unfold fetchLoop at hr
    split at hr
    · simp only [List.mem_cons] at hr
      rcases hr with rfl | hr
      · exact absurd hc hunk
      · exact ih _ _ r hr hc hunk
    · rename_i pd hpd
      have hfound : ∀ bs, searchOffset pd fp.off = .found bs →
          ∃ pre rest, pd.batches = pre ++ (walk true pd.lso mb fp.pmax bs 0 nb ad).1 ++ rest ∧
            clientView (abortedFor pd.aborted fp.off (walk true pd.lso mb fp.pmax bs 0 nb ad).1) (walk true pd.lso mb fp.pmax bs 0 nb ad).1
              = committedData (walk true pd.lso mb fp.pmax bs 0 nb ad).1 rest := by
        intro bs hs
        obtain ⟨hP, hR⟩ := hinv pd (List.mem_of_getElem? hpd)
        have hex := rc_exact_part pd hP hR fp.off mb fp.pmax nb ad bs hs
        obtain ⟨⟨pre, hpre, _⟩, ⟨rest, hrest⟩⟩ := fetch_returns_log_run pd fp.off true mb fp.pmax nb ad bs hs
        refine ⟨pre, rest, ?_, ?_⟩
        · rw [hpre, List.append_assoc, ← hrest]
        · have hd : bs.drop (walk true pd.lso mb fp.pmax bs 0 nb ad).1.length = rest := by
            have h3 := congrArg (List.drop (walk true pd.lso mb fp.pmax bs 0 nb ad).1.length) hrest
            rw [List.drop_left' rfl] at h3
            exact h3
          rw [hd] at hex; exact hex
      split at hr
      · simp only [List.mem_cons] at hr
        rcases hr with rfl | hr
        · simp at hc
        · exact ih _ _ r hr hc hunk
      split at hr
      · simp only [List.mem_cons] at hr
        rcases hr with rfl | hr
        · exact ⟨pd, pd.batches, [], hpd, by simp, by simp [clientView, clientFilter, committedData]⟩
        · exact ih _ _ r hr hc hunk
      · simp only [List.mem_cons] at hr
        rcases hr with rfl | hr
        · simp at hc
        · exact ih _ _ r hr hc hunk
      · rename_i bs hs
        obtain ⟨pre, rest, h1, h2⟩ := hfound bs hs
        simp only [if_true] at hr
        by_cases hfull : (walk true pd.lso mb fp.pmax bs 0 nb ad).2.2.2 = true
        · rw [if_pos hfull] at hr
          have hr' := List.mem_singleton.1 hr
          subst hr'
          exact ⟨pd, pre, rest, hpd, h1, h2⟩
        · rw [if_neg hfull] at hr
          rcases List.mem_cons.1 hr with rfl | hr
          · exact ⟨pd, pre, rest, hpd, h1, h2⟩
          · exact ih _ _ r hr hc hunk

/-- Non-vacuity: two aborted transactions and a committed one interleaved with plain data; a read_committed
fetch from offset 0 limited to 400 bytes returns four batches, lists both aborted transactions, and the consumer
keeps exactly the committed producer's batch and the plain one. -/
example :
    ((run (init 1) [.initx 0 203, .initx 1 204, .initx 2 205, .prod true 0 0 0 1 70 0 true, .prod true 1 0 0 3 100 0 true,
      .prod true 2 0 0 2 90 0 true, .prod true (-1) (-1) (-1) 2 80 0 false, .endt true 0 0 false, .prod true 1 0 3 1 75 0 true,
      .endt true 2 0 true, .endt false 1 0 false]).parts.map fun pd =>
        match searchOffset pd 0 with
        | .found bs => ((walk true pd.lso 400 1048576 bs 0 0 0).1.length, abortedFor pd.aborted 0 (walk true pd.lso 400 1048576 bs 0 0 0).1,
            (clientView (abortedFor pd.aborted 0 (walk true pd.lso 400 1048576 bs 0 0 0).1) (walk true pd.lso 400 1048576 bs 0 0 0).1).map (·.first))
        | _ => (0, [], [])) = [(4, [(0, 0), (1, 1)], [4, 6])] := by
  decide

/-! ### idempotent retry -/

/-- A retried batch — one whose `(first sequence, next sequence)` is recorded in the producer's window of the
partition, same epoch — is answered with error 0 and the offset recorded for it, and no partition log changes.
(C29 proves that the window records exactly the last five accepted batches with their offsets.) -/
theorem retry_gets_original_offset (s : State) (v12 : Bool) (k epoch seq n nbytes : Int) (p : Nat) (tx : Bool)
    (pd : Part) (pr : Prod) (hpd : s.parts[p]? = some pd) (hlead : isLeader s p = true) (hk : 0 ≤ k) (hseq : 0 ≤ seq) (hn : 0 ≤ n)
    (hget : (getOrCreate (pidsGet s v12 k p tx).1 k epoch tx (pidsGet s v12 k p tx).2).2 = some pr)
    (hfence : ¬ (pr.inTx = true ∧ tx = false)) (hep : epoch = pr.epoch)
    (hseen : (getWin pr p).seen = true) (hwe : epoch = (getWin pr p).epoch)
    (hrec : ∃ e ∈ (getWin pr p).entries.take (getWin pr p).count, e.first = seq ∧ e.nxt = Model.C29.next seq n) :
    ∃ off, (produce s v12 k epoch seq n nbytes p tx).2 = (0, off, -1) ∧
      (∃ e ∈ (getWin pr p).entries.take (getWin pr p).count, e.first = seq ∧ e.nxt = Model.C29.next seq n ∧ e.offset = off) ∧
      (produce s v12 k epoch seq n nbytes p tx).1.parts = s.parts := by
  obtain ⟨off, hoff, hmem⟩ := Props.C29.kfake_dup_complete (getWin pr p) epoch seq n pd.hwm hseen hwe hseq hn hrec
  have hmod : Gen.C29K.kfakeSeqMod = Model.C29.seqMod := Props.C29.kfake_modulus.1
  simp only [Props.C29.kpush, hmod] at hoff
  refine ⟨off, ?_, hmem, ?_⟩
  all_goals
    unfold produce
    simp only [hpd]
    have hk' : ¬ k < 0 := by omega
    simp only [hlead, Bool.not_true, hk', decide_false, Bool.and_false, Bool.false_eq_true, if_false, hget]
    have hf : (pr.inTx && !tx) = false := by
      cases h1 : pr.inTx <;> cases h2 : tx <;> simp_all
    have he1 : ¬ epoch < pr.epoch := by omega
    have he2 : ¬ epoch > pr.epoch := by omega
    simp only [hf, Bool.false_eq_true, if_false, he1, he2, hoff]
  · simp [setProd_parts, getOrCreate_parts, pidsGet_parts]

/-- Non-vacuity of the retry theorem: the second send of the same batch is answered with offset 0 and appends nothing. -/
example :
    let s := run (init 1) [.prod false 7 0 0 2 80 0 false, .prod false 7 0 2 1 70 0 false]
    (produce s false 7 0 0 2 80 0 false).2 = (0, 0, -1) ∧ (produce s false 7 0 0 2 80 0 false).1.parts.map (·.hwm) = [3] := by
  decide

/-! ### fetch sessions -/

/-- An incremental fetch drops a partition from the answer only if the session knows it, the walk returned
no batch for it, it carries no error, and its high watermark and log start are the ones recorded when the
session last answered for it. -/
theorem session_omits_only_unchanged (ps : List SPart) (resp : List PResp) (r : PResp)
    (hr : r ∈ resp) (hdrop : r ∉ resp.filter (sessInclude true ps)) :
    ∃ sp ∈ ps, sp.p = r.p ∧ r.batches = [] ∧ r.code = 0 ∧ r.hwm = sp.lastHwm ∧ r.logStart = sp.lastLs := by
  have hinc : sessInclude true ps r = false := by
    cases h : sessInclude true ps r
    · rfl
    · exact absurd (List.mem_filter.2 ⟨hr, h⟩) hdrop
  unfold sessInclude at hinc
  split at hinc
  · simp at hinc
  · rename_i sp hsp
    have hmem := List.mem_of_find?_eq_some hsp
    have hp := List.find?_some hsp
    simp only [Bool.not_true, Bool.false_or, Bool.or_eq_false_iff, Bool.not_eq_eq_eq_not, Bool.not_false,
      bne_eq_false_iff_eq, List.isEmpty_iff] at hinc
    simp at hp
    exact ⟨sp, hmem, hp, hinc.1.1.1, hinc.1.1.2, hinc.1.2, hinc.2⟩

/-- The last stable offset only moves when the high watermark moves (so a session that compares high watermark
and log start also notices every LSO change): for each log operation of a partition. -/
theorem lso_moves_only_with_hwm (pd : Part) :
    (∀ b t, 1 ≤ b.n → (pushBatch pd b t).hwm ≠ pd.hwm) ∧
    (∀ k e c, (endTxPart pd k e c).hwm ≠ pd.hwm) ∧
    (∀ off, (deleteRecords pd off).1.lso = pd.lso ∧ (deleteRecords pd off).1.hwm = pd.hwm) := by
  refine ⟨fun b t hb => by simp [pushBatch]; omega, fun k e c => ?_, fun off => ?_⟩
  · have : (endTxPart pd k e c).hwm = pd.hwm + 1 := by
      unfold endTxPart recalcLSO pushBatch
      cases c <;> cases pd.unc.lookup k <;> simp
    omega
  · by_cases hcond : (decide ((if off == -1 then pd.hwm else off) < pd.logStart) || decide ((if off == -1 then pd.hwm else off) > pd.hwm)) = true
    · simp only [deleteRecords, hcond, if_true, and_self]
    · simp only [deleteRecords, hcond]; exact ⟨rfl, rfl⟩

/-- every partition answered without error reports the partition's current bounds. -/
theorem fetch_reports_bounds (parts : List Part) (rc : Bool) (mb unk : Int) (hunk : unk ≠ 0) (lead : Nat → Bool) (reqs : List FReq) (nb : Int) (ad : Nat) :
    ∀ r ∈ fetchLoop parts rc mb unk lead reqs nb ad, r.code = 0 →
      ∃ pd, parts[r.p]? = some pd ∧ r.hwm = pd.hwm ∧ r.lso = pd.lso ∧ r.logStart = pd.logStart := by
  induction reqs generalizing nb ad with
  | nil => simp [fetchLoop]
  | cons fp rest ih =>
    intro r hr hc
    unfold fetchLoop at hr
    split at hr
    · rename_i hnone
      simp only [List.mem_cons] at hr
      rcases hr with rfl | hr
      · exact absurd hc hunk
      · exact ih _ _ r hr hc
    · rename_i pd hpd
      split at hr
      · simp only [List.mem_cons] at hr
        rcases hr with rfl | hr
        · simp at hc
        · exact ih _ _ r hr hc
      split at hr
      all_goals simp only [List.mem_cons] at hr
      · rcases hr with rfl | hr
        · exact ⟨pd, hpd, rfl, rfl, rfl⟩
        · exact ih _ _ r hr hc
      · rcases hr with rfl | hr
        · simp at hc
        · exact ih _ _ r hr hc
      · split at hr
        · simp only [List.mem_singleton] at hr
          exact hr ▸ ⟨pd, hpd, rfl, rfl, rfl⟩
        · simp only [List.mem_cons] at hr
          rcases hr with rfl | hr
          · exact ⟨pd, hpd, rfl, rfl, rfl⟩
          · exact ih _ _ r hr hc

end Props.C32
