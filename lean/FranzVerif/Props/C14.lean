import FranzVerif.Model.Producer
import FranzVerif.Proof.Producer
import FranzVerif.Proof.ProducerFacts
import FranzVerif.Model.Consumer
import FranzVerif.Proof.Consumer
import FranzVerif.Proof.ConsumerInv
import FranzVerif.Proof.ConsumerFacts
/-! C14 — buffered/unbuffered hooks pair up exactly once per record, with the promise's error (produce half,
about `Model.Producer`), and every fetched record passed to the unbuffered hook was passed to the buffered
hook before, all of them by the time the client is closed (fetch half, about `Model.Consumer`, the theorems
named `fetch_…` in the second `namespace Props.C14` block). -/
namespace Props.C14
open Model.Producer Proof.Producer

/-- Every record passed to the buffered hook is passed at most once to the unbuffered hook, never the
other way round, and the unbuffered hook's error is the error the promise receives. -/
theorem hooks_pair_at_most_once (c : Cfg) (h : List Ev) (s : St) (hacc : run c {} h = some s) (id : Id) :
    (hookBsOf id h).length ≤ 1 ∧ (hookUsOf id h).length ≤ 1 ∧
    ((hookUsOf id h).length = 1 → (hookBsOf id h).length = 1) ∧
    (∀ e, e ∈ promisesOf id h → hookUsOf id h = [e]) := by
  have hi := inv_of_run hacc
  cases hfd : find s.recs id with
  | none =>
    have hn := hi.recNone id hfd
    simp [hn.promisesOf, hn.hookUsOf, hn.hookBsOf]
  | some r =>
    have hr := hi.recSome id r hfd
    rw [hr.hprom, hr.hU, hr.hB]
    refine ⟨by split <;> simp, by cases r.hookU <;> simp, ?_, ?_⟩
    · intro hu
      have : r.hookU.isSome = true := by cases hh : r.hookU <;> simp [hh] at hu ⊢
      simp [hr.UB this]
    · intro e he
      have hp : r.promised = some e := by cases hh : r.promised <;> simp [hh] at he ⊢; exact he.symm
      rw [hr.promU (by simp [hp]), hp]; rfl

/-- At a quiescent point every record passed to the buffered hook has been passed exactly once to the
unbuffered hook, with exactly the error its promise received. -/
theorem hooks_pair_exactly_once_at_quiescence (c : Cfg) (h : List Ev) (n b : Nat) (s : St)
    (hacc : run c {} (h ++ [Ev.quiesce n b]) = some s) (id : Id) (hb : hookBsOf id h ≠ []) :
    (hookBsOf id h).length = 1 ∧ ∃ e, hookUsOf id h = [e] ∧ promisesOf id h = [e] := by
  obtain ⟨s₁, h1, hchk⟩ := run_snoc hacc
  have hi := inv_of_run h1
  obtain ⟨hrecs, _⟩ := quiesce_check hchk
  cases hfd : find s₁.recs id with
  | none => exact absurd (hi.recNone id hfd).hookBsOf hb
  | some r =>
    have hr := hi.recSome id r hfd
    obtain ⟨hp, hu, _⟩ := hrecs r (find_some hfd).1
    obtain ⟨e, he⟩ := Option.isSome_iff_exists.1 hp
    have hue : r.hookU = some e := by rw [hr.promU hp, he]
    refine ⟨?_, e, ?_, ?_⟩
    · rw [hr.hB, hr.UB hu]; rfl
    · rw [hr.hU, hue]; rfl
    · rw [hr.hprom, he]; rfl

/-- Non-vacuity: an accepted history (a blocked Produce at the limit, a TryProduce failed with
ErrMaxBuffered, a Flush) that ends at a quiescent point; the hooks of record 3 pair up with its promise. -/
example : accepts { maxRecs := 1, maxBytes := 0, manual := false }
    [.call 1 .produce 3, .hookB 1, .admit 1 1 3 3, .ret 1,
     .call 2 .produce 2, .hookB 2, .block 2,
     .call 3 .try_ 1, .hookB 3, .ret 3, .hookU 3 ⟨.maxBuffered, 7⟩, .promise 3 ⟨.maxBuffered, 7⟩,
     .flushStart 1,
     .hookU 1 .ok, .promise 1 .ok, .release 1 0 0,
     .unblock 2, .admit 2 1 2 2, .ret 2, .hookU 2 .ok, .promise 2 .ok, .release 2 0 0,
     .flushEnd 1 true, .closeStart, .closeEnd, .quiesce 0 0] = true := by decide

end Props.C14

/-! ## fetch half (`Model.Consumer`) -/
namespace Props.C14
open Model.Consumer Proof.Consumer

/-- A fetched record is passed to the unbuffered hook only after it was passed to the buffered hook: in
every accepted history, at every moment (for every prefix `p`), the multiset of `(partition, offset)`
pairs given to `OnFetchRecordUnbuffered` is included in the multiset given to `OnFetchRecordBuffered`. -/
theorem fetch_unbuffered_only_after_buffered (c : Cfg) (h : List Ev) (s : St) (hacc : run c {} h = some s)
    (p : List Ev) (hp : p <+: h) (x : Nat × Nat) :
    (unbufferedHooks p).count x ≤ (bufferedHooks p).count x := by
  obtain ⟨t, rfl⟩ := hp
  obtain ⟨s₁, h1⟩ := run_prefix hacc
  have := (inv_of_run h1).buf x
  omega

/-- At a quiescent point (client closed) the two hooks have paired up exactly — every record given to the
buffered hook was given to the unbuffered hook exactly as often — and the `BufferedFetchRecords` gauge
was observed and its last observed value is 0. -/
theorem fetch_hooks_pair_exactly_at_quiescence (c : Cfg) (h : List Ev) (s : St)
    (hacc : run c {} (h ++ [Ev.quiesce]) = some s) :
    (∀ x, (unbufferedHooks h).count x = (bufferedHooks h).count x) ∧ Ev.gauge 0 ∈ h ∧ lastGauge h = some 0 := by
  obtain ⟨s₁, h1, hchk⟩ := run_snoc hacc
  have hi := inv_of_run h1
  have hq := quiesce_check hchk
  have hg : lastGauge h = some 0 := by rw [← hi.gauge]; exact hq.gauge
  refine ⟨fun x => ?_, mem_of_lastGauge hg, hg⟩
  have := hi.buf x
  rw [hq.buffered] at this
  simpa using this

/-- Non-vacuity: an accepted history where records are buffered by a fetch, some unbuffered by polls and
one (offset 2) unbuffered without being polled when the client is closed; gauge 0 at the end. -/
example : accepts { committed := false, keepCtl := false, start := 0 }
    [.produced 1 0 0 0, .produced 2 0 1 0, .produced 3 0 2 0, .incomplete,
     .hookBuf 0 0, .hookBuf 0 1, .hookBuf 0 2,
     .pollStart, .returned 0 0 1 false, .hookUnbuf 0 0 true, .returned 0 1 2 false, .hookUnbuf 0 1 true, .pollEnd,
     .hookUnbuf 0 2 false, .gauge 0, .quiesce] = true := by decide

/-- The monitor refuses an unbuffered hook without a buffered one, a record left buffered, and a non-zero gauge. -/
example : accepts { committed := false, keepCtl := false, start := 0 }
    [.hookBuf 0 0, .hookUnbuf 0 0 true, .hookUnbuf 0 0 true] = false := by decide
example : accepts { committed := false, keepCtl := false, start := 0 }
    [.hookBuf 0 0, .hookBuf 0 1, .hookUnbuf 0 0 true, .gauge 0, .quiesce] = false := by decide
example : accepts { committed := false, keepCtl := false, start := 0 }
    [.hookBuf 0 0, .hookUnbuf 0 0 true, .gauge 1, .quiesce] = false := by decide
example : accepts { committed := false, keepCtl := false, start := 0 }
    [.hookBuf 0 0, .hookUnbuf 0 0 true, .quiesce] = false := by decide

end Props.C14
