import FranzVerif.Model.Producer
import FranzVerif.Proof.Producer
import FranzVerif.Proof.ProducerFacts
/-! C14 (produce half) — buffered/unbuffered hooks pair up exactly once per record, with the promise's error. -/
namespace Props.C14
open Model.Producer Proof.Producer

/-- Every record passed to the buffered hook is passed at most once to the unbuffered hook, never the
other way round, and the unbuffered hook's error is the error the promise receives. -/
theorem hooks_pair_at_most_once (c : Cfg) (h : List Ev) (s : St) (hacc : run c {} h = some s) (id : Id) :
    (hookBsOf id h).length ≤ 1 ∧ (hookUsOf id h).length ≤ 1 ∧
    ((hookUsOf id h).length = 1 → (hookBsOf id h).length = 1) ∧
    (∀ e, e ∈ promisesOf id h → hookUsOf id h = [e]) := by
  have hi := inv_of_run hacc
  cases hfd : find s.recs id with
  | none =>
    have hn := hi.recNone id hfd
    simp [hn.promisesOf, hn.hookUsOf, hn.hookBsOf]
  | some r =>
    have hr := hi.recSome id r hfd
    rw [hr.hprom, hr.hU, hr.hB]
    refine ⟨by split <;> simp, by cases r.hookU <;> simp, ?_, ?_⟩
    · intro hu
      have : r.hookU.isSome = true := by cases hh : r.hookU <;> simp [hh] at hu ⊢
      simp [hr.UB this]
    · intro e he
      have hp : r.promised = some e := by cases hh : r.promised <;> simp [hh] at he ⊢; exact he.symm
      rw [hr.promU (by simp [hp]), hp]; rfl

/-- At a quiescent point every record passed to the buffered hook has been passed exactly once to the
unbuffered hook, with exactly the error its promise received. -/
theorem hooks_pair_exactly_once_at_quiescence (c : Cfg) (h : List Ev) (n b : Nat) (s : St)
    (hacc : run c {} (h ++ [Ev.quiesce n b]) = some s) (id : Id) (hb : hookBsOf id h ≠ []) :
    (hookBsOf id h).length = 1 ∧ ∃ e, hookUsOf id h = [e] ∧ promisesOf id h = [e] := by
  obtain ⟨s₁, h1, hchk⟩ := run_snoc hacc
  have hi := inv_of_run h1
  obtain ⟨hrecs, _⟩ := quiesce_check hchk
  cases hfd : find s₁.recs id with
  | none => exact absurd (hi.recNone id hfd).hookBsOf hb
  | some r =>
    have hr := hi.recSome id r hfd
    obtain ⟨hp, hu, _⟩ := hrecs r (find_some hfd).1
    obtain ⟨e, he⟩ := Option.isSome_iff_exists.1 hp
    have hue : r.hookU = some e := by rw [hr.promU hp, he]
    refine ⟨?_, e, ?_, ?_⟩
    · rw [hr.hB, hr.UB hu]; rfl
    · rw [hr.hU, hue]; rfl
    · rw [hr.hprom, he]; rfl

/-- Non-vacuity: an accepted history (a blocked Produce at the limit, a TryProduce failed with
ErrMaxBuffered, a Flush) that ends at a quiescent point; the hooks of record 3 pair up with its promise. -/
example : accepts { maxRecs := 1, maxBytes := 0, manual := false }
    [.call 1 .produce 3, .hookB 1, .admit 1 1 3 3, .ret 1,
     .call 2 .produce 2, .hookB 2, .block 2,
     .call 3 .try_ 1, .hookB 3, .ret 3, .hookU 3 ⟨.maxBuffered, 7⟩, .promise 3 ⟨.maxBuffered, 7⟩,
     .flushStart 1,
     .hookU 1 .ok, .promise 1 .ok, .release 1 0 0,
     .unblock 2, .admit 2 1 2 2, .ret 2, .hookU 2 .ok, .promise 2 .ok, .release 2 0 0,
     .flushEnd 1 true, .closeStart, .closeEnd, .quiesce 0 0] = true := by decide

end Props.C14
