import FranzVerif.Model.Producer
import FranzVerif.Proof.Producer
/-! C14 (produce half) — buffered/unbuffered hooks pair up exactly once per record, with the promise's error. -/
namespace Props.C14
open Model.Producer Proof.Producer

/-- Every record passed to the buffered hook is passed at most once to the unbuffered hook, never the
other way round, and the unbuffered hook's error is the error the promise receives. -/
theorem hooks_pair_at_most_once (c : Cfg) (h : List Ev) (s : St) (hacc : run c {} h = some s) (id : Id) :
    (hookBsOf id h).length ≤ 1 ∧ (hookUsOf id h).length ≤ 1 ∧
    ((hookUsOf id h).length = 1 → (hookBsOf id h).length = 1) ∧
    (∀ e, e ∈ promisesOf id h → hookUsOf id h = [e]) := by
  sorry

/-- At a quiescent point every record passed to the buffered hook has been passed exactly once to the
unbuffered hook, with exactly the error its promise received. -/
theorem hooks_pair_exactly_once_at_quiescence (c : Cfg) (h : List Ev) (n b : Nat) (s : St)
    (hacc : run c {} (h ++ [Ev.quiesce n b]) = some s) (id : Id) (hb : hookBsOf id h ≠ []) :
    (hookBsOf id h).length = 1 ∧ ∃ e, hookUsOf id h = [e] ∧ promisesOf id h = [e] := by
  sorry

end Props.C14
