import FranzVerif.Model.C35
/-! C35 — the property as an executable predicate over the observable result.

Written from the property text (and the doc comment of `GroupMemberLag`), not from the model: it
uses the input/output *types* and the map lookup of `Model.C35` and nothing of the three passes.

  "CalculateGroupLag and CalculateGroupLagWithStartOffsets report each partition that is assigned to
   a member or committed by the group exactly once. Its lag is the end offset minus the committed
   offset, or minus the start offset (else the end offset itself) when nothing is committed, floored
   at zero. The lag is -1 with a non-nil error exactly when the end offset is missing or errored or
   the commit errored, and totals equal the sum of the non-negative lags."

Reading of the words: a partition is *assigned* when a member whose assignment is of consumer type
lists it; it is *committed by the group* when the commit responses have an entry for it; *nothing is
committed* when there is no entry or the entry's offset is negative (OffsetFetch answers -1);
a start offset is usable when it is listed without error. -/
namespace Spec.C35
open Model.C35

def assignedIn (inp : Input) (t : Nat) (p : Int) : Bool :=
  inp.members.any (fun m => m.assignedConsumer && m.assigned.any (fun tp => tp.1 == t && tp.2.contains p))

def committedIn (inp : Input) (t : Nat) (p : Int) : Bool := (get2 inp.commit t p).isSome

def inScope (inp : Input) (t : Nat) (p : Int) : Bool := assignedIn inp t p || committedIn inp t p

/-- "the end offset is missing or errored or the commit errored" -/
def bad (inp : Input) (t : Nat) (p : Int) : Bool :=
  (match get2 inp.end_ t p with
   | none => true
   | some e => e.err != 0) ||
  (match get2 inp.commit t p with
   | some c => c.err != 0
   | none => false)

/-- "the end offset minus the committed offset, or minus the start offset (else the end offset
itself) when nothing is committed, floored at zero" (meaningful when not `bad`). -/
def expectLag (inp : Input) (t : Nat) (p : Int) : Int :=
  let e := ((get2 inp.end_ t p).getD missing).off
  let uncommitted : Int := match get2 inp.start t p with
    | some s => if s.err = 0 then e - s.off else e
    | none => e
  let raw : Int := match get2 inp.commit t p with
    | some c => if c.at_ ≥ 0 then e - c.at_ else uncommitted
    | none => uncommitted
  if raw < 0 then 0 else raw

/-- sentences two and three for one reported partition -/
def rowLaw (inp : Input) (r : Row) : Bool :=
  if bad inp r.topic r.part then r.lag == -1 && r.err != 0
  else r.lag == expectLag inp r.topic r.part && r.err == 0

def hasRow (out : Out) (t : Nat) (p : Int) : Bool := out.rows.any (fun r => r.topic == t && r.part == p)

def nodupB {α : Type} [DecidableEq α] : List α → Bool
  | [] => true
  | x :: xs => !xs.contains x && nodupB xs

/-- "report each partition that is assigned to a member or committed by the group" -/
def covers (inp : Input) (out : Out) : Bool :=
  inp.members.all (fun m => !m.assignedConsumer || m.assigned.all (fun tp => tp.2.all (fun p => hasRow out tp.1 p))) &&
  inp.commit.all (fun tps => tps.2.all (fun pc => !committedIn inp tps.1 pc.1 || hasRow out tps.1 pc.1))

/-- "exactly once" -/
def once (out : Out) : Bool := nodupB (out.rows.map (fun r => (r.topic, r.part)))

def nonneg (r : Row) : Int := if r.lag ≥ 0 then r.lag else 0

/-- "totals equal the sum of the non-negative lags": `Total`, and every entry of `TotalByTopic`;
every topic with a reported partition has an entry. -/
def totalsOK (out : Out) : Bool :=
  out.total == sumBy nonneg out.rows &&
  out.byTopic.all (fun tv => tv.2 == sumBy (fun r => if r.topic = tv.1 then nonneg r else 0) out.rows) &&
  out.rows.all (fun r => (keys out.byTopic).contains r.topic) &&
  nodupB (keys out.byTopic)

/-- The property as written: the lag sentences are about the partitions of the first sentence. -/
def specScope (inp : Input) (out : Out) : Bool :=
  covers inp out && once out && out.rows.all (fun r => !inScope inp r.topic r.part || rowLaw inp r) && totalsOK out

/-- Listed offsets that carry no error are non-negative (they are Kafka offsets). -/
def endsNonNeg (inp : Input) : Bool :=
  inp.end_.all (fun tps => tps.2.all (fun pe => pe.2.err != 0 || pe.2.off ≥ 0))

/-- The lag sentences read for *every* reported `GroupMemberLag` (also of partitions that are only
known from the listed end offsets), as the doc comment of the type promises. -/
def specAll (inp : Input) (out : Out) : Bool := out.rows.all (rowLaw inp)

/-- The one class of inputs on which `specAll` is false of the current code: a partition that is
neither assigned nor committed, whose end offset is listed with an error and whose start offset is
listed without one (third pass of `CalculateGroupLagWithStartOffsets`). -/
def thirdPassErrStart (inp : Input) (t : Nat) (p : Int) : Bool :=
  !inScope inp t p &&
  (match get2 inp.end_ t p with | some e => e.err != 0 | none => false) &&
  (match get2 inp.start t p with | some s => s.err == 0 | none => false)

end Spec.C35
