/-! C31 — executable Spec over observable behaviour only (core Lean; evaluated by the driver on the
implementation's trace). An observation is the sequence of *responses* `(thread, event)` in the order
they happened, the thread programs (what each client called, and whether a poll returned records) and
how the run ended. Nothing here mentions counters, program counters or the model.

Gate (property text: "a rebalance's revocation never runs while a poll that returned records is outstanding
(until AllowRebalance), polls wait while a rebalance is pending, and no interleaving … deadlocks"):

* a poll is *outstanding* from the return of `waitAndAddPoller` (`padd`) until the return of its own
  `unaddPoller` (`unadd`, a fill that found nothing) or the return of any `AllowRebalance` (`allow`);
  a poll in its fill phase counts (it may be about to return records);
* a rebalance is *inside* from `enter` (return of `waitAndAddRebalance`) to `exit` (return of `unaddRebalance`);
* **exclusion**: never inside > 0 with a poll outstanding. The failing class in which an `allow` returned
  while another thread was inside its fill (its later `unadd` then releases a different poll's count) has
  the key `late-release-steals-poll`; every other overlap is `revoke-overlaps-poll`;
* **polls wait** (the reading that holds, see Props): a `padd` with no poll outstanding must not happen
  while a rebalance has signalled `blocked` (or entered) and not yet exited: `poll-overtook-pending-rebalance`.
  The unconditional reading (a poll waits even when another poll is outstanding) is documented not to
  hold ("you can poll many times before calling AllowRebalance") and is deliberately not flagged;
* **no deadlock**: if the programs obey the contract (threads either poll/allow or rebalance, and every
  poll that keeps records is followed by an `AllowRebalance` of the same thread) the run ends `done`.

Mutexes: holders counted from `in`/`t1`/`win`/`tw1`/`rin`/`tr1` to `out`/`wout`/`rout`; a writer is alone,
readers share; `Mutex.TryLock` fails only while someone holds; lock/unlock-balanced clients never panic and end `done`. -/
namespace Spec.C31

structure GateMon where
  progs : List (List Char)          -- remaining program per thread
  outst : List Nat := []            -- thread ids of outstanding polls (multiset)
  infill : List Nat := []           -- threads between padd and unadd of a Q poll
  blocked : List Nat := []          -- rebalancers that signalled blocked / entered and have not exited
  inside : Nat := 0
  steal : Bool := false             -- an allow returned while another thread was in its fill
  bad : Option String := none       -- first violation

def popProg (progs : List (List Char)) (t : Nat) : List (List Char) :=
  progs.modify t List.tail

def headOp (progs : List (List Char)) (t : Nat) : Char := ((progs.getD t []).head?).getD ' '

def GateMon.flag (m : GateMon) (k : String) : GateMon := if m.bad.isSome then m else { m with bad := some k }

def GateMon.checkExcl (m : GateMon) : GateMon :=
  if m.inside > 0 ∧ !m.outst.isEmpty then m.flag (if m.steal then "late-release-steals-poll" else "revoke-overlaps-poll") else m

def GateMon.step (m : GateMon) (t : Nat) (ev : String) : GateMon :=
  match ev with
  | "padd" =>
    let m := if m.outst.isEmpty ∧ !m.blocked.isEmpty then m.flag "poll-overtook-pending-rebalance" else m
    let q := headOp m.progs t == 'Q'
    let m := { m with outst := t :: m.outst, infill := if q then t :: m.infill else m.infill,
                      progs := if q then m.progs else popProg m.progs t }
    m.checkExcl
  | "unadd" => { m with outst := m.outst.erase t, infill := m.infill.erase t, progs := popProg m.progs t }
  | "allow" => { m with steal := m.steal || (m.infill.any (· != t)), outst := [], progs := popProg m.progs t }
  | "blocked" => { m with blocked := t :: m.blocked }
  | "enter" => ({ m with inside := m.inside + 1, blocked := if m.blocked.contains t then m.blocked else t :: m.blocked }).checkExcl
  | "exit" => { m with inside := m.inside - 1, blocked := m.blocked.erase t, progs := popProg m.progs t }
  | "" => m
  | _ => m.flag "panic"

/-- The client contract under which the gate must not deadlock. -/
def gateContract (progs : List (List Char)) : Bool :=
  progs.all fun p =>
    p.all (· == 'R') ||
    (p.all (fun c => c == 'P' || c == 'Q' || c == 'A') &&
      -- after the last P there is an A
      ((p.reverse.takeWhile (· != 'A')).all (· != 'P')))

def endVerdict (contract : Bool) (ending : String) : Option String :=
  match ending with
  | "done" => none
  | "deadlock" => if contract then some "deadlock" else none
  | _ => some "no-termination"

/-- Verdict of a gate observation: `none` = holds. -/
def gate (progs : List (List Char)) (evs : List (Nat × String)) (ending : String) : Option String :=
  let m := evs.foldl (fun m (e : Nat × String) => m.step e.1 e.2) ({ progs := progs } : GateMon)
  match m.bad with
  | some k => some k
  | none => endVerdict (gateContract progs) ending

structure MxMon where
  holders : Nat := 0
  bad : Option String := none

def MxMon.flag (m : MxMon) (k : String) : MxMon := if m.bad.isSome then m else { m with bad := some k }

def MxMon.step (m : MxMon) (ev : String) : MxMon :=
  match ev with
  | "in" | "t1" => let m := { m with holders := m.holders + 1 }; if m.holders > 1 then m.flag "mutex-two-holders" else m
  | "out" => { m with holders := m.holders - 1 }
  | "t0" => if m.holders = 0 then m.flag "trylock-failed-when-free" else m
  | "" => m
  | _ => m.flag "panic"

/-- Verdict of a Mutex observation; only meaningful for balanced clients (no bare `U`). -/
def mx (evs : List (Nat × String)) (ending : String) : Option String :=
  let m := evs.foldl (fun m (e : Nat × String) => m.step e.2) ({} : MxMon)
  match m.bad with
  | some k => some k
  | none => endVerdict true ending

structure RwMon where
  readers : Nat := 0
  writers : Nat := 0
  bad : Option String := none

def RwMon.flag (m : RwMon) (k : String) : RwMon := if m.bad.isSome then m else { m with bad := some k }

def RwMon.step (m : RwMon) (ev : String) : RwMon :=
  match ev with
  | "rin" | "tr1" => let m := { m with readers := m.readers + 1 }; if m.writers > 0 then m.flag "reader-with-writer" else m
  | "win" | "tw1" =>
    let m := { m with writers := m.writers + 1 }
    if m.writers > 1 then m.flag "two-writers" else if m.readers > 0 then m.flag "writer-with-readers" else m
  | "rout" => { m with readers := m.readers - 1 }
  | "wout" => { m with writers := m.writers - 1 }
  | "tr0" | "tw0" | "" => m
  | _ => m.flag "panic"

def rw (evs : List (Nat × String)) (ending : String) : Option String :=
  let m := evs.foldl (fun m (e : Nat × String) => m.step e.2) ({} : RwMon)
  match m.bad with
  | some k => some k
  | none => endVerdict true ending

end Spec.C31
