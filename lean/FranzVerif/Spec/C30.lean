/-! C30 — executable Spec over observable behaviour only (event logs in linearisation order), written from the
property text, independent of `Model.C30`. Core Lean only (compiled into the driver, evaluated on the
implementation's logs).

"The client's internal work queues hand every accepted element to exactly one worker invocation, in push order,
with at most one worker per queue. A bounded queue blocks pushers only while full, and a killed queue rejects
further elements. The start-work latch never loses a wake-up (after any signal a worker runs) and never runs two
workers at once." -/
namespace Spec.C30

/-! ## latch -/

/-- observable latch events: `maybeBegin` returned b (a signal; b = true starts a worker), a loop iteration did
    its work, the loop's `maybeFinish` returned b (false = the worker stops), the loop hard-finished. -/
inductive LEv
  | beginRet (t : Nat) (b : Bool) | worked (t : Nat) | finishRet (t : Nat) (b : Bool) | hard (t : Nat)
  deriving Repr, DecidableEq

/-- never two workers at once: the number of threads between a `maybeBegin = true` and their
    `maybeFinish = false` / `hardFinish` never exceeds 1 -/
def latchSingle (evs : List LEv) : Bool :=
  let rec go : List LEv → Nat → Bool
    | [], _ => true
    | .beginRet _ true :: r, n => n + 1 ≤ 1 && go r (n + 1)
    | .finishRet _ false :: r, n => go r (n - 1)
    | .hard _ :: r, n => go r (n - 1)
    | _ :: r, n => go r n
  go evs 0

/-- no lost wake-up, on a completed run: every completed `maybeBegin` that is not followed by a `hardFinish`
    (whose contract discards pending signals) is followed by a loop iteration doing work -/
def latchNoLost (evs : List LEv) : Bool :=
  let rec go : List LEv → Bool → Bool
    | [], _ => true
    | .worked _ :: r, _ => go r true
    | .hard _ :: r, _ => go r true
    | .beginRet _ _ :: r, answered => answered && go r answered
    | _ :: r, a => go r a
  go evs.reverse false

/-- `none` = holds, `some key` = violated -/
def latchSpec (evs : List LEv) : Option String :=
  if !latchSingle evs then some "latch-two-workers"
  else if !latchNoLost evs then some "latch-lost-wakeup"
  else none

/-! ## ring -/

/-- observable ring events. `push`: a push/pushForce call returned (`wait` = blocking push, `proto` = made under the
    spawn-on-first protocol); `blocked`: a pusher parked; `handed`: a worker processes element e;
    `drop`: a dropPeek returned (`proto` = by a worker); `die`; `empty` returned b. -/
inductive REv
  | push (t e : Nat) (wait proto first dead : Bool)
  | blocked (t : Nat)
  | handed (t e : Nat)
  | drop (t : Nat) (proto : Bool) (next : Nat) (more dead : Bool)
  | die (t : Nat)
  | empty (t : Nat) (b : Bool)
  deriving Repr, DecidableEq

/-- the abstract queue the log is replayed against -/
structure RSt where
  q : List Nat := []
  dead : Bool := false
  workers : Nat := 0
  handed : List Nat := []
  accepted : List Nat := []
  deriving Repr

def ringStep (maxLen : Int) (pureProtocol : Bool) (s : RSt) : REv → Except String RSt
  | .push _ e wait proto first dead =>
    if dead != s.dead then .error "ring-dead"                       -- killed queue rejects, live queue accepts
    else if dead then (if first then .error "ring-first" else .ok s)
    else if first != s.q.isEmpty then .error "ring-first"           -- first iff the queue was empty
    else if wait && decide (maxLen > 0) && decide ((s.q.length : Int) ≥ maxLen) then .error "ring-bound"  -- blocking push completed while full
    else
      let w := if proto && first then s.workers + 1 else s.workers
      if pureProtocol && w > 1 then .error "ring-two-workers"      -- at most one worker per queue
      else .ok { s with q := s.q ++ [e], accepted := s.accepted ++ [e], workers := w }
  | .blocked _ =>
    if decide (maxLen > 0) && decide ((s.q.length : Int) ≥ maxLen) && !s.dead then .ok s
    else .error "ring-blocked-while-not-full"                       -- blocks only while full (and alive)
  | .handed _ e => .ok { s with handed := s.handed ++ [e] }
  | .drop _ proto next more dead =>
    if dead != s.dead then .error "ring-dead"
    else match s.q with
      | [] => if more || next != 0 then .error "ring-fifo" else .ok s
      | _ :: rest =>
        if more != !rest.isEmpty then .error "ring-fifo"
        else if more && next != rest.headD 0 then .error "ring-fifo"   -- next is the new head: push order
        else .ok { s with q := rest, workers := if proto && !more then s.workers - 1 else s.workers }
  | .die _ => .ok { s with dead := true }
  | .empty _ b => if b != s.q.isEmpty then .error "ring-empty" else .ok s

/-- (worker accounting applies to pure-protocol programs only: a raw dropPeek by a non-worker breaks the usage
    protocol on purpose, to exercise the code outside it)

    replay; at the end of a completed run: a thread may remain blocked only while the ring is full and alive;
    and for pure-protocol programs (no raw calls) everything accepted has been handed, once, in order, the queue
    is empty and no worker remains. -/
def ringSpec (maxLen : Int) (pureProtocol : Bool) (evs : List REv) (blocked : List Nat) : Option String :=
  let rec go : List REv → RSt → Except String RSt
    | [], s => .ok s
    | e :: r, s => match ringStep maxLen pureProtocol s e with
      | .ok s' => go r s'
      | .error k => .error k
  match go evs {} with
  | .error k => some k
  | .ok s =>
    if !blocked.isEmpty && !(decide (maxLen > 0) && decide ((s.q.length : Int) ≥ maxLen) && !s.dead) then some "ring-stuck-pusher"
    else if pureProtocol && !blocked.isEmpty then some "ring-stuck-pusher"
    else if pureProtocol && s.handed != s.accepted then some "ring-exactly-once"
    else if pureProtocol && (!s.q.isEmpty || s.workers != 0) then some "ring-stranded"
    else none

end Spec.C30
