import FranzVerif.Model.C32
/-! C32 — the property as an executable predicate over what a raw protocol client observes.

The Spec keeps a *ledger*: per partition the log implied by the implementation's own answers (a data
entry for every produce it accepted, at the offset it answered; a marker for every transaction it
ended), the open transactions, the abstract "last five batches" windows of C29, and what each fetch
session's client has been told. It never looks at kfake's bookkeeping (LSO counters, uncommitted map,
aborted index). After every step it is given the partition bounds the implementation reports.
Core Lean only (linked into the driver). -/
namespace Spec.C32
open Model.C32

structure Bounds where
  ls : Int
  lso : Int
  hwm : Int
deriving Repr, DecidableEq, Inhabited

structure SProd where
  inited : Bool := false
  timeout : Int := 0
  started : Option Int := none
  reg : List Nat := []                  -- partitions of the running transaction (a marker goes to each)
  opens : List (Nat × Int) := []        -- partition ↦ first offset of this transaction's data there
  wins : List (Nat × Model.C29.Spec) := []
deriving Repr

structure SView where
  p : Nat
  off : Int
  pmax : Int
  known : Bool
  b : Bounds
deriving Repr

structure SSess where
  id : Int
  views : List SView
  broker : Nat := 0
deriving Repr

structure SSt where
  now : Int := 0
  logs : List (List Batch) := []
  bounds : List Bounds := []
  prods : List (Int × SProd) := []
  sess : List SSess := []
  closed : List (Int × Nat) := []   -- (session id, broker): sessions the client closed or replaced
  via : Nat := 0          -- the broker the client talks to (sessions live on one broker)
deriving Repr

def sinit (np : Nat) : SSt := { logs := List.replicate np [], bounds := List.replicate np ⟨0, 0, 0⟩ }

def ledgerEnd (log : List Batch) : Int := match log.getLast? with | none => 0 | some b => b.first + b.n

def gp (st : SSt) (k : Int) : SProd := (st.prods.lookup k).getD {}
def sp (st : SSt) (k : Int) (p : SProd) : SSt :=
  if (st.prods.lookup k).isSome then { st with prods := st.prods.map (fun e => if e.1 == k then (k, p) else e) }
  else { st with prods := st.prods ++ [(k, p)] }
def gwin (p : SProd) (part : Nat) : Model.C29.Spec := (p.wins.lookup part).getD {}
def swin (p : SProd) (part : Nat) (w : Model.C29.Spec) : SProd :=
  if (p.wins.lookup part).isSome then { p with wins := p.wins.map (fun e => if e.1 == part then (part, w) else e) }
  else { p with wins := p.wins ++ [(part, w)] }

def addReg (p : SProd) (now : Int) (ps : List Nat) : SProd :=
  { p with reg := ps.foldl (fun acc q => if acc.contains q then acc else acc ++ [q]) p.reg,
           started := match p.started with | some t => some t | none => some now }

/-- End the running transactions of the producers `ks` (in this order): one marker on every registered
partition, appended to the ledger at consecutive offsets. -/
def closeTx (st : SSt) (ks : List Int) (commit : Bool) : SSt :=
  let logs := (List.range st.logs.length).map (fun q =>
    let log := st.logs.getD q []
    ks.foldl (fun (lg : List Batch) k =>
      if (gp st k).reg.contains q then lg ++ [⟨ledgerEnd lg, 1, k, 0, -1, true, true, commit, ctlBytes⟩] else lg) log)
  ks.foldl (fun s k => sp s k { gp s k with started := none, reg := [], opens := [] }) { st with logs := logs }

/-- first offsets of the open transactions on partition `q`. -/
def openFirsts (st : SSt) (q : Nat) : List Int :=
  st.prods.flatMap (fun e => (e.2.opens.filter (fun o => o.1 == q)).map (·.2))

def minList (d : Int) : List Int → Int
  | [] => d
  | x :: r => if x < minList d r then x else minList d r

/-- The bounds sentence of the property, for one partition: offsets are contiguous (the high watermark
is the end of the ledger), LSO ≤ HWM, LSO = first offset of the earliest open transaction (HWM if none). -/
def boundsKey (st : SSt) (q : Nat) (b : Bounds) : Option String :=
  let log := st.logs.getD q []
  if b.hwm != ledgerEnd log then some "hwm-not-contiguous"
  else if b.lso > b.hwm then some "lso-gt-hwm"
  else if b.lso != minList b.hwm (openFirsts st q) then some "lso-wrong"
  else if b.ls > b.hwm || b.ls < 0 then some "logstart-range"
  else none

def firstSome : List (Option String) → Option String
  | [] => none
  | some k :: _ => some k
  | none :: r => firstSome r

def sameBatch (a e : Batch) : Bool :=
  a.first == e.first && a.n == e.n && a.pid == e.pid && a.txn == e.txn && a.ctl == e.ctl &&
  (if e.ctl then a.commit == e.commit else a.epoch == e.epoch && a.seq == e.seq && a.nbytes == e.nbytes)

def sameBatches : List Batch → List Batch → Bool
  | [], [] => true
  | a :: r, e :: s => sameBatch a e && sameBatches r s
  | _, _ => false

/-- One partition of a fetch response against the ledger. `first` = this partition is the first of the
request (Kafka's "at least one batch" guarantee applies). -/
def fetchPartKey (st : SSt) (rc : Bool) (off : Int) (first : Bool) (r : PResp) : Option String :=
  match st.logs[r.p]?, st.bounds[r.p]? with
  | some log, some b =>
    if r.code == 1 then (if off < b.ls || off > b.hwm then none else some "fetch-range")
    else if r.code != 0 then none
    else if off < b.ls || off > b.hwm then some "fetch-range"
    else if r.hwm != b.hwm || r.lso != b.lso || r.logStart != b.ls then some "fetch-bounds"
    else
      let suffix := log.dropWhile (fun m => m.first + m.n ≤ off)
      let limit := if rc then b.lso else b.hwm
      match r.batches with
      | [] =>
        if !r.aborted.isEmpty then some "aborted-without-data"
        else match suffix with
          | [] => none
          | m :: _ => if first && m.first < limit then some "fetch-empty" else none
      | _ =>
        let expect := suffix.take r.batches.length
        if !sameBatches r.batches expect then some "fetch-content"
        else if rc && r.batches.any (fun m => m.first ≥ b.lso) then some "beyond-lso"
        else if rc && clientView r.aborted r.batches != committedData expect (suffix.drop r.batches.length) then some "read-committed"
        else if !rc && !r.aborted.isEmpty then some "aborted-in-read-uncommitted"
        else none
  | _, _ => none

/-- expiring producers at time `now`, earliest expiry first. -/
def expiring (st : SSt) : List Int :=
  let c := st.prods.filterMap (fun e => match e.2.started with
    | some t => if t + e.2.timeout ≤ st.now then some (t + e.2.timeout, e.1) else none
    | none => none)
  let sorted := c.foldl (fun (acc : List (Int × Int)) x => (acc.filter (fun y => y.1 ≤ x.1)) ++ [x] ++ (acc.filter (fun y => !(y.1 ≤ x.1)))) []
  sorted.map (·.2)

/-- session bookkeeping of the client side. -/
def viewUpdate (views : List SView) (r : FReq) : List SView :=
  if views.any (fun v => v.p == r.p) then views.map (fun v => if v.p == r.p then { v with off := r.off, pmax := r.pmax } else v)
  else views ++ [⟨r.p, r.off, r.pmax, false, default⟩]

def viewSeen (views : List SView) (resp : List PResp) : List SView :=
  views.map (fun v => match resp.find? (fun r => r.p == v.p) with
    | none => v
    | some r => if r.code != 0 then { v with known := false } else { v with known := true, b := ⟨r.logStart, r.lso, r.hwm⟩ })

/-- "an incremental fetch returns every partition whose data or bounds changed": a session partition that
is missing from the answer must have the bounds the client was last told and nothing to read at its offset. -/
def sessionKey (st : SSt) (rc : Bool) (views : List SView) (resp : List PResp) : Option String :=
  firstSome (views.map (fun v =>
    if resp.any (fun r => r.p == v.p) then none
    else match st.bounds[v.p]?, st.logs[v.p]? with
      | some b, some log =>
        if !v.known then some "session-omits-unreported"
        else if v.b.hwm != b.hwm || v.b.ls != b.ls then some "session-omits-bounds-change"
        else if rc && v.b.lso != b.lso then some "session-omits-lso-change"
        else if v.off < b.ls || v.off > b.hwm then some "session-omits-error"
        else match log.dropWhile (fun m => m.first + m.n ≤ v.off) with
          | [] => none
          | m :: _ => if m.first < (if rc then b.lso else b.hwm) && m.nbytes ≤ v.pmax then some "session-omits-data" else none
      | _, _ => some "session-omits-unknown-partition"))

/-- bytes of everything readable from the session partitions' fetch offsets (an upper bound of what a fetch looks at). -/
def availBytes (st : SSt) (rc : Bool) (views : List SView) : Int :=
  views.foldl (fun acc v =>
    match st.bounds[v.p]?, st.logs[v.p]? with
    | some b, some log =>
      acc + ((log.dropWhile (fun m => m.first + m.n ≤ v.off)).filter (fun m => m.first < (if rc then b.lso else b.hwm))).foldl (fun a m => a + m.nbytes) 0
    | _, _ => acc) 0

/-- One step: the operation, what the implementation answered, the bounds it reports afterwards.
Returns the new ledger and the key of the violated clause, if any. -/
def specStep (st : SSt) (op : Op) (out : Out) (nb : List Bounds) : SSt × Option String :=
  let np := st.logs.length
  let unchanged := decide (nb = st.bounds)
  let (st1, key) : SSt × Option String :=
    match op, out with
    | .initx k t, .codeVal code _ =>
      if code != 0 then (st, none)
      else
        let p := gp st k
        if p.started.isSome && unchanged then
          -- Kafka: InitProducerID of a transactional id with a running transaction aborts that transaction
          (sp st k { p with inited := true }, some "init-keeps-open-txn")
        else if p.started.isSome then (closeTx st [k] false, none)
        else (sp st k { p with inited := true, timeout := if p.inited then p.timeout else t }, none)
    | .initr k _, .codeVal code _ =>
      if code != 0 then (st, none)
      else if (gp st k).started.isSome then (closeTx st [k] false, none) else (st, none)
    | .addp k _ ps, .addp r =>
      if r.all (fun e => e.2 == 0) && !r.isEmpty then (sp st k (addReg (gp st k) st.now ps), none) else (st, none)
    | .prod v12 k epoch seq n nbytes q tx, .prod code base _ =>
      if q ≥ np || code == 6 then (st, none) else   -- unknown partition / not the leader: the request never reached the log
      let log := st.logs.getD q []
      -- registration mirrored from KIP-890: a v12+ transactional produce adds the partition to the transaction
      let st0 := if v12 && tx && k ≥ 0 && (gp st k).inited then sp st k (addReg (gp st k) st.now [q]) else st
      let p := gp st0 k
      let b : Batch := ⟨base, n, k, epoch, seq, tx, false, false, nbytes⟩
      let append (s : SSt) : SSt := { s with logs := s.logs.set q (log ++ [b]) }
      if k < 0 then
        if code != 0 then (st0, none)
        else if base != ledgerEnd log then (append st0, some "offset-not-hwm")
        else (append st0, none)
      else
        let w := gwin p q
        let nx := Model.C29.next seq n
        let ms := if w.seen && epoch == w.epoch then w.recent.filter (fun e => e.first == seq && e.nxt == nx) else []
        if code == 45 then (st0, if ms.isEmpty then none else some "retry-rejected")
        else if code != 0 then (st0, none)
        else if !ms.isEmpty then
          -- a retried batch: original offset, nothing appended
          if !ms.any (fun e => e.offset == base) then (st0, some "dup-offset")
          else if !unchanged then (st0, some "dup-appended")
          else (st0, none)
        else
          let okSeq := w.allows epoch seq n .accept
          let p1 := swin p q (w.step epoch seq n base .accept)
          let p2 := if tx && !(p1.opens.any (fun o => o.1 == q)) then { p1 with opens := p1.opens ++ [(q, base)] } else p1
          let s1 := append (sp st0 k p2)
          if base != ledgerEnd log then (s1, some "offset-not-hwm")
          else if !okSeq then (s1, some "sequence-accepted-out-of-order")
          else (s1, none)
    | .endt _ k _ commit, .codeVal code _ =>
      if code != 0 then (st, none)
      else
        let p := gp st k
        if p.started.isSome || !p.opens.isEmpty then (closeTx st [k] commit, none) else (st, none)
    | .del _ _, .codeVal _ _ => (st, none)
    | .move _ _, .ok => (st, none)
    | .via b, .ok => ({ st with via := b }, none)
    | .sleep ms, .ok =>
      let s1 := { st with now := st.now + ms }
      (closeTx s1 (expiring s1) false, none)
    | .fetch f _, .fetch el _ _ _ =>
      -- a fetch may wait (MinBytes): at most MaxWait, and only if fewer than MinBytes were readable when it arrived;
      -- transactions that time out meanwhile are aborted
      let views := match st.sess.find? (fun s => s.id == f.sid) with
        | some se => if f.sepoch > 0 then f.req.foldl viewUpdate (se.views.filter (fun v => !f.forget.contains v.p)) else f.req.foldl viewUpdate []
        | none => f.req.foldl viewUpdate []
      let wkey : Option String :=
        if el < 0 || el > f.maxWait then some "fetch-wait-exceeded"
        else if el > 0 && availBytes st f.rc views ≥ f.minBytes then some "fetch-waited-with-data"
        else none
      let s1 := { st with now := st.now + el }
      (closeTx s1 (expiring s1) false, wkey)
    | _, _ => (st, some "answer-shape")
  -- log start: moves only by an acknowledged DeleteRecords, to the requested offset
  let lsKey : Option String := firstSome ((List.range np).map (fun q =>
    match st.bounds[q]?, nb[q]? with
    | some b0, some b1 =>
      let want := match op, out with
        | .del p off, .codeVal 0 _ => if p == q then (if off == -1 then b0.hwm else off) else b0.ls
        | _, _ => b0.ls
      if b1.ls != want then some "logstart" else none
    | _, _ => some "bounds-missing"))
  let bKey := firstSome ((List.range np).map (fun q => match nb[q]? with
    | some b => boundsKey st1 q b
    | none => some "bounds-missing"))
  let st2 := { st1 with bounds := nb }
  -- fetch clauses (evaluated against the bounds before = after)
  let (st3, fKey) : SSt × Option String :=
    match op, out with
    | .fetch f _, .fetch _ err sid ps =>
      if err != 0 then (st2, none) else
      let offOf (views : List SView) (p : Nat) : Int :=
        match f.req.find? (fun r => r.p == p) with
        | some r => r.off
        | none => match views.find? (fun v => v.p == p) with | some v => v.off | none => 0
      let firstP : Option Nat := f.req.head?.map (·.p)
      if f.sepoch == -1 then
        ({ st2 with sess := if f.sid > 0 then st2.sess.filter (fun s => !(s.id == f.sid && s.broker == st2.via)) else st2.sess,
                    closed := if f.sid > 0 && st2.sess.any (fun s => s.id == f.sid && s.broker == st2.via) then (f.sid, st2.via) :: st2.closed else st2.closed },
         firstSome (ps.map (fun r => fetchPartKey st2 f.rc (offOf [] r.p) (firstP == some r.p) r)))
      else if f.sepoch == 0 then
        let views := viewSeen (f.req.foldl viewUpdate []) ps
        let sess0 := if f.sid > 0 then st2.sess.filter (fun s => !(s.id == f.sid && s.broker == st2.via)) else st2.sess
        ({ st2 with sess := sess0 ++ [⟨sid, views, st2.via⟩],
                    closed := if f.sid > 0 && st2.sess.any (fun s => s.id == f.sid && s.broker == st2.via) then (f.sid, st2.via) :: st2.closed else st2.closed },
         firstSome (ps.map (fun r => fetchPartKey st2 f.rc (offOf [] r.p) (firstP == some r.p) r)))
      else
        match st2.sess.find? (fun s => s.id == f.sid) with
        -- a session id the client closed or replaced must be refused. An id that was never handed to the client is not
        -- judged: a fetch that waits for MinBytes is handled twice by kfake and opens a session each time, the first
        -- of which nobody is told about (it stays acceptable to whoever guesses its id; seen in sweep seed 23) -- the
        -- property speaks about what a session returns, not about which ids exist
        | none => (st2, if st2.closed.contains (f.sid, st2.via) then some "session-closed-accepted" else none)
        | some se =>
          let views0 := (se.views.filter (fun v => !f.forget.contains v.p))
          let views1 := f.req.foldl viewUpdate views0
          let k1 := firstSome (ps.map (fun r => fetchPartKey st2 f.rc (offOf views1 r.p) (firstP == some r.p) r))
          -- completeness is judged whenever the request-level byte limit cannot have cut the response: kfake stops
          -- at a partition only when the bytes of the batches it has looked at exceed MaxBytes, and it looks at
          -- nothing but the readable batches from each session partition's fetch offset on
          let k2 := if availBytes st2 f.rc views1 ≤ f.maxBytes then sessionKey st2 f.rc views1 ps else none
          let views2 := viewSeen views1 ps
          ({ st2 with sess := st2.sess.map (fun s => if s.id == se.id then ⟨se.id, views2, se.broker⟩ else s) },
           match k1 with | some k => some k | none => k2)
    | _, _ => (st2, none)
  (st3, firstSome [key, lsKey, bKey, fKey])

end Spec.C32
