/-! C28 — executable Spec: what the property text promises, written from the external references
(Apache Kafka's Java client, Sarama) and from the text, *without* looking at the Go code and
without importing the model.  Core Lean only (linked into the driver).

Transcriptions are from memory of the upstream sources (the sandbox has no network); they are
part of the trusted base and are marked as such in the MANIFEST.

Java `int` values are represented by their residue in `[0, 2^32)` (the `int` itself is `toInt32` of
the residue): `*`, `+`, `<<` are arithmetic modulo 2^32, `^` is bitwise xor of the residues, and the
unsigned shift `>>>` is division of the residue by a power of two.  All of it is plain `Nat`
arithmetic with explicit `% 4294967296`; no `BitVec` is used on this side. -/
namespace Spec.C28

/-! ## Java `Utils.murmur2` -/

/-- The Java `byte` stored for an octet (bytes are signed in Java). -/
def jbyte (b : UInt8) : Int := if b.toNat < 128 then (b.toNat : Int) else (b.toNat : Int) - 256

/-- `x & 0xff` for an `int` x: the low eight bits. -/
def and255 (x : Int) : Nat := (x % 256).toNat

def jmul (a b : Nat) : Nat := (a * b) % 4294967296
def jadd (a b : Nat) : Nat := (a + b) % 4294967296
def jshl (a k : Nat) : Nat := (a * 2 ^ k) % 4294967296
def jushr (a r : Nat) : Nat := a / 2 ^ r
def jxor (a b : Nat) : Nat := a ^^^ b

/-- `seed = 0x9747b28c`, `m = 0x5bd1e995`, `r = 24`. -/
def jseed : Nat := 2538058380
def jm : Nat := 1540483477

/-- `data[i] & 0xff` (indices used below are always inside the array). -/
def byteAt (data : List UInt8) (i : Nat) : Nat := and255 (jbyte (data.getD i 0))

/-- the body of `for (int i = 0; i < length4; i++) { … }`: the new `h`. -/
def stepJ (data : List UInt8) (h i : Nat) : Nat :=
  let i4 := i * 4
  let k := jadd (jadd (jadd (byteAt data (i4 + 0)) (jshl (byteAt data (i4 + 1)) 8))
                      (jshl (byteAt data (i4 + 2)) 16)) (jshl (byteAt data (i4 + 3)) 24)
  let k := jmul k jm
  let k := jxor k (jushr k 24)
  let k := jmul k jm
  let h := jmul h jm
  jxor h k

/-- `for (int i = 0; i < length4; i++)` -/
def loopJ (data : List UInt8) (length4 : Nat) (h : Nat) : Nat :=
  (List.range length4).foldl (stepJ data) h

/-- `Utils.murmur2(byte[] data)` as the residue of the returned `int`.  `length % 4294967296` is the
array length as a Java int; it is the identity for every array Java can hold (length ≤ 2^31 − 1). -/
def murmur2U (data : List UInt8) : Nat :=
  let length := data.length
  let h := jxor jseed (length % 4294967296)
  let length4 := length / 4
  let h := loopJ data length4 h
  let base := length - length % 4            -- `length & ~3`
  let h :=
    match length % 4 with
    | 3 =>
      let h := jxor h (jshl (byteAt data (base + 2)) 16)
      let h := jxor h (jshl (byteAt data (base + 1)) 8)
      let h := jxor h (byteAt data base)
      jmul h jm
    | 2 =>
      let h := jxor h (jshl (byteAt data (base + 1)) 8)
      let h := jxor h (byteAt data base)
      jmul h jm
    | 1 =>
      let h := jxor h (byteAt data base)
      jmul h jm
    | _ => h
  let h := jxor h (jushr h 13)
  let h := jmul h jm
  jxor h (jushr h 15)

/-- the `int` whose two's complement residue is `u`. -/
def toInt32 (u : Nat) : Int := if u < 2147483648 then (u : Int) else (u : Int) - 4294967296

/-- `Utils.murmur2` as a Java `int`. -/
def murmur2Java (data : List UInt8) : Int := toInt32 (murmur2U data)

/-- `Utils.toPositive(number) = number & 0x7fffffff`: clearing the sign bit of a two's complement
int is reduction modulo 2^31. -/
def toPositive (x : Int) : Int := x % 2147483648

/-- The Java producer's choice for a keyed record:
`Utils.toPositive(Utils.murmur2(keyBytes)) % numPartitions`. -/
def kafkaPartition (key : List UInt8) (n : Int) : Int := toPositive (murmur2Java key) % n

/-- Kafka's post-processing of an arbitrary 32-bit hash. -/
def kafkaOfHash (hash : Nat) (n : Int) : Int := toPositive (toInt32 hash) % n

/-! ## Sarama's hash partitioner (`referenceAbs = false`)

    partition = int32(hasher.Sum32()) % numPartitions; if partition < 0 { partition = -partition }

Go's `%` truncates, so the result is `|int32(hash)| mod numPartitions`. -/
def saramaPartition (hash : Nat) (n : Int) : Int :=
  let s := toInt32 hash
  (if s < 0 then -s else s) % n

/-- The other ecosystems' "consistent" partitioner the text names for `SaramaHasher` on 64-bit
platforms (librdkafka): the unsigned hash modulo n. -/
def unsignedPartition (hash : Nat) (n : Int) : Int := (hash : Int) % n

/-- FNV-1a, 32 bit (hash/fnv `New32a`): offset basis 2166136261, prime 16777619. -/
def fnv1a32 (data : List UInt8) : Nat :=
  data.foldl (fun h b => ((h ^^^ b.toNat) * 16777619) % 4294967296) 2166136261

/-! ## Observable behaviour of a partitioner -/

def inRange (n p : Int) : Bool := decide (0 ≤ p) && decide (p < n)

/-- What a keyed record's partition must be, when the property fixes it. -/
inductive KeyRule where
  | kafkaDefault          -- default hasher: the Java client's choice
  | saramaFnv             -- SaramaCompatHasher(fnv32a): Sarama's choice
  | unsignedFnv           -- SaramaHasher(fnv32a) on a 64-bit platform
  | consistentOnly        -- only "equal keys, equal n ⇒ equal partition"
deriving DecidableEq, Repr

/-- One observed call: key (none = nil key, or the partitioner ignores keys), n, returned index. -/
structure Obs where
  key : Option (List UInt8)
  n : Int
  pick : Int
deriving DecidableEq, Repr

/-- The property on one observation given the earlier ones of the same topic partitioner:
index in `[0,n)`; same key and same n as an earlier record ⇒ same index; and the named formula. -/
def obsOk (rule : KeyRule) (earlier : List Obs) (o : Obs) : Bool :=
  inRange o.n o.pick &&
  (match o.key with
   | none => true
   | some k =>
     earlier.all (fun e => !(e.key == some k && e.n == o.n) || e.pick == o.pick) &&
     (match rule with
      | .kafkaDefault => o.pick == kafkaPartition k o.n
      | .saramaFnv => o.pick == saramaPartition (fnv1a32 k) o.n
      | .unsignedFnv => o.pick == unsignedPartition (fnv1a32 k) o.n
      | .consistentOnly => true))

/-- The property on a whole trace of one topic partitioner. -/
def traceOk (rule : KeyRule) : List Obs → List Obs → Bool
  | _, [] => true
  | earlier, o :: rest => obsOk rule earlier o && traceOk rule (o :: earlier) rest

/-- doPartition: a record whose pick is outside `[0,len)` must be failed, one inside must not be
failed for that reason. `rejected` is what the producer did. -/
def rejectOk (len pick : Int) (rejected : Bool) : Bool := rejected == !(inRange len pick)

/-! ## The client-side choice of the partition (records produced through a client)

A topic has `nAll` partitions `0 … nAll-1`; at any moment only some of them have a leader (`writable`).
The property text: *records with equal keys go to the same partition* — with no exception for the
moments in which some partition is leaderless — and the default hasher picks *the partition the Java
client picks*, which is computed over all `numPartitions` of the topic. -/

/-- the named formula holds for `pick` (nothing to check for `consistentOnly`). -/
def ruleHolds (rule : KeyRule) (k : List UInt8) (n pick : Int) : Bool :=
  match rule with
  | .kafkaDefault => pick == kafkaPartition k n
  | .saramaFnv => pick == saramaPartition (fnv1a32 k) n
  | .unsignedFnv => pick == unsignedPartition (fnv1a32 k) n
  | .consistentOnly => true

/-- One record observed through a producing client: the key the partitioner hashes (`none`: nil key, or a
partitioner that ignores keys), the number of partitions of the topic, the partition numbers that had a
leader when the record was produced, and the partition number the record was buffered on. -/
structure SelObs where
  key : Option (List UInt8)
  nAll : Int
  writable : List Int
  part : Int
deriving DecidableEq, Repr

/-- keyed part of the property on one produced record, given the earlier ones of the same topic:
same key and same partition count ⇒ same partition, *whatever the writable sets were*; and the formula. -/
def selKeyedOk (rule : KeyRule) (earlier : List SelObs) (k : List UInt8) (o : SelObs) : Bool :=
  earlier.all (fun e => !(e.key == some k && e.nAll == o.nAll) || e.part == o.part) &&
  ruleHolds rule k o.nAll o.part

/-- The property on one produced record: a partition of the topic; keyed: `selKeyedOk`; unkeyed: a
partition that can be written to whenever there is one (the documented reason for `RequiresConsistency`
being false: "a record may hash to a partition that cannot be written to" only when it is true). -/
def selOk (rule : KeyRule) (earlier : List SelObs) (o : SelObs) : Bool :=
  inRange o.nAll o.part &&
  (match o.key with
   | none => o.writable.isEmpty || o.writable.contains o.part
   | some k => selKeyedOk rule earlier k o)

/-- stable name of a `selOk` failure. -/
def selFailKey (rule : KeyRule) (earlier : List SelObs) (o : SelObs) : String :=
  if !(inRange o.nAll o.part) then "partition-out-of-range"
  else match o.key with
    | none => "unkeyed-record-on-leaderless-partition"
    | some k =>
      if (o.writable.length : Int) ≠ o.nAll ||
         earlier.any (fun e => e.key == some k && e.nAll == o.nAll && e.part != o.part && e.writable != o.writable)
      then "keyed-record-partition-depends-on-writable-set"
      else if !(ruleHolds rule k o.nAll o.part) then "keyed-pick" else "keyed-pick-unstable"

/-- `ManualPartitioner`: the record goes to the partition number it names (`out = some part`), or is failed
(`out = none`) exactly when that number is not a partition of the topic. -/
def manualSelOk (nAll rpart : Int) (out : Option Int) : Bool :=
  match out with
  | some part => inRange nAll rpart && part == rpart
  | none => !(inRange nAll rpart)

/-- `RequiresConsistency(r)` as the interface documents it ("true if a record must hash to the same
partition even if a partition is down"): a partitioner that maps this record by its key (or, for the
basic consistent partitioners, by the record alone) must answer true; otherwise any answer is allowed. -/
def rcOk (mustBeConsistent : Bool) (answer : Bool) : Bool := !mustBeConsistent || answer

end Spec.C28
