import FranzVerif.Model.C36
/-! C36 — executable Spec: the Confluent schema-registry wire format, written from the property text and
the Confluent documentation it refers to, independently of the model of the Go code (only the outcome
types `Out`/`Err`/`Bytes` and the registration record `RegOp` are shared):

  magic byte 0 · schema id as big-endian uint32 · [protobuf only] message-index path:
  a lone byte 0 for the path [0], otherwise the path length followed by the entries, each a zig-zag
  varint (protobuf signed varint: base-128 little-endian groups, high bit = continuation, at most ten
  bytes for 64 bits) · payload.

The predicates below judge *observable* results (bytes written, values/errors returned, panics). -/
namespace Spec.C36
open Model.C36 (Bytes Out Err RegOp)

/-- base-128 little-endian groups, high bit set on all but the last. -/
def leb (n : Nat) : Bytes :=
  if n < 128 then [UInt8.ofNat n] else UInt8.ofNat (n % 128 + 128) :: leb (n / 128)
termination_by n
decreasing_by omega

/-- protobuf zig-zag: 0,-1,1,-2,… ↦ 0,1,2,3,… -/
def zz (v : Int) : Nat := if 0 ≤ v then (2 * v).toNat else (2 * (-v) - 1).toNat

def wireVarint (v : Int) : Bytes := leb (zz v)

def be32 (n : Nat) : Bytes :=
  [UInt8.ofNat (n / 16777216 % 256), UInt8.ofNat (n / 65536 % 256), UInt8.ofNat (n / 256 % 256), UInt8.ofNat (n % 256)]

def wireIndex : List Int → Bytes
  | [] => []
  | [0] => [0]
  | index => wireVarint index.length ++ index.flatMap wireVarint

/-- The header for schema id `id` (0 ≤ id < 2^32) and message-index path `index`. -/
def wireHeader (id : Int) (index : List Int) : Bytes := 0 :: be32 id.toNat ++ wireIndex index

/-! Reading the format back (the Spec's own reader; values are sums, not shifts). -/

/-- one base-128 value of at most ten groups that fits 64 bits; `i` = groups already read. -/
def parseLeb (i : Nat) : Bytes → Option (Nat × Bytes)
  | [] => none
  | c :: rest =>
    if c.toNat < 128 then (if i = 9 ∧ c.toNat > 1 then none else some (c.toNat, rest))
    else if i ≥ 9 then none
    else match parseLeb (i + 1) rest with
      | none => none
      | some (v, r) => some (c.toNat - 128 + 128 * v, r)

def unzz (u : Nat) : Int := if u % 2 = 0 then ((u / 2 : Nat) : Int) else -(((u + 1) / 2 : Nat) : Int)

def parseVarint (b : Bytes) : Option (Int × Bytes) :=
  match parseLeb 0 b with
  | none => none
  | some (u, r) => some (unzz u, r)

def parseMany : Nat → Bytes → Option (List Int × Bytes)
  | 0, b => some ([], b)
  | n + 1, b =>
    match parseVarint b with
    | none => none
    | some (v, r) =>
      match parseMany n r with
      | none => none
      | some (vs, r') => some (v :: vs, r')

/-- A message-index path at the front of `b` (`none` = malformed: truncated, overlong varint, negative count). -/
def parseIndex (b : Bytes) : Option (List Int × Bytes) :=
  match parseVarint b with
  | none => none
  | some (l, r) => if l = 0 then some ([0], r) else if l < 0 then none else parseMany l.toNat r

/-- What `DecodeID b` may answer: never a panic; a value only if `b` is magic 0, that id big-endian, rest;
an error only if `b` is shorter than five bytes or does not start with the magic byte. -/
def decodeIDAllowed (b : Bytes) : Out (Int × Bytes) → Bool
  | .panic => false
  | .ok (id, rest) => decide (0 ≤ id ∧ id < 4294967296) && b == 0 :: be32 id.toNat ++ rest
  | .err _ => decide (b.length < 5) || b.head? != some 0

/-- What `DecodeIndex b maxLength` may answer: never a panic; a value only if it is the path at the front
of `b` and the rest, within `maxLength` when that is positive; an error only if `b` is malformed or the
path is longer than a positive `maxLength`. -/
def decodeIndexAllowed (b : Bytes) (maxLength : Int) : Out (List Int × Bytes) → Bool
  | .panic => false
  | .ok r => parseIndex b == some r && (decide (maxLength ≤ 0) || decide ((r.1.length : Int) ≤ maxLength))
  | .err _ =>
    match parseIndex b with
    | none => true
    | some r => decide (maxLength > 0) && decide ((r.1.length : Int) > maxLength)

/-! Serde level. The registrations made so far are the Spec state (newest last). -/

def samePath (a b : RegOp) : Bool := a.id == b.id && a.index == b.index

/-- newest registration of a type. -/
def latestOf (h : List RegOp) (ty : Nat) : Option RegOp := h.reverse.find? (·.ty == ty)

/-- the registration currently holding `(id, index)`. -/
def holder (h : List RegOp) (id : Int) (index : List Int) : Option RegOp :=
  h.reverse.find? (fun o => o.id == id && o.index == index)

/-- Every id is registered either with or without message indexes (protobuf or not), never both. -/
def consistent (h : List RegOp) : Bool :=
  h.all fun a => h.all fun b => !(a.id == b.id && a.index.isEmpty && !b.index.isEmpty)

/-- Ids are schema ids (uint32) and index entries Go ints. -/
def validOp (o : RegOp) : Bool :=
  decide (0 ≤ o.id ∧ o.id < 4294967296) && o.index.all fun v => decide (-9223372036854775808 ≤ v ∧ v < 9223372036854775808)

/-- `Encode`: a value ⇒ it is prefix · header of the newest registration of the type · payload; an error ⇒
the type has no usable registration: never registered, newest registration without encoder, or one of
its registrations was displaced by a later registration of another type at the same `(id, index)`. -/
def encodeAllowed (h : List RegOp) (pre : Bytes) (ty : Nat) (payload : Bytes) : Out Bytes → Bool
  | .panic => false
  | .ok bytes =>
    match latestOf h ty with
    | some o => o.enc && bytes == pre ++ wireHeader o.id o.index ++ payload
    | none => false
  | .err _ =>
    match latestOf h ty with
    | none => true
    | some o => !o.enc ||
        (h.zipIdx.any fun (a, i) => a.ty == ty && (h.drop (i + 1)).any fun b => b.ty != ty && samePath a b)

/-- `Decode`/`DecodeNew` of arbitrary bytes: never a panic; an answer `(tag, ty, rest)` only if the bytes
are magic · id · [path] · rest for a registration `(id, path)` whose newest holder has that decoder tag
and type and a decoder; malformed header or an id nobody registered ⇒ error. -/
def decodeAllowed (h : List RegOp) (b : Bytes) : Out (Nat × Nat × Bytes) → Bool
  | .panic => false
  | .ok (tag, ty, rest) =>
    match b with
    | 0 :: a :: b' :: c :: d :: body =>
      let id : Int := (a.toNat * 16777216 + b'.toNat * 65536 + c.toNat * 256 + d.toNat : Nat)
      h.any fun o => o.id == id && o.tag == tag && o.ty == ty && o.dec &&
        (holder h o.id o.index).any (fun w => w.tag == tag && w.ty == ty) &&
        (if o.index.isEmpty then body == rest else parseIndex body == some (o.index, rest))
    | _ => false
  | .err _ => true

/-- Error is *required* (an `ok` answer would be wrong) when the header is malformed or the id unknown. -/
def decodeMustErr (h : List RegOp) (b : Bytes) : Bool :=
  match b with
  | 0 :: a :: b' :: c :: d :: _ =>
    let id : Int := (a.toNat * 16777216 + b'.toNat * 65536 + c.toNat * 256 + d.toNat : Nat)
    !(h.any fun o => o.id == id)
  | _ => true

/-- Round trip: what decoding the output of a successful `Encode ty payload` must give when the
registrations are consistent and valid: the decoder of the newest registration of `ty` with the payload. -/
def roundTripAllowed (h : List RegOp) (ty : Nat) (payload : Bytes) (out : Out (Nat × Nat × Bytes)) : Bool :=
  match latestOf h ty with
  | none => true
  | some o =>
    if o.dec then out == .ok (o.tag, ty, payload) else out.isErr

end Spec.C36
