import FranzVerif.Model.C20
/-! C20 — executable Spec, written from the property text, independent of the reader model.

"A RecordReader with the same layout reads back, record by record, the stream a RecordFormatter wrote.  It
recovers topic, key, value, headers, partition, offset, timestamp, leader epoch, producer ID and epoch, and
returns io.EOF exactly at the end of the stream."

`restrict L r` is what a reader with layout `L` can know of `r`: a fresh record in which exactly the fields
the layout mentions are copied from `r` (the timestamp at the millisecond precision of the layout language;
size verbs carry no field of their own).  `specStream` says the reader returned exactly these records, in
order, and then `io.EOF`.  Nothing here looks at bytes.

The hypotheses of the property ("any numeric field within the layout's width", "layouts from the size-prefixed
grammar") are the decidable predicates `RecOK`, `Fits`, `Unambiguous` (+ `Model.C20.WF`). -/
namespace Spec.C20
open Model.C20

/-- the record timestamp at millisecond precision (nanoseconds) -/
def msTrunc (ns : Int) : Int := Int.tdiv ns 1000000 * 1000000   -- truncation toward zero, as Go's `/`

def applyF (r : Rec) (acc : Rec) : FItem → Rec
  | .lit _ => acc
  | .num .partition _ => { acc with partition := r.partition }
  | .num .offset _ => { acc with offset := r.offset }
  | .num .leaderEpoch _ => { acc with leaderEpoch := r.leaderEpoch }
  | .num .timestamp _ => { acc with ts := r.ts.map msTrunc }
  | .num .producerId _ => { acc with producerId := r.producerId }
  | .num .producerEpoch _ => { acc with producerEpoch := r.producerEpoch }
  | .num _ _ => acc
  | .text .topic _ => { acc with topic := r.topic }
  | .text .key _ => { acc with key := r.key }
  | .text .value _ => { acc with value := r.value }

def restrictF (items : List FItem) (r : Rec) (acc : Rec) : Rec := items.foldl (applyF r) acc

/-- a header as far as the inner layout mentions its key / value -/
def restrictHdr (inner : List FItem) (h : Hdr) : Hdr :=
  let x := restrictF inner (hdrRec h) {}
  ⟨x.key, x.value⟩

def applyI (r : Rec) (acc : Rec) : Item → Rec
  | .flat i => applyF r acc i
  | .hdrs inner => { acc with headers := acc.headers ++ r.headers.map (restrictHdr inner) }

def restrictFrom (L : Layout) (r : Rec) (acc : Rec) : Rec := L.foldl (applyI r) acc

/-- `r` restricted to the fields `L` mentions -/
def restrict (L : Layout) (r : Rec) : Rec := restrictFrom L r {}

/-- The property's conclusion on an observed run of the reader over the formatter's stream: the records read
back are the records written (restricted to what the layout mentions), then `io.EOF`. -/
def specStream (L : Layout) (rs : List Rec) (out : List Rec × Term) : Bool :=
  out == (rs.map (restrict L), Term.eof)

/-! ## Hypotheses -/

/-- lengths are Go slice lengths -/
def lenOK (b : Bytes) : Bool := decide (b.length < 9223372036854775808)

/-- The record is a `kgo.Record`: numeric fields in the range of their Go types, the timestamp a time whose
`UnixNano` is defined (years 1678–2262), lengths below 2^63. -/
def RecOK (r : Rec) : Bool :=
  decide (-2147483648 ≤ r.partition) && decide (r.partition < 2147483648)
  && decide (-9223372036854775808 ≤ r.offset) && decide (r.offset < 9223372036854775808)
  && decide (-2147483648 ≤ r.leaderEpoch) && decide (r.leaderEpoch < 2147483648)
  && decide (-9223372036854775808 ≤ r.producerId) && decide (r.producerId < 9223372036854775808)
  && decide (-32768 ≤ r.producerEpoch) && decide (r.producerEpoch < 32768)
  && (match r.ts with
      | some ns => decide (-9223372036854775808 ≤ ns) && decide (ns < 9223372036854775808)
      | none => false)
  && lenOK r.topic && lenOK r.key && lenOK r.value
  && decide (r.headers.length < 9223372036854775808)
  && r.headers.all fun h => lenOK h.key && lenOK h.value

/-- width in bits of the Go type behind a numeric verb (`len` is an `int`) -/
def typeBits : NumField → Nat
  | .partition => 32 | .leaderEpoch => 32 | .producerEpoch => 16
  | _ => 64

/-- width in bits of a fixed-width number format -/
def fmtBits : NumFmt → Nat
  | .hex64 => 64 | .hex32 => 32 | .hex16 => 16 | .hex8 => 8 | .hex4 => 4
  | .big64 => 64 | .big32 => 32 | .big16 => 16
  | .little64 => 64 | .little32 => 32 | .little16 => 16
  | .byte => 8
  | .ascii => 0 | .bool => 0

/-- 2^width of a fixed-width number format -/
def fmtLim : NumFmt → Int
  | .hex64 => 18446744073709551616 | .hex32 => 4294967296 | .hex16 => 65536 | .hex8 => 256 | .hex4 => 16
  | .big64 => 18446744073709551616 | .big32 => 4294967296 | .big16 => 65536
  | .little64 => 18446744073709551616 | .little32 => 4294967296 | .little16 => 65536
  | .byte => 256
  | .ascii => 0 | .bool => 0

/-- "within the layout's width": a format at least as wide as the field's type carries every value (two's
complement); a narrower one carries the unsigned values below 2^width ("print the number in big endian uint32
format"); `{bool}` carries 0 and 1; `{ascii}` prints any number in full, so every value is within it. -/
def fitsNum (fld : NumField) (f : NumFmt) (n : Int) : Bool :=
  match f with
  | .ascii => true
  | .bool => n == 0 || n == 1
  | f => decide (typeBits fld ≤ fmtBits f) || (decide (0 ≤ n) && decide (n < fmtLim f))

def fitsF (r : Rec) : FItem → Bool
  | .num fld f => fitsNum fld f (numVal r fld)
  | _ => true

def fitsI (r : Rec) : Item → Bool
  | .flat i => fitsF r i
  | .hdrs inner => r.headers.all fun h => inner.all (fitsF (hdrRec h))

def Fits (L : Layout) (r : Rec) : Bool := L.all (fitsI r)

def isSign (c : UInt8) : Bool := c = 45 || c = 43

/-- an `{ascii}` number is directly followed by a literal whose first byte is neither a digit nor a sign -/
def unambF : List FItem → Bool
  | [] => true
  | .num _ .ascii :: rest =>
    (match rest with
     | .lit (c :: _) :: _ => !isDigit c && !isSign c
     | _ => false) && unambF rest
  | _ :: rest => unambF rest

def unambL : Layout → Bool
  | [] => true
  | .flat (.num _ .ascii) :: rest =>
    (match rest with
     | .flat (.lit (c :: _)) :: _ => !isDigit c && !isSign c
     | _ => false) && unambL rest
  | .hdrs inner :: rest => unambF inner && unambL rest
  | _ :: rest => unambL rest

def Unambiguous (L : Layout) : Bool := unambL L

/-! ## The two classes on which the full statement fails for the code as it is -/

def plainF : FItem → Bool
  | .text _ e => e == .plain
  | _ => true

def plainI : Item → Bool
  | .flat i => plainF i
  | .hdrs inner => inner.all plainF

/-- every sized text verb is `plain` (no `{hex}` / `{base64}`) -/
def PlainText (L : Layout) : Bool := L.all plainI

def nonNegF (r : Rec) : FItem → Bool
  | .num fld .ascii => decide (0 ≤ numVal r fld)
  | _ => true

def nonNegI (r : Rec) : Item → Bool
  | .flat i => nonNegF r i
  | .hdrs inner => r.headers.all fun h => inner.all (nonNegF (hdrRec h))

/-- every number printed with `{ascii}` is non-negative -/
def NonNegAscii (L : Layout) (r : Rec) : Bool := L.all (nonNegI r)

end Spec.C20
