import FranzVerif.Model.C12
/-! C12 — executable Spec of the pure half, written from the property text (only the data types
`Entry`/`Range` are shared with the model):

  "Acknowledgement batches sent for a partition are in ascending, non-overlapping offset order",
  every offset appears at most once, ack types are preserved, gaps are acknowledged as gaps;
  "each delivered record is acknowledged ... at most once with a final outcome".

Everything here is a `Bool` over observable values (inputs and the output range list / call results),
so the driver evaluates it on the implementation's outputs. -/
namespace Spec.C12
open Model.C12

def contains (r : Range) (o : Int) : Bool := decide (r.first ≤ o) && decide (o ≤ r.last)

/-- Ascending, non-overlapping, well-formed: every range is `first ≤ last` and ends strictly before
every later range starts. -/
def ascending : List Range → Bool
  | [] => true
  | r :: rs => decide (r.first ≤ r.last) && rs.all (fun r' => decide (r.last < r'.first)) && ascending rs

/-- Ack types the range list `rs` carries for offset `o` (one element per covering range). -/
def cov (rs : List Range) (o : Int) : List Int := (rs.filter (contains · o)).map (·.ty)

/-- Ack types the pending input asks for at offset `o`: decided user entries at `o`, gap ranges over `o`. -/
def covIn (es : List Entry) (gs : List Range) (o : Int) : List Int :=
  ((es.filter (fun e => e.status != 0 && e.offset == o)).map (·.status)) ++ cov gs o

/-- At offset `o`: at most one batch covers it, its type is one the input asked for, and an offset the
input asked for is covered. -/
def pointOK (es : List Entry) (gs out : List Range) (o : Int) : Bool :=
  decide ((cov out o).length ≤ 1) && (cov out o).all (fun t => (covIn es gs o).contains t)
    && ((covIn es gs o).isEmpty || !(cov out o).isEmpty)

/-- Coverage is piecewise constant in `o` and only changes at a `first` or a `last+1`: checking these
points (and nothing is covered below the smallest) checks every offset. -/
def breakpoints (es : List Entry) (gs out : List Range) : List Int :=
  es.map (·.offset) ++ es.map (·.offset + 1) ++ (gs ++ out).flatMap (fun r => [r.first, r.last + 1])

def coverageOK (es : List Entry) (gs out : List Range) : Bool :=
  (breakpoints es gs out).all (pointOK es gs out)

/-- `IsRenewAck` must be set exactly when a renew batch is in the request. -/
def renewOK (out : List Range) (hasRenew : Bool) : Bool := hasRenew == out.any (·.ty == 4)

/-- Inputs the client can hold for one partition: Kafka offsets, well-formed gap ranges of type gap (0) or release
(2) that may repeat or overlap (a requeued gap and the gap of a re-acquisition) as long as overlapping ones have the
same type, no decided user entry inside a gap range. -/
def agreeWith (g : Range) (gs : List Range) : Bool :=
  gs.all (fun g' => decide (g.last < g'.first) || decide (g'.last < g.first) || g.ty == g'.ty)

def gapsAgree : List Range → Bool
  | [] => true
  | g :: gs => agreeWith g gs && gapsAgree gs

def wfInput (es : List Entry) (gs : List Range) : Bool :=
  es.all (fun e => decide (0 ≤ e.offset)) &&
  gs.all (fun g => decide (0 ≤ g.first) && decide (g.first ≤ g.last) && (g.ty == 0 || g.ty == 2)) &&
  gapsAgree gs &&
  es.all (fun e => e.status == 0 || gs.all (fun g => !contains g e.offset))

/-- The property for one partition's batch list. -/
def specBuild (es : List Entry) (gs out : List Range) (hasRenew : Bool) : Bool :=
  ascending out && coverageOK es gs out && renewOK out hasRenew

/-- The class of inputs of DESIGN §8-d: a gap range starts below a decided user entry. -/
def gapBelowEntry (es : List Entry) (gs : List Range) : Bool :=
  es.any (fun e => e.status != 0 && gs.any (fun g => decide (g.first < e.offset)))

/-- The shape of the output in that class: ascending user-entry ranges followed by ascending gap ranges
(the first gap range starting at or below the end of the last user range). -/
def twoRuns (out : List Range) : Bool :=
  (List.range (out.length + 1)).any (fun k => ascending (out.take k) && ascending (out.drop k))

/-! #### coalesceAppendRange / filterStaleEntries / tryAck -/

/-- Appending with coalescing changes neither the offsets covered nor their types. -/
def specCoalesce (out : List Range) (r : Range) (res : List Range) : Bool :=
  let pts := (out ++ r :: res).flatMap (fun r => [r.first, r.last + 1])
  pts.all (fun o => cov res o == cov (out ++ [r]) o)

/-- An ack can be honoured by the broker session `(self, epoch)` iff it was fetched from this source in
this session (epoch not above the current one). -/
def deliverable (self epoch : Int) (source ep : Int) : Bool := source == self && decide (ep ≤ epoch)

/-- The error reported for a drain: that of its first undeliverable entry (a later epoch of this source:
InvalidShareSessionEpoch; another source: InvalidRecordState). -/
def firstDropErr (self epoch : Int) (es : List Entry) : Option DropErr :=
  match es.find? (fun e => !deliverable self epoch e.source e.epoch) with
  | none => none
  | some e => if e.source == self then some .epoch else some .state

def specStaleEntries (self epoch : Int) (es kept : List Entry) (err : Option DropErr) : Bool :=
  kept == es.filter (fun e => deliverable self epoch e.source e.epoch) && err == firstDropErr self epoch es

def specStaleGaps (self epoch : Int) (gs kept : List Range) : Bool :=
  kept == gs.filter (fun g => deliverable self epoch g.source g.epoch)

/-- All drains of one request: per drain the kept entries / gaps / reported error; the two counters are
the deliverable and the pre-filtered user acknowledgements over all drains. -/
def specStale (self epoch : Int) (drains : List (List Entry × List Range))
    (res : List (List Entry × List Range × Option DropErr)) (nUser nStale : Nat) : Bool :=
  drains.length == res.length &&
  (drains.zip res).all (fun (d, r) => specStaleEntries self epoch d.1 r.1 r.2.2 && specStaleGaps self epoch d.2 r.2.1) &&
  nUser == (res.map (·.1.length)).sum &&
  nUser + nStale == (drains.map (·.1.length)).sum

/-- Results of calls on one record's ack state, observed from outside: `(status argument, returned true)`
of every `tryAck` call plus the final status. A final outcome (accept/release/reject) is set at most
once, it is what the state ends with, and the state ends terminal only through such a call
(`init` is the status before the calls, 0 pending or 4 renewed). -/
def specTryAck (init : Int) (calls : List (Int × Bool)) (final : Int) : Bool :=
  let wins := calls.filter (fun c => c.2 && isTerminal c.1)
  if isTerminal init then wins.isEmpty && final == init
  else
    decide (wins.length ≤ 1) &&
    (match wins with
     | [] => final == 0 || final == 4
     | w :: _ => final == w.1)

end Spec.C12
