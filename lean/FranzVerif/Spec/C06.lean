/-! C06 — the Spec: an independent *reference decoder* of the Kafka log format and the predicate the
property states about `ProcessFetchPartition`'s observable result (returned records + next offset).

Written from the property text and the Kafka log format, not from source.go:

* a partition log is a sequence of batches (a v0/v1 message is a batch of one record; a compressed wrapper a
  batch of its inner messages); every record has an absolute offset; a batch has a base offset and a last
  offset (which compaction keeps even when the records at those offsets are gone);
* a consumer asking for offset `req` gets the records with `offset ≥ req`, in log order;
* control records are dropped unless the consumer opted in;
* under read_committed the data records of aborted transactions are dropped. The broker names the aborted
  transactions as a *set* of `(producer id, first offset)`. A transactional batch of producer `p` with base
  offset `f` belongs to the aborted transaction `(p, fo)` iff `fo ≤ f` and no ABORT marker of `p` lies in
  `[fo, f)` (a producer's transactions are sequential, each aborted one ends with its ABORT marker).
  This is order-free: it never looks at the position of an entry in the list.

Core Lean only (linked into the driver). -/
namespace Spec.C06

abbrev Bytes := List UInt8

/-- a record as the log holds it -/
structure LRec where
  offset : Int
  tsMs : Option Int                       -- `none`: the format has no timestamp (v0)
  key : Option Bytes
  value : Option Bytes
  headers : List (Bytes × Option Bytes)
deriving DecidableEq, Repr

structure LBatch where
  first : Int
  last : Int
  pid : Int
  pepoch : Int
  lepoch : Int
  attrs : Nat                             -- the 8 attribute bits a record of this batch exposes
  records : List LRec                     -- every record of the batch that the log holds
  present : Nat                           -- how many of them made it into the response bytes (a batch cut short inside)
deriving DecidableEq, Repr

def LBatch.txn (b : LBatch) : Bool := b.attrs / 16 % 2 = 1
def LBatch.control (b : LBatch) : Bool := b.attrs / 32 % 2 = 1

/-- control record key: int16 version, int16 type; type 0 = ABORT -/
def isAbortKey (key : Option Bytes) : Bool :=
  match key with
  | some (_ :: _ :: a :: b :: _) => a.toNat = 0 ∧ b.toNat = 0
  | _ => false

def LBatch.abortMarker (b : LBatch) : Bool :=
  b.control && b.txn && (b.records.take b.present).any fun r => isAbortKey r.key

/-- the record as the consumer must see it -/
structure ORec where
  offset : Int
  tsMs : Option Int
  key : Option Bytes
  value : Option Bytes
  headers : List (Bytes × Option Bytes)
  attrs : Nat
  pid : Int
  pepoch : Int
  lepoch : Int
deriving DecidableEq, Repr

structure Req where
  offset : Int
  keepControl : Bool
  readCommitted : Bool
  aborted : List (Int × Int)              -- used as a set
deriving Repr

/-- does batch `b` belong to an aborted transaction (see the file header) -/
def inAborted (q : Req) (log : List LBatch) (b : LBatch) : Bool :=
  q.readCommitted && b.txn && q.aborted.any fun (p, fo) =>
    p == b.pid && decide (fo ≤ b.first) &&
      !(log.any fun m => m.abortMarker && m.pid == p && decide (fo ≤ m.first) && decide (m.first < b.first))

def toORec (b : LBatch) (r : LRec) : ORec :=
  ⟨r.offset, r.tsMs, r.key, r.value, r.headers, b.attrs, b.pid, b.pepoch, b.lepoch⟩

/-- the records of one batch the consumer must get -/
def batchRecords (q : Req) (log : List LBatch) (full : Bool) (b : LBatch) : List ORec :=
  let keep := if b.control then q.keepControl else !(inAborted q log b)
  if keep then ((if full then b.records else b.records.take b.present).filter fun r => decide (q.offset ≤ r.offset)).map (toORec b)
  else []

/-- The reference decoder: `log` is the part of the log the response holds. `full = true` decodes the
records the log holds even where the response bytes were cut short. -/
def refRecords (q : Req) (log : List LBatch) (full : Bool := false) : List ORec :=
  log.flatMap (batchRecords q log full)

/-- The property on an observed result `(out, next)` for a response holding the batches `whole` entirely
(the last of them possibly cut short inside: `present < records.length`) followed by a truncated tail of the
batches `rest` (no complete frame of them is in the bytes).
1. the returned records are exactly the reference records (order and every field);
2. the next offset does not go backwards and is past every returned record;
3. it does not pass an offset that holds an unreturned record the consumer must get
   (judged on the log itself: `whole ++ rest`, all records);
4. the truncated tail does not advance it: it stays at or before the end of the last whole batch. -/
def holds (q : Req) (whole rest : List LBatch) (out : List ORec) (next : Int) : Bool :=
  let log := whole ++ rest
  out == refRecords q whole
  && decide (q.offset ≤ next)
  && out.all (fun r => decide (r.offset < next))
  && (refRecords q log true).all (fun r => out.contains r || decide (next ≤ r.offset))
  && (match whole.getLast? with
      | none => next == q.offset
      | some b => decide (next ≤ max q.offset (b.last + 1)))

/-- what can be said of any input, including arbitrary bytes: the next offset does not go backwards and is
past every returned record, returned offsets increase strictly and are at or after the requested one -/
def holdsAny (req : Int) (outOffsets : List Int) (next : Int) : Bool :=
  decide (req ≤ next) && outOffsets.all (fun o => decide (req ≤ o ∧ o < next))
  && (outOffsets.zip (outOffsets.drop 1)).all (fun (a, b) => decide (a < b))

end Spec.C06
