/-! C17 — executable Spec of the Kafka wire primitives, written from the protocol description
(LEB128 "unsigned varint", zig-zag, big-endian two's complement, length prefixes), at the level of
`Nat`/`Int`, with no reference to the model. Bytes are `BitVec 8` only as a carrier (`.toNat`).

Reading of the property text: "overlong" = more than 5 (10) bytes; "overflowing" = the value does not
fit 32 (64) bits. Non-minimal encodings (`80 00` for 0) are accepted, as the Kafka reference reader
(`ByteUtils.readUnsignedVarint`) and Go's `binary.Uvarint` accept them. Core Lean only. -/
namespace Spec.C17

abbrev Bytes := List (BitVec 8)
def byte (n : Nat) : BitVec 8 := BitVec.ofNat 8 n

/-! ## LEB128 -/

/-- unsigned LEB128 of `n`: 7 bits per byte, least significant group first, bit 7 = "more follows" -/
def encU (n : Nat) : Bytes :=
  if n < 128 then [byte n] else byte (n % 128 + 128) :: encU (n / 128)
decreasing_by omega

/-- number of bytes of `encU n` = max 1 ⌈bits n / 7⌉ -/
def lenU (n : Nat) : Nat := if n < 128 then 1 else 1 + lenU (n / 128)
decreasing_by omega

/-- unbounded LEB128 reader: `(value, bytes consumed)`; `none` = input ran out before a final byte -/
def leb : Bytes → Option (Nat × Nat)
  | [] => none
  | b :: rest =>
    if b.toNat < 128 then some (b.toNat, 1)
    else match leb rest with
      | some (v, n) => some (b.toNat - 128 + 128 * v, n + 1)
      | none => none

/-- The decoder contract (same result convention as Go's `binary.Uvarint`):
`(v, n)`, `n > 0`: value `v`, `n` bytes consumed; `(0, 0)`: input ran out; `(0, -maxB)`: more than
`maxB` bytes or the value needs more than `bits` bits. Only the first `maxB` bytes are looked at. -/
def decU (bits maxB : Nat) (inp : Bytes) : Nat × Int :=
  match leb (inp.take maxB) with
  | some (v, n) => if v < 2 ^ bits then (v, (n : Int)) else (0, -(maxB : Int))
  | none => if inp.length < maxB then (0, 0) else (0, -(maxB : Int))

/-! ## zig-zag -/

def zz (i : Int) : Nat := if 0 ≤ i then (2 * i).toNat else (-2 * i - 1).toNat
def unzz (n : Nat) : Int := if n % 2 = 0 then (n / 2 : Nat) else -(((n + 1) / 2 : Nat) : Int)

/-- signed varint decoder contract -/
def decS (bits maxB : Nat) (inp : Bytes) : Int × Int :=
  let (v, n) := decU bits maxB inp
  (unzz v, n)

/-! ## big-endian fixed width, two's complement -/

/-- `k` bytes, most significant first, of `n mod 256^k` -/
def be : Nat → Nat → Bytes
  | 0, _ => []
  | k + 1, n => byte (n / 256 ^ k) :: be k n

def unbe (bs : Bytes) : Nat := bs.foldl (fun acc b => acc * 256 + b.toNat) 0

/-- two's complement: the `bits`-bit pattern `n` read as a signed integer -/
def signed (bits n : Nat) : Int := if n < 2 ^ (bits - 1) then n else (n : Int) - (2 ^ bits : Nat)
/-- the `bits`-bit pattern of an integer -/
def pattern (bits : Nat) (i : Int) : Nat := (i % (2 ^ bits : Nat)).toNat

/-! ## Reader contract: what one read of each kind must do on input `src`.
`some (value, n)`: the first `n` bytes are one encoding of `value`; `none`: the input is short or
malformed — the reader must become invalid (`bad`, `Src` emptied). -/

inductive Val where
  | int (i : Int)
  | bool (b : Bool)
  | bytes (b : Bytes)
  | null
deriving DecidableEq, Repr

inductive Kind where
  | bool | int8 | int16 | uint16 | int32 | uint32 | int64 | float64 | uuid
  | varint | uvarint | varlong
  | span (l : Int)
  | string | compactString | nullableString | compactNullableString
  | bytes | compactBytes | nullableBytes | compactNullableBytes
  | arrayLen | varintArrayLen | compactArrayLen
  | varintBytes | varintString
deriving DecidableEq, Repr

def fixed (k : Nat) (src : Bytes) : Option (Nat × Nat) :=
  if src.length < k then none else some (unbe (src.take k), k)

/-- length-prefixed payload: `hdr` header bytes, then `len` payload bytes -/
def payload (src : Bytes) (hdr : Nat) (len : Int) : Option (Val × Nat) :=
  if len < 0 then none
  else if (src.length : Int) < hdr + len then none
  else some (.bytes ((src.drop hdr).take len.toNat), hdr + len.toNat)

def uvar (src : Bytes) : Option (Nat × Nat) :=
  match decU 32 5 src with
  | (v, n) => if n > 0 then some (v, n.toNat) else none

/-- array lengths: the count is returned as is (negative = null array), but a count larger than
the number of remaining bytes is rejected (every element takes at least one byte) -/
def arr (src : Bytes) (hdr : Nat) (cnt : Int) : Option (Val × Nat) :=
  if ((src.length : Int) - hdr) < cnt then none else some (.int cnt, hdr)

def read (k : Kind) (src : Bytes) : Option (Val × Nat) :=
  match k with
  | .bool => (fixed 1 src).map fun (v, n) => (.bool (v != 0), n)
  | .int8 => (fixed 1 src).map fun (v, n) => (.int (signed 8 v), n)
  | .int16 => (fixed 2 src).map fun (v, n) => (.int (signed 16 v), n)
  | .uint16 => (fixed 2 src).map fun (v, n) => (.int v, n)
  | .int32 => (fixed 4 src).map fun (v, n) => (.int (signed 32 v), n)
  | .uint32 => (fixed 4 src).map fun (v, n) => (.int v, n)
  | .int64 => (fixed 8 src).map fun (v, n) => (.int (signed 64 v), n)
  | .float64 => (fixed 8 src).map fun (v, n) => (.int v, n)       -- the 64 bits
  | .uuid => if src.length < 16 then none else some (.bytes (src.take 16), 16)
  | .uvarint => (uvar src).map fun (v, n) => (.int v, n)
  | .varint => (uvar src).map fun (v, n) => (.int (unzz v), n)
  | .varlong => match decU 64 10 src with
      | (v, n) => if n > 0 then some (.int (unzz v), n.toNat) else none
  | .span l => payload src 0 l
  | .string => (fixed 2 src).bind fun (v, _) => payload src 2 (signed 16 v)
  | .nullableString => (fixed 2 src).bind fun (v, _) =>
      if signed 16 v < 0 then some (.null, 2) else payload src 2 (signed 16 v)
  | .compactString => (uvar src).bind fun (v, n) => payload src n ((v : Int) - 1)
  | .compactNullableString => (uvar src).bind fun (v, n) =>
      if v = 0 then some (.null, n) else payload src n ((v : Int) - 1)
  -- documented leniency of the code (EventHubs): null (-1 / 0) non-nullable bytes read as empty
  | .bytes => (fixed 4 src).bind fun (v, _) =>
      if signed 32 v = -1 then some (.bytes [], 4) else payload src 4 (signed 32 v)
  | .compactBytes => (uvar src).bind fun (v, n) =>
      if v = 0 then some (.bytes [], n) else payload src n ((v : Int) - 1)
  | .nullableBytes => (fixed 4 src).bind fun (v, _) =>
      if signed 32 v < 0 then some (.null, 4) else payload src 4 (signed 32 v)
  | .compactNullableBytes => (uvar src).bind fun (v, n) =>
      if v = 0 then some (.null, n) else payload src n ((v : Int) - 1)
  | .arrayLen => (fixed 4 src).bind fun (v, _) => arr src 4 (signed 32 v)
  | .varintArrayLen => (uvar src).bind fun (v, n) => arr src n (unzz v)
  -- the result type is int32: count = (v - 1) as a 32-bit two's complement number
  | .compactArrayLen => (uvar src).bind fun (v, n) => arr src n (signed 32 (pattern 32 ((v : Int) - 1)))
  | .varintBytes => (uvar src).bind fun (v, n) =>
      if unzz v < 0 then some (.null, n) else payload src n (unzz v)
  | .varintString => (uvar src).bind fun (v, n) =>
      if unzz v < 0 then some (.bytes [], n) else payload src n (unzz v)

/-- Observable reader state: remaining bytes and validity. -/
structure RState where
  src : Bytes
  ok : Bool := true
deriving DecidableEq, Repr

/-- The reader law: a read on a valid reader with a well-formed prefix returns the value and consumes
exactly the encoding; otherwise the reader is invalid and empty from then on. The value returned by a
failing read is not constrained (`none`). -/
def step (k : Kind) (s : RState) : Option Val × RState :=
  if !s.ok then (none, { src := [], ok := false }) else
  match read k s.src with
  | some (v, n) => (some v, { src := s.src.drop n, ok := true })
  | none => (none, { src := [], ok := false })

end Spec.C17
