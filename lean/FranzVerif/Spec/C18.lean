import FranzVerif.Spec.C17
/-! C18 — executable Spec: an independent, strict reference decoder of produce requests as they appear on
the wire (request header v1/v2, Produce v0–v13; message sets v0/v1 for Produce v0–v2, record batch v2
otherwise; compact encodings, tagged fields and topic ids for the flexible versions), written from the
Kafka protocol description with the `Nat`-level primitives of `Spec.C17`, with no reference to the model,
and the property as a predicate on the decoded requests:

* every frame decodes, every redundant field is consistent (frame length, batch length, record length
  fields, CRC over the right span, magic, base offset 0, leader epoch -1, offset deltas 0..n-1,
  `lastOffsetDelta = n-1`, record count, empty tag sections, nothing trailing);
* one batch per partition per request; the batches of a partition, in request order, hold exactly the
  buffered records of that partition in order (keys, values, headers, timestamps through
  `firstTimestamp + delta`), `maxTimestamp` is the largest timestamp; attributes carry the transactional
  bit iff a transactional id is configured and the codec bits of the compressor's answer; producer id and
  epoch are the configured ones and the base sequence continues the partition's sequence modulo 2^31
  (0 for a non-idempotent producer);
* a record that is missing was rejected, and only a record that is large on the scale of the limits may be;
* a written batch is at most `ProducerBatchMaxBytes`, a written request at most `BrokerMaxWriteBytes`.

Compression codecs are not interpreted: a compressed payload must be one the compressor returned (call
log), and is replaced by the input of that call. CRCs are parameters of the decoder. Core Lean only. -/
namespace Spec.C18
open Spec.C17 (leb unzz unbe signed)

abbrev Bytes := List (BitVec 8)

/-- the compressor's call log: `(input, output, codec)`, in call order. The client calls the compressor
once per batch in the order it writes the batches, so the decoder consumes one entry per batch. -/
abbrev CLog := List (Bytes × Option Bytes × Nat)

/-- parser state: the bytes still to read (outer), the compressor calls not yet matched (inner) -/
abbrev P := StateT Bytes (StateT CLog (Except String))

def err {α : Type} (k : String) : P α := throw k

def takeN (n : Nat) : P Bytes := do
  let s ← get
  let t := s.take n
  if t.length < n then err "short" else
  set (s.drop n)
  pure t

def u8 : P Nat := do let b ← takeN 1; pure (unbe b)
def uN (k : Nat) : P Nat := do let b ← takeN k; pure (unbe b)
def iN (k : Nat) : P Int := do let b ← takeN k; pure (signed (8 * k) (unbe b))

def uvar : P Nat := do
  let s ← get
  match leb (s.take 10) with
  | some (v, n) => set (s.drop n); pure v
  | none => err "varint"
def svar : P Int := do let v ← uvar; pure (unzz v)

def atEnd : P Bool := do let s ← get; pure s.isEmpty

/-- run a parser on exactly the given bytes: it must consume all of them -/
def within {α : Type} (b : Bytes) (what : String) (p : P α) : P α := do
  let saved ← get
  set b
  let a ← p
  let rest ← get
  if !rest.isEmpty then err (what ++ "-trailing") else
  set saved
  pure a

/-- the next compressor call, when a compressor is configured -/
def nextCall (hasComp : Bool) : P (Option (Bytes × Option Bytes × Nat)) := do
  if !hasComp then pure none else
  let log ← getThe CLog
  match log with
  | [] => err "compressor-call-missing"
  | c :: rest => set rest; pure (some c)

/-- the uncompressed form of a batch payload: with a compressor configured the payload is either the
compressor's input (codec 0: its answer was not used) or its answer with its codec -/
def plainOf (call : Option (Bytes × Option Bytes × Nat)) (codec : Nat) (payload : Bytes) : P Bytes :=
  match call with
  | none => if codec == 0 then pure payload else err "compressed-without-compressor"
  | some (src, out, c) =>
    if codec == 0 then (if payload == src then pure payload else err "compressor-input-mismatch")
    else if c == codec && out == some payload then pure src
    else err "compressed-payload-not-from-compressor"

def emptyTags (flexible : Bool) : P Unit := do
  if flexible then
    let n ← uvar
    if n != 0 then err "tags"

structure DHeader where
  key : Bytes
  value : Option Bytes
deriving DecidableEq, Repr

structure DRec where
  ts : Option Int          -- none: message format 0 has no timestamp
  key : Option Bytes
  value : Option Bytes
  headers : List DHeader
deriving DecidableEq, Repr

structure DBatch where
  partition : Int
  blobLen : Nat            -- size of the record batch / message set as written
  magic : Nat
  pid : Int := -1
  epoch : Int := -1
  baseSeq : Int := -1
  transactional : Bool := false
  codec : Nat := 0
  firstTs : Int := 0
  maxTs : Int := 0
  recs : List DRec
deriving Repr

structure DTopic where
  name : Option Bytes
  id : Option Bytes
  parts : List DBatch
deriving Repr

structure DReq where
  frameLen : Nat
  version : Int
  corr : Int
  clientId : Option Bytes
  txn : Option Bytes
  acks : Int
  timeout : Int
  topics : List DTopic
deriving Repr

/-! ### record batch v2 -/

def varBytes : P (Option Bytes) := do
  let l ← svar
  if l < 0 then (if l == -1 then pure none else err "negative-length") else
  let b ← takeN l.toNat
  pure (some b)

def header : P DHeader := do
  let k ← varBytes
  let v ← varBytes
  match k with
  | some k => pure ⟨k, v⟩
  | none => err "null-header-key"

def repeatP {α : Type} (p : P α) : Nat → P (List α)
  | 0 => pure []
  | n + 1 => do let a ← p; let rest ← repeatP p n; pure (a :: rest)

/-- one record; `idx` is its expected offset delta -/
def record (firstTs : Int) (idx : Nat) : P DRec := do
  let len ← svar
  if len < 0 then err "record-length" else
  let body ← takeN len.toNat
  within body "record" (do
      let attrs ← u8
      if attrs != 0 then err "record-attributes"
      let tsd ← svar
      let od ← svar
      if od != (idx : Int) then err "offset-delta"
      let k ← varBytes
      let v ← varBytes
      let nh ← svar
      if nh < 0 then err "header-count"
      let hs ← repeatP header nh.toNat
      pure (⟨some (firstTs + tsd), k, v, hs⟩ : DRec))

def recordsP (firstTs : Int) : Nat → Nat → P (List DRec)
  | _, 0 => pure []
  | i, n + 1 => do let r ← record firstTs i; let rest ← recordsP firstTs (i + 1) n; pure (r :: rest)

/-- a record batch after its `baseOffset` and `batchLength` fields -/
def batchTail (crc32c : Bytes → Nat) (hasComp : Bool) (partition : Int) (blobLen : Nat) : P DBatch := do
  let ple ← iN 4
  if ple != -1 then err "partition-leader-epoch"
  let magic ← u8
  if magic != 2 then err "magic"
  let crc ← uN 4
  let crcd ← get
  if crc != crc32c crcd then err "crc"
  let attrs ← uN 2
  if attrs / 8 != 0 && attrs / 8 != 2 then err "attributes"
  let codec := attrs % 8
  let lastOffsetDelta ← iN 4
  let firstTs ← iN 8
  let maxTs ← iN 8
  let pid ← iN 8
  let epoch ← iN 2
  let baseSeq ← iN 4
  let n ← iN 4
  if n < 0 then err "record-count"
  if lastOffsetDelta != n - 1 then err "last-offset-delta"
  let payload ← get
  set ([] : Bytes)
  let call ← nextCall hasComp
  let plain ← plainOf call codec payload
  let recs ← within plain "records" (recordsP firstTs 0 n.toNat)
  pure { partition := partition, blobLen := blobLen, magic := 2, pid := pid, epoch := epoch, baseSeq := baseSeq,
         transactional := attrs / 16 == 1, codec := codec, firstTs := firstTs, maxTs := maxTs, recs := recs }

def recordBatch (crc32c : Bytes → Nat) (hasComp : Bool) (partition : Int) (blob : Bytes) : P DBatch :=
  within blob "batch" (do
    let baseOffset ← iN 8
    if baseOffset != 0 then err "base-offset"
    let batchLength ← iN 4
    let rest ← get
    if batchLength != (rest.length : Int) then err "batch-length"
    batchTail crc32c hasComp partition blob.length)

/-! ### message sets (magic 0 and 1) -/

def nullableBytesP : P (Option Bytes) := do
  let l ← iN 4
  if l < 0 then (if l == -1 then pure none else err "negative-length") else
  let b ← takeN l.toNat
  pure (some b)

/-- one message: `(offset, attributes, record)` -/
def message (crc32 : Bytes → Nat) (wantMagic : Nat) : P (Int × Nat × DRec) := do
  let offset ← iN 8
  let size ← iN 4
  if size < 0 then err "message-size" else
  let body ← takeN size.toNat
  let (attrs, r) ← within body "message" (do
      let crc ← uN 4
      let crcd ← get
      if crc != crc32 crcd then err "crc"
      let magic ← u8
      if magic != wantMagic then err "magic"
      let attrs ← u8
      let ts ← (if magic == 1 then (do let t ← iN 8; pure (some t)) else pure none)
      let k ← nullableBytesP
      let v ← nullableBytesP
      pure (attrs, (⟨ts, k, v, []⟩ : DRec)))
  pure (offset, attrs, r)

/-- messages until the input is used up; `fuel` ≥ number of messages (each takes at least 12 bytes) -/
def messagesP (crc32 : Bytes → Nat) (wantMagic : Nat) : Nat → P (List (Int × Nat × DRec))
  | 0 => do if (← atEnd) then pure [] else err "message-set"
  | fuel + 1 => do
    if (← atEnd) then pure [] else
    let m ← message crc32 wantMagic
    let rest ← messagesP crc32 wantMagic fuel
    pure (m :: rest)

def offsetsOk : Nat → List (Int × Nat × DRec) → Bool
  | _, [] => true
  | i, (o, a, _) :: rest => o == (i : Int) && a == 0 && offsetsOk (i + 1) rest

def messageSet (crc32 : Bytes → Nat) (hasComp : Bool) (version : Int) (partition : Int) (blob : Bytes) : P DBatch := do
  let wantMagic : Nat := if version == 2 then 1 else 0
  let ms ← within blob "message-set" (messagesP crc32 wantMagic (blob.length / 12 + 1))
  let call ← nextCall hasComp
  let wrapper : Option (Int × Nat × DRec) := match ms with
    | [(o, attrs, w)] => if attrs != 0 then some (o, attrs, w) else none
    | _ => none
  match wrapper with
  | some (o, attrs, w) =>
    -- a compressed wrapper message: offset of the last inner message, timestamp of the first, null key
    if attrs ≥ 8 then err "attributes" else
    if w.key.isSome then err "wrapper-key" else
    let inner ← plainOf call attrs (w.value.getD [])
    let ims ← within inner "message-set" (messagesP crc32 wantMagic (inner.length / 12 + 1))
    if !offsetsOk 0 ims then err "offset-delta" else
    if o != (ims.length : Int) - 1 then err "wrapper-offset" else
    if wantMagic == 1 && w.ts != (ims.head?.bind (·.2.2.ts)) then err "wrapper-timestamp" else
    pure { partition := partition, blobLen := blob.length, magic := wantMagic, codec := attrs, recs := ims.map (·.2.2) }
  | none =>
    let _ ← plainOf call 0 blob
    if !offsetsOk 0 ms then err "offset-delta" else
    pure { partition := partition, blobLen := blob.length, magic := wantMagic, recs := ms.map (·.2.2) }

/-! ### the request -/

def stringP (flexible : Bool) : P Bytes := do
  if flexible then
    let l ← uvar
    if l == 0 then err "null-string" else takeN (l - 1)
  else
    let l ← iN 2
    if l < 0 then err "null-string" else takeN l.toNat

def nullableStringP (flexible : Bool) : P (Option Bytes) := do
  if flexible then
    let l ← uvar
    if l == 0 then pure none else do let b ← takeN (l - 1); pure (some b)
  else
    let l ← iN 2
    if l < 0 then (if l == -1 then pure none else err "negative-length") else do let b ← takeN l.toNat; pure (some b)

def arrayLenP (flexible : Bool) : P Nat := do
  if flexible then
    let l ← uvar
    if l == 0 then err "null-array" else pure (l - 1)
  else
    let l ← iN 4
    if l < 0 then err "null-array" else pure l.toNat

def recordsBlobP (flexible : Bool) : P Bytes := do
  if flexible then
    let l ← uvar
    if l == 0 then err "null-records" else takeN (l - 1)
  else
    let l ← iN 4
    if l < 0 then err "null-records" else takeN l.toNat

def partitionP (crc32c crc32 : Bytes → Nat) (hasComp : Bool) (version : Int) : P DBatch := do
  let flexible := decide (version ≥ 9)
  let idx ← iN 4
  let blob ← recordsBlobP flexible
  emptyTags flexible
  if version < 3 then messageSet crc32 hasComp version idx blob else recordBatch crc32c hasComp idx blob

def topicP (crc32c crc32 : Bytes → Nat) (hasComp : Bool) (version : Int) : P DTopic := do
  let flexible := decide (version ≥ 9)
  let (name, id) ← (if version ≥ 13 then (do let i ← takeN 16; pure (none, some i))
                    else (do let n ← stringP flexible; pure (some n, none)) : P (Option Bytes × Option Bytes))
  let np ← arrayLenP flexible
  let parts ← repeatP (partitionP crc32c crc32 hasComp version) np
  emptyTags flexible
  pure ⟨name, id, parts⟩

/-- a frame after its size field -/
def requestTail (crc32c crc32 : Bytes → Nat) (hasComp : Bool) (frameLen : Nat) : P DReq := do
  let key ← iN 2
  if key != 0 then err "api-key"
  let version ← iN 2
  if version < 0 || version > 13 then err "version"
  let flexible := decide (version ≥ 9)
  let corr ← iN 4
  let clientId ← nullableStringP false
  emptyTags flexible
  let txn ← (if version ≥ 3 then nullableStringP flexible else pure none)
  let acks ← iN 2
  let timeout ← iN 4
  let nt ← arrayLenP flexible
  let topics ← repeatP (topicP crc32c crc32 hasComp version) nt
  emptyTags flexible
  pure ⟨frameLen, version, corr, clientId, txn, acks, timeout, topics⟩

/-- a whole frame as written to the connection -/
def requestP (crc32c crc32 : Bytes → Nat) (hasComp : Bool) (frame : Bytes) : P DReq :=
  within frame "frame" (do
    let size ← iN 4
    let rest ← get
    if size != (rest.length : Int) then err "frame-length"
    requestTail crc32c crc32 hasComp frame.length)

def requestsP (crc32c crc32 : Bytes → Nat) (hasComp : Bool) : List Bytes → P (List DReq)
  | [] => pure []
  | f :: fs => do let r ← requestP crc32c crc32 hasComp f; let rs ← requestsP crc32c crc32 hasComp fs; pure (r :: rs)

/-- decode the written frames in order against the compressor's call log; every call must be matched -/
def requests (crc32c crc32 : Bytes → Nat) (hasComp : Bool) (log : CLog) (frames : List Bytes) : Except String (List DReq) :=
  match ((requestsP crc32c crc32 hasComp frames).run []).run log with
  | .ok ((rs, _), rest) => if rest.isEmpty then .ok rs else .error "compressor-call-unmatched"
  | .error e => .error e

/-! ### the property on decoded requests -/

structure XHeader where
  key : Bytes
  value : Option Bytes
deriving DecidableEq, Repr

/-- a buffered record as given to the client, and whether the client rejected it -/
structure XRec where
  ts : Int
  key : Option Bytes
  value : Option Bytes
  headers : List XHeader
  rejected : Bool
deriving Repr

structure XPart where
  topic : Bytes
  topicID : Bytes
  partition : Int
  seq : Int
  recs : List XRec
deriving Repr, Inhabited

structure Expect where
  clientId : Option Bytes
  txn : Option Bytes
  acks : Int
  timeout : Int
  corr : Int
  limit : Int
  batchMax : Int
  pid : Int
  epoch : Int
  parts : List XPart
deriving Repr

def olen : Option Bytes → Nat
  | none => 0
  | some b => b.length

def userSize (r : XRec) : Nat :=
  olen r.key + olen r.value + (r.headers.map fun h => h.key.length + olen h.value).sum

/-- only a record that is large on the scale of the configured limits may be rejected: its payload plus the fixed
overheads (at most 65 batch + 38 message + 40 request bytes, plus varints) and the ids and topic name exceed the
smaller limit. (The tolerance was 140 before the repair c322dee, which sizes a record as a message — 31 bytes more —
while the version is unknown or a message-set version; 143 is now reachable.) -/
def rejectionPlausible (x : Expect) (p : XPart) (r : XRec) : Bool :=
  let small := if x.batchMax < x.limit then x.batchMax else x.limit
  decide ((userSize r : Int) + 160 + 10 * r.headers.length + olen x.clientId + olen x.txn + (if p.topic.length > 16 then p.topic.length else 16) > small)

def recMatches (magic : Nat) (d : DRec) (r : XRec) : Bool :=
  d.key == r.key && d.value == r.value
    && (magic < 2 || d.headers.map (fun h => (h.key, h.value)) == r.headers.map (fun h => (h.key, h.value)))
    && (match d.ts with | some t => t == r.ts | none => magic == 0)

def recsMatch (magic : Nat) : List DRec → List XRec → Bool
  | [], [] => true
  | d :: ds, r :: rs => recMatches magic d r && recsMatch magic ds rs
  | _, _ => false

def maxTsOf : List XRec → Int → Int
  | [], m => m
  | r :: rs, m => maxTsOf rs (if r.ts > m then r.ts else m)

/-- per partition: how many of its accepted records earlier requests carried -/
abbrev Progress := List Nat

def findPart (x : Expect) (t : DTopic) (partition : Int) : Option Nat :=
  x.parts.findIdx? fun p =>
    p.partition == partition && (match t.name, t.id with
      | some n, _ => p.topic == n
      | none, some i => p.topicID == i
      | none, none => false)

def checkBatch (x : Expect) (version : Int) (t : DTopic) (b : DBatch) (prog : Progress) : Except String Progress := do
  match findPart x t b.partition with
  | none => .error "unknown-partition"
  | some pi =>
    let p : XPart := x.parts[pi]!
    let done : Nat := prog[pi]!
    let accepted : List XRec := p.recs.filter (!·.rejected)
    let want : List XRec := (accepted.drop done).take b.recs.length
    if b.recs.isEmpty then .error "empty-batch" else
    if !recsMatch b.magic b.recs want then .error "records-mismatch" else
    if version ≥ 3 then
      if b.pid != x.pid || b.epoch != x.epoch then .error "producer-id-epoch" else
      if b.baseSeq != (if x.pid < 0 then 0 else (p.seq + done) % 2147483648) then .error "sequence" else
      if b.transactional != x.txn.isSome then .error "transactional-bit" else
      match want with
      | [] => .error "records-mismatch"
      | r0 :: _ =>
        if b.firstTs != r0.ts then .error "first-timestamp" else
        if b.maxTs != maxTsOf want r0.ts then .error "max-timestamp" else
        pure (prog.set pi (done + b.recs.length))
    else pure (prog.set pi (done + b.recs.length))

def checkBatches (x : Expect) (version : Int) (t : DTopic) : List DBatch → Progress → Except String Progress
  | [], prog => pure prog
  | b :: bs, prog => do let prog ← checkBatch x version t b prog; checkBatches x version t bs prog

def checkTopics (x : Expect) (version : Int) : List DTopic → Progress → Except String Progress
  | [], prog => pure prog
  | t :: ts, prog => do let prog ← checkBatches x version t t.parts prog; checkTopics x version ts prog

def allPairs (r : DReq) : List (Option Bytes × Option Bytes × Int) :=
  r.topics.flatMap fun t => t.parts.map fun b => (t.name, t.id, b.partition)

def nodup {α : Type} [BEq α] : List α → Bool
  | [] => true
  | a :: as => !as.contains a && nodup as

def checkReq (x : Expect) (r : DReq) (prog : Progress) : Except String Progress := do
  if r.clientId != x.clientId then .error "client-id" else
  if r.corr != x.corr then .error "correlation-id" else
  if r.version ≥ 3 && r.txn != x.txn then .error "transactional-id" else
  if r.acks != x.acks || r.timeout != x.timeout then .error "acks-timeout" else
  if !nodup (allPairs r) then .error "two-batches-for-one-partition" else
  if r.topics.any (·.parts.isEmpty) then .error "empty-topic" else
  checkTopics x r.version r.topics prog

def checkReqs (x : Expect) : List DReq → Progress → Except String Progress
  | [], prog => pure prog
  | r :: rs, prog => do let prog ← checkReq x r prog; checkReqs x rs prog

def sizeCheck (x : Expect) (rs : List DReq) : Except String Unit := do
  for r in rs do
    for t in r.topics do
      for b in t.parts do
        if (b.blobLen : Int) > x.batchMax then
          throw (if r.version < 3 then "message-set-exceeds-max-batch-bytes" else "batch-exceeds-max-batch-bytes")
  for r in rs do
    if (r.frameLen : Int) > x.limit then
      throw (if r.version ≥ 9 then "flexible-produce-request-exceeds-max-write-bytes" else "produce-request-exceeds-max-write-bytes")

/-- The property. `frames`: the written requests in order. `.ok ()` = holds; `.error key` = violated. -/
def spec (crc32c crc32 : Bytes → Nat) (hasComp : Bool) (log : CLog) (x : Expect) (frames : List Bytes) : Except String Unit := do
  let rs ← requests crc32c crc32 hasComp log frames
  let _ ← checkReqs x rs (x.parts.map fun _ => 0)
  -- what the client refused to buffer must be plausibly too large
  for p in x.parts do
    for r in p.recs do
      if r.rejected && !rejectionPlausible x p r then throw "small-record-rejected"
  sizeCheck x rs

end Spec.C18
