import FranzVerif.Proof.C31
/-! C31 — the poll/rebalance gate: inductive invariants in counting form (any programs, any schedule). -/
namespace Model.C31.Gate

/-- holds `pollWaitMu` -/
def hold (t : Th) : Nat := match t.pc with
  | .pPark _ | .pUnlock _ | .uUnlock _ | .aUnlock | .rPark _ | .rUnlock | .xUnlock => 1 | _ => 0
/-- counted in the rebalance half of `pollWaitState` (after its `+= 1<<32`, before its `-= 1<<32`) -/
def rcount (t : Th) : Nat := match t.pc with
  | .rPark _ | .rWait _ | .rWake _ | .rUnlock | .xLock => 1 | _ => 0
/-- has decided to enter / is inside / is leaving the rebalance section -/
def ins (t : Th) : Nat := match t.pc with
  | .rUnlock | .xLock | .xUnlock => 1 | _ => 0
/-- poller that decided to wait and has not been notified since -/
def pwp (t : Th) : Nat := match t.pc with | .pPark _ | .pWait _ => 1 | _ => 0
/-- rebalancer that decided to wait and has not been notified since -/
def rwp (t : Th) : Nat := match t.pc with | .rPark _ | .rWait _ => 1 | _ => 0

def muN (sh : Sh) : Nat := if sh.mu then 1 else 0

structure GInv (s : St Sh Th) : Prop where
  mu : muN s.sh = cnt hold s.ths
  reb : s.sh.rebal = cnt rcount s.ths
  cor : s.sh.corrupt = false
  excl : cnt ins s.ths > 0 → s.sh.pollers = 0
  pw : cnt pwp s.ths > 0 → s.sh.rebal > 0
  rw : cnt rwp s.ths > 0 → s.sh.pollers > 0

theorem start_zero (p : List Op) : hold (start p) = 0 ∧ rcount (start p) = 0 ∧ ins (start p) = 0 ∧ pwp (start p) = 0 ∧ rwp (start p) = 0 := by
  match p with
  | [] => simp [start, hold, rcount, ins, pwp, rwp]
  | .P :: _ => simp [start, hold, rcount, ins, pwp, rwp]
  | .Q :: _ => simp [start, hold, rcount, ins, pwp, rwp]
  | .A :: _ => simp [start, hold, rcount, ins, pwp, rwp]
  | .R :: _ => simp [start, hold, rcount, ins, pwp, rwp]

theorem init_inv (progs : List (List Op)) : GInv (init progs) := by
  have h1 : cnt hold (progs.map start) = 0 := by rw [cnt_map]; exact cnt_zero (fun p => (start_zero p).1) _
  have h2 : cnt rcount (progs.map start) = 0 := by rw [cnt_map]; exact cnt_zero (fun p => (start_zero p).2.1) _
  have h3 : cnt ins (progs.map start) = 0 := by rw [cnt_map]; exact cnt_zero (fun p => (start_zero p).2.2.1) _
  have h4 : cnt pwp (progs.map start) = 0 := by rw [cnt_map]; exact cnt_zero (fun p => (start_zero p).2.2.2.1) _
  have h5 : cnt rwp (progs.map start) = 0 := by rw [cnt_map]; exact cnt_zero (fun p => (start_zero p).2.2.2.2) _
  constructor <;> simp [init, muN, h1, h2, h3, h4, h5]

theorem hold_wake (t : Th) : hold (wake t) = hold t := by
  obtain ⟨pc, p⟩ := t; cases pc <;> rfl
theorem rcount_wake (t : Th) : rcount (wake t) = rcount t := by
  obtain ⟨pc, p⟩ := t; cases pc <;> rfl
theorem ins_wake (t : Th) : ins (wake t) = ins t := by
  obtain ⟨pc, p⟩ := t; cases pc <;> rfl
theorem pwp_wake_le (t : Th) : pwp (wake t) ≤ hold t := by
  obtain ⟨pc, p⟩ := t; cases pc <;> simp [wake, pwp, hold]
theorem rwp_wake_le (t : Th) : rwp (wake t) ≤ hold t := by
  obtain ⟨pc, p⟩ := t; cases pc <;> simp [wake, rwp, hold]
theorem pwp_wake_le' (t : Th) : pwp (wake t) ≤ pwp t := by
  obtain ⟨pc, p⟩ := t; cases pc <;> simp [wake, pwp]
theorem rwp_wake_le' (t : Th) : rwp (wake t) ≤ rwp t := by
  obtain ⟨pc, p⟩ := t; cases pc <;> simp [wake, rwp]

theorem ins_le (l : List Th) : cnt ins l ≤ cnt rcount l + cnt hold l := by
  rw [← cnt_add]; apply cnt_le; intro t; obtain ⟨pc, p⟩ := t; cases pc <;> simp [ins, rcount, hold]

set_option maxHeartbeats 2000000 in
theorem inv_step (sh : Sh) (pre post : List Th) (t : Th) (sh' : Sh) (t' : Th) (b : Bool) (ev : String)
    (hI : GInv ⟨sh, pre ++ t :: post⟩) (hs : stepT sh t = some (sh', t', b, ev)) :
    GInv ⟨sh', sys.wakeAll b pre ++ t' :: sys.wakeAll b post⟩ := by
  obtain ⟨h1, h2, h3, h4, h5, h6⟩ := hI
  simp only [cnt_append, cnt_cons] at h1 h2 h4 h5 h6
  have eh := fun l => sys.cnt_wakeAll_eq (f := hold) (fun t => hold_wake t) b l
  have er := fun l => sys.cnt_wakeAll_eq (f := rcount) (fun t => rcount_wake t) b l
  have ei := fun l => sys.cnt_wakeAll_eq (f := ins) (fun t => ins_wake t) b l
  have lp : ∀ l, cnt pwp (sys.wakeAll b l) ≤ cnt pwp l := by
    intro l; cases b
    · rw [sys.cnt_wakeAll_false]; exact Nat.le_refl _
    · exact sys.cnt_wakeAll_true_le (fun t => pwp_wake_le' t) l
  have lr : ∀ l, cnt rwp (sys.wakeAll b l) ≤ cnt rwp l := by
    intro l; cases b
    · rw [sys.cnt_wakeAll_false]; exact Nat.le_refl _
    · exact sys.cnt_wakeAll_true_le (fun t => rwp_wake_le' t) l
  have lpt : b = true → ∀ l, cnt pwp (sys.wakeAll b l) ≤ cnt hold l := by
    intro hb l; subst hb; exact sys.cnt_wakeAll_true_le (fun t => pwp_wake_le t) l
  have lrt : b = true → ∀ l, cnt rwp (sys.wakeAll b l) ≤ cnt hold l := by
    intro hb l; subst hb; exact sys.cnt_wakeAll_true_le (fun t => rwp_wake_le t) l
  have lp1 := lp pre; have lp2 := lp post; have lr1 := lr pre; have lr2 := lr post
  have il1 := ins_le pre; have il2 := ins_le post
  obtain ⟨pc, prog⟩ := t
  obtain ⟨z1, z2, z3, z4, z5⟩ := start_zero prog
  obtain ⟨mu, pollers, rebal, corrupt, out, fill, viol, ep⟩ := sh
  cases mu <;> cases pc <;> simp only [stepT, pollerEnter, pollerRewake, rebalLoop] at hs
  all_goals (repeat' (split at hs))
  all_goals (try (exact absurd trivial ‹¬True›))
  all_goals (try (simp at hs; done))
  all_goals (simp only [Option.some.injEq, Prod.mk.injEq] at hs; obtain ⟨rfl, rfl, hb, _⟩ := hs)
  all_goals (first | (have lpt1 := lpt hb.symm pre; have lpt2 := lpt hb.symm post; have lrt1 := lrt hb.symm pre; have lrt2 := lrt hb.symm post) | skip)
  all_goals (constructor <;> simp only [cnt_append, cnt_cons, eh, er, ei, z1, z2, z3, z4, z5])
  all_goals (simp [hold, rcount, ins, pwp, rwp, muN] at h1 h2 h4 h5 h6 ⊢)
  all_goals (first | omega | (refine ⟨?_, ?_⟩ <;> omega) | skip)

theorem reach_inv {progs : List (List Op)} {s : St Sh Th} (hr : sys.Reach (init progs) s) : GInv s :=
  Sys.inv_of_local sys (init_inv progs) inv_step hr

/-- `exec` follows `Reach`. -/
theorem reach_of_exec {s0 s : St Sh Th} : ∀ (l : List Nat) (s1 : St Sh Th), sys.Reach s0 s1 → sys.exec s1 l = some s → sys.Reach s0 s
  | [], s1, h1, he => by simp [Sys.exec] at he; subst he; exact h1
  | i :: r, s1, h1, he => by
    simp only [Sys.exec] at he
    split at he
    · simp at he
    · rename_i s2 ev hs
      exact reach_of_exec r s2 (Sys.Reach.step i h1 hs) he

end Model.C31.Gate
