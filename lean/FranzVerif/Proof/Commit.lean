import FranzVerif.Model.Commit
/-! History-level observables for the commit-order monitor (C09) and helper lemmas. -/
namespace Proof.Commit
open Model.Commit

/-- the offsets of the OffsetCommit requests in the order they reached the coordinator -/
def wireOffsets (h : List Ev) : List Nat :=
  h.filterMap (fun e => match e with | .wireReq _ _ off => some off | _ => none)

/-- offset carried for partition `p` by the last request for `p` that the coordinator answered without
error, scanning the history in order (`none` if there is none) -/
def lastApplied (p : Nat) (h : List Ev) : Option Nat :=
  let rec go (reqs : List (Nat × Nat × Nat)) (cur : Option Nat) : List Ev → Option Nat
    | [] => cur
    | .wireReq n q off :: rest => go ((n, q, off) :: reqs) cur rest
    | .wireResp n q err :: rest =>
      if q == p && err == 0 then
        match reqs.find? (fun w => w.1 == n && w.2.1 == p) with
        | some (_, _, off) => go reqs (some off) rest
        | none => go reqs cur rest
      else go reqs cur rest
    | _ :: rest => go reqs cur rest
  go [] none h

/-- is partition `p` tainted at the end of the history: the fault layer rewrote one of its successful answers
into an error (`taint p`) and no later answer for `p` was a success -/
def taintedAtEnd (p : Nat) (h : List Ev) : Bool :=
  let rec go (cur : Bool) : List Ev → Bool
    | [] => cur
    | .taint q :: rest => go (cur || q == p) rest
    | .wireResp _ q err :: rest => go (cur && !(q == p && err == 0)) rest
    | _ :: rest => go cur rest
  go false h

/-- was topic `t` deleted during the history -/
def topicDeleted (t : Nat) (h : List Ev) : Bool := h.any (fun e => e == .topicDeleted t)

def isIncomplete (h : List Ev) : Bool := h.any (fun e => e == .incomplete)

end Proof.Commit
