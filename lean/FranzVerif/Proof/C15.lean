import FranzVerif.Model.C15
/-! Helper lemmas for Props/C15 and Props/C16: primitive codecs of the schema interpreter. Core Lean only. -/
namespace Proof.C15
open Model.C15

theorem byte_toNat {n : Nat} (h : n < 256) : (byte n).toNat = n := by
  simp [byte, h]

/-! ### span -/

theorem goSplit_append (bs rest : Bytes) : goSplit (bs ++ rest) bs.length = .ok bs rest := by
  simp [goSplit]

theorem span_append (bs rest : Bytes) (l : Int) (h : l = bs.length) : span l (bs ++ rest) = .ok bs rest := by
  subst h
  have : ¬ ((((bs ++ rest).length : Nat) : Int) < (bs.length : Int) ∨ (bs.length : Int) < 0) := by
    simp only [List.length_append]; omega
  simp only [span, this, if_false, Int.toNat_natCast]
  exact goSplit_append bs rest

/-! ### big endian -/

theorem be_length (n x : Nat) : (be n x).length = n := by
  induction n with
  | zero => rfl
  | succ n ih => simp [be, ih]

theorem ofBE_append (a b : Bytes) (acc : Nat) : ofBE (a ++ b) acc = ofBE b (ofBE a acc) := by
  induction a generalizing acc with
  | nil => rfl
  | cons x xs ih => simp [ofBE, ih]

theorem ofBE_be (n x acc : Nat) : ofBE (be n x) acc = acc * 256 ^ n + x % 256 ^ n := by
  induction n generalizing acc with
  | zero => simp [be, ofBE, Nat.mod_one]
  | succ n ih =>
    have hb : x / 256 ^ n % 256 < 256 := Nat.mod_lt _ (by decide)
    simp only [be, ofBE, byte_toNat hb, ih]
    rw [Nat.pow_succ, Nat.mod_mul, Nat.add_mul, Nat.mul_assoc, Nat.mul_comm 256 (256 ^ n), Nat.mul_comm (x / 256 ^ n % 256)]
    omega

theorem readBE_be (n x : Nat) (rest : Bytes) : readBE n (be n x ++ rest) = .ok (x % 256 ^ n) rest := by
  have h := span_append (be n x) rest (n : Int) (by simp [be_length])
  simp [readBE, h, ofBE_be]

/-! ### two's complement -/

theorem fromU_toU8 (i : Int) (h : inRange (-128) 128 i = true) : fromU m8 (toU m8 i % 256 ^ 1) = i := by
  simp only [inRange, Bool.and_eq_true, decide_eq_true_eq] at h
  simp only [fromU, toU, m8]; omega
theorem fromU_toU16 (i : Int) (h : inRange (-32768) 32768 i = true) : fromU m16 (toU m16 i % 256 ^ 2) = i := by
  simp only [inRange, Bool.and_eq_true, decide_eq_true_eq] at h
  simp only [fromU, toU, m16]; omega
theorem fromU_toU32 (i : Int) (h : inRange (-2147483648) 2147483648 i = true) : fromU m32 (toU m32 i % 256 ^ 4) = i := by
  simp only [inRange, Bool.and_eq_true, decide_eq_true_eq] at h
  simp only [fromU, toU, m32]; omega
theorem fromU_toU64 (i : Int) (h : inRange (-9223372036854775808) 9223372036854775808 i = true) :
    fromU m64 (toU m64 i % 256 ^ 8) = i := by
  simp only [inRange, Bool.and_eq_true, decide_eq_true_eq] at h
  simp only [fromU, toU, m64]; omega

/-! ### uvarint -/

theorem uvEnc_length_pos (f n : Nat) : 1 ≤ (uvEnc (f + 1) n).length := by
  simp only [uvEnc]; split <;> simp

/-- `uvDec k lastMax` inverts `uvEnc (k+1)` on every value that fits `k` groups of 7 bits and a last byte `≤ lastMax`. -/
theorem uvDec_uvEnc (k lastMax n : Nat) (rest : Bytes) (hl : lastMax < 128) (h : n < 128 ^ k * (lastMax + 1)) :
    uvDec k lastMax (uvEnc (k + 1) n ++ rest) = some (n, rest) := by
  induction k generalizing n with
  | zero =>
    have hn : n < 128 := by simp at h; omega
    have hb : n < 256 := by omega
    have : n ≤ lastMax := by simp at h; omega
    simp [uvEnc, hn, uvDec, byte_toNat hb, this]
  | succ k ih =>
    by_cases hn : n < 128
    · have hb : n < 256 := by omega
      simp [uvEnc, hn, uvDec, byte_toNat hb]
    · have hb : n % 128 + 128 < 256 := by omega
      have h2 : n / 128 < 128 ^ k * (lastMax + 1) := by
        rw [Nat.pow_succ, Nat.mul_comm (128 ^ k) 128, Nat.mul_assoc] at h
        exact Nat.div_lt_of_lt_mul h
      have hge : ¬ (n % 128 + 128 < 128) := by omega
      have hv : n % 128 + 128 - 128 + 128 * (n / 128) = n := by omega
      have e : uvEnc (k + 1 + 1) n = byte (n % 128 + 128) :: uvEnc (k + 1) (n / 128) := by
        rw [uvEnc]; simp [hn]
      rw [e]
      simp only [List.cons_append, uvDec, byte_toNat hb, hge, if_false, ih (n / 128) h2, hv]

theorem readUvarint_enc (n : Nat) (rest : Bytes) (h : n < 4294967296) :
    readUvarint (encUvarint n ++ rest) = .ok n rest := by
  have := uvDec_uvEnc 4 15 n rest (by decide) (by simpa using h)
  simp [readUvarint, encUvarint, this]

theorem readUvarlong_enc (n : Nat) (rest : Bytes) (h : n < 18446744073709551616) :
    readUvarlong (uvEnc 10 n ++ rest) = .ok n rest := by
  have := uvDec_uvEnc 9 1 n rest (by decide) (by simpa using h)
  simp [readUvarlong, this]

theorem unzz_zz (i : Int) : unzz (zz i) = i := by
  simp only [unzz, zz]
  split <;> split <;> omega

theorem zz_lt32 (i : Int) (h : inRange (-2147483648) 2147483648 i = true) : zz i < 4294967296 := by
  simp only [inRange, Bool.and_eq_true, decide_eq_true_eq] at h
  simp only [zz]; split <;> omega
theorem zz_lt64 (i : Int) (h : inRange (-9223372036854775808) 9223372036854775808 i = true) : zz i < 18446744073709551616 := by
  simp only [inRange, Bool.and_eq_true, decide_eq_true_eq] at h
  simp only [zz]; split <;> omega

theorem readVarint_enc (i : Int) (rest : Bytes) (h : inRange (-2147483648) 2147483648 i = true) :
    readVarint (encVarint i ++ rest) = .ok i rest := by
  have := readUvarint_enc (zz i) rest (zz_lt32 i h)
  simp only [encUvarint] at this
  simp [readVarint, encVarint, this, unzz_zz]

/-! ### primitive types -/

theorem decPrim_encPrim (p : Prim) (v : Val) (bs rest : Bytes) (h : encPrim p v = some bs) :
    decPrim p (bs ++ rest) = .ok v rest := by
  cases p <;> cases v <;> simp only [encPrim] at h <;> try contradiction
  case bool.int i =>
    by_cases h0 : i = 0
    · simp [h0] at h; subst h; subst h0
      have := readBE_be 1 0 rest
      simp [be, byte] at this
      simp [decPrim, this]
    · by_cases h1 : i = 1
      · simp [h0, h1] at h; subst h; subst h1
        have := readBE_be 1 1 rest
        simp [be, byte] at this
        simp [decPrim, this]
      · simp [h0, h1] at h
  case int8.int i =>
    split at h <;> simp at h; subst h
    rename_i hr
    simp [decPrim, readInt, readBE_be, fromU_toU8 i hr]
  case int16.int i =>
    split at h <;> simp at h; subst h
    rename_i hr
    simp [decPrim, readInt, readBE_be, fromU_toU16 i hr]
  case uint16.int i =>
    split at h <;> simp at h; subst h
    rename_i hr
    simp only [inRange, Bool.and_eq_true, decide_eq_true_eq] at hr
    simp only [decPrim, readUint, readBE_be, Res.map_ok]
    congr 2; omega
  case int32.int i =>
    split at h <;> simp at h; subst h
    rename_i hr
    simp [decPrim, readInt, readBE_be, fromU_toU32 i hr]
  case uint32.int i =>
    split at h <;> simp at h; subst h
    rename_i hr
    simp only [inRange, Bool.and_eq_true, decide_eq_true_eq] at hr
    simp only [decPrim, readUint, readBE_be, Res.map_ok]
    congr 2; omega
  case int64.int i =>
    split at h <;> simp at h; subst h
    rename_i hr
    simp [decPrim, readInt, readBE_be, fromU_toU64 i hr]
  case float64.int i =>
    split at h <;> simp at h; subst h
    rename_i hr
    simp only [inRange, Bool.and_eq_true, decide_eq_true_eq] at hr
    simp only [decPrim, readUint, readBE_be, Res.map_ok]
    congr 2; omega
  case varint.int i =>
    split at h <;> simp at h; subst h
    rename_i hr
    have := readVarint_enc i rest hr
    simp only [encVarint] at this
    simp [decPrim, this]
  case varlong.int i =>
    split at h <;> simp at h; subst h
    rename_i hr
    have := readUvarlong_enc (zz i) rest (zz_lt64 i hr)
    simp [decPrim, readVarlong, this, unzz_zz]
  case uuid.blob b =>
    cases b with
    | none => simp at h
    | some b =>
      simp only at h
      split at h <;> simp at h; subst h
      rename_i hl
      simp [decPrim, span_append b rest 16 (by simp [hl])]

/-! ### strings and bytes -/

theorem readInt16_enc (i : Int) (rest : Bytes) (h : inRange (-32768) 32768 i = true) :
    readInt 2 m16 (encInt16 i ++ rest) = .ok i rest := by
  simp [readInt, encInt16, readBE_be, fromU_toU16 i h]

theorem readInt32_enc (i : Int) (rest : Bytes) (h : inRange (-2147483648) 2147483648 i = true) :
    readInt 4 m32 (encInt32 i ++ rest) = .ok i rest := by
  simp [readInt, encInt32, readBE_be, fromU_toU32 i h]

theorem readInt8_one (rest : Bytes) : readInt 1 m8 ((1 : UInt8) :: rest) = .ok 1 rest := by
  have := readBE_be 1 1 rest
  simp [be, byte] at this
  simp [readInt, this, fromU, m8]

theorem readInt8_255 (rest : Bytes) : readInt 1 m8 ((255 : UInt8) :: rest) = .ok (-1) rest := by
  have := readBE_be 1 255 rest
  simp [be, byte] at this
  simp [readInt, this, fromU, m8]

theorem inRange_of {lo hi i : Int} (h1 : lo ≤ i) (h2 : i < hi) : inRange lo hi i = true := by
  simp [inRange, h1, h2]

/-- the non-null case for each effective kind -/
theorem decStr_some (ver : Int) (flex : Bool) (k : SKind) (b rest : Bytes) (hl : lenOK flex (k.eff ver) b.length = true) :
    decStr ver flex k (encSome flex (k.eff ver) b ++ rest) = .ok (.blob (some b)) rest := by
  have hspan : ∀ l : Int, l = b.length → span l (b ++ rest) = .ok b rest := fun l h => span_append b rest l h
  cases hk : k.eff ver <;> rw [hk] at hl <;> simp only [decStr, hk, encSome, List.append_assoc] <;> cases flex <;>
    simp only [lenOK, if_true, if_false, decide_eq_true_eq, Bool.false_eq_true] at hl <;>
    (try simp only [if_true, if_false, Bool.false_eq_true])
  all_goals first
    | (rw [readUvarint_enc _ _ hl]
       simp only [Res.andThen_ok]
       have e : ((b.length + 1 : Nat) : Int) - 1 = b.length := by omega
       have e1 : ¬ (((b.length + 1 : Nat) : Int) - 1 < 0) := by omega
       have e2 : ¬ (((b.length + 1 : Nat) : Int) - 1 = -1) := by omega
       have e3 : ¬ ((b.length : Int) < 0) := by omega
       simp [e3, hspan _ rfl])
    | (rw [readInt16_enc _ _ (inRange_of (by omega) (by omega))]
       have e1 : ¬ ((b.length : Int) < 0) := by omega
       simp [e1, hspan _ rfl])
    | (rw [readInt32_enc _ _ (inRange_of (by omega) (by omega))]
       have e1 : ¬ ((b.length : Int) < 0) := by omega
       have e2 : ¬ ((b.length : Int) = -1) := by omega
       simp [e1, e2, hspan _ rfl])
    | (rw [readVarint_enc _ _ (inRange_of (by omega) (by omega))]
       have e1 : ¬ ((b.length : Int) < 0) := by omega
       simp [e1, hspan _ rfl])

theorem lenOK_eff (ver : Int) (flex : Bool) (k : SKind) (n : Nat) : lenOK flex (k.eff ver) n = lenOK flex k n := by
  cases k <;> simp only [SKind.eff] <;> try rfl
  split <;> rfl

theorem readUvarint_zero (rest : Bytes) : readUvarint ((0 : UInt8) :: rest) = .ok 0 rest := by
  have := readUvarint_enc 0 rest (by decide)
  simpa [encUvarint, uvEnc, byte] using this

theorem decStr_encStr (ver : Int) (flex : Bool) (k : SKind) (v : Val) (bs rest : Bytes)
    (h : encStr ver flex k v = some bs) : decStr ver flex k (bs ++ rest) = .ok (canonStr ver k v) rest := by
  cases v with
  | blob ob =>
    cases ob with
    | some b =>
      simp only [encStr] at h
      split at h <;> simp at h
      subst h
      rename_i hl
      rw [← lenOK_eff ver] at hl
      simpa [canonStr] using decStr_some ver flex k b rest hl
    | none =>
      cases k with
      | str => simp [encStr, encNull] at h
      | vstr => simp [encStr, encNull] at h
      | nstr n =>
        simp only [encStr] at h
        by_cases hv : ver < n
        · simp only [hv, if_true, Option.some.injEq] at h
          subst h
          have he : (SKind.nstr n).eff ver = .str := by simp [SKind.eff, hv]
          have := decStr_some ver flex (.nstr n) [] rest (by rw [he]; cases flex <;> simp [lenOK])
          rw [he] at this
          simpa [canonStr, he] using this
        · simp only [hv, if_false, encNull, Option.some.injEq] at h
          subst h
          have he : (SKind.nstr n).eff ver = .nstr n := by simp [SKind.eff, hv]
          cases flex
          · have := readInt16_enc (-1) rest (by decide)
            simp [decStr, he, this, canonStr]
          · simp [decStr, he, readUvarint_zero, canonStr]
      | bytes =>
        simp only [encStr, encNull, Option.some.injEq] at h
        subst h
        have := decStr_some ver flex .bytes [] rest (by cases flex <;> simp [lenOK, SKind.eff])
        simpa [canonStr, SKind.eff] using this
      | nbytes =>
        simp only [encStr, encNull, Option.some.injEq] at h
        subst h
        cases flex
        · have := readInt32_enc (-1) rest (by decide)
          simp [decStr, SKind.eff, this, canonStr]
        · simp [decStr, SKind.eff, readUvarint_zero, canonStr]
      | vbytes =>
        simp only [encStr, encNull, Option.some.injEq] at h
        subst h
        have := readVarint_enc (-1) rest (by decide)
        simp [decStr, SKind.eff, this, canonStr]
  | int i => simp [encStr] at h
  | null => simp [encStr] at h
  | list vs => simp [encStr] at h
  | stru a b => simp [encStr] at h

end Proof.C15
