import FranzVerif.Model.Share
/-! Helper lemmas for the share-group history monitor (C12 protocol half): `run` on a concatenation, what an
accepted event tells (`check … = none` unfolded per event kind), the wire-batch ledger as a function of the
history, and the ascending invariant of the batches of one request and partition. -/
namespace Proof.Share
open Model.Share

/-! ### `run` on a concatenation -/

theorem step_eq_some {s s' : St} {ev : Ev} (hs : step s ev = some s') : check s ev = none ∧ s' = apply s ev := by
  unfold step at hs
  split at hs
  · simp at hs; exact ⟨by assumption, hs.symm⟩
  · simp at hs

theorem run_append (s : St) (h₁ h₂ : List Ev) : run s (h₁ ++ h₂) = (run s h₁).bind (fun s' => run s' h₂) := by
  induction h₁ generalizing s with
  | nil => rfl
  | cons e es ih =>
    simp only [List.cons_append, run]
    cases step s e with
    | none => rfl
    | some s' => exact ih s'

/-- an accepted history decomposes at any event: the prefix is accepted, the event passes `check` in the state
the prefix leads to -/
theorem run_split {s₀ : St} {h₁ h₂ : List Ev} {ev : Ev} {s : St} (hacc : run s₀ (h₁ ++ ev :: h₂) = some s) :
    ∃ s₁, run s₀ h₁ = some s₁ ∧ check s₁ ev = none ∧ run (apply s₁ ev) h₂ = some s := by
  rw [run_append] at hacc
  cases h1 : run s₀ h₁ with
  | none => simp [h1] at hacc
  | some s₁ =>
    simp only [h1, Option.bind_some, run] at hacc
    cases hst : step s₁ ev with
    | none => simp [hst] at hacc
    | some s₂ =>
      simp only [hst] at hacc
      obtain ⟨hc, rfl⟩ := step_eq_some hst
      exact ⟨s₁, rfl, hc, hacc⟩

theorem run_snoc {s₀ : St} {h : List Ev} {ev : Ev} {s : St} (hacc : run s₀ (h ++ [ev]) = some s) :
    ∃ s₁, run s₀ h = some s₁ ∧ check s₁ ev = none ∧ s = apply s₁ ev := by
  obtain ⟨s₁, h1, hc, h2⟩ := run_split hacc
  simp [run] at h2
  exact ⟨s₁, h1, hc, h2.symm⟩

/-- the ledgers after an accepted prefix -/
def stateAt (lock : Nat) (h : List Ev) : St := (run (init lock) h).getD {}

theorem stateAt_of_run {lock : Nat} {h : List Ev} {s : St} (hr : run (init lock) h = some s) : stateAt lock h = s := by
  simp [stateAt, hr]

theorem apply_lock (s : St) (e : Ev) : (apply s e).lock = s.lock := by
  cases e <;> simp [apply] <;> (try split) <;> simp

theorem lock_from {h : List Ev} {s₀ s : St} (hr : run s₀ h = some s) : s.lock = s₀.lock := by
  induction h generalizing s₀ with
  | nil => simp [run] at hr; subst hr; rfl
  | cons e es ih =>
    simp only [run] at hr
    cases hst : step s₀ e with
    | none => simp [hst] at hr
    | some s₁ =>
      simp only [hst] at hr
      obtain ⟨_, rfl⟩ := step_eq_some hst
      rw [ih hr, apply_lock]

theorem lock_of_run {lock : Nat} {h : List Ev} {s : St} (hr : run (init lock) h = some s) : s.lock = lock := by
  rw [lock_from hr]; rfl

/-! ### what an accepted event tells -/

theorem wireAck_check {s : St} {m rid part first last ty t : Nat} (h : check s (.wireAck m rid part first last ty t) = none) :
    first ≤ last ∧
    (∀ b, s.batches.find? (fun b => b.rid == rid && b.part == part) = some b → b.last < first) ∧
    unbacked s m part first last ty = false ∧ typeDiffers s m part first last ty = false := by
  simp only [check] at h
  split at h
  · simp at h
  · rename_i hle
    refine ⟨by omega, ?_⟩
    split at h
    · rename_i b hb
      split at h
      · split at h <;> simp at h
      · rename_i hlt
        split at h
        · simp at h
        · split at h
          · simp at h
          · rename_i hu ht
            refine ⟨fun b' hb' => ?_, by simpa using hu, by simpa using ht⟩
            rw [hb] at hb'; cases hb'; omega
    · rename_i hb
      split at h
      · simp at h
      · split at h
        · simp at h
        · rename_i hu ht
          exact ⟨fun b' hb' => (by rw [hb] at hb'; cases hb'), by simpa using hu, by simpa using ht⟩

theorem acquired_check {s : St} {m part first last dc t : Nat} (h : check s (.acquired m part first last dc t) = none) :
    ∀ c ∈ s.confirmed, ¬ (c.1 = part ∧ first ≤ c.2.1 ∧ c.2.1 ≤ last ∧ c.2.2 < t) := by
  simp only [check] at h
  split at h
  · simp at h
  · rename_i hn
    intro c hc hcond
    apply hn
    simp only [List.any_eq_true]
    exact ⟨c, hc, by simp [covers, hcond.1, hcond.2.1, hcond.2.2.1, hcond.2.2.2]⟩

theorem flushEnd_check {s : St} {m : Nat} (h : check s (.flushEnd m true) = none) :
    ∀ u ∈ s.uncalled, ¬ (u.1 = m ∧ u.2.2 = true) := by
  simp only [check] at h
  split at h
  · simp at h
  · rename_i hn
    intro u hu hcond
    apply hn
    simp only [Bool.true_and, List.any_eq_true]
    exact ⟨u, hu, by simp [hcond.1, hcond.2]⟩

/-- the wire batches seen since `n` batches had been seen -/
def batchesSince (s : St) (n : Nat) : List Batch := s.batches.take (s.batches.length - n)

theorem closed_check {s : St} {m : Nat} (h : check s (.closed m) = none) :
    ∀ r ∈ s.openRecs, r.1 = m →
      (∃ b ∈ batchesSince s r.2.2.2, b.m = m ∧ b.part = r.2.1 ∧ b.first ≤ r.2.2.1 ∧ r.2.2.1 ≤ b.last ∧ (b.ty = 1 ∨ b.ty = 2 ∨ b.ty = 3)) ∨
      (m, r.2.1) ∈ s.closeErr := by
  simp only [check] at h
  split at h
  · simp at h
  · rename_i hn
    intro r hr hm
    by_cases h1 : ∃ b ∈ batchesSince s r.2.2.2, b.m = m ∧ b.part = r.2.1 ∧ b.first ≤ r.2.2.1 ∧ r.2.2.1 ≤ b.last ∧ (b.ty = 1 ∨ b.ty = 2 ∨ b.ty = 3)
    · exact Or.inl h1
    · by_cases h2 : (m, r.2.1) ∈ s.closeErr
      · exact Or.inr h2
      · exfalso
        apply hn
        simp only [List.any_eq_true]
        refine ⟨r, hr, ?_⟩
        simp only [Bool.and_eq_true, beq_iff_eq, Bool.not_eq_true', hm, true_and]
        refine ⟨?_, by simpa using h2⟩
        rw [List.any_eq_false]
        intro b hb hcond
        apply h1
        simp only [covers, Bool.and_eq_true, beq_iff_eq, decide_eq_true_eq, Bool.or_eq_true] at hcond
        exact ⟨b, hb, hcond.1.1.1, hcond.1.1.2, hcond.1.2.1, hcond.1.2.2, by
          rcases hcond.2 with (h | h) | h
          · exact Or.inl h
          · exact Or.inr (Or.inl h)
          · exact Or.inr (Or.inr h)⟩

theorem quiesce_check {s : St} (h : check s .quiesce = none) :
    ∀ p ∈ s.pend, p.stage = 0 → p.lost = false → p.m ∉ s.isClosed := by
  simp only [check] at h
  split at h
  · simp at h
  · rename_i hn
    intro p hp h0 hl hc
    apply hn
    simp only [List.any_eq_true]
    exact ⟨p, hp, by simp [h0, hl, hc]⟩

theorem wireRes_check {s : St} {m rid part : Nat} (h : check s (.wireRes m rid part 0) = none) :
    ∀ b ∈ s.batches, b.rid = rid → b.part = part → b.m = m → (b.ty = 1 ∨ b.ty = 3) →
      ∀ o, b.first ≤ o → o ≤ b.last → ∀ a, holder s part o = some a → a.m ≠ m → a.t < b.t → b.t < a.t + s.lock →
        ∃ hb ∈ s.batches, hb.m = a.m ∧ hb.part = part ∧ hb.first ≤ o ∧ o ≤ hb.last ∧ isFinalTy hb.ty = true ∧ a.t ≤ hb.t := by
  simp only [check] at h
  split at h
  · rename_i hc; simp at hc
  · split at h
    · simp at h
    · rename_i _ hn
      intro b hb h1 h2 h3 hty o ho1 ho2 a ha ham hat hlk
      by_cases hex : ∃ hb ∈ s.batches, hb.m = a.m ∧ hb.part = part ∧ hb.first ≤ o ∧ o ≤ hb.last ∧ isFinalTy hb.ty = true ∧ a.t ≤ hb.t
      · exact hex
      · exfalso
        apply hn
        simp only [List.any_eq_true, List.mem_filter]
        refine ⟨b, ⟨hb, by rcases hty with h | h <;> simp [h1, h2, h3, h]⟩, ?_⟩
        refine ⟨o, ?_, ?_⟩
        · simp only [offsetsOf, List.mem_map, List.mem_range]
          exact ⟨o - b.first, by omega, by omega⟩
        · simp only [ha, Bool.and_eq_true, bne_iff_ne, ne_eq, decide_eq_true_eq, Bool.not_eq_true']
          refine ⟨⟨⟨ham, hat⟩, hlk⟩, ?_⟩
          rw [List.any_eq_false]
          intro hb' hhb' hcond
          apply hex
          simp only [covers, Bool.and_eq_true, beq_iff_eq, decide_eq_true_eq] at hcond
          exact ⟨hb', hhb', hcond.1.1.1.1, hcond.1.1.1.2, hcond.1.1.2.1, hcond.1.1.2.2, hcond.1.2, hcond.2⟩

/-! ### the wire-batch ledger as a function of the history -/

/-- every acknowledgement batch on the wire, in order -/
def wireBatches (h : List Ev) : List Batch :=
  h.filterMap (fun e => match e with
    | .wireAck m rid part first last ty t => some ⟨m, rid, part, first, last, ty, t⟩
    | _ => none)

/-- the batches of one request for one partition, in wire order -/
def batchesOf (rid part : Nat) (h : List Ev) : List Batch :=
  (wireBatches h).filter (fun b => b.rid == rid && b.part == part)

theorem apply_batches (s : St) (e : Ev) :
    (apply s e).batches = (match e with
      | .wireAck m rid part first last ty t => [(⟨m, rid, part, first, last, ty, t⟩ : Batch)]
      | _ => []) ++ s.batches := by
  cases e <;> simp [apply] <;> (try split) <;> simp

theorem batches_eq_from {h : List Ev} {s₀ s : St} (hr : run s₀ h = some s) :
    s.batches = (wireBatches h).reverse ++ s₀.batches := by
  induction h generalizing s₀ with
  | nil => simp [run] at hr; subst hr; simp [wireBatches]
  | cons e es ih =>
    simp only [run] at hr
    cases hst : step s₀ e with
    | none => simp [hst] at hr
    | some s₁ =>
      simp only [hst] at hr
      obtain ⟨_, rfl⟩ := step_eq_some hst
      rw [ih hr, apply_batches]
      cases e <;> simp [wireBatches]

theorem batches_eq {lock : Nat} {h : List Ev} {s : St} (hr : run (init lock) h = some s) :
    s.batches = (wireBatches h).reverse := by
  simpa [init] using batches_eq_from hr

/-- Ascending invariant: for every request and partition the batches seen so far (newest first) end strictly
before the later ones start, and each is `first ≤ last`. -/
def AscInv (s : St) : Prop :=
  ∀ rid part, ((s.batches.filter (fun b => b.rid == rid && b.part == part)).Pairwise (fun a b => b.last < a.first)) ∧
    ∀ x ∈ s.batches.filter (fun b => b.rid == rid && b.part == part), x.first ≤ x.last

theorem find?_eq_head_filter {α : Type} (p : α → Bool) (l : List α) : l.find? p = (l.filter p).head? := by
  rw [List.head?_filter]

theorem ascInv_step {s : St} {e : Ev} (hi : AscInv s) (hc : check s e = none) : AscInv (apply s e) := by
  intro rid part
  rw [apply_batches]
  cases e with
  | wireAck m rid' part' first last ty t =>
    obtain ⟨hwf, hprev, _, _⟩ := wireAck_check hc
    simp only [List.singleton_append, List.filter_cons]
    by_cases hk : (rid' == rid && part' == part) = true
    · simp only [hk, if_true]
      obtain ⟨hp, hw⟩ := hi rid part
      have hkk : rid' = rid ∧ part' = part := by simpa using hk
      obtain ⟨rfl, rfl⟩ := hkk
      refine ⟨List.pairwise_cons.2 ⟨?_, hp⟩, ?_⟩
      · intro b hb
        simp only
        -- the newest earlier batch of this request and partition
        cases hf : s.batches.filter (fun b => b.rid == rid' && b.part == part') with
        | nil => rw [hf] at hb; simp at hb
        | cons hd tl =>
          have hfind : s.batches.find? (fun b => b.rid == rid' && b.part == part') = some hd := by
            rw [find?_eq_head_filter, hf]; rfl
          have h1 := hprev hd hfind
          rw [hf] at hb hp hw
          rcases List.mem_cons.1 hb with h2 | h2
          · subst h2; exact h1
          · have h3 := (List.pairwise_cons.1 hp).1 b h2
            have h4 := hw hd (by simp)
            omega
      · intro x hx
        rcases List.mem_cons.1 hx with h2 | h2
        · subst h2; exact hwf
        · exact hw x h2
    · simp only [hk]
      exact hi rid part
  | _ => simpa using hi rid part

theorem ascInv_from {h : List Ev} {s₀ s : St} (h0 : AscInv s₀) (hr : run s₀ h = some s) : AscInv s := by
  induction h generalizing s₀ with
  | nil => simp [run] at hr; subst hr; exact h0
  | cons e es ih =>
    simp only [run] at hr
    cases hst : step s₀ e with
    | none => simp [hst] at hr
    | some s₁ =>
      simp only [hst] at hr
      obtain ⟨hc, rfl⟩ := step_eq_some hst
      exact ih (ascInv_step h0 hc) hr

theorem ascInv_of_run {lock : Nat} {h : List Ev} {s : St} (hr : run (init lock) h = some s) : AscInv s :=
  ascInv_from (by intro _ _; simp [init]) hr

end Proof.Share
