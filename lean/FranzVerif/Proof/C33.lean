import FranzVerif.Model.C33
/-! C33 — helper lemmas (framing, file-level crash of the append protocol, FS lemmas, pairing invariant). -/
open Model.C33
namespace Proof.C33


def CrcRange (crc : Bytes → Nat) : Prop := ∀ bs, crc bs < 4294967296
def Entry.WF (e : Entry) : Prop := e.version < 65536 ∧ e.data.length + 2 < 4294967296

instance (e : Entry) : Decidable (Entry.WF e) := by unfold Entry.WF; infer_instance

instance {β μ} (g : Generation β μ) : Decidable g.noSegOnly := by
  unfold Generation.noSegOnly; split <;> infer_instance

theorem rdLe32_le32 (n : Nat) (h : n < 4294967296) (r : Bytes) : rdLe32 (le32 n ++ r) = n := by
  simp [le32, rdLe32]; omega

theorem rdLe16_le16 (n : Nat) (h : n < 65536) (r : Bytes) : rdLe16 (le16 n ++ r) = n := by
  simp [le16, rdLe16]; omega

theorem le32_length (n : Nat) : (le32 n).length = 4 := by simp [le32]
theorem le16_length (n : Nat) : (le16 n).length = 2 := by simp [le16]

theorem frame_length (crc : Bytes → Nat) (e : Entry) : (frame crc e).length = 10 + e.data.length := by
  simp [frame, le32_length, le16_length]; omega

/-- one loop iteration on a complete frame -/
theorem aux_frame (crc : Bytes → Nat) (hc : CrcRange crc) (e : Entry) (he : Entry.WF e) (fuel : Nat) (rest : Bytes) :
    readEntriesAux crc (fuel + 1) (frame crc e ++ rest) =
      (e :: (readEntriesAux crc fuel rest).1, (frame crc e).length + (readEntriesAux crc fuel rest).2) := by
  obtain ⟨hv, hd⟩ := he
  have hlen : (frame crc e ++ rest).length = 10 + e.data.length + rest.length := by
    simp [frame_length]
  have h1 : rdLe32 (frame crc e ++ rest) = 2 + e.data.length := by
    simp only [frame, List.append_assoc]
    exact rdLe32_le32 _ (by omega) _
  have h2 : rdLe32 ((frame crc e ++ rest).drop 4) = crc (le16 e.version ++ e.data) := by
    have : (frame crc e ++ rest).drop 4 = le32 (crc (le16 e.version ++ e.data)) ++ ((le16 e.version ++ e.data) ++ rest) := by
      simp [frame, le32]
    rw [this]; exact rdLe32_le32 _ (hc _) _
  have h3 : ((frame crc e ++ rest).drop 8).take (2 + e.data.length) = le16 e.version ++ e.data := by
    have : (frame crc e ++ rest).drop 8 = (le16 e.version ++ e.data) ++ rest := by
      simp [frame, le32]
    rw [this]
    have hl : (le16 e.version ++ e.data).length = 2 + e.data.length := by simp [le16_length]
    rw [← hl, List.take_left']
    rfl
  have h4 : (frame crc e ++ rest).drop (8 + (2 + e.data.length)) = rest := by
    have : 8 + (2 + e.data.length) = (frame crc e).length := by rw [frame_length]; omega
    rw [this, List.drop_left']
    rfl
  have h5 : rdLe16 (le16 e.version ++ e.data) = e.version := rdLe16_le16 _ hv _
  have h6 : (le16 e.version ++ e.data).drop 2 = e.data := by simp [le16]
  rw [readEntriesAux]
  simp only [hlen, h1, h2, h3, h4, h5, h6, entryHeaderSize, frame_length]
  have a1 : ¬ (10 + e.data.length + rest.length < 10) := by omega
  have a2 : ¬ (2 + e.data.length < 2) := by omega
  have a3 : ¬ (8 + (2 + e.data.length) > 10 + e.data.length + rest.length) := by omega
  simp [a1, a2, a3]
  omega

/-- enough fuel: the result does not depend on it. -/
theorem aux_fuel (crc : Bytes → Nat) : ∀ (f : Nat) (raw : Bytes) (f' : Nat), raw.length ≤ f → raw.length ≤ f' →
    readEntriesAux crc f raw = readEntriesAux crc f' raw := by
  intro f
  induction f with
  | zero =>
    intro raw f' h _
    have : raw.length = 0 := by omega
    cases f' with
    | zero => rfl
    | succ n => simp [readEntriesAux, entryHeaderSize, this]
  | succ n ih =>
    intro raw f' h h'
    cases f' with
    | zero =>
      have : raw.length = 0 := by omega
      simp [readEntriesAux, entryHeaderSize, this]
    | succ m =>
      rw [readEntriesAux, readEntriesAux]
      by_cases c1 : raw.length < entryHeaderSize
      · simp [c1]
      · by_cases c2 : rdLe32 raw < 2
        · simp [c1, c2]
        · by_cases c3 : 8 + rdLe32 raw > raw.length
          · simp [c1, c2, c3]
          · have hl : (raw.drop (8 + rdLe32 raw)).length ≤ n := by
              simp [List.length_drop]; omega
            have hl' : (raw.drop (8 + rdLe32 raw)).length ≤ m := by
              simp [List.length_drop]; omega
            simp only [ih _ m hl hl']

theorem frames_cons (crc : Bytes → Nat) (e : Entry) (es : List Entry) : frames crc (e :: es) = frame crc e ++ frames crc es := by
  simp [frames]

theorem frames_length_ge (crc : Bytes → Nat) (es : List Entry) : es.length ≤ (frames crc es).length := by
  induction es with
  | nil => simp [frames]
  | cons e es ih => rw [frames_cons, List.length_append, frame_length, List.length_cons]; omega

/-- the loop on complete frames followed by anything -/
theorem aux_frames (crc : Bytes → Nat) (hc : CrcRange crc) (es : List Entry) (hes : ∀ e ∈ es, Entry.WF e) (f : Nat) (rest : Bytes) :
    readEntriesAux crc (es.length + f) (frames crc es ++ rest) =
      (es ++ (readEntriesAux crc f rest).1, (frames crc es).length + (readEntriesAux crc f rest).2) := by
  induction es with
  | nil => simp [frames]
  | cons e es ih =>
    have he : Entry.WF e := hes e (by simp)
    have hes' : ∀ x ∈ es, Entry.WF x := fun x hx => hes x (by simp [hx])
    have : (e :: es).length + f = (es.length + f) + 1 := by simp; omega
    rw [this, frames_cons, List.append_assoc, aux_frame crc hc e he, ih hes']
    simp [List.length_append]; omega

/-- T1: replay of complete frames followed by arbitrary bytes is compositional. -/
theorem readEntries_frames_append (crc : Bytes → Nat) (hc : CrcRange crc) (es : List Entry) (hes : ∀ e ∈ es, Entry.WF e) (rest : Bytes) :
    readEntries crc (frames crc es ++ rest) =
      (es ++ (readEntries crc rest).1, (frames crc es).length + (readEntries crc rest).2) := by
  unfold readEntries
  rw [aux_fuel crc (frames crc es ++ rest).length _ (es.length + (frames crc es ++ rest).length) (Nat.le_refl _) (by omega)]
  rw [aux_frames crc hc es hes]
  rw [aux_fuel crc (frames crc es ++ rest).length rest rest.length (by simp [List.length_append]) (Nat.le_refl _)]

/-- T2: a proper prefix of a frame is ignored (no CRC assumption). -/
theorem readEntries_partial_frame (crc : Bytes → Nat) (e : Entry) (he : Entry.WF e) (n : Nat) (hn : n < (frame crc e).length) :
    readEntries crc ((frame crc e).take n) = ([], 0) := by
  obtain ⟨hv, hd⟩ := he
  rw [frame_length] at hn
  unfold readEntries
  have hl : ((frame crc e).take n).length = n := by
    rw [List.length_take, frame_length]; omega
  rw [hl]
  cases n with
  | zero => rfl
  | succ m =>
    rw [readEntriesAux]
    by_cases c1 : m + 1 < 10
    · simp [hl, entryHeaderSize, c1]
    · have h1 : rdLe32 ((frame crc e).take (m + 1)) = 2 + e.data.length := by
        obtain ⟨k, hk⟩ : ∃ k, m + 1 = k + 4 := ⟨m - 3, by omega⟩
        rw [hk]
        simp only [frame, le32, List.cons_append, List.nil_append, List.take_succ_cons, rdLe32]
        simp; omega
      simp only [hl, h1, entryHeaderSize]
      have a3 : 8 + (2 + e.data.length) > m + 1 := by omega
      simp [c1, a3]


/-! ### file-level crash of the append protocol -/

def runF (f : FileSt) (ops : List FOp) : FileSt := ops.foldl FileSt.step f

theorem appendHist_cons (b : Bytes) (r : List Bytes) : appendHist (b :: r) = .write b :: .sync :: appendHist r := by
  simp [appendHist]

/-- After any prefix of `write e₀, sync, write e₁, sync, …` and any crash, the file holds the first `k/2` records
completely (they were synced) plus, if the crash fell between a write and its sync, a prefix of the next one. -/
theorem crash_appendHist (encs : List Bytes) : ∀ (s0 : Bytes) (k n : Nat),
    ((runF ⟨s0, []⟩ ((appendHist encs).take k)).crash n).all =
      s0 ++ (encs.take (k / 2)).flatten ++ (if k % 2 = 1 then (encs.getD (k / 2) []).take n else []) := by
  induction encs with
  | nil => intro s0 k n; simp [appendHist, runF, FileSt.crash, FileSt.all]
  | cons b r ih =>
    intro s0 k n
    match k with
    | 0 => simp [runF, FileSt.crash, FileSt.all]
    | 1 => simp [appendHist_cons, runF, FileSt.step, FileSt.write, FileSt.crash, FileSt.all]
    | k + 2 =>
      have h1 : (k + 2) / 2 = k / 2 + 1 := by omega
      have h2 : (k + 2) % 2 = k % 2 := by omega
      have := ih (s0 ++ b) k n
      simp only [runF] at this
      simp only [FileSt.all] at this
      simp only [appendHist_cons, runF, List.take_succ_cons, List.foldl_cons, FileSt.step, FileSt.write, FileSt.sync, FileSt.all,
        List.nil_append, h1, h2, List.flatten_cons, List.getD_cons_succ]
      rw [this]
      simp [List.append_assoc]

/-! ### FS lemmas and rename atomicity -/

theorem get_erase_ne (fs : FS) (p q : String) (h : p ≠ q) : (fs.erase p).get q = fs.get q := by
  induction fs with
  | nil => rfl
  | cons x r ih =>
    obtain ⟨a, f⟩ := x
    by_cases c : a = p
    · have hq : ¬ a = q := by intro e; exact h (c.symm.trans e)
      subst c
      simp [FS.erase, FS.get, hq, ih]
    · by_cases d : a = q
      · have hqp : ¬ q = p := fun e => h e.symm
        simp [FS.erase, FS.get, d, hqp]
      · simp [FS.erase, FS.get, c, d, ih]

theorem get_set_eq (fs : FS) (p : String) (f : FileSt) : (fs.set p f).get p = some f := by
  simp [FS.set, FS.get]

theorem get_set_ne (fs : FS) (p q : String) (f : FileSt) (h : p ≠ q) : (fs.set p f).get q = fs.get q := by
  simp [FS.set, FS.get, h, get_erase_ne fs p q h]

theorem get_crash (fs : FS) (keep : String → FileSt → Nat) (p : String) :
    (fs.crash keep).get p = (fs.get p).map (fun f => f.crash (keep p f)) := by
  induction fs with
  | nil => rfl
  | cons x r ih =>
    obtain ⟨a, f⟩ := x
    by_cases c : a = p
    · subst c; simp [FS.crash, FS.get]
    · simp [FS.crash, FS.get, c] at *
      exact ih


/-- `writeJSONFile` (temp file, write, sync, rename): after any prefix of its operations and any crash the target path
holds either what it held before (as it survives the crash) or exactly the new content. -/
theorem writeJSON_old_or_new (fs : FS) (path : String) (data : Bytes) (k : Nat) (keep : String → FileSt → Nat)
    (hne : path ++ ".tmp" ≠ path) :
    (crashImage fs (writeJSONOps path data) k keep).get path = (fs.crash keep).get path ∨
    ((crashImage fs (writeJSONOps path data) k keep).get path).map FileSt.all = some data := by
  have g1 : ((fs.set (path ++ ".tmp") {}).get (path ++ ".tmp")) = some {} := get_set_eq _ _ _
  match k with
  | 0 => left; simp [crashImage, FS.run]
  | 1 =>
    left
    simp [crashImage, FS.run, writeJSONOps, FS.apply, get_crash, get_set_ne _ _ _ _ hne]
  | 2 =>
    left
    simp [crashImage, FS.run, writeJSONOps, FS.apply, get_crash, g1, get_set_ne _ _ _ _ hne]
  | 3 =>
    left
    simp [crashImage, FS.run, writeJSONOps, FS.apply, get_crash, g1, get_set_eq, get_set_ne _ _ _ _ hne]
  | k + 4 =>
    right
    simp [crashImage, FS.run, writeJSONOps, FS.apply, get_crash, g1, get_set_eq, FileSt.write, FileSt.sync, FileSt.all, FileSt.crash]

/-! ### record level: segment / index pairing -/

theorem mem_pairFrom_of_mem_zip {β μ} (seg : List β) : ∀ (idx : List μ) (b : β) (m : μ), (b, m) ∈ seg.zip idx → (b, some m) ∈ pairFrom seg idx := by
  induction seg with
  | nil => intro idx b m h; simp at h
  | cons x xs ih =>
    intro idx b m h
    cases idx with
    | nil => simp at h
    | cons y ys =>
      simp only [List.zip_cons_cons, List.mem_cons, Prod.mk.injEq] at h
      rcases h with ⟨rfl, rfl⟩ | h
      · simp [pairFrom]
      · simp only [pairFrom, List.mem_cons]; right; exact ih ys b m h

/-- the invariant kept when no append is torn with the segment record surviving alone -/
def Aligned {β μ} (s : SegIdx β μ) (acked : List (β × μ)) : Prop :=
  s.idx.length = s.seg.length ∧ ∀ bm ∈ acked, bm ∈ s.seg.zip s.idx

theorem zip_append_single {β μ} (xs : List β) (ys : List μ) (h : ys.length = xs.length) (b : β) (m : μ) :
    (xs ++ [b]).zip (ys ++ [m]) = xs.zip ys ++ [(b, m)] := by
  rw [List.zip_append (by omega)]; rfl

theorem aligned_append {β μ} (s : SegIdx β μ) (A : List (β × μ)) (h : Aligned s A) (b : β) (m : μ) :
    Aligned (s.append b m) (A ++ [(b, m)]) := by
  obtain ⟨hl, hm⟩ := h
  refine ⟨by simp [SegIdx.append, hl], ?_⟩
  intro bm hbm
  simp only [SegIdx.append]
  rw [zip_append_single _ _ hl]
  rcases List.mem_append.mp hbm with h | h
  · exact List.mem_append.mpr (Or.inl (hm bm h))
  · exact List.mem_append.mpr (Or.inr h)

theorem aligned_mono {β μ} (s : SegIdx β μ) (A B : List (β × μ)) (h : Aligned s B) (hs : ∀ x ∈ A, x ∈ B) : Aligned s A :=
  ⟨h.1, fun bm hbm => h.2 bm (hs bm hbm)⟩

theorem aligned_foldl {β μ} (done : List (β × μ)) : ∀ (s : SegIdx β μ) (A : List (β × μ)), Aligned s A →
    Aligned (done.foldl (fun s bm => s.append bm.1 bm.2) s) (A ++ done) := by
  induction done with
  | nil => intro s A h; simpa using h
  | cons x xs ih =>
    intro s A h
    have := ih (s.append x.1 x.2) (A ++ [x]) (aligned_append s A h x.1 x.2)
    simpa [List.append_assoc] using this

theorem aligned_recover {β μ} (s : SegIdx β μ) (A : List (β × μ)) (h : Aligned s A) : Aligned s.recover A := by
  obtain ⟨hl, hm⟩ := h
  have : s.idx.take s.seg.length = s.idx := by rw [← hl]; exact List.take_length
  simp [SegIdx.recover, Aligned, this, hl]
  exact fun a b h => hm (a, b) h

theorem aligned_runGen {β μ} (s : SegIdx β μ) (A : List (β × μ)) (h : Aligned s A) (g : Generation β μ) (hg : g.noSegOnly) :
    Aligned (s.runGen g) (A ++ g.done) := by
  have h1 := aligned_foldl g.done s A h
  unfold SegIdx.runGen
  cases hi : g.inflight with
  | none => simpa [hi] using aligned_recover _ _ h1
  | some x =>
    obtain ⟨b, m, t⟩ := x
    simp only [Generation.noSegOnly, hi] at hg
    cases t with
    | none => simpa [SegIdx.tornAppend] using aligned_recover _ _ h1
    | both =>
      have h2 := aligned_append _ _ h1 b m
      have h3 := aligned_mono _ (A ++ g.done) _ h2 (fun x hx => List.mem_append.mpr (Or.inl hx))
      simpa [SegIdx.tornAppend] using aligned_recover _ _ h3
    | segOnly => exact absurd rfl hg
    | idxOnly =>
      obtain ⟨hl, hm⟩ := h1
      generalize (List.foldl (fun s bm => s.append bm.1 bm.2) s g.done) = s' at hl hm ⊢
      have : (s'.idx ++ [m]).take s'.seg.length = s'.idx := by
        rw [← hl, List.take_left']; rfl
      simp only [SegIdx.tornAppend, SegIdx.recover, this]
      exact ⟨hl, hm⟩

theorem aligned_runGens {β μ} (gs : List (Generation β μ)) : ∀ (s : SegIdx β μ) (A : List (β × μ)), Aligned s A →
    (∀ g ∈ gs, g.noSegOnly) → Aligned (s.runGens gs) (A ++ ackedOf gs) := by
  induction gs with
  | nil => intro s A h _; simpa [SegIdx.runGens, ackedOf] using h
  | cons g gs ih =>
    intro s A h hg
    have h1 := aligned_runGen s A h g (hg g (by simp))
    have := ih (s.runGen g) (A ++ g.done) h1 (fun x hx => hg x (by simp [hx]))
    simpa [SegIdx.runGens, ackedOf, List.append_assoc] using this



/-! ### segment files: RecordBatch framing and the k ↔ k pairing at byte level -/


/-- a complete valid RecordBatch as it sits in a segment file, decoding to `b` -/
def BatchOK (crc : Bytes → Nat) (raw : Bytes) (b : Batch) : Prop :=
  raw.length = 12 + beNat (slice raw 8 4) ∧ beNat (slice raw 8 4) ≤ 1073741824 ∧ decodeBatch crc raw = some b

def metaAt (crc : Bytes → Nat) (idx : Bytes) (k : Nat) : IdxMeta :=
  if k * indexEntrySize + indexEntrySize ≤ idx.length then decodeIndexEntry crc (slice idx (k * indexEntrySize) indexEntrySize) else {}

/-- batch k of the file with index entry k -/
def pairIdx (crc : Bytes → Nat) (idx : Bytes) : Nat → List Batch → List (Batch × IdxMeta)
  | _, [] => []
  | k, b :: r => (b, metaAt crc idx k) :: pairIdx crc idx (k + 1) r

/-- `raws` are complete valid batches decoding to `bs` -/
inductive AllOK (crc : Bytes → Nat) : List Bytes → List Batch → Prop
  | nil : AllOK crc [] []
  | cons {raw b raws bs} : BatchOK crc raw b → AllOK crc raws bs → AllOK crc (raw :: raws) (b :: bs)

theorem slice_append_left (a b : Bytes) (lo n : Nat) (h : lo + n ≤ a.length) : slice (a ++ b) lo n = slice a lo n := by
  unfold slice
  rw [List.drop_append_of_le_length (by omega), List.take_append_of_le_length (by simp [List.length_drop]; omega)]

theorem slice_take (a : Bytes) (lo n m : Nat) (h : lo + n ≤ m) : slice (a.take m) lo n = slice a lo n := by
  unfold slice
  rw [List.drop_take, List.take_take]
  congr 1
  omega

theorem seg_step (crc : Bytes → Nat) (idx : Bytes) (raw : Bytes) (b : Batch) (h : BatchOK crc raw b) (fuel : Nat) (rest : Bytes) (k : Nat) :
    loadSegmentAux crc idx (fuel + 1) (raw ++ rest) k = (b, metaAt crc idx k) :: loadSegmentAux crc idx fuel rest (k + 1) := by
  obtain ⟨hl, hb, hd⟩ := h
  have h12 : 8 + 4 ≤ raw.length := by omega
  have hs : slice (raw ++ rest) 8 4 = slice raw 8 4 := slice_append_left raw rest 8 4 h12
  have ht : (raw ++ rest).take (12 + beNat (slice raw 8 4)) = raw := by rw [← hl, List.take_left']; rfl
  have hdr : (raw ++ rest).drop (12 + beNat (slice raw 8 4)) = rest := by rw [← hl, List.drop_left']; rfl
  rw [loadSegmentAux]
  simp only [hs, ht, hdr, hd, metaAt]
  have a1 : ¬ ((raw ++ rest).length < 12) := by simp [List.length_append]; omega
  have a2 : ¬ (beNat (slice raw 8 4) > 1073741824) := by omega
  have a3 : ¬ (12 + beNat (slice raw 8 4) > (raw ++ rest).length) := by simp [List.length_append]; omega
  simp only [List.length_append] at a1 a3
  simp [a2]
  rw [if_neg (by omega), if_neg (by omega)]

theorem seg_torn (crc : Bytes → Nat) (idx : Bytes) (raw : Bytes) (b : Batch) (h : BatchOK crc raw b) (n : Nat) (hn : n < raw.length)
    (fuel k : Nat) : loadSegmentAux crc idx fuel (raw.take n) k = [] := by
  obtain ⟨hl, hb, hd⟩ := h
  cases fuel with
  | zero => rfl
  | succ f =>
    rw [loadSegmentAux]
    have hlen : (raw.take n).length = n := by rw [List.length_take]; omega
    by_cases c : n < 12
    · simp [hlen, c]
    · have hs : slice (raw.take n) 8 4 = slice raw 8 4 := slice_take raw 8 4 n (by omega)
      have a3 : 12 + beNat (slice raw 8 4) > n := by omega
      simp [hlen, c, hs, a3]

theorem seg_load (crc : Bytes → Nat) (idx : Bytes) (raws : List Bytes) (bs : List Batch) (h : AllOK crc raws bs)
    (raw0 : Bytes) (b0 : Batch) (h0 : BatchOK crc raw0 b0) (n : Nat) (hn : n < raw0.length) :
    ∀ (fuel k : Nat), raws.length ≤ fuel →
      loadSegmentAux crc idx fuel (raws.flatten ++ raw0.take n) k = pairIdx crc idx k bs := by
  induction h with
  | nil => intro fuel k _; simpa [pairIdx] using seg_torn crc idx raw0 b0 h0 n hn fuel k
  | cons hx _ ih =>
    intro fuel k hf
    cases fuel with
    | zero => simp at hf
    | succ f =>
      simp only [List.flatten_cons, List.append_assoc]
      rw [seg_step crc idx _ _ hx, ih f (k + 1) (by simpa using hf)]
      rfl

theorem flatten_length_ge (crc : Bytes → Nat) (raws : List Bytes) (bs : List Batch) (h : AllOK crc raws bs) :
    raws.length ≤ raws.flatten.length := by
  induction h with
  | nil => simp
  | cons hx _ ih => simp only [List.flatten_cons, List.length_append, List.length_cons]; have := hx.1; omega


end Proof.C33
