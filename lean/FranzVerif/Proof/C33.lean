import FranzVerif.Model.C33
/-! C33 — helper lemmas (framing, file-level crash of the append protocol, FS lemmas, pairing invariant, segment
replay at byte level, state logs over generations). -/
open Model.C33
namespace Proof.C33


def CrcRange (crc : Bytes → Nat) : Prop := ∀ bs, crc bs < 4294967296
def Entry.WF (e : Entry) : Prop := e.version < 65536 ∧ e.data.length + 2 < 4294967296

instance (e : Entry) : Decidable (Entry.WF e) := by unfold Entry.WF; infer_instance

theorem rdLe32_le32 (n : Nat) (h : n < 4294967296) (r : Bytes) : rdLe32 (le32 n ++ r) = n := by
  simp [le32, rdLe32]; omega

theorem rdLe16_le16 (n : Nat) (h : n < 65536) (r : Bytes) : rdLe16 (le16 n ++ r) = n := by
  simp [le16, rdLe16]; omega

theorem le32_length (n : Nat) : (le32 n).length = 4 := by simp [le32]
theorem le16_length (n : Nat) : (le16 n).length = 2 := by simp [le16]

theorem frame_length (crc : Bytes → Nat) (e : Entry) : (frame crc e).length = 10 + e.data.length := by
  simp [frame, le32_length, le16_length]; omega

/-- one loop iteration on a complete frame -/
theorem aux_frame (crc : Bytes → Nat) (hc : CrcRange crc) (e : Entry) (he : Entry.WF e) (fuel : Nat) (rest : Bytes) :
    readEntriesAux crc (fuel + 1) (frame crc e ++ rest) =
      (e :: (readEntriesAux crc fuel rest).1, (frame crc e).length + (readEntriesAux crc fuel rest).2) := by
  obtain ⟨hv, hd⟩ := he
  have hlen : (frame crc e ++ rest).length = 10 + e.data.length + rest.length := by
    simp [frame_length]
  have h1 : rdLe32 (frame crc e ++ rest) = 2 + e.data.length := by
    simp only [frame, List.append_assoc]
    exact rdLe32_le32 _ (by omega) _
  have h2 : rdLe32 ((frame crc e ++ rest).drop 4) = crc (le16 e.version ++ e.data) := by
    have : (frame crc e ++ rest).drop 4 = le32 (crc (le16 e.version ++ e.data)) ++ ((le16 e.version ++ e.data) ++ rest) := by
      simp [frame, le32]
    rw [this]; exact rdLe32_le32 _ (hc _) _
  have h3 : ((frame crc e ++ rest).drop 8).take (2 + e.data.length) = le16 e.version ++ e.data := by
    have : (frame crc e ++ rest).drop 8 = (le16 e.version ++ e.data) ++ rest := by
      simp [frame, le32]
    rw [this]
    have hl : (le16 e.version ++ e.data).length = 2 + e.data.length := by simp [le16_length]
    rw [← hl, List.take_left']
    rfl
  have h4 : (frame crc e ++ rest).drop (8 + (2 + e.data.length)) = rest := by
    have : 8 + (2 + e.data.length) = (frame crc e).length := by rw [frame_length]; omega
    rw [this, List.drop_left']
    rfl
  have h5 : rdLe16 (le16 e.version ++ e.data) = e.version := rdLe16_le16 _ hv _
  have h6 : (le16 e.version ++ e.data).drop 2 = e.data := by simp [le16]
  rw [readEntriesAux]
  simp only [hlen, h1, h2, h3, h4, h5, h6, entryHeaderSize, frame_length]
  have a1 : ¬ (10 + e.data.length + rest.length < 10) := by omega
  have a2 : ¬ (2 + e.data.length < 2) := by omega
  have a3 : ¬ (8 + (2 + e.data.length) > 10 + e.data.length + rest.length) := by omega
  simp [a1, a2, a3]
  omega

/-- enough fuel: the result does not depend on it. -/
theorem aux_fuel (crc : Bytes → Nat) : ∀ (f : Nat) (raw : Bytes) (f' : Nat), raw.length ≤ f → raw.length ≤ f' →
    readEntriesAux crc f raw = readEntriesAux crc f' raw := by
  intro f
  induction f with
  | zero =>
    intro raw f' h _
    have : raw.length = 0 := by omega
    cases f' with
    | zero => rfl
    | succ n => simp [readEntriesAux, entryHeaderSize, this]
  | succ n ih =>
    intro raw f' h h'
    cases f' with
    | zero =>
      have : raw.length = 0 := by omega
      simp [readEntriesAux, entryHeaderSize, this]
    | succ m =>
      rw [readEntriesAux, readEntriesAux]
      by_cases c1 : raw.length < entryHeaderSize
      · simp [c1]
      · by_cases c2 : rdLe32 raw < 2
        · simp [c1, c2]
        · by_cases c3 : 8 + rdLe32 raw > raw.length
          · simp [c1, c2, c3]
          · have hl : (raw.drop (8 + rdLe32 raw)).length ≤ n := by
              simp [List.length_drop]; omega
            have hl' : (raw.drop (8 + rdLe32 raw)).length ≤ m := by
              simp [List.length_drop]; omega
            simp only [ih _ m hl hl']

theorem frames_cons (crc : Bytes → Nat) (e : Entry) (es : List Entry) : frames crc (e :: es) = frame crc e ++ frames crc es := by
  simp [frames]

theorem frames_length_ge (crc : Bytes → Nat) (es : List Entry) : es.length ≤ (frames crc es).length := by
  induction es with
  | nil => simp [frames]
  | cons e es ih => rw [frames_cons, List.length_append, frame_length, List.length_cons]; omega

/-- the loop on complete frames followed by anything -/
theorem aux_frames (crc : Bytes → Nat) (hc : CrcRange crc) (es : List Entry) (hes : ∀ e ∈ es, Entry.WF e) (f : Nat) (rest : Bytes) :
    readEntriesAux crc (es.length + f) (frames crc es ++ rest) =
      (es ++ (readEntriesAux crc f rest).1, (frames crc es).length + (readEntriesAux crc f rest).2) := by
  induction es with
  | nil => simp [frames]
  | cons e es ih =>
    have he : Entry.WF e := hes e (by simp)
    have hes' : ∀ x ∈ es, Entry.WF x := fun x hx => hes x (by simp [hx])
    have : (e :: es).length + f = (es.length + f) + 1 := by simp; omega
    rw [this, frames_cons, List.append_assoc, aux_frame crc hc e he, ih hes']
    simp [List.length_append]; omega

/-- T1: replay of complete frames followed by arbitrary bytes is compositional. -/
theorem readEntries_frames_append (crc : Bytes → Nat) (hc : CrcRange crc) (es : List Entry) (hes : ∀ e ∈ es, Entry.WF e) (rest : Bytes) :
    readEntries crc (frames crc es ++ rest) =
      (es ++ (readEntries crc rest).1, (frames crc es).length + (readEntries crc rest).2) := by
  unfold readEntries
  rw [aux_fuel crc (frames crc es ++ rest).length _ (es.length + (frames crc es ++ rest).length) (Nat.le_refl _) (by omega)]
  rw [aux_frames crc hc es hes]
  rw [aux_fuel crc (frames crc es ++ rest).length rest rest.length (by simp [List.length_append]) (Nat.le_refl _)]

/-- T2: a proper prefix of a frame is ignored (no CRC assumption). -/
theorem readEntries_partial_frame (crc : Bytes → Nat) (e : Entry) (he : Entry.WF e) (n : Nat) (hn : n < (frame crc e).length) :
    readEntries crc ((frame crc e).take n) = ([], 0) := by
  obtain ⟨hv, hd⟩ := he
  rw [frame_length] at hn
  unfold readEntries
  have hl : ((frame crc e).take n).length = n := by
    rw [List.length_take, frame_length]; omega
  rw [hl]
  cases n with
  | zero => rfl
  | succ m =>
    rw [readEntriesAux]
    by_cases c1 : m + 1 < 10
    · simp [hl, entryHeaderSize, c1]
    · have h1 : rdLe32 ((frame crc e).take (m + 1)) = 2 + e.data.length := by
        obtain ⟨k, hk⟩ : ∃ k, m + 1 = k + 4 := ⟨m - 3, by omega⟩
        rw [hk]
        simp only [frame, le32, List.cons_append, List.nil_append, List.take_succ_cons, rdLe32]
        simp; omega
      simp only [hl, h1, entryHeaderSize]
      have a3 : 8 + (2 + e.data.length) > m + 1 := by omega
      simp [c1, a3]


/-! ### file-level crash of the append protocol -/

def runF (f : FileSt) (ops : List FOp) : FileSt := ops.foldl FileSt.step f

theorem appendHist_cons (b : Bytes) (r : List Bytes) : appendHist (b :: r) = .write b :: .sync :: appendHist r := by
  simp [appendHist]

/-- After any prefix of `write e₀, sync, write e₁, sync, …` and any crash, the file holds the first `k/2` records
completely (they were synced) plus, if the crash fell between a write and its sync, a prefix of the next one. -/
theorem crash_appendHist (encs : List Bytes) : ∀ (s0 : Bytes) (k n : Nat),
    ((runF ⟨s0, []⟩ ((appendHist encs).take k)).crash n).all =
      s0 ++ (encs.take (k / 2)).flatten ++ (if k % 2 = 1 then (encs.getD (k / 2) []).take n else []) := by
  induction encs with
  | nil => intro s0 k n; simp [appendHist, runF, FileSt.crash, FileSt.all]
  | cons b r ih =>
    intro s0 k n
    match k with
    | 0 => simp [runF, FileSt.crash, FileSt.all]
    | 1 => simp [appendHist_cons, runF, FileSt.step, FileSt.write, FileSt.crash, FileSt.all]
    | k + 2 =>
      have h1 : (k + 2) / 2 = k / 2 + 1 := by omega
      have h2 : (k + 2) % 2 = k % 2 := by omega
      have := ih (s0 ++ b) k n
      simp only [runF] at this
      simp only [FileSt.all] at this
      simp only [appendHist_cons, runF, List.take_succ_cons, List.foldl_cons, FileSt.step, FileSt.write, FileSt.sync, FileSt.all,
        List.nil_append, h1, h2, List.flatten_cons, List.getD_cons_succ]
      rw [this]
      simp [List.append_assoc]

/-! ### FS lemmas and rename atomicity -/

theorem get_erase_ne (fs : FS) (p q : String) (h : p ≠ q) : (fs.erase p).get q = fs.get q := by
  induction fs with
  | nil => rfl
  | cons x r ih =>
    obtain ⟨a, f⟩ := x
    by_cases c : a = p
    · have hq : ¬ a = q := by intro e; exact h (c.symm.trans e)
      subst c
      simp [FS.erase, FS.get, hq, ih]
    · by_cases d : a = q
      · have hqp : ¬ q = p := fun e => h e.symm
        simp [FS.erase, FS.get, d, hqp]
      · simp [FS.erase, FS.get, c, d, ih]

theorem get_set_eq (fs : FS) (p : String) (f : FileSt) : (fs.set p f).get p = some f := by
  simp [FS.set, FS.get]

theorem get_set_ne (fs : FS) (p q : String) (f : FileSt) (h : p ≠ q) : (fs.set p f).get q = fs.get q := by
  simp [FS.set, FS.get, h, get_erase_ne fs p q h]

theorem get_crash (fs : FS) (keep : String → FileSt → Nat) (p : String) :
    (fs.crash keep).get p = (fs.get p).map (fun f => f.crash (keep p f)) := by
  induction fs with
  | nil => rfl
  | cons x r ih =>
    obtain ⟨a, f⟩ := x
    by_cases c : a = p
    · subst c; simp [FS.crash, FS.get]
    · simp [FS.crash, FS.get, c] at *
      exact ih


/-- `writeJSONFile` (temp file, write, sync, rename): after any prefix of its operations and any crash the target path
holds either what it held before (as it survives the crash) or exactly the new content. -/
theorem writeJSON_old_or_new (fs : FS) (path : String) (data : Bytes) (k : Nat) (keep : String → FileSt → Nat)
    (hne : path ++ ".tmp" ≠ path) :
    (crashImage fs (writeJSONOps path data) k keep).get path = (fs.crash keep).get path ∨
    ((crashImage fs (writeJSONOps path data) k keep).get path).map FileSt.all = some data := by
  have g1 : ((fs.set (path ++ ".tmp") {}).get (path ++ ".tmp")) = some {} := get_set_eq _ _ _
  match k with
  | 0 => left; simp [crashImage, FS.run]
  | 1 =>
    left
    simp [crashImage, FS.run, writeJSONOps, FS.apply, get_crash, get_set_ne _ _ _ _ hne]
  | 2 =>
    left
    simp [crashImage, FS.run, writeJSONOps, FS.apply, get_crash, g1, get_set_ne _ _ _ _ hne]
  | 3 =>
    left
    simp [crashImage, FS.run, writeJSONOps, FS.apply, get_crash, g1, get_set_eq, get_set_ne _ _ _ _ hne]
  | k + 4 =>
    right
    simp [crashImage, FS.run, writeJSONOps, FS.apply, get_crash, g1, get_set_eq, FileSt.write, FileSt.sync, FileSt.all, FileSt.crash]




/-! ### record level: segment / index pairing -/

theorem mem_pairFrom_of_mem_zip {β μ} (seg : List β) : ∀ (idx : List μ) (b : β) (m : μ), (b, m) ∈ seg.zip idx → (b, some m) ∈ pairFrom seg idx := by
  induction seg with
  | nil => intro idx b m h; simp at h
  | cons x xs ih =>
    intro idx b m h
    cases idx with
    | nil => simp at h
    | cons y ys =>
      simp only [List.zip_cons_cons, List.mem_cons, Prod.mk.injEq] at h
      rcases h with ⟨rfl, rfl⟩ | h
      · simp [pairFrom]
      · simp only [pairFrom, List.mem_cons]; right; exact ih ys b m h

/-- with as many index records as batches every replayed batch carries an index record -/
theorem pairFrom_all_some {β μ} (seg : List β) : ∀ (idx : List μ), idx.length = seg.length → ∀ p ∈ pairFrom seg idx, p.2.isSome = true := by
  induction seg with
  | nil => intro idx _ p hp; simp [pairFrom] at hp
  | cons x xs ih =>
    intro idx hl p hp
    cases idx with
    | nil => simp at hl
    | cons y ys =>
      simp only [pairFrom, List.mem_cons] at hp
      rcases hp with rfl | hp
      · rfl
      · exact ih ys (by simpa using hl) p hp

/-- the invariant of every history: as many index records as batches, every acknowledged pair at the same position -/
def Aligned {β μ} (s : SegIdx β μ) (acked : List (β × μ)) : Prop :=
  s.idx.length = s.seg.length ∧ ∀ bm ∈ acked, bm ∈ s.seg.zip s.idx

theorem zip_append_single {β μ} (xs : List β) (ys : List μ) (h : ys.length = xs.length) (b : β) (m : μ) :
    (xs ++ [b]).zip (ys ++ [m]) = xs.zip ys ++ [(b, m)] := by
  rw [List.zip_append (by omega)]; rfl

theorem aligned_append {β μ} (s : SegIdx β μ) (A : List (β × μ)) (h : Aligned s A) (b : β) (m : μ) :
    Aligned (s.append b m) (A ++ [(b, m)]) := by
  obtain ⟨hl, hm⟩ := h
  refine ⟨by simp [SegIdx.append, hl], ?_⟩
  intro bm hbm
  simp only [SegIdx.append]
  rw [zip_append_single _ _ hl]
  rcases List.mem_append.mp hbm with h | h
  · exact List.mem_append.mpr (Or.inl (hm bm h))
  · exact List.mem_append.mpr (Or.inr h)

theorem aligned_mono {β μ} (s : SegIdx β μ) (A B : List (β × μ)) (h : Aligned s B) (hs : ∀ x ∈ A, x ∈ B) : Aligned s A :=
  ⟨h.1, fun bm hbm => h.2 bm (hs bm hbm)⟩

theorem aligned_foldl {β μ} (done : List (β × μ)) : ∀ (s : SegIdx β μ) (A : List (β × μ)), Aligned s A →
    Aligned (done.foldl (fun s bm => s.append bm.1 bm.2) s) (A ++ done) := by
  induction done with
  | nil => intro s A h; simpa using h
  | cons x xs ih =>
    intro s A h
    have := ih (s.append x.1 x.2) (A ++ [x]) (aligned_append s A h x.1 x.2)
    simpa [List.append_assoc] using this

/-- restart on equally long files changes nothing -/
theorem recover_of_aligned {β μ} (s : SegIdx β μ) (hl : s.idx.length = s.seg.length) : s.recover = s := by
  cases s with
  | mk seg idx =>
    simp only at hl
    simp only [SegIdx.recover, hl]
    rw [← hl, List.take_length, hl, List.take_length]

theorem aligned_runGen {β μ} (s : SegIdx β μ) (A : List (β × μ)) (h : Aligned s A) (g : Generation β μ) :
    Aligned (s.runGen g) (A ++ g.done) := by
  have h1 := aligned_foldl g.done s A h
  unfold SegIdx.runGen
  generalize (List.foldl (fun s bm => s.append bm.1 bm.2) s g.done) = s' at h1 ⊢
  cases hi : g.inflight with
  | none => rw [recover_of_aligned _ h1.1]; exact h1
  | some x =>
    obtain ⟨b, m, t⟩ := x
    obtain ⟨hl, hm⟩ := h1
    cases t with
    | none => simp only [SegIdx.tornAppend]; rw [recover_of_aligned _ hl]; exact ⟨hl, hm⟩
    | both =>
      have h2 := aligned_append _ _ (⟨hl, hm⟩ : Aligned s' (A ++ g.done)) b m
      have h3 := aligned_mono _ (A ++ g.done) _ h2 (fun x hx => List.mem_append.mpr (Or.inl hx))
      simp only [SegIdx.tornAppend]; rw [recover_of_aligned _ h3.1]; exact h3
    | segOnly =>
      -- the batch without an index record is dropped
      have : (s'.seg ++ [b]).take s'.idx.length = s'.seg := by rw [hl, List.take_left']; rfl
      have h2 : s'.idx.take (s'.seg ++ [b]).length = s'.idx := by
        apply List.take_of_length_le; simp [hl]
      simp only [SegIdx.tornAppend, SegIdx.recover, this, h2]
      exact ⟨hl, hm⟩
    | idxOnly =>
      have : (s'.idx ++ [m]).take s'.seg.length = s'.idx := by rw [← hl, List.take_left']; rfl
      have h2 : s'.seg.take (s'.idx ++ [m]).length = s'.seg := by
        apply List.take_of_length_le; simp [hl]
      simp only [SegIdx.tornAppend, SegIdx.recover, this, h2]
      exact ⟨hl, hm⟩

theorem aligned_runGens {β μ} (gs : List (Generation β μ)) : ∀ (s : SegIdx β μ) (A : List (β × μ)), Aligned s A →
    Aligned (s.runGens gs) (A ++ ackedOf gs) := by
  induction gs with
  | nil => intro s A h; simpa [SegIdx.runGens, ackedOf] using h
  | cons g gs ih =>
    intro s A h
    have h1 := aligned_runGen s A h g
    have := ih (s.runGen g) (A ++ g.done) h1
    simpa [SegIdx.runGens, ackedOf, List.append_assoc] using this



/-! ### segment files: RecordBatch framing and the k ↔ k pairing at byte level -/

/-- a complete valid RecordBatch as it sits in a segment file, decoding to `b` -/
def BatchOK (crc : Bytes → Nat) (raw : Bytes) (b : Batch) : Prop :=
  raw.length = 12 + beNat (slice raw 8 4) ∧ beNat (slice raw 8 4) ≤ 1073741824 ∧ decodeBatch crc raw = some b

def metaAt (crc : Bytes → Nat) (idx : Bytes) (k : Nat) : IdxMeta :=
  decodeIndexEntry crc (slice idx (k * indexEntrySize) indexEntrySize)

/-- batch k of the file with index entry k -/
def pairIdx (crc : Bytes → Nat) (idx : Bytes) : Nat → List Batch → List (Batch × IdxMeta)
  | _, [] => []
  | k, b :: r => (b, metaAt crc idx k) :: pairIdx crc idx (k + 1) r

/-- `raws` are complete valid batches decoding to `bs` -/
inductive AllOK (crc : Bytes → Nat) : List Bytes → List Batch → Prop
  | nil : AllOK crc [] []
  | cons {raw b raws bs} : BatchOK crc raw b → AllOK crc raws bs → AllOK crc (raw :: raws) (b :: bs)

theorem slice_append_left (a b : Bytes) (lo n : Nat) (h : lo + n ≤ a.length) : slice (a ++ b) lo n = slice a lo n := by
  unfold slice
  rw [List.drop_append_of_le_length (by omega), List.take_append_of_le_length (by simp [List.length_drop]; omega)]

theorem slice_take (a : Bytes) (lo n m : Nat) (h : lo + n ≤ m) : slice (a.take m) lo n = slice a lo n := by
  unfold slice
  rw [List.drop_take, List.take_take]
  congr 1
  omega

theorem seg_step (crc : Bytes → Nat) (idx : Bytes) (raw : Bytes) (b : Batch) (h : BatchOK crc raw b) (fuel : Nat) (rest : Bytes) (k : Nat) :
    loadSegmentAux crc (some idx) (fuel + 1) (raw ++ rest) k =
      if k * indexEntrySize + indexEntrySize > idx.length then []
      else (b, metaAt crc idx k) :: loadSegmentAux crc (some idx) fuel rest (k + 1) := by
  obtain ⟨hl, hb, hd⟩ := h
  have h12 : 8 + 4 ≤ raw.length := by omega
  have hs : slice (raw ++ rest) 8 4 = slice raw 8 4 := slice_append_left raw rest 8 4 h12
  have ht : (raw ++ rest).take (12 + beNat (slice raw 8 4)) = raw := by rw [← hl, List.take_left']; rfl
  have hdr : (raw ++ rest).drop (12 + beNat (slice raw 8 4)) = rest := by rw [← hl, List.drop_left']; rfl
  rw [loadSegmentAux]
  simp only [hs, ht, hdr, hd, metaAt]
  have a2 : ¬ (beNat (slice raw 8 4) > 1073741824) := by omega
  simp only [List.length_append]
  rw [if_neg (by omega), if_neg a2, if_neg (by omega)]

theorem seg_torn (crc : Bytes → Nat) (idx : Option Bytes) (raw : Bytes) (b : Batch) (h : BatchOK crc raw b) (n : Nat) (hn : n < raw.length)
    (fuel k : Nat) : loadSegmentAux crc idx fuel (raw.take n) k = [] := by
  obtain ⟨hl, hb, hd⟩ := h
  cases fuel with
  | zero => rfl
  | succ f =>
    rw [loadSegmentAux]
    have hlen : (raw.take n).length = n := by rw [List.length_take]; omega
    by_cases c : n < 12
    · simp [hlen, c]
    · have hs : slice (raw.take n) 8 4 = slice raw 8 4 := slice_take raw 8 4 n (by omega)
      have a3 : 12 + beNat (slice raw 8 4) > n := by omega
      simp [hlen, c, hs, a3]

theorem seg_load (crc : Bytes → Nat) (idx : Bytes) (raws : List Bytes) (bs : List Batch) (h : AllOK crc raws bs)
    (raw0 : Bytes) (b0 : Batch) (h0 : BatchOK crc raw0 b0) (n : Nat) (hn : n < raw0.length) :
    ∀ (fuel k : Nat), raws.length ≤ fuel →
      loadSegmentAux crc (some idx) fuel (raws.flatten ++ raw0.take n) k = pairIdx crc idx k (bs.take (idx.length / 15 - k)) := by
  induction h with
  | nil => intro fuel k _; simpa [pairIdx] using seg_torn crc (some idx) raw0 b0 h0 n hn fuel k
  | cons hx _ ih =>
    intro fuel k hf
    cases fuel with
    | zero => simp at hf
    | succ f =>
      simp only [List.flatten_cons, List.append_assoc]
      rw [seg_step crc idx _ _ hx]
      by_cases hk : k * indexEntrySize + indexEntrySize > idx.length
      · have : idx.length / 15 - k = 0 := by simp only [indexEntrySize] at hk; omega
        simp [hk, this, pairIdx]
      · obtain ⟨j, hj⟩ : ∃ j, idx.length / 15 - k = j + 1 := ⟨idx.length / 15 - k - 1, by simp only [indexEntrySize] at hk; omega⟩
        have hj' : idx.length / 15 - (k + 1) = j := by omega
        rw [if_neg hk, ih f (k + 1) (by simpa using hf), hj, hj']
        simp [pairIdx]

theorem flatten_length_ge (crc : Bytes → Nat) (raws : List Bytes) (bs : List Batch) (h : AllOK crc raws bs) :
    raws.length ≤ raws.flatten.length := by
  induction h with
  | nil => simp
  | cons hx _ ih => simp only [List.flatten_cons, List.length_append, List.length_cons]; have := hx.1; omega



/-! ### state logs over generations -/

/-- what can follow the complete frames after a crash: nothing, or a proper prefix of one frame -/
def TornOK (crc : Bytes → Nat) (t : Bytes) : Prop :=
  t = [] ∨ ∃ e n, Entry.WF e ∧ n < (frame crc e).length ∧ t = (frame crc e).take n

theorem tornOK_read (crc : Bytes → Nat) (t : Bytes) (h : TornOK crc t) : readEntries crc t = ([], 0) := by
  rcases h with rfl | ⟨e, n, he, hn, rfl⟩
  · rfl
  · exact readEntries_partial_frame crc e he n hn

def LogGenWF (g : LogGen) : Prop := ∀ e ∈ g.es, Entry.WF e

instance (g : LogGen) : Decidable (LogGenWF g) := by unfold LogGenWF; infer_instance

theorem frames_append (crc : Bytes → Nat) (a b : List Entry) : frames crc (a ++ b) = frames crc a ++ frames crc b := by
  simp [frames]

theorem logGenStep_spec (crc : Bytes → Nat) (hc : CrcRange crc) (X : List Entry) (hX : ∀ e ∈ X, Entry.WF e)
    (t : Bytes) (ht : TornOK crc t) (g : LogGen) (hg : LogGenWF g) :
    ∃ m, g.k / 2 ≤ m ∧ m ≤ g.k / 2 + 1 ∧ ∃ t', TornOK crc t' ∧
      logGenStep crc (frames crc X ++ t) g = frames crc (X ++ g.es.take m) ++ t' := by
  have hr : readEntries crc (frames crc X ++ t) = (X ++ [], (frames crc X).length + 0) := by
    rw [readEntries_frames_append crc hc X hX, tornOK_read crc t ht]
  have hv : (frames crc X ++ t).take (readEntries crc (frames crc X ++ t)).2 = frames crc X := by
    rw [hr]; simp
  have hc0 := crash_appendHist (g.es.map (frame crc)) (frames crc X) g.k g.n
  simp only [runF] at hc0
  have hf : ∀ j, ((g.es.map (frame crc)).take j).flatten = frames crc (g.es.take j) := by
    intro j; simp [frames, List.map_take]
  have hstep : logGenStep crc (frames crc X ++ t) g =
      frames crc X ++ frames crc (g.es.take (g.k / 2)) ++
        (if g.k % 2 = 1 then ((g.es.map (frame crc)).getD (g.k / 2) []).take g.n else []) := by
    unfold logGenStep
    simp only [hv]
    rw [hc0, hf]
  rw [hstep]
  by_cases hodd : g.k % 2 = 1
  · simp only [hodd, if_true]
    by_cases hlt : g.k / 2 < g.es.length
    · have hget : (g.es.map (frame crc)).getD (g.k / 2) [] = frame crc g.es[g.k / 2] := by
        simp [List.getD_eq_getElem?_getD, hlt]
      rw [hget]
      by_cases hn : g.n < (frame crc g.es[g.k / 2]).length
      · exact ⟨g.k / 2, Nat.le_refl _, by omega, _, Or.inr ⟨_, _, hg _ (List.getElem_mem hlt), hn, rfl⟩, by rw [frames_append]⟩
      · refine ⟨g.k / 2 + 1, by omega, Nat.le_refl _, [], Or.inl rfl, ?_⟩
        have : (frame crc g.es[g.k / 2]).take g.n = frame crc g.es[g.k / 2] := List.take_of_length_le (by omega)
        rw [this, List.take_succ_eq_append_getElem hlt, frames_append, frames_append]
        simp [frames]
    · refine ⟨g.k / 2, Nat.le_refl _, by omega, [], Or.inl rfl, ?_⟩
      have hge : (g.es.map (frame crc)).length ≤ g.k / 2 := by simp; omega
      have : (g.es.map (frame crc)).getD (g.k / 2) [] = [] := by
        rw [List.getD_eq_getElem?_getD, List.getElem?_eq_none hge]; rfl
      rw [this, frames_append]; simp
  · refine ⟨g.k / 2, Nat.le_refl _, by omega, [], Or.inl rfl, ?_⟩
    simp only [hodd, if_false]
    rw [frames_append]

theorem runLog_spec (crc : Bytes → Nat) (hc : CrcRange crc) (gs : List LogGen) :
    (∀ g ∈ gs, LogGenWF g) → ∀ (X : List Entry) (t : Bytes), (∀ e ∈ X, Entry.WF e) → TornOK crc t →
    ∃ ms, LogBounds gs ms ∧ ∃ t', TornOK crc t' ∧
      gs.foldl (logGenStep crc) (frames crc X ++ t) = frames crc (X ++ pickLog gs ms) ++ t' := by
  induction gs with
  | nil => intro _ X t _ ht; exact ⟨[], trivial, t, ht, by simp [pickLog]⟩
  | cons g gs ih =>
    intro hgs X t hX ht
    obtain ⟨m, h1, h2, t1, ht1, hs⟩ := logGenStep_spec crc hc X hX t ht g (hgs g (by simp))
    have hX' : ∀ e ∈ X ++ g.es.take m, Entry.WF e := by
      intro e he
      rcases List.mem_append.mp he with h | h
      · exact hX e h
      · exact hgs g (by simp) e (List.mem_of_mem_take h)
    obtain ⟨ms, hb, t', ht', hr⟩ := ih (fun x hx => hgs x (by simp [hx])) (X ++ g.es.take m) t1 hX' ht1
    refine ⟨m :: ms, ⟨h1, h2, hb⟩, t', ht', ?_⟩
    simp only [List.foldl_cons, hs, hr, pickLog, List.append_assoc]




/-! ### partition snapshots over lineages -/

theorem sum_addLast (l : List Nat) (j : Nat) : (addLast l j).sum = l.sum + j := by
  induction l with
  | nil => by_cases h : j = 0 <;> simp [addLast, h]
  | cons x r ih =>
    cases r with
    | nil => simp [addLast]
    | cons y r' => simp only [addLast, List.sum_cons] at ih ⊢; omega

theorem rbBytes_append (a b : List RB) : rbBytes (a ++ b) = rbBytes a + rbBytes b := by
  simp [rbBytes, List.sum_append]

theorem rbRecs_append (a b : List RB) : rbRecs (a ++ b) = rbRecs a + rbRecs b := by
  simp [rbRecs, List.sum_append]

theorem sum_bytes_flatten (segs : List (List RB)) : (segs.map rbBytes).sum = rbBytes segs.flatten := by
  induction segs with
  | nil => rfl
  | cons s r ih => simp [List.flatten_cons, rbBytes_append, ih]

theorem sum_bytes_filter (segs : List (List RB)) :
    ((segs.filter (fun s => !s.isEmpty)).map rbBytes).sum = rbBytes segs.flatten := by
  induction segs with
  | nil => rfl
  | cons s r ih =>
    cases s with
    | nil => simpa [List.filter, rbBytes] using ih
    | cons b bs =>
      have : rbBytes (b :: (bs ++ r.flatten)) = rbBytes (b :: bs) + rbBytes r.flatten := by
        rw [← rbBytes_append]; rfl
      simp [List.filter, ih, this]

theorem sizes_sum (d : PDisk) : d.sizes.sum = rbBytes d.segs.flatten + d.junk := by
  simp [PDisk.sizes, sum_addLast, sum_bytes_flatten]

theorem bytes_zero_nil (r : List RB) (hp : ∀ b ∈ r, 0 < b.size) (h : rbBytes r = 0) : r = [] := by
  cases r with
  | nil => rfl
  | cons b bs =>
    have := hp b (by simp)
    simp [rbBytes] at h
    omega

/-- every batch has bytes, and a snapshot on disk records the sizes and the high watermark of a PREFIX of the log -/
def PInv (d : PDisk) : Prop :=
  (∀ b ∈ d.segs.flatten, 0 < b.size) ∧
  ∀ sz h, d.snap = some (sz, h) → ∃ p r, d.segs.flatten = p ++ r ∧ sz.sum = rbBytes p ∧ h = rbRecs p

theorem pinv_step {d d' : PDisk} (hi : PInv d) (hs : PStep d d') : PInv d' := by
  obtain ⟨hpos, hsnap⟩ := hi
  cases hs with
  | append b segs' hj hb hf =>
    refine ⟨?_, ?_⟩
    · intro x hx
      simp only [hf, List.mem_append, List.mem_singleton] at hx
      rcases hx with hx | rfl
      · exact hpos x hx
      · exact hb
    · intro sz h hsn
      obtain ⟨p, r, h1, h2, h3⟩ := hsnap sz h hsn
      exact ⟨p, r ++ [b], by simp [hf, h1], h2, h3⟩
  | crash segs' j hf =>
    refine ⟨by simpa [hf] using hpos, ?_⟩
    intro sz h hsn
    obtain ⟨p, r, h1, h2, h3⟩ := hsnap sz h hsn
    exact ⟨p, r, by simp [hf, h1], h2, h3⟩
  | restart => exact ⟨hpos, hsnap⟩
  | close hj =>
    refine ⟨hpos, ?_⟩
    intro sz h hsn
    simp only [Option.some.injEq, Prod.mk.injEq] at hsn
    obtain ⟨rfl, rfl⟩ := hsn
    exact ⟨d.segs.flatten, [], by simp, sum_bytes_filter d.segs, rfl⟩

theorem pinv_reach {d : PDisk} (h : PReach d) : PInv d := by
  induction h with
  | init => exact ⟨fun b hb => by simp at hb, fun sz h hs => by simp at hs⟩
  | step _ hs ih => exact pinv_step ih hs

/-- key lemma: a snapshot whose recorded sizes equal the current file sizes describes exactly the current log -/
theorem snapshot_matches_only_if_current {d : PDisk} (hi : PInv d) (sz : List Nat) (h : Nat) (hs : d.snap = some (sz, h))
    (hm : sz = d.sizes) : h = d.count ∧ d.junk = 0 := by
  obtain ⟨hpos, hsnap⟩ := hi
  obtain ⟨p, r, h1, h2, h3⟩ := hsnap sz h hs
  have hsum : sz.sum = rbBytes d.segs.flatten + d.junk := by rw [hm, sizes_sum]
  rw [h1, rbBytes_append] at hsum
  have hr0 : rbBytes r = 0 := by omega
  have hr : r = [] := bytes_zero_nil r (fun b hb => hpos b (by simp [h1, hb])) hr0
  refine ⟨?_, by omega⟩
  simp [PDisk.count, h1, hr, h3]

theorem recoverHwm_eq_count {d : PDisk} (hi : PInv d) : d.recoverHwm = d.count := by
  unfold PDisk.recoverHwm PDisk.recoverHwmWith
  cases hs : d.snap with
  | none => rfl
  | some x =>
    obtain ⟨sz, h⟩ := x
    by_cases hm : sz = d.sizes
    · have := (snapshot_matches_only_if_current hi sz h hs hm).1
      simp only [this, Nat.min_self, ite_self]
    · simp [hm]


end Proof.C33
