import FranzVerif.Proof.C15c
/-! The generic round trip `dec (enc x ++ rest) = canon x` (mutual induction over `Ty` / `Fields`). -/
namespace Proof.C15
open Model.C15

def DecEnc (t : Ty) : Prop :=
  ∀ (c : Cfg) (flex : Bool) (v : Val) (bs rest : Bytes),
    0 ≤ c.ver → schemaOK c.ver t = true → enc c.ver flex t v = some bs → bs.length + rest.length ≤ c.cap →
    dec c flex t (bs ++ rest) = .ok (canon c.ver t v) rest

/-- `Q1`: the body fields; `Q2`: the tagged fields, applied from a raw tag list that contains exactly the struct's own entries
for every defined tag. -/
def DecEncF (fs : Fields) : Prop :=
  ∀ (c : Cfg) (flex : Bool), 0 ≤ c.ver → schemaOKF c.ver flex fs = true →
    (∀ (vals : Vals) (body rest : Bytes), encFields c.ver flex fs vals = some body → body.length + rest.length ≤ c.cap →
      decFields c flex fs (body ++ rest) = .ok (canonFields c.ver false fs vals) rest) ∧
    (∀ (vals : Vals) (tags raw : List (Nat × Bytes)), flex = true → encTags c.ver flex fs vals = some tags → tagsDistinct fs = true →
      (∀ k ∈ knownTags fs, raw.filter (fun e => e.1 == k) = tags.filter (fun e => e.1 == k)) →
      (∀ e ∈ tags, e.2.length ≤ c.cap) →
      applyTags c flex fs raw (canonFields c.ver false fs vals) = .ok (canonFields c.ver true fs vals) [])

theorem decList_encList (c : Cfg) (flex : Bool) (t : Ty) (ht : DecEnc t) (hv : 0 ≤ c.ver) (hs : schemaOK c.ver t = true) :
    ∀ (vs : Vals) (b rest : Bytes), encList c.ver flex t vs = some b → b.length + rest.length ≤ c.cap →
      decList c flex t vs.length (b ++ rest) = .ok (canonList c.ver t vs) rest := by
  intro vs
  induction vs using Vals.ind with
  | h0 =>
    intro b rest h _
    simp [encList] at h; subst h
    simp [Vals.length, decList, canonList]
  | h1 v r ih =>
    intro b rest h hcap
    simp only [encList] at h
    split at h <;> simp at h
    rename_i a b' ha hb'
    subst h
    simp only [List.length_append] at hcap
    have h1 := ht c flex v a (b' ++ rest) hv hs ha (by simp only [List.length_append]; omega)
    have h2 := ih b' rest hb' (by omega)
    simp [Vals.length, decList, List.append_assoc, h1, h2, canonList]

theorem encTags_keys (ver : Int) (flex : Bool) : ∀ (fs : Fields) (vals : Vals) (tags : List (Nat × Bytes)),
    encTags ver flex fs vals = some tags → ∀ e ∈ tags, e.1 ∈ knownTags fs
  | .nil, vals, tags, h => by
    cases vals <;> simp [encTags] at h
    subst h; intro e he; cases he
  | .cons name minV maxV tag d t rest, vals, tags, h => by
    cases vals with
    | nil => simp [encTags] at h
    | cons v r =>
      simp only [encTags] at h
      split at h <;> try contradiction
      rename_i l hl
      have ih := encTags_keys ver flex rest r l hl
      cases tag with
      | none =>
        simp at h; subst h
        simpa [knownTags] using ih
      | some k =>
        simp only at h
        split at h
        · simp at h; subst h
          intro e he; simp [knownTags, ih e he]
        · split at h <;> simp at h
          subst h
          intro e he
          simp only [List.mem_cons] at he
          cases he with
          | inl he => subst he; simp [knownTags]
          | inr he => simp [knownTags, ih e he]

end Proof.C15
