import FranzVerif.Model.Txn
/-! History-level observables and helper lemmas for `Model.TxnOffsets` (C11, offsets half; `tofs` scenarios).

* observables: what a history says, independent of the monitor state (`wantsOf`, `resultsOf`, `observationsOf`, ...);
* `field_run`: every list field of the state reached by `run` is the reversed observable;
* `Good`: the state invariant (a transaction has one result, one want per partition, results only for transactions
  whose End was called, record ids unique, visible records belong to transactions reported committed);
* what an accepted `observe` / `final` / `coord` / `output` / `quiesce` event tells (`…_check`);
* `no_want_after_started`: the offsets a transaction sets out to commit are all logged before its End is called. -/
namespace Proof.TxnOffsets
open Model.TxnOffsets

/-! ### observables -/

def wantEv : Ev → Option (Nat × Nat × Int) | .want t p o => some (t, p, o) | _ => none
def resultEv : Ev → Option (Nat × Res) | .endDone _ t r => some (t, r) | _ => none
def startEv : Ev → Option (Nat × Bool) | .endStart _ t c => some (t, c) | _ => none
def obsEv : Ev → Option (Nat × Nat × Int) | .observe _ t p o => some (t, p, o) | _ => none
def finalEv : Ev → Option (Nat × Int) | .final p o => some (p, o) | _ => none
def coordEv : Ev → Option (Nat × Bool) | .coord _ t o => some (t, o) | _ => none
def produceEv : Ev → Option (Id × Nat) | .produce t id => some (id, t) | _ => none
def ackEv : Ev → Option Id | .promise id true => some id | _ => none
def visEv : Ev → Option Id | .output _ _ id => some id | _ => none

/-- `(t, part, off)`: transaction `t` polled from `part` and set out to commit `off` -/
def wantsOf (h : List Ev) : List (Nat × Nat × Int) := h.filterMap wantEv
/-- `(t, res)`: what End reported for `t` -/
def resultsOf (h : List Ev) : List (Nat × Res) := h.filterMap resultEv
/-- `(t, commit requested)`: End was called for `t` -/
def startsOf (h : List Ev) : List (Nat × Bool) := h.filterMap startEv
/-- `(t, part, off)`: the group's committed offset of `part` read right after the End of `t` returned -/
def observationsOf (h : List Ev) : List (Nat × Nat × Int) := h.filterMap obsEv
/-- `(part, off)`: the group's committed offsets at the end of the scenario -/
def finalsOf (h : List Ev) : List (Nat × Int) := h.filterMap finalEv
/-- `(t, open)`: the coordinator's state of the transactional id read right after the End of `t` returned -/
def coordsOf (h : List Ev) : List (Nat × Bool) := h.filterMap coordEv
def producedOf (h : List Ev) : List (Id × Nat) := h.filterMap produceEv
def ackedOf (h : List Ev) : List Id := h.filterMap ackEv
def visibleIds (h : List Ev) : List Id := h.filterMap visEv
def isIncomplete (h : List Ev) : Bool := h.any (fun e => e == .incomplete)
/-- the most recent observation of `part` in `h` (`-1` when there is none: nothing is committed at the start) -/
def lastObserved (part : Nat) (h : List Ev) : Int :=
  match (observationsOf h).reverse.find? (·.2.1 == part) with | some x => x.2.2 | none => -1

/-! ### `run` -/

theorem step_eq_some {s s' : St} {ev : Ev} (hs : step s ev = some s') : check s ev = none ∧ s' = apply s ev := by
  unfold step at hs
  split at hs
  · simp at hs; exact ⟨by assumption, hs.symm⟩
  · simp at hs

theorem run_cons {s s' : St} {e : Ev} {es : List Ev} (hr : run s (e :: es) = some s') :
    check s e = none ∧ run (apply s e) es = some s' := by
  simp only [run] at hr
  cases hs : step s e with
  | none => simp [hs] at hr
  | some s1 =>
    simp only [hs] at hr
    obtain ⟨hchk, rfl⟩ := step_eq_some hs
    exact ⟨hchk, hr⟩

theorem run_append (s : St) (h₁ h₂ : List Ev) : run s (h₁ ++ h₂) = (run s h₁).bind (fun s' => run s' h₂) := by
  induction h₁ generalizing s with
  | nil => rfl
  | cons e es ih =>
    simp only [List.cons_append, run]
    cases step s e with
    | none => rfl
    | some s' => exact ih s'

theorem run_split {s₀ : St} {h₁ h₂ : List Ev} {ev : Ev} {s : St} (hacc : run s₀ (h₁ ++ ev :: h₂) = some s) :
    ∃ s₁, run s₀ h₁ = some s₁ ∧ check s₁ ev = none ∧ run (apply s₁ ev) h₂ = some s := by
  rw [run_append] at hacc
  cases h1 : run s₀ h₁ with
  | none => simp [h1] at hacc
  | some s₁ =>
    simp only [h1, Option.bind_some] at hacc
    obtain ⟨hchk, hr⟩ := run_cons hacc
    exact ⟨s₁, rfl, hchk, hr⟩

theorem run_snoc {s₀ : St} {h : List Ev} {ev : Ev} {s : St} (hacc : run s₀ (h ++ [ev]) = some s) :
    ∃ s₁, run s₀ h = some s₁ ∧ check s₁ ev = none := by
  obtain ⟨s₁, h1, h2, _⟩ := run_split hacc
  exact ⟨s₁, h1, h2⟩

/-! ### the list fields of the state are the reversed observables -/

theorem field_run {α : Type} (f : St → List α) (g : Ev → Option α)
    (hstep : ∀ s ev, f (apply s ev) = (g ev).toList ++ f s) :
    ∀ (h : List Ev) (s₀ s : St), run s₀ h = some s → f s = (h.filterMap g).reverse ++ f s₀
  | [], s₀, s, hr => by simp [run] at hr; subst hr; simp
  | e :: es, s₀, s, hr => by
    obtain ⟨_, hr'⟩ := run_cons hr
    rw [field_run f g hstep es _ _ hr', hstep]
    cases hg : g e <;> simp [hg]

theorem wants_step (s : St) (ev : Ev) : (apply s ev).wants = (wantEv ev).toList ++ s.wants := by
  cases ev <;> simp only [apply, wantEv] <;> (try split) <;> rfl
theorem results_step (s : St) (ev : Ev) : (apply s ev).results = (resultEv ev).toList ++ s.results := by
  cases ev <;> simp only [apply, resultEv] <;> (try split) <;> rfl
theorem started_step (s : St) (ev : Ev) : (apply s ev).started = (startEv ev).toList ++ s.started := by
  cases ev <;> simp only [apply, startEv] <;> (try split) <;> rfl
theorem obs_step (s : St) (ev : Ev) : (apply s ev).obs = (obsEv ev).toList ++ s.obs := by
  cases ev <;> simp only [apply, obsEv] <;> (try split) <;> rfl
theorem recs_step (s : St) (ev : Ev) : (apply s ev).recs = (produceEv ev).toList ++ s.recs := by
  cases ev <;> simp only [apply, produceEv] <;> (try split) <;> rfl
theorem vis_step (s : St) (ev : Ev) : (apply s ev).vis = (visEv ev).toList ++ s.vis := by
  cases ev <;> simp only [apply, visEv] <;> (try split) <;> rfl
theorem acked_step (s : St) (ev : Ev) : (apply s ev).acked = (ackEv ev).toList ++ s.acked := by
  cases ev with
  | promise id ok => cases ok <;> simp [apply, ackEv]
  | fault key act t c => simp only [apply, ackEv]; split <;> rfl
  | _ => simp [apply, ackEv]
theorem single_step (s : St) (ev : Ev) : (apply s ev).single = s.single := by
  cases ev <;> simp only [apply] <;> (try split) <;> rfl

theorem single_run : ∀ (h : List Ev) (s₀ s : St), run s₀ h = some s → s.single = s₀.single
  | [], s₀, s, hr => by simp [run] at hr; subst hr; rfl
  | e :: es, s₀, s, hr => by
    obtain ⟨_, hr'⟩ := run_cons hr
    rw [single_run es _ _ hr', single_step]

theorem incomplete_run : ∀ (h : List Ev) (s₀ s : St), run s₀ h = some s → s.incomplete = (s₀.incomplete || isIncomplete h)
  | [], s₀, s, hr => by simp [run] at hr; subst hr; simp [isIncomplete]
  | e :: es, s₀, s, hr => by
    obtain ⟨_, hr'⟩ := run_cons hr
    rw [incomplete_run es _ _ hr']
    have : (apply s₀ e).incomplete = (s₀.incomplete || e == .incomplete) := by
      cases e <;> simp only [apply] <;> (try split) <;> simp
    rw [this]
    simp [isIncomplete, Bool.or_assoc]

/-- the state reached from an initial state (all lists empty) -/
structure Links (h : List Ev) (s : St) : Prop where
  wants : s.wants = (wantsOf h).reverse
  results : s.results = (resultsOf h).reverse
  started : s.started = (startsOf h).reverse
  obs : s.obs = (observationsOf h).reverse
  recs : s.recs = (producedOf h).reverse
  acked : s.acked = (ackedOf h).reverse
  vis : s.vis = (visibleIds h).reverse
  incomplete : s.incomplete = isIncomplete h

theorem links_of_run {single : Bool} {h : List Ev} {s : St} (hr : run { single := single } h = some s) : Links h s := by
  constructor
  · simpa [wantsOf] using field_run (·.wants) wantEv wants_step h _ _ hr
  · simpa [resultsOf] using field_run (·.results) resultEv results_step h _ _ hr
  · simpa [startsOf] using field_run (·.started) startEv started_step h _ _ hr
  · simpa [observationsOf] using field_run (·.obs) obsEv obs_step h _ _ hr
  · simpa [producedOf] using field_run (·.recs) produceEv recs_step h _ _ hr
  · simpa [ackedOf] using field_run (·.acked) ackEv acked_step h _ _ hr
  · simpa [visibleIds] using field_run (·.vis) visEv vis_step h _ _ hr
  · simpa using incomplete_run h _ _ hr

/-! ### lists with unique keys -/

theorem nodup_reverse {α : Type} {l : List α} (h : l.Nodup) : l.reverse.Nodup := by
  unfold List.Nodup at h ⊢
  rw [List.pairwise_reverse]
  exact h.imp (fun hab => Ne.symm hab)

/-- two entries with the same key, in a list whose keys are unique, are equal -/
theorem eq_of_key_nodup {α κ : Type} (key : α → κ) {l : List α} (hn : (l.map key).Nodup) {a b : α}
    (ha : a ∈ l) (hb : b ∈ l) (hk : key a = key b) : a = b := by
  induction l with
  | nil => cases ha
  | cons x xs ih =>
    simp only [List.map_cons, List.nodup_cons, List.mem_map, not_exists, not_and] at hn
    rcases List.mem_cons.1 ha with e1 | ha' <;> rcases List.mem_cons.1 hb with e2 | hb'
    · rw [e1, e2]
    · subst e1; exact absurd hk.symm (hn.1 b hb')
    · subst e2; exact absurd hk (hn.1 a ha')
    · exact ih hn.2 ha' hb'

/-! ### lookups -/

theorem resultOf_some {s : St} {t : Nat} {r : Res} (h : resultOf s t = some r) : (t, r) ∈ s.results := by
  unfold resultOf at h
  cases hf : s.results.find? (·.1 == t) with
  | none => simp [hf] at h
  | some x =>
    simp only [hf, Option.map_some, Option.some.injEq] at h
    have hm := List.mem_of_find?_eq_some hf
    have hk := List.find?_some hf
    obtain ⟨x1, x2⟩ := x
    simp only [beq_iff_eq] at hk
    simp only at h
    subst hk h
    exact hm

theorem resultOf_none {s : St} {t : Nat} (h : resultOf s t = none) : ∀ r, (t, r) ∉ s.results := by
  unfold resultOf at h
  cases hf : s.results.find? (·.1 == t) with
  | some x => simp [hf] at h
  | none =>
    rw [List.find?_eq_none] at hf
    intro r hm
    exact absurd (by simp) (hf _ hm)

theorem resultOf_of_mem {s : St} (hn : (s.results.map (·.1)).Nodup) {t : Nat} {r : Res}
    (hm : (t, r) ∈ s.results) : resultOf s t = some r := by
  cases hr : resultOf s t with
  | none => exact absurd hm (resultOf_none hr r)
  | some r' =>
    have := eq_of_key_nodup (·.1) hn (resultOf_some hr) hm rfl
    rw [(Prod.mk.inj this).2]

theorem wantOf_of_mem {s : St} (hn : (s.wants.map (fun w => (w.1, w.2.1))).Nodup) {t p : Nat} {w : Int}
    (hm : (t, p, w) ∈ s.wants) : wantOf s t p = some w := by
  unfold wantOf
  cases hf : s.wants.find? (fun w => w.1 == t && w.2.1 == p) with
  | none =>
    rw [List.find?_eq_none] at hf
    exact absurd (by simp) (hf _ hm)
  | some x =>
    have hx := List.mem_of_find?_eq_some hf
    have hk := List.find?_some hf
    simp only [Bool.and_eq_true, beq_iff_eq] at hk
    have : x = (t, p, w) := eq_of_key_nodup (fun w => (w.1, w.2.1)) hn hx hm (by simp [hk.1, hk.2])
    subst this; rfl

theorem txnOf_some {s : St} {id : Id} {t : Nat} (h : txnOf s id = some t) : (id, t) ∈ s.recs := by
  unfold txnOf at h
  cases hf : s.recs.find? (·.1 == id) with
  | none => simp [hf] at h
  | some x =>
    simp only [hf, Option.map_some, Option.some.injEq] at h
    have hm := List.mem_of_find?_eq_some hf
    have hk := List.find?_some hf
    obtain ⟨x1, x2⟩ := x
    simp only [beq_iff_eq] at hk
    simp only at h
    subst hk h
    exact hm

theorem lastOf_eq {h : List Ev} {s : St} (hl : Links h s) (p : Nat) : lastOf s p = lastObserved p h := by
  unfold lastOf lastObserved
  rw [hl.obs]
  cases List.find? (fun x => x.2.1 == p) (observationsOf h).reverse <;> rfl

/-! ### what an accepted event tells -/

theorem want_check {s : St} {t p : Nat} {o : Int} (h : check s (.want t p o) = none) :
    (∀ x ∈ s.started, x.1 ≠ t) ∧ (∀ w ∈ s.wants, ¬(w.1 = t ∧ w.2.1 = p)) := by
  simp only [check] at h
  split at h
  · cases h
  · rename_i h1
    split at h
    · cases h
    · rename_i h2
      constructor
      · intro x hx he
        apply h1
        rw [List.any_eq_true]
        exact ⟨x, hx, by simpa using he⟩
      · intro w hw he
        apply h2
        rw [List.any_eq_true]
        exact ⟨w, hw, by simp [he.1, he.2]⟩

theorem produce_check {s : St} {t : Nat} {id : Id} (h : check s (.produce t id) = none) : ∀ r ∈ s.recs, r.1 ≠ id := by
  simp only [check] at h
  split at h
  · cases h
  · rename_i hn
    intro r hr he
    apply hn
    rw [List.any_eq_true]
    exact ⟨r, hr, by simpa using he⟩

theorem endDone_check {s : St} {m t : Nat} {res : Res} (h : check s (.endDone m t res) = none) :
    (∀ r ∈ s.results, r.1 ≠ t) ∧ t ∈ s.started.map (·.1) := by
  simp only [check] at h
  split at h
  · cases h
  · rename_i hn
    constructor
    · intro r hr he
      apply hn
      rw [List.any_eq_true]
      exact ⟨r, hr, by simpa using he⟩
    · split at h
      · cases h
      · rename_i c hf
        have hm := List.mem_of_find?_eq_some hf
        have hk := List.find?_some hf
        simp only [beq_iff_eq] at hk
        exact List.mem_map.2 ⟨_, hm, hk⟩

theorem output_check {s : St} {part off : Nat} {id : Id} (h : check s (.output part off id) = none) :
    id ∉ s.vis ∧ ∃ t, txnOf s id = some t ∧ resultOf s t = some .committed := by
  simp only [check] at h
  split at h
  · cases h
  · rename_i t ht
    split at h
    · cases h
    · rename_i hn
      refine ⟨by simpa using hn, t, ht, ?_⟩
      split at h
      · assumption
      · cases h
      · split at h <;> cases h
      · cases h

theorem justified_iff {s : St} {p : Nat} {off : Int} :
    justified s p off = true ↔ off = -1 ∨ ∃ w ∈ s.wants, w.2.1 = p ∧ w.2.2 = off ∧ mayCommit s w.1 = true := by
  simp [justified, List.any_eq_true, and_assoc]

theorem mayCommit_iff {s : St} {t : Nat} :
    mayCommit s t = true ↔ resultOf s t = some .committed ∨ (s.single = false ∧ t ∈ s.ending ∧ resultOf s t = none) := by
  simp [mayCommit, and_assoc]

/-- an accepted observation: the offset is explained, the transaction has a result, and the result's rule holds -/
theorem observe_check {s : St} {m t p : Nat} {off : Int} (h : check s (.observe m t p off) = none) :
    justified s p off = true ∧ ∃ r, resultOf s t = some r ∧
      (r = .committed → ∀ w, wantOf s t p = some w → w ≤ off ∧ (s.single = true → off = w)) ∧
      (r ≠ .committed → s.single = true → off = lastOf s p) := by
  simp only [check] at h
  split at h
  · cases h
  · rename_i hj
    refine ⟨by simpa using hj, ?_⟩
    split at h
    · cases h
    · rename_i hr
      refine ⟨_, hr, ?_, by intro hne; exact absurd rfl hne⟩
      intro _ w hw
      rw [hw] at h
      simp only at h
      split at h
      · cases h
      · rename_i hlt
        split at h
        · cases h
        · rename_i hne
          refine ⟨by omega, ?_⟩
          intro hs
          simpa [hs] using hne
    · rename_i hr
      refine ⟨_, hr, ?_, ?_⟩
      · intro hc; cases hc
      · intro _ hs
        split at h
        · cases h
        · rename_i hne
          simpa [hs] using hne
    · rename_i hr
      refine ⟨_, hr, ?_, ?_⟩
      · intro hc; cases hc
      · intro _ hs
        split at h
        · cases h
        · rename_i hne
          simpa [hs] using hne

theorem final_check {s : St} {p : Nat} {off : Int} (h : check s (.final p off) = none) : justified s p off = true := by
  simp only [check] at h
  split at h
  · cases h
  · rename_i hj
    simpa using hj

theorem coord_check {s : St} {m t : Nat} {o : Bool} (h : check s (.coord m t o) = none) :
    ∃ r, resultOf s t = some r ∧ (o = true → r ≠ .committed) := by
  simp only [check] at h
  split at h
  · cases h
  · rename_i r hr
    refine ⟨r, hr, ?_⟩
    intro ho hc
    subst ho hc
    simp at h

theorem quiesce_check {s : St} (h : check s .quiesce = none) (hinc : s.incomplete = false) :
    (∀ r ∈ s.recs, r.1 ∈ s.acked → resultOf s r.2 = some .committed → r.1 ∈ s.vis) ∧
    (∀ w ∈ s.wants, resultOf s w.1 = some .committed → ∃ o ∈ s.obs, o.1 = w.1 ∧ o.2.1 = w.2.1) := by
  simp only [check, hinc, Bool.false_eq_true, if_false] at h
  split at h
  · cases h
  · rename_i h1
    split at h
    · cases h
    · rename_i h2
      constructor
      · intro r hr ha hres
        false_or_by_contra
        rename_i hcon
        apply h1
        rw [List.any_eq_true]
        exact ⟨r, hr, by simp [ha, hres, hcon]⟩
      · intro w hw hres
        false_or_by_contra
        rename_i hcon
        apply h2
        rw [List.any_eq_true]
        refine ⟨w, hw, ?_⟩
        simp only [hres, beq_self_eq_true, Bool.true_and, Bool.not_eq_true', List.any_eq_false]
        intro o ho he
        apply hcon
        simp only [Bool.and_eq_true, beq_iff_eq] at he
        exact ⟨o, ho, he.1, he.2⟩


/-! ### the state invariant -/

structure Good (s : St) : Prop where
  /-- a transaction is ended at most once -/
  resNodup : (s.results.map (·.1)).Nodup
  /-- a transaction sets out to commit one offset per partition -/
  wantsNodup : (s.wants.map (fun w => (w.1, w.2.1))).Nodup
  /-- End reported only for transactions whose End was called -/
  resStarted : ∀ x ∈ s.results, x.1 ∈ s.started.map (·.1)
  /-- a transaction "in End" was ended with TryCommit -/
  endingStarted : ∀ t ∈ s.ending, (t, true) ∈ s.started
  recsNodup : (s.recs.map (·.1)).Nodup
  visNodup : s.vis.Nodup
  /-- a visible record was produced by a transaction whose End had reported a successful commit -/
  visOk : ∀ id ∈ s.vis, ∃ t, (id, t) ∈ s.recs ∧ (t, Res.committed) ∈ s.results

theorem Good.init (single : Bool) : Good { single := single } := by
  constructor <;> simp

/-- `Good` only reads six fields -/
theorem Good.congr {s s' : St} (hg : Good s) (e1 : s'.results = s.results) (e2 : s'.wants = s.wants)
    (e3 : s'.started = s.started) (e4 : s'.ending = s.ending) (e5 : s'.recs = s.recs) (e6 : s'.vis = s.vis) : Good s' := by
  constructor
  · rw [e1]; exact hg.resNodup
  · rw [e2]; exact hg.wantsNodup
  · rw [e1, e3]; exact hg.resStarted
  · rw [e4, e3]; exact hg.endingStarted
  · rw [e5]; exact hg.recsNodup
  · rw [e6]; exact hg.visNodup
  · rw [e6, e5, e1]; exact hg.visOk

/-- an event that is none of `endDone`, `want`, `endStart`, `produce`, `output` and leaves `ending` alone -/
theorem Good.of_same {s : St} (hg : Good s) (ev : Ev) (h1 : resultEv ev = none) (h2 : wantEv ev = none)
    (h3 : startEv ev = none) (h5 : produceEv ev = none) (h6 : visEv ev = none)
    (h4 : (apply s ev).ending = s.ending) : Good (apply s ev) :=
  hg.congr (by rw [results_step, h1]; rfl) (by rw [wants_step, h2]; rfl) (by rw [started_step, h3]; rfl) h4
    (by rw [recs_step, h5]; rfl) (by rw [vis_step, h6]; rfl)

theorem Good.step {s : St} (hg : Good s) (ev : Ev) (hchk : check s ev = none) : Good (apply s ev) := by
  cases ev with
  | memberStart m slot => exact hg
  | memberStop m => exact hg
  | memberKill m t => exact hg
  | begin_ m t ok => exact hg
  | retry m t r => exact hg
  | coord m t o => exact hg
  | final p o => exact hg
  | promise id ok => exact hg.of_same _ rfl rfl rfl rfl rfl (by cases ok <;> rfl)
  | observe m t p o => exact hg.of_same _ rfl rfl rfl rfl rfl rfl
  | fault key act t c => exact hg.of_same _ rfl rfl rfl rfl rfl (by simp only [apply]; split <;> rfl)
  | incomplete => exact hg.of_same _ rfl rfl rfl rfl rfl rfl
  | quiesce => exact hg.of_same _ rfl rfl rfl rfl rfl rfl
  | want t p o =>
    obtain ⟨_, hnew⟩ := want_check hchk
    refine ⟨hg.resNodup, ?_, hg.resStarted, hg.endingStarted, hg.recsNodup, hg.visNodup, hg.visOk⟩
    show (((t, p, o) :: s.wants).map (fun w => (w.1, w.2.1))).Nodup
    rw [List.map_cons, List.nodup_cons]
    refine ⟨?_, hg.wantsNodup⟩
    intro hm
    obtain ⟨w, hw, he⟩ := List.mem_map.1 hm
    simp only [Prod.mk.injEq] at he
    exact hnew w hw he
  | produce t id =>
    have hnew := produce_check hchk
    refine ⟨hg.resNodup, hg.wantsNodup, hg.resStarted, hg.endingStarted, ?_, hg.visNodup, ?_⟩
    · show (((id, t) :: s.recs).map (·.1)).Nodup
      rw [List.map_cons, List.nodup_cons]
      refine ⟨?_, hg.recsNodup⟩
      intro hm
      obtain ⟨r, hr, he⟩ := List.mem_map.1 hm
      exact hnew r hr he
    · intro i hi
      obtain ⟨t', h1, h2⟩ := hg.visOk i hi
      exact ⟨t', List.mem_cons_of_mem _ h1, h2⟩
  | endStart m t c =>
    refine ⟨hg.resNodup, hg.wantsNodup, ?_, ?_, hg.recsNodup, hg.visNodup, hg.visOk⟩
    · intro x hx
      show x.1 ∈ ((t, c) :: s.started).map (·.1)
      rw [List.map_cons]
      exact List.mem_cons_of_mem _ (hg.resStarted x hx)
    · intro t' ht'
      show (t', true) ∈ (t, c) :: s.started
      cases c with
      | false => exact List.mem_cons_of_mem _ (hg.endingStarted t' ht')
      | true =>
        rcases List.mem_cons.1 ht' with e | ht''
        · subst e; exact List.mem_cons_self
        · exact List.mem_cons_of_mem _ (hg.endingStarted t' ht'')
  | endDone m t res =>
    obtain ⟨hnew, hst⟩ := endDone_check hchk
    refine ⟨?_, hg.wantsNodup, ?_, ?_, hg.recsNodup, hg.visNodup, ?_⟩
    · show (((t, res) :: s.results).map (·.1)).Nodup
      rw [List.map_cons, List.nodup_cons]
      refine ⟨?_, hg.resNodup⟩
      intro hm
      obtain ⟨r, hr, he⟩ := List.mem_map.1 hm
      exact hnew r hr he
    · intro x hx
      rcases List.mem_cons.1 hx with e | hx'
      · subst e; exact hst
      · exact hg.resStarted x hx'
    · intro t' ht'
      exact hg.endingStarted t' (List.mem_filter.1 ht').1
    · intro i hi
      obtain ⟨t', h1, h2⟩ := hg.visOk i hi
      exact ⟨t', h1, List.mem_cons_of_mem _ h2⟩
  | output p off id =>
    obtain ⟨hfresh, t, htx, hres⟩ := output_check hchk
    refine ⟨hg.resNodup, hg.wantsNodup, hg.resStarted, hg.endingStarted, hg.recsNodup, ?_, ?_⟩
    · show (id :: s.vis).Nodup
      exact List.nodup_cons.2 ⟨hfresh, hg.visNodup⟩
    · intro i hi
      rcases List.mem_cons.1 hi with e | hi'
      · subst e; exact ⟨t, txnOf_some htx, resultOf_some hres⟩
      · exact hg.visOk i hi'

theorem Good.run {s : St} (hg : Good s) : ∀ (h : List Ev) {s' : St}, run s h = some s' → Good s'
  | [], s', hr => by simp [Model.TxnOffsets.run] at hr; subst hr; exact hg
  | e :: es, s', hr => by
    obtain ⟨hchk, hr'⟩ := run_cons hr
    exact (hg.step e hchk).run es hr'

theorem good_of_run {single : Bool} {h : List Ev} {s : St} (hr : run { single := single } h = some s) : Good s :=
  (Good.init single).run h hr

/-! ### the offsets a transaction sets out to commit are logged before its End is called -/

theorem no_want_after_started {t : Nat} : ∀ (h : List Ev) (s s' : St), run s h = some s' → t ∈ s.started.map (·.1) →
    ∀ p w, (t, p, w) ∉ wantsOf h
  | [], _, _, _, _, _, _ => by simp [wantsOf]
  | e :: es, s, s', hr, hst, p, w => by
    obtain ⟨hchk, hr'⟩ := run_cons hr
    have hst' : t ∈ (apply s e).started.map (·.1) := by
      rw [started_step, List.map_append]
      exact List.mem_append_right _ hst
    have ih := no_want_after_started es _ _ hr' hst' p w
    intro hm
    unfold wantsOf at hm ih
    rw [List.filterMap_cons] at hm
    cases hw : wantEv e with
    | none => rw [hw] at hm; exact ih hm
    | some x =>
      rw [hw] at hm
      rcases List.mem_cons.1 hm with e1 | hm'
      · cases e with
        | want t' p' o' =>
          simp only [wantEv, Option.some.injEq] at hw
          subst hw
          simp only [Prod.mk.injEq] at e1
          obtain ⟨hno, _⟩ := want_check hchk
          obtain ⟨x, hx, he⟩ := List.mem_map.1 hst
          exact hno x hx (by rw [he, e1.1])
        | _ => simp [wantEv] at hw
      · exact ih hm'

/-! ### splitting a history at an event -/

theorem mem_filterMap_split {α : Type} {g : Ev → Option α} {h : List Ev} {a : α} (hm : a ∈ h.filterMap g) :
    ∃ h₁ ev h₂, h = h₁ ++ ev :: h₂ ∧ g ev = some a := by
  obtain ⟨ev, hev, hg⟩ := List.mem_filterMap.1 hm
  obtain ⟨h₁, h₂, rfl⟩ := List.append_of_mem hev
  exact ⟨h₁, ev, h₂, rfl, hg⟩

theorem filterMap_mem_left {α : Type} {g : Ev → Option α} {h₁ h₂ : List Ev} {a : α} (hm : a ∈ h₁.filterMap g) :
    a ∈ (h₁ ++ h₂).filterMap g := by
  rw [List.filterMap_append]; exact List.mem_append_left _ hm

theorem obsEv_some {ev : Ev} {t p : Nat} {o : Int} (h : obsEv ev = some (t, p, o)) : ∃ m, ev = .observe m t p o := by
  cases ev <;> simp [obsEv] at h
  obtain ⟨rfl, rfl, rfl⟩ := h
  exact ⟨_, rfl⟩

theorem finalEv_some {ev : Ev} {p : Nat} {o : Int} (h : finalEv ev = some (p, o)) : ev = .final p o := by
  cases ev <;> simp [finalEv] at h
  obtain ⟨rfl, rfl⟩ := h
  rfl

theorem coordEv_some {ev : Ev} {t : Nat} {o : Bool} (h : coordEv ev = some (t, o)) : ∃ m, ev = .coord m t o := by
  cases ev <;> simp [coordEv] at h
  obtain ⟨rfl, rfl⟩ := h
  exact ⟨_, rfl⟩


end Proof.TxnOffsets
