import FranzVerif.Model.Producer
/-! Helper definitions (history-level observables) and lemmas for the producer monitor theorems. -/
namespace Proof.Producer
open Model.Producer

def promisesOf (id : Id) (h : List Ev) : List Err :=
  h.filterMap (fun e => match e with | .promise i e => if i = id then some e else none | _ => none)
def hookUsOf (id : Id) (h : List Ev) : List Err :=
  h.filterMap (fun e => match e with | .hookU i e => if i = id then some e else none | _ => none)
def hookBsOf (id : Id) (h : List Ev) : List Unit :=
  h.filterMap (fun e => match e with | .hookB i => if i = id then some () else none | _ => none)
def called (id : Id) (h : List Ev) : Bool :=
  h.any (fun e => match e with | .call i _ _ => i == id | _ => false)
def kindOf (id : Id) (h : List Ev) : Option Kind :=
  h.findSome? (fun e => match e with | .call i k _ => if i = id then some k else none | _ => none)
def sizeOfId (h : List Ev) (id : Id) : Nat :=
  (h.findSome? (fun e => match e with | .call i _ sz => if i = id then some sz else none | _ => none)).getD 0
def admittedIds (h : List Ev) : List Id :=
  h.filterMap (fun e => match e with | .admit i _ _ _ => some i | _ => none)
def releasedIds (h : List Ev) : List Id :=
  h.filterMap (fun e => match e with | .release i _ _ => some i | _ => none)
/-- ids whose promise has run: a promise event, or for ProduceSync the unbuffered hook that immediately precedes it -/
def promiseRanIds (h : List Ev) : List Id :=
  h.filterMap (fun e => match e with
    | .promise i _ => some i
    | .hookU i _ => if kindOf i h = some Kind.sync then some i else none
    | _ => none)
/-- the buffer was full (for a record of this size) at the call or at some admission since the call of `id` -/
def sawFullDuringCall (c : Cfg) (id : Id) (h : List Ev) : Bool :=
  match run c {} h with
  | some s => match find s.recs id with | some r => r.sawFull | none => false
  | none => false

end Proof.Producer
