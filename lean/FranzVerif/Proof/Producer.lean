import FranzVerif.Model.Producer
/-! Helper definitions (history-level observables) and lemmas for the producer monitor theorems.

Layout of the proof:
* this file: the observables, `find`/`upd` lemmas, how each observable changes on `h ++ [ev]`, and the
  per-record invariant `RecInv h id r` (what the monitor's record for `id` says about the history `h`)
  with its frame lemma (an event about another record does not disturb it);
* `Proof/ProducerInv.lean`: the global invariant `Inv c h s` and its preservation by every accepted
  event (one lemma per event kind), `Inv.run`, `inv_of_run`, `run_append`, `run_split`;
* `Proof/ProducerFacts.lean`: facts read off the invariant (quiescence, promiseRanIds, pending Flush);
* `Proof/ProducerFull.lean`: the history-level meaning of the `sawFull` flag. -/
namespace Proof.Producer
open Model.Producer

def promisesOf (id : Id) (h : List Ev) : List Err :=
  h.filterMap (fun e => match e with | .promise i e => if i = id then some e else none | _ => none)
def hookUsOf (id : Id) (h : List Ev) : List Err :=
  h.filterMap (fun e => match e with | .hookU i e => if i = id then some e else none | _ => none)
def hookBsOf (id : Id) (h : List Ev) : List Unit :=
  h.filterMap (fun e => match e with | .hookB i => if i = id then some () else none | _ => none)
def called (id : Id) (h : List Ev) : Bool :=
  h.any (fun e => match e with | .call i _ _ => i == id | _ => false)
def kindOf (id : Id) (h : List Ev) : Option Kind :=
  h.findSome? (fun e => match e with | .call i k _ => if i = id then some k else none | _ => none)
def sizeOfId (h : List Ev) (id : Id) : Nat :=
  (h.findSome? (fun e => match e with | .call i _ sz => if i = id then some sz else none | _ => none)).getD 0
def admittedIds (h : List Ev) : List Id :=
  h.filterMap (fun e => match e with | .admit i _ _ _ => some i | _ => none)
def releasedIds (h : List Ev) : List Id :=
  h.filterMap (fun e => match e with | .release i _ _ => some i | _ => none)
/-- ids whose promise has run: a promise event, or for ProduceSync the unbuffered hook that immediately precedes it -/
def promiseRanIds (h : List Ev) : List Id :=
  h.filterMap (fun e => match e with
    | .promise i _ => some i
    | .hookU i _ => if kindOf i h = some Kind.sync then some i else none
    | _ => none)
/-- the buffer was full (for a record of this size) at the call or at some admission since the call of `id` -/
def sawFullDuringCall (c : Cfg) (id : Id) (h : List Ev) : Bool :=
  match run c {} h with
  | some s => match find s.recs id with | some r => r.sawFull | none => false
  | none => false

/-- Records admitted and not yet released (history level); `Props.C03.inBuffer` unfolds to this. -/
def inBuf (h : List Ev) : List Id :=
  (admittedIds h).filter (fun id => !(releasedIds h).contains id)

/-! ### `find` / `upd` -/

theorem find_cons (r : Rec) (rs : List Rec) (id : Id) :
    find (r :: rs) id = if r.id = id then some r else find rs id := by
  simp only [find, List.find?_cons]
  by_cases h : r.id = id
  · simp [h]
  · have : (r.id == id) = false := by simpa using h
    simp [this, h]

theorem find_some {rs : List Rec} {id : Id} {r : Rec} (h : find rs id = some r) : r ∈ rs ∧ r.id = id := by
  unfold find at h
  exact ⟨List.mem_of_find?_eq_some h, by simpa using List.find?_some h⟩

theorem find_map (g : Rec → Rec) (hg : ∀ r, (g r).id = r.id) (rs : List Rec) (id : Id) :
    find (rs.map g) id = (find rs id).map g := by
  induction rs with
  | nil => rfl
  | cons r rs ih =>
    simp only [List.map_cons, find_cons, hg]
    by_cases h : r.id = id <;> simp [h, ih]

theorem find_upd (f : Rec → Rec) (hf : ∀ r, (f r).id = r.id) (rs : List Rec) (i id : Id) :
    find (upd rs i f) id = if id = i then (find rs id).map f else find rs id := by
  unfold upd
  rw [find_map _ (by intro r; by_cases h : (r.id == i) = true <;> simp [h, hf])]
  cases hfd : find rs id with
  | none => simp
  | some r =>
    have := (find_some hfd).2
    by_cases h : id = i <;> simp [h, this]

/-! ### observables on `h ++ [ev]` -/

def promEv (id : Id) : Ev → Option Err
  | .promise i e => if i = id then some e else none | _ => none
def hookUEv (id : Id) : Ev → Option Err
  | .hookU i e => if i = id then some e else none | _ => none
def hookBEv (id : Id) : Ev → Option Unit
  | .hookB i => if i = id then some () else none | _ => none
def callEv (id : Id) : Ev → Bool
  | .call i _ _ => i == id | _ => false
def kindEv (id : Id) : Ev → Option Kind
  | .call i k _ => if i = id then some k else none | _ => none
def sizeEv (id : Id) : Ev → Option Nat
  | .call i _ sz => if i = id then some sz else none | _ => none
def admitEv : Ev → Option Id
  | .admit i _ _ _ => some i | _ => none
def releaseEv : Ev → Option Id
  | .release i _ _ => some i | _ => none
/-- the record an event is about -/
def evId : Ev → Option Id
  | .call i _ _ | .hookB i | .admit i _ _ _ | .block i | .unblock i | .hookU i _ | .promise i _
  | .release i _ _ | .ret i => some i
  | _ => none

theorem promisesOf_eq (id : Id) (h : List Ev) : promisesOf id h = h.filterMap (promEv id) := rfl
theorem hookUsOf_eq (id : Id) (h : List Ev) : hookUsOf id h = h.filterMap (hookUEv id) := rfl
theorem hookBsOf_eq (id : Id) (h : List Ev) : hookBsOf id h = h.filterMap (hookBEv id) := rfl
theorem called_eq (id : Id) (h : List Ev) : called id h = h.any (callEv id) := rfl
theorem kindOf_eq (id : Id) (h : List Ev) : kindOf id h = h.findSome? (kindEv id) := rfl
theorem sizeOfId_eq (id : Id) (h : List Ev) : sizeOfId h id = (h.findSome? (sizeEv id)).getD 0 := rfl
theorem admittedIds_eq (h : List Ev) : admittedIds h = h.filterMap admitEv := rfl
theorem releasedIds_eq (h : List Ev) : releasedIds h = h.filterMap releaseEv := rfl

theorem promisesOf_snoc (id : Id) (h : List Ev) (ev : Ev) :
    promisesOf id (h ++ [ev]) = promisesOf id h ++ (promEv id ev).toList := by
  simp only [promisesOf_eq, List.filterMap_append]; cases hh : promEv id ev <;> simp [hh]
theorem hookUsOf_snoc (id : Id) (h : List Ev) (ev : Ev) :
    hookUsOf id (h ++ [ev]) = hookUsOf id h ++ (hookUEv id ev).toList := by
  simp only [hookUsOf_eq, List.filterMap_append]; cases hh : hookUEv id ev <;> simp [hh]
theorem hookBsOf_snoc (id : Id) (h : List Ev) (ev : Ev) :
    hookBsOf id (h ++ [ev]) = hookBsOf id h ++ (hookBEv id ev).toList := by
  simp only [hookBsOf_eq, List.filterMap_append]; cases hh : hookBEv id ev <;> simp [hh]
theorem called_snoc (id : Id) (h : List Ev) (ev : Ev) :
    called id (h ++ [ev]) = (called id h || callEv id ev) := by
  simp [called_eq]
theorem kindOf_snoc (id : Id) (h : List Ev) (ev : Ev) :
    kindOf id (h ++ [ev]) = (kindOf id h).or (kindEv id ev) := by
  simp only [kindOf_eq, List.findSome?_append]; cases hh : kindEv id ev <;> simp [List.findSome?, hh]
theorem admittedIds_snoc (h : List Ev) (ev : Ev) :
    admittedIds (h ++ [ev]) = admittedIds h ++ (admitEv ev).toList := by
  simp only [admittedIds_eq, List.filterMap_append]; cases hh : admitEv ev <;> simp [hh]
theorem releasedIds_snoc (h : List Ev) (ev : Ev) :
    releasedIds (h ++ [ev]) = releasedIds h ++ (releaseEv ev).toList := by
  simp only [releasedIds_eq, List.filterMap_append]; cases hh : releaseEv ev <;> simp [hh]

def szOpt (id : Id) (h : List Ev) : Option Nat := h.findSome? (sizeEv id)
theorem sizeOfId_eq' (id : Id) (h : List Ev) : sizeOfId h id = (szOpt id h).getD 0 := rfl
theorem szOpt_snoc (id : Id) (h : List Ev) (ev : Ev) :
    szOpt id (h ++ [ev]) = (szOpt id h).or (sizeEv id ev) := by
  simp only [szOpt, List.findSome?_append]; cases hh : sizeEv id ev <;> simp [List.findSome?, hh]

/-! ### the invariant -/

/-- What the monitor's record `r` for `id` says about the history `h`. -/
structure RecInv (h : List Ev) (id : Id) (r : Rec) : Prop where
  hid : r.id = id
  hcalled : called id h = true
  hkind : kindOf id h = some r.kind
  hsz : szOpt id h = some r.sz
  hprom : promisesOf id h = r.promised.toList
  hU : hookUsOf id h = r.hookU.toList
  hB : hookBsOf id h = if r.hookB then [()] else []
  hadm : (admittedIds h).count id = if r.admitted then 1 else 0
  hrel : (releasedIds h).count id = if r.released then 1 else 0
  hblk : Ev.block id ∈ h → r.blocked = true ∨ Ev.unblock id ∈ h
  relAdm : r.released = true → r.admitted = true ∧ r.hookU.isSome = true ∧
    (r.kind ≠ Kind.sync → r.promised.isSome = true)
  promU : r.promised.isSome = true → r.hookU = r.promised
  UB : r.hookU.isSome = true → r.hookB = true

/-- No event of `h` is about `id`. -/
def NoRec (h : List Ev) (id : Id) : Prop := ∀ ev ∈ h, evId ev ≠ some id

theorem RecInv.frame {h : List Ev} {id : Id} {r : Rec} (hr : RecInv h id r) (ev : Ev)
    (hev : evId ev ≠ some id) : RecInv (h ++ [ev]) id r := by
  obtain ⟨h1, h2, h3, h4, h5, h6, h7, h8, h9, h10, h11, h12, h13⟩ := hr
  have hblk : Ev.block id ∈ h ++ [ev] → r.blocked = true ∨ Ev.unblock id ∈ h ++ [ev] := by
    intro hb
    have : Ev.block id ∈ h := by
      rcases List.mem_append.1 hb with hb | hb
      · exact hb
      · simp at hb; subst hb; simp [evId] at hev
    rcases h10 this with h | h
    · exact Or.inl h
    · exact Or.inr (List.mem_append_left _ h)
  refine ⟨h1, ?_, ?_, ?_, ?_, ?_, ?_, ?_, ?_, hblk, h11, h12, h13⟩
  all_goals (cases ev <;> simp_all [evId, called_snoc, kindOf_snoc, szOpt_snoc, promisesOf_snoc, hookUsOf_snoc,
    hookBsOf_snoc, admittedIds_snoc, releasedIds_snoc, promEv, hookUEv, hookBEv, callEv, kindEv, sizeEv, admitEv, releaseEv])

theorem NoRec.frame {h : List Ev} {id : Id} (hn : NoRec h id) (ev : Ev)
    (hev : evId ev ≠ some id) : NoRec (h ++ [ev]) id := by
  intro e he
  rcases List.mem_append.1 he with he | he
  · exact hn e he
  · simp at he; subst he; exact hev

end Proof.Producer
