import FranzVerif.Model.Txn
import FranzVerif.Proof.Txn
import FranzVerif.Proof.TxnInv
/-! The monitor's `lostEnd` list against the history-level observable `endResponseLost` (C11).

The monitor adds `k` to `lostEnd` when a `fault 26 2` event arrives while `s.ending = some k`; `ending` is set by
every `endStart` and cleared by every `endDone`. `endResponseLost k h` scans from each `endStart k` up to the next
`endDone` of any transaction and does not stop at an intermediate `endStart k'`, so it is the weaker of the two:
`k ∈ s.lostEnd → endResponseLost k h = true` (`LostInv.lost`), not the converse
(`[endStart 1 c, endStart 2 c, fault 26 2]`: `lostEnd = [2]`, `endResponseLost 1 = true`). That direction is the
one the refusal keys need: the known-finding key `C11.unconfirmed-commit-took-effect` is only given when
`endResponseLost` holds. -/
namespace Proof.Txn
open Model.Txn

def notEndDone : Ev → Bool := fun e => match e with | .endDone _ _ _ => false | _ => true

theorem endResponseLost_endStart (k k' : Nat) (c : Bool) (rest : List Ev) :
    endResponseLost k (.endStart k' c :: rest) =
      if k' == k then (rest.takeWhile notEndDone).any (fun e => e == .fault 26 2) || endResponseLost k rest
      else endResponseLost k rest := rfl

theorem any_takeWhile_append {α : Type} (p q : α → Bool) (l l' : List α)
    (h : (l.takeWhile p).any q = true) : ((l ++ l').takeWhile p).any q = true := by
  induction l with
  | nil => simp at h
  | cons a l ih =>
    simp only [List.cons_append, List.takeWhile_cons] at h ⊢
    split
    · rename_i hp
      simp only [hp, if_true, List.any_cons, Bool.or_eq_true] at h ⊢
      exact h.elim Or.inl (fun h => Or.inr (ih h))
    · rename_i hp
      simp [hp] at h

/-- a longer history keeps a lost response -/
theorem endResponseLost_append_right (k : Nat) (h h' : List Ev) (hl : endResponseLost k h = true) :
    endResponseLost k (h ++ h') = true := by
  induction h with
  | nil => simp [endResponseLost] at hl
  | cons e es ih =>
    cases e with
    | endStart k' c =>
      rw [List.cons_append, endResponseLost_endStart]
      rw [endResponseLost_endStart] at hl
      split
      · rename_i hk
        simp only [hk, if_true, Bool.or_eq_true] at hl ⊢
        exact hl.elim (fun h => Or.inl (any_takeWhile_append _ _ _ _ h)) (fun h => Or.inr (ih h))
      · rename_i hk
        simp only [hk] at hl
        exact ih hl
    | _ => exact ih hl

theorem endResponseLost_append_left (k : Nat) (h h' : List Ev) (hl : endResponseLost k h' = true) :
    endResponseLost k (h ++ h') = true := by
  induction h with
  | nil => exact hl
  | cons e es ih =>
    cases e with
    | endStart k' c =>
      rw [List.cons_append, endResponseLost_endStart]
      split
      · simp [ih]
      · exact ih
    | _ => exact ih

theorem endResponseLost_of_fault (k : Nat) (c : Bool) (h₁ h₂ : List Ev) (hn : ∀ e ∈ h₂, notEndDone e = true) :
    endResponseLost k (h₁ ++ Ev.endStart k c :: (h₂ ++ [Ev.fault 26 2])) = true := by
  apply endResponseLost_append_left
  rw [endResponseLost_endStart]
  simp only [beq_self_eq_true, if_true, Bool.or_eq_true]
  left
  rw [List.takeWhile_append_of_pos hn]
  have : List.takeWhile notEndDone [Ev.fault 26 2] = [Ev.fault 26 2] := rfl
  rw [this]
  simp

/-! ### the invariant for `ending` / `lostEnd` -/

structure LostInv (h : List Ev) (s : St) : Prop where
  ending : ∀ k, s.ending = some k → ∃ h₁ c h₂, h = h₁ ++ Ev.endStart k c :: h₂ ∧ ∀ e ∈ h₂, notEndDone e = true
  lost : ∀ k ∈ s.lostEnd, endResponseLost k h = true

theorem LostInv.init : LostInv [] {} := by
  constructor <;> simp

/-- an event that is no `endDone` and keeps `ending` -/
theorem LostInv.ending_frame {h : List Ev} {ev : Ev} {s s' : St} (hi : LostInv h s)
    (e1 : s'.ending = s.ending) (hn : notEndDone ev = true) :
    ∀ k, s'.ending = some k →
      ∃ h₁ c h₂, h ++ [ev] = h₁ ++ Ev.endStart k c :: h₂ ∧ ∀ e ∈ h₂, notEndDone e = true := by
  intro k hk
  rw [e1] at hk
  obtain ⟨h₁, c, h₂, rfl, hall⟩ := hi.ending k hk
  refine ⟨h₁, c, h₂ ++ [ev], by simp, ?_⟩
  intro e he
  rcases List.mem_append.1 he with he | he
  · exact hall e he
  · rw [List.mem_singleton.1 he]; exact hn

/-- an event that is no `endDone`, keeps `ending` and keeps `lostEnd` -/
theorem LostInv.frame {h : List Ev} {ev : Ev} {s s' : St} (hi : LostInv h s)
    (e1 : s'.ending = s.ending) (e2 : s'.lostEnd = s.lostEnd) (hn : notEndDone ev = true) :
    LostInv (h ++ [ev]) s' := by
  constructor
  · exact hi.ending_frame e1 hn
  · rw [e2]
    intro k hk
    exact endResponseLost_append_right k h _ (hi.lost k hk)

theorem LostInv.step {h : List Ev} {s : St} (hi : LostInv h s) (ev : Ev) : LostInv (h ++ [ev]) (apply s ev) := by
  cases ev with
  | begin_ k ok => exact hi.frame rfl rfl rfl
  | produce id k part => exact hi.frame rfl rfl rfl
  | promise id ok part off => cases ok <;> exact hi.frame rfl rfl rfl
  | visible part off id => exact hi.frame rfl rfl rfl
  | raw part off id => exact hi.frame rfl rfl rfl
  | incomplete => exact hi.frame rfl rfl rfl
  | quiesce => exact hi.frame rfl rfl rfl
  | endStart k c =>
    constructor
    · intro k' hk'
      simp only [apply, Option.some.injEq] at hk'
      subst hk'
      exact ⟨h, c, [], rfl, by simp⟩
    · intro k' hk'
      exact endResponseLost_append_right k' h _ (hi.lost k' hk')
  | endDone k c ok =>
    constructor
    · intro k' hk'
      simp [apply] at hk'
    · intro k' hk'
      exact endResponseLost_append_right k' h _ (hi.lost k' hk')
  | fault key act =>
    cases hend : s.ending with
    | none =>
      have : apply s (.fault key act) = s := by simp [apply, hend]
      rw [this]
      exact hi.frame rfl rfl rfl
    | some k =>
      by_cases hka : (key == 26 && act == 2) = true
      · have : apply s (.fault key act) = { s with lostEnd := k :: s.lostEnd } := by simp [apply, hend, hka]
        rw [this]
        simp only [Bool.and_eq_true, beq_iff_eq] at hka
        obtain ⟨rfl, rfl⟩ := hka
        constructor
        · exact hi.ending_frame (s' := { s with lostEnd := k :: s.lostEnd }) (ev := .fault 26 2) rfl rfl
        · intro k' hk'
          rcases List.mem_cons.1 hk' with rfl | hk'
          · obtain ⟨h₁, c, h₂, rfl, hall⟩ := hi.ending k' hend
            have := endResponseLost_of_fault k' c h₁ h₂ hall
            simpa using this
          · exact endResponseLost_append_right k' h _ (hi.lost k' hk')
      · have : apply s (.fault key act) = s := by simp [apply, hend, hka]
        rw [this]
        exact hi.frame rfl rfl rfl

theorem LostInv.run {h₁ : List Ev} {s s' : St} (hi : LostInv h₁ s) (h₂ : List Ev)
    (hr : Model.Txn.run s h₂ = some s') : LostInv (h₁ ++ h₂) s' := by
  induction h₂ generalizing h₁ s with
  | nil => simp [Model.Txn.run] at hr; subst hr; simpa using hi
  | cons e es ih =>
    obtain ⟨_, hr'⟩ := run_cons hr
    have := ih (hi.step e) hr'
    simpa using this

theorem lostInv_of_run {h : List Ev} {s : St} (hr : run {} h = some s) : LostInv h s := by
  simpa using LostInv.init.run h hr

/-! ### which rule refuses a visible record of a transaction whose commit reported an error -/

theorem txnOf_of_mem {s : St} (hn : (s.recs.map (·.1)).Nodup) {id : Id} {k part : Nat}
    (hm : (id, k, part) ∈ s.recs) : txnOf s id = some k := by
  unfold txnOf
  rw [find?_fst_of_mem hn hm]
  rfl

/-- what `check` answers for a `visible` event, by cases -/
theorem visible_check_failed {s : St} {part off : Nat} {id : Id} {k : Nat}
    (htx : txnOf s id = some k) (hres : resultOf s k = some (true, false)) :
    check s (.visible part off id) =
      some (if s.vis.any (·.2.2 == id) then "C11.record-visible-twice"
        else if s.lostEnd.contains k then "C11.unconfirmed-commit-took-effect"
        else "C11.failed-commit-record-visible") := by
  simp only [check, htx, hres]
  split
  · rfl
  · split <;> rfl

theorem visible_check_unconfirmed {s : St} {part off : Nat} {id : Id}
    (h : check s (.visible part off id) = some "C11.unconfirmed-commit-took-effect") :
    ∃ k, txnOf s id = some k ∧ resultOf s k = some (true, false) ∧ k ∈ s.lostEnd := by
  simp only [check] at h
  split at h
  · simp at h
  · rename_i k hk
    split at h
    · simp at h
    · split at h
      · cases h
      · simp at h
      · rename_i hres
        split at h
        · rename_i hl
          exact ⟨k, hk, hres, by simpa using hl⟩
        · simp at h
      · simp at h

end Proof.Txn
