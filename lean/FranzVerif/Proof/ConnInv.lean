import FranzVerif.Proof.Conn
/-! Invariants of the connection monitor over accepted histories (C22). -/
namespace Proof.Conn
open Model.Conn Model.C22Frame Proof.C22Frame

theorem step_some {s s' : St} {e : Ev} (h : step s e = some s') : check s e = none ∧ s' = apply s e := by
  unfold step at h
  split at h
  · rename_i hc; exact ⟨hc, by injection h with h; exact h.symm⟩
  · simp at h

theorem run_append {s : St} {h₁ h₂ : List Ev} {s' : St} (h : run s (h₁ ++ h₂) = some s') :
    ∃ s₁, run s h₁ = some s₁ ∧ run s₁ h₂ = some s' := by
  induction h₁ generalizing s with
  | nil => exact ⟨s, rfl, h⟩
  | cons e es ih =>
    simp only [List.cons_append, run] at h ⊢
    split at h
    · exact ih h
    · simp at h

theorem run_cons {s : St} {e : Ev} {es : List Ev} {s' : St} (h : run s (e :: es) = some s') :
    check s e = none ∧ run (apply s e) es = some s' := by
  simp only [run] at h
  split at h
  · rename_i s₂ hs
    obtain ⟨hc, rfl⟩ := step_some hs
    exact ⟨hc, h⟩
  · simp at h

/-- an accepted history splits at any event: the prefix is accepted and the event passes `check` in its state -/
theorem run_split {h₁ h₂ : List Ev} {e : Ev} {s : St} (h : run {} (h₁ ++ e :: h₂) = some s) :
    ∃ s₁, run {} h₁ = some s₁ ∧ check s₁ e = none := by
  obtain ⟨s₁, h1, h2⟩ := run_append h
  exact ⟨s₁, h1, (run_cons h2).1⟩

/-! ### what `check` guarantees -/

theorem ok_check {s : St} {i : Nat} {f : Int} {t : Nat} (h : check s (.ok i f t) = none) :
    hasOut s i = false ∧ ∃ body, expectOf s i = .deliver body := by
  simp only [check] at h
  split at h
  · simp at h
  · split at h
    · simp at h
    · rename_i hno
      refine ⟨by simpa using hno, ?_⟩
      split at h
      · rename_i body hb; exact ⟨body, hb⟩
      all_goals simp at h

theorem err_check {s : St} {i : Nat} {c : Cls} {t : Nat} (h : check s (.err i c t) = none) : hasOut s i = false := by
  simp only [check] at h
  split at h
  · simp at h
  · split at h
    · simp at h
    · rename_i hno; simpa using hno

theorem written_check {s : St} {w : Waiter} (h : check s (.written w) = none) : s.waiters.any (·.id == w.id) = false := by
  simp only [check] at h
  split at h
  · simp at h
  · split at h
    · simp at h
    · rename_i hno; simpa using hno

theorem quiesce_check {s : St} (h : check s .quiesce = none) : s.issued.any (fun i => !hasOut s i.1) = false := by
  simp only [check] at h
  split at h
  · simp at h
  · rename_i hno; simpa using hno

/-! ### invariant -/

structure Inv (h : List Ev) (s : St) : Prop where
  outs : s.outs.map (·.1) = (outIds h).reverse
  outsNodup : (s.outs.map (·.1)).Nodup
  issued : s.issued.map (·.1) = (issueIds h).reverse
  waitersNodup : (s.waiters.map (·.id)).Nodup

theorem hasOut_false_iff {s : St} {i : Nat} (h : hasOut s i = false) : i ∉ s.outs.map (·.1) := by
  intro hm
  obtain ⟨x, hx, hxi⟩ := List.mem_map.1 hm
  have : hasOut s i = true := by
    unfold hasOut; exact List.any_eq_true.2 ⟨x, hx, by simp [hxi]⟩
  rw [h] at this; contradiction

theorem hasOut_true_mem {s : St} {i : Nat} (h : hasOut s i = true) : i ∈ s.outs.map (·.1) := by
  unfold hasOut at h
  obtain ⟨x, hx, hxi⟩ := List.any_eq_true.1 h
  exact List.mem_map.2 ⟨x, hx, by simpa using hxi⟩

theorem inv_step {h : List Ev} {s : St} {e : Ev} (hi : Inv h s) (hc : check s e = none) : Inv (h ++ [e]) (apply s e) := by
  obtain ⟨ho, hn, his, hw⟩ := hi
  cases e with
  | ok i f t =>
    have hno := hasOut_false_iff (ok_check hc).1
    refine ⟨?_, ?_, ?_, hw⟩
    · simp [apply, outIds, List.filterMap_append] at ho ⊢; exact ho
    · simp only [apply, List.map_cons]; exact List.nodup_cons.2 ⟨hno, hn⟩
    · simp [apply, issueIds, List.filterMap_append] at his ⊢; exact his
  | err i c t =>
    have hno := hasOut_false_iff (err_check hc)
    refine ⟨?_, ?_, ?_, hw⟩
    · simp [apply, outIds, List.filterMap_append] at ho ⊢; exact ho
    · simp only [apply, List.map_cons]; exact List.nodup_cons.2 ⟨hno, hn⟩
    · simp [apply, issueIds, List.filterMap_append] at his ⊢; exact his
  | issue i t =>
    refine ⟨?_, hn, ?_, hw⟩
    · simp [apply, outIds, List.filterMap_append] at ho ⊢; exact ho
    · simp [apply, issueIds, List.filterMap_append] at his ⊢; exact his
  | written w =>
    have hnw := written_check hc
    refine ⟨?_, hn, ?_, ?_⟩
    · simp [apply, outIds, List.filterMap_append] at ho ⊢; exact ho
    · simp [apply, issueIds, List.filterMap_append] at his ⊢; exact his
    · simp only [apply, List.map_append, List.map_cons, List.map_nil]
      refine List.nodup_append.2 ⟨hw, by simp, ?_⟩
      intro a ha b hb
      simp only [List.mem_singleton] at hb
      subst hb
      intro hab
      obtain ⟨x, hx, hxa⟩ := List.mem_map.1 ha
      have : s.waiters.any (·.id == w.id) = true := List.any_eq_true.2 ⟨x, hx, by simp [hxa, hab]⟩
      rw [hnw] at this; contradiction
  | cfg _ _ _ _ _ _ | hsReq _ _ | hsFrame _ _ | frame _ | peerClose _ | never _ | cpu _ | quiesce
  | authBegin _ _ _ | authEnd _ _ _ _ | park _ _ =>
    refine ⟨?_, hn, ?_, hw⟩
    · simp [apply, outIds, List.filterMap_append] at ho ⊢; exact ho
    · simp [apply, issueIds, List.filterMap_append] at his ⊢; exact his

theorem inv_run {h₀ h : List Ev} {s₀ s : St} (hi : Inv h₀ s₀) (hr : run s₀ h = some s) : Inv (h₀ ++ h) s := by
  induction h generalizing h₀ s₀ with
  | nil => simp only [run] at hr; injection hr with hr; subst hr; simpa using hi
  | cons e es ih =>
    obtain ⟨hc, hrest⟩ := run_cons hr
    have := ih (inv_step hi hc) hrest
    simpa using this

theorem inv_init : Inv [] ({} : St) := ⟨rfl, List.nodup_nil, rfl, List.nodup_nil⟩

theorem inv_of_run {h : List Ev} {s : St} (hr : run {} h = some s) : Inv h s := by
  simpa using inv_run inv_init hr

theorem find?_of_nodup_ids {ws : List Waiter} {x : Waiter} (hn : (ws.map (·.id)).Nodup) (hx : x ∈ ws) :
    ws.find? (·.id == x.id) = some x := by
  induction ws with
  | nil => simp at hx
  | cons w ws ih =>
    simp only [List.map_cons, List.nodup_cons] at hn
    simp only [List.mem_cons] at hx
    rcases hx with rfl | hx
    · simp
    · have hne : w.id ≠ x.id := fun he => hn.1 (he ▸ List.mem_map.2 ⟨x, hx, rfl⟩)
      simp only [List.find?_cons]
      rw [show (w.id == x.id) = false by simpa using hne]
      exact ih hn.2 hx

end Proof.Conn
