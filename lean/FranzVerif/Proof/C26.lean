import FranzVerif.Model.C26
import FranzVerif.Proof.C25
/-! Helper lemmas for Props/C26 (core Lean + Std only). -/
namespace Proof.C26
open Model.C25 Model.C26 Proof.C25

/-! ### reachability -/

theorem Reach.head {E : String → String → Prop} {a b c : String} (e : E a b) (h : Reach E b c) : Reach E a c := by
  induction h with
  | refl => exact .tail (.refl _) e
  | tail _ e' ih => exact .tail ih e'

theorem Reach.trans {E : String → String → Prop} {a b c : String} (h1 : Reach E a b) (h2 : Reach E b c) : Reach E a c := by
  induction h2 with
  | refl => exact h1
  | tail _ e ih => exact .tail ih e

/-- a set containing `a` and closed under `E` contains everything reachable from `a`. -/
theorem Reach.mem_of_closed {E : String → String → Prop} {S : List String} {a b : String}
    (ha : a ∈ S) (hc : ∀ x ∈ S, ∀ y, E x y → y ∈ S) (h : Reach E a b) : b ∈ S := by
  induction h with
  | refl => exact ha
  | tail _ e ih => exact hc _ ih _ e

theorem Reach.mono {E F : String → String → Prop} (hEF : ∀ x y, E x y → F x y) {a b : String} (h : Reach E a b) : Reach F a b := by
  induction h with
  | refl => exact .refl _
  | tail _ e ih => exact .tail ih (hEF _ _ e)

/-! ### the executable Spec is sound -/

theorem subOf_iff (ms : List Member) (a t : String) :
    subOf ms a t = true ↔ ∃ x ∈ ms, x.id = a ∧ t ∈ x.topics := by
  simp [subOf, List.any_eq_true]

theorem closedPlanB_closed (ms : List Member) (plan : List Triple) (S : List String)
    (h : closedPlanB ms plan S = true) : ∀ x ∈ S, ∀ y, CanTake ms plan x y → y ∈ S := by
  intro a ha b ⟨x, hx, hxb, hsub⟩
  obtain ⟨mem, hmem, hid, ht⟩ := (subOf_iff ms a x.2.1).1 hsub
  simp only [closedPlanB, List.all_eq_true] at h
  have := h x hx
  simp only [Bool.or_eq_true, Bool.not_eq_true', List.contains_eq_mem, decide_eq_true_eq, decide_eq_false_iff_not] at this
  rcases this with hn | hs
  · exfalso
    apply hn
    rw [List.mem_filter]
    refine ⟨(mem_dedup _ _).2 (List.mem_map.2 ⟨x, hx, rfl⟩), ?_⟩
    rw [List.any_eq_true]
    refine ⟨mem, ?_, by simpa using ht⟩
    rw [List.mem_filter]
    exact ⟨hmem, by simpa [hid] using ha⟩
  · simpa [hxb] using hs

theorem optimalB_sound (ms : List Member) (plan : List Triple) (h : optimalB ms plan = true) : Optimal ms plan := by
  intro a ha b hr
  simp only [optimalB, List.all_eq_true, Bool.and_eq_true] at h
  obtain ⟨⟨hin, hcl⟩, hall⟩ := h a ha
  have hb : b ∈ closurePlan ms plan a :=
    Reach.mem_of_closed (by simpa using hin) (closedPlanB_closed ms plan _ hcl) hr
  simpa using hall b hb

end Proof.C26
