import FranzVerif.Model.C26
import FranzVerif.Proof.C25
/-! Helper lemmas for Props/C26 (core Lean + Std only). -/
namespace Proof.C26
open Model.C25 Model.C26 Proof.C25

/-! ### reachability -/

theorem Reach.head {E : String → String → Prop} {a b c : String} (e : E a b) (h : Reach E b c) : Reach E a c := by
  induction h with
  | refl => exact .tail (.refl _) e
  | tail _ e' ih => exact .tail ih e'

theorem Reach.trans {E : String → String → Prop} {a b c : String} (h1 : Reach E a b) (h2 : Reach E b c) : Reach E a c := by
  induction h2 with
  | refl => exact h1
  | tail _ e ih => exact .tail ih e

/-- a set containing `a` and closed under `E` contains everything reachable from `a`. -/
theorem Reach.mem_of_closed {E : String → String → Prop} {S : List String} {a b : String}
    (ha : a ∈ S) (hc : ∀ x ∈ S, ∀ y, E x y → y ∈ S) (h : Reach E a b) : b ∈ S := by
  induction h with
  | refl => exact ha
  | tail _ e ih => exact hc _ ih _ e

theorem Reach.mono {E F : String → String → Prop} (hEF : ∀ x y, E x y → F x y) {a b : String} (h : Reach E a b) : Reach F a b := by
  induction h with
  | refl => exact .refl _
  | tail _ e ih => exact .tail ih (hEF _ _ e)

/-! ### the executable Spec is sound -/

theorem subOf_iff (ms : List Member) (a t : String) :
    subOf ms a t = true ↔ ∃ x ∈ ms, x.id = a ∧ t ∈ x.topics := by
  simp [subOf, List.any_eq_true]

theorem closedPlanB_closed (ms : List Member) (plan : List Triple) (S : List String)
    (h : closedPlanB ms plan S = true) : ∀ x ∈ S, ∀ y, CanTake ms plan x y → y ∈ S := by
  intro a ha b ⟨x, hx, hxb, hsub⟩
  obtain ⟨mem, hmem, hid, ht⟩ := (subOf_iff ms a x.2.1).1 hsub
  simp only [closedPlanB, List.all_eq_true] at h
  have := h x hx
  simp only [Bool.or_eq_true, Bool.not_eq_true', List.contains_eq_mem, decide_eq_true_eq, decide_eq_false_iff_not] at this
  rcases this with hn | hs
  · exfalso
    apply hn
    rw [List.mem_filter]
    refine ⟨(mem_dedup _ _).2 (List.mem_map.2 ⟨x, hx, rfl⟩), ?_⟩
    rw [List.any_eq_true]
    refine ⟨mem, ?_, by simpa using ht⟩
    rw [List.mem_filter]
    exact ⟨hmem, by simpa [hid] using ha⟩
  · simpa [hxb] using hs

theorem optimalB_sound (ms : List Member) (plan : List Triple) (h : optimalB ms plan = true) : Optimal ms plan := by
  intro a ha b hr
  simp only [optimalB, List.all_eq_true, Bool.and_eq_true] at h
  obtain ⟨⟨hin, hcl⟩, hall⟩ := h a ha
  have hb : b ∈ closurePlan ms plan a :=
    Reach.mem_of_closed (by simpa using hin) (closedPlanB_closed ms plan _ hcl) hr
  simpa using hall b hb


/-! ### the partition universe -/

theorem lookup_pos_mem (l : List (String × Nat)) (t : String) (h : 0 < cnt l t) : t ∈ l.map (·.1) := by
  induction l with
  | nil => simp [cnt] at h
  | cons x xs ih =>
    by_cases e : t = x.1
    · simp [e]
    · have e' : (t == x.1) = false := by simpa using e
      have : cnt (x :: xs) t = cnt xs t := by
        obtain ⟨a, b⟩ := x
        simp only [cnt, List.lookup, e']
      rw [this] at h
      exact List.mem_cons_of_mem _ (ih h)

theorem mem_parts (c : Ctx) (p : TP) : p ∈ c.parts ↔ c.isPart p = true := by
  simp only [Ctx.parts, Ctx.isPart, List.mem_flatMap, List.mem_map, List.mem_range, decide_eq_true_eq]
  constructor
  · rintro ⟨t, _, i, hi, rfl⟩
    exact hi
  · intro h
    refine ⟨p.1, ?_, p.2, h, rfl⟩
    exact (mem_dedup _ _).2 (lookup_pos_mem _ _ (Nat.lt_of_le_of_lt (Nat.zero_le _) h))

theorem parts_nodup (c : Ctx) : c.parts.Nodup := by
  unfold Ctx.parts List.Nodup
  rw [List.pairwise_flatMap]
  constructor
  · intro t _
    rw [List.pairwise_map]
    exact List.Pairwise.imp (fun h e => h (by simpa using congrArg Prod.snd e)) (List.nodup_range (n := cnt c.topics t))
  · have hnd : c.topicNames.Nodup := nodup_dedup _
    refine List.Pairwise.imp ?_ hnd
    intro a b hab x hx y hy e
    obtain ⟨i, _, rfl⟩ := List.mem_map.1 hx
    obtain ⟨j, _, rfl⟩ := List.mem_map.1 hy
    exact hab (by simpa using congrArg Prod.fst e)

/-! ### levels under a single move -/

/-- indicator of `a = b`. -/
def ind (a b : String) : Nat := if a = b then 1 else 0
theorem ind_ne {a b : String} (h : a ≠ b) : ind a b = 0 := by simp [ind, h]
theorem ind_le (a b : String) : ind a b ≤ 1 := by unfold ind; split <;> omega

theorem countP_congr_mem {α} (l : List α) (p q : α → Bool) (h : ∀ x ∈ l, p x = q x) : l.countP p = l.countP q := by
  induction l with
  | nil => rfl
  | cons x xs ih =>
    simp only [List.countP_cons, h x (List.mem_cons_self ..)]
    rw [ih fun y hy => h y (List.mem_cons_of_mem _ hy)]

/-- moving one partition `p` (held by `s` under `f`, by `d` under `g`; nothing else differs). -/
theorem countP_move (l : List TP) (hnd : l.Nodup) (f g : TP → Option String) (p : TP) (s d n : String)
    (hp : p ∈ l) (hf : f p = some s) (hg : g p = some d) (hother : ∀ q, q ≠ p → g q = f q) :
    l.countP (fun q => g q == some n) + ind s n = l.countP (fun q => f q == some n) + ind d n := by
  unfold ind
  induction l with
  | nil => cases hp
  | cons x xs ih =>
    have hnd' := List.nodup_cons.1 hnd
    simp only [List.countP_cons]
    by_cases hx : x = p
    · subst hx
      have hrest : xs.countP (fun q => g q == some n) = xs.countP (fun q => f q == some n) :=
        countP_congr_mem _ _ _ fun y hy => by
          have : y ≠ x := fun e => hnd'.1 (e ▸ hy)
          simp [hother y this]
      rw [hrest, hf, hg]
      by_cases h1 : s = n <;> by_cases h2 : d = n <;> simp [h1, h2] <;> omega
    · have hp' : p ∈ xs := by
        rcases List.mem_cons.1 hp with e | e
        · exact absurd e.symm hx
        · exact e
      have := ih hnd'.2 hp'
      rw [hother x hx]
      omega

theorem level_move (c : Ctx) (o : Own) (p : TP) (s d n : String) (hp : c.isPart p = true) (ho : o[p]? = some s) :
    level c (o.insert p d) n + ind s n = level c o n + ind d n := by
  unfold level
  refine countP_move c.parts (parts_nodup c) (fun q => o[q]?) (fun q => (o.insert p d)[q]?) p s d n ((mem_parts c p).2 hp) ho ?_ ?_
  · simp
  · intro q hq
    simp only [Std.HashMap.getElem?_insert]
    have : (p == q) = false := by simpa using fun e => hq e.symm
    simp [this]


/-! ### the "can take from" graph of a state, chains -/

/-- `a` subscribes to the topic of a partition held by `b`. -/
def Edge (c : Ctx) (o : Own) (a b : String) : Prop :=
  ∃ p, c.isPart p = true ∧ o[p]? = some b ∧ c.sub a p.1 = true

/-- some member reachable from `m` holds at least two more than `m`. -/
def CanImprove (c : Ctx) (o : Own) (m : String) : Prop :=
  ∃ b, Reach (Edge c o) m b ∧ level c o m + 2 ≤ level c o b

theorem applyChain_get_notin (o : Own) (ch : List (TP × String)) (q : TP) (h : q ∉ ch.map (·.1)) :
    (applyChain o ch)[q]? = o[q]? := by
  induction ch generalizing o with
  | nil => rfl
  | cons x xs ih =>
    obtain ⟨p, d⟩ := x
    simp only [List.map_cons, List.mem_cons, not_or] at h
    simp only [applyChain]
    rw [ih _ h.2, Std.HashMap.getElem?_insert]
    have : (p == q) = false := by simpa using fun e => h.1 e.symm
    simp [this]

theorem chainOK_cons (c : Ctx) (o : Own) (src : String) (p : TP) (d : String) (rest : List (TP × String)) :
    chainOK c o src ((p, d) :: rest) = true ↔
      (o[p]? = some src ∧ c.sub d p.1 = true ∧ c.isPart p = true ∧ p ∉ rest.map (·.1) ∧ chainOK c o d rest = true) := by
  simp [chainOK, and_assoc]

theorem chainOK_congr (c : Ctx) (o o' : Own) (src : String) (ch : List (TP × String))
    (h : ∀ q ∈ ch.map (·.1), o'[q]? = o[q]?) : chainOK c o' src ch = chainOK c o src ch := by
  induction ch generalizing src with
  | nil => rfl
  | cons x xs ih =>
    obtain ⟨p, d⟩ := x
    simp only [chainOK]
    rw [h p (by simp), ih d fun q hq => h q (by simp only [List.map_cons, List.mem_cons]; exact Or.inr hq)]

/-- what a valid chain leaves behind: a moved partition sits on its receiver. -/
theorem applyChain_get_in (c : Ctx) (o : Own) (src : String) (ch : List (TP × String)) (hok : chainOK c o src ch = true)
    (p : TP) (d : String) (h : (p, d) ∈ ch) : (applyChain o ch)[p]? = some d := by
  induction ch generalizing o src with
  | nil => cases h
  | cons x xs ih =>
    obtain ⟨p0, d0⟩ := x
    obtain ⟨_, _, _, hnot, hrest⟩ := (chainOK_cons c o src p0 d0 xs).1 hok
    simp only [applyChain]
    rcases List.mem_cons.1 h with e | e
    · cases e
      rw [applyChain_get_notin _ _ _ hnot]
      simp
    · refine ih (o.insert p0 d0) d0 ?_ e
      rw [chainOK_congr c o (o.insert p0 d0) d0 xs]
      · exact hrest
      · intro q hq
        rw [Std.HashMap.getElem?_insert]
        have : (p0 == q) = false := by simpa using fun (e' : p0 = q) => hnot (e' ▸ hq)
        simp [this]

/-- levels after a valid chain from `src`: the source loses one, the end gains one, nothing else changes. -/
theorem level_chain (c : Ctx) (o : Own) (src : String) (ch : List (TP × String)) (hok : chainOK c o src ch = true) (n : String) :
    level c (applyChain o ch) n + ind src n = level c o n + ind (chainEnd src ch) n := by
  induction ch generalizing o src with
  | nil => rfl
  | cons x xs ih =>
    obtain ⟨p, d⟩ := x
    obtain ⟨ho, _, hp, hnot, hrest⟩ := (chainOK_cons c o src p d xs).1 hok
    have hrest' : chainOK c (o.insert p d) d xs = true := by
      rw [chainOK_congr c o (o.insert p d) d xs]
      · exact hrest
      · intro q hq
        rw [Std.HashMap.getElem?_insert]
        have : (p == q) = false := by simpa using fun (e' : p = q) => hnot (e' ▸ hq)
        simp [this]
    have h1 := ih (o.insert p d) d hrest'
    have h2 := level_move c o p src d n hp ho
    simp only [applyChain, chainEnd]
    omega

/-- every node of a valid chain reaches the chain's source in the state before the steal. -/
theorem chain_reach (c : Ctx) (o : Own) (src X : String) (ch : List (TP × String)) (hok : chainOK c o src ch = true)
    (hsrc : Reach (Edge c o) src X) (p : TP) (d : String) (h : (p, d) ∈ ch) :
    c.isPart p = true ∧ c.sub d p.1 = true ∧ Reach (Edge c o) d X ∧ ∃ s, o[p]? = some s ∧ Reach (Edge c o) s X := by
  induction ch generalizing src with
  | nil => cases h
  | cons x xs ih =>
    obtain ⟨p0, d0⟩ := x
    obtain ⟨ho, hsub, hp, _, hrest⟩ := (chainOK_cons c o src p0 d0 xs).1 hok
    have hd0 : Reach (Edge c o) d0 X := Reach.head ⟨p0, hp, ho, hsub⟩ hsrc
    rcases List.mem_cons.1 h with e | e
    · cases e
      exact ⟨hp, hsub, hd0, src, ho, hsrc⟩
    · exact ih d0 hrest hd0 e

theorem chainEnd_reach (c : Ctx) (o : Own) (src X : String) (ch : List (TP × String)) (hok : chainOK c o src ch = true)
    (hsrc : Reach (Edge c o) src X) : Reach (Edge c o) (chainEnd src ch) X := by
  induction ch generalizing src with
  | nil => exact hsrc
  | cons x xs ih =>
    obtain ⟨p0, d0⟩ := x
    obtain ⟨ho, hsub, hp, _, hrest⟩ := (chainOK_cons c o src p0 d0 xs).1 hok
    exact ih d0 hrest (Reach.head ⟨p0, hp, ho, hsub⟩ hsrc)

/-- an edge of the state after the steal is an old edge, or its tail already reached the chain's source. -/
theorem edge_after_chain (c : Ctx) (o : Own) (X : String) (ch : List (TP × String)) (hok : chainOK c o X ch = true)
    (a b : String) (h : Edge c (applyChain o ch) a b) : Edge c o a b ∨ Reach (Edge c o) a X := by
  obtain ⟨q, hq, hob, hsub⟩ := h
  by_cases hin : q ∈ ch.map (·.1)
  · obtain ⟨⟨q', d⟩, hmem, rfl⟩ := List.mem_map.1 hin
    obtain ⟨_, _, _, s, hs, hsX⟩ := chain_reach c o X X ch hok (.refl _) q' d hmem
    exact Or.inr (Reach.head ⟨q', hq, hs, hsub⟩ hsX)
  · rw [applyChain_get_notin _ _ _ hin] at hob
    exact Or.inl ⟨q, hq, hob, hsub⟩

theorem reach_after_chain (c : Ctx) (o : Own) (X : String) (ch : List (TP × String)) (hok : chainOK c o X ch = true)
    (g y : String) (h : Reach (Edge c (applyChain o ch)) g y) : Reach (Edge c o) g y ∨ Reach (Edge c o) g X := by
  induction h with
  | refl => exact Or.inl (.refl _)
  | tail _ e ih =>
    rcases ih with ih | ih
    · rcases edge_after_chain c o X ch hok _ _ e with e' | e'
      · exact Or.inl (.tail ih e')
      · exact Or.inr (Reach.trans ih e')
    · exact Or.inr ih

/-- **given-up stays stuck**: a member that cannot improve and holds no more than `m` still cannot improve
after a steal path from `X` (holding at least two more than `m`) to `m` has been applied. -/
theorem stuck_after_chain (c : Ctx) (o : Own) (X m g : String) (ch : List (TP × String))
    (hok : chainOK c o X ch = true) (hend : chainEnd X ch = m) (hlv : level c o m + 2 ≤ level c o X)
    (hg : ¬ CanImprove c o g) (hgm : level c o g ≤ level c o m) : ¬ CanImprove c (applyChain o ch) g := by
  rintro ⟨y, hr, hl⟩
  have hgX : ¬ Reach (Edge c o) g X := fun h => hg ⟨X, h, by omega⟩
  have hmX : Reach (Edge c o) m X := hend ▸ chainEnd_reach c o X X ch hok (.refl _)
  have hgy : Reach (Edge c o) g y := by
    rcases reach_after_chain c o X ch hok g y hr with h | h
    · exact h
    · exact absurd h hgX
  have hyX : y ≠ m := fun e => hgX (Reach.trans (e ▸ hgy) hmX)
  have hgneX : X ≠ g := fun e => hgX (e ▸ .refl _)
  have hy := level_chain c o X ch hok y
  have hg' := level_chain c o X ch hok g
  rw [hend] at hy hg'
  have hold : level c o y < level c o g + 2 := by
    apply Nat.lt_of_not_le
    intro h
    exact hg ⟨y, hgy, h⟩
  rw [ind_ne (fun e => hyX e.symm)] at hy
  rw [ind_ne hgneX] at hg'
  have := ind_le X y
  have := ind_le m g
  omega


/-! ### the acceptor's invariant -/

theorem ind_self (a : String) : ind a a = 1 := by simp [ind]

theorem Reach.last {E : String → String → Prop} {a b : String} (h : Reach E a b) : a = b ∨ ∃ z, E z b := by
  cases h with
  | refl => exact Or.inl rfl
  | tail _ e => exact Or.inr ⟨_, e⟩

structure Inv (c : Ctx) (s : St) : Prop where
  valid : ∀ p b, s.own[p]? = some b → c.isPart p = true ∧ c.sub b p.1 = true
  complete : ∀ p, c.isPart p = true → c.wanted p.1 = true → (s.own[p]?).isSome = true
  stuck : ∀ g ∈ s.given, ¬ CanImprove c s.own g
  low : ∀ g ∈ s.given, ∀ a ∈ c.ids, a ∉ s.given → level c s.own g ≤ level c s.own a

/-- nobody can improve. -/
def AllStuck (c : Ctx) (o : Own) : Prop := ∀ a ∈ c.ids, ¬ CanImprove c o a

structure Good (c : Ctx) (s : St) : Prop where
  early : s.phase ≤ 1 → s.given = []
  inv : 2 ≤ s.phase → Inv c s
  fin : s.phase = 3 → AllStuck c s.own

theorem sub_mem_ids (c : Ctx) (a t : String) (h : c.sub a t = true) : a ∈ c.ids := by
  obtain ⟨x, hx, hid, _⟩ := (subOf_iff c.members a t).1 h
  exact List.mem_map.2 ⟨x, hx, hid⟩

theorem sub_wanted (c : Ctx) (a t : String) (h : c.sub a t = true) : c.wanted t = true := by
  obtain ⟨x, hx, _, ht⟩ := (subOf_iff c.members a t).1 h
  simp only [Ctx.wanted, List.any_eq_true]
  exact ⟨x, hx, by simpa using ht⟩

theorem validB_spec (c : Ctx) (o : Own) (h : validB c o = true) :
    (∀ p b, o[p]? = some b → c.isPart p = true ∧ c.sub b p.1 = true) ∧
    (∀ p, c.isPart p = true → c.wanted p.1 = true → (o[p]?).isSome = true) := by
  simp only [validB, Bool.and_eq_true, List.all_eq_true] at h
  constructor
  · intro p b hpb
    have := h.1 (p, b) (Std.HashMap.mem_toList_iff_getElem?_eq_some.2 hpb)
    simpa using this
  · intro p hp hw
    have := h.2 p ((mem_parts c p).2 hp)
    simpa [hw] using this

theorem enter_spec (c : Ctx) (s s1 : St) (h : enter c s = some s1) (hg : Good c s) :
    s1.own = s.own ∧ s1.given = s.given ∧ s1.phase = 2 ∧ Inv c s1 := by
  unfold enter at h
  split at h
  · cases h
    have hp : s.phase = 2 := by simpa using ‹(s.phase == 2) = true›
    exact ⟨rfl, rfl, hp, hg.inv (by omega)⟩
  · split at h
    · cases h
      rename_i h1
      simp only [Bool.and_eq_true, beq_iff_eq] at h1
      obtain ⟨hv, hc⟩ := validB_spec c s.own h1.2
      have hgiv := hg.early (by omega)
      refine ⟨rfl, rfl, rfl, ⟨hv, hc, ?_, ?_⟩⟩
      · intro g hgm; simp [hgiv] at hgm
      · intro g hgm; simp [hgiv] at hgm
    · cases h

theorem closedB_closed (c : Ctx) (o : Own) (S : List String) (h : closedB c o S = true) :
    ∀ a ∈ S, ∀ b, Edge c o a b → b ∈ S := by
  intro a ha b ⟨p, hp, hob, hsub⟩
  obtain ⟨x, hx, hid, ht⟩ := (subOf_iff c.members a p.1).1 hsub
  simp only [closedB, List.all_eq_true] at h
  have hp' : p.2 < cnt c.topics p.1 := by simpa [Ctx.isPart] using hp
  have htn : p.1 ∈ c.topicNames := (mem_dedup _ _).2 (lookup_pos_mem _ _ (Nat.lt_of_le_of_lt (Nat.zero_le _) hp'))
  have := h p.1 htn
  simp only [Bool.or_eq_true, Bool.not_eq_true', List.all_eq_true, List.mem_range] at this
  rcases this with hn | hall
  · exfalso
    have : ((c.members.filter fun x => S.contains x.id).any fun x => x.topics.contains p.1) = true := by
      rw [List.any_eq_true]
      refine ⟨x, ?_, by simpa using ht⟩
      rw [List.mem_filter]
      exact ⟨hx, by simpa [hid] using ha⟩
    rw [this] at hn
    cases hn
  · have := hall p.2 hp'
    rw [show ((p.1, p.2) : TP) = p from rfl, hob] at this
    simpa using this

theorem stuckB_spec (c : Ctx) (o : Own) (m : String) (h : stuckB c o m = true) : ¬ CanImprove c o m := by
  rintro ⟨b, hr, hl⟩
  simp only [stuckB, Bool.and_eq_true, List.all_eq_true] at h
  obtain ⟨⟨hin, hcl⟩, hall⟩ := h
  have hb : b ∈ closure c o m := Reach.mem_of_closed (by simpa using hin) (closedB_closed c o _ hcl) hr
  have := hall b hb
  simp only [decide_eq_true_eq] at this
  omega

theorem steal_inv (c : Ctx) (s : St) (m x : String) (ch : List (TP × String)) (hi : Inv c s)
    (hok : stealOK c s m x ch = true) : Inv c { s with own := applyChain s.own ch } := by
  simp only [stealOK, Bool.and_eq_true, decide_eq_true_eq, List.contains_eq_mem, beq_iff_eq, Bool.not_eq_true',
    decide_eq_false_iff_not] at hok
  obtain ⟨⟨⟨⟨hmid, hmg⟩, hch⟩, hend⟩, hlv⟩ := hok
  refine ⟨?_, ?_, ?_, ?_⟩
  · intro q b hqb
    by_cases hin : q ∈ ch.map (·.1)
    · obtain ⟨⟨q', d⟩, hmem, rfl⟩ := List.mem_map.1 hin
      have := applyChain_get_in c s.own x ch hch q' d hmem
      obtain ⟨h1, h2, _⟩ := chain_reach c s.own x x ch hch (.refl _) q' d hmem
      simp only at hqb
      rw [this] at hqb
      cases hqb
      exact ⟨h1, h2⟩
    · simp only at hqb
      rw [applyChain_get_notin _ _ _ hin] at hqb
      exact hi.valid q b hqb
  · intro q hq hw
    by_cases hin : q ∈ ch.map (·.1)
    · obtain ⟨⟨q', d⟩, hmem, rfl⟩ := List.mem_map.1 hin
      have := applyChain_get_in c s.own x ch hch q' d hmem
      simp only
      rw [this]; rfl
    · simp only
      rw [applyChain_get_notin _ _ _ hin]
      exact hi.complete q hq hw
  · intro g hg
    exact stuck_after_chain c s.own x m g ch hch hend hlv (hi.stuck g hg) (hi.low g hg m hmid hmg)
  · intro g hg a ha hag
    have hgm := hi.low g hg m hmid hmg
    have hga := hi.low g hg a ha hag
    have e1 := level_chain c s.own x ch hch g
    have e2 := level_chain c s.own x ch hch a
    rw [hend] at e1 e2
    have hmg' : m ≠ g := fun e => hmg (e ▸ hg)
    have hxg : x ≠ g := fun e => by subst e; omega
    rw [ind_ne hmg', ind_ne hxg] at e1
    simp only
    by_cases hax : x = a
    · subst hax
      rw [ind_self] at e2
      have := ind_le m x
      omega
    · rw [ind_ne hax] at e2
      omega

theorem giveup_inv (c : Ctx) (s : St) (m : String) (hi : Inv c s) (hok : giveupOK c s m = true) :
    Inv c { s with given := m :: s.given } := by
  simp only [giveupOK, Bool.and_eq_true, decide_eq_true_eq, List.contains_eq_mem, Bool.not_eq_true',
    decide_eq_false_iff_not, List.all_eq_true] at hok
  obtain ⟨⟨⟨hmid, hmg⟩, hmin⟩, hst⟩ := hok
  refine ⟨hi.valid, hi.complete, ?_, ?_⟩
  · intro g hg
    rcases List.mem_cons.1 hg with e | e
    · subst e; exact stuckB_spec c s.own _ hst
    · exact hi.stuck g e
  · intro g hg a ha hag
    simp only [List.mem_cons, not_or] at hag
    rcases List.mem_cons.1 hg with e | e
    · subst e
      apply hmin a
      simp only [active, List.mem_filter, List.contains_eq_mem, Bool.not_eq_true', decide_eq_false_iff_not]
      exact ⟨ha, hag.2⟩
    · exact hi.low g e a ha hag.2

theorem done_allStuck (c : Ctx) (s : St) (hi : Inv c s) (hok : doneOK c s = true) : AllStuck c s.own := by
  intro a ha
  by_cases hag : a ∈ s.given
  · exact hi.stuck a hag
  · rintro ⟨b, hr, hl⟩
    rcases Reach.last hr with e | ⟨z, p, hp, hob, _⟩
    · subst e; omega
    · have hb : b ∈ c.ids := sub_mem_ids c b p.1 (hi.valid p b hob).2
      by_cases hbg : b ∈ s.given
      · have := hi.low b hbg a ha hag
        omega
      · simp only [doneOK, List.all_eq_true, List.mem_map, decide_eq_true_eq] at hok
        have hact : ∀ y, y ∈ c.ids → y ∉ s.given → y ∈ active c s := fun y h1 h2 => by
          simp only [active, List.mem_filter, List.contains_eq_mem, Bool.not_eq_true', decide_eq_false_iff_not]
          exact ⟨h1, h2⟩
        have := hok _ ⟨b, hact b hb hbg, rfl⟩ _ ⟨a, hact a ha hag, rfl⟩
        omega

theorem good_init (c : Ctx) : Good c {} :=
  ⟨fun _ => rfl, fun h => by simp at h, fun h => by simp at h⟩

theorem step_good (c : Ctx) (s s' : St) (e : Ev) (h : step c s e = some s') (hg : Good c s) : Good c s' := by
  cases e with
  | init owns stl =>
    simp only [step] at h
    split at h
    · cases h
      rename_i hok
      have hp : s.phase = 0 := by
        simp only [initOK, Bool.and_eq_true, beq_iff_eq] at hok
        exact hok.1.1.1
      exact ⟨fun _ => hg.early (by omega), fun h2 => by simp at h2, fun h3 => by simp at h3⟩
    · cases h
  | drop m p =>
    simp only [step] at h
    split at h
    · cases h
      rename_i hok
      have hp : s.phase = 1 := by
        simp only [dropOK, Bool.and_eq_true, beq_iff_eq] at hok
        exact hok.1.1
      exact ⟨fun _ => hg.early (by omega), fun h2 => by simp [hp] at h2, fun h3 => by simp [hp] at h3⟩
    · cases h
  | restick m p =>
    simp only [step] at h
    split at h
    · cases h
      rename_i hok
      have hp : s.phase = 1 := by
        simp only [restickOK, Bool.and_eq_true, beq_iff_eq] at hok
        exact hok.1.1.1.1
      exact ⟨fun _ => hg.early (by omega), fun h2 => by simp [hp] at h2, fun h3 => by simp [hp] at h3⟩
    · cases h
  | assign m p =>
    simp only [step] at h
    split at h
    · cases h
      rename_i hok
      have hp : s.phase = 1 := by
        simp only [assignOK, Bool.and_eq_true, beq_iff_eq] at hok
        exact hok.1.1.1.1
      exact ⟨fun _ => hg.early (by omega), fun h2 => by simp [hp] at h2, fun h3 => by simp [hp] at h3⟩
    · cases h
  | steal m x ch =>
    simp only [step] at h
    split at h
    · cases h
    · rename_i s1 hent
      obtain ⟨_, _, hp, hi⟩ := enter_spec c s s1 hent hg
      split at h
      · cases h
        rename_i hok
        exact ⟨fun h1 => by simp [hp] at h1, fun _ => steal_inv c s1 m x ch hi hok, fun h3 => by simp [hp] at h3⟩
      · cases h
  | giveup m =>
    simp only [step] at h
    split at h
    · cases h
    · rename_i s1 hent
      obtain ⟨_, _, hp, hi⟩ := enter_spec c s s1 hent hg
      split at h
      · cases h
        rename_i hok
        exact ⟨fun h1 => by simp [hp] at h1, fun _ => giveup_inv c s1 m hi hok, fun h3 => by simp [hp] at h3⟩
      · cases h
  | done =>
    simp only [step] at h
    split at h
    · cases h
    · rename_i s1 hent
      obtain ⟨_, _, hp, hi⟩ := enter_spec c s s1 hent hg
      split at h
      · cases h
        rename_i hok
        exact ⟨fun h1 => by simp at h1, fun _ => ⟨hi.valid, hi.complete, hi.stuck, hi.low⟩, fun _ => done_allStuck c s1 hi hok⟩
      · cases h

theorem run_good (c : Ctx) (s s' : St) (i : Nat) (es : List Ev) (h : run c s i es = .ok s') (hg : Good c s) : Good c s' := by
  induction es generalizing s i with
  | nil => simp only [run] at h; cases h; exact hg
  | cons e es ih =>
    simp only [run] at h
    split at h
    · cases h
    · rename_i s1 hs
      exact ih s1 (i + 1) h (step_good c s s1 e hs hg)


/-! ### from states to plans (the Spec's vocabulary) -/

theorem load_planOf (c : Ctx) (o : Own) (m : String) : load (planOf c o) m = level c o m := by
  unfold load planOf level
  rw [List.countP_filterMap]
  apply countP_congr_mem
  intro p _
  cases o[p]? <;> simp

theorem mem_planOf (c : Ctx) (o : Own) (x : Triple) :
    x ∈ planOf c o ↔ c.isPart (x.2.1, x.2.2) = true ∧ o[(x.2.1, x.2.2)]? = some x.1 := by
  simp only [planOf, List.mem_filterMap, Option.map_eq_some_iff]
  constructor
  · rintro ⟨p, hp, m, hm, rfl⟩
    exact ⟨(mem_parts c p).1 hp, hm⟩
  · rintro ⟨hp, ho⟩
    exact ⟨(x.2.1, x.2.2), (mem_parts c _).2 hp, x.1, ho, rfl⟩

theorem canTake_iff_edge (c : Ctx) (o : Own) (a b : String) : CanTake c.members (planOf c o) a b ↔ Edge c o a b := by
  constructor
  · rintro ⟨x, hx, rfl, hsub⟩
    obtain ⟨hp, ho⟩ := (mem_planOf c o x).1 hx
    exact ⟨(x.2.1, x.2.2), hp, ho, hsub⟩
  · rintro ⟨p, hp, ho, hsub⟩
    exact ⟨(b, p.1, p.2), (mem_planOf c o _).2 ⟨hp, ho⟩, rfl, hsub⟩

theorem allStuck_iff_optimal (c : Ctx) (o : Own) : AllStuck c o ↔ Optimal c.members (planOf c o) := by
  constructor
  · intro h a ha b hr
    have hr' : Reach (Edge c o) a b := Reach.mono (fun x y => (canTake_iff_edge c o x y).1) hr
    rw [load_planOf, load_planOf]
    apply Nat.lt_of_not_le
    intro hl
    exact h a ha ⟨b, hr', hl⟩
  · intro h a ha ⟨b, hr, hl⟩
    have hr' : Reach (CanTake c.members (planOf c o)) a b := Reach.mono (fun x y => (canTake_iff_edge c o x y).2) hr
    have := h a ha b hr'
    rw [load_planOf, load_planOf] at this
    omega

/-! ### stability: from a valid state in which nobody can improve, no decision that changes the plan is accepted -/

theorem step_stable (c : Ctx) (s s' : St) (e : Ev) (h : step c s e = some s') (hph : 1 ≤ s.phase)
    (hv : ∀ p b, s.own[p]? = some b → c.isPart p = true ∧ c.sub b p.1 = true)
    (hc : ∀ p, c.isPart p = true → c.wanted p.1 = true → (s.own[p]?).isSome = true)
    (hs : AllStuck c s.own) : s'.own = s.own ∧ 1 ≤ s'.phase := by
  cases e with
  | init owns stl =>
    simp only [step] at h
    split at h
    · rename_i hok
      simp only [initOK, Bool.and_eq_true, beq_iff_eq] at hok
      have := hok.1.1.1
      omega
    · cases h
  | drop m p =>
    simp only [step] at h
    split at h
    · rename_i hok
      simp only [dropOK, Bool.and_eq_true, beq_iff_eq, Bool.not_eq_true'] at hok
      have := (hv p m hok.1.2).2
      rw [this] at hok
      cases hok.2
    · cases h
  | restick m p =>
    simp only [step] at h
    split at h
    · rename_i hok
      simp only [restickOK, Bool.and_eq_true, beq_iff_eq] at hok
      obtain ⟨⟨⟨⟨_, _⟩, hsub⟩, hp⟩, hm⟩ := hok
      exfalso
      split at hm
      · rename_i hnone
        have := hc p hp (sub_wanted c m p.1 hsub)
        rw [hnone] at this
        cases this
      · rename_i cur hcur
        simp only [decide_eq_true_eq] at hm
        exact hs m (sub_mem_ids c m p.1 hsub) ⟨cur, .tail (.refl _) ⟨p, hp, hcur, hsub⟩, by omega⟩
    · cases h
  | assign m p =>
    simp only [step] at h
    split at h
    · rename_i hok
      simp only [assignOK, Bool.and_eq_true, beq_iff_eq] at hok
      obtain ⟨⟨⟨⟨_, hnone⟩, hsub⟩, hp⟩, _⟩ := hok
      have := hc p hp (sub_wanted c m p.1 hsub)
      rw [Option.isNone_iff_eq_none.1 hnone] at this
      cases this
    · cases h
  | steal m x ch =>
    simp only [step] at h
    split at h
    · cases h
    · rename_i s1 hent
      have hown : s1.own = s.own := by
        unfold enter at hent
        split at hent
        · cases hent; rfl
        · split at hent
          · cases hent; rfl
          · cases hent
      split at h
      · rename_i hok
        exfalso
        simp only [stealOK, Bool.and_eq_true, decide_eq_true_eq, List.contains_eq_mem, beq_iff_eq, Bool.not_eq_true',
          decide_eq_false_iff_not] at hok
        obtain ⟨⟨⟨⟨hmid, _⟩, hch⟩, hend⟩, hlv⟩ := hok
        rw [hown] at hch hlv
        have := chainEnd_reach c s.own x x ch hch (.refl _)
        rw [hend] at this
        exact hs m hmid ⟨x, this, hlv⟩
      · cases h
  | giveup m =>
    simp only [step] at h
    split at h
    · cases h
    · rename_i s1 hent
      have hown : s1.own = s.own ∧ 1 ≤ s1.phase := by
        unfold enter at hent
        split at hent
        · cases hent; exact ⟨rfl, hph⟩
        · split at hent
          · cases hent; exact ⟨rfl, by simp⟩
          · cases hent
      split at h
      · cases h; exact hown
      · cases h
  | done =>
    simp only [step] at h
    split at h
    · cases h
    · rename_i s1 hent
      have hown : s1.own = s.own := by
        unfold enter at hent
        split at hent
        · cases hent; rfl
        · split at hent
          · cases hent; rfl
          · cases hent
      split at h
      · cases h; exact ⟨hown, by simp⟩
      · cases h

theorem run_stable (c : Ctx) (s s' : St) (i : Nat) (es : List Ev) (h : run c s i es = .ok s') (hph : 1 ≤ s.phase)
    (hv : ∀ p b, s.own[p]? = some b → c.isPart p = true ∧ c.sub b p.1 = true)
    (hc : ∀ p, c.isPart p = true → c.wanted p.1 = true → (s.own[p]?).isSome = true)
    (hs : AllStuck c s.own) : s'.own = s.own := by
  induction es generalizing s i with
  | nil => simp only [run] at h; cases h; rfl
  | cons e es ih =>
    simp only [run] at h
    split at h
    · cases h
    · rename_i s1 hs1
      obtain ⟨hown, hph1⟩ := step_stable c s s1 e hs1 hph hv hc hs
      rw [← hown]
      exact ih s1 (i + 1) h hph1 (hown ▸ hv) (hown ▸ hc) (hown ▸ hs)

end Proof.C26
