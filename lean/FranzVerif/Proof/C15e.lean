import FranzVerif.Proof.C15d
/-! The generic round trip: the mutual induction. -/
namespace Proof.C15
open Model.C15

theorem goMake_ok (len cap : Nat) (h : len ≤ cap) : goMake (len : Int) cap = .ok len [] := by
  have h1 : ¬ ((len : Int) < 0) := by omega
  have h2 : ¬ (cap < len) := by omega
  simp [goMake, h1, h2]

theorem structPre_pre (nullable : Bool) (x : Bytes) :
    structPre nullable ((if nullable then [1] else []) ++ x) = .ok true x := by
  cases nullable
  · simp [structPre]
  · simp [structPre, readInt8_one]

theorem filter_unk_known (known : List Nat) (unk : List (Nat × Bytes))
    (h : (unk.all fun e => !known.contains e.1) = true) (k : Nat) (hk : k ∈ known) :
    unk.filter (fun e => e.1 == k) = [] := by
  rw [List.filter_eq_nil_iff]
  intro e he
  simp only [List.all_eq_true] at h
  have := h e he
  intro hek
  have : e.1 = k := by simpa using hek
  subst this
  simp [hk] at *

theorem unknownOf_eq (known : List Nat) (tags unk : List (Nat × Bytes))
    (h1 : ∀ e ∈ tags, e.1 ∈ known) (h2 : unkOK known unk = true) : unknownOf known (tags ++ unk) = unk := by
  simp only [unkOK, Bool.and_eq_true] at h2
  obtain ⟨hs, ha⟩ := h2
  have e1 : tags.filter (fun e => !known.contains e.1) = [] := by
    rw [List.filter_eq_nil_iff]
    intro e he; simp [h1 e he]
  have e2 : unk.filter (fun e => !known.contains e.1) = unk := by
    rw [List.filter_eq_self]
    intro e he
    simp only [List.all_eq_true] at ha
    exact ha e he
  simp only [unknownOf, List.filter_append, e1, e2, List.nil_append]
  have := foldl_tagSet unk [] (by intro x hx; cases hx) hs
  simpa using this

end Proof.C15
