import FranzVerif.Proof.C25
/-! Helper lemmas for the kfake assignors (core Lean only). -/
namespace Proof.C25
open Model.C25

theorem validPlan_perm (subs subs' : List (String × List String)) (h : subs.Perm subs') (n : String → Nat)
    (P : List Triple) : validPlan subs n P = validPlan subs' n P := by
  unfold validPlan
  congr 1
  · congr 1; funext x; rw [h.any_eq]
  · exact (h.flatMap_right _).all_eq

theorem map_part_tagK (t : String) (cs : List KMember) (ls : List (List Nat)) (h : ls.length ≤ cs.length) :
    (tagK t cs ls).map (·.2.2) = ls.flatten := by
  induction cs generalizing ls with
  | nil => cases ls with
    | nil => simp [tagK]
    | cons l ls => simp at h
  | cons c cs ih =>
    cases ls with
    | nil => simp [tagK]
    | cons l ls =>
      simp only [List.length_cons, Nat.add_le_add_iff_right] at h
      simp [tagK, ih ls h, Function.comp_def]

theorem mem_tagK (t : String) (cs : List KMember) (ls : List (List Nat)) (x : Triple) (hx : x ∈ tagK t cs ls) :
    x.2.1 = t ∧ ∃ c ∈ cs, x.1 = c.id := by
  induction cs generalizing ls with
  | nil => cases ls <;> simp [tagK] at hx
  | cons c cs ih =>
    cases ls with
    | nil => simp [tagK] at hx
    | cons l ls =>
      simp only [tagK, List.mem_append, List.mem_map] at hx
      rcases hx with ⟨p, _, rfl⟩ | hx
      · exact ⟨rfl, c, List.mem_cons_self, rfl⟩
      · obtain ⟨h1, c', hc', h2⟩ := ih ls hx
        exact ⟨h1, c', List.mem_cons_of_mem _ hc', h2⟩

theorem kRangeTopic_parts (ms : List KMember) (snap : List (String × Nat)) (t : String)
    (h : ∃ m ∈ ms, m.subs.contains t = true) :
    (kRangeTopic ms snap t).map (·.2.2) = List.range (cnt snap t) := by
  unfold kRangeTopic
  simp only []
  generalize hs : (ms.filter fun m => m.subs.contains t) = subs
  have hne : subs ≠ [] := by
    obtain ⟨m, hm, hc⟩ := h
    intro he
    have : m ∈ subs := by rw [← hs]; exact List.mem_filter.mpr ⟨hm, hc⟩
    rw [he] at this; cases this
  rw [map_part_tagK _ _ _ (by rw [length_splitBy, List.length_map, length_indexFrom]; exact Nat.le_refl _)]
  rw [flatten_splitBy, sum_quotas_all _ subs hne, List.take_of_length_le (by simp)]

theorem mem_kRangeTopic (ms : List KMember) (snap : List (String × Nat)) (t : String) (x : Triple)
    (hx : x ∈ kRangeTopic ms snap t) : x.2.1 = t ∧ ∃ c ∈ ms, x.1 = c.id ∧ c.subs.contains t = true := by
  unfold kRangeTopic at hx
  simp only [] at hx
  obtain ⟨h1, c, hc, h2⟩ := mem_tagK _ _ _ _ hx
  have := List.mem_filter.mp hc
  exact ⟨h1, c, this.1, h2, this.2⟩

theorem mem_kTopicsSorted (ms : List KMember) (snap : List (String × Nat)) (t : String) :
    t ∈ kTopicsSorted ms snap ↔ t ∈ ms.flatMap (·.subs) ∧ (snap.lookup t).isSome = true := by
  unfold kTopicsSorted
  rw [(sortBy_perm _ _).mem_iff, List.mem_filter, kSubscribed, mem_dedup]

theorem nodup_kTopicsSorted (ms : List KMember) (snap : List (String × Nat)) : (kTopicsSorted ms snap).Nodup := by
  unfold kTopicsSorted
  rw [(sortBy_perm _ _).nodup_iff]
  exact List.Nodup.sublist List.filter_sublist (nodup_dedup _)

theorem cnt_eq_zero_of_lookup_none (snap : List (String × Nat)) (t : String) (h : (snap.lookup t).isSome ≠ true) :
    cnt snap t = 0 := by
  unfold cnt
  cases hl : snap.lookup t with
  | none => rfl
  | some v => simp [hl] at h

theorem kAssignRange_valid (ms : List KMember) (snap : List (String × Nat)) :
    validPlan (ms.map fun m => (m.id, m.subs)) (cnt snap) (kAssignRange ms snap) = true := by
  have hsub : ∀ t ∈ kTopicsSorted ms snap, ∃ m ∈ ms, m.subs.contains t = true := by
    intro t ht
    obtain ⟨m, hm, h⟩ := List.mem_flatMap.mp ((mem_kTopicsSorted ms snap t).mp ht).1
    exact ⟨m, hm, List.contains_iff_mem.mpr h⟩
  apply validPlan_intro
  · intro x hx
    obtain ⟨t, ht, hxt⟩ := List.mem_flatMap.mp hx
    obtain ⟨h1, c, hc, h2, h3⟩ := mem_kRangeTopic ms snap t x hxt
    refine ⟨⟨(c.id, c.subs), List.mem_map.mpr ⟨c, hc, rfl⟩, h2.symm, by rw [h1]; exact List.contains_iff_mem.mp h3⟩, ?_⟩
    have hp := kRangeTopic_parts ms snap t (hsub t ht)
    have : x.2.2 ∈ (kRangeTopic ms snap t).map (·.2.2) := List.mem_map.mpr ⟨x, hxt, rfl⟩
    rw [hp] at this
    rw [h1]; exact List.mem_range.mp this
  · intro t ht
    have ht' : t ∈ ms.flatMap (·.subs) := by simpa [List.flatMap_map] using ht
    by_cases hin : t ∈ kTopicsSorted ms snap
    · have := filter_flatMap_key (kTopicsSorted ms snap) (kRangeTopic ms snap) (fun x : Triple => x.2.1) id
        (fun a x hx => (mem_kRangeTopic ms snap a x hx).1) (by rw [List.map_id]; exact nodup_kTopicsSorted ms snap) t hin
      simp only [id] at this
      unfold kAssignRange
      rw [this, kRangeTopic_parts ms snap t (hsub t hin)]
    · have := filter_flatMap_key_none (kTopicsSorted ms snap) (kRangeTopic ms snap) (fun x : Triple => x.2.1) id
        (fun a x hx => (mem_kRangeTopic ms snap a x hx).1) t (fun a ha e => hin (by have e' : a = t := e; rw [← e']; exact ha))
      unfold kAssignRange
      rw [this]
      have : cnt snap t = 0 := cnt_eq_zero_of_lookup_none snap t (fun h => hin ((mem_kTopicsSorted ms snap t).mpr ⟨ht', h⟩))
      rw [this]; exact List.Perm.refl _

theorem kSortIDs_perm (assignor : String) (ms : List KMember) : (kSortIDs assignor ms).Perm ms := by
  unfold kSortIDs
  split <;> exact sortBy_perm _ _

end Proof.C25

namespace Proof.C25
open Model.C25

/-! ### kfake assignUniform -/

theorem flatTPs_cons (e : String × List Nat) (l : List (String × List Nat)) :
    flatTPs (e :: l) = e.2.map (fun p => (e.1, p)) ++ flatTPs l := by
  simp [flatTPs]

/-- shedding only splits a member's kept claims into what stays and what is shed. -/
theorem kShed_count (l : List (String × List Nat)) (e : Nat) (x : TP) :
    List.count x (flatTPs (kShed l e).1) + List.count x (kShed l e).2 = List.count x (flatTPs l) := by
  induction l generalizing e with
  | nil => simp [kShed, flatTPs]
  | cons a as ih =>
    unfold kShed
    by_cases he : e = 0
    · simp [he]
    · simp only [he, if_false]
      have hsplit : List.count x ((a.2.take (a.2.length - min e a.2.length)).map fun p => ((a.1, p) : TP))
          + List.count x ((a.2.drop (a.2.length - min e a.2.length)).map fun p => ((a.1, p) : TP))
          = List.count x (a.2.map fun p => ((a.1, p) : TP)) := by
        rw [← List.count_append, ← List.map_append, List.take_append_drop]
      have ih' := ih (e - min e a.2.length)
      rw [flatTPs_cons, List.count_append, List.count_append]
      cases hk : (a.2.take (a.2.length - min e a.2.length)).isEmpty with
      | true =>
        simp only [if_true]
        have : a.2.take (a.2.length - min e a.2.length) = [] := List.isEmpty_iff.mp hk
        rw [this] at hsplit
        simp only [List.map_nil, List.count_nil, Nat.zero_add] at hsplit
        omega
      | false =>
        simp only [Bool.false_eq_true, if_false]
        rw [flatTPs_cons, List.count_append]
        dsimp only
        omega

theorem count_flatTPs_mergeSort (l : List (String × List Nat)) (le : String × List Nat → String × List Nat → Bool) (x : TP) :
    List.count x (flatTPs (sortBy le l)) = List.count x (flatTPs l) :=
  ((sortBy_perm l le).flatMap_right _).count_eq x

/-- a claim that may be kept by member `m`: it subscribes to the topic and the partition exists. -/
def ValidClaim (snap : List (String × Nat)) (m : KMember) (tp : TP) : Prop :=
  m.subs.contains tp.1 = true ∧ (snap.lookup tp.1).isSome = true ∧ tp.2 < cnt snap tp.1

/-- what `kPerMember` guarantees for every entry. -/
def PerOK (ms : List KMember) (snap : List (String × Nat))
    (per : List (KMember × List (String × List Nat) × List (String × List Nat) × List TP)) : Prop :=
  ∀ e ∈ per, e.1 ∈ ms ∧ (∀ tp ∈ flatTPs e.2.1, ValidClaim snap e.1 tp) ∧
    ∀ x, List.count x (flatTPs e.2.2.1) + List.count x e.2.2.2 = List.count x (flatTPs e.2.1)

theorem mem_flatTPs (l : List (String × List Nat)) (tp : TP) :
    tp ∈ flatTPs l ↔ ∃ e ∈ l, e.1 = tp.1 ∧ tp.2 ∈ e.2 := by
  unfold flatTPs
  simp only [List.mem_flatMap, List.mem_map]
  constructor
  · rintro ⟨e, he, p, hp, rfl⟩; exact ⟨e, he, rfl, hp⟩
  · rintro ⟨e, he, h1, h2⟩; exact ⟨e, he, tp.2, h2, by rw [h1]⟩

/-- a still-valid prior claim is on an existing partition of a topic the member subscribes to. -/
theorem mem_kKept (snap : List (String × Nat)) (m : KMember) (tp : TP) (h : tp ∈ flatTPs (kKept snap m)) :
    m.subs.contains tp.1 = true ∧ (snap.lookup tp.1).isSome = true ∧ tp.2 < cnt snap tp.1 := by
  obtain ⟨e, he, h1, h2⟩ := (mem_flatTPs _ _).mp h
  unfold kKept at he
  obtain ⟨e0, _, hsome⟩ := List.mem_filterMap.mp he
  simp only [] at hsome
  split at hsome
  · cases hsome
  · cases hsome
    simp only [] at h1 h2
    have := (List.mem_filter.mp h2).2
    simp only [Bool.and_eq_true, decide_eq_true_eq] at this
    rw [← h1]
    exact ⟨this.2, this.1.1, this.1.2⟩

theorem mem_indexFrom (k : Nat) (l : List α) (i : Nat) : i ∈ indexFrom k l ↔ k ≤ i ∧ i < k + l.length := by
  induction l generalizing k with
  | nil => simp [indexFrom]
  | cons a as ih => simp only [indexFrom, List.mem_cons, ih, List.length_cons]; omega

theorem foldl_best (g : Option Nat → Nat → Option Nat) (hg1 : ∀ i, g none i = some i)
    (hg2 : ∀ b i, g (some b) i = some i ∨ g (some b) i = some b) (cands : List Nat) (init : Option Nat) :
    (∀ r, cands.foldl g init = some r → (init = some r ∨ r ∈ cands)) ∧
    ((init.isSome = true ∨ cands ≠ []) → (cands.foldl g init).isSome = true) := by
  induction cands generalizing init with
  | nil => simp
  | cons c cs ih =>
    simp only [List.foldl_cons]
    constructor
    · intro r hr
      rcases (ih _).1 r hr with h | h
      · cases init with
        | none => rw [hg1] at h; simp only [Option.some.injEq] at h; exact Or.inr (by rw [← h]; exact List.mem_cons_self)
        | some b =>
          rcases hg2 b c with e | e
          · rw [e] at h; simp only [Option.some.injEq] at h; exact Or.inr (by rw [← h]; exact List.mem_cons_self)
          · rw [e] at h; exact Or.inl h
      · exact Or.inr (List.mem_cons_of_mem _ h)
    · intro _
      apply (ih _).2
      left
      cases init with
      | none => rw [hg1]; rfl
      | some b => rcases hg2 b c with e | e <;> rw [e] <;> rfl

theorem kBest_some (ms : List KMember) (counts : List Nat) (t : String) (h : ∃ m ∈ ms, m.subs.contains t = true) :
    ∃ i m, kBest ms counts t = some i ∧ ms[i]? = some m ∧ m.subs.contains t = true := by
  obtain ⟨m, hm, ht⟩ := h
  obtain ⟨j, hj, hjm⟩ := List.getElem_of_mem hm
  unfold kBest
  simp only []
  generalize hc : ((indexFrom 0 ms).filter fun i => match ms[i]? with
    | some m => m.subs.contains t
    | none => false) = cands
  have hjc : j ∈ cands := by
    rw [← hc]
    refine List.mem_filter.mpr ⟨(mem_indexFrom 0 ms j).mpr ⟨Nat.zero_le _, by omega⟩, ?_⟩
    rw [List.getElem?_eq_getElem hj, hjm]; exact ht
  have hb := foldl_best (fun best i => match best with
      | none => some i
      | some b => if counts.getD i 0 < counts.getD b 0 then some i else some b)
    (fun i => rfl) (fun b i => by simp only []; split <;> simp) cands none
  have hsome := hb.2 (Or.inr (fun e => by rw [e] at hjc; cases hjc))
  obtain ⟨r, hr⟩ := Option.isSome_iff_exists.mp hsome
  rcases hb.1 r hr with h | h
  · cases h
  · rw [← hc] at h
    have := (List.mem_filter.mp h).2
    cases hmr : ms[r]? with
    | none => simp [hmr] at this
    | some m' =>
      simp only [hmr] at this
      exact ⟨r, m', hr, hmr, this⟩

theorem kDistribute_spec (ms : List KMember) (counts : List Nat) (us : List TP)
    (h : ∀ tp ∈ us, ∃ m ∈ ms, m.subs.contains tp.1 = true) :
    (kDistribute ms counts us).map Triple.tp = us ∧
    ∀ x ∈ kDistribute ms counts us, ∃ m ∈ ms, x.1 = m.id ∧ m.subs.contains x.2.1 = true := by
  induction us generalizing counts with
  | nil => simp [kDistribute]
  | cons tp rest ih =>
    obtain ⟨t, p⟩ := tp
    obtain ⟨i, m, h1, h2, h3⟩ := kBest_some ms counts t (h (t, p) List.mem_cons_self)
    obtain ⟨i1, i2⟩ := ih (counts.set i (counts.getD i 0 + 1)) (fun tp htp => h tp (List.mem_cons_of_mem _ htp))
    simp only [kDistribute, h1, h2]
    refine ⟨by rw [List.map_cons, i1]; rfl, ?_⟩
    intro x hx
    rcases List.mem_cons.mp hx with rfl | hx
    · exact ⟨m, List.mem_of_getElem? h2, rfl, h3⟩
    · exact i2 x hx

end Proof.C25

namespace Proof.C25
open Model.C25

theorem nodup_tps (ts : List String) (hnd : ts.Nodup) (n : String → Nat) :
    (ts.flatMap fun t => (List.range (n t)).map fun p => ((t, p) : TP)).Nodup := by
  unfold List.Nodup
  rw [List.pairwise_flatMap]
  constructor
  · intro t _
    rw [List.pairwise_map]
    exact List.Pairwise.imp (fun {a b} (h : a ≠ b) (e : ((t, a) : TP) = (t, b)) => h (by injection e)) List.nodup_range
  · exact List.Pairwise.imp (fun {a b} (h : a ≠ b) x hx y hy e => by
      obtain ⟨p, _, rfl⟩ := List.mem_map.mp hx
      obtain ⟨q, _, rfl⟩ := List.mem_map.mp hy
      have e' : ((a, p) : TP) = (b, q) := e
      exact h (by injection e')) hnd

theorem kAllTPs_perm (ms : List KMember) (snap : List (String × Nat)) :
    (kAllTPs ms snap).Perm (((kSubscribed ms).filter fun t => (snap.lookup t).isSome).flatMap fun t =>
      (List.range (cnt snap t)).map fun p => (t, p)) := sortBy_perm _ _

theorem nodup_kAllTPs (ms : List KMember) (snap : List (String × Nat)) : (kAllTPs ms snap).Nodup :=
  (kAllTPs_perm ms snap).nodup_iff.mpr
    (nodup_tps _ (List.Nodup.sublist List.filter_sublist (nodup_dedup _)) _)

theorem mem_kAllTPs (ms : List KMember) (snap : List (String × Nat)) (tp : TP) :
    tp ∈ kAllTPs ms snap ↔ tp.1 ∈ ms.flatMap (·.subs) ∧ (snap.lookup tp.1).isSome = true ∧ tp.2 < cnt snap tp.1 := by
  rw [(kAllTPs_perm ms snap).mem_iff, List.mem_flatMap]
  constructor
  · rintro ⟨t, ht, hx⟩
    obtain ⟨p, hp, rfl⟩ := List.mem_map.mp hx
    have := List.mem_filter.mp ht
    exact ⟨(mem_dedup _ _).mp this.1, this.2, List.mem_range.mp hp⟩
  · rintro ⟨h1, h2, h3⟩
    exact ⟨tp.1, List.mem_filter.mpr ⟨(mem_dedup _ _).mpr h1, h2⟩, List.mem_map.mpr ⟨tp.2, List.mem_range.mpr h3, rfl⟩⟩

theorem count_split_flatMap {α β} [BEq β] (per : List α) (f g h : α → List β) (x : β)
    (hs : ∀ e ∈ per, List.count x (f e) + List.count x (g e) = List.count x (h e)) :
    List.count x (per.flatMap f) + List.count x (per.flatMap g) = List.count x (per.flatMap h) := by
  induction per with
  | nil => simp
  | cons e es ih =>
    simp only [List.flatMap_cons, List.count_append]
    have := hs e List.mem_cons_self
    have := ih (fun e he => hs e (List.mem_cons_of_mem _ he))
    omega

/-- the plan of `assignUniform` is valid when no partition is listed twice among the still-valid prior claims. -/
theorem kFinish_valid (ms : List KMember) (snap : List (String × Nat))
    (per : List (KMember × List (String × List Nat) × List (String × List Nat) × List TP))
    (hper : PerOK ms snap per) (hdisj : (per.flatMap fun x => flatTPs x.2.1).Nodup) :
    validPlan (ms.map fun m => (m.id, m.subs)) (cnt snap)
      ((kFinish ms (kAllTPs ms snap) per).stay ++ (kFinish ms (kAllTPs ms snap) per).fresh) = true := by
  unfold kFinish
  simp only []
  generalize hK : (per.flatMap fun x => flatTPs x.2.1) = K at hdisj
  generalize hSh : (per.flatMap fun x => x.2.2.2) = Sh
  generalize hS : (per.flatMap fun x => flatTPs x.2.2.1) = S
  -- (1) stay + shed = kept, pointwise in multiplicity
  have hcount : ∀ x, List.count x S + List.count x Sh = List.count x K := by
    intro x; rw [← hS, ← hSh, ← hK]
    exact count_split_flatMap per _ _ _ x (fun e he => (hper e he).2.2 x)
  have hKle : ∀ x, List.count x K ≤ 1 := List.nodup_iff_count.mp hdisj
  have hSnd : S.Nodup := List.nodup_iff_count.mpr (fun x => by have := hcount x; have := hKle x; omega)
  have hSmem : ∀ x, x ∈ S ↔ (x ∈ K ∧ x ∉ Sh) := by
    intro x
    have h1 := hcount x
    have h2 := hKle x
    rw [← List.count_pos_iff, ← List.count_pos_iff, ← List.count_eq_zero]
    omega
  -- (2) every stay triple is a still-valid claim of its member
  have hstayTP : ((per.flatMap fun x => (flatTPs x.2.2.1).map fun tp => ((x.1.id, tp.1, tp.2) : Triple)).map Triple.tp) = S := by
    rw [← hS, List.map_flatMap]
    congr 1; funext x
    rw [List.map_map]
    have : (Triple.tp ∘ fun tp : TP => ((x.1.id, tp.1, tp.2) : Triple)) = id := by funext tp; rfl
    rw [this, List.map_id]
  have hstayMem : ∀ x ∈ (per.flatMap fun x => (flatTPs x.2.2.1).map fun tp => ((x.1.id, tp.1, tp.2) : Triple)),
      ∃ m ∈ ms, x.1 = m.id ∧ m.subs.contains x.2.1 = true ∧ (snap.lookup x.2.1).isSome = true ∧ x.2.2 < cnt snap x.2.1 := by
    intro x hx
    obtain ⟨e, he, hxe⟩ := List.mem_flatMap.mp hx
    obtain ⟨tp, htp, rfl⟩ := List.mem_map.mp hxe
    obtain ⟨hm, hk, hc⟩ := hper e he
    have : tp ∈ flatTPs e.2.1 := by
      rw [← List.count_pos_iff]
      have := hc tp
      have := List.count_pos_iff.mpr htp
      omega
    obtain ⟨k1, k2, k3⟩ := hk tp this
    exact ⟨e.1, hm, rfl, k1, k2, k3⟩
  have hSsub : ∀ tp ∈ S, tp ∈ kAllTPs ms snap := by
    intro tp htp
    rw [← hstayTP] at htp
    obtain ⟨x, hx, rfl⟩ := List.mem_map.mp htp
    obtain ⟨m, hm, _, k1, k2, k3⟩ := hstayMem x hx
    exact (mem_kAllTPs ms snap _).mpr ⟨List.mem_flatMap.mpr ⟨m, hm, List.contains_iff_mem.mp k1⟩, k2, k3⟩
  -- (3) unassigned = all − stay
  have hun : ((kAllTPs ms snap).filter fun tp => !(K.contains tp && !Sh.contains tp))
      = (kAllTPs ms snap).filter fun tp => !S.contains tp := by
    apply List.filter_congr
    intro tp _
    have := hSmem tp
    by_cases h1 : tp ∈ S
    · have h2 := this.mp h1
      simp [h1, h2.1, h2.2]
    · have : ¬ (tp ∈ K ∧ tp ∉ Sh) := fun h => h1 (this.mpr h)
      by_cases hk : tp ∈ K <;> by_cases hs : tp ∈ Sh <;> simp_all
  rw [hun]
  obtain ⟨d1, d2⟩ := kDistribute_spec ms (per.map fun x => kCount x.2.2.1)
    ((kAllTPs ms snap).filter fun tp => !S.contains tp) (fun tp htp => by
      have := (mem_kAllTPs ms snap tp).mp (List.mem_filter.mp htp).1
      obtain ⟨m, hm, h⟩ := List.mem_flatMap.mp this.1
      exact ⟨m, hm, List.contains_iff_mem.mpr h⟩)
  -- (4) all tps of the plan
  have hall : ((per.flatMap fun x => (flatTPs x.2.2.1).map fun tp => ((x.1.id, tp.1, tp.2) : Triple)) ++
      kDistribute ms (per.map fun x => kCount x.2.2.1) ((kAllTPs ms snap).filter fun tp => !S.contains tp)).map Triple.tp
      |>.Perm (kAllTPs ms snap) := by
    rw [List.map_append, hstayTP, d1]
    have h1 : ((kAllTPs ms snap).filter fun tp => S.contains tp).Perm S := by
      apply (List.perm_ext_iff_of_nodup (List.Nodup.sublist List.filter_sublist (nodup_kAllTPs ms snap)) hSnd).mpr
      intro tp
      simp only [List.mem_filter, List.contains_iff_mem]
      exact ⟨fun h => h.2, fun h => ⟨hSsub tp h, h⟩⟩
    exact (List.Perm.append_right _ h1.symm).trans (List.filter_append_perm _ _)
  apply validPlan_intro
  · intro x hx
    rcases List.mem_append.mp hx with hx | hx
    · obtain ⟨m, hm, h1, h2, _, h4⟩ := hstayMem x hx
      exact ⟨⟨(m.id, m.subs), List.mem_map.mpr ⟨m, hm, rfl⟩, h1.symm, List.contains_iff_mem.mp h2⟩, h4⟩
    · obtain ⟨m, hm, h1, h2⟩ := d2 x hx
      refine ⟨⟨(m.id, m.subs), List.mem_map.mpr ⟨m, hm, rfl⟩, h1.symm, List.contains_iff_mem.mp h2⟩, ?_⟩
      have : Triple.tp x ∈ (kAllTPs ms snap).filter fun tp => !S.contains tp := by
        rw [← d1]; exact List.mem_map.mpr ⟨x, hx, rfl⟩
      exact ((mem_kAllTPs ms snap _).mp (List.mem_filter.mp this).1).2.2
  · intro t ht
    have ht' : t ∈ ms.flatMap (·.subs) := by simpa [List.flatMap_map] using ht
    rw [parts_via_tp]
    have h := ((hall.filter (·.1 == t)).map (·.2))
    refine h.trans ?_
    by_cases hin : (snap.lookup t).isSome = true
    · exact parts_of_tps_mem _ (List.Nodup.sublist List.filter_sublist (nodup_dedup _)) (cnt snap) _
        (kAllTPs_perm ms snap) t (List.mem_filter.mpr ⟨(mem_dedup _ _).mpr ht', hin⟩)
    · rw [parts_of_tps_not_mem _ (cnt snap) _ (kAllTPs_perm ms snap) t (fun h => hin (List.mem_filter.mp h).2)]
      rw [cnt_eq_zero_of_lookup_none snap t hin]
      exact List.Perm.refl _

end Proof.C25

namespace Proof.C25
open Model.C25

theorem kSubsOf_perm (assignor : String) (ms0 : List KMember) :
    ((kSortIDs assignor (ms0.filter (!·.away))).map fun m => (m.id, m.subs)).Perm (kSubsOf ms0) :=
  (kSortIDs_perm assignor _).map _

theorem kCompute_range_valid (ms0 : List KMember) (snap : List (String × Nat)) :
    validPlan (kSubsOf ms0) (cnt snap) (kCompute "range" ms0 snap) = true := by
  rw [← validPlan_perm _ _ (kSubsOf_perm "range" ms0)]
  unfold kCompute
  simp only []
  split
  · rename_i h
    rw [List.isEmpty_iff.mp h]; rfl
  · simp only [beq_self_eq_true, if_true]
    exact kAssignRange_valid _ snap

/-! ### step 1 of the repaired assignUniform: nothing is kept twice -/

theorem keepParts_spec (ok : Nat → Bool) (t : String) (seen : List TP) (ps : List Nat) :
    ((keepParts ok t seen ps).1.map fun p => ((t, p) : TP)).Nodup ∧
    (∀ p ∈ (keepParts ok t seen ps).1, ok p = true ∧ ((t, p) : TP) ∉ seen) ∧
    (∀ x, x ∈ (keepParts ok t seen ps).2 ↔ x ∈ seen ∨ x ∈ (keepParts ok t seen ps).1.map fun p => ((t, p) : TP)) := by
  induction ps generalizing seen with
  | nil => simp [keepParts]
  | cons p ps ih =>
    unfold keepParts
    by_cases h : (ok p && !seen.contains (t, p)) = true
    · simp only [h, if_true]
      obtain ⟨i1, i2, i3⟩ := ih ((t, p) :: seen)
      simp only [Bool.and_eq_true, Bool.not_eq_true'] at h
      have hns : ((t, p) : TP) ∉ seen := fun hm => by
        have := List.contains_iff_mem.mpr hm; rw [h.2] at this; exact Bool.noConfusion this
      refine ⟨?_, ?_, ?_⟩
      · simp only [List.map_cons]
        refine List.nodup_cons.mpr ⟨?_, i1⟩
        intro hm
        obtain ⟨q, hq, e⟩ := List.mem_map.mp hm
        have hqp : q = p := by injection e with _ e2
        exact (i2 q hq).2 (by rw [hqp]; exact List.mem_cons_self)
      · intro q hq
        rcases List.mem_cons.mp hq with rfl | hq
        · exact ⟨h.1, hns⟩
        · exact ⟨(i2 q hq).1, fun hm => (i2 q hq).2 (List.mem_cons_of_mem _ hm)⟩
      · intro x
        rw [i3 x]
        simp only [List.mem_cons, List.map_cons]
        constructor
        · rintro ((h1 | h1) | h1)
          · exact Or.inr (Or.inl h1)
          · exact Or.inl h1
          · exact Or.inr (Or.inr h1)
        · rintro (h1 | h1 | h1)
          · exact Or.inl (Or.inr h1)
          · exact Or.inl (Or.inl h1)
          · exact Or.inr h1
    · simp only [h, Bool.false_eq_true, if_false]
      exact ih seen

theorem keepEntries_spec (snap : List (String × Nat)) (m : KMember) (seen : List TP) (es : List (String × List Nat)) :
    (flatTPs (keepEntries snap m seen es).1).Nodup ∧
    (∀ tp ∈ flatTPs (keepEntries snap m seen es).1, ValidClaim snap m tp ∧ tp ∉ seen) ∧
    (∀ x, x ∈ (keepEntries snap m seen es).2 ↔ x ∈ seen ∨ x ∈ flatTPs (keepEntries snap m seen es).1) := by
  induction es generalizing seen with
  | nil => simp [keepEntries, flatTPs]
  | cons e es ih =>
    unfold keepEntries
    simp only []
    generalize hr : keepParts (fun p => (snap.lookup e.1).isSome && p < cnt snap e.1 && m.subs.contains e.1) e.1 seen e.2 = r
    obtain ⟨p1, p2, p3⟩ := keepParts_spec (fun p => (snap.lookup e.1).isSome && p < cnt snap e.1 && m.subs.contains e.1) e.1 seen e.2
    rw [hr] at p1 p2 p3
    obtain ⟨i1, i2, i3⟩ := ih r.2
    have hflat : flatTPs (if r.1.isEmpty = true then (keepEntries snap m r.2 es).1 else (e.1, r.1) :: (keepEntries snap m r.2 es).1)
        = (r.1.map fun p => ((e.1, p) : TP)) ++ flatTPs (keepEntries snap m r.2 es).1 := by
      cases hk : r.1.isEmpty with
      | true => simp [List.isEmpty_iff.mp hk]
      | false => simp [flatTPs_cons]
    rw [hflat]
    refine ⟨?_, ?_, ?_⟩
    · refine List.nodup_append.mpr ⟨p1, i1, ?_⟩
      intro x hx y hy hxy
      subst hxy
      exact (i2 x hy).2 ((p3 x).mpr (Or.inr hx))
    · intro tp htp
      rcases List.mem_append.mp htp with h | h
      · obtain ⟨q, hq, rfl⟩ := List.mem_map.mp h
        have := p2 q hq
        simp only [Bool.and_eq_true, decide_eq_true_eq] at this
        exact ⟨⟨this.1.2, this.1.1.1, this.1.1.2⟩, this.2⟩
      · exact ⟨(i2 tp h).1, fun hm => (i2 tp h).2 ((p3 tp).mpr (Or.inl hm))⟩
    · intro x
      rw [i3 x, p3 x, List.mem_append]
      constructor
      · rintro ((h | h) | h)
        · exact Or.inl h
        · exact Or.inr (Or.inl h)
        · exact Or.inr (Or.inr h)
      · rintro (h | h | h)
        · exact Or.inl (Or.inl h)
        · exact Or.inl (Or.inr h)
        · exact Or.inr h

theorem keepMembers_spec (snap : List (String × Nat)) (seen : List TP) (ms : List KMember) :
    (keepMembers snap seen ms).length = ms.length ∧
    ((keepMembers snap seen ms).flatMap flatTPs).Nodup ∧
    (∀ tp ∈ (keepMembers snap seen ms).flatMap flatTPs, tp ∉ seen) ∧
    (∀ mk ∈ ms.zip (keepMembers snap seen ms), ∀ tp ∈ flatTPs mk.2, ValidClaim snap mk.1 tp) := by
  induction ms generalizing seen with
  | nil => simp [keepMembers]
  | cons m ms ih =>
    obtain ⟨e1, e2, e3⟩ := keepEntries_spec snap m seen m.target
    obtain ⟨i0, i1, i2, i3⟩ := ih (keepEntries snap m seen m.target).2
    simp only [keepMembers, List.length_cons, i0, List.flatMap_cons, List.zip_cons_cons, true_and]
    refine ⟨?_, ?_, ?_⟩
    · refine List.nodup_append.mpr ⟨e1, i1, ?_⟩
      intro x hx y hy hxy
      subst hxy
      exact i2 x hy ((e3 x).mpr (Or.inr hx))
    · intro tp htp
      rcases List.mem_append.mp htp with h | h
      · exact (e2 tp h).2
      · exact fun hm => i2 tp h ((e3 tp).mpr (Or.inl hm))
    · intro mk hmk tp htp
      rcases List.mem_cons.mp hmk with rfl | hmk
      · exact (e2 tp htp).1
      · exact i3 mk hmk tp htp

theorem kPerMember_ok (ms : List KMember) (snap : List (String × Nat)) (seen : List TP) (allowedOf : Nat → Nat) :
    PerOK ms snap (kPerMember ms (keepMembers snap seen ms) allowedOf) := by
  intro e he
  unfold kPerMember at he
  obtain ⟨im, him, rfl⟩ := List.mem_map.mp he
  have hz := (List.of_mem_zip him).2
  refine ⟨(List.of_mem_zip hz).1, fun tp htp => (keepMembers_spec snap seen ms).2.2.2 im.2 hz tp htp, fun x => ?_⟩
  simp only []
  rw [kShed_count, count_flatTPs_mergeSort]

theorem kPerMember_kept (ms : List KMember) (kept : List (List (String × List Nat))) (hl : kept.length = ms.length)
    (allowedOf : Nat → Nat) :
    ((kPerMember ms kept allowedOf).flatMap fun x => flatTPs x.2.1) = kept.flatMap flatTPs := by
  unfold kPerMember
  rw [List.flatMap_map]
  have : ((indexFrom 0 ms).zip (ms.zip kept)).flatMap (fun im => flatTPs im.2.2)
      = ((((indexFrom 0 ms).zip (ms.zip kept)).map Prod.snd).map Prod.snd).flatMap flatTPs := by
    rw [List.map_map, List.flatMap_map]; rfl
  rw [this, List.map_snd_zip (by rw [length_indexFrom, List.length_zip]; omega),
    List.map_snd_zip (by omega)]

/-- `assignUniform` (as repaired in 31831e3) is valid for every input, conflicting prior targets included. -/
theorem kCompute_uniform_valid (assignor : String) (hne : (assignor == "range") = false) (ms0 : List KMember)
    (snap : List (String × Nat)) :
    validPlan (kSubsOf ms0) (cnt snap) (kCompute assignor ms0 snap) = true := by
  rw [← validPlan_perm _ _ (kSubsOf_perm assignor ms0)]
  unfold kCompute
  simp only []
  split
  · rename_i h
    rw [List.isEmpty_iff.mp h]; rfl
  · simp only [hne, Bool.false_eq_true, if_false]
    unfold kAssignUniform kAssignUniformParts
    simp only []
    apply kFinish_valid _ snap _ (kPerMember_ok _ snap [] _)
    rw [kPerMember_kept _ _ (keepMembers_spec snap [] _).1]
    exact (keepMembers_spec snap [] _).2.1

end Proof.C25
