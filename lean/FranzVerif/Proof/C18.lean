import FranzVerif.Model.C18
import FranzVerif.Proof.C17
/-! C18 — helper lemmas: lengths of the wire primitives, the batch accounting invariant, exact lengths of
the serialised records / batches / requests (core Lean only). -/
namespace Proof.C18
open Model.C18
open Spec.C17 (byte encU lenU be zz)

/-! ## primitives -/

theorem be_length (k n : Nat) : (be k n).length = k := by
  induction k with
  | zero => simp [be]
  | succ k ih => simp [be, ih]

@[simp] theorem beI_length (k : Nat) (i : Int) : (beI k i).length = k := by simp [beI, be_length]
@[simp] theorem uvarint_length (n : Nat) : (uvarint n).length = uvarintLen n := by
  simp [uvarint, uvarintLen, Proof.C17.encU_length]
@[simp] theorem varint_length (i : Int) : (varint i).length = varintLen i := by
  simp [varint, varintLen, Proof.C17.encU_length]

theorem lenU_pos (n : Nat) : 1 ≤ lenU n := by
  by_cases h : n < 128
  · rw [Proof.C17.lenU_lt h]; omega
  · rw [Proof.C17.lenU_ge h]; omega

theorem lenU_mono : ∀ (b a : Nat), a ≤ b → lenU a ≤ lenU b := by
  intro b
  induction b using Nat.strongRecOn with
  | _ b ih =>
    intro a hab
    by_cases hb : b < 128
    · rw [Proof.C17.lenU_lt hb, Proof.C17.lenU_lt (by omega)]; omega
    · rw [Proof.C17.lenU_ge hb]
      by_cases ha : a < 128
      · rw [Proof.C17.lenU_lt ha]; omega
      · rw [Proof.C17.lenU_ge ha]
        have := ih (b / 128) (by omega) (a / 128) (Nat.div_le_div_right hab)
        omega

theorem varintLen_pos (i : Int) : 1 ≤ varintLen i := lenU_pos _
theorem uvarintLen_pos (n : Nat) : 1 ≤ uvarintLen n := lenU_pos _

theorem varintLen_neg1 : varintLen (-1) = 1 := by
  simp [varintLen, zz]; exact Proof.C17.lenU_lt (by omega)
theorem varintLen_zero : varintLen 0 = 1 := by
  simp [varintLen, zz]; exact Proof.C17.lenU_lt (by omega)

/-- `AppendVarintBytes` takes as many bytes as the accounting assumes (nil is written as -1, counted as 0) -/
@[simp] theorem varintBytes_length (b : Option Bytes) :
    (varintBytes b).length = varintLen (blen b) + blen b := by
  cases b with
  | none => simp [varintBytes, blen, varintLen_neg1, varintLen_zero]
  | some b => simp [varintBytes, blen]

@[simp] theorem varintString_length (s : Bytes) : (varintString s).length = varintLen s.length + s.length := by
  simp [varintString]

@[simp] theorem headersTo_length (hs : List Header) : (headersTo hs).length = headersLen hs := by
  induction hs with
  | nil => simp [headersTo, headersLen]
  | cons h hs ih => simp [headersTo, headersLen, headerLen, ih]; omega

@[simp] theorem nullableBytes_length (b : Option Bytes) : (nullableBytes b).length = 4 + blen b := by
  cases b <;> simp [nullableBytes, blen]
@[simp] theorem string16_length (s : Bytes) : (string16 s).length = 2 + s.length := by simp [string16]
@[simp] theorem nullableString_length (s : Option Bytes) : (nullableString s).length = 2 + blen s := by
  cases s <;> simp [nullableString, blen]
@[simp] theorem compactString_length (s : Bytes) : (compactString s).length = uvarintLen (1 + s.length) + s.length := by
  simp [compactString]

/-! ## records -/

/-- the `lengthField` formula of `calculateRecordNumbers` for a record at offset delta `i` with delta `d` -/
def recBody (r : Rec) (d : Int) (i : Nat) : Nat :=
  1 + varintLen d + varintLen i + varintLen (blen r.key) + blen r.key
    + varintLen (blen r.value) + blen r.value + varintLen r.headers.length + headersLen r.headers

/-- a buffered record carries the length of its own body at offset delta `i` -/
def RecOK (pr : PRec) (i : Nat) : Prop := pr.length = recBody pr.r pr.tsDelta i

theorem recordAppendTo_length (pr : PRec) (i : Nat) (h : RecOK pr i) :
    (recordAppendTo pr i).length = numsWireLength pr.length := by
  unfold RecOK recBody at h
  simp [recordAppendTo, numsWireLength]
  omega

def AllOK : Nat → List PRec → Prop
  | _, [] => True
  | i, pr :: rest => RecOK pr i ∧ AllOK (i + 1) rest

def wireSum : List PRec → Nat
  | [] => 0
  | pr :: rest => numsWireLength pr.length + wireSum rest

theorem AllOK_snoc (i : Nat) (l : List PRec) (x : PRec) :
    AllOK i (l ++ [x]) ↔ AllOK i l ∧ RecOK x (i + l.length) := by
  induction l generalizing i with
  | nil => simp [AllOK]
  | cons a l ih =>
    simp only [List.cons_append, AllOK, ih, List.length_cons]
    have : i + 1 + l.length = i + (l.length + 1) := by omega
    rw [this]; exact and_assoc.symm

theorem wireSum_snoc (l : List PRec) (x : PRec) : wireSum (l ++ [x]) = wireSum l + numsWireLength x.length := by
  induction l with
  | nil => simp [wireSum]
  | cons a l ih => simp [wireSum, ih]; omega

theorem recordsFrom_length (i : Nat) (l : List PRec) (h : AllOK i l) :
    (recordsFrom i l).length = wireSum l := by
  induction l generalizing i with
  | nil => simp [recordsFrom, wireSum]
  | cons a l ih =>
    simp only [recordsFrom, List.length_append, wireSum]
    rw [recordAppendTo_length a i h.1, ih (i + 1) h.2]

/-! ## the batch invariant -/

def v1Sum : List PRec → Int
  | [] => 0
  | pr :: rest => messageSet1Length pr.r + v1Sum rest

theorem v1Sum_snoc (l : List PRec) (x : PRec) : v1Sum (l ++ [x]) = v1Sum l + messageSet1Length x.r := by
  induction l with
  | nil => simp [v1Sum]
  | cons a l ih => simp [v1Sum, ih]; omega

/-- what `tryBuffer`/`appendRecord` maintain -/
structure BatchInv (b : Batch) : Prop where
  wire : b.wireLength = recordBatchOverhead + wireSum b.records
  v1 : b.v1wireLength = v1Sum b.records
  ok : AllOK 0 b.records

theorem inv_new : BatchInv newRecordBatch := by
  constructor <;> simp [newRecordBatch, wireSum, v1Sum, AllOK]

theorem tryBuffer_inv (b b' : Batch) (r : Rec) (pv m : Int) (hb : BatchInv b)
    (h : tryBuffer b r pv m = some b') : BatchInv b' := by
  unfold tryBuffer at h
  simp only at h
  split at h
  · simp at h
  · simp only [Option.some.injEq] at h
    subst h
    constructor
    · simp [appendRecord, wireSum_snoc, hb.wire]; omega
    · simp [appendRecord, v1Sum_snoc, hb.v1]
    · simp only [appendRecord, AllOK_snoc, Nat.zero_add]
      refine ⟨hb.ok, ?_⟩
      simp [RecOK, recBody, calculateRecordNumbers]

/-- every record added makes the batch strictly longer, so a batch with a record is longer than the overhead -/
theorem numsWireLength_pos (n : Nat) : 1 ≤ numsWireLength n := by
  have := varintLen_pos n; simp [numsWireLength]; omega

/-! ## record batch v2: encoded length -/

theorem compressStep_length (comp : Option Compressor) (v : Int) (tc : Bytes) :
    (compressStep comp v tc).1.length + (compressStep comp v tc).2.1 = tc.length := by
  unfold compressStep
  cases comp with
  | none => simp
  | some c =>
    simp only
    rcases hc : c (decide (v < 7)) tc with ⟨out, codec⟩
    cases out with
    | none => simp
    | some o =>
      simp only
      split
      · simp; omega
      · simp

theorem compressStep_none (v : Int) (tc : Bytes) : compressStep none v tc = (tc, 0, 0) := rfl

theorem batchBody_length (crc : Bytes → Nat) (comp : Option Compressor) (b : PartBatch) (v pid ep : Int) (tx : Bool)
    (hinv : BatchInv b.batch) :
    ((batchBody crc comp b v pid ep tx).length : Int) = batchLength b.batch - savingsOf comp b v := by
  have hlen := compressStep_length comp v (recordsFrom 0 b.batch.records)
  have hrf := recordsFrom_length 0 b.batch.records hinv.ok
  have hw := hinv.wire
  unfold batchBody savingsOf
  simp only
  rcases hcs : compressStep comp v (recordsFrom 0 b.batch.records) with ⟨payload, savings, codec⟩
  rw [hcs] at hlen
  simp only at hlen ⊢
  simp only [recordBatchOverhead] at hw
  simp only [List.length_append, beI_length, List.length_cons, List.length_nil, batchLength]
  omega

/-- the length `seqRecBatch.appendTo` appends, in terms of the accounted wire length and the bytes saved by
compression -/
theorem batchAppendTo_length (crc : Bytes → Nat) (comp : Option Compressor) (b : PartBatch) (v pid ep : Int) (tx : Bool)
    (hinv : BatchInv b.batch) :
    ((batchAppendTo crc comp b v pid ep tx).length : Int) =
      if v ≥ 9 then (uvarintLen (uvar32 (batchLength b.batch - savingsOf comp b v)) : Int) + (batchLength b.batch - savingsOf comp b v)
      else b.batch.wireLength - savingsOf comp b v := by
  have hb := batchBody_length crc comp b v pid ep tx hinv
  unfold batchAppendTo
  simp only
  by_cases hv : v ≥ 9
  · simp only [hv, if_true]
    by_cases heq : ((batchBody crc comp b v pid ep tx).length : Int) = batchLength b.batch
    · simp only [heq, if_true, List.length_append, uvarint_length]
      have : (savingsOf comp b v : Int) = 0 := by omega
      rw [this]; simp; omega
    · simp only [heq, if_false, List.length_append, uvarint_length]
      rw [hb]; simp; omega
  · simp only [hv, if_false, List.length_append, beI_length]
    simp only [batchLength] at hb
    omega

end Proof.C18
