import FranzVerif.Model.C18
import FranzVerif.Proof.C17
/-! C18 — helper lemmas: lengths of the wire primitives, the batch accounting invariant, exact lengths of
the serialised records / batches / requests (core Lean only). -/
namespace Proof.C18
open Model.C18
open Spec.C17 (byte encU lenU be zz)

/-! ## primitives -/

theorem be_length (k n : Nat) : (be k n).length = k := by
  induction k with
  | zero => simp [be]
  | succ k ih => simp [be, ih]

@[simp] theorem beI_length (k : Nat) (i : Int) : (beI k i).length = k := by simp [beI, be_length]
@[simp] theorem uvarint_length (n : Nat) : (uvarint n).length = uvarintLen n := by
  simp [uvarint, uvarintLen, Proof.C17.encU_length]
@[simp] theorem varint_length (i : Int) : (varint i).length = varintLen i := by
  simp [varint, varintLen, Proof.C17.encU_length]

theorem lenU_pos (n : Nat) : 1 ≤ lenU n := by
  by_cases h : n < 128
  · rw [Proof.C17.lenU_lt h]; omega
  · rw [Proof.C17.lenU_ge h]; omega

theorem lenU_mono : ∀ (b a : Nat), a ≤ b → lenU a ≤ lenU b := by
  intro b
  induction b using Nat.strongRecOn with
  | _ b ih =>
    intro a hab
    by_cases hb : b < 128
    · rw [Proof.C17.lenU_lt hb, Proof.C17.lenU_lt (by omega)]; omega
    · rw [Proof.C17.lenU_ge hb]
      by_cases ha : a < 128
      · rw [Proof.C17.lenU_lt ha]; omega
      · rw [Proof.C17.lenU_ge ha]
        have := ih (b / 128) (by omega) (a / 128) (Nat.div_le_div_right hab)
        omega

theorem varintLen_pos (i : Int) : 1 ≤ varintLen i := lenU_pos _
theorem uvarintLen_pos (n : Nat) : 1 ≤ uvarintLen n := lenU_pos _

theorem varintLen_neg1 : varintLen (-1) = 1 := by
  simp [varintLen, zz]; exact Proof.C17.lenU_lt (by omega)
theorem varintLen_zero : varintLen 0 = 1 := by
  simp [varintLen, zz]; exact Proof.C17.lenU_lt (by omega)

/-- `AppendVarintBytes` takes as many bytes as the accounting assumes (nil is written as -1, counted as 0) -/
@[simp] theorem varintBytes_length (b : Option Bytes) :
    (varintBytes b).length = varintLen (blen b) + blen b := by
  cases b with
  | none => simp [varintBytes, blen, varintLen_neg1, varintLen_zero]
  | some b => simp [varintBytes, blen]

@[simp] theorem varintString_length (s : Bytes) : (varintString s).length = varintLen s.length + s.length := by
  simp [varintString]

@[simp] theorem headersTo_length (hs : List Header) : (headersTo hs).length = headersLen hs := by
  induction hs with
  | nil => simp [headersTo, headersLen]
  | cons h hs ih => simp [headersTo, headersLen, headerLen, ih]; omega

@[simp] theorem nullableBytes_length (b : Option Bytes) : (nullableBytes b).length = 4 + blen b := by
  cases b <;> simp [nullableBytes, blen]
@[simp] theorem string16_length (s : Bytes) : (string16 s).length = 2 + s.length := by simp [string16]
@[simp] theorem nullableString_length (s : Option Bytes) : (nullableString s).length = 2 + blen s := by
  cases s <;> simp [nullableString, blen]
@[simp] theorem compactString_length (s : Bytes) : (compactString s).length = uvarintLen (1 + s.length) + s.length := by
  simp [compactString]

/-! ## records -/

/-- the `lengthField` formula of `calculateRecordNumbers` for a record at offset delta `i` with delta `d` -/
def recBody (r : Rec) (d : Int) (i : Nat) : Nat :=
  1 + varintLen d + varintLen i + varintLen (blen r.key) + blen r.key
    + varintLen (blen r.value) + blen r.value + varintLen r.headers.length + headersLen r.headers

/-- a buffered record carries the length of its own body at offset delta `i` -/
def RecOK (pr : PRec) (i : Nat) : Prop := pr.length = recBody pr.r pr.tsDelta i

theorem recordAppendTo_length (pr : PRec) (i : Nat) (h : RecOK pr i) :
    (recordAppendTo pr i).length = numsWireLength pr.length := by
  unfold RecOK recBody at h
  simp [recordAppendTo, numsWireLength]
  omega

def AllOK : Nat → List PRec → Prop
  | _, [] => True
  | i, pr :: rest => RecOK pr i ∧ AllOK (i + 1) rest

def wireSum : List PRec → Nat
  | [] => 0
  | pr :: rest => numsWireLength pr.length + wireSum rest

theorem AllOK_snoc (i : Nat) (l : List PRec) (x : PRec) :
    AllOK i (l ++ [x]) ↔ AllOK i l ∧ RecOK x (i + l.length) := by
  induction l generalizing i with
  | nil => simp [AllOK]
  | cons a l ih =>
    simp only [List.cons_append, AllOK, ih, List.length_cons]
    have : i + 1 + l.length = i + (l.length + 1) := by omega
    rw [this]; exact and_assoc.symm

theorem wireSum_snoc (l : List PRec) (x : PRec) : wireSum (l ++ [x]) = wireSum l + numsWireLength x.length := by
  induction l with
  | nil => simp [wireSum]
  | cons a l ih => simp [wireSum, ih]; omega

theorem recordsFrom_length (i : Nat) (l : List PRec) (h : AllOK i l) :
    (recordsFrom i l).length = wireSum l := by
  induction l generalizing i with
  | nil => simp [recordsFrom, wireSum]
  | cons a l ih =>
    simp only [recordsFrom, List.length_append, wireSum]
    rw [recordAppendTo_length a i h.1, ih (i + 1) h.2]

/-! ## the batch invariant -/

def v1Sum : List PRec → Int
  | [] => 0
  | pr :: rest => messageSet1Length pr.r + v1Sum rest

theorem v1Sum_snoc (l : List PRec) (x : PRec) : v1Sum (l ++ [x]) = v1Sum l + messageSet1Length x.r := by
  induction l with
  | nil => simp [v1Sum]
  | cons a l ih => simp [v1Sum, ih]; omega

/-- what `tryBuffer`/`appendRecord` maintain -/
structure BatchInv (b : Batch) : Prop where
  wire : b.wireLength = recordBatchOverhead + wireSum b.records
  v1 : b.v1wireLength = v1Sum b.records
  ok : AllOK 0 b.records

theorem inv_new : BatchInv newRecordBatch := by
  constructor <;> simp [newRecordBatch, wireSum, v1Sum, AllOK]

theorem tryBuffer_inv (b b' : Batch) (r : Rec) (pv m : Int) (hb : BatchInv b)
    (h : tryBuffer b r pv m = some b') : BatchInv b' := by
  unfold tryBuffer at h
  simp only at h
  split at h
  · simp at h
  · simp only [Option.some.injEq] at h
    subst h
    constructor
    · simp [appendRecord, wireSum_snoc, hb.wire]; omega
    · simp [appendRecord, v1Sum_snoc, hb.v1]
    · simp only [appendRecord, AllOK_snoc, Nat.zero_add]
      refine ⟨hb.ok, ?_⟩
      simp [RecOK, recBody, calculateRecordNumbers]

/-- every record added makes the batch strictly longer, so a batch with a record is longer than the overhead -/
theorem numsWireLength_pos (n : Nat) : 1 ≤ numsWireLength n := by
  have := varintLen_pos n; simp [numsWireLength]; omega

/-! ## record batch v2: encoded length -/

theorem compressStep_length (comp : Option Compressor) (v : Int) (tc : Bytes) :
    (compressStep comp v tc).1.length + (compressStep comp v tc).2.1 = tc.length := by
  unfold compressStep
  cases comp with
  | none => simp
  | some c =>
    simp only
    rcases hc : c (decide (v < 7)) tc with ⟨out, codec⟩
    cases out with
    | none => simp
    | some o =>
      simp only
      split
      · simp; omega
      · simp

theorem compressStep_none (v : Int) (tc : Bytes) : compressStep none v tc = (tc, 0, 0) := rfl

theorem batchBody_length (crc : Bytes → Nat) (comp : Option Compressor) (b : PartBatch) (v pid ep : Int) (tx : Bool)
    (hinv : BatchInv b.batch) :
    ((batchBody crc comp b v pid ep tx).length : Int) = batchLength b.batch - savingsOf comp b v := by
  have hlen := compressStep_length comp v (recordsFrom 0 b.batch.records)
  have hrf := recordsFrom_length 0 b.batch.records hinv.ok
  have hw := hinv.wire
  unfold batchBody savingsOf
  simp only
  rcases hcs : compressStep comp v (recordsFrom 0 b.batch.records) with ⟨payload, savings, codec⟩
  rw [hcs] at hlen
  simp only at hlen ⊢
  simp only [recordBatchOverhead] at hw
  simp only [List.length_append, beI_length, List.length_cons, List.length_nil, batchLength]
  omega

/-- the length `seqRecBatch.appendTo` appends, in terms of the accounted wire length and the bytes saved by
compression -/
theorem batchAppendTo_length (crc : Bytes → Nat) (comp : Option Compressor) (b : PartBatch) (v pid ep : Int) (tx : Bool)
    (hinv : BatchInv b.batch) :
    ((batchAppendTo crc comp b v pid ep tx).length : Int) =
      if v ≥ 9 then (uvarintLen (uvar32 (batchLength b.batch - savingsOf comp b v)) : Int) + (batchLength b.batch - savingsOf comp b v)
      else b.batch.wireLength - savingsOf comp b v := by
  have hb := batchBody_length crc comp b v pid ep tx hinv
  unfold batchAppendTo
  simp only
  by_cases hv : v ≥ 9
  · simp only [hv, if_true]
    by_cases heq : ((batchBody crc comp b v pid ep tx).length : Int) = batchLength b.batch
    · simp only [heq, if_true, List.length_append, uvarint_length]
      have : (savingsOf comp b v : Int) = 0 := by omega
      rw [this]; simp; omega
    · simp only [heq, if_false, List.length_append, uvarint_length]
      rw [hb]; simp; omega
  · simp only [hv, if_false, List.length_append, beI_length]
    simp only [batchLength] at hb
    omega

/-! ## request accounting in closed form -/

/-- the batch length `tryAddBatch` uses at produce version `pv` -/
def bwl (pv : Int) (b : Batch) : Int := (wireLengthForProduceVersion b pv).1

theorem wlfpv_flexible (b : Batch) (pv : Int) : (wireLengthForProduceVersion b pv).2.1 = decide (pv ≥ 9) := by
  unfold wireLengthForProduceVersion
  by_cases h0 : pv < 0
  · simp [h0]; omega
  · by_cases h1 : pv = 0 ∨ pv = 1
    · simp [h0, h1]; omega
    · by_cases h2 : pv = 2
      · simp [h2]
      · by_cases h3 : pv ≤ 8
        · simp [h0, h1, h2, h3]; omega
        · simp [h0, h1, h2, h3]; omega

theorem wlfpv_topicIDs (b : Batch) (pv : Int) : (wireLengthForProduceVersion b pv).2.2 = decide (pv ≥ 13) := by
  unfold wireLengthForProduceVersion
  by_cases h0 : pv < 0
  · simp [h0]; omega
  · by_cases h1 : pv = 0 ∨ pv = 1
    · simp [h0, h1]; omega
    · by_cases h2 : pv = 2
      · simp [h2]
      · by_cases h3 : pv ≤ 8
        · simp [h0, h1, h2, h3]; omega
        · simp [h0, h1, h2, h3]

def topicOverhead (pv : Int) (topic : Bytes) : Int :=
  if pv ≥ 13 then 16 + 1 else if pv ≥ 9 then uvarlen topic.length + topic.length + 1 else 2 + topic.length + 4

def partsAcct (pv : Int) : List PartBatch → Int
  | [] => 0
  | p :: ps => 4 + bwl pv p.batch + partsAcct pv ps

def topicAcct (pv : Int) (t : TopicBatches) : Int :=
  topicOverhead pv t.topic + (if pv ≥ 9 then uvarlen t.parts.length - 1 else 0) + partsAcct pv t.parts

def topicsAcct (pv : Int) : List TopicBatches → Int
  | [] => 0
  | t :: ts => topicAcct pv t + topicsAcct pv ts

theorem partsAcct_snoc (pv : Int) (l : List PartBatch) (x : PartBatch) :
    partsAcct pv (l ++ [x]) = partsAcct pv l + (4 + bwl pv x.batch) := by
  induction l with
  | nil => simp [partsAcct]
  | cons a l ih => simp [partsAcct, ih]; omega

theorem uvarlen_one : uvarlen 1 = 1 := by
  have : lenU 2 = 1 := Proof.C17.lenU_lt (by omega)
  simp [uvarlen, uvarintLen, uvar32, this]

/-! The definitions above (`topicOverhead`, `partsAcct`, `topicAcct`, `topicsAcct`) are the lengths *without* the
tag sections of the flexible versions; `tryAddBatch` (since the repair e8757ce) additionally accounts one byte
per partition and per topic for them, the growth of the compact topics-array length, and — while the version
is unknown — a topic id where the name is short. The `…N` definitions are that accounting in closed form. -/

theorem uvarlen_zero : uvarlen 0 = 1 := by
  have : lenU 1 = 1 := Proof.C17.lenU_lt (by omega)
  simp [uvarlen, uvarintLen, uvar32, this]

theorem uvarlen_eq (n : Nat) : uvarlen n = uvarintLen (1 + n) := by
  simp only [uvarlen, uvar32]
  have : (1 + (n : Int)).toNat = 1 + n := by omega
  rw [this]

theorem lenU_le_self (k : Nat) (hk : 1 ≤ k) : lenU k ≤ k := by
  induction k using Nat.strongRecOn with
  | _ k ih =>
    by_cases h : k < 128
    · rw [Proof.C17.lenU_lt h]; exact hk
    · rw [Proof.C17.lenU_ge h]
      have := ih (k / 128) (by omega) (by omega)
      omega

theorem uvarlen_le_succ (n : Nat) : uvarlen n ≤ (n : Int) + 1 := by
  rw [uvarlen_eq]
  have := lenU_le_self (1 + n) (by omega)
  simp only [uvarintLen]; omega

theorem uvarlen_pos (n : Nat) : 1 ≤ uvarlen n := by
  rw [uvarlen_eq]; have := uvarintLen_pos (1 + n); omega

/-- the partition tag byte `tryAddBatch` accounts: flexible or version unknown -/
def tagP (pv : Int) : Int := if pv ≥ 9 ∨ pv < 0 then 1 else 0

/-- what `tryAddBatch` accounts for a new topic -/
def topicOverheadN (pv : Int) (topic : Bytes) : Int :=
  if pv ≥ 13 then 16 + 1 + 1
  else if pv ≥ 9 then uvarlen topic.length + topic.length + 1 + 1
  else if pv < 0 ∧ (2 + (topic.length : Int) + 4 < 16 + 4 + 1) then 16 + 4 + 1
  else 2 + topic.length + 4

def partsAcctN (pv : Int) : List PartBatch → Int
  | [] => 0
  | p :: ps => 4 + bwl pv p.batch + tagP pv + partsAcctN pv ps

def topicAcctN (pv : Int) (t : TopicBatches) : Int :=
  topicOverheadN pv t.topic + (if pv ≥ 9 then uvarlen t.parts.length - 1 else 0) + partsAcctN pv t.parts

def topicsAcctN (pv : Int) : List TopicBatches → Int
  | [] => 0
  | t :: ts => topicAcctN pv t + topicsAcctN pv ts

/-- the whole accounting of a request's topics: per topic, per partition, and the compact topics-array length
beyond its first byte -/
def reqAcct (pv : Int) (ts : List TopicBatches) : Int :=
  topicsAcctN pv ts + (if pv ≥ 9 then uvarlen ts.length - 1 else 0)

theorem partsAcctN_snoc (pv : Int) (l : List PartBatch) (x : PartBatch) :
    partsAcctN pv (l ++ [x]) = partsAcctN pv l + (4 + bwl pv x.batch + tagP pv) := by
  induction l with
  | nil => simp [partsAcctN]
  | cons a l ih => simp [partsAcctN, ih]; omega

/-- what `tryAddBatch` adds, apart from the growth of the topics-array length -/
def addLen (pv : Int) (topic : Bytes) (existing : Option Nat) (b : Batch) : Int :=
  4 + bwl pv b + tagP pv + (match existing with
    | none => topicOverheadN pv topic
    | some n => if pv ≥ 9 then uvarlen (n + 1) - uvarlen n else 0)

theorem tryAddBatchLength_eq (pv : Int) (topic : Bytes) (existing : Option Nat) (nt : Nat) (b : Batch) :
    tryAddBatchLength pv topic existing nt b =
      addLen pv topic existing b + (if existing.isNone ∧ pv ≥ 9 then uvarlen (nt + 1) - uvarlen nt else 0) := by
  have hf := wlfpv_flexible b pv
  have ht := wlfpv_topicIDs b pv
  unfold tryAddBatchLength addLen bwl topicOverheadN tagP
  rcases hw : wireLengthForProduceVersion b pv with ⟨w, fl, ti⟩
  rw [hw] at hf ht
  simp only at hf ht ⊢
  subst hf ht
  cases existing with
  | none =>
    simp only [Option.isNone_none, true_and]
    by_cases h13 : pv ≥ 13
    · have h9 : pv ≥ 9 := by omega
      have h0 : ¬ pv < 0 := by omega
      simp [h13, h9, h0]; omega
    · by_cases h9 : pv ≥ 9
      · have h0 : ¬ pv < 0 := by omega
        simp [h13, h9, h0]; omega
      · by_cases h0 : pv < 0
        · by_cases hs : (2 + (topic.length : Int) + 4 < 16 + 4 + 1)
          · simp [h13, h9, h0, hs]; omega
          · simp [h13, h9, h0, hs]; omega
        · simp [h13, h9, h0]; omega
  | some n =>
    simp only [Option.isNone_some, Bool.false_eq_true, false_and, if_false]
    by_cases h9 : pv ≥ 9
    · have h0 : ¬ pv < 0 := by omega
      simp [h9, h0]; omega
    · by_cases h0 : pv < 0
      · simp [h9, h0]; omega
      · simp [h9, h0]; omega

/-- `addBatch` adds `addLen` to the per-topic closed form -/
theorem addBatch_acct (pv : Int) (ts : List TopicBatches) (topic topicID : Bytes) (pb : PartBatch) :
    topicsAcctN pv (addBatch ts topic topicID pb) =
      topicsAcctN pv ts + addLen pv topic (findParts ts topic) pb.batch := by
  unfold addLen
  induction ts with
  | nil =>
    simp [addBatch, findParts, topicsAcctN, topicAcctN, partsAcctN, uvarlen_one]
    omega
  | cons t rest ih =>
    unfold addBatch findParts
    by_cases ht : t.topic = topic
    · simp only [ht, if_true, topicsAcctN, topicAcctN, partsAcctN_snoc, List.length_append, List.length_cons, List.length_nil]
      by_cases h9 : pv ≥ 9
      · simp [h9]; omega
      · simp [h9]; omega
    · simp only [ht, if_false, topicsAcctN]
      rw [ih]; omega

theorem addBatch_length (ts : List TopicBatches) (topic topicID : Bytes) (pb : PartBatch) :
    (addBatch ts topic topicID pb).length = ts.length + (if (findParts ts topic).isNone then 1 else 0) := by
  induction ts with
  | nil => simp [addBatch, findParts]
  | cons t rest ih =>
    unfold addBatch findParts
    by_cases ht : t.topic = topic
    · simp [ht]
    · simp only [ht, if_false, List.length_cons, ih]; omega

/-- the accounting invariant of `createReq`: `p.wireLength` is the base length plus the closed form -/
def ReqInv (c : Cfg) (pv : Int) (p : ReqState) : Prop :=
  p.wireLength = baseProduceRequestLength c + reqAcct pv p.batches

theorem tryAddBatch_inv (c : Cfg) (limit pv : Int) (p p' : ReqState) (topic topicID : Bytes) (pb : PartBatch)
    (hp : ReqInv c pv p) (h : tryAddBatch limit pv p topic topicID pb = some p') :
    ReqInv c pv p' ∧ p'.wireLength ≤ limit := by
  unfold tryAddBatch at h
  simp only at h
  split at h
  · simp at h
  · rename_i hle
    simp only [Option.some.injEq] at h
    subst h
    refine ⟨?_, by simp only; omega⟩
    unfold ReqInv reqAcct at hp ⊢
    simp only
    rw [addBatch_acct, addBatch_length, hp, tryAddBatchLength_eq]
    cases hfp : findParts p.batches topic with
    | none =>
      simp only [Option.isNone_none, true_and, if_true]
      by_cases h9 : pv ≥ 9
      · simp only [h9, if_true]; omega
      · simp only [h9, if_false]; omega
    | some n =>
      simp only [Option.isNone_some, Bool.false_eq_true, false_and, if_false, Nat.add_zero]
      omega

theorem createReqPass_inv (c : Cfg) (limit pv : Int) (p : ReqState) (rbs : List RecBuf)
    (hp : ReqInv c pv p) (hl : p.batches ≠ [] → p.wireLength ≤ limit) :
    ReqInv c pv (createReqPass limit pv p rbs).1 ∧
      ((createReqPass limit pv p rbs).1.batches ≠ [] → (createReqPass limit pv p rbs).1.wireLength ≤ limit) := by
  induction rbs generalizing p with
  | nil => simpa [createReqPass] using ⟨hp, hl⟩
  | cons rb rest ih =>
    unfold createReqPass
    cases hpend : rb.pending with
    | nil => simpa using ih p hp hl
    | cons b more =>
      simp only
      cases hadd : tryAddBatch limit pv p rb.topic rb.topicID ⟨rb.partition, rb.seq, b⟩ with
      | none => simpa using ih p hp hl
      | some p1 =>
        have h1 := tryAddBatch_inv c limit pv p p1 _ _ _ hp hadd
        simpa using ih p1 h1.1 (fun _ => h1.2)

/-- **`createReq` accounting**: the request `createReq` builds has `wireLength = base + closed form`, and when
it holds any batch that number is at most `BrokerMaxWriteBytes` -/
theorem createReq_inv (c : Cfg) (pv : Int) (start : Nat) (rbs : List RecBuf) :
    ReqInv c pv (createReq c pv start rbs).1 ∧
      ((createReq c pv start rbs).1.batches ≠ [] → (createReq c pv start rbs).1.wireLength ≤ c.maxBrokerWriteBytes) := by
  unfold createReq
  simp only
  have := createReqPass_inv c c.maxBrokerWriteBytes pv
    { wireLength := baseProduceRequestLength c, batches := [] } (rotate rbs start)
    (by simp [ReqInv, reqAcct, topicsAcctN, uvarlen_zero]) (by simp)
  rcases h : createReqPass c.maxBrokerWriteBytes pv { wireLength := baseProduceRequestLength c, batches := [] } (rotate rbs start) with ⟨p, rot⟩
  rw [h] at this
  simpa using this

/-! ## encoded length of a request against the accounting (record batches, Produce v3+) -/

def PartsInv : List PartBatch → Prop
  | [] => True
  | p :: ps => (BatchInv p.batch ∧ p.batch.records ≠ []) ∧ PartsInv ps

/-- every batch satisfies the batch invariant and holds a record, topic ids are 16 bytes -/
def TopicsInv : List TopicBatches → Prop
  | [] => True
  | t :: ts => PartsInv t.parts ∧ t.topicID.length = 16 ∧ TopicsInv ts

def totalParts : List TopicBatches → Nat
  | [] => 0
  | t :: ts => t.parts.length + totalParts ts

theorem savingsOf_none (b : PartBatch) (v : Int) : savingsOf none b v = 0 := rfl

theorem wireSum_nonneg_batchLength (b : Batch) (h : BatchInv b) : 61 ≤ batchLength b := by
  have := h.wire; simp only [recordBatchOverhead] at this; simp only [batchLength]; omega

theorem uvarintLen_mono (a b : Nat) (h : a ≤ b) : uvarintLen a ≤ uvarintLen b := lenU_mono b a h

theorem partAppendTo_le (e : Env) (v pid ep : Int) (tx : Bool) (pb : PartBatch) (hv : 3 ≤ v)
    (h : BatchInv pb.batch) :
    ((partAppendTo e v pid ep tx pb).length : Int) ≤ 4 + bwl v pb.batch + (if v ≥ 9 then 1 else 0) := by
  have hb := batchAppendTo_length e.crc32c e.comp pb v pid ep tx h
  have hlt : ¬ v < 3 := by omega
  unfold partAppendTo
  simp only [hlt, if_false, List.length_append, beI_length, Int.natCast_add, hb]
  unfold bwl wireLengthForProduceVersion
  have hsv : (0 : Int) ≤ savingsOf e.comp pb v := Int.natCast_nonneg _
  by_cases h9 : v ≥ 9
  · have h0 : ¬ v < 0 := by omega
    have h1 : ¬ (v = 0 ∨ v = 1) := by omega
    have h2 : ¬ v = 2 := by omega
    have h8 : ¬ v ≤ 8 := by omega
    simp only [h9, h0, h1, h2, h8, if_true, if_false, flexibleWireLength, List.length_cons, List.length_nil]
    have hm := uvarintLen_mono (uvar32 (batchLength pb.batch - savingsOf e.comp pb v)) (uvar32 (batchLength pb.batch))
      (by simp only [uvar32]; omega)
    omega
  · have h0 : ¬ v < 0 := by omega
    have h1 : ¬ (v = 0 ∨ v = 1) := by omega
    have h2 : ¬ v = 2 := by omega
    have h8 : v ≤ 8 := by omega
    simp only [h9, h0, h1, h2, h8, if_true, if_false, List.length_nil]
    omega

theorem partsAppendTo_le (e : Env) (v pid ep : Int) (tx : Bool) (ps : List PartBatch) (hv : 3 ≤ v)
    (h : PartsInv ps) :
    ((partsAppendTo e v pid ep tx ps).length : Int) ≤ partsAcct v ps + (if v ≥ 9 then (ps.length : Int) else 0) := by
  induction ps with
  | nil => simp [partsAppendTo, partsAcct]
  | cons p ps ih =>
    have h1 := partAppendTo_le e v pid ep tx p hv h.1.1
    have h2 := ih h.2
    simp only [partsAppendTo, partsAcct, List.length_append, List.length_cons, Int.natCast_add]
    by_cases h9 : v ≥ 9
    · simp only [h9, if_true] at h1 h2 ⊢; omega
    · simp only [h9, if_false] at h1 h2 ⊢; omega

theorem topicAppendTo_le (e : Env) (v pid ep : Int) (tx : Bool) (t : TopicBatches) (hv : 3 ≤ v)
    (h : PartsInv t.parts) (hid : t.topicID.length = 16) :
    ((topicAppendTo e v pid ep tx t).length : Int) ≤ topicAcct v t + (if v ≥ 9 then (t.parts.length : Int) + 1 else 0) := by
  have hp := partsAppendTo_le e v pid ep tx t.parts hv h
  unfold topicAppendTo topicAcct topicOverhead
  by_cases h13 : v ≥ 13
  · have h9 : v ≥ 9 := by omega
    simp only [h13, h9, if_true, List.length_append, compactArrayLen, uvarint_length, hid, Int.natCast_add,
      List.length_cons, List.length_nil, uvarlen, uvar32] at hp ⊢
    have : (1 + (t.parts.length : Int)).toNat = 1 + t.parts.length := by omega
    rw [this]; omega
  · by_cases h9 : v ≥ 9
    · simp only [h13, h9, if_true, if_false, List.length_append, compactArrayLen, compactString_length, uvarint_length,
        Int.natCast_add, List.length_cons, List.length_nil, uvarlen, uvar32] at hp ⊢
      have e1 : (1 + (t.parts.length : Int)).toNat = 1 + t.parts.length := by omega
      have e2 : (1 + (t.topic.length : Int)).toNat = 1 + t.topic.length := by omega
      rw [e1, e2]; omega
    · simp only [h13, h9, if_false, List.length_append, arrayLen, string16_length, beI_length, Int.natCast_add,
        List.length_nil] at hp ⊢
      omega

theorem topicsAppendTo_le (e : Env) (v pid ep : Int) (tx : Bool) (ts : List TopicBatches) (hv : 3 ≤ v)
    (h : TopicsInv ts) :
    ((topicsAppendTo e v pid ep tx ts).length : Int) ≤
      topicsAcct v ts + (if v ≥ 9 then (totalParts ts : Int) + ts.length else 0) := by
  induction ts with
  | nil => simp [topicsAppendTo, topicsAcct, totalParts]
  | cons t ts ih =>
    have h1 := topicAppendTo_le e v pid ep tx t hv h.1 h.2.1
    have h2 := ih h.2.2
    simp only [topicsAppendTo, topicsAcct, totalParts, List.length_append, List.length_cons, Int.natCast_add]
    by_cases h9 : v ≥ 9
    · simp only [h9, if_true] at h1 h2 ⊢; omega
    · simp only [h9, if_false] at h1 h2 ⊢; omega

theorem partAppendTo_eq (e : Env) (v pid ep : Int) (tx : Bool) (pb : PartBatch) (hv : 3 ≤ v) (hc : e.comp = none)
    (h : BatchInv pb.batch) :
    ((partAppendTo e v pid ep tx pb).length : Int) = 4 + bwl v pb.batch + (if v ≥ 9 then 1 else 0) := by
  have hb := batchAppendTo_length e.crc32c e.comp pb v pid ep tx h
  have hlt : ¬ v < 3 := by omega
  unfold partAppendTo
  simp only [hlt, if_false, List.length_append, beI_length, Int.natCast_add, hb]
  unfold bwl wireLengthForProduceVersion
  have hsv : savingsOf e.comp pb v = 0 := by rw [hc]; rfl
  by_cases h9 : v ≥ 9
  · have h0 : ¬ v < 0 := by omega
    have h1 : ¬ (v = 0 ∨ v = 1) := by omega
    have h2 : ¬ v = 2 := by omega
    have h8 : ¬ v ≤ 8 := by omega
    simp only [h9, h0, h1, h2, h8, if_true, if_false, flexibleWireLength, List.length_cons, List.length_nil]
    simp only [hsv, Int.natCast_zero, Int.sub_zero]; omega
  · have h0 : ¬ v < 0 := by omega
    have h1 : ¬ (v = 0 ∨ v = 1) := by omega
    have h2 : ¬ v = 2 := by omega
    have h8 : v ≤ 8 := by omega
    simp only [h9, h0, h1, h2, h8, if_true, if_false, List.length_nil]
    simp only [hsv, Int.natCast_zero, Int.sub_zero]; omega

theorem partsAppendTo_eq (e : Env) (v pid ep : Int) (tx : Bool) (ps : List PartBatch) (hv : 3 ≤ v) (hc : e.comp = none)
    (h : PartsInv ps) :
    ((partsAppendTo e v pid ep tx ps).length : Int) = partsAcct v ps + (if v ≥ 9 then (ps.length : Int) else 0) := by
  induction ps with
  | nil => simp [partsAppendTo, partsAcct]
  | cons p ps ih =>
    have h1 := partAppendTo_eq e v pid ep tx p hv hc h.1.1
    have h2 := ih h.2
    simp only [partsAppendTo, partsAcct, List.length_append, List.length_cons, Int.natCast_add]
    by_cases h9 : v ≥ 9
    · simp only [h9, if_true] at h1 h2 ⊢; omega
    · simp only [h9, if_false] at h1 h2 ⊢; omega

theorem topicAppendTo_eq (e : Env) (v pid ep : Int) (tx : Bool) (t : TopicBatches) (hv : 3 ≤ v) (hc : e.comp = none)
    (h : PartsInv t.parts) (hid : t.topicID.length = 16) :
    ((topicAppendTo e v pid ep tx t).length : Int) = topicAcct v t + (if v ≥ 9 then (t.parts.length : Int) + 1 else 0) := by
  have hp := partsAppendTo_eq e v pid ep tx t.parts hv hc h
  unfold topicAppendTo topicAcct topicOverhead
  by_cases h13 : v ≥ 13
  · have h9 : v ≥ 9 := by omega
    simp only [h13, h9, if_true, List.length_append, compactArrayLen, uvarint_length, hid, Int.natCast_add,
      List.length_cons, List.length_nil, uvarlen, uvar32] at hp ⊢
    have : (1 + (t.parts.length : Int)).toNat = 1 + t.parts.length := by omega
    rw [this]; omega
  · by_cases h9 : v ≥ 9
    · simp only [h13, h9, if_true, if_false, List.length_append, compactArrayLen, compactString_length, uvarint_length,
        Int.natCast_add, List.length_cons, List.length_nil, uvarlen, uvar32] at hp ⊢
      have e1 : (1 + (t.parts.length : Int)).toNat = 1 + t.parts.length := by omega
      have e2 : (1 + (t.topic.length : Int)).toNat = 1 + t.topic.length := by omega
      rw [e1, e2]; omega
    · simp only [h13, h9, if_false, List.length_append, arrayLen, string16_length, beI_length, Int.natCast_add,
        List.length_nil] at hp ⊢
      omega

theorem topicsAppendTo_eq (e : Env) (v pid ep : Int) (tx : Bool) (ts : List TopicBatches) (hv : 3 ≤ v) (hc : e.comp = none)
    (h : TopicsInv ts) :
    ((topicsAppendTo e v pid ep tx ts).length : Int) =
      topicsAcct v ts + (if v ≥ 9 then (totalParts ts : Int) + ts.length else 0) := by
  induction ts with
  | nil => simp [topicsAppendTo, topicsAcct, totalParts]
  | cons t ts ih =>
    have h1 := topicAppendTo_eq e v pid ep tx t hv hc h.1 h.2.1
    have h2 := ih h.2.2
    simp only [topicsAppendTo, topicsAcct, totalParts, List.length_append, List.length_cons, Int.natCast_add]
    by_cases h9 : v ≥ 9
    · simp only [h9, if_true] at h1 h2 ⊢; omega
    · simp only [h9, if_false] at h1 h2 ⊢; omega

/-! ## the whole frame -/

theorem appendRequest_le_nonflex (e : Env) (c : Cfg) (v corr pid ep : Int) (ts : List TopicBatches)
    (hv : 3 ≤ v) (h8 : v ≤ 8) (h : TopicsInv ts) :
    ((appendRequest e c v corr pid ep ts).length : Int) ≤ baseProduceRequestLength c + topicsAcct v ts := by
  have ht := topicsAppendTo_le e v pid ep c.txnId.isSome ts hv h
  have h9 : ¬ v ≥ 9 := by omega
  have h3 : v ≥ 3 := hv
  unfold appendRequest requestAppendTo baseProduceRequestLength
  simp only [h9, h3, if_true, if_false, List.length_append, beI_length, nullableString_length, arrayLen,
    List.length_nil, Int.natCast_add] at ht ⊢
  omega

theorem appendRequest_eq_nonflex (e : Env) (c : Cfg) (v corr pid ep : Int) (ts : List TopicBatches)
    (hv : 3 ≤ v) (h8 : v ≤ 8) (hc : e.comp = none) (h : TopicsInv ts) :
    ((appendRequest e c v corr pid ep ts).length : Int) = baseProduceRequestLength c + topicsAcct v ts := by
  have ht := topicsAppendTo_eq e v pid ep c.txnId.isSome ts hv hc h
  have h9 : ¬ v ≥ 9 := by omega
  have h3 : v ≥ 3 := hv
  unfold appendRequest requestAppendTo baseProduceRequestLength
  simp only [h9, h3, if_true, if_false, List.length_append, beI_length, nullableString_length, arrayLen,
    List.length_nil, Int.natCast_add] at ht ⊢
  omega

theorem compactNullableString_length_le (s : Option Bytes) (h : blen s ≤ 16382) :
    (compactNullableString s).length ≤ 2 + blen s := by
  cases s with
  | none =>
    have : lenU 0 = 1 := Proof.C17.lenU_lt (by omega)
    simp [compactNullableString, uvarintLen, blen, this]
  | some b =>
    simp only [blen] at h
    have := Proof.C17.lenU_le 2 (1 + b.length) (by omega) (by omega)
    simp only [compactNullableString, compactString_length, uvarintLen, blen]; omega

/-- flexible versions: what is written exceeds the accounting by at most `topics + partitions - 2`
plus the growth of the compact topic-array length -/
theorem appendRequest_le_flex (e : Env) (c : Cfg) (v corr pid ep : Int) (ts : List TopicBatches)
    (hv : 9 ≤ v) (htxn : blen c.txnId ≤ 16382) (h : TopicsInv ts) :
    ((appendRequest e c v corr pid ep ts).length : Int) + 2 ≤
      baseProduceRequestLength c + topicsAcct v ts + totalParts ts + ts.length + uvarintLen (1 + ts.length) := by
  have ht := topicsAppendTo_le e v pid ep c.txnId.isSome ts (by omega) h
  have htx := compactNullableString_length_le c.txnId htxn
  have h9 : v ≥ 9 := hv
  have h3 : v ≥ 3 := by omega
  unfold appendRequest requestAppendTo baseProduceRequestLength
  simp only [h9, h3, if_true, List.length_append, beI_length, nullableString_length, compactArrayLen, uvarint_length,
    List.length_cons, List.length_nil, Int.natCast_add] at ht ⊢
  omega

/-- flexible versions, no compression, no transactional id: the exact excess -/
theorem appendRequest_eq_flex (e : Env) (c : Cfg) (v corr pid ep : Int) (ts : List TopicBatches)
    (hv : 9 ≤ v) (hc : e.comp = none) (htxn : c.txnId = none) (h : TopicsInv ts) :
    ((appendRequest e c v corr pid ep ts).length : Int) + 3 =
      baseProduceRequestLength c + topicsAcct v ts + totalParts ts + ts.length + uvarintLen (1 + ts.length) := by
  have ht := topicsAppendTo_eq e v pid ep c.txnId.isSome ts (by omega) hc h
  have h9 : v ≥ 9 := hv
  have h3 : v ≥ 3 := by omega
  have l0 : lenU 0 = 1 := Proof.C17.lenU_lt (by omega)
  unfold appendRequest requestAppendTo baseProduceRequestLength
  simp only [h9, h3, htxn, if_true, List.length_append, beI_length, nullableString_length, compactArrayLen, uvarint_length,
    compactNullableString, uvarintLen, l0, blen, List.length_cons, List.length_nil, Int.natCast_add] at ht ⊢
  omega

/-! ## from the partition buffers to the request: the invariants travel with the batches -/

def RbInv (rb : RecBuf) : Prop := (∀ b ∈ rb.pending, BatchInv b ∧ b.records ≠ []) ∧ rb.topicID.length = 16

theorem partsInv_snoc (l : List PartBatch) (x : PartBatch) (hl : PartsInv l) (hx : BatchInv x.batch ∧ x.batch.records ≠ []) : PartsInv (l ++ [x]) := by
  induction l with
  | nil => exact ⟨hx, trivial⟩
  | cons a l ih => exact ⟨hl.1, ih hl.2⟩

theorem addBatch_topicsInv (ts : List TopicBatches) (topic topicID : Bytes) (pb : PartBatch)
    (h : TopicsInv ts) (hb : BatchInv pb.batch ∧ pb.batch.records ≠ []) (hid : topicID.length = 16) : TopicsInv (addBatch ts topic topicID pb) := by
  induction ts with
  | nil => exact ⟨⟨hb, trivial⟩, hid, trivial⟩
  | cons t rest ih =>
    unfold addBatch
    by_cases ht : t.topic = topic
    · simp only [ht, if_true]; exact ⟨partsInv_snoc _ _ h.1 hb, h.2.1, h.2.2⟩
    · simp only [ht, if_false]; exact ⟨h.1, h.2.1, ih h.2.2⟩

theorem createReqPass_topicsInv (limit pv : Int) (p : ReqState) (rbs : List RecBuf)
    (hp : TopicsInv p.batches) (hr : ∀ rb ∈ rbs, RbInv rb) : TopicsInv (createReqPass limit pv p rbs).1.batches := by
  induction rbs generalizing p with
  | nil => simpa [createReqPass] using hp
  | cons rb rest ih =>
    have hrest : ∀ r ∈ rest, RbInv r := fun r hr' => hr r (List.mem_cons_of_mem _ hr')
    have hrb := hr rb (List.mem_cons_self ..)
    unfold createReqPass
    cases hpend : rb.pending with
    | nil => simpa using ih p hp hrest
    | cons b more =>
      simp only
      cases hadd : tryAddBatch limit pv p rb.topic rb.topicID ⟨rb.partition, rb.seq, b⟩ with
      | none => simpa using ih p hp hrest
      | some p1 =>
        have hb : BatchInv b ∧ b.records ≠ [] := hrb.1 b (by rw [hpend]; exact List.mem_cons_self ..)
        have h1 : TopicsInv p1.batches := by
          unfold tryAddBatch at hadd
          simp only at hadd
          split at hadd
          · simp at hadd
          · simp only [Option.some.injEq] at hadd
            subst hadd
            exact addBatch_topicsInv _ _ _ _ hp hb hrb.2
        simpa using ih p1 h1 hrest

theorem mem_rotate {α : Type} (xs : List α) (k : Nat) (x : α) (h : x ∈ rotate xs k) : x ∈ xs := by
  unfold rotate at h
  split at h
  · exact h
  · rcases List.mem_append.1 h with h | h
    · exact List.mem_of_mem_drop h
    · exact List.mem_of_mem_take h

theorem createReq_topicsInv (c : Cfg) (pv : Int) (start : Nat) (rbs : List RecBuf) (hr : ∀ rb ∈ rbs, RbInv rb) :
    TopicsInv (createReq c pv start rbs).1.batches := by
  unfold createReq
  simp only
  have := createReqPass_topicsInv c.maxBrokerWriteBytes pv
    { wireLength := baseProduceRequestLength c, batches := [] } (rotate rbs start) trivial
    (fun rb h => hr rb (mem_rotate _ _ _ h))
  rcases h : createReqPass c.maxBrokerWriteBytes pv { wireLength := baseProduceRequestLength c, batches := [] } (rotate rbs start) with ⟨p, rot⟩
  rw [h] at this
  simpa using this

/-! ## buffering: invariant and size bound of every batch -/

/-- record-batch accounting is in force: the version is unknown or at least 3 -/
def V2Acct (pv : Int) : Prop := pv < 0 ∨ 3 ≤ pv

theorem bwl_ge (pv : Int) (b : Batch) (hpv : V2Acct pv) : batchLength b + 1 ≤ bwl pv b := by
  have hu := uvarintLen_pos (uvar32 (batchLength b))
  unfold bwl wireLengthForProduceVersion
  by_cases h0 : pv < 0
  · simp only [h0, if_true]
    simp only [batchLength, flexibleWireLength] at hu ⊢
    split <;> split <;> omega
  · have h3 : 3 ≤ pv := by cases hpv <;> omega
    have h1 : ¬ (pv = 0 ∨ pv = 1) := by omega
    have h2 : ¬ pv = 2 := by omega
    simp only [h0, h1, h2, if_false]
    by_cases h8 : pv ≤ 8
    · simp only [h8, if_true, batchLength]; omega
    · simp only [h8, if_false, flexibleWireLength]; omega

theorem rwl_ge (pv : Int) (r : Rec) (n : Nat) : (n : Int) ≤ recordWireLengthFor pv r n := by
  unfold recordWireLengthFor; split <;> (try split) <;> omega

theorem rwl_ge_ms (pv : Int) (r : Rec) (n : Nat) (h : pv < 3) : messageSet1Length r ≤ recordWireLengthFor pv r n := by
  unfold recordWireLengthFor; simp only [h, if_true]; split <;> omega

/-- a batch accepted by `tryBuffer` under record-batch accounting is, without its length prefix, smaller than the limit -/
theorem tryBuffer_bound (b b' : Batch) (r : Rec) (pv m : Int) (hpv : V2Acct pv)
    (h : tryBuffer b r pv m = some b') : batchLength b' + 1 ≤ m ∧ b'.records ≠ [] := by
  have hg := bwl_ge pv b hpv
  unfold tryBuffer at h
  simp only at h
  split at h
  · simp at h
  · rename_i hle
    simp only [Option.some.injEq] at h
    subst h
    simp only [bwl] at hg
    have hr := rwl_ge pv r (numsWireLength (calculateRecordNumbers b r).1)
    refine ⟨?_, by simp [appendRecord]⟩
    simp only [appendRecord, batchLength] at hg ⊢
    omega

/-- what holds of every buffered batch -/
def Buffered (pv m : Int) (b : Batch) : Prop := BatchInv b ∧ b.records ≠ [] ∧ (V2Acct pv → batchLength b + 1 ≤ m)

theorem bufferRecord_buffered (bs : List Batch) (r : Rec) (pv m : Int) (h : ∀ b ∈ bs, Buffered pv m b) :
    ∀ b ∈ (bufferRecord bs r pv m).1, Buffered pv m b := by
  have hnew : ∀ nb, tryBuffer newRecordBatch r pv m = some nb → Buffered pv m nb := fun nb hnb =>
    ⟨tryBuffer_inv _ _ _ _ _ inv_new hnb,
     by unfold tryBuffer at hnb; simp only at hnb; split at hnb <;> simp at hnb; subst hnb; simp [appendRecord],
     fun hpv => (tryBuffer_bound _ _ _ _ _ hpv hnb).1⟩
  unfold bufferRecord
  simp only
  cases bs with
  | nil =>
    simp only
    cases hn : tryBuffer newRecordBatch r pv m with
    | none => simpa using h
    | some nb =>
      intro b hb
      simp only [List.mem_cons, List.not_mem_nil, or_false] at hb
      subst hb; exact hnew _ hn
  | cons last rest =>
    simp only
    cases hl : tryBuffer last r pv m with
    | some b' =>
      intro b hb
      rcases List.mem_cons.1 hb with hb | hb
      · subst hb
        have hlast := h last (List.mem_cons_self ..)
        exact ⟨tryBuffer_inv _ _ _ _ _ hlast.1 hl,
          by unfold tryBuffer at hl; simp only at hl; split at hl <;> simp at hl; subst hl; simp [appendRecord],
          fun hpv => (tryBuffer_bound _ _ _ _ _ hpv hl).1⟩
      · exact h b (List.mem_cons_of_mem _ hb)
    | none =>
      simp only
      cases hn : tryBuffer newRecordBatch r pv m with
      | none => simpa using h
      | some nb =>
        intro b hb
        rcases List.mem_cons.1 hb with hb | hb
        · subst hb; exact hnew _ hn
        · exact h b hb

theorem bufferAll_buffered (pv m : Int) (rs : List Rec) (bs : List Batch) (h : ∀ b ∈ bs, Buffered pv m b) :
    ∀ b ∈ (bufferAll pv m bs rs).1, Buffered pv m b := by
  induction rs generalizing bs with
  | nil => simpa [bufferAll] using h
  | cons r rs ih =>
    unfold bufferAll
    rcases hb : bufferRecord bs r pv m with ⟨bs', ok⟩
    have h' := bufferRecord_buffered bs r pv m h
    rw [hb] at h'
    simp only
    rcases hr : bufferAll pv m bs' rs with ⟨bs'', idx⟩
    have := ih bs' h'
    rw [hr] at this
    simpa using this

/-! ## message sets (Produce v0–v2): encoded length against the accounting -/

theorem appendMessageTo_length (crc : Bytes → Nat) (v : Int) (attrs : Nat) (off ts : Int) (k val : Option Bytes) :
    (appendMessageTo crc v attrs off ts k val).length = 26 + (if v ≥ 2 then 8 else 0) + blen k + blen val := by
  unfold appendMessageTo
  by_cases h : v ≥ 2
  · simp [h]; omega
  · simp [h]; omega

def msgSum (v : Int) : List PRec → Nat
  | [] => 0
  | pr :: rest => 26 + (if v ≥ 2 then 8 else 0) + blen pr.r.key + blen pr.r.value + msgSum v rest

theorem messagesFrom_length (crc : Bytes → Nat) (v ft : Int) (i : Nat) (l : List PRec) :
    (messagesFrom crc v ft i l).length = msgSum v l := by
  induction l generalizing i with
  | nil => simp [messagesFrom, msgSum]
  | cons a l ih => simp [messagesFrom, msgSum, appendMessageTo_length, ih]

theorem msgSum_v1Sum (v : Int) (l : List PRec) :
    (msgSum v l : Int) = v1Sum l - 4 * l.length - (if v ≥ 2 then 0 else 8 * (l.length : Int)) := by
  induction l with
  | nil => simp [msgSum, v1Sum]
  | cons a l ih =>
    simp only [msgSum, v1Sum, messageSet1Length, messageSet0Length, List.length_cons, Int.natCast_add]
    by_cases h : v ≥ 2
    · simp only [h, if_true] at ih ⊢; omega
    · simp only [h, if_false] at ih ⊢; omega

/-- a message set is at most the accounted length, with any compressor, when the batch holds a record -/
theorem appendToAsMessageSet_le (crc : Bytes → Nat) (comp : Option Compressor) (b : PartBatch) (v : Int)
    (h0 : 0 ≤ v) (h3 : v < 3) (h : BatchInv b.batch) (hne : b.batch.records ≠ []) :
    ((appendToAsMessageSet crc comp b v).length : Int) ≤ bwl v b.batch := by
  have hm := messagesFrom_length crc v b.batch.firstTimestamp 0 b.batch.records
  have hs := msgSum_v1Sum v b.batch.records
  have hv1 := h.v1
  have hn : 1 ≤ b.batch.records.length := by
    cases hr : b.batch.records with
    | nil => exact absurd hr hne
    | cons a l => simp
  -- whatever the compressor does, the payload is at most the uncompressed message set
  have hout : ∀ out : Bytes, (out = messagesFrom crc v b.batch.firstTimestamp 0 b.batch.records ∨
      (out.length : Int) + 4 < (messagesFrom crc v b.batch.firstTimestamp 0 b.batch.records).length) →
      ((beI 4 out.length ++ out).length : Int) ≤ bwl v b.batch := by
    intro out ho
    have hlen : (out.length : Int) ≤ msgSum v b.batch.records := by
      rcases ho with ho | ho
      · rw [ho, hm]; omega
      · rw [hm] at ho; omega
    simp only [List.length_append, beI_length, Int.natCast_add]
    have hcases : v = 0 ∨ v = 1 ∨ v = 2 := by omega
    rcases hcases with hv | hv | hv <;> subst hv <;>
      simp [bwl, wireLengthForProduceVersion, v0wireLength] <;> simp at hs <;> omega
  unfold appendToAsMessageSet
  simp only
  cases comp with
  | none => exact hout _ (Or.inl rfl)
  | some c =>
    simp only
    rcases hc : c (decide (v < 7)) (messagesFrom crc v b.batch.firstTimestamp 0 b.batch.records) with ⟨compressed, codec⟩
    simp only
    by_cases hcond : (compressed.isSome && decide ((30 : Int) + (blen compressed : Int) + (if v = 2 then 8 else 0) <
        ((messagesFrom crc v b.batch.firstTimestamp 0 b.batch.records).length : Int))) = true
    · rw [if_pos hcond]
      apply hout _ (Or.inr ?_)
      simp only [Bool.and_eq_true, decide_eq_true_eq] at hcond
      rw [appendMessageTo_length]
      have := hcond.2
      have hbn : blen (none : Option Bytes) = 0 := rfl
      simp only [Int.natCast_add, hbn]
      by_cases h2 : v = 2
      · have h2' : v ≥ 2 := by omega
        simp only [h2', if_true]
        simp only [h2, if_true] at this
        omega
      · have h2' : ¬ v ≥ 2 := by omega
        simp only [h2', if_false]
        simp only [h2, if_false] at this
        omega
    · rw [if_neg hcond]
      exact hout _ (Or.inl rfl)

theorem partAppendTo_le_ms (e : Env) (v pid ep : Int) (tx : Bool) (pb : PartBatch) (h0 : 0 ≤ v) (h3 : v < 3)
    (h : BatchInv pb.batch ∧ pb.batch.records ≠ []) :
    ((partAppendTo e v pid ep tx pb).length : Int) ≤ 4 + bwl v pb.batch := by
  have := appendToAsMessageSet_le e.crc32 e.comp pb v h0 h3 h.1 h.2
  have h9 : ¬ v ≥ 9 := by omega
  unfold partAppendTo
  simp only [h3, h9, if_true, if_false, List.length_append, beI_length, List.length_nil, Int.natCast_add]
  omega

theorem partsAppendTo_le_ms (e : Env) (v pid ep : Int) (tx : Bool) (ps : List PartBatch) (h0 : 0 ≤ v) (h3 : v < 3)
    (h : PartsInv ps) :
    ((partsAppendTo e v pid ep tx ps).length : Int) ≤ partsAcct v ps := by
  induction ps with
  | nil => simp [partsAppendTo, partsAcct]
  | cons p ps ih =>
    have h1 := partAppendTo_le_ms e v pid ep tx p h0 h3 h.1
    have h2 := ih h.2
    simp only [partsAppendTo, partsAcct, List.length_append, Int.natCast_add]
    omega

theorem topicsAppendTo_le_ms (e : Env) (v pid ep : Int) (tx : Bool) (ts : List TopicBatches) (h0 : 0 ≤ v) (h3 : v < 3)
    (h : TopicsInv ts) :
    ((topicsAppendTo e v pid ep tx ts).length : Int) ≤ topicsAcct v ts := by
  induction ts with
  | nil => simp [topicsAppendTo, topicsAcct]
  | cons t ts ih =>
    have hp := partsAppendTo_le_ms e v pid ep tx t.parts h0 h3 h.1
    have h2 := ih h.2.2
    have h13 : ¬ v ≥ 13 := by omega
    have h9 : ¬ v ≥ 9 := by omega
    simp only [topicsAppendTo, topicAppendTo, topicsAcct, topicAcct, topicOverhead, h13, h9, if_false, List.length_append,
      string16_length, arrayLen, beI_length, List.length_nil, Int.natCast_add]
    omega

/-- Produce v0–v2: what is written is at most the accounting -/
theorem appendRequest_le_ms (e : Env) (c : Cfg) (v corr pid ep : Int) (ts : List TopicBatches)
    (h0 : 0 ≤ v) (h3 : v < 3) (h : TopicsInv ts) :
    ((appendRequest e c v corr pid ep ts).length : Int) ≤ baseProduceRequestLength c + topicsAcct v ts := by
  have ht := topicsAppendTo_le_ms e v pid ep c.txnId.isSome ts h0 h3 h
  have h9 : ¬ v ≥ 9 := by omega
  have h3' : ¬ v ≥ 3 := by omega
  unfold appendRequest requestAppendTo baseProduceRequestLength
  simp only [h9, h3', if_false, List.length_append, beI_length, nullableString_length, arrayLen,
    List.length_nil, Int.natCast_add] at ht ⊢
  omega

/-! ## the repaired accounting against the untagged closed form (version known) -/

theorem partsAcctN_eq (pv : Int) (h0 : 0 ≤ pv) (ps : List PartBatch) :
    partsAcctN pv ps = partsAcct pv ps + (if pv ≥ 9 then (ps.length : Int) else 0) := by
  induction ps with
  | nil => simp [partsAcctN, partsAcct]
  | cons p ps ih =>
    simp only [partsAcctN, partsAcct, ih, tagP, List.length_cons, Int.natCast_add]
    have hn : ¬ pv < 0 := by omega
    by_cases h9 : pv ≥ 9
    · simp only [h9, true_or, if_true]; omega
    · simp only [h9, hn, or_self, if_false]; omega

theorem topicsAcctN_eq (pv : Int) (h0 : 0 ≤ pv) (ts : List TopicBatches) :
    topicsAcctN pv ts = topicsAcct pv ts + (if pv ≥ 9 then (totalParts ts : Int) + ts.length else 0) := by
  induction ts with
  | nil => simp [topicsAcctN, topicsAcct, totalParts]
  | cons t ts ih =>
    have hp := partsAcctN_eq pv h0 t.parts
    have hn : ¬ pv < 0 := by omega
    simp only [topicsAcctN, topicsAcct, topicAcctN, topicAcct, topicOverheadN, topicOverhead, totalParts, ih, hp,
      List.length_cons, Int.natCast_add]
    by_cases h13 : pv ≥ 13
    · have h9 : pv ≥ 9 := by omega
      simp only [h13, h9, if_true]; omega
    · by_cases h9 : pv ≥ 9
      · simp only [h13, h9, if_true, if_false]; omega
      · simp only [h13, h9, hn, false_and, if_false]; omega

/-! ## version unknown while accounting (`produceVersion < 0`), request written at any version -/

theorem bwl_unknown (b : Batch) : b.wireLength ≤ bwl (-1) b ∧ b.v1wireLength ≤ bwl (-1) b ∧ flexibleWireLength b ≤ bwl (-1) b := by
  unfold bwl wireLengthForProduceVersion
  simp only [show ((-1 : Int) < 0) from by omega, if_true]
  refine ⟨?_, ?_, ?_⟩ <;> split <;> split <;> omega

theorem bwl_le_unknown (v : Int) (h0 : 0 ≤ v) (b : Batch) : bwl v b ≤ bwl (-1) b := by
  have hu := bwl_unknown b
  have hfl : flexibleWireLength b ≤ bwl (-1) b := hu.2.2
  generalize bwl (-1) b = U at hu hfl ⊢
  unfold bwl wireLengthForProduceVersion
  have hn : ¬ v < 0 := by omega
  simp only [hn, if_false]
  by_cases h1 : v = 0 ∨ v = 1
  · simp only [h1, if_true, v0wireLength]; omega
  · by_cases h2 : v = 2
    · simp only [h2, show ¬ ((2 : Int) = 0 ∨ (2 : Int) = 1) from by omega, if_true, if_false]; omega
    · by_cases h8 : v ≤ 8
      · simp only [h1, h2, h8, if_true, if_false]; omega
      · simp only [h1, h2, h8, if_false]; omega

/-- what the unknown-version estimate of a topic (`max(2+lt+4, 16+4+1)`) leaves over once the topic is written
at the flexible version `v`: 4 bytes of partition-array length against the compact length of a topic-id topic
(v13), 6 bytes of name and partition-array lengths against the two compact lengths of a named topic (v9–v12),
minus the topic's tag byte -/
def flexSlack (v : Int) (t : TopicBatches) : Int :=
  if v ≥ 13 then 4 - uvarlen t.parts.length else 5 - uvarlen t.topic.length - uvarlen t.parts.length

def slackSum (v : Int) : List TopicBatches → Int
  | [] => 0
  | t :: ts => flexSlack v t + slackSum v ts

/-- every topic fits its unknown-version estimate -/
def FlexFit (v : Int) (ts : List TopicBatches) : Prop := ∀ t ∈ ts, 0 ≤ flexSlack v t
/-- every topic fits with a byte to spare -/
def FlexSpare (v : Int) (ts : List TopicBatches) : Prop := ∀ t ∈ ts, 1 ≤ flexSlack v t

theorem slackSum_nonneg (v : Int) (ts : List TopicBatches) (h : FlexFit v ts) : 0 ≤ slackSum v ts := by
  induction ts with
  | nil => simp [slackSum]
  | cons t ts ih =>
    have h1 := h t (List.mem_cons_self ..)
    have h2 := ih (fun x hx => h x (List.mem_cons_of_mem _ hx))
    simp only [slackSum]; omega

theorem slackSum_ge_length (v : Int) (ts : List TopicBatches) (h : FlexSpare v ts) : (ts.length : Int) ≤ slackSum v ts := by
  induction ts with
  | nil => simp [slackSum]
  | cons t ts ih =>
    have h1 := h t (List.mem_cons_self ..)
    have h2 := ih (fun x hx => h x (List.mem_cons_of_mem _ hx))
    simp only [slackSum, List.length_cons, Int.natCast_add]; omega

theorem partAppendTo_le_unknown (e : Env) (v pid ep : Int) (tx : Bool) (pb : PartBatch) (h0 : 0 ≤ v)
    (h : BatchInv pb.batch ∧ pb.batch.records ≠ []) :
    ((partAppendTo e v pid ep tx pb).length : Int) ≤ 4 + bwl (-1) pb.batch + 1 := by
  have hle := bwl_le_unknown v h0 pb.batch
  by_cases h3 : v < 3
  · have := partAppendTo_le_ms e v pid ep tx pb h0 h3 h; omega
  · have := partAppendTo_le e v pid ep tx pb (by omega) h.1
    split at this <;> omega

theorem partsAppendTo_le_unknown (e : Env) (v pid ep : Int) (tx : Bool) (ps : List PartBatch) (h0 : 0 ≤ v)
    (h : PartsInv ps) :
    ((partsAppendTo e v pid ep tx ps).length : Int) ≤ partsAcctN (-1) ps := by
  induction ps with
  | nil => simp [partsAppendTo, partsAcctN]
  | cons p ps ih =>
    have h1 := partAppendTo_le_unknown e v pid ep tx p h0 h.1
    have h2 := ih h.2
    simp only [partsAppendTo, partsAcctN, tagP, List.length_append, Int.natCast_add]
    simp only [show ((-1 : Int) ≥ 9 ∨ (-1 : Int) < 0) from Or.inr (by omega), if_true]
    omega

theorem topicAppendTo_le_unknown (e : Env) (v pid ep : Int) (tx : Bool) (t : TopicBatches) (h0 : 0 ≤ v)
    (h : PartsInv t.parts) (hid : t.topicID.length = 16) :
    ((topicAppendTo e v pid ep tx t).length : Int) + (if v ≥ 9 then flexSlack v t else 0) ≤ topicAcctN (-1) t := by
  have hp := partsAppendTo_le_unknown e v pid ep tx t.parts h0 h
  have hnp := uvarlen_eq t.parts.length
  have hlt := uvarlen_eq t.topic.length
  unfold topicAppendTo topicAcctN topicOverheadN flexSlack
  have hm1 : ¬ ((-1 : Int) ≥ 13) := by omega
  have hm9 : ¬ ((-1 : Int) ≥ 9) := by omega
  have hm0 : ((-1 : Int) < 0) := by omega
  simp only [hm1, hm9, hm0, true_and, if_false]
  by_cases h13 : v ≥ 13
  · have h9 : v ≥ 9 := by omega
    simp only [h13, h9, if_true, List.length_append, compactArrayLen, uvarint_length, hid, Int.natCast_add,
      List.length_cons, List.length_nil]
    split <;> omega
  · by_cases h9 : v ≥ 9
    · simp only [h13, h9, if_true, if_false, List.length_append, compactArrayLen, compactString_length, uvarint_length,
        Int.natCast_add, List.length_cons, List.length_nil]
      split <;> omega
    · simp only [h13, h9, if_false, List.length_append, arrayLen, string16_length, beI_length, Int.natCast_add,
        List.length_nil]
      split <;> omega

theorem topicsAppendTo_le_unknown (e : Env) (v pid ep : Int) (tx : Bool) (ts : List TopicBatches) (h0 : 0 ≤ v)
    (h : TopicsInv ts) :
    ((topicsAppendTo e v pid ep tx ts).length : Int) + (if v ≥ 9 then slackSum v ts else 0) ≤ topicsAcctN (-1) ts := by
  induction ts with
  | nil => simp [topicsAppendTo, topicsAcctN, slackSum]
  | cons t ts ih =>
    have h1 := topicAppendTo_le_unknown e v pid ep tx t h0 h.1 h.2.1
    have h2 := ih h.2.2
    simp only [topicsAppendTo, topicsAcctN, slackSum, List.length_append, Int.natCast_add]
    by_cases h9 : v ≥ 9
    · simp only [h9, if_true] at h1 h2 ⊢; omega
    · simp only [h9, if_false] at h1 h2 ⊢; omega

/-- version unknown while accounting (since d9ff59f the topic estimate is `max(2+lt+4, 16+4+1)`): what is
written at any version 0–13 is at most the accounting. For a flexible written version the hypotheses are: the
transactional id is at most 16382 bytes (config validation), every topic fits its estimate (`FlexFit`: at v13
fewer than 2^28-1 partitions of the topic in the request; at v9–v12 the compact lengths of the topic name and
of its partition count take at most 5 bytes together), and either the request holds fewer than 16383 topics or
every topic fits with a byte to spare (`FlexSpare`) -/
theorem appendRequest_le_unknown (e : Env) (c : Cfg) (v corr pid ep : Int) (ts : List TopicBatches)
    (h0 : 0 ≤ v) (h : TopicsInv ts)
    (hs : v ≥ 9 → blen c.txnId ≤ 16382 ∧ FlexFit v ts ∧ (ts.length < 16383 ∨ FlexSpare v ts)) :
    ((appendRequest e c v corr pid ep ts).length : Int) ≤ baseProduceRequestLength c + reqAcct (-1) ts := by
  have ht := topicsAppendTo_le_unknown e v pid ep c.txnId.isSome ts h0 h
  unfold reqAcct
  simp only [show ¬ ((-1 : Int) ≥ 9) from by omega, if_false, Int.add_zero]
  unfold appendRequest requestAppendTo baseProduceRequestLength
  by_cases h9 : v ≥ 9
  · have h3 : v ≥ 3 := by omega
    obtain ⟨htxn, hfit, hT⟩ := hs h9
    have htx := compactNullableString_length_le c.txnId htxn
    have hnn := slackSum_nonneg v ts hfit
    have hTl : (uvarintLen (1 + ts.length) : Int) ≤ 2 + slackSum v ts := by
      rcases hT with hT | hT
      · have := Proof.C17.lenU_le 2 (1 + ts.length) (by omega) (by omega)
        simp only [uvarintLen]; omega
      · have := slackSum_ge_length v ts hT
        have hu := uvarlen_le_succ ts.length
        rw [uvarlen_eq] at hu; omega
    simp only [h9, h3, if_true, List.length_append, beI_length, nullableString_length, compactArrayLen, uvarint_length,
      List.length_cons, List.length_nil, Int.natCast_add] at ht ⊢
    omega
  · by_cases h3 : v ≥ 3
    · simp only [h9, h3, if_true, if_false, List.length_append, beI_length, nullableString_length, arrayLen,
        List.length_nil, Int.natCast_add] at ht ⊢
      omega
    · simp only [h9, h3, if_false, List.length_append, beI_length, nullableString_length, arrayLen,
        List.length_nil, Int.natCast_add] at ht ⊢
      omega

/-! ## message sets: what `tryBuffer` guarantees since it sizes records as messages (c322dee) -/

/-- the message-set length of a non-empty batch buffered at a message-set version (or an unknown one) is within
the limit it was buffered against (`v0wireLength` for v0/v1) -/
def MsBound (pv m : Int) (b : Batch) : Prop :=
  b.records ≠ [] → pv < 3 → b.v1wireLength - (if 0 ≤ pv ∧ pv ≤ 1 then 8 else 0) ≤ m

theorem v1_le_bwl (pv : Int) (h3 : pv < 3) (b : Batch) :
    b.v1wireLength - (if 0 ≤ pv ∧ pv ≤ 1 then 8 else 0) ≤ bwl pv b := by
  unfold bwl wireLengthForProduceVersion
  by_cases hn : pv < 0
  · have hc : ¬ (0 ≤ pv ∧ pv ≤ 1) := by omega
    simp only [hn, hc, if_true, if_false]
    split <;> split <;> omega
  · have hcases : pv = 0 ∨ pv = 1 ∨ pv = 2 := by omega
    rcases hcases with h | h | h <;> subst h <;> simp [v0wireLength]

theorem tryBuffer_msBound (b b' : Batch) (r : Rec) (pv m : Int) (h : tryBuffer b r pv m = some b') : MsBound pv m b' := by
  intro _ h3
  have hr := rwl_ge_ms pv r (numsWireLength (calculateRecordNumbers b r).1) h3
  have hb := v1_le_bwl pv h3 b
  unfold tryBuffer at h
  simp only at h
  split at h
  · simp at h
  · rename_i hle
    simp only [Option.some.injEq] at h
    subst h
    simp only [appendRecord, bwl] at hb ⊢
    omega

/-! ## timestamps of a buffered batch -/

/-- `firstTimestamp + delta` is each record's own timestamp; `maxTimestampDelta` is the largest delta (≥ 0, attained) -/
structure TsInv (b : Batch) : Prop where
  delta : ∀ pr ∈ b.records, b.firstTimestamp + pr.tsDelta = pr.r.ts
  le : ∀ pr ∈ b.records, pr.tsDelta ≤ b.maxTimestampDelta
  empty : b.records = [] → b.maxTimestampDelta = 0
  attained : b.records ≠ [] → ∃ pr ∈ b.records, pr.tsDelta = b.maxTimestampDelta

theorem tsInv_new : TsInv newRecordBatch := by
  constructor <;> simp [newRecordBatch]

theorem tryBuffer_tsInv (b b' : Batch) (r : Rec) (pv m : Int) (hb : TsInv b)
    (h : tryBuffer b r pv m = some b') : TsInv b' := by
  unfold tryBuffer at h
  simp only at h
  split at h
  · simp at h
  · simp only [Option.some.injEq] at h
    subst h
    by_cases he : b.records = []
    · have hm := hb.empty he
      constructor <;> simp [appendRecord, calculateRecordNumbers, he, hm]
    · have hl : ¬ b.records.length = 0 := by
        intro h0; exact he (List.length_eq_zero_iff.mp h0)
      constructor
      · intro pr hpr
        simp only [appendRecord, hl, if_false, List.mem_append, List.mem_singleton] at hpr ⊢
        rcases hpr with hpr | hpr
        · exact hb.delta pr hpr
        · subst hpr; simp [calculateRecordNumbers, hl]; omega
      · intro pr hpr
        simp only [appendRecord, hl, if_false, List.mem_append, List.mem_singleton] at hpr ⊢
        rcases hpr with hpr | hpr
        · have := hb.le pr hpr; split <;> omega
        · subst hpr; simp only [calculateRecordNumbers, hl, if_false]; split <;> omega
      · intro h0; simp [appendRecord] at h0
      · intro _
        simp only [appendRecord, hl, if_false, List.mem_append, List.mem_singleton]
        by_cases hgt : (calculateRecordNumbers b r).2 > b.maxTimestampDelta
        · simp only [hgt, if_true]
          exact ⟨_, Or.inr rfl, rfl⟩
        · simp only [hgt, if_false]
          obtain ⟨pr, hpr, hq⟩ := hb.attained he
          exact ⟨pr, Or.inl hpr, hq⟩

/-- any property of batches that holds of the empty batch and is kept by `tryBuffer` holds of every buffered batch -/
theorem bufferRecord_pred (Q : Batch → Prop) (bs : List Batch) (r : Rec) (pv m : Int) (hQ0 : Q newRecordBatch)
    (hstep : ∀ b b', Q b → tryBuffer b r pv m = some b' → Q b') (h : ∀ b ∈ bs, Q b) :
    ∀ b ∈ (bufferRecord bs r pv m).1, Q b := by
  unfold bufferRecord
  simp only
  cases bs with
  | nil =>
    simp only
    cases hn : tryBuffer newRecordBatch r pv m with
    | none => simpa using h
    | some nb =>
      intro b hb
      simp only [List.mem_cons, List.not_mem_nil, or_false] at hb
      subst hb; exact hstep _ _ hQ0 hn
  | cons last rest =>
    simp only
    cases hl : tryBuffer last r pv m with
    | some b' =>
      intro b hb
      rcases List.mem_cons.1 hb with hb | hb
      · subst hb; exact hstep _ _ (h last (List.mem_cons_self ..)) hl
      · exact h b (List.mem_cons_of_mem _ hb)
    | none =>
      simp only
      cases hn : tryBuffer newRecordBatch r pv m with
      | none => simpa using h
      | some nb =>
        intro b hb
        rcases List.mem_cons.1 hb with hb | hb
        · subst hb; exact hstep _ _ hQ0 hn
        · exact h b hb

theorem bufferAll_pred (Q : Batch → Prop) (pv m : Int) (hQ0 : Q newRecordBatch)
    (hstep : ∀ r b b', Q b → tryBuffer b r pv m = some b' → Q b') (rs : List Rec) (bs : List Batch) (h : ∀ b ∈ bs, Q b) :
    ∀ b ∈ (bufferAll pv m bs rs).1, Q b := by
  induction rs generalizing bs with
  | nil => simpa [bufferAll] using h
  | cons r rs ih =>
    unfold bufferAll
    rcases hb : bufferRecord bs r pv m with ⟨bs', ok⟩
    have h' := bufferRecord_pred Q bs r pv m hQ0 (hstep r) h
    rw [hb] at h'
    simp only
    rcases hr : bufferAll pv m bs' rs with ⟨bs'', idx⟩
    have := ih bs' h'
    rw [hr] at this
    simpa using this

theorem bufferAll_tsInv (pv m : Int) (rs : List Rec) : ∀ b ∈ (bufferAll pv m [] rs).1, TsInv b :=
  bufferAll_pred TsInv pv m tsInv_new (fun r b b' hb h => tryBuffer_tsInv b b' r pv m hb h) rs [] (by simp)

theorem bufferAll_msBound (pv m : Int) (rs : List Rec) : ∀ b ∈ (bufferAll pv m [] rs).1, MsBound pv m b :=
  bufferAll_pred (MsBound pv m) pv m (fun h => absurd rfl h) (fun r b b' _ h => tryBuffer_msBound b b' r pv m h) rs [] (by simp)

/-! ## header bytes are part of what is accounted for every record

`Rec.headers` is an arbitrary list: none of the lemmas above restricts it. The lemmas below make the dependence
explicit: the accounted length of a record is at least its key, value and header bytes plus 7, so the batch
bound is a bound on the users' bytes *including headers* — the fact a `tryBuffer` that sized a record as a message
(`messageSet1Length`, which has no headers) would lose. -/

/-- key and value bytes of the headers -/
def headersBytes : List Header → Nat
  | [] => 0
  | h :: hs => h.key.length + blen h.value + headersBytes hs

/-- the user's bytes of a record: key, value, and the key and value of every header -/
def userBytes (r : Rec) : Nat := blen r.key + blen r.value + headersBytes r.headers

def userSum : List PRec → Nat
  | [] => 0
  | pr :: rest => userBytes pr.r + userSum rest

theorem headersBytes_le : ∀ hs : List Header, headersBytes hs + 2 * hs.length ≤ headersLen hs
  | [] => by simp [headersBytes, headersLen]
  | h :: hs => by
    have := headersBytes_le hs
    have := varintLen_pos (h.key.length : Int)
    have := varintLen_pos (blen h.value : Int)
    simp only [headersBytes, headersLen, headerLen, List.length_cons]
    omega

/-- the length field of a record: attributes byte, five varints of at least one byte, and every user byte -/
theorem userBytes_le_recBody (r : Rec) (d : Int) (i : Nat) : userBytes r + 6 ≤ recBody r d i := by
  have := headersBytes_le r.headers
  have := varintLen_pos d
  have := varintLen_pos (i : Int)
  have := varintLen_pos (blen r.key : Int)
  have := varintLen_pos (blen r.value : Int)
  have := varintLen_pos (r.headers.length : Int)
  unfold userBytes recBody
  omega

theorem userSum_le_wireSum (i : Nat) (l : List PRec) (h : AllOK i l) : userSum l + 7 * l.length ≤ wireSum l := by
  induction l generalizing i with
  | nil => simp [userSum, wireSum]
  | cons a l ih =>
    have h1 := ih (i + 1) h.2
    have h2 := userBytes_le_recBody a.r a.tsDelta i
    have h3 : a.length = recBody a.r a.tsDelta i := h.1
    have h4 := varintLen_pos (a.length : Int)
    simp only [userSum, wireSum, numsWireLength, List.length_cons]
    omega

theorem zz_natCast (n : Nat) : zz (n : Int) = 2 * n := by
  simp only [zz]
  split <;> omega

theorem numsWireLength_mono (a b : Nat) (h : a ≤ b) : numsWireLength a ≤ numsWireLength b := by
  have := lenU_mono (zz (b : Int)) (zz (a : Int)) (by rw [zz_natCast, zz_natCast]; omega)
  simp only [numsWireLength, varintLen]
  omega

/-- a record's length field is smallest at the head of a batch (both deltas 0, one byte each) -/
theorem lengthField_ge_new (b : Batch) (r : Rec) :
    (calculateRecordNumbers newRecordBatch r).1 ≤ (calculateRecordNumbers b r).1 := by
  have h0 : varintLen ((0 : Nat) : Int) = 1 := varintLen_zero
  have := varintLen_pos (if b.records.length = 0 then 0 else r.ts - b.firstTimestamp)
  have := varintLen_pos (b.records.length : Int)
  simp only [calculateRecordNumbers, newRecordBatch, List.length_nil, if_true, varintLen_zero, h0]
  omega

/-- the first record of a batch needs at least its user bytes plus 7 -/
theorem numsWireLength_new_ge (r : Rec) :
    userBytes r + 7 ≤ numsWireLength (calculateRecordNumbers newRecordBatch r).1 := by
  have h := userBytes_le_recBody r 0 0
  have hp := varintLen_pos ((calculateRecordNumbers newRecordBatch r).1 : Int)
  have h0 : varintLen ((0 : Nat) : Int) = 1 := varintLen_zero
  simp only [recBody, h0, varintLen_zero] at h
  simp only [numsWireLength, calculateRecordNumbers, newRecordBatch, List.length_nil, if_true, varintLen_zero, h0] at hp ⊢
  omega

/-- a record accepted under record-batch accounting fits, with its headers, an empty batch -/
theorem tryBuffer_fits_new (b b' : Batch) (r : Rec) (pv m : Int) (hpv : V2Acct pv) (hb : BatchInv b)
    (h : tryBuffer b r pv m = some b') :
    recordBatchOverhead - 4 + numsWireLength (calculateRecordNumbers newRecordBatch r).1 + 1 ≤ m := by
  have hbound := (tryBuffer_bound b b' r pv m hpv h).1
  have hmono := numsWireLength_mono _ _ (lengthField_ge_new b r)
  unfold tryBuffer at h
  simp only at h
  split at h
  · simp at h
  · simp only [Option.some.injEq] at h
    subst h
    have hw := hb.wire
    simp only [appendRecord, batchLength] at hbound
    omega

/-! ## a few concrete LEB128 lengths -/
theorem l0 : lenU 0 = 1 := Proof.C17.lenU_lt (by omega)
theorem l62 : lenU 62 = 1 := Proof.C17.lenU_lt (by omega)
theorem l2 : lenU 2 = 1 := Proof.C17.lenU_lt (by omega)
theorem l3 : lenU 3 = 1 := Proof.C17.lenU_lt (by omega)
theorem l826 : lenU 826 = 2 := by rw [Proof.C17.lenU_ge (by omega), Proof.C17.lenU_lt (by omega)]
theorem l840 : lenU 840 = 2 := by rw [Proof.C17.lenU_ge (by omega), Proof.C17.lenU_lt (by omega)]
theorem l484 : lenU 484 = 2 := by rw [Proof.C17.lenU_ge (by omega), Proof.C17.lenU_lt (by omega)]

end Proof.C18
