import FranzVerif.Model.C12
import FranzVerif.Spec.C12
/-! C12 — helper lemmas (core Lean only). Part A: the `tryAck` transition system; Part B: the coalescing
fold of `buildAckRanges`; Part C: `filterStaleEntries`. -/
namespace Proof.C12
open Model.C12 Spec.C12

/-! ### Part A — tryAck -/

/-- Invariant of the per-record ack state under any interleaving. -/
structure Inv (s : TSt) : Prop where
  dom : s.status = 0 ∨ s.status = 1 ∨ s.status = 2 ∨ s.status = 3 ∨ s.status = 4
  valid : ∀ t ∈ s.threads, validStatus t.status = true
  loaded : ∀ t ∈ s.threads, ∀ cur, t.pc = .loaded cur → (cur = 0 ∨ cur = 4) ∧ t.strict = false ∧ t.status ≠ 4
  count : termWinners s = if isTerminal s.status then 1 else 0
  winner : ∀ t ∈ s.threads, isTermWinner t = true → s.status = t.status

theorem isTerminal_iff (x : Int) : isTerminal x = true ↔ x = 1 ∨ x = 2 ∨ x = 3 := by
  simp [isTerminal, or_assoc]

theorem validStatus_iff (x : Int) : validStatus x = true ↔ x = 1 ∨ x = 2 ∨ x = 3 ∨ x = 4 := by
  simp [validStatus, or_assoc]

theorem inv_init : Inv ({} : TSt) := by
  refine ⟨by simp, by simp, by simp, by simp [termWinners, isTerminal], by simp⟩

theorem no_winner_of_count_zero {s : TSt} (h : termWinners s = 0) : ∀ t ∈ s.threads, isTermWinner t = false := by
  intro t ht
  have := (List.countP_eq_zero (p := isTermWinner) (l := s.threads)).1 h t ht
  simpa using this

/-- Replacing thread `i` (which has not returned) by `t'`. -/
theorem count_set {l : List Thread} {i : Nat} {t t' : Thread} (hi : l[i]? = some t) (hnot : isTermWinner t = false) :
    (l.set i t').countP isTermWinner = l.countP isTermWinner + if isTermWinner t' then 1 else 0 := by
  obtain ⟨hlt, hget⟩ := List.getElem?_eq_some_iff.1 hi
  rw [List.countP_set hlt, hget, hnot]
  simp

theorem not_winner_of_pc {t : Thread} (h : t.pc ≠ .done true) : isTermWinner t = false := by
  simp [isTermWinner, h]

theorem inv_step {s s' : TSt} (a : Act) (hinv : Inv s) (h : tstep s a = some s') : Inv s' := by
  obtain ⟨hdom, hvalid, hloaded, hcount, hwin⟩ := hinv
  cases a with
  | spawn st strict =>
    simp only [tstep] at h
    split at h
    · rename_i hv
      cases h
      refine ⟨hdom, ?_, ?_, ?_, ?_⟩
      · intro t ht
        rcases List.mem_append.1 ht with h1 | h1
        · exact hvalid t h1
        · simp at h1; subst h1; exact hv
      · intro t ht cur hpc
        rcases List.mem_append.1 ht with h1 | h1
        · exact hloaded t h1 cur hpc
        · simp at h1; subst h1; simp at hpc
      · simp only [termWinners, List.countP_append] at hcount ⊢
        simp [isTermWinner, hcount]
      · intro t ht hw
        rcases List.mem_append.1 ht with h1 | h1
        · exact hwin t h1 hw
        · simp at h1; subst h1; simp [isTermWinner] at hw
    · cases h
  | reset =>
    simp only [tstep] at h
    cases h
    by_cases h4 : s.status = 4
    · refine ⟨by simp [h4], hvalid, hloaded, ?_, ?_⟩
      · simp only [termWinners] at hcount ⊢
        simp [h4, isTerminal] at hcount ⊢
        exact hcount
      · intro t ht hw
        have := hwin t ht hw
        have hterm : isTerminal t.status = true := by
          simp [isTermWinner] at hw; exact hw.2
        rw [← this, h4] at hterm
        simp [isTerminal] at hterm
    · exact ⟨by show (if s.status = 4 then 0 else s.status) = 0 ∨ _; rw [if_neg h4]; exact hdom, hvalid, hloaded, by simpa [termWinners, h4] using hcount, by simpa [h4] using hwin⟩
  | step i =>
    simp only [tstep] at h
    cases hti : s.threads[i]? with
    | none => simp [hti] at h
    | some t =>
      have htmem : t ∈ s.threads := List.mem_of_getElem? hti
      have hv := hvalid t htmem
      simp only [hti] at h
      cases hts : threadStep s.status t with
      | none => simp [hts] at h
      | some res =>
        obtain ⟨sh, pc⟩ := res
        simp only [hts, Option.some.injEq] at h
        subst h
        -- common facts about the updated thread list
        have hmemset : ∀ x ∈ s.threads.set i { t with pc := pc }, x ∈ s.threads ∨ x = { t with pc := pc } :=
          fun x hx => List.mem_or_eq_of_mem_set hx
        have hvalid' : ∀ x ∈ s.threads.set i { t with pc := pc }, validStatus x.status = true := by
          intro x hx
          rcases hmemset x hx with h1 | h1
          · exact hvalid x h1
          · subst h1; exact hv
        unfold threadStep at hts
        cases hpc : t.pc with
        | done ok => simp [hpc] at hts
        | start =>
          have hnw : isTermWinner t = false := not_winner_of_pc (by simp [hpc])
          simp only [hpc] at hts
          by_cases hsr : (t.strict || t.status == 4) = true
          · simp only [hsr, if_true] at hts
            by_cases h0 : s.status = 0
            · -- CAS(0, status) succeeds
              simp only [h0, if_true, Option.some.injEq, Prod.mk.injEq] at hts
              obtain ⟨rfl, rfl⟩ := hts
              have hc0 : termWinners s = 0 := by simpa [h0, isTerminal] using hcount
              have hnone := no_winner_of_count_zero hc0
              refine ⟨by have := (validStatus_iff _).1 hv; dsimp only; omega, hvalid', ?_, ?_, ?_⟩
              · intro x hx cur hxpc
                rcases hmemset x hx with h1 | h1
                · exact hloaded x h1 cur hxpc
                · subst h1; simp at hxpc
              · simp only [termWinners] at hc0 ⊢
                rw [count_set hti hnw, hc0]
                simp [isTermWinner]
              · intro x hx hw
                rcases hmemset x hx with h1 | h1
                · rw [hnone x h1] at hw; cases hw
                · subst h1; rfl
            · -- CAS fails
              simp only [h0, if_false, Option.some.injEq, Prod.mk.injEq] at hts
              obtain ⟨rfl, rfl⟩ := hts
              refine ⟨hdom, hvalid', ?_, ?_, ?_⟩
              · intro x hx cur hxpc
                rcases hmemset x hx with h1 | h1
                · exact hloaded x h1 cur hxpc
                · subst h1; simp at hxpc
              · simp only [termWinners] at hcount ⊢
                rw [count_set hti hnw, hcount]
                simp [isTermWinner]
              · intro x hx hw
                rcases hmemset x hx with h1 | h1
                · exact hwin x h1 hw
                · subst h1; simp [isTermWinner] at hw
          · -- Load
            have hsr' : t.strict = false ∧ t.status ≠ 4 := by
              simp at hsr; exact hsr
            rw [if_neg hsr] at hts
            by_cases hterm : s.status ≠ 0 ∧ s.status ≠ 4
            · rw [if_pos hterm] at hts; simp only [Option.some.injEq, Prod.mk.injEq] at hts
              obtain ⟨rfl, rfl⟩ := hts
              refine ⟨hdom, hvalid', ?_, ?_, ?_⟩
              · intro x hx cur hxpc
                rcases hmemset x hx with h1 | h1
                · exact hloaded x h1 cur hxpc
                · subst h1; simp at hxpc
              · simp only [termWinners] at hcount ⊢
                rw [count_set hti hnw, hcount]
                simp [isTermWinner]
              · intro x hx hw
                rcases hmemset x hx with h1 | h1
                · exact hwin x h1 hw
                · subst h1; simp [isTermWinner] at hw
            · rw [if_neg hterm] at hts; simp only [Option.some.injEq, Prod.mk.injEq] at hts
              obtain ⟨rfl, rfl⟩ := hts
              refine ⟨hdom, hvalid', ?_, ?_, ?_⟩
              · intro x hx cur hxpc
                rcases hmemset x hx with h1 | h1
                · exact hloaded x h1 cur hxpc
                · subst h1
                  simp only [PC.loaded.injEq] at hxpc
                  subst hxpc
                  exact ⟨by omega, hsr'⟩
              · simp only [termWinners] at hcount ⊢
                rw [count_set hti hnw, hcount]
                simp [isTermWinner]
              · intro x hx hw
                rcases hmemset x hx with h1 | h1
                · exact hwin x h1 hw
                · subst h1; simp [isTermWinner] at hw
        | loaded cur =>
          have hnw : isTermWinner t = false := not_winner_of_pc (by simp [hpc])
          obtain ⟨hcur, hstrict, hne4⟩ := hloaded t htmem cur hpc
          simp only [hpc] at hts
          by_cases hc : s.status = cur
          · simp only [hc, if_true, Option.some.injEq, Prod.mk.injEq] at hts
            obtain ⟨rfl, rfl⟩ := hts
            have hnt : isTerminal s.status = false := by
              rcases hcur with h | h <;> simp [hc, h, isTerminal]
            have hc0 : termWinners s = 0 := by simpa [hnt] using hcount
            have hnone := no_winner_of_count_zero hc0
            have htt : isTerminal t.status = true := by
              have := (validStatus_iff _).1 hv
              rw [isTerminal_iff]; omega
            refine ⟨by have := (validStatus_iff _).1 hv; dsimp only; omega, hvalid', ?_, ?_, ?_⟩
            · intro x hx cur' hxpc
              rcases hmemset x hx with h1 | h1
              · exact hloaded x h1 cur' hxpc
              · subst h1; simp at hxpc
            · simp only [termWinners] at hc0 ⊢
              rw [count_set hti hnw, hc0]
              simp [isTermWinner, htt]
            · intro x hx hw
              rcases hmemset x hx with h1 | h1
              · rw [hnone x h1] at hw; cases hw
              · subst h1; rfl
          · simp only [hc, if_false, Option.some.injEq, Prod.mk.injEq] at hts
            obtain ⟨rfl, rfl⟩ := hts
            refine ⟨hdom, hvalid', ?_, ?_, ?_⟩
            · intro x hx cur' hxpc
              rcases hmemset x hx with h1 | h1
              · exact hloaded x h1 cur' hxpc
              · subst h1; simp at hxpc
            · simp only [termWinners] at hcount ⊢
              rw [count_set hti hnw, hcount]
              simp [isTermWinner]
            · intro x hx hw
              rcases hmemset x hx with h1 | h1
              · exact hwin x h1 hw
              · subst h1; simp [isTermWinner] at hw

theorem inv_reachable {s : TSt} (h : Reachable s) : Inv s := by
  induction h with
  | init => exact inv_init
  | step a _ hs ih => exact inv_step a ih hs


/-! ### Part B — buildAckRanges / coalesceAppendRange -/

/-- The user entries that reach `coalesceAppendRange` (decided, not at `lastOffset`). -/
def emitted : List Entry → Int → List Entry
  | [], _ => []
  | e :: es, lastOff =>
    if e.status = 0 then emitted es lastOff
    else if e.offset = lastOff then emitted es lastOff
    else e :: emitted es e.offset

/-- Gap ranges of a sorted list that start below `off`, and the others. -/
def below : List Range → Int → List Range
  | [], _ => []
  | g :: gs, off => if g.first < off then g :: below gs off else []

def notBelow : List Range → Int → List Range
  | [], _ => []
  | g :: gs, off => if g.first < off then notBelow gs off else g :: gs

theorem takeGapsBelow_eq (gs : List Range) (off : Int) (acc : List Range) :
    takeGapsBelow gs off acc = ((below gs off).foldl coalesceRev acc, notBelow gs off) := by
  induction gs generalizing acc with
  | nil => rfl
  | cons g gs ih =>
    simp only [takeGapsBelow, below, notBelow]
    split
    · rw [ih]; rfl
    · rfl

/-- The list the repaired loop feeds to `coalesceAppendRange`, in order: before each emitted entry the gap
ranges starting below it, the remaining gap ranges last. -/
def interleave : List Entry → List Range → List Range
  | [], gs => gs
  | e :: es, gs => below gs e.offset ++ single e :: interleave es (notBelow gs e.offset)

theorem entryLoop_eq (es : List Entry) (lo : Int) (acc gaps : List Range) (hr : Bool) :
    (entryLoop es lo acc gaps hr).2.1.foldl coalesceRev (entryLoop es lo acc gaps hr).1 =
        (interleave (emitted es lo) gaps).foldl coalesceRev acc ∧
    (entryLoop es lo acc gaps hr).2.2 = (hr || (emitted es lo).any (fun e => e.status == 4)) := by
  induction es generalizing lo acc gaps hr with
  | nil => simp [entryLoop, emitted, interleave]
  | cons e es ih =>
    simp only [entryLoop, emitted]
    split
    · exact ih ..
    · split
      · exact ih ..
      · obtain ⟨h1, h2⟩ := ih e.offset (coalesceRev (takeGapsBelow gaps e.offset acc).1 (single e))
          (takeGapsBelow gaps e.offset acc).2 (hr || e.status == 4)
        refine ⟨?_, by rw [h2]; simp [Bool.or_assoc]⟩
        rw [h1, takeGapsBelow_eq]
        simp [interleave, List.foldl_append]

theorem build_fst (es : List Entry) (gs : List Range) :
    (buildAckRanges es gs).1 =
      ((interleave (emitted (sortEntries es) (-1)) (mergeGaps (sortGaps gs))).foldl coalesceRev []).reverse := by
  simp only [buildAckRanges]
  rw [(entryLoop_eq _ _ _ _ _).1]

theorem build_snd (es : List Entry) (gs : List Range) :
    (buildAckRanges es gs).2 = (emitted (sortEntries es) (-1)).any (fun e => e.status == 4) := by
  simp only [buildAckRanges]
  rw [(entryLoop_eq _ _ _ _ _).2]; simp

theorem below_append_notBelow (gs : List Range) (off : Int) : below gs off ++ notBelow gs off = gs := by
  induction gs with
  | nil => rfl
  | cons g gs ih =>
    simp only [below, notBelow]
    split
    · simp [ih]
    · simp

theorem below_lt (gs : List Range) (off : Int) : ∀ x ∈ below gs off, x.first < off := by
  induction gs with
  | nil => simp [below]
  | cons g gs ih =>
    simp only [below]
    split
    · intro x hx
      rcases List.mem_cons.1 hx with h | h
      · subst h; assumption
      · exact ih x h
    · simp

theorem notBelow_ge (gs : List Range) (off : Int) (hs : gs.Pairwise (fun a b => a.first ≤ b.first)) :
    ∀ x ∈ notBelow gs off, off ≤ x.first := by
  induction gs with
  | nil => simp [notBelow]
  | cons g gs ih =>
    obtain ⟨h1, h2⟩ := List.pairwise_cons.1 hs
    simp only [notBelow]
    split
    · exact ih h2
    · intro x hx
      rcases List.mem_cons.1 hx with h | h
      · subst h; omega
      · have := h1 x h; omega

theorem interleave_perm (em : List Entry) (gs : List Range) : (interleave em gs).Perm (em.map single ++ gs) := by
  induction em generalizing gs with
  | nil => simp [interleave]
  | cons e em ih =>
    simp only [interleave, List.map_cons, List.cons_append]
    have h1 := ih (notBelow gs e.offset)
    have h2 : (below gs e.offset ++ single e :: (em.map single ++ notBelow gs e.offset)).Perm
        (single e :: (em.map single ++ gs)) := by
      refine List.perm_middle.trans (List.Perm.cons _ ?_)
      have : (below gs e.offset ++ (em.map single ++ notBelow gs e.offset)).Perm
          (em.map single ++ (below gs e.offset ++ notBelow gs e.offset)) := by
        rw [← List.append_assoc, ← List.append_assoc]
        exact List.Perm.append_right _ List.perm_append_comm
      rw [below_append_notBelow] at this
      exact this
    exact (List.Perm.append_left _ (List.Perm.cons _ h1)).trans h2

/-! #### coverage -/

theorem cov_cons (r : Range) (rs : List Range) (o : Int) :
    cov (r :: rs) o = (if contains r o then [r.ty] else []) ++ cov rs o := by
  simp only [cov, List.filter_cons]
  split <;> simp

theorem cov_append (a b : List Range) (o : Int) : cov (a ++ b) o = cov a o ++ cov b o := by
  simp [cov]

theorem cov_perm {a b : List Range} (h : a.Perm b) (o : Int) : (cov a o).Perm (cov b o) :=
  (h.filter _).map _

theorem cov_reverse (a : List Range) (o : Int) : cov a.reverse o = (cov a o).reverse := by
  simp [cov, List.filter_reverse]

theorem cov_coalesceRev (acc : List Range) (r : Range) (o : Int) (hacc : ∀ x ∈ acc, x.first ≤ x.last)
    (hr : r.first ≤ r.last) : cov (coalesceRev acc r) o = cov (r :: acc) o := by
  cases acc with
  | nil => rfl
  | cons last rest =>
    simp only [coalesceRev]
    split
    · rename_i h
      obtain ⟨h1, _, _, h4⟩ := h
      have hl := hacc last (by simp)
      simp only [cov_cons, contains]
      by_cases c1 : last.first ≤ o <;> by_cases c2 : o ≤ last.last <;> by_cases c3 : r.first ≤ o <;>
        by_cases c4 : o ≤ r.last <;> simp [c1, c2, c3, c4, h1] <;> omega
    · rfl

theorem wf_coalesceRev (acc : List Range) (r : Range) (hacc : ∀ x ∈ acc, x.first ≤ x.last) (hr : r.first ≤ r.last) :
    ∀ x ∈ coalesceRev acc r, x.first ≤ x.last := by
  cases acc with
  | nil => intro x hx; simp [coalesceRev] at hx; subst hx; exact hr
  | cons last rest =>
    simp only [coalesceRev]
    split
    · rename_i h
      intro x hx
      rcases List.mem_cons.1 hx with h1 | h1
      · subst h1
        have := hacc last (by simp)
        simp only; omega
      · exact hacc x (by simp [h1])
    · intro x hx
      rcases List.mem_cons.1 hx with h1 | h1
      · subst h1; exact hr
      · exact hacc x h1

theorem wf_foldl (rs acc : List Range) (hacc : ∀ x ∈ acc, x.first ≤ x.last) (hrs : ∀ x ∈ rs, x.first ≤ x.last) :
    ∀ x ∈ rs.foldl coalesceRev acc, x.first ≤ x.last := by
  induction rs generalizing acc with
  | nil => simpa using hacc
  | cons r rs ih =>
    simp only [List.foldl_cons]
    exact ih _ (wf_coalesceRev acc r hacc (hrs r (by simp))) (fun x hx => hrs x (by simp [hx]))

theorem cov_foldl (rs acc : List Range) (o : Int) (hacc : ∀ x ∈ acc, x.first ≤ x.last) (hrs : ∀ x ∈ rs, x.first ≤ x.last) :
    cov (rs.foldl coalesceRev acc) o = cov rs.reverse o ++ cov acc o := by
  induction rs generalizing acc with
  | nil => simp [cov]
  | cons r rs ih =>
    simp only [List.foldl_cons, List.reverse_cons]
    rw [ih _ (wf_coalesceRev acc r hacc (hrs r (by simp))) (fun x hx => hrs x (by simp [hx])),
      cov_coalesceRev acc r o hacc (hrs r (by simp)), cov_append, cov_cons r acc, cov_cons r []]
    simp [cov]

theorem wf_single (l : List Entry) : ∀ x ∈ l.map single, x.first ≤ x.last := by
  intro x hx
  obtain ⟨e, _, rfl⟩ := List.mem_map.1 hx
  simp [single]

/-- What the output covers: the emitted user entries and the merged gap ranges (as a multiset of types per offset). -/
theorem cov_build (es : List Entry) (gs : List Range) (o : Int)
    (hsg : ∀ g ∈ mergeGaps (sortGaps gs), g.first ≤ g.last) :
    (cov (buildAckRanges es gs).1 o).Perm
      (cov ((emitted (sortEntries es) (-1)).map single) o ++ cov (mergeGaps (sortGaps gs)) o) := by
  have hperm := interleave_perm (emitted (sortEntries es) (-1)) (mergeGaps (sortGaps gs))
  have hL : ∀ x ∈ interleave (emitted (sortEntries es) (-1)) (mergeGaps (sortGaps gs)), x.first ≤ x.last := by
    intro x hx
    rcases List.mem_append.1 (hperm.mem_iff.1 hx) with h | h
    · exact wf_single _ x h
    · exact hsg x h
  rw [build_fst, cov_reverse, cov_foldl _ _ o (by simp) hL, cov_reverse]
  have : cov ([] : List Range) o = [] := rfl
  rw [this, List.append_nil, List.reverse_reverse, ← cov_append]
  exact cov_perm hperm o

theorem cov_singles (l : List Entry) (o : Int) :
    cov (l.map single) o = (l.filter (fun e => e.offset == o)).map (·.status) := by
  induction l with
  | nil => rfl
  | cons e l ih =>
    simp only [List.map_cons, cov_cons, ih, List.filter_cons, contains, single]
    by_cases h : e.offset = o
    · simp [h]
    · have : ¬ (e.offset ≤ o ∧ o ≤ e.offset) := by omega
      simp [h, this]

/-! #### sorting and the emitted entries -/

def Sorted (es : List Entry) : Prop := es.Pairwise (fun a b => a.offset ≤ b.offset)

theorem sortEntries_sorted (es : List Entry) : Sorted (sortEntries es) := by
  have := List.pairwise_mergeSort (le := fun (a b : Entry) => decide (a.offset ≤ b.offset))
    (by intro a b c h1 h2; simp at *; omega) (by intro a b; simp; omega) es
  simpa [Sorted, sortEntries] using this

theorem sortEntries_mem (es : List Entry) (e : Entry) : e ∈ sortEntries es ↔ e ∈ es :=
  (List.mergeSort_perm _ _).mem_iff

theorem sortGaps_sorted (gs : List Range) : (sortGaps gs).Pairwise (fun a b => a.first ≤ b.first) := by
  have := List.pairwise_mergeSort (le := fun (a b : Range) => decide (a.first ≤ b.first))
    (by intro a b c h1 h2; simp at *; omega) (by intro a b; simp; omega) gs
  simpa [sortGaps] using this

theorem sortGaps_perm (gs : List Range) : (sortGaps gs).Perm gs := List.mergeSort_perm _ _

theorem emitted_mem (es : List Entry) (lo : Int) (hs : Sorted es) (hlo : ∀ e ∈ es, lo ≤ e.offset) :
    ∀ x ∈ emitted es lo, x ∈ es ∧ x.status ≠ 0 ∧ lo < x.offset := by
  induction es generalizing lo with
  | nil => simp [emitted]
  | cons h t ih =>
    obtain ⟨hh, ht⟩ := List.pairwise_cons.1 hs
    have hlo_h := hlo h (by simp)
    have hlo_t : ∀ e ∈ t, lo ≤ e.offset := fun e he => hlo e (by simp [he])
    intro x hx
    simp only [emitted] at hx
    split at hx
    · obtain ⟨a, b, c⟩ := ih lo ht hlo_t x hx
      exact ⟨by simp [a], b, c⟩
    · split at hx
      · obtain ⟨a, b, c⟩ := ih lo ht hlo_t x hx
        exact ⟨by simp [a], b, c⟩
      · rename_i h0 hne
        rcases List.mem_cons.1 hx with h1 | h1
        · subst h1; exact ⟨by simp, h0, by omega⟩
        · obtain ⟨a, b, c⟩ := ih h.offset ht hh x h1
          exact ⟨by simp [a], b, by omega⟩

theorem emitted_pairwise (es : List Entry) (lo : Int) (hs : Sorted es) (hlo : ∀ e ∈ es, lo ≤ e.offset) :
    (emitted es lo).Pairwise (fun a b => a.offset < b.offset) := by
  induction es generalizing lo with
  | nil => simp [emitted]
  | cons h t ih =>
    obtain ⟨hh, ht⟩ := List.pairwise_cons.1 hs
    have hlo_t : ∀ e ∈ t, lo ≤ e.offset := fun e he => hlo e (by simp [he])
    simp only [emitted]
    split
    · exact ih lo ht hlo_t
    · split
      · exact ih lo ht hlo_t
      · refine List.pairwise_cons.2 ⟨?_, ih h.offset ht hh⟩
        intro x hx
        exact (emitted_mem t h.offset ht hh x hx).2.2

theorem emitted_complete (es : List Entry) (lo : Int) (hs : Sorted es) (e : Entry) (he : e ∈ es)
    (hlive : e.status ≠ 0) (hgt : lo < e.offset) : ∃ x ∈ emitted es lo, x.offset = e.offset := by
  induction es generalizing lo with
  | nil => simp at he
  | cons h t ih =>
    obtain ⟨hh, ht⟩ := List.pairwise_cons.1 hs
    simp only [emitted]
    split
    · rename_i h0
      rcases List.mem_cons.1 he with h1 | h1
      · subst h1; exact absurd h0 hlive
      · exact ih lo ht h1 hgt
    · split
      · rename_i heq
        rcases List.mem_cons.1 he with h1 | h1
        · subst h1; omega
        · exact ih lo ht h1 hgt
      · rcases List.mem_cons.1 he with h1 | h1
        · subst h1; exact ⟨e, by simp, rfl⟩
        · by_cases hq : e.offset = h.offset
          · exact ⟨h, by simp, hq.symm⟩
          · have := hh e h1
            obtain ⟨x, hx, hxo⟩ := ih h.offset ht h1 (by omega)
            exact ⟨x, by simp [hx], hxo⟩


/-! #### ordering -/

/-- Ascending and non-overlapping, on the reversed slice. -/
def AscRev (acc : List Range) : Prop := acc.Pairwise (fun a b => b.last < a.first) ∧ ∀ x ∈ acc, x.first ≤ x.last

def AscList (rs : List Range) : Prop := rs.Pairwise (fun a b => a.last < b.first) ∧ ∀ x ∈ rs, x.first ≤ x.last

theorem ascending_iff (l : List Range) : ascending l = true ↔ AscList l := by
  induction l with
  | nil => simp [ascending, AscList]
  | cons r rs ih =>
    simp only [ascending, Bool.and_eq_true, decide_eq_true_eq, List.all_eq_true, ih, AscList, List.pairwise_cons,
      List.mem_cons, forall_eq_or_imp]
    constructor
    · rintro ⟨⟨h1, h2⟩, h3, h4⟩; exact ⟨⟨h2, h3⟩, h1, h4⟩
    · rintro ⟨⟨h2, h3⟩, h1, h4⟩; exact ⟨⟨h1, h2⟩, h3, h4⟩

theorem ascList_reverse (l : List Range) : AscList l.reverse ↔ AscRev l := by
  simp [AscList, AscRev, List.pairwise_reverse]

theorem ascRev_coalesce (acc : List Range) (r : Range) (h : AscRev acc) (hr : r.first ≤ r.last)
    (hlt : ∀ x ∈ acc, x.last < r.first) :
    AscRev (coalesceRev acc r) ∧ ∀ x ∈ coalesceRev acc r, x.last ≤ r.last := by
  cases acc with
  | nil => simp [coalesceRev, AscRev, hr]
  | cons last rest =>
    obtain ⟨hp, hw⟩ := h
    obtain ⟨hp1, hp2⟩ := List.pairwise_cons.1 hp
    have hwl := hw last (by simp)
    have hll := hlt last (by simp)
    simp only [coalesceRev]
    split
    · refine ⟨⟨List.pairwise_cons.2 ⟨fun b hb => hp1 b hb, hp2⟩, ?_⟩, ?_⟩
      · intro x hx
        rcases List.mem_cons.1 hx with h1 | h1
        · subst h1; simp only; omega
        · exact hw x (by simp [h1])
      · intro x hx
        rcases List.mem_cons.1 hx with h1 | h1
        · subst h1; simp
        · have := hp1 x h1; omega
    · refine ⟨⟨List.pairwise_cons.2 ⟨fun b hb => hlt b hb, hp⟩, ?_⟩, ?_⟩
      · intro x hx
        rcases List.mem_cons.1 hx with h1 | h1
        · subst h1; exact hr
        · exact hw x h1
      · intro x hx
        rcases List.mem_cons.1 hx with h1 | h1
        · subst h1; omega
        · have := hlt x h1; omega

theorem ascRev_foldl (rs acc : List Range) (h : AscRev acc) (hrs : AscList rs)
    (hlt : ∀ x ∈ acc, ∀ r ∈ rs, x.last < r.first) : AscRev (rs.foldl coalesceRev acc) := by
  induction rs generalizing acc with
  | nil => simpa using h
  | cons r rs ih =>
    obtain ⟨hp, hw⟩ := hrs
    obtain ⟨hp1, hp2⟩ := List.pairwise_cons.1 hp
    obtain ⟨h', hb⟩ := ascRev_coalesce acc r h (hw r (by simp)) (fun x hx => hlt x hx r (by simp))
    simp only [List.foldl_cons]
    refine ih _ h' ⟨hp2, fun x hx => hw x (by simp [hx])⟩ ?_
    intro x hx r' hr'
    have := hb x hx
    have := hp1 r' hr'
    omega

theorem coalesceRev_append (p acc : List Range) (r : Range) (hp : p ≠ []) :
    coalesceRev (p ++ acc) r = coalesceRev p r ++ acc := by
  cases p with
  | nil => exact absurd rfl hp
  | cons a t =>
    simp only [List.cons_append, coalesceRev]
    split <;> simp

theorem coalesceRev_ne_nil (acc : List Range) (r : Range) : coalesceRev acc r ≠ [] := by
  cases acc with
  | nil => simp [coalesceRev]
  | cons a t => simp only [coalesceRev]; split <;> simp

theorem foldl_append (rs p acc : List Range) (hp : p ≠ []) :
    rs.foldl coalesceRev (p ++ acc) = rs.foldl coalesceRev p ++ acc := by
  induction rs generalizing p with
  | nil => rfl
  | cons r rs ih =>
    simp only [List.foldl_cons]
    rw [coalesceRev_append p acc r hp]
    exact ih _ (coalesceRev_ne_nil p r)

/-- Folding an ascending list onto an ascending slice yields (reversed) two ascending runs. -/
theorem two_runs_foldl (rs acc : List Range) (h : AscRev acc) (hrs : AscList rs) :
    ∃ G U, rs.foldl coalesceRev acc = G ++ U ∧ AscRev G ∧ AscRev U := by
  induction rs generalizing acc with
  | nil => exact ⟨[], acc, rfl, by simp [AscRev], h⟩
  | cons r rs ih =>
    obtain ⟨hp, hw⟩ := hrs
    obtain ⟨hp1, hp2⟩ := List.pairwise_cons.1 hp
    have hrs' : AscList rs := ⟨hp2, fun x hx => hw x (by simp [hx])⟩
    have hwr := hw r (by simp)
    have fresh : ∃ G U, rs.foldl coalesceRev ([r] ++ acc) = G ++ U ∧ AscRev G ∧ AscRev U := by
      rw [foldl_append rs [r] acc (by simp)]
      refine ⟨rs.foldl coalesceRev [r], acc, rfl, ?_, h⟩
      exact ascRev_foldl rs [r] (by simp [AscRev, hwr]) hrs' (by intro x hx r' hr'; simp at hx; subst hx; exact hp1 r' hr')
    simp only [List.foldl_cons]
    cases acc with
    | nil => simpa [coalesceRev] using fresh
    | cons last rest =>
      by_cases hc : last.ty = r.ty ∧ last.source = r.source ∧ last.epoch = r.epoch ∧ last.last + 1 = r.first
      · -- merged onto the last range: the slice stays ascending
        have hlt : ∀ x ∈ last :: rest, x.last < r.first := by
          obtain ⟨hpa, hwa⟩ := h
          obtain ⟨hpa1, _⟩ := List.pairwise_cons.1 hpa
          have := hwa last (by simp)
          intro x hx
          rcases List.mem_cons.1 hx with h1 | h1
          · subst h1; omega
          · have := hpa1 x h1; omega
        exact ih _ (ascRev_coalesce _ r h hwr hlt).1 hrs'
      · have : coalesceRev (last :: rest) r = [r] ++ (last :: rest) := by
          simp only [coalesceRev]; rw [if_neg hc]; rfl
        rw [this]; exact fresh

/-! #### gap ranges -/

def Disj (a b : Range) : Prop := a.last < b.first ∨ b.last < a.first

/-- gap ranges that overlap have the same type -/
def Agree (a b : Range) : Prop := a.last < b.first ∨ b.last < a.first ∨ a.ty = b.ty

theorem gapsAgree_iff (gs : List Range) : gapsAgree gs = true ↔ gs.Pairwise Agree := by
  induction gs with
  | nil => simp [gapsAgree]
  | cons g gs ih =>
    simp [gapsAgree, agreeWith, ih, List.pairwise_cons, Agree, or_assoc]

/-- what the merge loop is run on: sorted by `first`, every range `first ≤ last`, overlapping ranges of one type -/
structure GapsOK (l : List Range) : Prop where
  sorted : l.Pairwise (fun a b => a.first ≤ b.first)
  wf : ∀ g ∈ l, g.first ≤ g.last
  agree : l.Pairwise Agree

theorem gapsOK_tail {g : Range} {l : List Range} (h : GapsOK (g :: l)) : GapsOK l :=
  ⟨(List.pairwise_cons.1 h.sorted).2, fun x hx => h.wf x (by simp [hx]), (List.pairwise_cons.1 h.agree).2⟩

/-- merging the second range into the first keeps the hypotheses -/
theorem gapsOK_merge {g g' : Range} {gs : List Range} (h : GapsOK (g :: g' :: gs)) (hle : g'.first ≤ g.last) :
    GapsOK ({ g with last := if g'.last > g.last then g'.last else g.last } :: gs) := by
  obtain ⟨hs, hw, ha⟩ := h
  obtain ⟨hs1, hs2⟩ := List.pairwise_cons.1 hs
  obtain ⟨hs3, hs4⟩ := List.pairwise_cons.1 hs2
  obtain ⟨ha1, ha2⟩ := List.pairwise_cons.1 ha
  obtain ⟨ha3, ha4⟩ := List.pairwise_cons.1 ha2
  have hwg := hw g (by simp)
  have hwg' := hw g' (by simp)
  have hgg' := hs1 g' (by simp)
  have hty : g.ty = g'.ty := by
    rcases ha1 g' (by simp) with h | h | h
    · omega
    · omega
    · exact h
  refine ⟨List.pairwise_cons.2 ⟨fun x hx => hs1 x (by simp [hx]), hs4⟩, ?_, List.pairwise_cons.2 ⟨?_, ha4⟩⟩
  · intro x hx
    rcases List.mem_cons.1 hx with h | h
    · subst h; simp only; split <;> omega
    · exact hw x (by simp [h])
  · intro x hx
    have hx1 := ha1 x (by simp [hx])
    have hx2 := ha3 x hx
    have hxs := hs3 x hx
    have hxw := hw x (by simp [hx])
    unfold Agree at hx1 hx2 ⊢
    simp only
    split
    · rcases hx2 with h | h | h
      · exact Or.inl (by omega)
      · omega
      · exact Or.inr (Or.inr (by omega))
    · rcases hx1 with h | h | h
      · exact Or.inl (by omega)
      · omega
      · exact Or.inr (Or.inr h)

/-- the head of the merged list starts where the head of the input starts -/
theorem mergeGaps_head (g : Range) (l : List Range) :
    ∃ x r, mergeGaps (g :: l) = x :: r ∧ x.first = g.first := by
  generalize hn : (g :: l).length = n
  induction n using Nat.strongRecOn generalizing g l with
  | _ n ih =>
    cases l with
    | nil => exact ⟨g, [], by simp [mergeGaps], rfl⟩
    | cons g' gs =>
      rw [mergeGaps]
      split
      · obtain ⟨x, r, h1, h2⟩ := ih (gs.length + 1) (by simp at hn; omega)
          { g with last := if g'.last > g.last then g'.last else g.last } gs rfl
        exact ⟨x, r, h1, h2⟩
      · exact ⟨g, _, rfl, rfl⟩

/-- The merged gap list is ascending and non-overlapping. -/
theorem mergeGaps_ascList (l : List Range) (h : GapsOK l) : AscList (mergeGaps l) := by
  generalize hn : l.length = n
  induction n using Nat.strongRecOn generalizing l with
  | _ n ih =>
    match l, h with
    | [], _ => simp [mergeGaps, AscList]
    | [g], h => simp [mergeGaps, AscList]; exact h.wf g (by simp)
    | g :: g' :: gs, h =>
      rw [mergeGaps]
      split
      · rename_i hle
        exact ih (gs.length + 1) (by simp at hn; omega) _ (gapsOK_merge h hle) rfl
      · rename_i hgt
        have hrest := ih (gs.length + 1) (by simp at hn; omega) (g' :: gs) (gapsOK_tail h) rfl
        obtain ⟨x, r, hx, hxf⟩ := mergeGaps_head g' gs
        rw [hx] at hrest ⊢
        obtain ⟨hp, hw⟩ := hrest
        obtain ⟨hp1, hp2⟩ := List.pairwise_cons.1 hp
        have hwx := hw x (by simp)
        refine ⟨List.pairwise_cons.2 ⟨?_, hp⟩, ?_⟩
        · intro y hy
          rcases List.mem_cons.1 hy with h1 | h1
          · subst h1; omega
          · have := hp1 y h1; omega
        · intro y hy
          rcases List.mem_cons.1 hy with h1 | h1
          · subst h1; exact h.wf y (by simp)
          · exact hw y h1

/-- Every offset a merged range covers is covered by an input gap range of the same type. -/
theorem mergeGaps_sound (l : List Range) (h : GapsOK l) :
    ∀ x ∈ mergeGaps l, ∀ o, x.first ≤ o → o ≤ x.last → ∃ g ∈ l, g.first ≤ o ∧ o ≤ g.last ∧ g.ty = x.ty := by
  generalize hn : l.length = n
  induction n using Nat.strongRecOn generalizing l with
  | _ n ih =>
    match l, h with
    | [], _ => simp [mergeGaps]
    | [g], _ =>
      intro x hx o h1 h2
      simp [mergeGaps] at hx; subst hx
      exact ⟨x, by simp, h1, h2, rfl⟩
    | g :: g' :: gs, h =>
      rw [mergeGaps]
      split
      · rename_i hle
        intro x hx o h1 h2
        obtain ⟨c, hc, c1, c2, c3⟩ := ih (gs.length + 1) (by simp at hn; omega) _ (gapsOK_merge h hle) rfl x hx o h1 h2
        rcases List.mem_cons.1 hc with hm | hm
        · -- the merged range: the offset lies in g or in g'
          subst hm
          simp only at c1 c2 c3
          have hty : g.ty = g'.ty := by
            have hwg' := h.wf g' (by simp)
            have hgg' := (List.pairwise_cons.1 h.sorted).1 g' (by simp)
            rcases (List.pairwise_cons.1 h.agree).1 g' (by simp) with q | q | q
            · omega
            · omega
            · exact q
          by_cases hin : o ≤ g.last
          · exact ⟨g, by simp, c1, hin, c3⟩
          · refine ⟨g', by simp, by omega, ?_, by rw [← hty]; exact c3⟩
            split at c2 <;> omega
        · exact ⟨c, by simp [hm], c1, c2, c3⟩
      · intro x hx o h1 h2
        rcases List.mem_cons.1 hx with hm | hm
        · subst hm; exact ⟨x, by simp, h1, h2, rfl⟩
        · obtain ⟨c, hc, c1, c2, c3⟩ := ih (gs.length + 1) (by simp at hn; omega) (g' :: gs) (gapsOK_tail h) rfl x hm o h1 h2
          exact ⟨c, by simp [List.mem_cons.1 hc |>.elim (fun e => Or.inr (Or.inl e)) (fun e => Or.inr (Or.inr e))], c1, c2, c3⟩

/-- Every offset an input gap range covers is covered by a merged range. -/
theorem mergeGaps_complete (l : List Range) (h : GapsOK l) :
    ∀ g ∈ l, ∀ o, g.first ≤ o → o ≤ g.last → ∃ x ∈ mergeGaps l, x.first ≤ o ∧ o ≤ x.last := by
  generalize hn : l.length = n
  induction n using Nat.strongRecOn generalizing l with
  | _ n ih =>
    match l, h with
    | [], _ => simp
    | [g], _ =>
      intro c hc o h1 h2
      simp at hc; subst hc
      exact ⟨c, by simp [mergeGaps], h1, h2⟩
    | g :: g' :: gs, h =>
      rw [mergeGaps]
      split
      · rename_i hle
        intro c hc o h1 h2
        have hrec := ih (gs.length + 1) (by simp at hn; omega) _ (gapsOK_merge h hle) rfl
        have hwg := h.wf g (by simp)
        have hgg' := (List.pairwise_cons.1 h.sorted).1 g' (by simp)
        rcases List.mem_cons.1 hc with hm | hm
        · have e1 : c.first = g.first := by rw [hm]
          have e2 : c.last = g.last := by rw [hm]
          exact hrec { g with last := if g'.last > g.last then g'.last else g.last } (List.mem_cons_self ..) o
            (by simp only; omega) (by simp only; split <;> omega)
        · rcases List.mem_cons.1 hm with hm' | hm'
          · have e1 : c.first = g'.first := by rw [hm']
            have e2 : c.last = g'.last := by rw [hm']
            exact hrec { g with last := if g'.last > g.last then g'.last else g.last } (List.mem_cons_self ..) o
              (by simp only; omega) (by simp only; split <;> omega)
          · exact hrec c (by simp [hm']) o h1 h2
      · intro c hc o h1 h2
        rcases List.mem_cons.1 hc with hm | hm
        · subst hm; exact ⟨c, by simp, h1, h2⟩
        · obtain ⟨x, hx, x1, x2⟩ := ih (gs.length + 1) (by simp at hn; omega) (g' :: gs) (gapsOK_tail h) rfl c hm o h1 h2
          exact ⟨x, by simp [hx], x1, x2⟩

/-! #### where the `last` of an output range comes from; type-only predicates -/

theorem last_mem_coalesce (acc : List Range) (r x : Range) (hx : x ∈ coalesceRev acc r) :
    (∃ y ∈ acc, x.last = y.last) ∨ x.last = r.last := by
  cases acc with
  | nil => simp [coalesceRev] at hx; subst hx; exact Or.inr rfl
  | cons last rest =>
    simp only [coalesceRev] at hx
    split at hx
    · rcases List.mem_cons.1 hx with h1 | h1
      · subst h1; exact Or.inr rfl
      · exact Or.inl ⟨x, by simp [h1], rfl⟩
    · rcases List.mem_cons.1 hx with h1 | h1
      · subst h1; exact Or.inr rfl
      · exact Or.inl ⟨x, h1, rfl⟩

theorem last_mem_foldl (rs acc : List Range) (x : Range) (hx : x ∈ rs.foldl coalesceRev acc) :
    (∃ y ∈ acc, x.last = y.last) ∨ (∃ r ∈ rs, x.last = r.last) := by
  induction rs generalizing acc with
  | nil => exact Or.inl ⟨x, by simpa using hx, rfl⟩
  | cons r rs ih =>
    simp only [List.foldl_cons] at hx
    rcases ih _ hx with ⟨y, hy, hxy⟩ | ⟨r', hr', hxr⟩
    · rcases last_mem_coalesce acc r y hy with ⟨z, hz, hyz⟩ | h2
      · exact Or.inl ⟨z, hz, by omega⟩
      · exact Or.inr ⟨r, by simp, by omega⟩
    · exact Or.inr ⟨r', by simp [hr'], hxr⟩

theorem any_ty_coalesce (acc : List Range) (r : Range) (p : Int → Bool) :
    (coalesceRev acc r).any (fun x => p x.ty) = (acc.any (fun x => p x.ty) || p r.ty) := by
  cases acc with
  | nil => simp [coalesceRev]
  | cons last rest =>
    simp only [coalesceRev]
    split
    · rename_i h
      simp only [List.any_cons, ← h.1]
      cases p last.ty <;> simp
    · simp only [List.any_cons]
      cases p r.ty <;> simp

theorem any_ty_foldl (rs acc : List Range) (p : Int → Bool) :
    (rs.foldl coalesceRev acc).any (fun x => p x.ty) = (acc.any (fun x => p x.ty) || rs.any (fun x => p x.ty)) := by
  induction rs generalizing acc with
  | nil => simp
  | cons r rs ih => simp only [List.foldl_cons, ih, any_ty_coalesce, List.any_cons, Bool.or_assoc]

theorem filter_length_le_one {α : Type} (p : α → Bool) (l : List α)
    (h : l.Pairwise (fun a b => ¬ (p a = true ∧ p b = true))) : (l.filter p).length ≤ 1 := by
  induction l with
  | nil => simp
  | cons a l ih =>
    obtain ⟨h1, h2⟩ := List.pairwise_cons.1 h
    by_cases hp : p a = true
    · have : l.filter p = [] := List.filter_eq_nil_iff.2 (fun b hb hpb => h1 b hb ⟨hp, hpb⟩)
      simp [List.filter_cons, hp, this]
    · simp only [List.filter_cons, hp]
      exact ih h2

/-! #### input well-formedness, unpacked -/

structure WfInput (es : List Entry) (gs : List Range) : Prop where
  offs : ∀ e ∈ es, 0 ≤ e.offset
  gaps : ∀ g ∈ gs, 0 ≤ g.first ∧ g.first ≤ g.last ∧ (g.ty = 0 ∨ g.ty = 2)
  agree : gs.Pairwise Agree
  apart : ∀ e ∈ es, e.status ≠ 0 → ∀ g ∈ gs, ¬ (g.first ≤ e.offset ∧ e.offset ≤ g.last)

theorem wfInput_iff (es : List Entry) (gs : List Range) : wfInput es gs = true ↔ WfInput es gs := by
  constructor
  · intro h
    simp only [wfInput, Bool.and_eq_true, List.all_eq_true, decide_eq_true_eq, Bool.or_eq_true, beq_iff_eq,
      gapsAgree_iff, contains, Bool.not_eq_true', Bool.and_eq_false_iff, decide_eq_false_iff_not] at h
    obtain ⟨⟨⟨h1, h2⟩, h3⟩, h4⟩ := h
    refine ⟨h1, fun g hg => ?_, h3, ?_⟩
    · obtain ⟨⟨a, b⟩, c⟩ := h2 g hg; exact ⟨a, b, c⟩
    · intro e he hl g hg
      rcases h4 e he with h5 | h5
      · exact absurd h5 hl
      · have := h5 g hg; omega
  · intro ⟨h1, h2, h3, h4⟩
    simp only [wfInput, Bool.and_eq_true, List.all_eq_true, decide_eq_true_eq, Bool.or_eq_true, beq_iff_eq,
      gapsAgree_iff, contains, Bool.not_eq_true', Bool.and_eq_false_iff, decide_eq_false_iff_not]
    refine ⟨⟨⟨h1, fun g hg => ?_⟩, h3⟩, ?_⟩
    · obtain ⟨a, b, c⟩ := h2 g hg; exact ⟨⟨a, b⟩, c⟩
    · intro e he
      by_cases hl : e.status = 0
      · exact Or.inl hl
      · refine Or.inr (fun g hg => ?_)
        have := h4 e he hl g hg; omega

/-- The entries that reach the coalescing loop, for a well-formed input. -/
abbrev em (es : List Entry) : List Entry := emitted (sortEntries es) (-1)

theorem em_mem {es : List Entry} {gs : List Range} (h : WfInput es gs) :
    ∀ x ∈ em es, x ∈ es ∧ x.status ≠ 0 := by
  intro x hx
  have := emitted_mem (sortEntries es) (-1) (sortEntries_sorted es)
    (fun e he => by have := h.offs e ((sortEntries_mem es e).1 he); omega) x hx
  exact ⟨(sortEntries_mem es x).1 this.1, this.2.1⟩

theorem em_pairwise {es : List Entry} {gs : List Range} (h : WfInput es gs) :
    (em es).Pairwise (fun a b => a.offset < b.offset) :=
  emitted_pairwise (sortEntries es) (-1) (sortEntries_sorted es)
    (fun e he => by have := h.offs e ((sortEntries_mem es e).1 he); omega)

theorem em_complete {es : List Entry} {gs : List Range} (h : WfInput es gs) (e : Entry) (he : e ∈ es) (hl : e.status ≠ 0) :
    ∃ x ∈ em es, x.offset = e.offset :=
  emitted_complete (sortEntries es) (-1) (sortEntries_sorted es) e ((sortEntries_mem es e).2 he) hl
    (by have := h.offs e he; omega)

/-! #### coverage of the built ranges -/

/-- the gap ranges the loop consumes: sorted, then merged -/
abbrev mg (gs : List Range) : List Range := mergeGaps (sortGaps gs)

theorem sortGaps_ok {es : List Entry} {gs : List Range} (h : WfInput es gs) : GapsOK (sortGaps gs) :=
  ⟨sortGaps_sorted gs, fun g hg => (h.gaps g ((sortGaps_perm gs).mem_iff.1 hg)).2.1,
    (sortGaps_perm gs).symm.pairwise h.agree (fun {x y} hxy => by
      unfold Agree at *
      rcases hxy with q | q | q
      · exact Or.inr (Or.inl q)
      · exact Or.inl q
      · exact Or.inr (Or.inr q.symm))⟩

theorem mg_ascList {es : List Entry} {gs : List Range} (h : WfInput es gs) : AscList (mg gs) :=
  mergeGaps_ascList _ (sortGaps_ok h)

/-- an offset a merged range covers lies in an input gap range of that type -/
theorem mg_sound {es : List Entry} {gs : List Range} (h : WfInput es gs) (x : Range) (hx : x ∈ mg gs) (o : Int)
    (h1 : x.first ≤ o) (h2 : o ≤ x.last) : ∃ g ∈ gs, g.first ≤ o ∧ o ≤ g.last ∧ g.ty = x.ty := by
  obtain ⟨g, hg, a, b, c⟩ := mergeGaps_sound _ (sortGaps_ok h) x hx o h1 h2
  exact ⟨g, (sortGaps_perm gs).mem_iff.1 hg, a, b, c⟩

theorem mg_complete {es : List Entry} {gs : List Range} (h : WfInput es gs) (g : Range) (hg : g ∈ gs) (o : Int)
    (h1 : g.first ≤ o) (h2 : o ≤ g.last) : ∃ x ∈ mg gs, x.first ≤ o ∧ o ≤ x.last :=
  mergeGaps_complete _ (sortGaps_ok h) g ((sortGaps_perm gs).mem_iff.2 hg) o h1 h2

theorem build_cov_perm (es : List Entry) (gs : List Range) (o : Int) (h : WfInput es gs) :
    (cov (buildAckRanges es gs).1 o).Perm
      (((em es).filter (fun e => e.offset == o)).map (·.status) ++ cov (mg gs) o) := by
  have := cov_build es gs o (mg_ascList h).2
  rwa [cov_singles] at this

theorem build_cov_length (es : List Entry) (gs : List Range) (o : Int) (h : WfInput es gs) :
    (cov (buildAckRanges es gs).1 o).length ≤ 1 := by
  rw [(build_cov_perm es gs o h).length_eq, List.length_append, List.length_map]
  have h1 : ((em es).filter (fun e => e.offset == o)).length ≤ 1 :=
    filter_length_le_one _ _ ((em_pairwise h).imp (fun {a b} hab => by simp; omega))
  have h2 : (cov (mg gs) o).length ≤ 1 := by
    simp only [cov, List.length_map]
    refine filter_length_le_one _ _ ?_
    have hw : (mg gs).Pairwise (fun a b => a.first ≤ a.last ∧ b.first ≤ b.last) := by
      rw [List.pairwise_iff_forall_sublist]
      intro a b hab
      exact ⟨(mg_ascList h).2 a (hab.subset (by simp)), (mg_ascList h).2 b (hab.subset (by simp))⟩
    exact ((mg_ascList h).1.and hw).imp (fun {a b} hab => by simp [contains]; omega)
  by_cases hg : cov (mg gs) o = []
  · simp [hg]; exact h1
  · -- some merged gap range contains o: no decided entry is at o
    obtain ⟨t, ht⟩ := List.exists_mem_of_ne_nil _ hg
    simp only [cov, List.mem_map, List.mem_filter] at ht
    obtain ⟨x, ⟨hxm, hxc⟩, _⟩ := ht
    simp [contains] at hxc
    obtain ⟨g, hgm, g1, g2, _⟩ := mg_sound h x hxm o hxc.1 hxc.2
    have : (em es).filter (fun e => e.offset == o) = [] := by
      rw [List.filter_eq_nil_iff]
      intro e he heo
      obtain ⟨hee, hel⟩ := em_mem h e he
      have := h.apart e hee hel g hgm
      simp at heo
      omega
    simp [this]; exact h2

theorem build_cov_sound (es : List Entry) (gs : List Range) (o t : Int) (h : WfInput es gs)
    (ht : t ∈ cov (buildAckRanges es gs).1 o) : t ∈ covIn es gs o := by
  have ht := (build_cov_perm es gs o h).mem_iff.1 ht
  rcases List.mem_append.1 ht with h1 | h1
  · obtain ⟨x, hx, rfl⟩ := List.mem_map.1 h1
    obtain ⟨hxm, hxo⟩ := List.mem_filter.1 hx
    obtain ⟨hxe, hxl⟩ := em_mem h x hxm
    refine List.mem_append.2 (Or.inl (List.mem_map.2 ⟨x, List.mem_filter.2 ⟨hxe, ?_⟩, rfl⟩))
    simp at hxo; simp [hxl, hxo]
  · simp only [cov, List.mem_map, List.mem_filter] at h1
    obtain ⟨x, ⟨hxm, hxc⟩, rfl⟩ := h1
    simp [contains] at hxc
    obtain ⟨g, hgm, g1, g2, g3⟩ := mg_sound h x hxm o hxc.1 hxc.2
    refine List.mem_append.2 (Or.inr ?_)
    simp only [cov, List.mem_map, List.mem_filter]
    exact ⟨g, ⟨hgm, by simp [contains, g1, g2]⟩, g3⟩

theorem build_cov_complete (es : List Entry) (gs : List Range) (o : Int) (h : WfInput es gs)
    (hin : covIn es gs o ≠ []) : cov (buildAckRanges es gs).1 o ≠ [] := by
  have hp := build_cov_perm es gs o h
  obtain ⟨t, ht⟩ := List.exists_mem_of_ne_nil _ hin
  rcases List.mem_append.1 ht with h1 | h1
  · obtain ⟨e, he, rfl⟩ := List.mem_map.1 h1
    obtain ⟨hem, hc⟩ := List.mem_filter.1 he
    simp at hc
    obtain ⟨x, hx, hxo⟩ := em_complete h e hem hc.1
    have : x.status ∈ ((em es).filter (fun e => e.offset == o)).map (·.status) :=
      List.mem_map.2 ⟨x, List.mem_filter.2 ⟨hx, by simp; omega⟩, rfl⟩
    exact List.ne_nil_of_mem (hp.mem_iff.2 (List.mem_append.2 (Or.inl this)))
  · simp only [cov, List.mem_map, List.mem_filter] at h1
    obtain ⟨g, ⟨hgm, hgc⟩, _⟩ := h1
    simp [contains] at hgc
    obtain ⟨x, hxm, x1, x2⟩ := mg_complete h g hgm o hgc.1 hgc.2
    have : x.ty ∈ cov (mg gs) o := by
      simp only [cov, List.mem_map, List.mem_filter]
      exact ⟨x, ⟨hxm, by simp [contains, x1, x2]⟩, rfl⟩
    exact List.ne_nil_of_mem (hp.mem_iff.2 (List.mem_append.2 (Or.inr this)))

/-- the type of a merged range is the type of an input gap range -/
theorem mg_ty {es : List Entry} {gs : List Range} (h : WfInput es gs) (x : Range) (hx : x ∈ mg gs) :
    ∃ g ∈ gs, g.ty = x.ty := by
  have hw := (mg_ascList h).2 x hx
  obtain ⟨g, hg, _, _, c⟩ := mg_sound h x hx x.first (by omega) hw
  exact ⟨g, hg, c⟩

/-! #### ordering of the interleaved list -/

theorem notBelow_sublist (gs : List Range) (off : Int) : (notBelow gs off).Sublist gs := by
  induction gs with
  | nil => simp [notBelow]
  | cons g gs ih =>
    simp only [notBelow]
    split
    · exact ih.cons _
    · exact List.Sublist.refl _

theorem below_sublist (gs : List Range) (off : Int) : (below gs off).Sublist gs := by
  induction gs with
  | nil => simp [below]
  | cons g gs ih =>
    simp only [below]
    split
    · exact ih.cons₂ _
    · exact List.nil_sublist _

theorem interleave_mem (em : List Entry) (gs : List Range) (x : Range) :
    x ∈ interleave em gs ↔ (∃ e ∈ em, x = single e) ∨ x ∈ gs := by
  rw [(interleave_perm em gs).mem_iff, List.mem_append, List.mem_map]
  constructor
  · rintro (⟨e, he, rfl⟩ | h)
    · exact Or.inl ⟨e, he, rfl⟩
    · exact Or.inr h
  · rintro (⟨e, he, rfl⟩ | h)
    · exact Or.inl ⟨e, he, rfl⟩
    · exact Or.inr h

/-- The interleaved list is ascending and non-overlapping when the emitted offsets are strictly increasing,
the gap ranges are ascending and no emitted offset lies in a gap range. -/
theorem interleave_ascList (em : List Entry) (gs : List Range)
    (hem : em.Pairwise (fun a b => a.offset < b.offset)) (hgs : AscList gs)
    (hap : ∀ e ∈ em, ∀ g ∈ gs, ¬ (g.first ≤ e.offset ∧ e.offset ≤ g.last)) : AscList (interleave em gs) := by
  induction em generalizing gs with
  | nil => simpa [interleave] using hgs
  | cons e em ih =>
    obtain ⟨he1, he2⟩ := List.pairwise_cons.1 hem
    obtain ⟨hp, hw⟩ := hgs
    have hsorted : gs.Pairwise (fun a b => a.first ≤ b.first) := by
      have hw2 : gs.Pairwise (fun a b => a.first ≤ a.last) := by
        rw [List.pairwise_iff_forall_sublist]
        intro a b hab
        exact hw a (hab.subset (by simp))
      exact (hp.and hw2).imp (fun {a b} h => by omega)
    have hnb_sub := notBelow_sublist gs e.offset
    have hb_sub := below_sublist gs e.offset
    have hrest : AscList (interleave em (notBelow gs e.offset)) :=
      ih _ he2 ⟨hp.sublist hnb_sub, fun x hx => hw x (hnb_sub.subset hx)⟩
        (fun e' he' g hg => hap e' (by simp [he']) g (hnb_sub.subset hg))
    -- every later element starts above e.offset
    have hafter : ∀ x ∈ interleave em (notBelow gs e.offset), e.offset < x.first := by
      intro x hx
      rcases (interleave_mem _ _ x).1 hx with ⟨e', he', rfl⟩ | hg
      · simpa [single] using he1 e' he'
      · have h1 := notBelow_ge gs e.offset hsorted x hg
        have h2 := hap e (by simp) x (hnb_sub.subset hg)
        have h3 := hw x (hnb_sub.subset hg)
        omega
    -- every gap emitted before ends below e.offset
    have hbefore : ∀ a ∈ below gs e.offset, a.last < e.offset := by
      intro a ha
      have h1 := below_lt gs e.offset a ha
      have h2 := hap e (by simp) a (hb_sub.subset ha)
      omega
    simp only [interleave]
    refine ⟨List.pairwise_append.2 ⟨hp.sublist hb_sub, List.pairwise_cons.2 ⟨?_, hrest.1⟩, ?_⟩, ?_⟩
    · intro x hx; simpa [single] using hafter x hx
    · intro a ha b hb
      have := hbefore a ha
      rcases List.mem_cons.1 hb with h | h
      · subst h; simpa [single] using this
      · have := hafter b h; omega
    · intro x hx
      rcases List.mem_append.1 hx with h | h
      · exact hw x (hb_sub.subset h)
      · rcases List.mem_cons.1 h with h' | h'
        · subst h'; simp [single]
        · exact hrest.2 x h'

/-! ### Part C — filterStaleEntries -/

theorem filterEntries_kept (self epoch : Int) (es : List Entry) :
    (filterEntries self epoch es).1 = es.filter (fun e => deliverable self epoch e.source e.epoch) := by
  induction es with
  | nil => rfl
  | cons e es ih =>
    simp only [filterEntries, List.filter_cons, deliverable]
    by_cases h1 : e.source = self <;> by_cases h2 : e.epoch > epoch
    · have : ¬ e.epoch ≤ epoch := by omega
      simp [h1, h2, this, ih, deliverable]
    · have : e.epoch ≤ epoch := by omega
      simp [h1, h2, this, ih, deliverable]
    · simp [h1, ih, deliverable]
    · simp [h1, ih, deliverable]

theorem filterEntries_counts (self epoch : Int) (es : List Entry) :
    (filterEntries self epoch es).2.1 = (filterEntries self epoch es).1.length ∧
    (filterEntries self epoch es).2.1 + (filterEntries self epoch es).2.2.1 = es.length := by
  induction es with
  | nil => simp [filterEntries]
  | cons e es ih =>
    simp only [filterEntries]
    split
    · simp; omega
    · split
      · simp; omega
      · simp; omega

theorem filterEntries_err (self epoch : Int) (es : List Entry) :
    (filterEntries self epoch es).2.2.2 = firstDropErr self epoch es := by
  induction es with
  | nil => rfl
  | cons e es ih =>
    simp only [firstDropErr] at ih ⊢
    simp only [filterEntries, List.find?_cons, deliverable]
    by_cases h1 : e.source = self <;> by_cases h2 : e.epoch > epoch
    · have : ¬ e.epoch ≤ epoch := by omega
      simp [h1, h2, this]
    · have : e.epoch ≤ epoch := by omega
      simp [h1, h2, this, ih, deliverable]
    · have hb : (e.source == self) = false := by simp [h1]
      simp [hb, h1]
    · have hb : (e.source == self) = false := by simp [h1]
      simp [hb, h1]

theorem filterGaps_eq (self epoch : Int) (gs : List Range) :
    filterGaps self epoch gs = gs.filter (fun g => deliverable self epoch g.source g.epoch) := by
  induction gs with
  | nil => rfl
  | cons g gs ih =>
    simp only [filterGaps, List.filter_cons, deliverable]
    by_cases h1 : g.source = self <;> by_cases h2 : g.epoch > epoch
    · have : ¬ g.epoch ≤ epoch := by omega
      simp [h1, h2, this, ih, deliverable]
    · have : g.epoch ≤ epoch := by omega
      simp [h1, h2, this, ih, deliverable]
    · simp [h1, ih, deliverable]
    · simp [h1, ih, deliverable]


/-! ### runs, and the observable call results -/

theorem reachable_of_run {s s' : TSt} {as : List Act} (hs : Reachable s) (h : runActs s as = some s') : Reachable s' := by
  induction as generalizing s with
  | nil => simp [runActs] at h; subst h; exact hs
  | cons a as ih =>
    simp only [runActs] at h
    cases hst : tstep s a with
    | none => simp [hst] at h
    | some s1 => simp only [hst] at h; exact ih (Reachable.step a hs hst) h

theorem wins_length (l : List Thread) :
    ((returnedOf l).filter (fun c => c.2 && isTerminal c.1)).length = l.countP isTermWinner := by
  induction l with
  | nil => rfl
  | cons t l ih =>
    simp only [returnedOf] at ih ⊢
    cases hpc : t.pc with
    | start => simp [List.filterMap_cons, hpc, isTermWinner, List.countP_cons, ih]
    | loaded c => simp [List.filterMap_cons, hpc, isTermWinner, List.countP_cons, ih]
    | done ok =>
      cases ok <;> by_cases ht : isTerminal t.status = true <;>
        simp [List.filterMap_cons, hpc, isTermWinner, List.countP_cons, List.filter_cons, ih, ht]

theorem wins_mem (l : List Thread) (w : Int × Bool)
    (hw : w ∈ (returnedOf l).filter (fun c => c.2 && isTerminal c.1)) :
    ∃ t ∈ l, isTermWinner t = true ∧ t.status = w.1 := by
  obtain ⟨hm, hc⟩ := List.mem_filter.1 hw
  simp only [returnedOf] at hm
  obtain ⟨t, ht, hf⟩ := List.mem_filterMap.1 hm
  refine ⟨t, ht, ?_⟩
  cases hpc : t.pc with
  | start => simp [hpc] at hf
  | loaded c => simp [hpc] at hf
  | done ok =>
    simp only [hpc, Option.some.injEq] at hf
    subst hf
    simp only [Bool.and_eq_true] at hc
    simp [isTermWinner, hpc, hc.1, hc.2]

end Proof.C12
