import FranzVerif.Model.C30
namespace Proof.C30
open Model.C30

/-- representation invariant of the ring -/
def WF (r : Ring) : Prop :=
  (r.elems.length = 0 ∧ r.l = 0 ∧ r.head = 0) ∨ (8 ≤ r.elems.length ∧ r.head < r.elems.length ∧ r.l ≤ r.elems.length)

theorem abs_length (r : Ring) (h : r.l ≤ r.elems.length) : r.abs.length = r.l := by
  simp [Ring.abs]; omega

theorem abs_get (r : Ring) (hh : r.head ≤ r.elems.length) (hl : r.l ≤ r.elems.length) (i : Nat) :
    r.abs[i]? = if i < r.l then (if r.head + i < r.elems.length then r.elems[r.head + i]? else r.elems[r.head + i - r.elems.length]?) else none := by
  simp only [Ring.abs, List.getElem?_take, List.getElem?_append, List.getElem?_drop, List.length_drop]
  split
  · split
    · have h1 : r.head + i < r.elems.length := by omega
      simp [h1]
    · have h1 : ¬ r.head + i < r.elems.length := by omega
      have h2 : i - (r.elems.length - r.head) < r.head := by omega
      have h3 : i - (r.elems.length - r.head) = r.head + i - r.elems.length := by omega
      rw [if_pos h2, if_neg h1, h3]
  · rfl

theorem slice_ok (s : List Nat) (a b : Nat) (h1 : a ≤ b) (h2 : b ≤ s.length) :
    slice s a b = .ok ((s.drop a).take (b - a)) := by
  simp [slice, h1, h2]

theorem goCopy_fit (c : Nat) (src : List Nat) (h : src.length ≤ c) :
    goCopy (List.replicate c 0) src = (src ++ List.replicate (c - src.length) 0, src.length) := by
  simp only [goCopy, List.length_replicate, Nat.min_eq_right h, List.take_length, List.drop_replicate]

theorem resize_spec (r : Ring) (c : Nat) (hwf : WF r) (hc : r.l ≤ c) :
    r.resize c = .ok { r with elems := r.abs ++ List.replicate (c - r.l) 0, head := 0 } := by
  unfold Ring.resize
  rcases hwf with ⟨h0, hl0, hh0⟩ | ⟨h8, hh, hl⟩
  · simp [hl0, Ring.abs, Except.map]
  · by_cases hlz : r.l = 0
    · simp [hlz, Ring.abs, Except.map]
    · have hlp : r.l > 0 := by omega
      simp only [hlp, if_true]
      by_cases hw : r.head + r.l ≤ r.elems.length
      · simp only [hw, if_true]
        rw [slice_ok _ _ _ (by omega) hw]
        have e1 : r.head + r.l - r.head = r.l := by omega
        have hlen : (List.take r.l (List.drop r.head r.elems)).length = r.l := by simp; omega
        simp only [e1, Except.map]
        rw [goCopy_fit c _ (by omega), hlen]
        have : r.abs = List.take r.l (List.drop r.head r.elems) := by
          unfold Ring.abs
          rw [List.take_append_of_le_length (by simp; omega)]
        rw [this]
      · simp only [hw, if_false]
        have s1 : slice r.elems r.head r.elems.length = .ok (r.elems.drop r.head) := by
          rw [slice_ok _ _ _ (by omega) (by omega)]; congr 1; exact List.take_of_length_le (by simp)
        have hn : (r.elems.drop r.head).length = r.elems.length - r.head := by simp
        rw [s1]
        simp only [Except.bind]
        rw [goCopy_fit c _ (by omega), hn]
        simp only []
        rw [if_neg (by omega)]
        have s2 : slice r.elems 0 (r.l - (r.elems.length - r.head)) = .ok (r.elems.take (r.l - (r.elems.length - r.head))) := by
          rw [slice_ok _ _ _ (by omega) (by omega)]; simp
        rw [s2]
        simp only []
        have hlen1 : (List.drop r.head r.elems ++ List.replicate (c - (r.elems.length - r.head)) 0).length = c := by
          simp; omega
        have s3 : slice (List.drop r.head r.elems ++ List.replicate (c - (r.elems.length - r.head)) 0) (r.elems.length - r.head)
            (List.drop r.head r.elems ++ List.replicate (c - (r.elems.length - r.head)) 0).length
            = .ok (List.replicate (c - (r.elems.length - r.head)) 0) := by
          rw [slice_ok _ _ _ (by omega) (by omega)]
          congr 1
          rw [List.drop_append_of_le_length (by simp)]
          have : List.drop (r.elems.length - r.head) (List.drop r.head r.elems) = [] := by
            apply List.drop_eq_nil_of_le; simp
          rw [this, hlen1]; simp
        rw [s3]
        simp only [Except.map]
        have hlen2 : (List.take (r.l - (r.elems.length - r.head)) r.elems).length = r.l - (r.elems.length - r.head) := by
          simp; omega
        rw [goCopy_fit _ _ (by omega), hlen2]
        simp only []
        have t1 : List.take (r.elems.length - r.head) (List.drop r.head r.elems ++ List.replicate (c - (r.elems.length - r.head)) 0)
            = List.drop r.head r.elems := by
          rw [List.take_append_of_le_length (by simp)]; exact List.take_of_length_le (by simp)
        rw [t1]
        have : r.abs = List.drop r.head r.elems ++ List.take (r.l - (r.elems.length - r.head)) r.elems := by
          unfold Ring.abs
          rw [List.take_append, hn, List.take_of_length_le (by simp; omega), List.take_take]
          congr 2; omega
        rw [this]
        have e5 : c - (r.elems.length - r.head) - (r.l - (r.elems.length - r.head)) = c - r.l := by omega
        simp [e5]


theorem wrap_eq (a c : Nat) (h : a < 2 * c) : a % c = if a < c then a else a - c := by
  split
  · exact Nat.mod_eq_of_lt (by assumption)
  · rw [Nat.mod_eq_sub_mod (by omega)]; exact Nat.mod_eq_of_lt (by omega)

/-- writing at the tail position appends to the abstract queue -/
theorem push_abs (r : Ring) (e : Nat) (hh : r.head < r.elems.length) (hl : r.l < r.elems.length) :
    ({ r with elems := r.elems.set ((r.head + r.l) % r.elems.length) e, l := r.l + 1 } : Ring).abs = r.abs ++ [e] := by
  apply List.ext_getElem?
  intro i
  rw [abs_get _ (by simp; omega) (by simp; omega)]
  rw [List.getElem?_append, abs_length r (by omega), abs_get r (by omega) (by omega)]
  rw [wrap_eq _ _ (by omega)]
  simp only [List.length_set, List.getElem?_set]
  by_cases h1 : i < r.l
  · have : i < r.l + 1 := by omega
    simp only [h1, this, if_true]
    by_cases hw : r.head + r.l < r.elems.length <;> by_cases hi : r.head + i < r.elems.length <;>
      simp only [hw, hi, if_true, if_false] <;> split <;> first | rfl | (exfalso; omega)
  · by_cases h2 : i = r.l
    · subst h2
      simp only [Nat.lt_irrefl, if_false, Nat.sub_self, Nat.lt_add_one, if_true]
      by_cases hw : r.head + r.l < r.elems.length
      · simp [hw]
      · have : r.head + r.l - r.elems.length < r.elems.length := by omega
        simp [hw, this]
    · have : ¬ i < r.l + 1 := by omega
      simp [h1, this]; omega

/-- clearing the head slot and advancing head drops the first element of the abstract queue -/
theorem drop_abs (r : Ring) (hh : r.head < r.elems.length) (hl : r.l ≤ r.elems.length) (hp : 0 < r.l) :
    ({ r with elems := r.elems.set r.head 0, head := (r.head + 1) % r.elems.length, l := r.l - 1 } : Ring).abs = r.abs.tail := by
  apply List.ext_getElem?
  intro i
  have hm : (r.head + 1) % r.elems.length < r.elems.length := Nat.mod_lt _ (by omega)
  rw [abs_get _ (by simp; omega) (by simp; omega)]
  rw [List.getElem?_tail, abs_get r (by omega) (by omega)]
  rw [wrap_eq _ _ (by omega)]
  simp only [List.length_set, List.getElem?_set]
  by_cases h1 : i < r.l - 1
  · have : i + 1 < r.l := by omega
    simp only [h1, this, if_true]
    by_cases hw : r.head + 1 < r.elems.length
    · simp only [hw, if_true]
      by_cases hi : r.head + 1 + i < r.elems.length
      · have : r.head + (i + 1) < r.elems.length := by omega
        simp only [hi, this, if_true]
        rw [if_neg (by omega)]
        congr 1; omega
      · have : ¬ r.head + (i + 1) < r.elems.length := by omega
        simp only [hi, this, if_false]
        rw [if_neg (by omega)]
        congr 1; omega
    · simp only [hw, if_false]
      have e0 : r.head + 1 - r.elems.length = 0 := by omega
      have : ¬ r.head + (i + 1) < r.elems.length := by omega
      have h3 : 0 + i < r.elems.length := by omega
      simp only [e0, this, if_false, h3, if_true]
      rw [if_neg (by omega)]
      congr 1; omega
  · have : ¬ i + 1 < r.l := by omega
    simp [h1, this]

/-- fields of the ring other than the buffer are the same -/
def sameCtl (r r' : Ring) : Prop :=
  r'.maxLen = r.maxLen ∧ r'.hasCond = r.hasCond ∧ r'.dead = r.dead ∧ r'.parked = r.parked ∧ r'.woken = r.woken

theorem resize_wf (r : Ring) (c : Nat) (hwf : WF r) (hc : r.l ≤ c) (h8 : 8 ≤ c) (_hlt : r.l < c ∨ True) :
    ∃ r', r.resize c = .ok r' ∧ WF r' ∧ r'.abs = r.abs ∧ r'.l = r.l ∧ r'.elems.length = c ∧ r'.head = 0 ∧ sameCtl r r' := by
  refine ⟨_, resize_spec r c hwf hc, ?_, ?_, rfl, ?_, rfl, ⟨rfl, rfl, rfl, rfl, rfl⟩⟩
  · have hlen : r.l ≤ r.elems.length := by rcases hwf with ⟨_, h, _⟩ | ⟨_, _, h⟩ <;> omega
    right; simp [abs_length r hlen]; omega
  · have hlen : r.l ≤ r.elems.length := by rcases hwf with ⟨_, h, _⟩ | ⟨_, _, h⟩ <;> omega
    have hal := abs_length r hlen
    generalize r.abs = q at hal ⊢
    simp only [Ring.abs, List.drop_zero, List.take_zero, List.append_nil]
    rw [List.take_append_of_le_length (by omega)]
    exact List.take_of_length_le (by omega)
  · have hlen : r.l ≤ r.elems.length := by rcases hwf with ⟨_, h, _⟩ | ⟨_, _, h⟩ <;> omega
    simp [abs_length r hlen]; omega

/-- `doPush` past the wait loop on a live ring: never panics, appends, reports `first` iff the queue was empty -/
theorem pushTail_spec (r : Ring) (e : Nat) (hwf : WF r) (hd : r.dead = false) :
    ∃ r', r.pushTail e = .ok (r', r.l == 0, false) ∧ WF r' ∧ r'.abs = r.abs ++ [e] ∧ r'.l = r.l + 1 ∧ sameCtl r r' := by
  unfold Ring.pushTail
  simp only [hd, Bool.false_eq_true, if_false]
  by_cases hfull : r.l = r.elems.length
  · simp only [hfull, if_true]
    obtain ⟨r1, h1, hwf1, habs1, hl1, hlen1, hh1, hc1⟩ :=
      resize_wf r (max (r.elems.length * 2) minRingCap) hwf (by omega) (by simp [minRingCap]; omega) (Or.inr trivial)
    rw [← hfull] at h1 ⊢
    rw [h1]
    simp only [Except.bind]
    have hlt : r1.l < r1.elems.length := by rw [hlen1, hl1]; simp [minRingCap]; omega
    have hne : ¬ r1.elems.length = 0 := by omega
    have hm : (r1.head + r1.l) % r1.elems.length < r1.elems.length := Nat.mod_lt _ (by omega)
    simp only [hne, if_false, hm, if_true]
    refine ⟨{ r1 with elems := r1.elems.set ((r1.head + r1.l) % r1.elems.length) e, l := r1.l + 1 }, ?_, ?_, ?_, ?_, ?_⟩
    · congr 2; simp [hl1]
    · right; simp [minRingCap] at *; omega
    · rw [push_abs r1 e (by omega) hlt, habs1]
    · simp [hl1]
    · exact hc1
  · simp only [hfull, if_false, Except.bind]
    have ⟨h8, hh, hl⟩ : 8 ≤ r.elems.length ∧ r.head < r.elems.length ∧ r.l ≤ r.elems.length := by
      rcases hwf with ⟨h0, hl0, _⟩ | h
      · omega
      · exact h
    have hne : ¬ r.elems.length = 0 := by omega
    have hm : (r.head + r.l) % r.elems.length < r.elems.length := Nat.mod_lt _ (by omega)
    simp only [hne, if_false, hm, if_true]
    refine ⟨{ r with elems := r.elems.set ((r.head + r.l) % r.elems.length) e, l := r.l + 1 }, ?_, ?_, ?_, rfl, ⟨rfl, rfl, rfl, rfl, rfl⟩⟩
    · congr 2; simp
    · right; simp; omega
    · exact push_abs r e hh (by omega)

/-- the cond-variable effect of `dropPeek` -/
def afterSignal (r : Ring) (k : Nat) : Ring := if r.hasCond then r.signal k else r

theorem signal_buf (r : Ring) (k : Nat) :
    (r.signal k).elems = r.elems ∧ (r.signal k).head = r.head ∧ (r.signal k).l = r.l ∧
    (r.signal k).maxLen = r.maxLen ∧ (r.signal k).hasCond = r.hasCond ∧ (r.signal k).dead = r.dead := by
  unfold Ring.signal; split <;> simp

theorem afterSignal_buf (r : Ring) (k : Nat) :
    (afterSignal r k).elems = r.elems ∧ (afterSignal r k).head = r.head ∧ (afterSignal r k).l = r.l ∧
    (afterSignal r k).maxLen = r.maxLen ∧ (afterSignal r k).hasCond = r.hasCond ∧ (afterSignal r k).dead = r.dead := by
  unfold afterSignal; split
  · exact signal_buf r k
  · simp

theorem abs_congr (r r' : Ring) (h1 : r'.elems = r.elems) (h2 : r'.head = r.head) (h3 : r'.l = r.l) : r'.abs = r.abs := by
  simp [Ring.abs, h1, h2, h3]

theorem head_read (r : Ring) (hh : r.head < r.elems.length) (hl : r.l ≤ r.elems.length) (hp : 0 < r.l) :
    r.elems[r.head]? = some (r.abs.headD 0) := by
  have h := abs_get r (by omega) hl 0
  simp only [hp, if_true, Nat.add_zero, hh] at h
  rw [← h]
  cases hq : r.abs with
  | nil => have := abs_length r hl; rw [hq] at this; simp at this; omega
  | cons a t => simp

/-- `dropPeek` on a non-empty ring: never panics, drops the head, returns the new head and `more` iff non-empty -/
theorem dropPeek_spec (r : Ring) (k : Nat) (hwf : WF r) (hp : 0 < r.l) :
    ∃ r', r.dropPeek k = .ok (r', r'.abs.headD 0, decide (0 < r'.l), r.dead) ∧ WF r' ∧ r'.abs = r.abs.tail ∧
      r'.l = r.l - 1 ∧ r'.maxLen = r.maxLen ∧ r'.hasCond = r.hasCond ∧ r'.dead = r.dead ∧
      r'.parked = (afterSignal r k).parked ∧ r'.woken = (afterSignal r k).woken := by
  have ⟨h8, hh, hl⟩ : 8 ≤ r.elems.length ∧ r.head < r.elems.length ∧ r.l ≤ r.elems.length := by
    rcases hwf with ⟨h0, hl0, _⟩ | h
    · omega
    · exact h
  have hm : (r.head + 1) % r.elems.length < r.elems.length := Nat.mod_lt _ (by omega)
  -- the ring after the in-place update and the Signal
  let r1 : Ring := { r with elems := r.elems.set r.head 0, head := (r.head + 1) % r.elems.length, l := r.l - 1 }
  let r2 : Ring := if r1.hasCond then r1.signal k else r1
  have hr2 : r2.elems = r1.elems ∧ r2.head = r1.head ∧ r2.l = r1.l ∧ r2.maxLen = r1.maxLen ∧ r2.hasCond = r1.hasCond ∧ r2.dead = r1.dead :=
    afterSignal_buf r1 k
  have hr2p : r2.parked = (afterSignal r k).parked ∧ r2.woken = (afterSignal r k).woken := by
    show (if r1.hasCond then r1.signal k else r1).parked = _ ∧ (if r1.hasCond then r1.signal k else r1).woken = _
    unfold afterSignal
    have : r1.hasCond = r.hasCond := rfl
    rw [this]
    cases r.hasCond <;> simp [r1, Ring.signal] <;> split <;> simp
  have habs1 : r1.abs = r.abs.tail := drop_abs r hh hl hp
  have habs2 : r2.abs = r.abs.tail := by rw [← habs1]; exact abs_congr r1 r2 hr2.1 hr2.2.1 hr2.2.2.1
  have hwf2 : WF r2 := by
    right; rw [hr2.1, hr2.2.1, hr2.2.2.1]; simp [r1]; omega
  have hunf : r.dropPeek k = ((if r2.l ≤ minRingCap / 2 ∧ r2.elems.length > minRingCap then r2.resize minRingCap else .ok r2).bind fun r =>
      if r.l > 0 then
        match r.elems[r.head]? with
        | some x => .ok (r, x, true, r.dead)
        | none => .error "index-out-of-range"
      else .ok (r, 0, false, r.dead)) := by
    unfold Ring.dropPeek
    rw [if_neg (by omega), if_neg (by omega)]
    rfl
  rw [hunf]
  -- the ring after the optional shrink
  have hex : ∃ r3, (if r2.l ≤ minRingCap / 2 ∧ r2.elems.length > minRingCap then r2.resize minRingCap else .ok r2) = .ok r3 ∧
      WF r3 ∧ r3.abs = r2.abs ∧ r3.l = r2.l ∧ sameCtl r2 r3 := by
    split
    · rename_i hc
      obtain ⟨r3, h3, hwf3, ha3, hl3, _, _, hc3⟩ := resize_wf r2 minRingCap hwf2 (by simp [minRingCap] at hc ⊢; omega) (by simp [minRingCap]) (Or.inr trivial)
      exact ⟨r3, h3, hwf3, ha3, hl3, hc3⟩
    · exact ⟨r2, rfl, hwf2, rfl, rfl, ⟨rfl, rfl, rfl, rfl, rfl⟩⟩
  obtain ⟨r3, h3, hwf3, ha3, hl3, hm3, hc3, hd3, hp3, hw3⟩ := hex
  rw [h3]
  simp only [Except.bind]
  have hl3' : r3.l = r.l - 1 := by rw [hl3, hr2.2.2.1]
  have hd3' : r3.dead = r.dead := by rw [hd3, hr2.2.2.2.2.2]
  refine ⟨r3, ?_, hwf3, by rw [ha3, habs2], hl3', by rw [hm3, hr2.2.2.2.1], by rw [hc3, hr2.2.2.2.2.1], hd3',
    by rw [hp3, hr2p.1], by rw [hw3, hr2p.2]⟩
  by_cases hpos : r3.l > 0
  · have ⟨_, hh3, hll3⟩ : 8 ≤ r3.elems.length ∧ r3.head < r3.elems.length ∧ r3.l ≤ r3.elems.length := by
      rcases hwf3 with ⟨h0, hl0, _⟩ | h
      · omega
      · exact h
    simp only [hpos, if_true, head_read r3 hh3 hll3 hpos, hd3']
    simp
  · have hz : r3.l = 0 := by omega
    have : r3.abs = [] := by simp [Ring.abs, hz]
    simp [hpos, this, hd3']
end Proof.C30
