import FranzVerif.Model.Group
import FranzVerif.Proof.Group
/-! C08 half of the consumer-group monitor: the invariant `Inv h s` relating the state reached on an accepted
history `h` to the history-level observables (`processedUpTo`, `committedUpTo`, `producedOf`, `isIncomplete`,
membership of `returned` / `finalCommitted` events), and its preservation by every event. -/
namespace Proof.Group
open Model.Group

/-! ### maxima of lists -/

def lmax (l : List Nat) : Nat := l.foldl max 0

theorem foldl_max_init (l : List Nat) (a : Nat) : l.foldl max a = max a (lmax l) := by
  induction l generalizing a with
  | nil => simp [lmax]
  | cons x l ih =>
    simp only [lmax, List.foldl_cons]
    rw [ih (max a x), ih (max 0 x)]
    omega

theorem lmax_nil : lmax [] = 0 := rfl
theorem lmax_cons (x : Nat) (l : List Nat) : lmax (x :: l) = max x (lmax l) := by
  simp only [lmax, List.foldl_cons]
  rw [foldl_max_init]
  simp [lmax]
theorem lmax_append (a b : List Nat) : lmax (a ++ b) = max (lmax a) (lmax b) := by
  simp only [lmax, List.foldl_append]
  rw [foldl_max_init]
  rfl

/-- highest next-offset among the entries of `m` for partition `p` -/
def sel (m : Mem) (p : Nat) (l : List (Mem × Nat × Nat)) : Nat :=
  lmax ((l.filter (fun e => e.1 == m && e.2.1 == p)).map (·.2.2))

theorem eligibleOf_eq (s : St) (m : Mem) (p : Nat) : eligibleOf s m p = sel m p s.eligible := by
  simp only [eligibleOf, sel, lmax, List.foldl_map]

theorem band_false {a b m p : Nat} (h : ¬ (a = m ∧ b = p)) : (a == m && b == p) = false := by
  cases h1 : a == m <;> cases h2 : b == p <;> simp_all

theorem sel_nil (m : Mem) (p : Nat) : sel m p [] = 0 := rfl
theorem sel_cons (m : Mem) (p : Nat) (x : Mem × Nat × Nat) (l : List (Mem × Nat × Nat)) :
    sel m p (x :: l) = if x.1 = m ∧ x.2.1 = p then max x.2.2 (sel m p l) else sel m p l := by
  by_cases h : x.1 = m ∧ x.2.1 = p
  · simp only [sel, List.filter_cons, h, beq_self_eq_true, Bool.and_self, if_true, List.map_cons, lmax_cons, and_self]
  · have : (x.1 == m && x.2.1 == p) = false := band_false h
    simp only [sel, List.filter_cons, this, h, if_false, Bool.false_eq_true]
theorem sel_append (m : Mem) (p : Nat) (a b : List (Mem × Nat × Nat)) :
    sel m p (a ++ b) = max (sel m p a) (sel m p b) := by
  simp only [sel, List.filter_append, List.map_append, lmax_append]
theorem sel_filter_eq (m m' : Mem) (p : Nat) (l : List (Mem × Nat × Nat)) :
    sel m p (l.filter (·.1 == m')) = if m' = m then sel m p l else 0 := by
  induction l with
  | nil => simp [sel_nil]
  | cons x l ih =>
    by_cases h1 : x.1 = m'
    · simp only [List.filter_cons, h1, beq_self_eq_true, if_true, sel_cons, ih]
      by_cases h2 : m' = m
      · simp [h2]
      · simp [h2]
    · have : (x.1 == m') = false := by simpa using h1
      simp only [List.filter_cons, this, Bool.false_eq_true, if_false, sel_cons, ih]
      by_cases h2 : m' = m
      · subst h2; simp [h1]
      · simp [h2]
theorem sel_filter_ne (m m' : Mem) (p : Nat) (l : List (Mem × Nat × Nat)) :
    sel m p (l.filter (·.1 != m')) = if m' = m then 0 else sel m p l := by
  induction l with
  | nil => simp [sel_nil]
  | cons x l ih =>
    by_cases h1 : x.1 = m'
    · have : (x.1 != m') = false := by simp [h1]
      simp only [List.filter_cons, this, Bool.false_eq_true, if_false, sel_cons, ih]
      by_cases h2 : m' = m
      · simp [h2]
      · have : ¬ x.1 = m := fun h => h2 (h1 ▸ h)
        simp [h2, this]
    · have : (x.1 != m') = true := by simpa using h1
      simp only [List.filter_cons, this, if_true, sel_cons, ih]
      by_cases h2 : m' = m
      · subst h2; simp [h1]
      · simp [h2]

/-! ### observables on `h ++ [ev]` -/

/-- next offset after a record returned to `m` for `p` -/
def retEv (m : Mem) (p : Nat) : Ev → Option Nat
  | .returned m' p' off _ => if m' = m ∧ p' = p then some (off + 1) else none
  | _ => none
/-- highest next-offset of partition `p` returned to `m` within `h` (followed by another poll or not) -/
def retMax (m : Mem) (p : Nat) (h : List Ev) : Nat := lmax (h.filterMap (retEv m p))
def commitEv (p : Nat) : Ev → Option Nat
  | .commit _ p' off true => if p' = p then some off else none
  | _ => none
def prodEv : Ev → Option (Id × Nat × Nat)
  | .produced i p o => some (i, p, o)
  | _ => none

theorem committedUpTo_eq (p : Nat) (h : List Ev) : committedUpTo p h = lmax (h.filterMap (commitEv p)) := by
  unfold committedUpTo lmax
  congr 2
theorem producedOf_eq (h : List Ev) : producedOf h = h.filterMap prodEv := by
  unfold producedOf
  congr 1

theorem filterMap_snoc {α β : Type} (f : α → Option β) (h : List α) (e : α) :
    (h ++ [e]).filterMap f = h.filterMap f ++ (f e).toList := by
  simp only [List.filterMap_append]; cases hh : f e <;> simp [hh]

theorem lmax_toList (l : List Nat) (o : Option Nat) : lmax (l ++ o.toList) = max (lmax l) (o.getD 0) := by
  cases o <;> simp [lmax_append, lmax_cons, lmax_nil]

theorem retMax_snoc (m : Mem) (p : Nat) (h : List Ev) (ev : Ev) :
    retMax m p (h ++ [ev]) = max (retMax m p h) ((retEv m p ev).getD 0) := by
  simp only [retMax, filterMap_snoc, lmax_toList]
theorem committedUpTo_snoc (p : Nat) (h : List Ev) (ev : Ev) :
    committedUpTo p (h ++ [ev]) = max (committedUpTo p h) ((commitEv p ev).getD 0) := by
  simp only [committedUpTo_eq, filterMap_snoc, lmax_toList]
theorem producedOf_snoc (h : List Ev) (ev : Ev) : producedOf (h ++ [ev]) = producedOf h ++ (prodEv ev).toList := by
  simp only [producedOf_eq, filterMap_snoc]
theorem isIncomplete_snoc (h : List Ev) (ev : Ev) : isIncomplete (h ++ [ev]) = (isIncomplete h || ev == .incomplete) := by
  simp [isIncomplete]

theorem processedUpTo_cons (m : Mem) (p : Nat) (e : Ev) (rest : List Ev) :
    processedUpTo m p (e :: rest) =
      if rest.any (fun e => e == .pollStart m) then max ((retEv m p e).getD 0) (processedUpTo m p rest)
      else processedUpTo m p rest := by
  cases e with
  | returned m' p' off id =>
    simp only [processedUpTo, retEv]
    by_cases h1 : m' = m ∧ p' = p
    · obtain ⟨rfl, rfl⟩ := h1
      simp
    · have : (m' == m && p' == p) = false := band_false h1
      simp [this, h1]
  | _ => simp [processedUpTo, retEv]

theorem retMax_cons (m : Mem) (p : Nat) (e : Ev) (rest : List Ev) :
    retMax m p (e :: rest) = max ((retEv m p e).getD 0) (retMax m p rest) := by
  simp only [retMax, List.filterMap_cons]
  cases retEv m p e <;> simp [lmax_cons]

theorem processedUpTo_le_retMax (m : Mem) (p : Nat) (h : List Ev) : processedUpTo m p h ≤ retMax m p h := by
  induction h with
  | nil => simp [processedUpTo]
  | cons e rest ih =>
    rw [processedUpTo_cons, retMax_cons]
    split <;> omega

/-- a poll of `m` makes everything returned to `m` so far processed; any other event changes nothing -/
theorem processedUpTo_snoc (m : Mem) (p : Nat) (h : List Ev) (ev : Ev) :
    processedUpTo m p (h ++ [ev]) = if ev = .pollStart m then retMax m p h else processedUpTo m p h := by
  induction h with
  | nil =>
    rw [List.nil_append, processedUpTo_cons]
    simp [processedUpTo, retMax, lmax_nil]
  | cons e rest ih =>
    rw [List.cons_append, processedUpTo_cons, ih, processedUpTo_cons, retMax_cons]
    by_cases hev : ev = .pollStart m
    · simp [hev]
    · simp [hev]

/-! ### the committed map -/

theorem find_committed_ne (l : List (Nat × Nat)) (p q : Nat) (hne : q ≠ p) :
    (l.filter (·.1 != p)).find? (·.1 == q) = l.find? (·.1 == q) := by
  induction l with
  | nil => rfl
  | cons a l ih =>
    obtain ⟨a1, a2⟩ := a
    by_cases h1 : a1 = p
    · subst h1
      have : ¬ a1 = q := fun h => hne h.symm
      simpa [List.filter_cons, List.find?_cons, this] using ih
    · by_cases h2 : a1 = q
      · subst h2
        simp [h1]
      · simpa [List.filter_cons, h1, List.find?_cons, h2] using ih

theorem committedOf_commit (c : Cfg) (s : St) (m : Mem) (part off : Nat) (ok : Bool) (q : Nat) :
    committedOf (apply c s (.commit m part off ok)) q = max (committedOf s q) ((commitEv q (.commit m part off ok)).getD 0) := by
  simp only [apply]
  cases ok with
  | false => simp [commitEv]
  | true =>
    by_cases hq : part = q
    · subst hq
      by_cases hgt : off > committedOf s part
      · simp only [hgt, Bool.true_and, decide_true, if_true, commitEv]
        simp only [committedOf, List.find?_cons, beq_self_eq_true, Option.map_some, Option.getD_some] at hgt ⊢
        omega
      · simp only [hgt, Bool.true_and, decide_false, Bool.false_eq_true, if_false, commitEv, if_true, Option.getD_some]
        omega
    · have hq' : q ≠ part := fun h => hq h.symm
      simp only [commitEv, hq, if_false, Option.getD_none, Nat.max_zero]
      split
      · have : (part == q) = false := by simpa using hq
        simp only [committedOf, List.find?_cons, this]
        rw [find_committed_ne _ _ _ hq']
      · rfl

/-! ### the invariant -/

/-- highest next-offset among `m`'s records of `p` not yet followed by another poll -/
def pendOf (s : St) (m : Mem) (p : Nat) : Nat := sel m p s.pending

structure Inv (h : List Ev) (s : St) : Prop where
  prod : s.prod = (producedOf h).reverse
  ret : ∀ r, r ∈ s.ret ↔ Ev.returned r.1 r.2.1 r.2.2.1 r.2.2.2 ∈ h
  finals : ∀ f, f ∈ s.finals ↔ Ev.finalCommitted f.1 f.2 ∈ h
  incomplete : s.incomplete = isIncomplete h
  elig : ∀ m p, eligibleOf s m p = processedUpTo m p h
  pend : ∀ m p, max (eligibleOf s m p) (pendOf s m p) = retMax m p h
  comm : ∀ p, committedOf s p = committedUpTo p h

theorem Inv.init : Inv [] {} := by
  constructor <;> simp [producedOf, isIncomplete, eligibleOf, processedUpTo, pendOf, sel, lmax, retMax, committedOf, committedUpTo]

/-! #### one field at a time: an event that does not touch the field -/

section frame
variable {h : List Ev} {s s' : St} {ev : Ev}

theorem Inv.prod_frame (hi : Inv h s) (e : s'.prod = s.prod) (o : prodEv ev = none) :
    s'.prod = (producedOf (h ++ [ev])).reverse := by
  rw [producedOf_snoc, o, e, hi.prod]; simp
theorem Inv.ret_frame (hi : Inv h s) (e : s'.ret = s.ret) (o : ∀ m p o i, ev ≠ .returned m p o i) :
    ∀ r, r ∈ s'.ret ↔ Ev.returned r.1 r.2.1 r.2.2.1 r.2.2.2 ∈ h ++ [ev] := by
  intro r; rw [e, hi.ret r, List.mem_append, List.mem_singleton]
  exact ⟨Or.inl, fun h => h.elim id (fun h => absurd h.symm (o _ _ _ _))⟩
theorem Inv.finals_frame (hi : Inv h s) (e : s'.finals = s.finals) (o : ∀ p f, ev ≠ .finalCommitted p f) :
    ∀ f, f ∈ s'.finals ↔ Ev.finalCommitted f.1 f.2 ∈ h ++ [ev] := by
  intro f; rw [e, hi.finals f, List.mem_append, List.mem_singleton]
  exact ⟨Or.inl, fun h => h.elim id (fun h => absurd h.symm (o _ _))⟩
theorem Inv.incomplete_frame (hi : Inv h s) (e : s'.incomplete = s.incomplete) (o : ev ≠ .incomplete) :
    s'.incomplete = isIncomplete (h ++ [ev]) := by
  rw [isIncomplete_snoc, e, hi.incomplete]; simp [o]
theorem Inv.elig_frame (hi : Inv h s) (e : s'.eligible = s.eligible) (o : ∀ m, ev ≠ .pollStart m) :
    ∀ m p, eligibleOf s' m p = processedUpTo m p (h ++ [ev]) := by
  intro m p; rw [processedUpTo_snoc, if_neg (o m), ← hi.elig m p]; simp only [eligibleOf, e]
theorem Inv.pend_frame (hi : Inv h s) (e : s'.eligible = s.eligible) (e' : s'.pending = s.pending)
    (o : ∀ m p, retEv m p ev = none) : ∀ m p, max (eligibleOf s' m p) (pendOf s' m p) = retMax m p (h ++ [ev]) := by
  intro m p; rw [retMax_snoc, o, ← hi.pend m p]; simp only [eligibleOf, pendOf, e, e', Option.getD_none, Nat.max_zero]
theorem Inv.comm_frame (hi : Inv h s) (e : s'.committed = s.committed) (o : ∀ p, commitEv p ev = none) :
    ∀ p, committedOf s' p = committedUpTo p (h ++ [ev]) := by
  intro p; rw [committedUpTo_snoc, o, ← hi.comm p]; simp only [committedOf, e, Option.getD_none, Nat.max_zero]

end frame

theorem mem_snoc_cons {α : Type} (x a : α) (l l' : List α) (hl : ∀ y, y ∈ l ↔ y ∈ l') :
    x ∈ a :: l ↔ x ∈ l' ++ [a] := by
  rw [List.mem_cons, List.mem_append, List.mem_singleton, hl]
  exact ⟨fun h => h.elim Or.inr Or.inl, fun h => h.elim Or.inr Or.inl⟩

theorem Inv.step {c : Cfg} {h : List Ev} {s : St} (hi : Inv h s) (ev : Ev) : Inv (h ++ [ev]) (apply c s ev) := by
  cases ev with
  | produced id part off =>
    refine ⟨?_, hi.ret_frame rfl (by simp), hi.finals_frame rfl (by simp), hi.incomplete_frame rfl (by simp),
      hi.elig_frame rfl (by simp), hi.pend_frame rfl rfl (fun _ _ => rfl), hi.comm_frame rfl (fun _ => rfl)⟩
    simp [producedOf_snoc, prodEv, Model.Group.apply, hi.prod]
  | returned m part off id =>
    refine ⟨hi.prod_frame rfl rfl, ?_, hi.finals_frame rfl (by simp), hi.incomplete_frame rfl (by simp),
      hi.elig_frame rfl (by simp), ?_, hi.comm_frame rfl (fun _ => rfl)⟩
    · intro r
      simp only [Model.Group.apply]
      rw [List.mem_cons, List.mem_append, List.mem_singleton, hi.ret r]
      obtain ⟨r1, r2, r3, r4⟩ := r
      simp only [Prod.mk.injEq, Ev.returned.injEq]
      exact ⟨fun h => h.elim Or.inr Or.inl, fun h => h.elim Or.inr Or.inl⟩
    · intro m' p
      have h6 := hi.pend m' p
      simp only [eligibleOf_eq, pendOf] at h6
      simp only [eligibleOf_eq, pendOf, Model.Group.apply, retMax_snoc, retEv, sel_cons]
      rw [← h6]
      by_cases hm : m = m' ∧ part = p
      · simp only [hm, and_self, if_true, Option.getD_some]; omega
      · simp only [hm, if_false, Option.getD_none]; omega
  | pollStart m =>
    refine ⟨hi.prod_frame rfl rfl, hi.ret_frame rfl (by simp), hi.finals_frame rfl (by simp),
      hi.incomplete_frame rfl (by simp), ?_, ?_, hi.comm_frame rfl (fun _ => rfl)⟩
    · intro m' p
      have h5 := hi.elig m' p
      have h6 := hi.pend m' p
      simp only [eligibleOf_eq, pendOf] at h5 h6
      simp only [eligibleOf_eq, Model.Group.apply, processedUpTo_snoc, sel_append, sel_filter_eq]
      by_cases hm : m = m'
      · subst hm
        simp only [if_true]
        rw [← h6]; omega
      · have : ¬ Ev.pollStart m = Ev.pollStart m' := by simpa using hm
        simp only [hm, this, if_false]
        rw [← h5]; omega
    · intro m' p
      have h6 := hi.pend m' p
      simp only [eligibleOf_eq, pendOf] at h6
      simp only [eligibleOf_eq, pendOf, Model.Group.apply, retMax_snoc, retEv, sel_append, sel_filter_eq, sel_filter_ne,
        Option.getD_none]
      by_cases hm : m = m'
      · subst hm
        simp only [if_true]
        rw [← h6]; omega
      · simp only [hm, if_false]
        rw [← h6]; omega
  | commit m part off ok =>
    have e1 : (apply c s (.commit m part off ok)).prod = s.prod := by simp only [Model.Group.apply]; split <;> rfl
    have e2 : (apply c s (.commit m part off ok)).ret = s.ret := by simp only [Model.Group.apply]; split <;> rfl
    have e3 : (apply c s (.commit m part off ok)).finals = s.finals := by simp only [Model.Group.apply]; split <;> rfl
    have e4 : (apply c s (.commit m part off ok)).incomplete = s.incomplete := by simp only [Model.Group.apply]; split <;> rfl
    have e5 : (apply c s (.commit m part off ok)).eligible = s.eligible := by simp only [Model.Group.apply]; split <;> rfl
    have e6 : (apply c s (.commit m part off ok)).pending = s.pending := by simp only [Model.Group.apply]; split <;> rfl
    refine ⟨hi.prod_frame e1 rfl, hi.ret_frame e2 (by simp), hi.finals_frame e3 (by simp),
      hi.incomplete_frame e4 (by simp), hi.elig_frame e5 (by simp), hi.pend_frame e5 e6 (fun _ _ => rfl), ?_⟩
    intro p; rw [committedOf_commit, committedUpTo_snoc, hi.comm]
  | finalCommitted part off =>
    refine ⟨hi.prod_frame rfl rfl, hi.ret_frame rfl (by simp), ?_, hi.incomplete_frame rfl (by simp),
      hi.elig_frame rfl (by simp), hi.pend_frame rfl rfl (fun _ _ => rfl), hi.comm_frame rfl (fun _ => rfl)⟩
    intro f
    simp only [Model.Group.apply]
    rw [List.mem_cons, List.mem_append, List.mem_singleton, hi.finals f]
    obtain ⟨f1, f2⟩ := f
    simp only [Prod.mk.injEq, Ev.finalCommitted.injEq]
    exact ⟨fun h => h.elim Or.inr Or.inl, fun h => h.elim Or.inr Or.inl⟩
  | incomplete =>
    refine ⟨hi.prod_frame rfl rfl, hi.ret_frame rfl (by simp), hi.finals_frame rfl (by simp), ?_,
      hi.elig_frame rfl (by simp), hi.pend_frame rfl rfl (fun _ _ => rfl), hi.comm_frame rfl (fun _ => rfl)⟩
    simp [isIncomplete_snoc, Model.Group.apply]
  | join m | leaveStart m | leaveDone m | assignEnd m | pollEnd m | stable live | quiesce | assignStart m ps
  | revokeStart m ps | lostStart m ps =>
    exact ⟨hi.prod_frame rfl rfl, hi.ret_frame rfl (by simp), hi.finals_frame rfl (by simp),
      hi.incomplete_frame rfl (by simp), hi.elig_frame rfl (by simp), hi.pend_frame rfl rfl (fun _ _ => rfl),
      hi.comm_frame rfl (fun _ => rfl)⟩
  | revokeEnd m =>
    have e : ∀ (f : St → Prop), f s → (∀ o r, f { s with owner := o, revoking := r }) → f (apply c s (.revokeEnd m)) := by
      intro f h1 h2; simp only [Model.Group.apply]; split
      · exact h2 _ _
      · exact h1
    exact ⟨hi.prod_frame (e (·.prod = s.prod) rfl (fun _ _ => rfl)) rfl,
      hi.ret_frame (e (·.ret = s.ret) rfl (fun _ _ => rfl)) (by simp),
      hi.finals_frame (e (·.finals = s.finals) rfl (fun _ _ => rfl)) (by simp),
      hi.incomplete_frame (e (·.incomplete = s.incomplete) rfl (fun _ _ => rfl)) (by simp),
      hi.elig_frame (e (·.eligible = s.eligible) rfl (fun _ _ => rfl)) (by simp),
      hi.pend_frame (e (·.eligible = s.eligible) rfl (fun _ _ => rfl)) (e (·.pending = s.pending) rfl (fun _ _ => rfl)) (fun _ _ => rfl),
      hi.comm_frame (e (·.committed = s.committed) rfl (fun _ _ => rfl)) (fun _ => rfl)⟩
  | lostEnd m =>
    have e : ∀ (f : St → Prop), f s → (∀ o r, f { s with owner := o, revoking := r }) → f (apply c s (.lostEnd m)) := by
      intro f h1 h2; simp only [Model.Group.apply]; split
      · exact h2 _ _
      · exact h1
    exact ⟨hi.prod_frame (e (·.prod = s.prod) rfl (fun _ _ => rfl)) rfl,
      hi.ret_frame (e (·.ret = s.ret) rfl (fun _ _ => rfl)) (by simp),
      hi.finals_frame (e (·.finals = s.finals) rfl (fun _ _ => rfl)) (by simp),
      hi.incomplete_frame (e (·.incomplete = s.incomplete) rfl (fun _ _ => rfl)) (by simp),
      hi.elig_frame (e (·.eligible = s.eligible) rfl (fun _ _ => rfl)) (by simp),
      hi.pend_frame (e (·.eligible = s.eligible) rfl (fun _ _ => rfl)) (e (·.pending = s.pending) rfl (fun _ _ => rfl)) (fun _ _ => rfl),
      hi.comm_frame (e (·.committed = s.committed) rfl (fun _ _ => rfl)) (fun _ => rfl)⟩

theorem Inv.run {c : Cfg} {h₁ : List Ev} {s s' : St} (hi : Inv h₁ s) (h₂ : List Ev)
    (hr : Model.Group.run c s h₂ = some s') : Inv (h₁ ++ h₂) s' := by
  induction h₂ generalizing h₁ s with
  | nil => simp [Model.Group.run] at hr; subst hr; simpa using hi
  | cons e es ih =>
    obtain ⟨_, hr'⟩ := run_cons hr
    have := ih (hi.step (c := c) e) hr'
    simpa using this

theorem inv_of_run {c : Cfg} {h : List Ev} {s : St} (hr : run c {} h = some s) : Inv h s := by
  simpa using Inv.init.run h hr

/-! ### what an accepted event tells -/

theorem commit_check {c : Cfg} {s : St} {m : Mem} {p off : Nat} (h : check c s (.commit m p off true) = none) :
    off ≤ max (eligibleOf s m p) (committedOf s p) := by
  simp only [check, Bool.true_and] at h
  split at h
  · simp at h
  · rename_i hn
    simpa using hn

theorem quiesce_check {c : Cfg} {s : St} (h : check c s .quiesce = none) (hinc : s.incomplete = false) :
    ∀ f ∈ s.finals, ∀ x ∈ s.prod, x.2.1 = f.1 → (x.2.2 : Int) < f.2 →
      ∃ r ∈ s.ret, r.2.1 = x.2.1 ∧ r.2.2.1 = x.2.2 ∧ r.2.2.2 = x.1 := by
  intro f hf x hx h1 h2
  simp only [check, hinc, Bool.false_eq_true, if_false] at h
  split at h
  · simp at h
  · rename_i hn
    false_or_by_contra
    rename_i hcon
    apply hn
    rw [List.any_eq_true]
    refine ⟨f, hf, ?_⟩
    rw [List.any_eq_true]
    refine ⟨x, hx, ?_⟩
    simp only [Bool.and_eq_true, beq_iff_eq, decide_eq_true_eq, Bool.not_eq_true', List.any_eq_false, not_and]
    refine ⟨⟨h1, h2⟩, ?_⟩
    rintro r hr ⟨ha, hb⟩ hc
    exact hcon ⟨r, hr, ha, hb, hc⟩

end Proof.Group
