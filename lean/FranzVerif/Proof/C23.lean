import FranzVerif.Model.C23
/-! Helper lemmas for C23: the bucket fold (`addTo` / `shardBy`) and the `issue` recursion. Core Lean only. -/
namespace Proof.C23
open Model.C23 List

set_option linter.unusedSectionVars false
variable {ι δ Λ : Type} [DecidableEq δ]

theorem allItems_nil : allItems ([] : List (Shard ι δ)) = [] := rfl

theorem allItems_cons (s : Shard ι δ) (ss : List (Shard ι δ)) : allItems (s :: ss) = s.items ++ allItems ss := by
  simp [allItems]

theorem allItems_append (a b : List (Shard ι δ)) : allItems (a ++ b) = allItems a ++ allItems b := by
  simp [allItems]

/-- Adding an item to its bucket adds exactly that item. -/
theorem allItems_addTo (solo : δ → Bool) (d : δ) (x : ι) (ss : List (Shard ι δ)) :
    allItems (addTo solo d x ss) ~ allItems ss ++ [x] := by
  induction ss with
  | nil => simp [addTo, allItems]
  | cons s rest ih =>
    unfold addTo
    split
    · simp only [allItems_cons, List.append_assoc]
      exact (perm_append_left_iff _).2 perm_append_comm
    · simp only [allItems_cons, List.append_assoc]
      exact (perm_append_left_iff _).2 ih

theorem allItems_foldl (solo : δ → Bool) (place : ι → δ) (items : List ι) (acc : List (Shard ι δ)) :
    allItems (items.foldl (fun acc x => addTo solo (place x) x acc) acc) ~ allItems acc ++ items := by
  induction items generalizing acc with
  | nil => simp
  | cons x xs ih =>
    simp only [List.foldl_cons]
    refine (ih _).trans ?_
    have := (allItems_addTo solo (place x) x acc).append_right xs
    simpa [List.append_assoc] using this

/-- The partition lemma of every sharder: the buckets' items are a permutation of the request's items. -/
theorem shardBy_perm (solo : δ → Bool) (place : ι → δ) (items : List ι) :
    allItems (shardBy solo place items) ~ items := by
  have := allItems_foldl solo place items []
  simpa [shardBy, allItems] using this

/-- Bucket invariant: every item sits in the bucket of its own destination, and no bucket is empty. -/
def Consistent (place : ι → δ) (ss : List (Shard ι δ)) : Prop :=
  ∀ s ∈ ss, s.items ≠ [] ∧ ∀ y ∈ s.items, place y = s.dest

theorem consistent_addTo (solo : δ → Bool) (place : ι → δ) (x : ι) (ss : List (Shard ι δ)) (h : Consistent place ss) :
    Consistent place (addTo solo (place x) x ss) := by
  induction ss with
  | nil =>
    intro s hs
    simp [addTo] at hs
    subst hs
    simp
  | cons s rest ih =>
    have hrest : Consistent place rest := fun t ht => h t (List.mem_cons_of_mem _ ht)
    have hs := h s (List.mem_cons_self)
    unfold addTo
    split
    · rename_i hc
      intro t ht
      rcases List.mem_cons.1 ht with rfl | ht
      · refine ⟨by simp, ?_⟩
        intro y hy
        rcases List.mem_append.1 hy with hy | hy
        · exact hs.2 y hy
        · simp at hy; subst hy; exact hc.1.symm
      · exact hrest t ht
    · intro t ht
      rcases List.mem_cons.1 ht with rfl | ht
      · exact hs
      · exact ih hrest t ht

theorem consistent_foldl (solo : δ → Bool) (place : ι → δ) (items : List ι) (acc : List (Shard ι δ))
    (h : Consistent place acc) :
    Consistent place (items.foldl (fun acc x => addTo solo (place x) x acc) acc) := by
  induction items generalizing acc with
  | nil => simpa using h
  | cons x xs ih => exact ih _ (consistent_addTo solo place x acc h)

theorem shardBy_consistent (solo : δ → Bool) (place : ι → δ) (items : List ι) :
    Consistent place (shardBy solo place items) :=
  consistent_foldl solo place items [] (fun _ h => by simp at h)

/-- Items of a bucket are items of the request. -/
theorem shardBy_subset (solo : δ → Bool) (place : ι → δ) (items : List ι) (s : Shard ι δ)
    (hs : s ∈ shardBy solo place items) : ∀ y ∈ s.items, y ∈ items := by
  intro y hy
  refine (shardBy_perm solo place items).mem_iff.1 ?_
  exact List.mem_flatMap.2 ⟨s, hs, hy⟩

theorem shardBy_empty_items (solo : δ → Bool) (place : ι → δ) (items : List ι)
    (h : (shardBy solo place items).isEmpty = true) : items = [] := by
  have hp := shardBy_perm solo place items
  rw [List.isEmpty_iff.1 h] at hp
  exact (List.nil_perm.1 hp)

/-- Permutation through a `flatMap`: pointwise permutations of the pieces. -/
theorem perm_flatMap_pointwise {α β : Type} (l : List α) (f : α → List β) (g : α → List β)
    (h : ∀ a ∈ l, f a ~ g a) : l.flatMap f ~ l.flatMap g := by
  induction l with
  | nil => simp
  | cons a l ih =>
    simp only [List.flatMap_cons]
    exact (h a List.mem_cons_self).append (ih fun b hb => h b (List.mem_cons_of_mem _ hb))

/-- Bucket destinations are distinct unless one-per-occurrence. -/
def DistinctDests (solo : δ → Bool) (ss : List (Shard ι δ)) : Prop :=
  ss.Pairwise (fun a b => a.dest ≠ b.dest ∨ solo a.dest = true)

theorem dests_addTo (solo : δ → Bool) (d : δ) (x : ι) (ss : List (Shard ι δ)) (s : Shard ι δ)
    (hs : s ∈ addTo solo d x ss) : s.dest = d ∨ ∃ t ∈ ss, t.dest = s.dest := by
  induction ss with
  | nil => simp [addTo] at hs; subst hs; exact Or.inl rfl
  | cons t rest ih =>
    unfold addTo at hs
    split at hs
    · rcases List.mem_cons.1 hs with rfl | hs
      · exact Or.inr ⟨t, List.mem_cons_self, rfl⟩
      · exact Or.inr ⟨s, List.mem_cons_of_mem _ hs, rfl⟩
    · rcases List.mem_cons.1 hs with rfl | hs
      · exact Or.inr ⟨s, List.mem_cons_self, rfl⟩
      · rcases ih hs with h | ⟨u, hu, hud⟩
        · exact Or.inl h
        · exact Or.inr ⟨u, List.mem_cons_of_mem _ hu, hud⟩

theorem distinct_addTo (solo : δ → Bool) (d : δ) (x : ι) (ss : List (Shard ι δ)) (h : DistinctDests solo ss) :
    DistinctDests solo (addTo solo d x ss) := by
  induction ss with
  | nil => simp [addTo, DistinctDests]
  | cons s rest ih =>
    have hrest : DistinctDests solo rest := (List.pairwise_cons.1 h).2
    have hs := (List.pairwise_cons.1 h).1
    unfold addTo
    split
    · exact List.pairwise_cons.2 ⟨fun b hb => hs b hb, hrest⟩
    · rename_i hc
      refine List.pairwise_cons.2 ⟨?_, ih hrest⟩
      intro b hb
      rcases dests_addTo solo d x rest b hb with hbd | ⟨u, hu, hud⟩
      · by_cases hsd : s.dest = d
        · have hsolo : solo d = true := by
            cases hso : solo d with
            | true => rfl
            | false => exact absurd ⟨hsd, hso⟩ hc
          exact Or.inr (hsd ▸ hsolo)
        · exact Or.inl (fun e => hsd (e.trans hbd))
      · rcases hs u hu with h1 | h1
        · exact Or.inl (fun e => h1 (e.trans hud.symm))
        · exact Or.inr h1

theorem distinct_foldl (solo : δ → Bool) (place : ι → δ) (items : List ι) (acc : List (Shard ι δ))
    (h : DistinctDests solo acc) :
    DistinctDests solo (items.foldl (fun acc x => addTo solo (place x) x acc) acc) := by
  induction items generalizing acc with
  | nil => simpa using h
  | cons x xs ih => exact ih _ (distinct_addTo solo (place x) x acc h)

theorem shardBy_distinct (solo : δ → Bool) (place : ι → δ) (items : List ι) :
    DistinctDests solo (shardBy solo place items) :=
  distinct_foldl solo place items [] List.Pairwise.nil


/-! ## The `issue` recursion -/

/-- What `issue` does with one bucket when `fuel` retries are left after this attempt. -/
def node (k : Kind ι δ Λ) (oracle : Nat → δ → List ι → Choice Λ δ) (fuel tries : Nat) (s : Shard ι δ) : List (Shard ι δ) :=
  if k.isErr s.dest then [s] else
  match oracle tries s.dest s.items with
  | .final => [s]
  | .reshard lay' => issue k oracle fuel (tries + 1) lay' s.items
  | .reshardFails e => [⟨e, s.items⟩]

theorem issue_zero (k : Kind ι δ Λ) (oracle : Nat → δ → List ι → Choice Λ δ) (tries : Nat) (lay : Λ) (items : List ι) :
    issue k oracle 0 tries lay items =
      if (shardBy k.solo (k.place lay) items).isEmpty then [⟨k.anyDest, items⟩] else shardBy k.solo (k.place lay) items := rfl

theorem issue_succ (k : Kind ι δ Λ) (oracle : Nat → δ → List ι → Choice Λ δ) (fuel tries : Nat) (lay : Λ) (items : List ι) :
    issue k oracle (fuel + 1) tries lay items =
      if (shardBy k.solo (k.place lay) items).isEmpty then [⟨k.anyDest, items⟩]
      else (shardBy k.solo (k.place lay) items).flatMap (node k oracle fuel tries) := rfl

theorem allItems_flatMap (ss : List (Shard ι δ)) (f : Shard ι δ → List (Shard ι δ)) :
    allItems (ss.flatMap f) = ss.flatMap (fun s => allItems (f s)) := by
  simp [allItems, List.flatMap_assoc]

theorem issue_perm (k : Kind ι δ Λ) (oracle : Nat → δ → List ι → Choice Λ δ) :
    ∀ (fuel tries : Nat) (lay : Λ) (items : List ι), allItems (issue k oracle fuel tries lay items) ~ items := by
  intro fuel
  induction fuel with
  | zero =>
    intro tries lay items
    rw [issue_zero]
    split
    · simp [allItems]
    · exact shardBy_perm _ _ _
  | succ fuel ih =>
    intro tries lay items
    rw [issue_succ]
    split
    · simp [allItems]
    · rw [allItems_flatMap]
      have hsp : (shardBy k.solo (k.place lay) items).flatMap (fun s => s.items) ~ items := shardBy_perm k.solo (k.place lay) items
      refine (perm_flatMap_pointwise _ _ (fun s => s.items) ?_).trans hsp
      intro s _
      unfold node
      split
      · simp [allItems]
      · split
        · simp [allItems]
        · exact ih _ _ _
        · simp [allItems]

/-- Items of the leaves below a bucket are items of the bucket. -/
theorem node_subset (k : Kind ι δ Λ) (oracle : Nat → δ → List ι → Choice Λ δ) (fuel tries : Nat) (s l : Shard ι δ)
    (hl : l ∈ node k oracle fuel tries s) : ∀ y ∈ l.items, y ∈ s.items := by
  intro y hy
  unfold node at hl
  split at hl
  · simp at hl; subst hl; exact hy
  · split at hl
    · simp at hl; subst hl; exact hy
    · exact (issue_perm k oracle fuel (tries + 1) _ s.items).mem_iff.1 (List.mem_flatMap.2 ⟨l, hl, hy⟩)
    · simp at hl; subst hl; exact hy

/-- Every leaf is where some layout the client believed in says (or is the error shard of a sharding that failed
wholesale, or the empty any-broker shard). -/
def LeafOk (k : Kind ι δ Λ) (oracle : Nat → δ → List ι → Choice Λ δ) (l : Shard ι δ) : Prop :=
  (∃ lay', ∀ y ∈ l.items, k.place lay' y = l.dest) ∨ (∃ t d is, oracle t d is = .reshardFails l.dest)

theorem issue_leafOk (k : Kind ι δ Λ) (oracle : Nat → δ → List ι → Choice Λ δ) :
    ∀ (fuel tries : Nat) (lay : Λ) (items : List ι), ∀ l ∈ issue k oracle fuel tries lay items, LeafOk k oracle l := by
  intro fuel
  induction fuel with
  | zero =>
    intro tries lay items l hl
    rw [issue_zero] at hl
    split at hl
    · rename_i he
      simp at hl; subst hl
      have := shardBy_empty_items _ _ _ he
      subst this
      exact Or.inl ⟨lay, by simp⟩
    · exact Or.inl ⟨lay, (shardBy_consistent _ _ _ l hl).2⟩
  | succ fuel ih =>
    intro tries lay items l hl
    rw [issue_succ] at hl
    split at hl
    · rename_i he
      simp at hl; subst hl
      have := shardBy_empty_items _ _ _ he
      subst this
      exact Or.inl ⟨lay, by simp⟩
    · obtain ⟨s, hs, hls⟩ := List.mem_flatMap.1 hl
      unfold node at hls
      split at hls
      · simp at hls; subst hls; exact Or.inl ⟨lay, (shardBy_consistent _ _ _ l hs).2⟩
      · split at hls
        · simp at hls; subst hls; exact Or.inl ⟨lay, (shardBy_consistent _ _ _ l hs).2⟩
        · exact ih _ _ _ l hls
        · rename_i e heq
          simp at hls; subst hls
          exact Or.inr ⟨tries, s.dest, s.items, heq⟩

/-- Under `AllMappable` for every layout the client may believe in, and no wholesale sharding failure, no leaf is an error shard. -/
theorem issue_no_err (k : Kind ι δ Λ) (oracle : Nat → δ → List ι → Choice Λ δ)
    (hany : k.isErr k.anyDest = false) (hor : ∀ t d is e, oracle t d is ≠ .reshardFails e) :
    ∀ (fuel tries : Nat) (lay : Λ) (items : List ι), (∀ lay' x, x ∈ items → k.isErr (k.place lay' x) = false) →
      ∀ l ∈ issue k oracle fuel tries lay items, k.isErr l.dest = false := by
  have hshard : ∀ (lay : Λ) (items : List ι), (∀ lay' x, x ∈ items → k.isErr (k.place lay' x) = false) →
      ∀ s ∈ shardBy k.solo (k.place lay) items, k.isErr s.dest = false := by
    intro lay items hmap s hs
    obtain ⟨hne, hc⟩ := shardBy_consistent k.solo (k.place lay) items s hs
    match hsi : s.items with
    | [] => exact absurd hsi hne
    | y :: _ =>
      have hy : y ∈ s.items := by rw [hsi]; exact List.mem_cons_self
      rw [← hc y hy]
      exact hmap lay y (shardBy_subset _ _ _ s hs y hy)
  intro fuel
  induction fuel with
  | zero =>
    intro tries lay items hmap l hl
    rw [issue_zero] at hl
    split at hl
    · simp at hl; subst hl; exact hany
    · exact hshard lay items hmap l hl
  | succ fuel ih =>
    intro tries lay items hmap l hl
    rw [issue_succ] at hl
    split at hl
    · simp at hl; subst hl; exact hany
    · obtain ⟨s, hs, hls⟩ := List.mem_flatMap.1 hl
      have hsd := hshard lay items hmap s hs
      unfold node at hls
      split at hls
      · simp at hls; subst hls; exact hsd
      · split at hls
        · simp at hls; subst hls; exact hsd
        · exact ih _ _ _ (fun lay' x hx => hmap lay' x (shardBy_subset _ _ _ s hs x hx)) l hls
        · rename_i e heq
          exact absurd heq (hor _ _ _ _)

/-- Two shards share no item. -/
def Disj (a b : Shard ι δ) : Prop := ∀ x, x ∈ a.items → x ∉ b.items

theorem shardBy_disj_nosolo (solo : δ → Bool) (place : ι → δ) (items : List ι) (hsolo : ∀ d, solo d = false) :
    (shardBy solo place items).Pairwise Disj := by
  have hc := shardBy_consistent solo place items
  have hd := shardBy_distinct solo place items
  have : ∀ a ∈ shardBy solo place items, ∀ b ∈ shardBy solo place items,
      (a.dest ≠ b.dest ∨ solo a.dest = true) → Disj a b := by
    intro a ha b hb hab x hxa hxb
    rcases hab with h | h
    · exact h (((hc a ha).2 x hxa).symm.trans ((hc b hb).2 x hxb))
    · rw [hsolo] at h; cases h
  exact List.Pairwise.imp_of_mem (fun {a b} ha hb h => this a ha b hb h) hd

theorem shardBy_disj_nodup (solo : δ → Bool) (place : ι → δ) (items : List ι) (hn : items.Nodup) :
    (shardBy solo place items).Pairwise Disj ∧ ∀ s ∈ shardBy solo place items, s.items.Nodup := by
  have hp := shardBy_perm solo place items
  have hn' : (allItems (shardBy solo place items)).Nodup := hp.symm.nodup hn
  unfold allItems at hn'
  rw [List.Nodup, List.pairwise_flatMap] at hn'
  refine ⟨hn'.2.imp ?_, hn'.1⟩
  intro a b h x hxa hxb
  exact h x hxa x hxb rfl

theorem issue_disj_aux (k : Kind ι δ Λ) (oracle : Nat → δ → List ι → Choice Λ δ)
    (P : List ι → Prop)
    (hP : ∀ lay items, P items → (shardBy k.solo (k.place lay) items).Pairwise Disj ∧
        ∀ s ∈ shardBy k.solo (k.place lay) items, P s.items) :
    ∀ (fuel tries : Nat) (lay : Λ) (items : List ι), P items → (issue k oracle fuel tries lay items).Pairwise Disj := by
  intro fuel
  induction fuel with
  | zero =>
    intro tries lay items hp
    rw [issue_zero]
    split
    · simp
    · exact (hP lay items hp).1
  | succ fuel ih =>
    intro tries lay items hp
    rw [issue_succ]
    split
    · simp
    · rw [List.pairwise_flatMap]
      refine ⟨?_, ?_⟩
      · intro s hs
        unfold node
        split
        · simp
        · split
          · simp
          · exact ih _ _ _ ((hP lay items hp).2 s hs)
          · simp
      · refine (hP lay items hp).1.imp ?_
        intro a b hab x hx y hy z hzx hzy
        exact hab z (node_subset k oracle fuel tries a x hx z hzx) (node_subset k oracle fuel tries b y hy z hzy)

theorem merged_err_perm (isErr : δ → Bool) (ss : List (Shard ι δ)) :
    mergedItems isErr ss ++ errItems isErr ss ~ allItems ss := by
  unfold mergedItems errItems
  rw [← allItems_append]
  unfold allItems
  refine List.Perm.flatMap_right _ ?_
  have := List.filter_append_perm (fun s => !isErr s.dest) ss
  simpa using this

theorem nodup_eraseDups [BEq ι] [LawfulBEq ι] : ∀ (n : Nat) (l : List ι), l.length ≤ n → l.eraseDups.Nodup := by
  intro n
  induction n with
  | zero => intro l h; have : l = [] := List.eq_nil_of_length_eq_zero (by omega); subst this; simp
  | succ n ih =>
    intro l h
    match l with
    | [] => simp
    | a :: as =>
      rw [List.eraseDups_cons, List.nodup_cons]
      refine ⟨?_, ih _ ?_⟩
      · intro hm
        rw [List.mem_eraseDups, List.mem_filter] at hm
        simp at hm
      · have := List.length_filter_le (fun b => !b == a) as
        simp at h
        omega

end Proof.C23
