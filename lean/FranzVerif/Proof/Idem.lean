import FranzVerif.Model.Idem
/-! History-level observables for the idempotent-producing monitor (C02) and helper lemmas.

Layout of the proof:
* this file: the observables, how each changes on `h ++ [ev]`, small list lemmas;
* `Proof/IdemInv.lean`: the invariant `Inv h s` relating the monitor state reached by `run` to the
  observables of the history, its preservation by every accepted event (one lemma per event kind),
  `inv_of_run`, `run_append`, `run_split`, `run_snoc`, and what the check at `quiesce` says. -/
namespace Proof.Idem
open Model.Idem

/-- the log as read back: `(partition, offset, id)` entries of the history, in order -/
def logOf (h : List Ev) : List (Nat × Nat × Id) :=
  h.filterMap (fun e => match e with | .logEntry p o i => some (p, o, i) | _ => none)
/-- all promise events `(id, ok, partition, offset)` -/
def promisesOf (h : List Ev) : List (Id × Bool × Nat × Int) :=
  h.filterMap (fun e => match e with | .promise i ok p o => some (i, ok, p, o) | _ => none)
def calledIds (h : List Ev) : List Id :=
  h.filterMap (fun e => match e with | .call i _ => some i | _ => none)
/-- `a`'s produce call returned before `b`'s began -/
def returnedBefore (h : List Ev) (a b : Id) : Prop :=
  ∃ h₁ h₂ h₃ p, h = h₁ ++ Ev.ret a :: h₂ ++ Ev.call b p :: h₃

/-- ids whose produce call has returned -/
def retsOf (h : List Ev) : List Id :=
  h.filterMap (fun e => match e with | .ret i => some i | _ => none)

/-! ### per-event projections -/

def logEv : Ev → Option (Nat × Nat × Id)
  | .logEntry p o i => some (p, o, i) | _ => none
def promEv : Ev → Option (Id × Bool × Nat × Int)
  | .promise i ok p o => some (i, ok, p, o) | _ => none
def callEv : Ev → Option Id
  | .call i _ => some i | _ => none
def retEv : Ev → Option Id
  | .ret i => some i | _ => none
/-- the batch of a `wreq` event of the stream `(part, pid, epoch)` with sequence number `seq` -/
def batchEv (part pid : Nat) (epoch : Int) (seq : Nat) : Ev → Option Batch
  | .wreq _ _ p pi ep sq cnt ids =>
    if p = part ∧ pi = pid ∧ ep = epoch ∧ sq = seq then some ⟨p, pi, ep, sq, cnt, ids⟩ else none
  | _ => none

/-- the batch carried by the most recent `wreq` of the stream `(part, pid, epoch)` with number `seq` -/
def lastBatch (part pid : Nat) (epoch : Int) (seq : Nat) (h : List Ev) : Option Batch :=
  (h.filterMap (batchEv part pid epoch seq)).getLast?

/-- `b` is a batch of the stream `(part, pid, epoch)` with sequence number `seq` -/
def isKey (part pid : Nat) (epoch : Int) (seq : Nat) (b : Batch) : Bool :=
  sameStream b part pid epoch && b.seq == seq

theorem logOf_eq (h : List Ev) : logOf h = h.filterMap logEv := rfl
theorem promisesOf_eq (h : List Ev) : promisesOf h = h.filterMap promEv := rfl
theorem calledIds_eq (h : List Ev) : calledIds h = h.filterMap callEv := rfl
theorem retsOf_eq (h : List Ev) : retsOf h = h.filterMap retEv := rfl

theorem logOf_snoc (h : List Ev) (ev : Ev) : logOf (h ++ [ev]) = logOf h ++ (logEv ev).toList := by
  simp only [logOf_eq, List.filterMap_append]; cases hh : logEv ev <;> simp [hh]
theorem promisesOf_snoc (h : List Ev) (ev : Ev) :
    promisesOf (h ++ [ev]) = promisesOf h ++ (promEv ev).toList := by
  simp only [promisesOf_eq, List.filterMap_append]; cases hh : promEv ev <;> simp [hh]
theorem calledIds_snoc (h : List Ev) (ev : Ev) :
    calledIds (h ++ [ev]) = calledIds h ++ (callEv ev).toList := by
  simp only [calledIds_eq, List.filterMap_append]; cases hh : callEv ev <;> simp [hh]
theorem retsOf_snoc (h : List Ev) (ev : Ev) : retsOf (h ++ [ev]) = retsOf h ++ (retEv ev).toList := by
  simp only [retsOf_eq, List.filterMap_append]; cases hh : retEv ev <;> simp [hh]
theorem lastBatch_snoc (part pid : Nat) (epoch : Int) (seq : Nat) (h : List Ev) (ev : Ev) :
    lastBatch part pid epoch seq (h ++ [ev]) =
      (batchEv part pid epoch seq ev).or (lastBatch part pid epoch seq h) := by
  simp only [lastBatch, List.filterMap_append]
  cases hh : batchEv part pid epoch seq ev <;> simp [hh]

theorem logOf_append (h₁ h₂ : List Ev) : logOf (h₁ ++ h₂) = logOf h₁ ++ logOf h₂ := by
  simp [logOf_eq]
theorem promisesOf_append (h₁ h₂ : List Ev) : promisesOf (h₁ ++ h₂) = promisesOf h₁ ++ promisesOf h₂ := by
  simp [promisesOf_eq]
theorem retsOf_append (h₁ h₂ : List Ev) : retsOf (h₁ ++ h₂) = retsOf h₁ ++ retsOf h₂ := by
  simp [retsOf_eq]

/-- the most recent `wreq` of a stream and number, when no later event of `h₂` is one -/
theorem lastBatch_decomp (part pid : Nat) (epoch : Int) (seq : Nat) (h₁ h₂ : List Ev)
    (n act cnt : Nat) (ids : List Id)
    (hno : ∀ n' act' cnt' ids', Ev.wreq n' act' part pid epoch seq cnt' ids' ∉ h₂) :
    lastBatch part pid epoch seq (h₁ ++ Ev.wreq n act part pid epoch seq cnt ids :: h₂) =
      some ⟨part, pid, epoch, seq, cnt, ids⟩ := by
  have h2 : h₂.filterMap (batchEv part pid epoch seq) = [] := by
    rw [List.filterMap_eq_nil_iff]
    intro ev hev
    cases ev with
    | wreq n' act' p pi ep sq cnt' ids' =>
      simp only [batchEv]
      split
      · rename_i hk
        obtain ⟨rfl, rfl, rfl, rfl⟩ := hk
        exact absurd hev (hno _ _ _ _)
      · rfl
    | _ => rfl
  simp [lastBatch, List.filterMap_append, batchEv, h2]

/-! ### small list lemmas -/

theorem any_fst_iff {β : Type} (l : List (Id × β)) (id : Id) :
    l.any (fun x => x.1 == id) = true ↔ id ∈ l.map (·.1) := by
  simp only [List.any_eq_true, List.mem_map, beq_iff_eq]

theorem find_fst_some {β : Type} {l : List (Id × β)} {id : Id} {x : Id × β}
    (h : l.find? (fun x => x.1 == id) = some x) : x ∈ l ∧ x.1 = id :=
  ⟨List.mem_of_find?_eq_some h, by simpa using List.find?_some h⟩

/-- in an association list with distinct keys, `find?` returns the entry of the key -/
theorem find_fst_of_mem {β : Type} {l : List (Id × β)} (hn : (l.map (·.1)).Nodup) {k : Id} {v : β}
    (hm : (k, v) ∈ l) : l.find? (fun x => x.1 == k) = some (k, v) := by
  induction l with
  | nil => cases hm
  | cons x xs ih =>
    rw [List.map_cons, List.nodup_cons] at hn
    rw [List.find?_cons]
    rcases List.mem_cons.1 hm with hx | hx
    · subst hx; simp
    · have hne : x.1 ≠ k := by
        intro he; apply hn.1; rw [he]; exact List.mem_map.2 ⟨(k, v), hx, rfl⟩
      have : (x.1 == k) = false := by simpa using hne
      rw [this]; exact ih hn.2 hx

end Proof.Idem
