import FranzVerif.Model.Idem
/-! History-level observables for the idempotent-producing monitor (C02) and helper lemmas. -/
namespace Proof.Idem
open Model.Idem

/-- the log as read back: `(partition, offset, id)` entries of the history, in order -/
def logOf (h : List Ev) : List (Nat × Nat × Id) :=
  h.filterMap (fun e => match e with | .logEntry p o i => some (p, o, i) | _ => none)
/-- all promise events `(id, ok, partition, offset)` -/
def promisesOf (h : List Ev) : List (Id × Bool × Nat × Int) :=
  h.filterMap (fun e => match e with | .promise i ok p o => some (i, ok, p, o) | _ => none)
def calledIds (h : List Ev) : List Id :=
  h.filterMap (fun e => match e with | .call i _ => some i | _ => none)
/-- `a`'s produce call returned before `b`'s began -/
def returnedBefore (h : List Ev) (a b : Id) : Prop :=
  ∃ h₁ h₂ h₃ p, h = h₁ ++ Ev.ret a :: h₂ ++ Ev.call b p :: h₃

end Proof.Idem
