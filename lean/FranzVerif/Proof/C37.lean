import FranzVerif.Model.C37
/-! Helper lemmas for C37 (core Lean only). -/
namespace Proof.C37
open Model.C37

theorem get_set_same (h : List Hdr) (k v : Bytes) : cget (cset h k v) k = v := by
  induction h with
  | nil => simp [cset, cget, Hdr.str]
  | cons x xs ih =>
    simp only [cset]
    split
    · simp [cget, Hdr.str, *]
    · simp [cget, *]

theorem get_set_other (h : List Hdr) (k v k' : Bytes) (hne : k' ≠ k) : cget (cset h k v) k' = cget h k' := by
  induction h with
  | nil => simp [cset, cget]; intro h; exact absurd h.symm hne
  | cons x xs ih =>
    simp only [cset]
    split
    · rename_i hk
      have : x.key ≠ k' := by rw [hk]; exact fun h => hne h.symm
      simp [cget, this]
    · simp [cget, ih]

theorem keys_eq_map (h : List Hdr) : ckeys h = h.map (·.key) := by
  induction h with
  | nil => rfl
  | cons x xs ih => simp [ckeys, ih]

theorem keys_set (h : List Hdr) (k v : Bytes) :
    ckeys (cset h k v) = if k ∈ ckeys h then ckeys h else ckeys h ++ [k] := by
  induction h with
  | nil => simp [cset, ckeys]
  | cons x xs ih =>
    simp only [cset]
    split
    · rename_i hk; simp [ckeys, hk]
    · rename_i hk
      simp only [ckeys, ih, List.mem_cons]
      have : ¬ k = x.key := fun h => hk h.symm
      simp only [this, false_or]
      split <;> simp

/-- structural description of `Set`: the first header with the key is overwritten in place, or
`(k, v)` is appended when no header has the key. -/
theorem set_shape (h : List Hdr) (k v : Bytes) :
    (∃ pre x post, h = pre ++ x :: post ∧ x.key = k ∧ (∀ y ∈ pre, y.key ≠ k) ∧
        cset h k v = pre ++ ⟨k, some v⟩ :: post) ∨
    ((∀ y ∈ h, y.key ≠ k) ∧ cset h k v = h ++ [⟨k, some v⟩]) := by
  induction h with
  | nil => right; simp [cset]
  | cons x xs ih =>
    by_cases hk : x.key = k
    · left; exact ⟨[], x, xs, by simp, hk, by simp, by simp [cset, hk]⟩
    · rcases ih with ⟨pre, y, post, h1, h2, h3, h4⟩ | ⟨h1, h2⟩
      · left
        refine ⟨x :: pre, y, post, by simp [h1], h2, ?_, by simp [cset, hk, h4]⟩
        intro z hz
        rcases List.mem_cons.mp hz with rfl | hz
        · exact hk
        · exact h3 z hz
      · right
        refine ⟨?_, by simp [cset, hk, h2]⟩
        intro z hz
        rcases List.mem_cons.mp hz with rfl | hz
        · exact hk
        · exact h1 z hz

theorem changeOK_refl (k v : Bytes) (h : List Hdr) : changeOK k v h h = true := by
  induction h with
  | nil => simp [changeOK]
  | cons x xs ih => simp [changeOK, ih]

theorem changeOK_set (h : List Hdr) (k v : Bytes) : changeOK k v h (cset h k v) = true := by
  induction h with
  | nil => simp [cset, changeOK]
  | cons x xs ih =>
    simp only [cset]
    split
    · rename_i hk
      simp only [changeOK]
      split
      · exact changeOK_refl k v xs
      · simp [hk]
    · simp [changeOK, ih]

theorem othersSame_set_aux (k v : Bytes) (full : List Hdr) (xs : List Hdr) :
    othersSame k xs (xs.map fun x => cget full x.key) (xs.map fun x => cget (cset full k v) x.key) = true := by
  induction xs with
  | nil => simp [othersSame]
  | cons x xs ih =>
    simp only [List.map_cons, othersSame, ih, Bool.and_true, Bool.or_eq_true, beq_iff_eq]
    by_cases hk : x.key = k
    · left; exact hk
    · right; exact (get_set_other full k v x.key hk).symm

/-- positions are stable: mapping over the old list and over the new list agree on the old prefix -/
theorem othersSame_prefix (k : Bytes) (xs : List Hdr) (as bs extra : List Bytes)
    (h : othersSame k xs as bs = true) : othersSame k xs as (bs ++ extra) = true := by
  induction xs generalizing as bs with
  | nil => simp [othersSame]
  | cons x xs ih =>
    cases as with
    | nil => simp [othersSame] at h
    | cons a as =>
      cases bs with
      | nil => simp [othersSame] at h
      | cons b bs =>
        simp only [othersSame, Bool.and_eq_true] at h
        simp only [List.cons_append, othersSame, Bool.and_eq_true]
        exact ⟨h.1, ih as bs h.2⟩

theorem set_keys_prefix (h : List Hdr) (k v : Bytes) :
    ∃ extra, (cset h k v).map (·.key) = h.map (·.key) ++ extra := by
  have := keys_set h k v
  rw [keys_eq_map, keys_eq_map] at this
  split at this
  · exact ⟨[], by simp [this]⟩
  · exact ⟨[k], this⟩

theorem map_get_set_prefix (h : List Hdr) (k v : Bytes) (f : Bytes → Bytes) :
    ∃ extra, (cset h k v).map (fun x => f x.key) = h.map (fun x => f x.key) ++ extra := by
  obtain ⟨e, he⟩ := set_keys_prefix h k v
  refine ⟨e.map f, ?_⟩
  have : (cset h k v).map (fun x => f x.key) = ((cset h k v).map (·.key)).map f := by simp
  rw [this, he]; simp

theorem expectGet_eq (full xs : List Hdr) (k : Bytes) (hsub : ∀ x ∈ xs, x ∈ full) :
    expectGet xs (xs.map fun x => cget full x.key) k = if k ∈ xs.map (·.key) then cget full k else [] := by
  induction xs with
  | nil => simp [expectGet]
  | cons x xs ih =>
    simp only [List.map_cons, expectGet, beq_iff_eq, List.mem_cons]
    by_cases hk : x.key = k
    · simp [hk]
    · have : ¬ k = x.key := fun h => hk h.symm
      simp only [hk, if_false, this, false_or]
      exact ih (fun y hy => hsub y (List.mem_cons_of_mem _ hy))

theorem get_absent (h : List Hdr) (k : Bytes) (hk : k ∉ h.map (·.key)) : cget h k = [] := by
  induction h with
  | nil => rfl
  | cons x xs ih =>
    simp only [List.map_cons, List.mem_cons, not_or] at hk
    have : ¬ x.key = k := fun h => hk.1 h.symm
    simp [cget, this, ih hk.2]

theorem lastVal_append (kvs : List (Bytes × Bytes)) (kv : Bytes × Bytes) (k : Bytes) :
    lastVal (kvs ++ [kv]) k = if kv.1 = k then some kv.2 else lastVal kvs k := by
  simp [lastVal, List.foldl_append]

theorem setAll_append (h : List Hdr) (kvs : List (Bytes × Bytes)) (kv : Bytes × Bytes) :
    setAll h (kvs ++ [kv]) = cset (setAll h kvs) kv.1 kv.2 := by
  simp [setAll, List.foldl_append]

/-- induction from the right end of a list -/
theorem rev_ind {α : Type} {P : List α → Prop} (hnil : P []) (snoc : ∀ l a, P l → P (l ++ [a])) : ∀ l, P l := by
  intro l
  rw [← List.reverse_reverse l]
  induction l.reverse with
  | nil => exact hnil
  | cons a t ih => rw [List.reverse_cons]; exact snoc _ _ ih

/-! ### batches -/

theorem bmod_length (f : List Hdr → List Hdr) (b : Batch) (i : Nat) : (bmod f b i).length = b.length := by
  induction b generalizing i with
  | nil => simp [bmod]
  | cons h rs ih => cases i <;> simp [bmod, ih]

theorem bmod_get_self (f : List Hdr → List Hdr) (b : Batch) (i : Nat) : (bmod f b i)[i]? = (b[i]?).map f := by
  induction b generalizing i with
  | nil => simp [bmod]
  | cons h rs ih => cases i <;> simp [bmod, ih]

theorem bmod_get_other (f : List Hdr → List Hdr) (b : Batch) (i j : Nat) (hne : j ≠ i) :
    (bmod f b i)[j]? = b[j]? := by
  induction b generalizing i j with
  | nil => simp [bmod]
  | cons h rs ih =>
    cases i with
    | zero =>
      cases j with
      | zero => exact absurd rfl hne
      | succ j => simp [bmod]
    | succ i =>
      cases j with
      | zero => simp [bmod]
      | succ j => simp only [bmod, List.getElem?_cons_succ]; exact ih i j (fun h => hne (by rw [h]))

theorem othersUntouched_bmod (f : List Hdr → List Hdr) (b : Batch) (i : Nat) :
    othersUntouched i (bobs b) (bobs (bmod f b i)) = true := by
  induction b generalizing i with
  | nil => simp [bmod, bobs, othersUntouched]
  | cons h rs ih =>
    cases i with
    | zero => simp [bmod, bobs, othersUntouched]
    | succ i =>
      have := ih i
      simp only [bobs] at this
      simp [bmod, bobs, othersUntouched, this]

theorem appHdrs_set_prop (h : List Hdr) (k v : Bytes) (hk : isPropKey k = true) : appHdrs (cset h k v) = appHdrs h := by
  induction h with
  | nil => simp [cset, appHdrs, hk]
  | cons x xs ih =>
    simp only [cset]
    split
    · rename_i hx
      simp only [appHdrs] at ih ⊢
      simp [hx, hk]
    · simp only [appHdrs] at ih ⊢
      simp [List.filter_cons, ih]

theorem length_set (h : List Hdr) (k v : Bytes) :
    h.length ≤ (cset h k v).length ∧ (cset h k v).length ≤ h.length + 1 := by
  induction h with
  | nil => simp [cset]
  | cons x xs ih =>
    simp only [cset]
    split
    · simp
    · simp only [List.length_cons]; omega

end Proof.C37
