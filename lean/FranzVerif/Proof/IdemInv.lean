import FranzVerif.Proof.Idem
/-! The history invariant of the idempotent-producing monitor and its preservation by every accepted event. -/
namespace Proof.Idem
open Model.Idem
set_option linter.unusedSimpArgs false

/-! ### `step` / `run` -/

theorem step_eq_some {s s' : St} {ev : Ev} (h : step s ev = some s') : check s ev = none ∧ s' = apply s ev := by
  unfold step at h
  cases hc : check s ev with
  | none => simp [hc] at h; exact ⟨rfl, h.symm⟩
  | some k => simp [hc] at h

theorem step_of_check {s : St} {ev : Ev} (h : check s ev = none) : step s ev = some (apply s ev) := by
  simp [step, h]

theorem run_append (s : St) (h₁ h₂ : List Ev) :
    run s (h₁ ++ h₂) = (run s h₁).bind (fun s' => run s' h₂) := by
  induction h₁ generalizing s with
  | nil => rfl
  | cons e es ih =>
    simp only [List.cons_append, run]
    cases step s e with
    | none => rfl
    | some s' => exact ih s'

/-- an accepted run decomposes at any event -/
theorem run_split' {s : St} {h₁ h₂ : List Ev} {ev : Ev} (hacc : (run s (h₁ ++ ev :: h₂)).isSome) :
    ∃ s₁, run s h₁ = some s₁ ∧ check s₁ ev = none ∧ (run (apply s₁ ev) h₂).isSome := by
  rw [run_append] at hacc
  cases h1 : run s h₁ with
  | none => simp [h1] at hacc
  | some s₁ =>
    simp only [h1, Option.bind_some, run] at hacc
    cases hs : step s₁ ev with
    | none => simp [hs] at hacc
    | some s2 =>
      obtain ⟨hchk, rfl⟩ := step_eq_some hs
      simp only [hs] at hacc
      exact ⟨s₁, rfl, hchk, hacc⟩

theorem run_split {h₁ h₂ : List Ev} {ev : Ev} (hacc : (run {} (h₁ ++ ev :: h₂)).isSome) :
    ∃ s₁, run {} h₁ = some s₁ ∧ check s₁ ev = none ∧ (run (apply s₁ ev) h₂).isSome :=
  run_split' hacc

theorem run_snoc {h : List Ev} {ev : Ev} {s : St} (hacc : run {} (h ++ [ev]) = some s) :
    ∃ s₁, run {} h = some s₁ ∧ check s₁ ev = none := by
  obtain ⟨s₁, h1, h2, _⟩ := run_split (h₁ := h) (h₂ := []) (ev := ev) (by simp [hacc])
  exact ⟨s₁, h1, h2⟩

/-! ### the state after `wresp` differs only in `lostResp` -/

theorem apply_wresp (s : St) (n part : Nat) (err base : Int) (d : Bool) :
    ∃ l, apply s (.wresp n part err base d) = { s with lostResp := l } := by
  simp only [apply]
  split
  · split
    · exact ⟨_, rfl⟩
    · exact ⟨s.lostResp, rfl⟩
  · exact ⟨s.lostResp, rfl⟩

/-- `before` only grows -/
theorem apply_before_mono (s : St) (ev : Ev) : ∀ x ∈ s.before, x ∈ (apply s ev).before := by
  intro x hx
  cases ev with
  | wresp n part err base d => obtain ⟨l, hl⟩ := apply_wresp s n part err base d; rw [hl]; exact hx
  | call id part => simp only [apply]; exact List.mem_cons_of_mem _ hx
  | _ => exact hx

theorem run_before_mono {s s' : St} {h : List Ev} (hr : run s h = some s') : ∀ x ∈ s.before, x ∈ s'.before := by
  induction h generalizing s with
  | nil => simp only [run, Option.some.injEq] at hr; subst hr; exact fun _ hx => hx
  | cons e es ih =>
    simp only [run] at hr
    cases hs : step s e with
    | none => simp [hs] at hr
    | some s2 =>
      simp only [hs] at hr
      obtain ⟨_, rfl⟩ := step_eq_some hs
      exact fun x hx => ih hr x (apply_before_mono s e x hx)

/-! ### the invariant -/

/-- What the monitor state `s` reached on the history `h` says about `h`: the client-side and log fields
mirror the history (newest first), ids are called once and promised at most once (only after their call),
the log has distinct ids and offsets and holds only records whose success promise names that very
partition and offset, and the stored batch of a stream and sequence number is the one of the most
recent `wreq` of that stream and number. -/
structure Inv (h : List Ev) (s : St) : Prop where
  calls : s.calls.map (·.1) = (calledIds h).reverse
  rets : s.rets = (retsOf h).reverse
  beforeKeys : s.before.map (·.1) = s.calls.map (·.1)
  promises : s.promises = (promisesOf h).reverse
  log : s.log = (logOf h).reverse
  callsNodup : (calledIds h).Nodup
  promNodup : ((promisesOf h).map (·.1)).Nodup
  promCalled : ∀ p ∈ promisesOf h, p.1 ∈ calledIds h
  logIds : ((logOf h).map (·.2.2)).Nodup
  logOffs : ((logOf h).map (fun e => (e.1, e.2.1))).Nodup
  logCalled : ∀ e ∈ logOf h, e.2.2 ∈ calledIds h
  logProm : ∀ e ∈ logOf h, (e.2.2, true, e.1, (e.2.1 : Int)) ∈ promisesOf h
  batches : ∀ part pid epoch seq,
    s.batches.find? (isKey part pid epoch seq) = lastBatch part pid epoch seq h

theorem Inv.init : Inv [] {} := by
  refine ⟨rfl, rfl, rfl, rfl, rfl, ?_, ?_, ?_, ?_, ?_, ?_, ?_, ?_⟩ <;>
    simp [calledIds, promisesOf, logOf, lastBatch]

/-- an event that touches none of the observables, into a state that agrees on the tracked fields -/
theorem Inv.frame {h : List Ev} {s s' : St} (hi : Inv h s) (ev : Ev)
    (hc : callEv ev = none) (hr : retEv ev = none) (hp : promEv ev = none) (hl : logEv ev = none)
    (hb : ∀ part pid epoch seq, batchEv part pid epoch seq ev = none)
    (e1 : s'.calls = s.calls) (e2 : s'.rets = s.rets) (e3 : s'.before = s.before)
    (e4 : s'.promises = s.promises) (e5 : s'.log = s.log) (e6 : s'.batches = s.batches) :
    Inv (h ++ [ev]) s' := by
  obtain ⟨h1, h2, h3, h4, h5, h6, h7, h8, h9, h10, h11, h12, h13⟩ := hi
  refine ⟨?_, ?_, ?_, ?_, ?_, ?_, ?_, ?_, ?_, ?_, ?_, ?_, ?_⟩ <;>
    simp only [calledIds_snoc, retsOf_snoc, promisesOf_snoc, logOf_snoc, lastBatch_snoc, hc, hr, hp, hl, hb,
      Option.toList_none, List.append_nil, Option.none_or, e1, e2, e3, e4, e5, e6] <;> assumption

theorem Inv.ret {h : List Ev} {s : St} (hi : Inv h s) (id : Id) :
    Inv (h ++ [.ret id]) (apply s (.ret id)) := by
  obtain ⟨h1, h2, h3, h4, h5, h6, h7, h8, h9, h10, h11, h12, h13⟩ := hi
  refine ⟨?_, ?_, ?_, ?_, ?_, ?_, ?_, ?_, ?_, ?_, ?_, ?_, ?_⟩ <;>
    simp only [calledIds_snoc, retsOf_snoc, promisesOf_snoc, logOf_snoc, lastBatch_snoc, callEv, retEv, promEv,
      logEv, batchEv, Option.toList_none, Option.toList_some, List.append_nil, Option.none_or, apply,
      List.reverse_append, List.reverse_cons, List.reverse_nil, List.nil_append, List.cons_append] <;>
    first | assumption | simp [h2]

theorem Inv.call {h : List Ev} {s : St} (hi : Inv h s) (id : Id) (part : Nat)
    (hchk : check s (.call id part) = none) : Inv (h ++ [.call id part]) (apply s (.call id part)) := by
  obtain ⟨h1, h2, h3, h4, h5, h6, h7, h8, h9, h10, h11, h12, h13⟩ := hi
  have hnew : id ∉ calledIds h := by
    simp only [check] at hchk
    have : ¬ (s.calls.any (fun x => x.1 == id) = true) := by
      intro hh; simp [hh] at hchk
    rw [any_fst_iff, h1, List.mem_reverse] at this
    exact this
  refine ⟨?_, ?_, ?_, ?_, ?_, ?_, ?_, ?_, ?_, ?_, ?_, ?_, ?_⟩ <;>
    simp only [calledIds_snoc, retsOf_snoc, promisesOf_snoc, logOf_snoc, lastBatch_snoc, callEv, retEv, promEv,
      logEv, batchEv, Option.toList_none, Option.toList_some, List.append_nil, Option.none_or, apply,
      List.reverse_append, List.reverse_cons, List.reverse_nil, List.nil_append, List.cons_append,
      List.map_cons]
  · rw [h1]
  · exact h2
  · rw [h3]
  · exact h4
  · exact h5
  · rw [List.nodup_append]
    refine ⟨h6, by simp, ?_⟩
    intro a ha b hb
    simp at hb; subst hb
    intro he; subst he; exact hnew ha
  · exact h7
  · intro p hp; exact List.mem_append_left _ (h8 p hp)
  · exact h9
  · exact h10
  · intro e he; exact List.mem_append_left _ (h11 e he)
  · exact h12
  · exact h13

theorem Inv.promise {h : List Ev} {s : St} (hi : Inv h s) (id : Id) (ok : Bool) (part : Nat) (off : Int)
    (hchk : check s (.promise id ok part off) = none) :
    Inv (h ++ [.promise id ok part off]) (apply s (.promise id ok part off)) := by
  obtain ⟨h1, h2, h3, h4, h5, h6, h7, h8, h9, h10, h11, h12, h13⟩ := hi
  have hfacts : id ∈ calledIds h ∧ id ∉ (promisesOf h).map (·.1) := by
    simp only [check] at hchk
    cases hfd : s.calls.find? (fun x => x.1 == id) with
    | none => simp [hfd] at hchk
    | some x =>
      obtain ⟨hx, hxid⟩ := find_fst_some hfd
      have hc : id ∈ s.calls.map (·.1) := List.mem_map.2 ⟨x, hx, hxid⟩
      rw [h1, List.mem_reverse] at hc
      refine ⟨hc, ?_⟩
      have : ¬ (s.promises.any (fun x => x.1 == id) = true) := by
        intro hh; simp [hfd, hh] at hchk
      rw [any_fst_iff, h4, List.map_reverse, List.mem_reverse] at this
      exact this
  obtain ⟨hcalled, hnew⟩ := hfacts
  refine ⟨?_, ?_, ?_, ?_, ?_, ?_, ?_, ?_, ?_, ?_, ?_, ?_, ?_⟩ <;>
    simp only [calledIds_snoc, retsOf_snoc, promisesOf_snoc, logOf_snoc, lastBatch_snoc, callEv, retEv, promEv,
      logEv, batchEv, Option.toList_none, Option.toList_some, List.append_nil, Option.none_or, apply,
      List.reverse_append, List.reverse_cons, List.reverse_nil, List.nil_append, List.cons_append,
      List.map_cons, List.map_append, List.map_nil]
  · exact h1
  · exact h2
  · exact h3
  · rw [h4]
  · exact h5
  · exact h6
  · rw [List.nodup_append]
    refine ⟨h7, by simp, ?_⟩
    intro a ha b hb
    simp at hb; subst hb
    intro he; subst he; exact hnew ha
  · intro p hp
    rcases List.mem_append.1 hp with hp | hp
    · exact h8 p hp
    · simp at hp; subst hp; exact hcalled
  · exact h9
  · exact h10
  · exact h11
  · intro e he; exact List.mem_append_left _ (h12 e he)
  · exact h13

theorem isKey_iff (part pid : Nat) (epoch : Int) (seq : Nat) (b : Batch) :
    isKey part pid epoch seq b = true ↔ b.part = part ∧ b.pid = pid ∧ b.epoch = epoch ∧ b.seq = seq := by
  simp [isKey, sameStream, and_assoc]

theorem Inv.wreq {h : List Ev} {s : St} (hi : Inv h s) (n act part pid : Nat) (epoch : Int) (seq cnt : Nat)
    (ids : List Id) :
    Inv (h ++ [.wreq n act part pid epoch seq cnt ids]) (apply s (.wreq n act part pid epoch seq cnt ids)) := by
  obtain ⟨h1, h2, h3, h4, h5, h6, h7, h8, h9, h10, h11, h12, h13⟩ := hi
  refine ⟨?_, ?_, ?_, ?_, ?_, ?_, ?_, ?_, ?_, ?_, ?_, ?_, ?_⟩ <;>
    simp only [calledIds_snoc, retsOf_snoc, promisesOf_snoc, logOf_snoc, lastBatch_snoc, callEv, retEv, promEv,
      logEv, Option.toList_none, Option.toList_some, List.append_nil, apply]
  · exact h1
  · exact h2
  · exact h3
  · exact h4
  · exact h5
  · exact h6
  · exact h7
  · exact h8
  · exact h9
  · exact h10
  · exact h11
  · exact h12
  · intro part' pid' epoch' seq'
    rw [List.find?_cons]
    by_cases hk : part = part' ∧ pid = pid' ∧ epoch = epoch' ∧ seq = seq'
    · obtain ⟨rfl, rfl, rfl, rfl⟩ := hk
      have : isKey part pid epoch seq ⟨part, pid, epoch, seq, cnt, ids⟩ = true := by
        rw [isKey_iff]; exact ⟨rfl, rfl, rfl, rfl⟩
      simp [this, batchEv]
    · have : isKey part' pid' epoch' seq' ⟨part, pid, epoch, seq, cnt, ids⟩ = false := by
        rw [Bool.eq_false_iff, Ne, isKey_iff]; exact hk
      simp only [this, batchEv, hk, if_false, Option.none_or]
      rw [← h13, List.find?_filter]
      congr 1
      funext x
      by_cases hx : isKey part' pid' epoch' seq' x = true
      · have hx' := (isKey_iff _ _ _ _ _).1 hx
        have : isKey part pid epoch seq x = false := by
          rw [Bool.eq_false_iff, Ne, isKey_iff]
          rintro ⟨a, b, c, d⟩
          exact hk ⟨a ▸ hx'.1, b ▸ hx'.2.1, c ▸ hx'.2.2.1, d ▸ hx'.2.2.2⟩
        simp only [isKey] at this hx
        simp [this, hx]
      · have hx : isKey part' pid' epoch' seq' x = false := by simpa using hx
        simp [hx]

theorem Inv.logEntry {h : List Ev} {s : St} (hi : Inv h s) (part off : Nat) (id : Id)
    (hchk : check s (.logEntry part off id) = none) :
    Inv (h ++ [.logEntry part off id]) (apply s (.logEntry part off id)) := by
  obtain ⟨h1, h2, h3, h4, h5, h6, h7, h8, h9, h10, h11, h12, h13⟩ := hi
  have hfacts : (part, off) ∉ (logOf h).map (fun e => (e.1, e.2.1)) ∧ id ∈ calledIds h ∧
      id ∉ (logOf h).map (·.2.2) ∧ (id, true, part, (off : Int)) ∈ promisesOf h := by
    simp only [check] at hchk
    split at hchk
    · cases hchk
    rename_i c1
    split at hchk
    · cases hchk
    rename_i c2
    split at hchk
    · cases hchk
    rename_i c3
    refine ⟨?_, ?_, ?_, ?_⟩
    · intro hm
      apply c1
      obtain ⟨e, he, hee⟩ := List.mem_map.1 hm
      rw [List.any_eq_true]
      refine ⟨e, by rw [h5, List.mem_reverse]; exact he, ?_⟩
      simp only [Prod.mk.injEq] at hee
      simp [hee.1, hee.2]
    · have : s.calls.any (fun x => x.1 == id) = true := by simpa using c2
      rw [any_fst_iff, h1, List.mem_reverse] at this
      exact this
    · intro hm
      apply c3
      obtain ⟨e, he, hee⟩ := List.mem_map.1 hm
      rw [List.any_eq_true]
      exact ⟨e, by rw [h5, List.mem_reverse]; exact he, by simp [hee]⟩
    · split at hchk
      · rename_i x i p o hfd
        obtain ⟨hx, hxid⟩ := find_fst_some hfd
        simp only at hxid
        split at hchk
        · cases hchk
        rename_i c4
        simp only [Bool.or_eq_true, bne_iff_ne, ne_eq, not_or, Decidable.not_not] at c4
        rw [h4, List.mem_reverse] at hx
        rw [← hxid, ← c4.1, ← c4.2]; exact hx
      · split at hchk <;> cases hchk
      · cases hchk
  obtain ⟨hoff, hcalled, hnew, hprom⟩ := hfacts
  refine ⟨?_, ?_, ?_, ?_, ?_, ?_, ?_, ?_, ?_, ?_, ?_, ?_, ?_⟩ <;>
    simp only [calledIds_snoc, retsOf_snoc, promisesOf_snoc, logOf_snoc, lastBatch_snoc, callEv, retEv, promEv,
      logEv, batchEv, Option.toList_none, Option.toList_some, List.append_nil, Option.none_or, apply,
      List.reverse_append, List.reverse_cons, List.reverse_nil, List.nil_append, List.cons_append,
      List.map_cons, List.map_append, List.map_nil]
  · exact h1
  · exact h2
  · exact h3
  · exact h4
  · rw [h5]
  · exact h6
  · exact h7
  · exact h8
  · rw [List.nodup_append]
    refine ⟨h9, by simp, ?_⟩
    intro a ha b hb
    simp at hb; subst hb
    intro he; subst he; exact hnew ha
  · rw [List.nodup_append]
    refine ⟨h10, by simp, ?_⟩
    intro a ha b hb
    simp at hb; subst hb
    intro he; subst he; exact hoff ha
  · intro e he
    rcases List.mem_append.1 he with he | he
    · exact h11 e he
    · simp at he; subst he; exact hcalled
  · intro e he
    rcases List.mem_append.1 he with he | he
    · exact h12 e he
    · simp at he; subst he; exact hprom
  · exact h13

/-- the invariant is preserved by every accepted event -/
theorem Inv.step {h : List Ev} {s : St} (hi : Inv h s) (ev : Ev) (hchk : check s ev = none) :
    Inv (h ++ [ev]) (apply s ev) := by
  cases ev with
  | call id part => exact hi.call id part hchk
  | ret id => exact hi.ret id
  | promise id ok part off => exact hi.promise id ok part off hchk
  | wreq n act part pid epoch seq cnt ids => exact hi.wreq n act part pid epoch seq cnt ids
  | wresp n part err base d =>
    obtain ⟨l, hl⟩ := apply_wresp s n part err base d
    rw [hl]
    exact hi.frame _ rfl rfl rfl rfl (fun _ _ _ _ => rfl) rfl rfl rfl rfl rfl rfl
  | logEntry part off id => exact hi.logEntry part off id hchk
  | quiesce => exact hi.frame _ rfl rfl rfl rfl (fun _ _ _ _ => rfl) rfl rfl rfl rfl rfl rfl

theorem Inv.run {h₁ : List Ev} {s s' : St} (hi : Inv h₁ s) (h₂ : List Ev)
    (hr : Model.Idem.run s h₂ = some s') : Inv (h₁ ++ h₂) s' := by
  induction h₂ generalizing h₁ s with
  | nil => simp only [Model.Idem.run, Option.some.injEq] at hr; subst hr; simpa using hi
  | cons e es ih =>
    simp only [Model.Idem.run] at hr
    cases hs : Model.Idem.step s e with
    | none => simp [hs] at hr
    | some s2 =>
      simp only [hs] at hr
      obtain ⟨hchk, rfl⟩ := step_eq_some hs
      have := ih (hi.step e hchk) hr
      simpa using this

theorem inv_of_run {h : List Ev} {s : St} (hr : run {} h = some s) : Inv h s := by
  simpa using Inv.init.run h hr

end Proof.Idem
