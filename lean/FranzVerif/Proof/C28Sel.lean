import FranzVerif.Model.C28
import FranzVerif.Spec.C28
import FranzVerif.Proof.C28
/-! C28 — helper lemmas about the client side of partitioning (`RequiresConsistency`, `doPartition`).
Core Lean only. -/
namespace Proof.C28
open Model.C28 Spec.C28

/-- `partsData.partitions` is "partition num => partition": the element at index `i` is partition `i`. -/
def Numbered (ps : List Part) : Prop := ∀ (i : Nat) (h : i < ps.length), ps[i].num = i

/-- a mapping the partitioners can be called on: 1 … 2^31-1 partitions (partition counts are int32 on the
wire) whose buffered counters are int64 values. -/
def MappingOk (ps : List Part) : Prop :=
  1 ≤ ps.length ∧ ps.length ≤ 2147483647 ∧ ∀ p ∈ ps, p.buffered ≤ maxInt64

/-! ### RequiresConsistency vs. the branch of `Partition` / `PartitionByBackup` that hashes -/

theorem requiresConsistency_eq (k : PKind) (r : Rec) :
    k.requiresConsistency r = ((k.obsKey r).isSome || k.isBasic) := by
  cases k with
  | uniformBytes c =>
    simp only [PKind.requiresConsistency, PKind.obsKey, PKind.isBasic, Bool.or_false]
    cases c.keys <;> simp
  | _ => simp [PKind.requiresConsistency, PKind.obsKey, PKind.isBasic]

theorem rc_of_obsKey (k : PKind) (r : Rec) (key : List UInt8) (h : k.obsKey r = some key) :
    k.requiresConsistency r = true := by
  rw [requiresConsistency_eq, h]; rfl

/-- a record the key logic does not see is partitioned without consulting the hasher. -/
theorem unhashed_ignores_hasher (k : PKind) (h' : Hasher) (s : PState) (r : Rec) (n : Int) (it : Iter)
    (draws : List Nat) (hkey : k.obsKey r = none) :
    (k.withHasher h').partitionN s r n it draws = k.partitionN s r n it draws := by
  cases k with
  | stickyKey h =>
    simp only [PKind.obsKey] at hkey
    cases s <;> simp [PKind.withHasher, PKind.partitionN, stickyKeyPartition, hkey]
  | uniformBytes c =>
    simp only [PKind.obsKey] at hkey
    cases s <;> simp [PKind.withHasher, PKind.partitionN, UB.partitionByBackup, UB.repick, hkey]
  | _ => rfl

/-- a record the key logic sees gets the hasher's index, from every state, and leaves the state alone. -/
theorem keyed_partitionN (k : PKind) (hk : KindOk k) (s : PState) (hs : Inv k s) (r : Rec) (key : List UInt8)
    (hkey : k.obsKey r = some key) (n : Int) (hn : 1 ≤ n) (hn2 : n ≤ 2147483647) (it : Iter) (draws : List Nat) :
    ∃ p, kindHasher k key n = some p ∧ 0 ≤ p ∧ p < n ∧ k.partitionN s r n it draws = .ok s p := by
  cases k with
  | roundRobin => simp [PKind.obsKey] at hkey
  | sticky => simp [PKind.obsKey] at hkey
  | leastBackup => simp [PKind.obsKey] at hkey
  | basic f => simp [PKind.obsKey] at hkey
  | stickyKey h =>
    simp only [PKind.obsKey] at hkey
    cases s <;> simp only [Inv] at hs
    obtain ⟨p, hp, h0, h1⟩ := hk key n hn hn2
    exact ⟨p, hp, h0, h1, by simp only [PKind.partitionN, stickyKeyPartition, hkey, hp]⟩
  | uniformBytes c =>
    simp only [PKind.obsKey] at hkey
    cases s <;> simp only [Inv] at hs
    obtain ⟨p, hp, h0, h1⟩ := hk key n hn hn2
    exact ⟨p, hp, h0, h1, by simp only [PKind.partitionN, UB.partitionByBackup, hkey, hp]⟩

theorem obsKey_newBatch_inv (k : PKind) (s : PState) (hs : Inv k s) : Inv k (k.onNewBatch s) :=
  newBatch_inv k s hs

/-! ### `pickFrom`: one pick, the range check, `mapping[pick]` -/

theorem not_rejects (p : Int) (len : Nat) (h0 : 0 ≤ p) (h1 : p < (len : Int)) : doPartitionRejects p len = false := by
  unfold doPartitionRejects
  simp only [Bool.or_eq_false_iff, decide_eq_false_iff_not]
  omega

theorem pickFrom_keyed (k : PKind) (hk : KindOk k) (s : PState) (hs : Inv k s) (r : Rec) (key : List UInt8)
    (hkey : k.obsKey r = some key) (ps : List Part) (h1 : 1 ≤ ps.length) (h2 : ps.length ≤ 2147483647)
    (hnum : Numbered ps) (draws : List Nat) :
    ∃ p part, kindHasher k key ps.length = some p ∧ 0 ≤ p ∧ p < ps.length ∧ part ∈ ps ∧ (part.num : Int) = p ∧
      ps[p.toNat]? = some part ∧ k.pickFrom s r ps draws = .ok s part := by
  obtain ⟨p, hp, h0, hlt, e⟩ := keyed_partitionN k hk s hs r key hkey ps.length (by omega) (by omega)
    (Iter.ofMapping (ps.map (·.buffered))) draws
  have hi : p.toNat < ps.length := by omega
  refine ⟨p, ps[p.toNat], hp, h0, hlt, List.getElem_mem hi, ?_, List.getElem?_eq_getElem hi, ?_⟩
  · rw [hnum p.toNat hi]; omega
  · unfold PKind.pickFrom
    rw [e]
    simp only [not_rejects p ps.length h0 hlt, List.getElem?_eq_getElem hi]
    rfl

theorem pickFrom_ok (k : PKind) (hk : KindOk k) (s : PState) (hs : Inv k s) (r : Rec) (ps : List Part)
    (hm : MappingOk ps) (draws : List Nat) :
    ∃ s' part, k.pickFrom s r ps draws = .ok s' part ∧ Inv k s' ∧ part ∈ ps := by
  obtain ⟨h1, h2, hb⟩ := hm
  have hv : OpValid k (.part r ps.length (ps.map (·.buffered)) draws) := by
    refine ⟨by omega, by omega, fun _ => ⟨by simp, ?_⟩⟩
    intro b hb'
    obtain ⟨q, hq, rfl⟩ := List.mem_map.mp hb'
    exact hb q hq
  obtain ⟨s', p, e, hi, h0, hlt⟩ := part_ok k s r ps.length (ps.map (·.buffered)) draws hk hs hv
  have hidx : p.toNat < ps.length := by omega
  refine ⟨s', ps[p.toNat], ?_, hi, List.getElem_mem hidx⟩
  unfold PKind.pickFrom
  rw [e]
  simp only [not_rejects p ps.length h0 hlt, List.getElem?_eq_getElem hidx]
  rfl

/-! ### `doPartition` -/

theorem mappingOf_consistent (k : PKind) (r : Rec) (t : TopicData) (h : k.requiresConsistency r = true) :
    k.mappingOf r t = t.partitions := by
  unfold PKind.mappingOf; rw [if_pos h]

/-- records that require consistency: `doPartition` does not read `writablePartitions`. -/
theorem doPartition_consistent_writable (k : PKind) (s : PState) (t : TopicData) (w : List Part) (r : Rec)
    (d₁ d₂ : List Nat) (h : k.requiresConsistency r = true) :
    k.doPartition s { t with writable := w } r d₁ d₂ = k.doPartition s t r d₁ d₂ := by
  unfold PKind.doPartition
  simp only [mappingOf_consistent k r _ h]

theorem doPartition_keyed (k : PKind) (hk : KindOk k) (s : PState) (hs : Inv k s) (r : Rec) (key : List UInt8)
    (hkey : k.obsKey r = some key) (t : TopicData) (hf : t.fatalLoadErr = false)
    (h1 : 1 ≤ t.partitions.length) (h2 : t.partitions.length ≤ 2147483647) (hnum : Numbered t.partitions)
    (d₁ d₂ : List Nat) :
    ∃ s' part b, k.doPartition s t r d₁ d₂ = .placed s' part b ∧ Inv k s' ∧ part ∈ t.partitions ∧
      kindHasher k key t.partitions.length = some (part.num : Int) ∧
      t.partitions[part.num]? = some part := by
  have hrc := rc_of_obsKey k r key hkey
  obtain ⟨p, part, hp, h0, hlt, hmem, hnumeq, hget, e⟩ :=
    pickFrom_keyed k hk s hs r key hkey t.partitions h1 h2 hnum d₁
  obtain ⟨p', part', hp', _, _, _, _, hget', e'⟩ :=
    pickFrom_keyed k hk (k.onNewBatch s) (newBatch_inv k s hs) r key hkey t.partitions h1 h2 hnum d₂
  have hpp : p' = p := by rw [hp] at hp'; exact (Option.some.inj hp').symm
  subst hpp
  have hparts : part' = part := by rw [hget] at hget'; exact (Option.some.inj hget').symm
  subst hparts
  have hidx : part'.num = p'.toNat := by omega
  have hfin : kindHasher k key t.partitions.length = some (part'.num : Int) := by rw [hp, hnumeq]
  unfold PKind.doPartition
  simp only [hf, mappingOf_consistent k r t hrc, Bool.false_eq_true, if_false]
  rw [if_neg (by omega), e]
  dsimp only
  by_cases hc : k.hasOnNewBatch = true ∧ part'.room = .newBatch
  · rw [if_pos hc, e']
    exact ⟨_, _, _, rfl, newBatch_inv k s hs, hmem, hfin, by rw [hidx]; exact hget⟩
  · rw [if_neg hc]
    exact ⟨_, _, _, rfl, hs, hmem, hfin, by rw [hidx]; exact hget⟩

theorem doPartition_ok (k : PKind) (hk : KindOk k) (s : PState) (hs : Inv k s) (r : Rec) (t : TopicData)
    (hf : t.fatalLoadErr = false) (hm : MappingOk (k.mappingOf r t)) (d₁ d₂ : List Nat) :
    ∃ s' part b, k.doPartition s t r d₁ d₂ = .placed s' part b ∧ Inv k s' ∧ part ∈ k.mappingOf r t := by
  obtain ⟨s₁, part, e, hi, hmem⟩ := pickFrom_ok k hk s hs r _ hm d₁
  obtain ⟨s₂, part₂, e₂, hi₂, hmem₂⟩ := pickFrom_ok k hk (k.onNewBatch s₁) (newBatch_inv k s₁ hi) r _ hm d₂
  unfold PKind.doPartition
  simp only [hf, Bool.false_eq_true, if_false]
  rw [if_neg (by have := hm.1; omega), e]
  dsimp only
  by_cases hc : k.hasOnNewBatch = true ∧ part.room = .newBatch
  · rw [if_pos hc, e₂]
    exact ⟨_, _, _, rfl, hi₂, hmem₂⟩
  · rw [if_neg hc]
    exact ⟨_, _, _, rfl, hi, hmem⟩

/-- `BasicConsistentPartitioner` / `ManualPartitioner`: the function's answer indexes *all* partitions, or
the record is failed; nothing else is read. -/
theorem doPartition_basic (f : Rec → Int → Option Int) (t : TopicData) (hf : t.fatalLoadErr = false)
    (h1 : 1 ≤ t.partitions.length) (r : Rec) (p : Int) (hp : f r t.partitions.length = some p) (d₁ d₂ : List Nat) :
    (PKind.basic f).doPartition .unit t r d₁ d₂ =
      if doPartitionRejects p t.partitions.length then .failInvalid p t.partitions.length
      else match t.partitions[p.toNat]? with
        | none => .panic
        | some part => .placed .unit part false := by
  unfold PKind.doPartition
  simp only [hf, mappingOf_consistent (.basic f) r t rfl, Bool.false_eq_true, if_false]
  rw [if_neg (by omega)]
  unfold PKind.pickFrom
  simp only [PKind.partitionN, hp]
  by_cases hr : doPartitionRejects p t.partitions.length = true
  · simp [hr]
  · simp only [hr, Bool.false_eq_true, if_false]
    cases t.partitions[p.toNat]? with
    | none => rfl
    | some part => simp [PKind.hasOnNewBatch]

end Proof.C28
