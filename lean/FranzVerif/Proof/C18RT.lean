import FranzVerif.Model.C18
import FranzVerif.Spec.C18
import FranzVerif.Proof.C18
/-! C18 — round trip: the reference decoder of `Spec.C18` reads back what the model's serialisers write. -/
namespace Proof.C18RT
open Spec.C18 (P CLog)
open Spec.C17 (byte encU lenU be zz unzz unbe signed leb)

abbrev Bytes := List (BitVec 8)

@[simp] theorem ok_bind {ε α β : Type} (a : α) (f : α → Except ε β) : (Except.ok a >>= f) = f a := rfl
@[simp] theorem error_bind {ε α β : Type} (e : ε) (f : α → Except ε β) : ((Except.error e : Except ε α) >>= f) = Except.error e := rfl

def run2 {α : Type} (p : P α) (s : Bytes) (log : CLog) : Except String ((α × Bytes) × CLog) := (p.run s).run log

/-- `p` reads exactly `enc` off the front of `enc ++ rest`, returns `v`, leaves the call log alone -/
def R {α : Type} (p : P α) (enc rest : Bytes) (v : α) : Prop :=
  ∀ log, run2 p (enc ++ rest) log = .ok ((v, rest), log)

theorem run2_bind {α β : Type} (p : P α) (f : α → P β) (s : Bytes) (log : CLog) :
    run2 (p >>= f) s log = (match run2 p s log with
      | .ok ((a, s'), log') => run2 (f a) s' log'
      | .error e => .error e) := by
  simp only [run2, StateT.run_bind]
  cases h : (p.run s).run log with
  | error e => simp
  | ok r => rcases r with ⟨⟨a, s'⟩, log'⟩; simp

theorem R_pure {α : Type} (a : α) (rest : Bytes) : R (pure a : P α) [] rest a := by
  intro log; simp [run2]; rfl

theorem R_bind {α β : Type} {p : P α} {f : α → P β} {e e' rest : Bytes} {v : α} {w : β}
    (hp : R p e (e' ++ rest) v) (hf : R (f v) e' rest w) : R (p >>= f) (e ++ e') rest w := by
  intro log
  rw [run2_bind, List.append_assoc, hp log]
  exact hf log

theorem R_get (rest : Bytes) : R (get : P Bytes) [] rest rest := by
  intro log; simp [run2]; rfl

theorem R_guard {k : String} {c : Prop} [Decidable c] (hc : ¬ c) (rest : Bytes) :
    R (if c then Spec.C18.err k else pure PUnit.unit : P PUnit) [] rest PUnit.unit := by
  simp only [hc, if_false]; exact R_pure _ _

theorem R_takeN (b rest : Bytes) (n : Nat) (h : b.length = n) : R (Spec.C18.takeN n) b rest b := by
  intro log
  subst h
  simp [run2, Spec.C18.takeN]
  rfl

/-! ### fixed width -/

theorem unbe_go (k n a : Nat) :
    (be k n).foldl (fun acc (b : BitVec 8) => acc * 256 + b.toNat) a = a * 256 ^ k + n % 256 ^ k := by
  induction k generalizing a with
  | zero => simp [be, Nat.mod_one]
  | succ k ih =>
    simp only [be, List.foldl_cons]
    rw [ih]
    have hb : (byte (n / 256 ^ k)).toNat = n / 256 ^ k % 256 := by simp [byte, BitVec.toNat_ofNat]
    rw [hb, Nat.mod_pow_succ, Nat.pow_succ]
    rw [Nat.add_mul, Nat.mul_assoc, Nat.mul_comm 256 (256 ^ k), Nat.mul_comm (n / 256 ^ k % 256) (256 ^ k)]
    omega

theorem unbe_be (k n : Nat) : unbe (be k n) = n % 256 ^ k := by
  simp [unbe, unbe_go]

theorem R_uN (k n : Nat) (rest : Bytes) : R (Spec.C18.uN k) (be k n) rest (n % 256 ^ k) := by
  have := R_bind (f := fun b => (pure (unbe b) : P Nat)) (R_takeN (be k n) ([] ++ rest) k (Proof.C18.be_length k n)) (R_pure _ rest)
  simpa [Spec.C18.uN, unbe_be] using this

theorem R_iN (k : Nat) (i : Int) (rest : Bytes)
    (h : signed (8 * k) ((i % (256 : Int) ^ k).toNat % 256 ^ k) = i) :
    R (Spec.C18.iN k) (Model.C18.beI k i) rest i := by
  have := R_bind (f := fun b => (pure (signed (8 * k) (unbe b)) : P Int))
    (R_takeN (Model.C18.beI k i) ([] ++ rest) k (Proof.C18.beI_length k i)) (R_pure _ rest)
  simpa [Spec.C18.iN, Model.C18.beI, unbe_be, h] using this

theorem sp2 (i : Int) (h : -32768 ≤ i ∧ i < 32768) :
    signed (8 * 2) ((i % (256 : Int) ^ 2).toNat % 256 ^ 2) = i := by
  simp [signed]; split <;> omega
theorem sp4 (i : Int) (h : -2147483648 ≤ i ∧ i < 2147483648) :
    signed (8 * 4) ((i % (256 : Int) ^ 4).toNat % 256 ^ 4) = i := by
  simp [signed]; split <;> omega
theorem sp8 (i : Int) (h : -9223372036854775808 ≤ i ∧ i < 9223372036854775808) :
    signed (8 * 8) ((i % (256 : Int) ^ 8).toNat % 256 ^ 8) = i := by
  simp [signed]; split <;> omega

def I16 (i : Int) : Prop := -32768 ≤ i ∧ i < 32768
def I32 (i : Int) : Prop := -2147483648 ≤ i ∧ i < 2147483648
def I64 (i : Int) : Prop := -9223372036854775808 ≤ i ∧ i < 9223372036854775808

theorem R_i16 (i : Int) (rest : Bytes) (h : I16 i) : R (Spec.C18.iN 2) (Model.C18.beI 2 i) rest i := R_iN 2 i rest (sp2 i h)
theorem R_i32 (i : Int) (rest : Bytes) (h : I32 i) : R (Spec.C18.iN 4) (Model.C18.beI 4 i) rest i := R_iN 4 i rest (sp4 i h)
theorem R_i64 (i : Int) (rest : Bytes) (h : I64 i) : R (Spec.C18.iN 8) (Model.C18.beI 8 i) rest i := R_iN 8 i rest (sp8 i h)

/-! ### varints -/

theorem unzz_zz (i : Int) : unzz (zz i) = i := by
  unfold unzz zz
  by_cases h : 0 ≤ i
  · simp only [h, if_true]
    have : (2 * i).toNat % 2 = 0 := by omega
    simp only [this, if_true]; omega
  · simp only [h, if_false]
    have : ¬ ((-2 * i - 1).toNat % 2 = 0) := by omega
    simp only [this, if_false]; omega

theorem R_uvar (n : Nat) (rest : Bytes) (h : lenU n ≤ 10) : R Spec.C18.uvar (encU n) rest n := by
  intro log
  have hlen := Proof.C17.encU_length n
  have ht : (encU n ++ rest).take 10 = encU n ++ rest.take (10 - lenU n) := by
    rw [List.take_append, hlen, List.take_of_length_le (by omega)]
  have hd : (encU n ++ rest).drop (lenU n) = rest := by
    rw [← hlen]; simp
  simp [run2, Spec.C18.uvar, ht, Proof.C17.leb_encU, hd]
  rfl

theorem R_svar (i : Int) (rest : Bytes) (h : lenU (zz i) ≤ 10) : R Spec.C18.svar (Model.C18.varint i) rest i := by
  have := R_bind (f := fun v => (pure (unzz v) : P Int)) (R_uvar (zz i) ([] ++ rest) h) (R_pure _ rest)
  simpa [Spec.C18.svar, Model.C18.varint, unzz_zz] using this

/-! ### `within`, nullable var-length bytes, headers -/

theorem R_within {α : Type} (b : Bytes) (what : String) (p : P α) (a : α) (st : Bytes)
    (hp : R p b [] a) : R (Spec.C18.within b what p) [] st a := by
  intro log
  have hp' : ∀ log, (p.run b).run log = .ok ((a, []), log) := by
    intro log; have := hp log; simpa [run2] using this
  simp [run2, Spec.C18.within, hp']
  rfl

theorem R_varBytes (b : Option Bytes) (rest : Bytes) (h : lenU (zz (Model.C18.blen b)) ≤ 10) :
    R Spec.C18.varBytes (Model.C18.varintBytes b) rest b := by
  cases b with
  | none =>
    have h1 : lenU (zz (-1)) ≤ 10 := by
      have : lenU (zz (-1)) = 1 := by simp [zz]; exact Proof.C17.lenU_lt (by omega)
      omega
    have := R_bind (f := fun l => (if l < 0 then (if l == -1 then pure none else Spec.C18.err "negative-length") else
        (do let b ← Spec.C18.takeN l.toNat; pure (some b)) : P (Option Bytes)))
      (R_svar (-1) ([] ++ rest) h1) (by simpa using R_pure (none : Option Bytes) rest)
    simpa [Spec.C18.varBytes, Model.C18.varintBytes] using this
  | some x =>
    simp only [Model.C18.blen] at h
    have hx : R (do let b ← Spec.C18.takeN ((x.length : Int)).toNat; pure (some b) : P (Option Bytes)) x rest (some x) := by
      have := R_bind (f := fun b => (pure (some b) : P (Option Bytes))) (R_takeN x ([] ++ rest) x.length rfl) (R_pure _ rest)
      simpa using this
    have := R_bind (f := fun l => (if l < 0 then (if l == -1 then pure none else Spec.C18.err "negative-length") else
        (do let b ← Spec.C18.takeN l.toNat; pure (some b)) : P (Option Bytes)))
      (R_svar (x.length : Int) (x ++ rest) h) (by
        have hn : ¬ ((x.length : Int) < 0) := by omega
        simp only [hn, if_false]; exact hx)
    simpa [Spec.C18.varBytes, Model.C18.varintBytes] using this

/-- run form of `R`, for `simp` -/
theorem run_of_R {α : Type} {p : P α} {e rest : Bytes} {v : α} (h : R p e rest v) (log : CLog) :
    (p.run (e ++ rest)).run log = .ok ((v, rest), log) := h log

def LenOK (n : Nat) : Prop := lenU (zz (n : Int)) ≤ 10
def HdrOK (h : Model.C18.Header) : Prop := LenOK h.key.length ∧ LenOK (Model.C18.blen h.value)

def dHeader (h : Model.C18.Header) : Spec.C18.DHeader := ⟨h.key, h.value⟩

theorem R_header (h : Model.C18.Header) (rest : Bytes) (hok : HdrOK h) :
    R Spec.C18.header (Model.C18.varintString h.key ++ Model.C18.varintBytes h.value) rest (dHeader h) := by
  intro log
  have e1 := fun r l => run_of_R (R_varBytes (some h.key) r hok.1) l
  have e2 := fun r l => run_of_R (R_varBytes h.value r hok.2) l
  simp only [Model.C18.varintBytes, List.append_assoc] at e1
  simp [run2, Spec.C18.header, Model.C18.varintString, e1, e2, dHeader]
  rfl

theorem R_headers (hs : List Model.C18.Header) (rest : Bytes) (hok : ∀ h ∈ hs, HdrOK h) :
    R (Spec.C18.repeatP Spec.C18.header hs.length) (Model.C18.headersTo hs) rest (hs.map dHeader) := by
  induction hs with
  | nil => simpa [Spec.C18.repeatP, Model.C18.headersTo] using R_pure ([] : List Spec.C18.DHeader) rest
  | cons h hs ih =>
    intro log
    have e1 := fun r l => run_of_R (R_header h r (hok h (List.mem_cons_self ..))) l
    have e2 := fun l => run_of_R (ih (fun x hx => hok x (List.mem_cons_of_mem _ hx))) l
    simp only [Model.C18.varintString, List.append_assoc] at e1
    simp [run2, Spec.C18.repeatP, Model.C18.headersTo, Model.C18.varintString, e1, e2]
    rfl

/-- well-formedness of a buffered record for the wire: every length and delta fits its varint -/
structure PRecOK (pr : Model.C18.PRec) (i : Nat) : Prop where
  len : LenOK pr.length
  tsd : lenU (zz pr.tsDelta) ≤ 10
  idx : LenOK i
  key : LenOK (Model.C18.blen pr.r.key)
  value : LenOK (Model.C18.blen pr.r.value)
  nh : LenOK pr.r.headers.length
  hdrs : ∀ h ∈ pr.r.headers, HdrOK h
  ok : Proof.C18.RecOK pr i

/-- what the reference decoder returns for a buffered record of a batch with first timestamp `ft` -/
def dRec (ft : Int) (pr : Model.C18.PRec) : Spec.C18.DRec :=
  ⟨some (ft + pr.tsDelta), pr.r.key, pr.r.value, pr.r.headers.map dHeader⟩

/-- the record body as written (after its length prefix) -/
def bodyBytes (pr : Model.C18.PRec) (i : Nat) : Bytes :=
  0#8 :: (Model.C18.varint pr.tsDelta ++ (Model.C18.varint i ++ (Model.C18.varintBytes pr.r.key ++
    (Model.C18.varintBytes pr.r.value ++ (Model.C18.varint pr.r.headers.length ++ Model.C18.headersTo pr.r.headers)))))

theorem recordAppendTo_eq (pr : Model.C18.PRec) (i : Nat) :
    Model.C18.recordAppendTo pr i = Model.C18.varint pr.length ++ bodyBytes pr i := by
  simp [Model.C18.recordAppendTo, bodyBytes]

theorem bodyBytes_length (pr : Model.C18.PRec) (i : Nat) (h : Proof.C18.RecOK pr i) : (bodyBytes pr i).length = pr.length := by
  have := Proof.C18.recordAppendTo_length pr i h
  rw [recordAppendTo_eq] at this
  simp [Model.C18.numsWireLength] at this
  omega

theorem R_record (ft : Int) (pr : Model.C18.PRec) (i : Nat) (rest : Bytes) (h : PRecOK pr i) :
    R (Spec.C18.record ft i) (Model.C18.recordAppendTo pr i) rest (dRec ft pr) := by
  intro log
  rw [recordAppendTo_eq]
  have eLen := fun r l => run_of_R (R_svar (pr.length : Int) r h.len) l
  have eBody := fun r l => run_of_R (R_takeN (bodyBytes pr i) r pr.length (bodyBytes_length pr i h.ok)) l
  have eAttr := fun r l => run_of_R (R_takeN [0#8] r 1 rfl) l
  have eTsd := fun r l => run_of_R (R_svar pr.tsDelta r h.tsd) l
  have eIdx := fun r l => run_of_R (R_svar (i : Int) r h.idx) l
  have eKey := fun r l => run_of_R (R_varBytes pr.r.key r h.key) l
  have eVal := fun r l => run_of_R (R_varBytes pr.r.value r h.value) l
  have eNh := fun r l => run_of_R (R_svar (pr.r.headers.length : Int) r h.nh) l
  have eHs := fun l => run_of_R (R_headers pr.r.headers [] h.hdrs) l
  simp only [List.append_nil] at eHs
  have hlen : ¬ ((pr.length : Int) < 0) := by omega
  have hnh : ¬ ((pr.r.headers.length : Int) < 0) := by omega
  have hu : unbe [0#8] = 0 := by decide
  simp only [List.singleton_append] at eAttr
  simp [run2, Spec.C18.record, Spec.C18.within, Spec.C18.u8, eLen, eBody, hlen]
  simp [bodyBytes, eAttr, hu, eTsd, eIdx, eKey, eVal, eNh, hnh, eHs, dRec]
  rfl

def AllP : Nat → List Model.C18.PRec → Prop
  | _, [] => True
  | i, pr :: rest => PRecOK pr i ∧ AllP (i + 1) rest

theorem R_records (ft : Int) (l : List Model.C18.PRec) (i : Nat) (rest : Bytes) (h : AllP i l) :
    R (Spec.C18.recordsP ft i l.length) (Model.C18.recordsFrom i l) rest (l.map (dRec ft)) := by
  induction l generalizing i with
  | nil => simpa [Spec.C18.recordsP, Model.C18.recordsFrom] using R_pure ([] : List Spec.C18.DRec) rest
  | cons pr l ih =>
    intro log
    have e1 := fun r lg => run_of_R (R_record ft pr i r h.1) lg
    have e2 := fun lg => run_of_R (ih (i + 1) h.2) lg
    simp [run2, Spec.C18.recordsP, Model.C18.recordsFrom, e1, e2]
    rfl

theorem R_uN_beI (k m : Nat) (rest : Bytes) (h : m < 256 ^ k) : R (Spec.C18.uN k) (Model.C18.beI k (m : Int)) rest m := by
  have h1 : ((m : Int) % (256 : Int) ^ k).toNat = m := by
    have h2 : ((m : Int) % (256 : Int) ^ k) = ((m % 256 ^ k : Nat) : Int) := by simp
    rw [h2, Nat.mod_eq_of_lt h]; simp
  have := R_uN k m rest
  rw [Nat.mod_eq_of_lt h] at this
  simp only [Model.C18.beI, Int.natCast_pow, Int.cast_ofNat_Int, h1]
  exact this

/-- a batch as `createReq` hands it to the serialiser, with every fixed-width field in range -/
structure BatchWF (b : Model.C18.Batch) (pid ep seq : Int) : Prop where
  inv : Proof.C18.BatchInv b
  recs : AllP 0 b.records
  ft : I64 b.firstTimestamp
  mt : I64 (b.firstTimestamp + b.maxTimestampDelta)
  pid : I64 pid
  ep : I16 ep
  seq : I32 seq
  ne : b.records ≠ []
  wl : b.wireLength < 2147483648
  n : (b.records.length : Int) < 2147483648

/-- what the reference decoder returns for a written, uncompressed record batch -/
def dBatch (pb : Model.C18.PartBatch) (pid ep : Int) (tx : Bool) (blobLen : Nat) : Spec.C18.DBatch :=
  { partition := pb.partition, blobLen := blobLen, magic := 2, pid := pid, epoch := ep,
    baseSeq := if pid < 0 then 0 else pb.seq, transactional := tx, codec := 0,
    firstTs := pb.batch.firstTimestamp, maxTs := pb.batch.firstTimestamp + pb.batch.maxTimestampDelta,
    recs := pb.batch.records.map (dRec pb.batch.firstTimestamp) }

/-- the CRC-covered part of a written batch (attributes … records), `attrs` = 0 or 16 -/
def crcdBytes (pb : Model.C18.PartBatch) (pid ep : Int) (attrs : Nat) : Bytes :=
  Model.C18.beI 2 (attrs : Int) ++ (Model.C18.beI 4 ((pb.batch.records.length : Int) - 1) ++ (Model.C18.beI 8 pb.batch.firstTimestamp ++
    (Model.C18.beI 8 (pb.batch.firstTimestamp + pb.batch.maxTimestampDelta) ++ (Model.C18.beI 8 pid ++ (Model.C18.beI 2 ep ++
      (Model.C18.beI 4 (if pid < 0 then 0 else pb.seq) ++ (Model.C18.beI 4 (pb.batch.records.length : Int) ++
        Model.C18.recordsFrom 0 pb.batch.records)))))))

/-- a written batch after `baseOffset` and `batchLength` -/
def tailBytes (crc : Bytes → Nat) (pb : Model.C18.PartBatch) (pid ep : Int) (attrs : Nat) : Bytes :=
  Model.C18.beI 4 (-1) ++ (2#8 :: (Model.C18.beI 4 (crc (crcdBytes pb pid ep attrs) : Int) ++ crcdBytes pb pid ep attrs))

def attrsOf (tx : Bool) : Nat := if tx then 16 else 0

theorem batchBody_eq (crc : Bytes → Nat) (pb : Model.C18.PartBatch) (v pid ep : Int) (tx : Bool) :
    Model.C18.batchBody crc none pb v pid ep tx =
      Model.C18.beI 8 0 ++ (Model.C18.beI 4 (pb.batch.wireLength - 4 - 8 - 4) ++ tailBytes crc pb pid ep (attrsOf tx)) := by
  cases tx <;> simp [Model.C18.batchBody, Model.C18.compressStep, tailBytes, crcdBytes, attrsOf]

set_option maxRecDepth 4000 in
theorem R_batchTail (crc : Bytes → Nat) (hcrc : ∀ x, crc x < 4294967296) (pb : Model.C18.PartBatch) (pid ep : Int) (tx : Bool)
    (blobLen : Nat) (h : BatchWF pb.batch pid ep (if pid < 0 then 0 else pb.seq)) :
    R (Spec.C18.batchTail crc false pb.partition blobLen) (tailBytes crc pb pid ep (attrsOf tx)) [] (dBatch pb pid ep tx blobLen) := by
  intro log
  have ePle := fun r l => run_of_R (R_i32 (-1) r (by unfold I32; omega)) l
  have eMagic := fun r l => run_of_R (R_takeN [2#8] r 1 rfl) l
  have eCrc := fun (x : Bytes) r l => run_of_R (R_uN_beI 4 (crc x) r (by have := hcrc x; omega)) l
  have eLod := fun r l => run_of_R (R_i32 ((pb.batch.records.length : Int) - 1) r (by have := h.n; unfold I32; omega)) l
  have eFt := fun r l => run_of_R (R_i64 pb.batch.firstTimestamp r h.ft) l
  have eMt := fun r l => run_of_R (R_i64 (pb.batch.firstTimestamp + pb.batch.maxTimestampDelta) r h.mt) l
  have ePid := fun r l => run_of_R (R_i64 pid r h.pid) l
  have eEp := fun r l => run_of_R (R_i16 ep r h.ep) l
  have eSeq := fun r l => run_of_R (R_i32 (if pid < 0 then 0 else pb.seq) r h.seq) l
  have eN := fun r l => run_of_R (R_i32 (pb.batch.records.length : Int) r (by have := h.n; unfold I32; omega)) l
  have eRecs := fun l => run_of_R (R_records pb.batch.firstTimestamp pb.batch.records 0 [] h.recs) l
  simp only [List.append_nil] at eRecs
  simp only [List.singleton_append] at eMagic
  have hu : unbe [2#8] = 2 := by decide
  have hn0 : ¬ ((pb.batch.records.length : Int) < 0) := by omega
  have eA0 : ∀ r l, ((Spec.C18.uN 2).run (Model.C18.beI 2 0 ++ r)).run l = .ok ((0, r), l) := fun r l => by
    simpa using run_of_R (R_uN_beI 2 0 r (by omega)) l
  have eA16 : ∀ r l, ((Spec.C18.uN 2).run (Model.C18.beI 2 16 ++ r)).run l = .ok ((16, r), l) := fun r l => by
    simpa using run_of_R (R_uN_beI 2 16 r (by omega)) l
  simp [run2, Spec.C18.batchTail, tailBytes, Spec.C18.u8, ePle, eMagic, hu, eCrc]
  cases tx <;>
    simp [attrsOf, crcdBytes, eA0, eA16, eLod, eFt, eMt, ePid, eEp, eSeq, eN, hn0, Spec.C18.nextCall, Spec.C18.plainOf,
      Spec.C18.within, eRecs, dBatch] <;> rfl

theorem tailBytes_length (crc : Bytes → Nat) (pb : Model.C18.PartBatch) (pid ep : Int) (attrs : Nat)
    (h : Proof.C18.BatchInv pb.batch) :
    ((tailBytes crc pb pid ep attrs).length : Int) = pb.batch.wireLength - 4 - 8 - 4 := by
  have hrf := Proof.C18.recordsFrom_length 0 pb.batch.records h.ok
  have hw := h.wire
  simp only [Model.C18.recordBatchOverhead] at hw
  simp [tailBytes, crcdBytes, hrf]
  omega

/-- **Record batch round trip** (no compressor): the reference decoder reads back, from the batch
`seqRecBatch.appendTo` writes, the buffered records in order with their timestamps, the producer id, epoch,
sequence, transactional bit, first and max timestamps — having checked magic, CRC span, lengths, offset deltas. -/
theorem R_recordBatch (crc : Bytes → Nat) (hcrc : ∀ x, crc x < 4294967296) (pb : Model.C18.PartBatch) (v pid ep : Int) (tx : Bool)
    (st : Bytes) (h : BatchWF pb.batch pid ep (if pid < 0 then 0 else pb.seq)) :
    R (Spec.C18.recordBatch crc false pb.partition (Model.C18.batchBody crc none pb v pid ep tx)) [] st
      (dBatch pb pid ep tx (Model.C18.batchBody crc none pb v pid ep tx).length) := by
  unfold Spec.C18.recordBatch
  apply R_within
  rw [batchBody_eq]
  intro log
  have eBase := fun r l => run_of_R (R_i64 0 r (by unfold I64; omega)) l
  have eLen := fun r l => run_of_R (R_i32 (pb.batch.wireLength - 4 - 8 - 4) r (by
    have := h.wl; have hw := h.inv.wire; simp only [Model.C18.recordBatchOverhead] at hw; unfold I32; omega)) l
  have eTail := fun bl l => run_of_R (R_batchTail crc hcrc pb pid ep tx bl h) l
  simp only [List.append_nil] at eTail
  have hTL := tailBytes_length crc pb pid ep (attrsOf tx) h.inv
  simp [run2, eBase, eLen, hTL, eTail]

/-! ### partition, topic, request (Produce v3+, no compressor) -/

theorem R_zeroTag (rest : Bytes) : R Spec.C18.uvar [0#8] rest 0 := by
  have h0 : encU 0 = [0#8] := by rw [Proof.C17.encU_lt (by omega)]; rfl
  have := R_uvar 0 rest (by rw [Proof.C17.lenU_lt (by omega)]; omega)
  rwa [h0] at this

theorem R_emptyTags_flex (rest : Bytes) : R (Spec.C18.emptyTags true) [0#8] rest () := by
  intro log
  have e := fun r l => run_of_R (R_zeroTag r) l
  simp only [List.singleton_append] at e
  simp [run2, Spec.C18.emptyTags, e]
  rfl

theorem R_emptyTags_nonflex (rest : Bytes) : R (Spec.C18.emptyTags false) [] rest () := by
  intro log; simp [run2, Spec.C18.emptyTags]; rfl

/-- the model's environment without compressor -/
def env0 (crc crc32 : Bytes → Nat) : Model.C18.Env := { crc32c := crc, crc32 := crc32, comp := none }

theorem batchAppendTo_eq (crc : Bytes → Nat) (pb : Model.C18.PartBatch) (v pid ep : Int) (tx : Bool)
    (h : Proof.C18.BatchInv pb.batch) :
    Model.C18.batchAppendTo crc none pb v pid ep tx =
      (if v ≥ 9 then Model.C18.uvarint (Model.C18.uvar32 (Model.C18.batchLength pb.batch))
       else Model.C18.beI 4 (pb.batch.wireLength - 4)) ++ Model.C18.batchBody crc none pb v pid ep tx := by
  have hb := Proof.C18.batchBody_length crc none pb v pid ep tx h
  simp only [Proof.C18.savingsOf_none, Int.natCast_zero, Int.sub_zero] at hb
  unfold Model.C18.batchAppendTo
  simp only [hb, if_true, Proof.C18.savingsOf_none, Int.natCast_zero, Int.sub_zero]
  by_cases h9 : v ≥ 9 <;> simp [h9]

set_option maxRecDepth 4000 in
theorem R_partition (crc crc32 : Bytes → Nat) (hcrc : ∀ x, crc x < 4294967296) (pb : Model.C18.PartBatch) (v pid ep : Int) (tx : Bool)
    (rest : Bytes) (hv : 3 ≤ v) (hp : I32 pb.partition) (h : BatchWF pb.batch pid ep (if pid < 0 then 0 else pb.seq)) :
    R (Spec.C18.partitionP crc crc32 false v) (Model.C18.partAppendTo (env0 crc crc32) v pid ep tx pb) rest
      (dBatch pb pid ep tx (Model.C18.batchBody crc none pb v pid ep tx).length) := by
  intro log
  have hb := Proof.C18.batchBody_length crc none pb v pid ep tx h.inv
  simp only [Proof.C18.savingsOf_none, Int.natCast_zero, Int.sub_zero, Model.C18.batchLength] at hb
  have hw := h.inv.wire
  simp only [Model.C18.recordBatchOverhead] at hw
  have hlt : ¬ v < 3 := by omega
  have ePart := fun r l => run_of_R (R_i32 pb.partition r hp) l
  have eBody := fun r l => run_of_R (R_takeN (Model.C18.batchBody crc none pb v pid ep tx) r _ rfl) l
  have eBatch := fun st l => run_of_R (R_recordBatch crc hcrc pb v pid ep tx st h) l
  simp only [List.nil_append] at eBatch
  unfold Model.C18.partAppendTo
  simp only [env0, hlt, if_false, batchAppendTo_eq crc pb v pid ep tx h.inv]
  by_cases h9 : v ≥ 9
  · have eTag := fun r l => run_of_R (R_emptyTags_flex r) l
    simp only [List.singleton_append] at eTag
    have hu : Model.C18.uvar32 (Model.C18.batchLength pb.batch) = 1 + (Model.C18.batchBody crc none pb v pid ep tx).length := by
      simp only [Model.C18.uvar32, Model.C18.batchLength]; omega
    have eU := fun r l => run_of_R (R_uvar (1 + (Model.C18.batchBody crc none pb v pid ep tx).length) r (by
      have := h.wl
      exact Nat.le_trans (Proof.C17.lenU_le 5 _ (by omega) (by omega)) (by omega))) l
    simp [run2, Spec.C18.partitionP, Spec.C18.recordsBlobP, h9, hlt, hu, Model.C18.uvarint, ePart, eU, eBody, eTag, eBatch]
  · have eTag := fun r l => run_of_R (R_emptyTags_nonflex r) l
    simp only [List.nil_append] at eTag
    have eL := fun r l => run_of_R (R_i32 (pb.batch.wireLength - 4) r (by have := h.wl; unfold I32; omega)) l
    have hl0 : ¬ (pb.batch.wireLength - 4 < 0) := by omega
    have hl1 : (pb.batch.wireLength - 4).toNat = (Model.C18.batchBody crc none pb v pid ep tx).length := by omega
    simp [run2, Spec.C18.partitionP, Spec.C18.recordsBlobP, h9, hlt, ePart, eL, hl0, hl1, eBody, eTag, eBatch]

def dParts (crc : Bytes → Nat) (v pid ep : Int) (tx : Bool) (ps : List Model.C18.PartBatch) : List Spec.C18.DBatch :=
  ps.map fun pb => dBatch pb pid ep tx (Model.C18.batchBody crc none pb v pid ep tx).length

def PartsWF (pid ep : Int) : List Model.C18.PartBatch → Prop
  | [] => True
  | pb :: ps => (I32 pb.partition ∧ BatchWF pb.batch pid ep (if pid < 0 then 0 else pb.seq)) ∧ PartsWF pid ep ps

theorem R_parts (crc crc32 : Bytes → Nat) (hcrc : ∀ x, crc x < 4294967296) (v pid ep : Int) (tx : Bool) (hv : 3 ≤ v)
    (ps : List Model.C18.PartBatch) (rest : Bytes) (h : PartsWF pid ep ps) :
    R (Spec.C18.repeatP (Spec.C18.partitionP crc crc32 false v) ps.length)
      (Model.C18.partsAppendTo (env0 crc crc32) v pid ep tx ps) rest (dParts crc v pid ep tx ps) := by
  induction ps with
  | nil => simpa [Spec.C18.repeatP, Model.C18.partsAppendTo, dParts] using R_pure ([] : List Spec.C18.DBatch) rest
  | cons pb ps ih =>
    intro log
    have e1 := fun r l => run_of_R (R_partition crc crc32 hcrc pb v pid ep tx r hv h.1.1 h.1.2) l
    have e2 := fun l => run_of_R (ih h.2) l
    simp only [dParts] at e2
    simp [run2, Spec.C18.repeatP, Model.C18.partsAppendTo, e1, e2, dParts]
    rfl

def dTopic (crc : Bytes → Nat) (v pid ep : Int) (tx : Bool) (t : Model.C18.TopicBatches) : Spec.C18.DTopic :=
  ⟨if v ≥ 13 then none else some t.topic, if v ≥ 13 then some t.topicID else none, dParts crc v pid ep tx t.parts⟩

structure TopicWF (pid ep : Int) (t : Model.C18.TopicBatches) : Prop where
  id : t.topicID.length = 16
  name : t.topic.length < 32768
  np : t.parts.length < 2147483647
  parts : PartsWF pid ep t.parts

theorem lenU_le5 (n : Nat) (h : n < 4294967296) : lenU n ≤ 10 :=
  Nat.le_trans (Proof.C17.lenU_le 5 n (by omega) (by omega)) (by omega)

set_option maxRecDepth 4000 in
theorem R_topic (crc crc32 : Bytes → Nat) (hcrc : ∀ x, crc x < 4294967296) (v pid ep : Int) (tx : Bool) (hv : 3 ≤ v)
    (t : Model.C18.TopicBatches) (rest : Bytes) (h : TopicWF pid ep t) :
    R (Spec.C18.topicP crc crc32 false v) (Model.C18.topicAppendTo (env0 crc crc32) v pid ep tx t) rest (dTopic crc v pid ep tx t) := by
  intro log
  have eParts := fun r l => run_of_R (R_parts crc crc32 hcrc v pid ep tx hv t.parts r h.parts) l
  unfold Model.C18.topicAppendTo
  by_cases h13 : v ≥ 13
  · have h9 : v ≥ 9 := by omega
    have eId := fun r l => run_of_R (R_takeN t.topicID r 16 h.id) l
    have eN := fun r l => run_of_R (R_uvar (1 + t.parts.length) r (lenU_le5 _ (by have := h.np; omega))) l
    have eTag := fun r l => run_of_R (R_emptyTags_flex r) l
    simp only [List.singleton_append] at eTag
    simp [run2, Spec.C18.topicP, Spec.C18.arrayLenP, h13, h9, Model.C18.compactArrayLen, Model.C18.uvarint, eId, eN, eParts, eTag, dTopic]
    rfl
  · by_cases h9 : v ≥ 9
    · have eS := fun r l => run_of_R (R_uvar (1 + t.topic.length) r (lenU_le5 _ (by have := h.name; omega))) l
      have eName := fun r l => run_of_R (R_takeN t.topic r t.topic.length rfl) l
      have eN := fun r l => run_of_R (R_uvar (1 + t.parts.length) r (lenU_le5 _ (by have := h.np; omega))) l
      have eTag := fun r l => run_of_R (R_emptyTags_flex r) l
      simp only [List.singleton_append] at eTag
      simp [run2, Spec.C18.topicP, Spec.C18.arrayLenP, Spec.C18.stringP, h13, h9, Model.C18.compactArrayLen, Model.C18.compactString,
        Model.C18.uvarint, eS, eName, eN, eParts, eTag, dTopic]
      rfl
    · have eS := fun r l => run_of_R (R_i16 (t.topic.length : Int) r (by have := h.name; unfold I16; omega)) l
      have eName := fun r l => run_of_R (R_takeN t.topic r t.topic.length rfl) l
      have eN := fun r l => run_of_R (R_i32 (t.parts.length : Int) r (by have := h.np; unfold I32; omega)) l
      have eTag := fun r l => run_of_R (R_emptyTags_nonflex r) l
      simp only [List.nil_append] at eTag
      have hs0 : ¬ ((t.topic.length : Int) < 0) := by omega
      have hn0 : ¬ ((t.parts.length : Int) < 0) := by omega
      simp [run2, Spec.C18.topicP, Spec.C18.arrayLenP, Spec.C18.stringP, h13, h9, Model.C18.arrayLen, Model.C18.string16,
        eS, eName, eN, hs0, hn0, eParts, eTag, dTopic]
      rfl

theorem R_topics (crc crc32 : Bytes → Nat) (hcrc : ∀ x, crc x < 4294967296) (v pid ep : Int) (tx : Bool) (hv : 3 ≤ v)
    (ts : List Model.C18.TopicBatches) (rest : Bytes) (h : ∀ t ∈ ts, TopicWF pid ep t) :
    R (Spec.C18.repeatP (Spec.C18.topicP crc crc32 false v) ts.length)
      (Model.C18.topicsAppendTo (env0 crc crc32) v pid ep tx ts) rest (ts.map (dTopic crc v pid ep tx)) := by
  induction ts with
  | nil => simpa [Spec.C18.repeatP, Model.C18.topicsAppendTo] using R_pure ([] : List Spec.C18.DTopic) rest
  | cons t ts ih =>
    intro log
    have e1 := fun r l => run_of_R (R_topic crc crc32 hcrc v pid ep tx hv t r (h t (List.mem_cons_self ..))) l
    have e2 := fun l => run_of_R (ih (fun x hx => h x (List.mem_cons_of_mem _ hx))) l
    simp [run2, Spec.C18.repeatP, Model.C18.topicsAppendTo, e1, e2]
    rfl

theorem R_nullableString16 (s : Option Bytes) (rest : Bytes) (h : Model.C18.blen s < 32768) :
    R (Spec.C18.nullableStringP false) (Model.C18.nullableString s) rest s := by
  intro log
  cases s with
  | none =>
    have e := fun r l => run_of_R (R_i16 (-1) r (by unfold I16; omega)) l
    simp [run2, Spec.C18.nullableStringP, Model.C18.nullableString, e]
    rfl
  | some x =>
    simp only [Model.C18.blen] at h
    have e := fun r l => run_of_R (R_i16 (x.length : Int) r (by unfold I16; omega)) l
    have eT := fun r l => run_of_R (R_takeN x r x.length rfl) l
    have h0 : ¬ ((x.length : Int) < 0) := by omega
    simp [run2, Spec.C18.nullableStringP, Model.C18.nullableString, Model.C18.string16, e, eT, h0]
    rfl

theorem R_compactNullableString (s : Option Bytes) (rest : Bytes) (h : Model.C18.blen s < 32768) :
    R (Spec.C18.nullableStringP true) (Model.C18.compactNullableString s) rest s := by
  intro log
  cases s with
  | none =>
    have e := fun r l => run_of_R (R_uvar 0 r (lenU_le5 _ (by omega))) l
    simp [run2, Spec.C18.nullableStringP, Model.C18.compactNullableString, Model.C18.uvarint, e]
    rfl
  | some x =>
    simp only [Model.C18.blen] at h
    have e := fun r l => run_of_R (R_uvar (1 + x.length) r (lenU_le5 _ (by omega))) l
    have eT := fun r l => run_of_R (R_takeN x r x.length rfl) l
    simp [run2, Spec.C18.nullableStringP, Model.C18.compactNullableString, Model.C18.compactString, Model.C18.uvarint, e, eT]
    rfl

/-- a frame after its size field, as `AppendRequest` writes it -/
def restOf (e : Model.C18.Env) (c : Model.C18.Cfg) (v corr pid ep : Int) (ts : List Model.C18.TopicBatches) : Bytes :=
  Model.C18.beI 2 0 ++ Model.C18.beI 2 v ++ Model.C18.beI 4 corr ++ Model.C18.nullableString c.clientId
    ++ (if v ≥ 9 then [0#8] else []) ++ Model.C18.requestAppendTo e c v pid ep ts

theorem appendRequest_eq (e : Model.C18.Env) (c : Model.C18.Cfg) (v corr pid ep : Int) (ts : List Model.C18.TopicBatches) :
    Model.C18.appendRequest e c v corr pid ep ts = Model.C18.beI 4 ((restOf e c v corr pid ep ts).length : Int) ++ restOf e c v corr pid ep ts := rfl

def dReq (crc : Bytes → Nat) (frameLen : Nat) (c : Model.C18.Cfg) (v corr pid ep : Int) (ts : List Model.C18.TopicBatches) : Spec.C18.DReq :=
  ⟨frameLen, v, corr, c.clientId, c.txnId, c.acks, c.timeoutMs, ts.map (dTopic crc v pid ep c.txnId.isSome)⟩

structure ReqWF (c : Model.C18.Cfg) (v corr pid ep : Int) (ts : List Model.C18.TopicBatches) : Prop where
  v3 : 3 ≤ v
  v13 : v ≤ 13
  corr : I32 corr
  cid : Model.C18.blen c.clientId < 32768
  txn : Model.C18.blen c.txnId < 32768
  acks : I16 c.acks
  timeout : I32 c.timeoutMs
  nt : ts.length < 2147483647
  topics : ∀ t ∈ ts, TopicWF pid ep t

set_option maxRecDepth 4000 in
theorem R_requestTail (crc crc32 : Bytes → Nat) (hcrc : ∀ x, crc x < 4294967296) (c : Model.C18.Cfg) (v corr pid ep : Int)
    (ts : List Model.C18.TopicBatches) (frameLen : Nat) (h : ReqWF c v corr pid ep ts) :
    R (Spec.C18.requestTail crc crc32 false frameLen) (restOf (env0 crc crc32) c v corr pid ep ts) [] (dReq crc frameLen c v corr pid ep ts) := by
  intro log
  have hv3 := h.v3
  have hv13 := h.v13
  have eKey := fun r l => run_of_R (R_i16 0 r (by unfold I16; omega)) l
  have eVer := fun r l => run_of_R (R_i16 v r (by unfold I16; omega)) l
  have eCorr := fun r l => run_of_R (R_i32 corr r h.corr) l
  have eCid := fun r l => run_of_R (R_nullableString16 c.clientId r h.cid) l
  have eAcks := fun r l => run_of_R (R_i16 c.acks r h.acks) l
  have eTo := fun r l => run_of_R (R_i32 c.timeoutMs r h.timeout) l
  have eTopics := fun r l => run_of_R (R_topics crc crc32 hcrc v pid ep c.txnId.isSome hv3 ts r h.topics) l
  have hv0 : ¬ v < 0 := by omega
  have hv13' : ¬ v > 13 := by omega
  have hv3' : v ≥ 3 := hv3
  by_cases h9 : v ≥ 9
  · have eTag := fun r l => run_of_R (R_emptyTags_flex r) l
    simp only [List.singleton_append] at eTag
    have eTxn := fun r l => run_of_R (R_compactNullableString c.txnId r h.txn) l
    have eN := fun r l => run_of_R (R_uvar (1 + ts.length) r (lenU_le5 _ (by have := h.nt; omega))) l
    simp [run2, Spec.C18.requestTail, restOf, Model.C18.requestAppendTo, Spec.C18.arrayLenP, h9, hv0, hv13', hv3',
      Model.C18.compactArrayLen, Model.C18.uvarint, eKey, eVer, eCorr, eCid, eTag, eTxn, eAcks, eTo, eN, eTopics, dReq]
    rfl
  · have eTag := fun r l => run_of_R (R_emptyTags_nonflex r) l
    simp only [List.nil_append] at eTag
    have eTxn := fun r l => run_of_R (R_nullableString16 c.txnId r h.txn) l
    have eN := fun r l => run_of_R (R_i32 (ts.length : Int) r (by have := h.nt; unfold I32; omega)) l
    have hn0 : ¬ ((ts.length : Int) < 0) := by omega
    have eTopics0 := fun l => eTopics [] l
    simp only [List.append_nil] at eTopics0
    simp [run2, Spec.C18.requestTail, restOf, Model.C18.requestAppendTo, Spec.C18.arrayLenP, h9, hv0, hv13', hv3',
      Model.C18.arrayLen, eKey, eVer, eCorr, eCid, eTag, eTxn, eAcks, eTo, eN, hn0, eTopics0, dReq]
    rfl

/-- **Request round trip** (Produce v3–v13, no compressor): the reference decoder reads back from the frame
`AppendRequest` writes the request header, ids, acks, timeout and, per topic and partition in the written order,
the batches with their buffered records. -/
theorem R_request (crc crc32 : Bytes → Nat) (hcrc : ∀ x, crc x < 4294967296) (c : Model.C18.Cfg) (v corr pid ep : Int)
    (ts : List Model.C18.TopicBatches) (st : Bytes) (h : ReqWF c v corr pid ep ts)
    (hlen : (Model.C18.appendRequest (env0 crc crc32) c v corr pid ep ts).length < 2147483648) :
    R (Spec.C18.requestP crc crc32 false (Model.C18.appendRequest (env0 crc crc32) c v corr pid ep ts)) [] st
      (dReq crc (Model.C18.appendRequest (env0 crc crc32) c v corr pid ep ts).length c v corr pid ep ts) := by
  unfold Spec.C18.requestP
  apply R_within
  intro log
  have hl : (restOf (env0 crc crc32) c v corr pid ep ts).length < 2147483648 := by
    rw [appendRequest_eq] at hlen; simp at hlen; omega
  have eSize := fun r l => run_of_R (R_i32 ((restOf (env0 crc crc32) c v corr pid ep ts).length : Int) r (by unfold I32; omega)) l
  have eTail := fun bl l => run_of_R (R_requestTail crc crc32 hcrc c v corr pid ep ts bl h) l
  simp only [List.append_nil] at eTail
  rw [appendRequest_eq]
  simp [run2, eSize, eTail]

end Proof.C18RT
