import FranzVerif.Model.C18
import FranzVerif.Spec.C18
import FranzVerif.Proof.C18
/-! C18 — round trip: the reference decoder of `Spec.C18` reads back what the model's serialisers write. -/
namespace Proof.C18RT
open Spec.C18 (P CLog)
open Spec.C17 (byte encU lenU be zz unzz unbe signed leb)

abbrev Bytes := List (BitVec 8)

@[simp] theorem ok_bind {ε α β : Type} (a : α) (f : α → Except ε β) : (Except.ok a >>= f) = f a := rfl
@[simp] theorem error_bind {ε α β : Type} (e : ε) (f : α → Except ε β) : ((Except.error e : Except ε α) >>= f) = Except.error e := rfl

def run2 {α : Type} (p : P α) (s : Bytes) (log : CLog) : Except String ((α × Bytes) × CLog) := (p.run s).run log

/-- `p` reads exactly `enc` off the front of `enc ++ rest`, returns `v`, leaves the call log alone -/
def R {α : Type} (p : P α) (enc rest : Bytes) (v : α) : Prop :=
  ∀ log, run2 p (enc ++ rest) log = .ok ((v, rest), log)

theorem run2_bind {α β : Type} (p : P α) (f : α → P β) (s : Bytes) (log : CLog) :
    run2 (p >>= f) s log = (match run2 p s log with
      | .ok ((a, s'), log') => run2 (f a) s' log'
      | .error e => .error e) := by
  simp only [run2, StateT.run_bind]
  cases h : (p.run s).run log with
  | error e => simp
  | ok r => rcases r with ⟨⟨a, s'⟩, log'⟩; simp

theorem R_pure {α : Type} (a : α) (rest : Bytes) : R (pure a : P α) [] rest a := by
  intro log; simp [run2]; rfl

theorem R_bind {α β : Type} {p : P α} {f : α → P β} {e e' rest : Bytes} {v : α} {w : β}
    (hp : R p e (e' ++ rest) v) (hf : R (f v) e' rest w) : R (p >>= f) (e ++ e') rest w := by
  intro log
  rw [run2_bind, List.append_assoc, hp log]
  exact hf log

theorem R_get (rest : Bytes) : R (get : P Bytes) [] rest rest := by
  intro log; simp [run2]; rfl

theorem R_guard {k : String} {c : Prop} [Decidable c] (hc : ¬ c) (rest : Bytes) :
    R (if c then Spec.C18.err k else pure PUnit.unit : P PUnit) [] rest PUnit.unit := by
  simp only [hc, if_false]; exact R_pure _ _

theorem R_takeN (b rest : Bytes) (n : Nat) (h : b.length = n) : R (Spec.C18.takeN n) b rest b := by
  intro log
  subst h
  simp [run2, Spec.C18.takeN]
  rfl

/-! ### fixed width -/

theorem unbe_go (k n a : Nat) :
    (be k n).foldl (fun acc (b : BitVec 8) => acc * 256 + b.toNat) a = a * 256 ^ k + n % 256 ^ k := by
  induction k generalizing a with
  | zero => simp [be, Nat.mod_one]
  | succ k ih =>
    simp only [be, List.foldl_cons]
    rw [ih]
    have hb : (byte (n / 256 ^ k)).toNat = n / 256 ^ k % 256 := by simp [byte, BitVec.toNat_ofNat]
    rw [hb, Nat.mod_pow_succ, Nat.pow_succ]
    rw [Nat.add_mul, Nat.mul_assoc, Nat.mul_comm 256 (256 ^ k), Nat.mul_comm (n / 256 ^ k % 256) (256 ^ k)]
    omega

theorem unbe_be (k n : Nat) : unbe (be k n) = n % 256 ^ k := by
  simp [unbe, unbe_go]

theorem R_uN (k n : Nat) (rest : Bytes) : R (Spec.C18.uN k) (be k n) rest (n % 256 ^ k) := by
  have := R_bind (f := fun b => (pure (unbe b) : P Nat)) (R_takeN (be k n) ([] ++ rest) k (Proof.C18.be_length k n)) (R_pure _ rest)
  simpa [Spec.C18.uN, unbe_be] using this

theorem R_iN (k : Nat) (i : Int) (rest : Bytes)
    (h : signed (8 * k) ((i % (256 : Int) ^ k).toNat % 256 ^ k) = i) :
    R (Spec.C18.iN k) (Model.C18.beI k i) rest i := by
  have := R_bind (f := fun b => (pure (signed (8 * k) (unbe b)) : P Int))
    (R_takeN (Model.C18.beI k i) ([] ++ rest) k (Proof.C18.beI_length k i)) (R_pure _ rest)
  simpa [Spec.C18.iN, Model.C18.beI, unbe_be, h] using this

theorem sp2 (i : Int) (h : -32768 ≤ i ∧ i < 32768) :
    signed (8 * 2) ((i % (256 : Int) ^ 2).toNat % 256 ^ 2) = i := by
  simp [signed]; split <;> omega
theorem sp4 (i : Int) (h : -2147483648 ≤ i ∧ i < 2147483648) :
    signed (8 * 4) ((i % (256 : Int) ^ 4).toNat % 256 ^ 4) = i := by
  simp [signed]; split <;> omega
theorem sp8 (i : Int) (h : -9223372036854775808 ≤ i ∧ i < 9223372036854775808) :
    signed (8 * 8) ((i % (256 : Int) ^ 8).toNat % 256 ^ 8) = i := by
  simp [signed]; split <;> omega

def I16 (i : Int) : Prop := -32768 ≤ i ∧ i < 32768
def I32 (i : Int) : Prop := -2147483648 ≤ i ∧ i < 2147483648
def I64 (i : Int) : Prop := -9223372036854775808 ≤ i ∧ i < 9223372036854775808

theorem R_i16 (i : Int) (rest : Bytes) (h : I16 i) : R (Spec.C18.iN 2) (Model.C18.beI 2 i) rest i := R_iN 2 i rest (sp2 i h)
theorem R_i32 (i : Int) (rest : Bytes) (h : I32 i) : R (Spec.C18.iN 4) (Model.C18.beI 4 i) rest i := R_iN 4 i rest (sp4 i h)
theorem R_i64 (i : Int) (rest : Bytes) (h : I64 i) : R (Spec.C18.iN 8) (Model.C18.beI 8 i) rest i := R_iN 8 i rest (sp8 i h)

/-! ### varints -/

theorem unzz_zz (i : Int) : unzz (zz i) = i := by
  unfold unzz zz
  by_cases h : 0 ≤ i
  · simp only [h, if_true]
    have : (2 * i).toNat % 2 = 0 := by omega
    simp only [this, if_true]; omega
  · simp only [h, if_false]
    have : ¬ ((-2 * i - 1).toNat % 2 = 0) := by omega
    simp only [this, if_false]; omega

theorem R_uvar (n : Nat) (rest : Bytes) (h : lenU n ≤ 10) : R Spec.C18.uvar (encU n) rest n := by
  intro log
  have hlen := Proof.C17.encU_length n
  have ht : (encU n ++ rest).take 10 = encU n ++ rest.take (10 - lenU n) := by
    rw [List.take_append, hlen, List.take_of_length_le (by omega)]
  have hd : (encU n ++ rest).drop (lenU n) = rest := by
    rw [← hlen]; simp
  simp [run2, Spec.C18.uvar, ht, Proof.C17.leb_encU, hd]
  rfl

theorem R_svar (i : Int) (rest : Bytes) (h : lenU (zz i) ≤ 10) : R Spec.C18.svar (Model.C18.varint i) rest i := by
  have := R_bind (f := fun v => (pure (unzz v) : P Int)) (R_uvar (zz i) ([] ++ rest) h) (R_pure _ rest)
  simpa [Spec.C18.svar, Model.C18.varint, unzz_zz] using this

/-! ### `within`, nullable var-length bytes, headers -/

theorem R_within {α : Type} (b : Bytes) (what : String) (p : P α) (a : α) (st : Bytes)
    (hp : R p b [] a) : R (Spec.C18.within b what p) [] st a := by
  intro log
  have hp' : ∀ log, (p.run b).run log = .ok ((a, []), log) := by
    intro log; have := hp log; simpa [run2] using this
  simp [run2, Spec.C18.within, hp']
  rfl

theorem R_varBytes (b : Option Bytes) (rest : Bytes) (h : lenU (zz (Model.C18.blen b)) ≤ 10) :
    R Spec.C18.varBytes (Model.C18.varintBytes b) rest b := by
  cases b with
  | none =>
    have h1 : lenU (zz (-1)) ≤ 10 := by
      have : lenU (zz (-1)) = 1 := by simp [zz]; exact Proof.C17.lenU_lt (by omega)
      omega
    have := R_bind (f := fun l => (if l < 0 then (if l == -1 then pure none else Spec.C18.err "negative-length") else
        (do let b ← Spec.C18.takeN l.toNat; pure (some b)) : P (Option Bytes)))
      (R_svar (-1) ([] ++ rest) h1) (by simpa using R_pure (none : Option Bytes) rest)
    simpa [Spec.C18.varBytes, Model.C18.varintBytes] using this
  | some x =>
    simp only [Model.C18.blen] at h
    have hx : R (do let b ← Spec.C18.takeN ((x.length : Int)).toNat; pure (some b) : P (Option Bytes)) x rest (some x) := by
      have := R_bind (f := fun b => (pure (some b) : P (Option Bytes))) (R_takeN x ([] ++ rest) x.length rfl) (R_pure _ rest)
      simpa using this
    have := R_bind (f := fun l => (if l < 0 then (if l == -1 then pure none else Spec.C18.err "negative-length") else
        (do let b ← Spec.C18.takeN l.toNat; pure (some b)) : P (Option Bytes)))
      (R_svar (x.length : Int) (x ++ rest) h) (by
        have hn : ¬ ((x.length : Int) < 0) := by omega
        simp only [hn, if_false]; exact hx)
    simpa [Spec.C18.varBytes, Model.C18.varintBytes] using this

/-- run form of `R`, for `simp` -/
theorem run_of_R {α : Type} {p : P α} {e rest : Bytes} {v : α} (h : R p e rest v) (log : CLog) :
    (p.run (e ++ rest)).run log = .ok ((v, rest), log) := h log

def LenOK (n : Nat) : Prop := lenU (zz (n : Int)) ≤ 10
def HdrOK (h : Model.C18.Header) : Prop := LenOK h.key.length ∧ LenOK (Model.C18.blen h.value)

def dHeader (h : Model.C18.Header) : Spec.C18.DHeader := ⟨h.key, h.value⟩

theorem R_header (h : Model.C18.Header) (rest : Bytes) (hok : HdrOK h) :
    R Spec.C18.header (Model.C18.varintString h.key ++ Model.C18.varintBytes h.value) rest (dHeader h) := by
  intro log
  have e1 := fun r l => run_of_R (R_varBytes (some h.key) r hok.1) l
  have e2 := fun r l => run_of_R (R_varBytes h.value r hok.2) l
  simp only [Model.C18.varintBytes, List.append_assoc] at e1
  simp [run2, Spec.C18.header, Model.C18.varintString, e1, e2, dHeader]
  rfl

theorem R_headers (hs : List Model.C18.Header) (rest : Bytes) (hok : ∀ h ∈ hs, HdrOK h) :
    R (Spec.C18.repeatP Spec.C18.header hs.length) (Model.C18.headersTo hs) rest (hs.map dHeader) := by
  induction hs with
  | nil => simpa [Spec.C18.repeatP, Model.C18.headersTo] using R_pure ([] : List Spec.C18.DHeader) rest
  | cons h hs ih =>
    intro log
    have e1 := fun r l => run_of_R (R_header h r (hok h (List.mem_cons_self ..))) l
    have e2 := fun l => run_of_R (ih (fun x hx => hok x (List.mem_cons_of_mem _ hx))) l
    simp only [Model.C18.varintString, List.append_assoc] at e1
    simp [run2, Spec.C18.repeatP, Model.C18.headersTo, Model.C18.varintString, e1, e2]
    rfl

/-- well-formedness of a buffered record for the wire: every length and delta fits its varint -/
structure PRecOK (pr : Model.C18.PRec) (i : Nat) : Prop where
  len : LenOK pr.length
  tsd : lenU (zz pr.tsDelta) ≤ 10
  idx : LenOK i
  key : LenOK (Model.C18.blen pr.r.key)
  value : LenOK (Model.C18.blen pr.r.value)
  nh : LenOK pr.r.headers.length
  hdrs : ∀ h ∈ pr.r.headers, HdrOK h
  ok : Proof.C18.RecOK pr i

/-- what the reference decoder returns for a buffered record of a batch with first timestamp `ft` -/
def dRec (ft : Int) (pr : Model.C18.PRec) : Spec.C18.DRec :=
  ⟨some (ft + pr.tsDelta), pr.r.key, pr.r.value, pr.r.headers.map dHeader⟩

/-- the record body as written (after its length prefix) -/
def bodyBytes (pr : Model.C18.PRec) (i : Nat) : Bytes :=
  0#8 :: (Model.C18.varint pr.tsDelta ++ (Model.C18.varint i ++ (Model.C18.varintBytes pr.r.key ++
    (Model.C18.varintBytes pr.r.value ++ (Model.C18.varint pr.r.headers.length ++ Model.C18.headersTo pr.r.headers)))))

theorem recordAppendTo_eq (pr : Model.C18.PRec) (i : Nat) :
    Model.C18.recordAppendTo pr i = Model.C18.varint pr.length ++ bodyBytes pr i := by
  simp [Model.C18.recordAppendTo, bodyBytes]

theorem bodyBytes_length (pr : Model.C18.PRec) (i : Nat) (h : Proof.C18.RecOK pr i) : (bodyBytes pr i).length = pr.length := by
  have := Proof.C18.recordAppendTo_length pr i h
  rw [recordAppendTo_eq] at this
  simp [Model.C18.numsWireLength] at this
  omega

theorem R_record (ft : Int) (pr : Model.C18.PRec) (i : Nat) (rest : Bytes) (h : PRecOK pr i) :
    R (Spec.C18.record ft i) (Model.C18.recordAppendTo pr i) rest (dRec ft pr) := by
  intro log
  rw [recordAppendTo_eq]
  have eLen := fun r l => run_of_R (R_svar (pr.length : Int) r h.len) l
  have eBody := fun r l => run_of_R (R_takeN (bodyBytes pr i) r pr.length (bodyBytes_length pr i h.ok)) l
  have eAttr := fun r l => run_of_R (R_takeN [0#8] r 1 rfl) l
  have eTsd := fun r l => run_of_R (R_svar pr.tsDelta r h.tsd) l
  have eIdx := fun r l => run_of_R (R_svar (i : Int) r h.idx) l
  have eKey := fun r l => run_of_R (R_varBytes pr.r.key r h.key) l
  have eVal := fun r l => run_of_R (R_varBytes pr.r.value r h.value) l
  have eNh := fun r l => run_of_R (R_svar (pr.r.headers.length : Int) r h.nh) l
  have eHs := fun l => run_of_R (R_headers pr.r.headers [] h.hdrs) l
  simp only [List.append_nil] at eHs
  have hlen : ¬ ((pr.length : Int) < 0) := by omega
  have hnh : ¬ ((pr.r.headers.length : Int) < 0) := by omega
  have hu : unbe [0#8] = 0 := by decide
  simp only [List.singleton_append] at eAttr
  simp [run2, Spec.C18.record, Spec.C18.within, Spec.C18.u8, eLen, eBody, hlen]
  simp [bodyBytes, eAttr, hu, eTsd, eIdx, eKey, eVal, eNh, hnh, eHs, dRec]
  rfl

def AllP : Nat → List Model.C18.PRec → Prop
  | _, [] => True
  | i, pr :: rest => PRecOK pr i ∧ AllP (i + 1) rest

theorem R_records (ft : Int) (l : List Model.C18.PRec) (i : Nat) (rest : Bytes) (h : AllP i l) :
    R (Spec.C18.recordsP ft i l.length) (Model.C18.recordsFrom i l) rest (l.map (dRec ft)) := by
  induction l generalizing i with
  | nil => simpa [Spec.C18.recordsP, Model.C18.recordsFrom] using R_pure ([] : List Spec.C18.DRec) rest
  | cons pr l ih =>
    intro log
    have e1 := fun r lg => run_of_R (R_record ft pr i r h.1) lg
    have e2 := fun lg => run_of_R (ih (i + 1) h.2) lg
    simp [run2, Spec.C18.recordsP, Model.C18.recordsFrom, e1, e2]
    rfl

theorem R_uN_beI (k m : Nat) (rest : Bytes) (h : m < 256 ^ k) : R (Spec.C18.uN k) (Model.C18.beI k (m : Int)) rest m := by
  have h1 : ((m : Int) % (256 : Int) ^ k).toNat = m := by
    have h2 : ((m : Int) % (256 : Int) ^ k) = ((m % 256 ^ k : Nat) : Int) := by simp
    rw [h2, Nat.mod_eq_of_lt h]; simp
  have := R_uN k m rest
  rw [Nat.mod_eq_of_lt h] at this
  simp only [Model.C18.beI, Int.natCast_pow, Int.cast_ofNat_Int, h1]
  exact this

/-- a batch as `createReq` hands it to the serialiser, with every fixed-width field in range -/
structure BatchWF (b : Model.C18.Batch) (pid ep seq : Int) : Prop where
  inv : Proof.C18.BatchInv b
  recs : AllP 0 b.records
  ft : I64 b.firstTimestamp
  mt : I64 (b.firstTimestamp + b.maxTimestampDelta)
  pid : I64 pid
  ep : I16 ep
  seq : I32 seq
  ne : b.records ≠ []
  wl : b.wireLength < 2147483648
  n : (b.records.length : Int) < 2147483648

/-- what the reference decoder returns for a written, uncompressed record batch -/
def dBatch (pb : Model.C18.PartBatch) (pid ep : Int) (tx : Bool) (blobLen : Nat) : Spec.C18.DBatch :=
  { partition := pb.partition, blobLen := blobLen, magic := 2, pid := pid, epoch := ep,
    baseSeq := if pid < 0 then 0 else pb.seq, transactional := tx, codec := 0,
    firstTs := pb.batch.firstTimestamp, maxTs := pb.batch.firstTimestamp + pb.batch.maxTimestampDelta,
    recs := pb.batch.records.map (dRec pb.batch.firstTimestamp) }

/-- the CRC-covered part of a written batch (attributes … records), `attrs` = 0 or 16 -/
def crcdBytes (pb : Model.C18.PartBatch) (pid ep : Int) (attrs : Nat) : Bytes :=
  Model.C18.beI 2 (attrs : Int) ++ (Model.C18.beI 4 ((pb.batch.records.length : Int) - 1) ++ (Model.C18.beI 8 pb.batch.firstTimestamp ++
    (Model.C18.beI 8 (pb.batch.firstTimestamp + pb.batch.maxTimestampDelta) ++ (Model.C18.beI 8 pid ++ (Model.C18.beI 2 ep ++
      (Model.C18.beI 4 (if pid < 0 then 0 else pb.seq) ++ (Model.C18.beI 4 (pb.batch.records.length : Int) ++
        Model.C18.recordsFrom 0 pb.batch.records)))))))

/-- a written batch after `baseOffset` and `batchLength` -/
def tailBytes (crc : Bytes → Nat) (pb : Model.C18.PartBatch) (pid ep : Int) (attrs : Nat) : Bytes :=
  Model.C18.beI 4 (-1) ++ (2#8 :: (Model.C18.beI 4 (crc (crcdBytes pb pid ep attrs) : Int) ++ crcdBytes pb pid ep attrs))

def attrsOf (tx : Bool) : Nat := if tx then 16 else 0

theorem batchBody_eq (crc : Bytes → Nat) (pb : Model.C18.PartBatch) (v pid ep : Int) (tx : Bool) :
    Model.C18.batchBody crc none pb v pid ep tx =
      Model.C18.beI 8 0 ++ (Model.C18.beI 4 (pb.batch.wireLength - 4 - 8 - 4) ++ tailBytes crc pb pid ep (attrsOf tx)) := by
  cases tx <;> simp [Model.C18.batchBody, Model.C18.compressStep, tailBytes, crcdBytes, attrsOf]

set_option maxRecDepth 4000 in
theorem R_batchTail (crc : Bytes → Nat) (hcrc : ∀ x, crc x < 4294967296) (pb : Model.C18.PartBatch) (pid ep : Int) (tx : Bool)
    (blobLen : Nat) (h : BatchWF pb.batch pid ep (if pid < 0 then 0 else pb.seq)) :
    R (Spec.C18.batchTail crc false pb.partition blobLen) (tailBytes crc pb pid ep (attrsOf tx)) [] (dBatch pb pid ep tx blobLen) := by
  intro log
  have ePle := fun r l => run_of_R (R_i32 (-1) r (by unfold I32; omega)) l
  have eMagic := fun r l => run_of_R (R_takeN [2#8] r 1 rfl) l
  have eCrc := fun (x : Bytes) r l => run_of_R (R_uN_beI 4 (crc x) r (by have := hcrc x; omega)) l
  have eLod := fun r l => run_of_R (R_i32 ((pb.batch.records.length : Int) - 1) r (by have := h.n; unfold I32; omega)) l
  have eFt := fun r l => run_of_R (R_i64 pb.batch.firstTimestamp r h.ft) l
  have eMt := fun r l => run_of_R (R_i64 (pb.batch.firstTimestamp + pb.batch.maxTimestampDelta) r h.mt) l
  have ePid := fun r l => run_of_R (R_i64 pid r h.pid) l
  have eEp := fun r l => run_of_R (R_i16 ep r h.ep) l
  have eSeq := fun r l => run_of_R (R_i32 (if pid < 0 then 0 else pb.seq) r h.seq) l
  have eN := fun r l => run_of_R (R_i32 (pb.batch.records.length : Int) r (by have := h.n; unfold I32; omega)) l
  have eRecs := fun l => run_of_R (R_records pb.batch.firstTimestamp pb.batch.records 0 [] h.recs) l
  simp only [List.append_nil] at eRecs
  simp only [List.singleton_append] at eMagic
  have hu : unbe [2#8] = 2 := by decide
  have hn0 : ¬ ((pb.batch.records.length : Int) < 0) := by omega
  have eA0 : ∀ r l, ((Spec.C18.uN 2).run (Model.C18.beI 2 0 ++ r)).run l = .ok ((0, r), l) := fun r l => by
    simpa using run_of_R (R_uN_beI 2 0 r (by omega)) l
  have eA16 : ∀ r l, ((Spec.C18.uN 2).run (Model.C18.beI 2 16 ++ r)).run l = .ok ((16, r), l) := fun r l => by
    simpa using run_of_R (R_uN_beI 2 16 r (by omega)) l
  simp [run2, Spec.C18.batchTail, tailBytes, Spec.C18.u8, ePle, eMagic, hu, eCrc]
  cases tx <;>
    simp [attrsOf, crcdBytes, eA0, eA16, eLod, eFt, eMt, ePid, eEp, eSeq, eN, hn0, Spec.C18.nextCall, Spec.C18.plainOf,
      Spec.C18.within, eRecs, dBatch] <;> rfl

theorem tailBytes_length (crc : Bytes → Nat) (pb : Model.C18.PartBatch) (pid ep : Int) (attrs : Nat)
    (h : Proof.C18.BatchInv pb.batch) :
    ((tailBytes crc pb pid ep attrs).length : Int) = pb.batch.wireLength - 4 - 8 - 4 := by
  have hrf := Proof.C18.recordsFrom_length 0 pb.batch.records h.ok
  have hw := h.wire
  simp only [Model.C18.recordBatchOverhead] at hw
  simp [tailBytes, crcdBytes, hrf]
  omega

/-- **Record batch round trip** (no compressor): the reference decoder reads back, from the batch
`seqRecBatch.appendTo` writes, the buffered records in order with their timestamps, the producer id, epoch,
sequence, transactional bit, first and max timestamps — having checked magic, CRC span, lengths, offset deltas. -/
theorem R_recordBatch (crc : Bytes → Nat) (hcrc : ∀ x, crc x < 4294967296) (pb : Model.C18.PartBatch) (v pid ep : Int) (tx : Bool)
    (st : Bytes) (h : BatchWF pb.batch pid ep (if pid < 0 then 0 else pb.seq)) :
    R (Spec.C18.recordBatch crc false pb.partition (Model.C18.batchBody crc none pb v pid ep tx)) [] st
      (dBatch pb pid ep tx (Model.C18.batchBody crc none pb v pid ep tx).length) := by
  unfold Spec.C18.recordBatch
  apply R_within
  rw [batchBody_eq]
  intro log
  have eBase := fun r l => run_of_R (R_i64 0 r (by unfold I64; omega)) l
  have eLen := fun r l => run_of_R (R_i32 (pb.batch.wireLength - 4 - 8 - 4) r (by
    have := h.wl; have hw := h.inv.wire; simp only [Model.C18.recordBatchOverhead] at hw; unfold I32; omega)) l
  have eTail := fun bl l => run_of_R (R_batchTail crc hcrc pb pid ep tx bl h) l
  simp only [List.append_nil] at eTail
  have hTL := tailBytes_length crc pb pid ep (attrsOf tx) h.inv
  simp [run2, eBase, eLen, hTL, eTail]

end Proof.C18RT
