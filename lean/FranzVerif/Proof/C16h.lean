import FranzVerif.Proof.C16g
/-! The size bound: mutual induction. -/
namespace Proof.C16
open Model.C15

theorem readRawTags_payload : ∀ (n : Nat) (src : Bytes) (l : List (Nat × Bytes)) (r : Bytes),
    readRawTags n src = .ok l r → ∀ e ∈ l, r.length + e.2.length + 2 ≤ src.length := by
  intro n
  induction n with
  | zero => intro src l r h; simp only [readRawTags] at h; cases h; intro e he; cases he
  | succ n ih =>
    intro src l r h
    simp only [readRawTags] at h
    cases h1 : readUvarint src with
    | ok key r1 =>
      have c1 := cons_readUvarint src key r1 h1
      simp only [h1, Res.andThen_ok] at h
      cases h2 : readUvarint r1 with
      | ok size r2 =>
        have c2 := cons_readUvarint r1 size r2 h2
        simp only [h2, Res.andThen_ok] at h
        cases h3 : span (size : Int) r2 with
        | ok b r3 =>
          have c3 := (span_ok_len _ _ _ _ h3).1
          simp only [h3, Res.map_ok] at h
          obtain ⟨l', h4, rfl⟩ := map_ok_inv h
          have c4 := (readRawTags_cons n r3 l' r h4).2
          intro e he
          simp only [List.mem_cons] at he
          cases he with
          | inl e1 => subst e1; simp only; omega
          | inr e2 => have := ih r3 l' r h4 e e2; omega
        | err s => simp [h3] at h
        | panic m => simp [h3] at h
      | err s => simp [h2] at h
      | panic m => simp [h2] at h
    | err s => simp [h1] at h
    | panic m => simp [h1] at h

theorem decEach_result' (c : Cfg) (flex : Bool) (t : Ty) : ∀ (ps : List Bytes) (v v' : Val) (x : Bytes),
    decEach c flex t ps v = .ok v' x → v' = v ∨ ∃ p ∈ ps, ∃ r, dec c flex t p = .ok v' r := by
  intro ps
  induction ps with
  | nil => intro v v' x h; rw [decEach] at h; cases h; left; rfl
  | cons p ps ih =>
    intro v v' x h
    rw [decEach] at h
    cases hd : dec c flex t p with
    | ok v1 r1 =>
      rw [hd] at h
      rcases ih v1 v' x h with rfl | ⟨q, hq, r, hh⟩
      · right; exact ⟨p, by simp, r1, hd⟩
      · right; exact ⟨q, by simp [hq], r, hh⟩
    | err s => rw [hd] at h; cases h
    | panic m => rw [hd] at h; cases h

theorem nodes_emptyArr (ver : Int) (k : AKind) (l : Int) : nodes (emptyArr ver k l) = 1 := by
  cases k <;> simp only [emptyArr] <;> (try split) <;> simp [nodes, nodesL]

def SizedF (fs : Fields) : Prop :=
  ∀ (c : Cfg) (flex : Bool), schemaOKF c.ver flex fs = true →
    (∀ (src : Bytes) (vals : Vals) (r : Bytes), decFields c flex fs src = .ok vals r →
      ∀ k, src.length = r.length + k → fb fs vals (k + 1)) ∧
    (flex = true → ∀ (raw : List (Nat × Bytes)) (vals vals' : Vals) (x : Bytes) (B : Nat), fb fs vals B →
      (∀ e ∈ raw, e.2.length + 1 ≤ B) → applyTags c flex fs raw vals = .ok vals' x → fb fs vals' B)

mutual
theorem sized : ∀ t : Ty, Sized t
  | .prim p => by
    intro c flex src v r _ h k _
    rw [dec] at h
    rw [decPrim_nodes p src v r h]; simp [weight]
  | .str s => by
    intro c flex src v r _ h k _
    rw [dec] at h
    rw [decStr_nodes c.ver flex s src v r h]; simp [weight]
  | .arr ak t => by
    intro c flex src v r hs h k hk
    simp only [schemaOK, Bool.and_eq_true, decide_eq_true_eq] at hs
    rw [dec] at h
    obtain ⟨l, r0, h1, h2⟩ := andThen_ok_inv h
    have c0 := cons_decArrLen flex ak src l r0 h1
    split at h2
    · obtain ⟨n, r1, _, h4⟩ := andThen_ok_inv h2
      obtain ⟨vs, h5, rfl⟩ := map_ok_inv h4
      have c1 := (decList_cons c flex t (consT t) n r0) vs r h5
      have hl := decList_sized c flex t (sized t) hs.2 hs.1 n r0 vs r h5 (r0.length - r.length) (by omega)
      have hm : weight t * (r0.length - r.length) ≤ weight t * k := Nat.mul_le_mul_left _ (by omega)
      simp only [nodes, weight, Nat.add_mul, Nat.mul_add, Nat.mul_one, Nat.one_mul, Nat.mul_assoc]
      omega
    · cases h2
      rw [nodes_emptyArr]
      exact Nat.le_trans (by simp [weight]) (Nat.le_mul_of_pos_right _ (Nat.succ_pos k))
  | .struct nullable ff fs => by
    intro c flex src v r hs h k hk
    simp only [schemaOK, Bool.and_eq_true] at hs
    obtain ⟨F1, F2⟩ := sizedF fs c (flexAt ff c.ver) hs.2
    have hbig : ∀ (vals : Vals) (u : Nat), fb fs vals (k + 1) → u ≤ k → 1 + nodesL vals + u ≤ (weightF fs + 2) * (k + 1) := by
      intro vals u hfb hu
      have := fb_sum fs vals (k + 1) hfb
      rw [Nat.add_mul]; omega
    rw [dec] at h
    obtain ⟨isP, r0, e0, h2⟩ := andThen_ok_inv h
    have c0 := (cons_structPre nullable src).weaken (Nat.zero_le _) isP r0 e0
    split at h2
    · cases h2
      simp only [nodes, weight]
      exact Nat.le_trans (by omega) (Nat.le_mul_of_pos_right _ (Nat.succ_pos k))
    · obtain ⟨vals, r1, h3, h4⟩ := andThen_ok_inv h2
      have c1 := (consF fs c (flexAt ff c.ver) r0).weaken (Nat.zero_le _) vals r1 h3
      have hb := F1 r0 vals r1 h3 (r0.length - r1.length) (by omega)
      split at h4
      · rename_i hfl
        obtain ⟨num, r2, e4, h5⟩ := andThen_ok_inv h4
        have c2 := cons_readUvarint r1 num r2 e4
        obtain ⟨raw, r3, e6, h6⟩ := andThen_ok_inv h5
        obtain ⟨vals', x, h7, h8⟩ := andThen_ok_inv h6
        cases h8
        have hraw : readRawTags num r2 = .ok raw r := by
          simp only [readTagsOf] at e6
          cases hrr : readRawTags num r2 with
          | ok l' r' => rw [hrr] at e6; cases e6; rfl
          | err s => rw [hrr] at e6; cases e6
          | panic m => rw [hrr] at e6; cases e6
        have c3 := readRawTags_cons num r2 raw r hraw
        have hp := readRawTags_payload num r2 raw r hraw
        have hb' := fb_mono fs vals _ (k + 1) (by omega) hb
        have hfb := F2 hfl raw vals vals' x (k + 1) hb' (fun e he => by have := hp e he; omega) h7
        have hu := unknownOf_length (knownTags fs) raw
        simp only [nodes, weight]
        exact hbig vals' _ hfb (by omega)
      · cases h4
        have hb' := fb_mono fs vals _ (k + 1) (by omega) hb
        simpa [nodes, weight] using hbig vals 0 hb' (Nat.zero_le _)
theorem sizedF : ∀ fs : Fields, SizedF fs
  | .nil => by
    intro c flex _
    constructor
    · intro src vals r h k _; rw [decFields] at h; cases h; simp [fb]
    · intro _ raw vals vals' x B hfb _ h
      cases vals with
      | nil => simp [applyTags] at h; obtain ⟨rfl, _⟩ := h; simp [fb]
      | cons v r => simp [fb] at hfb
  | .cons name minV maxV tag d t rest => by
    intro c flex hs
    simp only [schemaOKF, Bool.and_eq_true, Bool.or_eq_true] at hs
    obtain ⟨hst', hsr⟩ := hs
    have ht := sized t
    obtain ⟨R1, R2⟩ := sizedF rest c flex hsr
    constructor
    · intro src vals r h k hk
      rw [decFields] at h
      split at h
      · obtain ⟨vs, h2, rfl⟩ := map_ok_inv h
        simp only [fb]
        exact ⟨Nat.le_trans (nodes_dflt t d) (Nat.le_mul_of_pos_right _ (Nat.succ_pos k)), R1 src vs r h2 k hk⟩
      · rename_i hc
        obtain ⟨v, r0, h1, h2⟩ := andThen_ok_inv h
        obtain ⟨vs, h3, rfl⟩ := map_ok_inv h2
        have hst : schemaOK c.ver t = true := by
          cases tag with
          | some k => simp at hc
          | none =>
            have hp : present minV maxV c.ver = true := by simpa using hc
            simpa [hp] using hst'
        have c1 := (consT t c flex src).weaken (Nat.zero_le _) v r0 h1
        have c2 := (consF rest c flex r0).weaken (Nat.zero_le _) vs r h3
        have hv := ht c flex src v r0 hst h1 (src.length - r0.length) (by omega)
        have hr := R1 r0 vs r h3 (r0.length - r.length) (by omega)
        simp only [fb]
        exact ⟨Nat.le_trans hv (Nat.mul_le_mul_left _ (by omega)), fb_mono rest vs _ (k + 1) (by omega) hr⟩
    · intro hflex raw vals vals' x B hfb hraw h
      subst hflex
      cases vals with
      | nil => simp [fb] at hfb
      | cons v r =>
        simp only [fb] at hfb
        rw [applyTags] at h
        cases hr : applyTags c true rest raw r with
        | ok vs y =>
          rw [hr] at h
          have htail := R2 rfl raw r vs y B hfb.2 hraw hr
          cases tag with
          | none =>
            simp only at h
            cases h
            simp only [fb]; exact ⟨hfb.1, htail⟩
          | some tk =>
            simp only at h
            have hst : schemaOK c.ver t = true := by simpa using hst'
            cases he : decEach c true t ((raw.filter fun e => e.1 == tk).map Prod.snd) v with
            | ok v' z =>
              rw [he] at h
              cases h
              simp only [fb]
              refine ⟨?_, htail⟩
              rcases decEach_result' c true t _ v v' z he with rfl | ⟨p, hp, r', hd⟩
              · exact hfb.1
              · simp only [List.mem_map, List.mem_filter] at hp
                obtain ⟨e, ⟨hemem, _⟩, rfl⟩ := hp
                have c1 := (consT t c true e.2).weaken (Nat.zero_le _) v' r' hd
                have hv := ht c true e.2 v' r' hst hd (e.2.length - r'.length) (by omega)
                have := hraw e hemem
                exact Nat.le_trans hv (Nat.mul_le_mul_left _ (by omega))
            | err s => rw [he] at h; cases h
            | panic m => rw [he] at h; cases h
        | err s => rw [hr] at h; cases h
        | panic m => rw [hr] at h; cases h
end

end Proof.C16
