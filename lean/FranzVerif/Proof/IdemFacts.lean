import FranzVerif.Proof.IdemInv
/-! Facts read off the invariant of the idempotent-producing monitor: what the checks at `quiesce` and at
`wreq` say at history level, and the `before` entry of a call that began after another returned. -/
namespace Proof.Idem
open Model.Idem
set_option linter.unusedSimpArgs false

theorem nodup_reverse {α : Type} {l : List α} : l.reverse.Nodup ↔ l.Nodup := by
  simp only [List.Nodup, List.pairwise_reverse]
  constructor <;> intro h <;> exact h.imp (fun h => Ne.symm h)

/-- two entries with the same key in a list with distinct keys are equal -/
theorem prom_unique {α β : Type} {l : List (α × β)} (hn : (l.map (·.1)).Nodup) {x y : α × β}
    (hx : x ∈ l) (hy : y ∈ l) (he : x.1 = y.1) : x = y := by
  induction l with
  | nil => cases hx
  | cons z zs ih =>
    rw [List.map_cons, List.nodup_cons] at hn
    rcases List.mem_cons.1 hx with hx1 | hx1
    · rcases List.mem_cons.1 hy with hy1 | hy1
      · rw [hx1, hy1]
      · exact absurd (List.mem_map.2 ⟨y, hy1, by rw [← hx1]; exact he.symm⟩) hn.1
    · rcases List.mem_cons.1 hy with hy1 | hy1
      · exact absurd (List.mem_map.2 ⟨x, hx1, by rw [← hy1]; exact he⟩) hn.1
      · exact ih hn.2 hx1 hy1

/-- in a list with distinct `f`-values, filtering on the value of a member leaves that member alone -/
theorem filter_unique {α β : Type} [DecidableEq β] {f : α → β} {l : List α} (hn : (l.map f).Nodup) {e : α}
    (he : e ∈ l) : l.filter (fun x => f x == f e) = [e] := by
  induction l with
  | nil => cases he
  | cons z zs ih =>
    rw [List.map_cons, List.nodup_cons] at hn
    have hrest : ∀ x ∈ zs, f x = f z → False := fun x hx hfx => hn.1 (hfx ▸ List.mem_map.2 ⟨x, hx, rfl⟩)
    rcases List.mem_cons.1 he with he | he
    · subst he
      rw [List.filter_cons]
      simp only [beq_self_eq_true, if_true, List.cons.injEq, true_and]
      rw [List.filter_eq_nil_iff]
      intro x hx; simpa using hrest x hx
    · have hne : f z ≠ f e := fun hh => hrest e he hh.symm
      rw [List.filter_cons]
      have : (f z == f e) = false := by simpa using hne
      simp only [this]
      exact ih hn.2 he

/-- what passing the check at the quiescent mark says about the history -/
theorem quiesce_check {h : List Ev} {s : St} (hi : Inv h s) (hchk : check s .quiesce = none) :
    (∀ id ∈ calledIds h, id ∈ (promisesOf h).map (·.1)) ∧
    (∀ p ∈ promisesOf h, p.2.1 = true → ∃ e ∈ logOf h, e.2.2 = p.1) ∧
    (∀ b earlier, s.before.find? (fun x => x.1 == b) = some (b, earlier) → ∀ a ∈ earlier, ∀ part oa ob,
      (a, true, part, oa) ∈ promisesOf h → (b, true, part, ob) ∈ promisesOf h → oa < ob) := by
  simp only [check] at hchk
  split at hchk
  · cases hchk
  rename_i c1
  split at hchk
  · cases hchk
  rename_i c2
  split at hchk
  · cases hchk
  rename_i c3
  refine ⟨?_, ?_, ?_⟩
  · intro id hid
    have hid' : id ∈ s.calls.map (·.1) := by rw [hi.calls, List.mem_reverse]; exact hid
    obtain ⟨c, hc, hcid⟩ := List.mem_map.1 hid'
    have : s.promises.any (fun x => x.1 == c.1) = true := by
      rw [List.any_eq_true] at c1
      cases hh : s.promises.any (fun x => x.1 == c.1) with
      | true => rfl
      | false => exact absurd ⟨c, hc, by simp [hh]⟩ c1
    rw [any_fst_iff, hi.promises, List.map_reverse, List.mem_reverse] at this
    exact hcid ▸ this
  · intro p hp hok
    have hp' : p ∈ s.promises := by rw [hi.promises, List.mem_reverse]; exact hp
    cases hh : s.log.any (fun e => e.2.2 == p.1) with
    | false => exact absurd (List.any_eq_true.2 ⟨p, hp', by simp [hh, hok]⟩) c2
    | true =>
      obtain ⟨e, he, hee⟩ := List.any_eq_true.1 hh
      rw [hi.log, List.mem_reverse] at he
      exact ⟨e, he, by simpa using hee⟩
  · intro b earlier hbef a ha part oa ob hpa hpb
    have hpa' : (a, true, part, oa) ∈ s.promises := by rw [hi.promises, List.mem_reverse]; exact hpa
    have hpb' : (b, true, part, ob) ∈ s.promises := by rw [hi.promises, List.mem_reverse]; exact hpb
    refine Int.not_le.1 (fun hle => c3 ?_)
    rw [List.any_eq_true]
    refine ⟨_, hpb', ?_⟩
    simp only [hbef, Bool.true_and]
    rw [List.any_eq_true]
    refine ⟨a, ha, ?_⟩
    rw [List.any_eq_true]
    exact ⟨_, hpa', by simpa using hle⟩

/-- the `before` entry of a call that began after `a`'s call returned lists `a` -/
theorem before_of_returnedBefore {h : List Ev} {s : St} (hr : run {} h = some s) {a b : Id}
    (hord : returnedBefore h a b) :
    ∃ earlier, s.before.find? (fun x => x.1 == b) = some (b, earlier) ∧ a ∈ earlier := by
  obtain ⟨h₁, h₂, h₃, p, rfl⟩ := hord
  have hi := inv_of_run hr
  obtain ⟨s₁, h1, _, hrest⟩ := run_split (h₁ := h₁ ++ Ev.ret a :: h₂) (ev := Ev.call b p) (h₂ := h₃)
    (by rw [hr]; rfl)
  have hi1 := inv_of_run h1
  obtain ⟨s₂, h2⟩ := Option.isSome_iff_exists.1 hrest
  have hs : s₂ = s := by
    have := run_append {} (h₁ ++ Ev.ret a :: h₂) (Ev.call b p :: h₃)
    rw [hr, h1] at this
    simp only [Option.bind_some, run] at this
    cases hst : step s₁ (Ev.call b p) with
    | none => simp [hst] at this
    | some s' =>
      obtain ⟨_, rfl⟩ := step_eq_some hst
      simp only [hst] at this
      rw [h2] at this
      exact (Option.some.inj this).symm
  subst hs
  refine ⟨s₁.rets, ?_, ?_⟩
  · apply find_fst_of_mem
    · rw [hi.beforeKeys, hi.calls, nodup_reverse]; exact hi.callsNodup
    · exact run_before_mono h2 _ (by simp [apply])
  · rw [hi1.rets, List.mem_reverse, retsOf_append]
    apply List.mem_append_right
    simp [retsOf]

/-- what passing the check of a `wreq` says when the stream already holds a batch with that number -/
theorem wreq_check {h : List Ev} {s : St} (hi : Inv h s) {n act part pid : Nat} {epoch : Int}
    {seq cnt₁ cnt : Nat} {ids₁ ids : List Id}
    (hb : s.batches.find? (isKey part pid epoch seq) = some ⟨part, pid, epoch, seq, cnt₁, ids₁⟩)
    (hchk : check s (.wreq n act part pid epoch seq cnt ids) = none) :
    (ids₁ = ids ∧ cnt₁ = cnt) ∨ ∀ i ∈ ids₁, ∃ p o, (i, false, p, o) ∈ promisesOf h := by
  have hfd : (s.batches.filter (fun b => sameStream b part pid epoch)).find? (fun b => b.seq == seq) =
      some ⟨part, pid, epoch, seq, cnt₁, ids₁⟩ := by
    rw [List.find?_filter, ← hb]
    congr 1
    funext a
    by_cases hs : a.seq = seq <;> simp [isKey, hs]
  simp only [check, hfd] at hchk
  split at hchk
  · rename_i c1
    simp only [Bool.and_eq_true, beq_iff_eq] at c1
    exact Or.inl c1
  · split at hchk
    · rename_i c2
      right
      intro i hi'
      rw [List.all_eq_true] at c2
      have := c2 i hi'
      rw [List.any_eq_true] at this
      obtain ⟨⟨i', ok, p, o⟩, hp, hpp⟩ := this
      simp only [Bool.and_eq_true, beq_iff_eq, Bool.not_eq_true'] at hpp
      obtain ⟨rfl, rfl⟩ := hpp
      rw [hi.promises, List.mem_reverse] at hp
      exact ⟨p, o, hp⟩
    · cases hchk

end Proof.Idem
