import FranzVerif.Proof.C16e
/-! A successful decode of a type consumes at least `minW` bytes. -/
namespace Proof.C16
open Model.C15

/-- on success at least `w` bytes were consumed -/
def Cons {α : Type} (x : Res α) (n w : Nat) : Prop := ∀ a r, x = .ok a r → r.length + w ≤ n

theorem Cons.weaken {α : Type} {x : Res α} {n w w' : Nat} (h : Cons x n w) (hw : w' ≤ w) : Cons x n w' :=
  fun a r e => by have := h a r e; omega

theorem Cons.mono {α : Type} {x : Res α} {n n' w : Nat} (h : Cons x n w) (hn : n ≤ n') : Cons x n' w :=
  fun a r e => by have := h a r e; omega

theorem cons_ok {α : Type} (a : α) (r : Bytes) : Cons (Res.ok a r) r.length 0 := by
  intro a' r' e; cases e; omega

theorem cons_err {α : Type} (s n w : Nat) : Cons (Res.err s : Res α) n w := by intro a r e; cases e

theorem cons_andThen {α β : Type} {x : Res α} {f : α → Bytes → Res β} {n w1 w2 : Nat}
    (hx : Cons x n w1) (hf : ∀ a r, x = .ok a r → Cons (f a r) r.length w2) : Cons (x.andThen f) n (w1 + w2) := by
  intro b r' e
  obtain ⟨a, r0, e1, e2⟩ := andThen_ok_inv e
  have := hx a r0 e1
  have := hf a r0 e1 b r' e2
  omega

theorem cons_map {α β : Type} {x : Res α} {f : α → β} {n w : Nat} (hx : Cons x n w) : Cons (x.map f) n w := by
  intro b r e
  obtain ⟨a, e1, _⟩ := map_ok_inv e
  exact hx a r e1

theorem cons_span (l : Int) (src : Bytes) : Cons (span l src) src.length 0 := by
  intro b r e; have := (span_ok_len l src b r e).1; omega

theorem cons_readBE (n : Nat) (src : Bytes) : Cons (readBE n src) src.length n := by
  intro a r e
  obtain ⟨b, e1, _⟩ := map_ok_inv e
  have := span_ok_len _ _ _ _ e1
  omega

theorem cons_readInt (n m : Nat) (src : Bytes) : Cons (readInt n m src) src.length n := cons_map (cons_readBE n src)
theorem cons_readUint (n : Nat) (src : Bytes) : Cons (readUint n src) src.length n := cons_map (cons_readBE n src)

theorem uvDec_consumes (k m : Nat) : ∀ (src : Bytes) (x : Nat) (r : Bytes), uvDec k m src = some (x, r) → r.length + 1 ≤ src.length := by
  intro src x r h
  cases src with
  | nil => cases k <;> simp [uvDec] at h
  | cons b t =>
    cases k with
    | zero =>
      simp only [uvDec] at h
      split at h <;> simp at h
      obtain ⟨_, rfl⟩ := h; simp
    | succ k =>
      simp only [uvDec] at h
      split at h
      · simp at h; obtain ⟨_, rfl⟩ := h; simp
      · split at h <;> simp at h
        rename_i x' r' hh
        obtain ⟨_, rfl⟩ := h
        have := uvDec_len k m t x' r' hh
        simp; omega

theorem cons_readUvarint (src : Bytes) : Cons (readUvarint src) src.length 1 := by
  intro a r e
  simp only [readUvarint] at e
  split at e
  · rename_i x r' h; cases e; exact uvDec_consumes _ _ _ _ _ h
  · cases e
theorem cons_readUvarlong (src : Bytes) : Cons (readUvarlong src) src.length 1 := by
  intro a r e
  simp only [readUvarlong] at e
  split at e
  · rename_i x r' h; cases e; exact uvDec_consumes _ _ _ _ _ h
  · cases e
theorem cons_readVarint (src : Bytes) : Cons (readVarint src) src.length 1 := cons_map (cons_readUvarint src)
theorem cons_readVarlong (src : Bytes) : Cons (readVarlong src) src.length 1 := cons_map (cons_readUvarlong src)

theorem cons_decPrim (p : Prim) (src : Bytes) : Cons (decPrim p src) src.length (primW p) := by
  cases p <;> simp only [decPrim, primW] <;>
    first
    | exact cons_map (cons_readBE _ _)
    | exact cons_map (cons_readInt _ _ _)
    | exact cons_map (cons_readUint _ _)
    | exact cons_map (cons_readVarint _)
    | exact cons_map (cons_readVarlong _)
    | (intro a r e; obtain ⟨b, e1, _⟩ := map_ok_inv e; have := span_ok_len _ _ _ _ e1; omega)

theorem cons_decStr (ver : Int) (flex : Bool) (k : SKind) (src : Bytes) : Cons (decStr ver flex k src) src.length 1 := by
  have tail : ∀ {α : Type} (x : Res α) (g : α → Bytes → Res Val), Cons x src.length 1 →
      (∀ a r, Cons (g a r) r.length 0) → Cons (x.andThen g) src.length 1 := by
    intro α x g hx hg
    exact cons_andThen (w2 := 0) hx (fun a r _ => hg a r)
  simp only [decStr]
  split
  all_goals (try split)
  all_goals first
    | exact tail _ _ (cons_readUvarint _) (fun a r => by
        first
          | exact cons_map (cons_span _ _)
          | (split
             · exact cons_ok _ _
             · exact cons_map (cons_span _ _)))
    | exact tail _ _ ((cons_readInt _ _ _).weaken (by omega)) (fun a r => by
        first
          | exact cons_map (cons_span _ _)
          | (split
             · exact cons_ok _ _
             · exact cons_map (cons_span _ _)))
    | exact tail _ _ (cons_readVarint _) (fun a r => by
        split
        · exact cons_ok _ _
        · exact cons_map (cons_span _ _))

theorem cons_chkLen (l : Int) (r : Bytes) : Cons (chkLen l r) r.length 0 := by
  simp only [chkLen]; split
  · exact cons_err _ _ _
  · exact cons_ok _ _

theorem cons_decArrLen (flex : Bool) (k : AKind) (src : Bytes) : Cons (decArrLen flex k src) src.length 1 := by
  simp only [decArrLen]
  split
  · exact cons_andThen (w2 := 0) (cons_readVarint _) (fun a r _ => cons_chkLen a r)
  all_goals
    split
    · exact cons_andThen (w2 := 0) (cons_readUvarint _) (fun a r _ => cons_chkLen _ r)
    · exact cons_andThen (w2 := 0) ((cons_readInt _ _ _).weaken (by omega)) (fun a r _ => cons_chkLen a r)

theorem cons_structPre (nullable : Bool) (src : Bytes) : Cons (structPre nullable src) src.length (if nullable then 1 else 0) := by
  simp only [structPre]; split
  · exact cons_map (cons_readInt _ _ _)
  · exact cons_ok _ _

/-- the raw tag reader consumes at least two bytes per entry and returns exactly `n` entries -/
theorem readRawTags_cons : ∀ (n : Nat) (src : Bytes) (l : List (Nat × Bytes)) (r : Bytes),
    readRawTags n src = .ok l r → l.length = n ∧ r.length + 2 * n ≤ src.length := by
  intro n
  induction n with
  | zero => intro src l r h; simp only [readRawTags] at h; cases h; simp
  | succ n ih =>
    intro src l r h
    simp only [readRawTags] at h
    have hentry : Cons ((readUvarint src).andThen fun key r1 => (readUvarint r1).andThen fun size r2 =>
        (span size r2).map fun b => (key, b)) src.length (1 + (1 + 0)) :=
      cons_andThen (cons_readUvarint _) (fun key r1 _ =>
        cons_andThen (cons_readUvarint _) (fun size r2 _ => cons_map (cons_span _ _)))
    generalize ((readUvarint src).andThen fun key r1 => (readUvarint r1).andThen fun size r2 =>
        (span size r2).map fun b => (key, b)) = x at hentry h
    cases x with
    | ok e r3 =>
      simp only at h
      obtain ⟨l', h4, rfl⟩ := map_ok_inv h
      have := hentry e r3 rfl
      obtain ⟨i1, i2⟩ := ih r3 l' r h4
      simp only [List.length_cons]; omega
    | err s => cases h
    | panic m => cases h

def ConsT (t : Ty) : Prop := ∀ (c : Cfg) (flex : Bool) (src : Bytes), Cons (dec c flex t src) src.length (minW c.ver t)
def ConsF (fs : Fields) : Prop := ∀ (c : Cfg) (flex : Bool) (src : Bytes), Cons (decFields c flex fs src) src.length (minWF c.ver fs)

theorem decList_cons (c : Cfg) (flex : Bool) (t : Ty) (ht : ConsT t) :
    ∀ (n : Nat) (src : Bytes), Cons (decList c flex t n src) src.length (n * minW c.ver t) := by
  intro n
  induction n with
  | zero => intro src; rw [decList]; simpa using cons_ok _ _
  | succ n ih =>
    intro src
    rw [decList]
    have := cons_andThen (ht c flex src) (fun v r _ => cons_map (f := fun vs => Vals.cons v vs) (ih r))
    rw [Nat.succ_mul, Nat.add_comm]
    exact this

mutual
theorem consT : ∀ t : Ty, ConsT t
  | .prim p => by intro c flex src; rw [dec]; simpa [minW] using cons_decPrim p src
  | .str k => by intro c flex src; rw [dec]; simpa [minW] using cons_decStr c.ver flex k src
  | .arr k t => by
    intro c flex src
    rw [dec]
    simp only [minW]
    refine Cons.weaken (w := 1 + 0) ?_ (by omega)
    apply cons_andThen (cons_decArrLen flex k src)
    intro l r _
    split
    · intro v r' e
      obtain ⟨n, r1, _, e2⟩ := andThen_ok_inv e
      have := cons_map (f := Val.list) (decList_cons c flex t (consT t) n r) v r' e2
      omega
    · exact cons_ok _ _
  | .struct nullable ff fs => by
    intro c flex src
    have F := consF fs c (flexAt ff c.ver)
    rw [dec]
    intro v r e
    obtain ⟨isP, r0, e0, e1⟩ := andThen_ok_inv e
    have c0 := cons_structPre nullable src isP r0 e0
    have body : r.length + (if isP then minWF c.ver fs + (if flexAt ff c.ver then 1 else 0) else 0) ≤ r0.length := by
      split at e1
      · rename_i hp
        cases e1
        have : isP = false := by simpa using hp
        simp [this]
      · rename_i hp
        have hpt : isP = true := by simpa using hp
        obtain ⟨vals, r1, e2, e3⟩ := andThen_ok_inv e1
        have c1 := F r0 vals r1 e2
        split at e3
        · rename_i hfl
          obtain ⟨num, r2, e4, e5⟩ := andThen_ok_inv e3
          have c2 := cons_readUvarint r1 num r2 e4
          obtain ⟨raw, r3, e6, e7⟩ := andThen_ok_inv e5
          have c3 : r3.length ≤ r2.length := by
            simp only [readTagsOf] at e6
            cases hrr : readRawTags num r2 with
            | ok l' r' => rw [hrr] at e6; cases e6; have := (readRawTags_cons num r2 _ _ hrr).2; omega
            | err s => rw [hrr] at e6; cases e6
            | panic m => rw [hrr] at e6; cases e6
          obtain ⟨vals', x, _, e8⟩ := andThen_ok_inv e7
          cases e8
          simp [hpt, hfl]; omega
        · rename_i hfl
          cases e3
          have : flexAt ff c.ver = false := by simpa using hfl
          simp [hpt, this]; omega
    cases nullable with
    | true =>
      simp only [if_true] at c0
      simp only [minW, if_true]
      have : r.length ≤ r0.length := by
        cases isP <;> simp at body <;> omega
      omega
    | false =>
      have hp : isP = true := by
        simp only [structPre, Bool.false_eq_true, if_false] at e0
        cases e0; rfl
      simp only [Bool.false_eq_true, if_false] at c0
      simp only [hp, if_true] at body
      simp only [minW, Bool.false_eq_true, if_false]
      omega
theorem consF : ∀ fs : Fields, ConsF fs
  | .nil => by intro c flex src; rw [decFields]; simpa [minWF] using cons_ok _ _
  | .cons name minV maxV tag d t rest => by
    intro c flex src
    have R := consF rest c flex
    rw [decFields]
    split
    · rename_i hc
      simpa [minWF, hc] using cons_map (f := fun vs => Vals.cons (dfltVal t d) vs) (R src)
    · rename_i hc
      have := cons_andThen (consT t c flex src) (fun v r _ => cons_map (f := fun vs => Vals.cons v vs) (R r))
      simpa [minWF, hc] using this
end

end Proof.C16
